package main

import (
	"fmt"
	"strconv"
	"strings"

	"verifharness/internal/wire"
)

var (
	timePool  = []int64{100, 200, 300}
	namePool  = []string{"a", "b", "c", "d", "default", "e", "B"}
	selPool   = [][][2]string{{{"app", "a"}}, {{"app", "a"}, {"ver", "1"}}, {{"app", "b"}}, {{"ver", "1"}}, {{"app", "a"}, {"ver", "2"}}}
	labelPool = [][][2]string{
		{{"app", "a"}}, {{"app", "a"}, {"ver", "1"}}, {{"app", "b"}}, nil,
		{{"app", "a"}, {"ver", "2"}, {"x", "y"}}, {{"ver", "1"}, {"app", "a"}}, {{"app", "b"}, {"ver", "1"}},
	}
	portPool     = []uint32{80, 8080, 9000, 9090, 8081, 81}
	queryPort    = []uint32{80, 8080, 9000, 9090, 8081, 81, 7777} // portPool and a port nothing mentions
	awEvery      = 150                                            // one case in awEvery of stream ambient has an op on the real index
	reservedPool = []uint32{15006, 15001, 15008, 15021, 15090, 443}
	clKinds      = []string{"router", "noauto", "noistio", "external", "passthrough", "ptdisabled", "ptnoistio", "drpassthrough", "drptdisabled", "drdisable", "dristio", "drsubsetdisable", "drsubsetfallback", "k8s", "k8snoistio", "hbone", "two"}
	realModes    = []string{"UNSET", "DISABLE", "PERMISSIVE", "STRICT"}
	drToks       = []string{"nil", "nil", "nil", "DISABLE", "SIMPLE", "MUTUAL", "ISTIO_MUTUAL"}
)

func pickMode(r *wire.Rng) string {
	if r.Chance(1, 10) {
		return "nil"
	}
	return wire.Pick(r, realModes)
}

func genPorts(r *wire.Rng) []portMode {
	var out []portMode
	for i, p := range portPool {
		// the first three ports as before; the others (9090 auto service port, 8081 target port of
		// service port 81, 81 itself) less often
		if (i < 3 && r.Chance(1, 2)) || (i >= 3 && r.Chance(1, 4)) {
			out = append(out, portMode{p, pickMode(r)})
		}
	}
	if len(out) == 0 {
		out = append(out, portMode{wire.Pick(r, portPool), pickMode(r)})
	}
	if r.Chance(1, 10) {
		// a port-level entry on a port the proxy itself listens on (validation allows it) or a privileged port
		out = append(out, portMode{wire.Pick(r, reservedPool), pickMode(r)})
	}
	if r.Chance(1, 2) { // the ops file keeps an arbitrary order (a Go map has none)
		for i, j := 0, len(out)-1; i < j; i, j = i+1, j-1 {
			out[i], out[j] = out[j], out[i]
		}
	}
	return out
}

// genPolicies: 0-6 policies; all four modes; mesh / namespace / selector / port-level; creation
// times from a 3-value pool (ties are frequent); several per level; names chosen so that the
// name tie-break is not the input order.
func genPolicies(r *wire.Rng, root string, nsPool []string) []paIn {
	n := r.Intn(7)
	times := timePool
	if r.Chance(1, 4) {
		times = []int64{wire.Pick(r, timePool)} // every policy created in the same second
	}
	used := map[string]bool{}
	var out []paIn
	for len(out) < n {
		var p paIn
		p.time = wire.Pick(r, times)
		p.mtls = pickMode(r)
		p.selNil = true
		switch k := r.Intn(10); {
		case k < 2: // mesh level
			p.ns = root
		case k < 5: // namespace level
			p.ns = wire.Pick(r, nsPool)
		default: // workload selector (sometimes in the root namespace: must be ignored)
			p.ns = wire.Pick(r, nsPool)
			if r.Chance(3, 4) {
				p.ns = nsPool[1]
			}
			p.selNil = false
			p.sel = wire.Pick(r, selPool)
			if r.Chance(2, 3) {
				p.ports = genPorts(r)
			}
		}
		// odd corners: present-but-empty selector; port-level on a selector-less policy
		if p.selNil && r.Chance(1, 12) {
			p.selNil = false
			p.sel = nil
		}
		if p.selNil && r.Chance(1, 15) {
			p.ports = genPorts(r)
		}
		p.name = wire.Pick(r, namePool)
		if used[p.ns+"/"+p.name] {
			continue
		}
		used[p.ns+"/"+p.name] = true
		out = append(out, p)
	}
	return out
}

func genRoot(r *wire.Rng) (string, []string) {
	root := "istio-system"
	switch r.Intn(8) {
	case 0:
		root = "zz-root" // sorts after the workload namespaces
	case 1:
		root = "ns1" // the root namespace is also a workload namespace
	}
	pool := []string{root, "ns1", "ns2"}
	if root == "ns1" {
		pool = []string{root, "ns2", "ns3"}
	}
	return root, pool
}

func gen(stream string, seed uint64, n int, outp string) {
	out := wire.Create(outp)
	defer out.Close()
	rootRng := wire.NewRng(seed ^ 0xC10)
	clTurn := int(seed % 17)
	for c := 0; c < n; c++ {
		r := rootRng.Fork()
		root, nsPool := genRoot(r)
		out.Line("case", strconv.Itoa(c), stream, wire.Enc(root))
		pols := genPolicies(r, root, nsPool)
		var selPols []paIn
		for _, p := range pols {
			out.Line(p.line()...)
			if p.hasSelector() {
				selPols = append(selPols, p)
			}
		}
		pickNs := func() string {
			if r.Chance(2, 3) {
				return nsPool[1]
			}
			return wire.Pick(r, nsPool)
		}
		if stream == "ambient" && len(pols) > 0 {
			// direct calls of the hooked functions on arbitrary arguments (also ones the callers never build)
			idx := func() string { return strconv.Itoa(r.Intn(len(pols))) }
			opt := func() string {
				if r.Chance(1, 3) {
					return "-"
				}
				return idx()
			}
			for i := r.Intn(3); i > 0; i-- {
				t := idx()
				if len(selPols) > 0 && r.Chance(3, 4) { // mostly a policy with selector and ports
					for k, p := range pols {
						if p.hasSelector() && len(p.ports) > 0 && r.Chance(1, 2) {
							t = strconv.Itoa(k)
						}
					}
				}
				out.Line("cv", t, opt(), opt())
			}
			if r.Chance(1, 2) {
				var l []string
				for k := range pols {
					if r.Chance(2, 3) {
						l = append(l, strconv.Itoa(k))
					}
				}
				if r.Chance(1, 2) {
					for a, b := 0, len(l)-1; a < b; a, b = a+1, b-1 {
						l[a], l[b] = l[b], l[a]
					}
				}
				out.Line("ks", wire.EncList(l))
				out.Line("go", wire.EncList(l))
			}
		}
		awChance := awEvery * 6
		if len(selPols) > 0 {
			awChance = awEvery // mostly where a selector policy can tell label sets apart
		}
		if stream == "ambient" && r.Chance(1, awChance) {
			// the REAL ambient index (krt pipeline on a fake kube client, ~0.1 s per op): a pod, a WorkloadEntry
			// (spec labels / metadata labels) or a ServiceEntry with an inline endpoint (endpoint labels /
			// resource labels), labels aimed at a selector policy on either side
			aim := func() [][2]string {
				if len(selPols) > 0 && r.Chance(2, 3) {
					l := append([][2]string(nil), wire.Pick(r, selPols).sel...)
					if r.Chance(1, 4) {
						l = append(l, [2]string{"x", "y"})
					}
					return l
				}
				return wire.Pick(r, labelPool)
			}
			ns := pickNs()
			if len(selPols) > 0 && r.Chance(3, 4) {
				ns = wire.Pick(r, selPols).ns
			}
			kind := wire.Pick(r, []string{"pod", "we", "se", "se"})
			meta := [][2]string(nil)
			if kind != "pod" && r.Chance(2, 3) {
				meta = aim()
			}
			awLine := []string{"aw", kind, wire.Enc(ns), encLabels(aim()), encLabels(meta)}
			out.Line(awLine...)
			// HISTORY: the index lives on; edit a policy through the kube client and read the same workload again
			cur := append([]paIn(nil), pols...)
			for e, ne := 0, r.Intn(3); e < ne; e++ {
				switch {
				case len(cur) > 0 && r.Chance(1, 2):
					k := r.Intn(len(cur))
					m := pickMode(r)
					for m == cur[k].mtls {
						m = pickMode(r)
					}
					var ports []portMode
					if cur[k].hasSelector() && r.Chance(1, 2) {
						ports = genPorts(r)
					}
					cur[k].mtls, cur[k].ports = m, ports
					out.Line("pu", strconv.Itoa(k), m, encPorts(ports))
				case len(cur) > 0 && r.Chance(1, 2):
					k := r.Intn(len(cur))
					cur = append(append([]paIn(nil), cur[:k]...), cur[k+1:]...)
					out.Line("pd", strconv.Itoa(k))
				default:
					p := paIn{name: "h" + strconv.Itoa(e), ns: ns, time: wire.Pick(r, timePool), selNil: true, mtls: pickMode(r)}
					if r.Chance(1, 3) {
						p.ns = root
					} else if r.Chance(2, 3) {
						p.selNil, p.sel = false, aim()
						if len(p.sel) == 0 {
							p.sel = [][2]string{{"app", "a"}}
						}
						if r.Chance(1, 2) {
							p.ports = genPorts(r)
						}
					}
					cur = append(cur, p)
					out.Line(p.line()...)
				}
				out.Line(awLine...)
			}
			if len(cur) != len(pols) {
				pols = cur
			}
			copy(pols, cur)
		}
		if stream == "inbound" && r.Chance(1, 8) {
			// a case with a HISTORY: one FakeDiscoveryServer for the whole case, read (hc), edit a policy through the
			// config store (update / create / delete), read again on the same server and the same proxies
			ns := pickNs()
			labels := wire.Pick(r, labelPool)
			if len(selPols) > 0 && r.Chance(2, 3) {
				t := wire.Pick(r, selPols)
				ns, labels = t.ns, append([][2]string(nil), t.sel...)
			}
			kind := wire.Pick(r, []string{"normal", "normal", "normal", "hbone", "router", "two:app=b"})
			read := []string{"hc", wire.Enc(ns), encLabels(labels), wire.Enc(wire.Pick(r, nsPool)), kind, strconv.Itoa(int(wire.Pick(r, []uint32{80, 80, 8080, 81})))}
			out.Line(read...)
			cur := append([]paIn(nil), pols...)
			for e, ne := 0, 2+r.Intn(3); e < ne; e++ {
				switch {
				case len(cur) > 0 && r.Chance(1, 2):
					// edit: another mode (and other port-level settings on a selector policy)
					k := r.Intn(len(cur))
					m := pickMode(r)
					for m == cur[k].mtls {
						m = pickMode(r)
					}
					var ports []portMode
					if cur[k].hasSelector() && r.Chance(1, 2) {
						ports = genPorts(r)
					}
					cur[k].mtls, cur[k].ports = m, ports
					out.Line("pu", strconv.Itoa(k), m, encPorts(ports))
				case len(cur) > 0 && r.Chance(1, 2):
					k := r.Intn(len(cur))
					cur = append(append([]paIn(nil), cur[:k]...), cur[k+1:]...)
					out.Line("pd", strconv.Itoa(k))
				default:
					// create: mostly in the namespace of the service or the root namespace, where it matters
					p := paIn{name: "h" + strconv.Itoa(e), ns: ns, time: wire.Pick(r, timePool), selNil: true, mtls: pickMode(r)}
					if r.Chance(1, 3) {
						p.ns = root
					} else if r.Chance(1, 2) {
						p.selNil, p.sel = false, append([][2]string(nil), labels...)
						if len(p.sel) == 0 {
							p.sel = [][2]string{{"app", "a"}}
						}
						if r.Chance(1, 2) {
							p.ports = genPorts(r)
						}
					}
					cur = append(cur, p)
					out.Line(p.line()...)
				}
				out.Line(read...)
			}
			continue
		}
		nq := 1 + r.Intn(3)
		var again [][]string // compose: queries repeated after a spec edit (the version must change with the spec)
		for i := 0; i < nq; i++ {
			ns := pickNs()
			labels := wire.Pick(r, labelPool)
			if len(selPols) > 0 && r.Chance(2, 3) {
				// aim at a selector policy: its namespace, its selector (+ sometimes one more label)
				t := wire.Pick(r, selPols)
				ns = t.ns
				labels = append([][2]string(nil), t.sel...)
				if r.Chance(1, 3) {
					labels = append(labels, [2]string{"x", "y"})
				}
			}
			switch stream {
			case "inbound":
				if r.Chance(1, 3) {
					// a Sidecar with ingress listeners (some with user TLS) instead of service-derived chains
					var ing []string
					for _, p := range []uint32{80, 8080, 9000, 9090, 81, 8081} {
						if r.Chance(1, 2) {
							proto := wire.Pick(r, []string{"tcp", "http", "http", "tcp", "auto"})
							// user TLS needs a protocol that says what is behind the TLS (HTTPS / TLS)
							tls := proto != "auto" && r.Chance(1, 3)
							ing = append(ing, strconv.Itoa(int(p))+":"+proto+":"+wire.B(tls)+":"+wire.B(r.Chance(1, 4)))
						}
					}
					if len(ing) > 0 {
						if r.Chance(1, 8) {
							// a proxy without iptables redirection: every ingress listener binds to its port; one in
							// three unprivileged (ports below 1024 - here 80 and 81 - cannot be bound)
							out.Line("ils", wire.Enc(ns), encLabels(labels), wire.EncList(ing), "0", "1", wire.B(r.Chance(1, 3)))
							break
						}
						out.Line("ils", wire.Enc(ns), encLabels(labels), wire.EncList(ing), wire.B(r.Chance(1, 3)))
						break
					}
				}
				if r.Chance(1, 3) {
					// the composed client decision end to end; two in five an ordinary in-mesh service, else the other
					// kinds in turn (every kind is reached some ten times per quick run); service port 81 has target
					// port 8081
					kind := "normal"
					if r.Chance(3, 5) {
						kind = clKinds[clTurn%len(clKinds)]
						clTurn++
						if kind == "two" {
							// a second endpoint, aimed at another selector policy of the namespace if there is one
							l2 := wire.Pick(r, labelPool)
							for _, p := range selPols {
								if p.ns == ns && encLabels(p.sel) != encLabels(labels) && r.Chance(2, 3) {
									l2 = p.sel
								}
							}
							kind = "two:" + encLabels(l2)
						}
					}
					out.Line("cl", wire.Enc(ns), encLabels(labels), wire.Enc(wire.Pick(r, nsPool)), kind, strconv.Itoa(int(wire.Pick(r, []uint32{80, 80, 8080, 9000, 81, 81}))))
					break
				}
				if r.Chance(1, 12) {
					out.Line("ilt", wire.Enc(ns), encLabels(labels))
					break
				}
				if r.Chance(1, 8) {
					// arbitrary services, some on reserved target ports (skipped by CanBindToPort) or privileged ones
					var svcs []string
					for i, n := 0, r.Intn(5); i < n; i++ {
						t := wire.Pick(r, []uint32{80, 8080, 9090, 8081, 9000, 443, 15006, 15001, 15021, 15090, 15008})
						sp := t
						if r.Chance(1, 3) {
							sp = uint32(7000 + i) // service port differs from the target port
						}
						svcs = append(svcs, fmt.Sprintf("%d:%d:%s", sp, t, wire.Pick(r, []string{"HTTP", "TCP", "TCP", "UNSUPPORTED", "GRPC", "TLS"})))
					}
					out.Line("ilr", wire.Enc(ns), encLabels(labels), wire.EncList(svcs))
					break
				}
				if r.Chance(1, 5) {
					out.Line("ilh", wire.Enc(ns), encLabels(labels))
					break
				}
				if r.Chance(1, 5) {
					// other service protocols, fewer services, a proxy without services
					names := []string{"HTTP", "HTTP2", "GRPC", "TCP", "HTTPS", "TLS", "Mongo", "UDP", "", "none", "none"}
					if r.Chance(1, 6) {
						names = []string{"none"}
					}
					ps := []string{wire.Pick(r, names), wire.Pick(r, names), wire.Pick(r, names), wire.Pick(r, names)}
					for i := range ps {
						if ps[i] == "" {
							ps[i] = "UNSUPPORTED"
						}
					}
					out.Line("ilp", wire.Enc(ns), encLabels(labels), strings.Join(ps, ":"))
					break
				}
				out.Line("il", wire.Enc(ns), encLabels(labels))
			case "ambient":
				out.Line("aq", wire.Enc(ns), encLabels(labels), encPortList(queryPort))
			default:
				svc := "-"
				if r.Chance(1, 8) {
					svc = wire.Enc(wire.Pick(r, nsPool))
				}
				out.Line("q", wire.Enc(ns), encLabels(labels), svc, encPortList(queryPort))
				again = append(again, []string{"q", wire.Enc(ns), encLabels(labels), svc, encPortList(queryPort)})
				if r.Chance(1, 2) {
					// the client: its namespace and the namespaces of the services its sidecar scope imports
					// (mostly including the endpoint's namespace, as it must to reach the service at all)
					client := wire.Pick(r, nsPool)
					var imported []string
					if r.Chance(5, 6) {
						imported = append(imported, ns)
					}
					for _, n := range nsPool {
						if r.Chance(1, 4) {
							imported = append(imported, n)
						}
					}
					l := []string{"chk", wire.Enc(ns), encLabels(labels), strconv.Itoa(int(wire.Pick(r, queryPort))),
						wire.B(r.Chance(4, 5)), genDR(r), wire.Enc(client), wire.EncList(imported), wire.B(r.Chance(1, 8))}
					out.Line(l...)
					again = append(again, l)
				}
			}
		}
		if stream == "compose" && len(pols) > 0 && r.Chance(1, 3) {
			// a spec edit (new mode and port-level settings, ResourceVersion bumped), then the same queries again
			k := r.Intn(len(pols))
			var ports []portMode
			if pols[k].hasSelector() && r.Chance(2, 3) {
				ports = genPorts(r)
			}
			out.Line("pu", strconv.Itoa(k), pickMode(r), encPorts(ports))
			for _, l := range again {
				out.Line(l...)
			}
		}
	}
}

var drModes = []string{"DISABLE", "SIMPLE", "MUTUAL", "ISTIO_MUTUAL"}

func genTP(r *wire.Rng) (string, string) {
	tls, ports := "-", "-"
	if r.Chance(1, 2) {
		tls = wire.Pick(r, drModes)
	}
	if r.Chance(1, 2) {
		var l []string
		for _, p := range []int{80, 8080, 80} { // the service port of the cluster is 80; a duplicate entry tests "first wins"
			if r.Chance(1, 2) {
				m := "nil"
				if r.Chance(3, 4) {
					m = wire.Pick(r, drModes)
				}
				l = append(l, strconv.Itoa(p)+"="+m)
			}
		}
		if len(l) > 0 {
			ports = strings.Join(l, ";")
		}
	}
	return tls, ports
}

// genDR: no rule (most often), a bare rule-level TLS mode, or a rule with port-level settings and subsets.
func genDR(r *wire.Rng) string {
	switch k := r.Intn(10); {
	case k < 4:
		return "nil"
	case k < 6:
		return wire.Pick(r, drModes)
	}
	tls, ports := genTP(r)
	subsets := "-"
	var names []string
	if r.Chance(2, 3) {
		var l []string
		for _, n := range []string{"v1", "v2"} {
			if r.Chance(2, 3) {
				st, sp := genTP(r)
				l = append(l, n+"~"+st+"~"+sp)
				names = append(names, n)
			}
		}
		if len(l) > 0 {
			subsets = strings.Join(l, "+")
		}
	}
	sel := "-"
	if r.Chance(1, 2) {
		sel = wire.Pick(r, append(names, "v3")) // sometimes a subset the rule does not define
	}
	return tls + "/" + ports + "/" + subsets + "/" + sel
}
