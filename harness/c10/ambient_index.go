package main

// Op `aw` (stream ambient): the policy keys a workload gets from the REAL ambient index - the whole krt
// pipeline on a fake kube client (PeerAuthentication CRs + Pods / WorkloadEntries / ServiceEntries with an inline
// endpoint), i.e. the three production callers of buildWorkloadPolicies (workloads.go podWorkloadBuilder,
// workloadEntryWorkloadBuilder, serviceEntryWorkloadBuilder) with the labels THEY pass.
//
//	aw <pod|we|se> <ns> <labels> <metaLabels>   -> K=<AuthorizationPolicies of the workload, sorted>
//
// labels: the workload's labels (pod labels / WorkloadEntry spec.labels / the inline endpoint's labels);
// metaLabels: the metadata labels of the WorkloadEntry / ServiceEntry resource ("-": none; ignored for pods).
//
// The index LIVES for the rest of the case: the same `aw` line names the same workload object, and every later
// pa / pu / pd of the case goes through the kube client (create / update / delete of the CR), so that a second read
// of the workload shows what the krt dependencies (Fetch in the workload builders and in PeerAuthDerivedPolicies)
// re-evaluated.

import (
	"context"
	"fmt"
	"sort"
	"strings"
	"time"

	corev1 "k8s.io/api/core/v1"
	metav1 "k8s.io/apimachinery/pkg/apis/meta/v1"
	"k8s.io/apimachinery/pkg/runtime"

	networkingapi "istio.io/api/networking/v1alpha3"
	networkingclient "istio.io/client-go/pkg/apis/networking/v1"
	"istio.io/istio/pilot/pkg/features"
	"istio.io/istio/pilot/pkg/model"
	xdsfake "istio.io/istio/pilot/test/xds"
	"istio.io/istio/pkg/config/mesh"
	"istio.io/istio/pkg/util/sets"
	"verifharness/internal/quiet"
)

type ambWorld struct {
	f       *failer
	fs      *xdsfake.FakeDiscoveryServer
	idx     model.AmbientIndexes
	ips     map[string]string // aw line -> address of its workload
	edited  bool
	restore func()
}

func (w *ambWorld) close() {
	w.f.done()
	w.restore()
}

func (s *sut) ambWorld() *ambWorld {
	if s.liveAmb != nil {
		return s.liveAmb
	}
	f := &failer{}
	oldAmbient := features.EnableAmbient
	features.EnableAmbient = true
	var objs []runtime.Object
	seenNs := map[string]bool{}
	for _, n := range []string{s.root, "ns1", "ns2", "ns3", "istio-system", "zz-root"} {
		if !seenNs[n] {
			objs = append(objs, &corev1.Namespace{ObjectMeta: metav1.ObjectMeta{Name: n}})
		}
		seenNs[n] = true
	}
	for _, p := range s.pas {
		objs = append(objs, crOf(p))
	}
	mc := mesh.DefaultMeshConfig()
	mc.RootNamespace = s.root
	fs := xdsfake.NewFakeDiscoveryServer(f, xdsfake.FakeOptions{KubernetesObjects: objs, MeshConfig: mc})
	quiet.Silence()
	s.liveAmb = &ambWorld{f: f, fs: fs, idx: fs.Discovery.Env.AmbientIndexes, ips: map[string]string{},
		restore: func() { features.EnableAmbient = oldAmbient }}
	return s.liveAmb
}

// edit: one PeerAuthentication change through the kube client of the live index.
func (w *ambWorld) edit(op string, p paIn) {
	c := w.fs.KubeClient().Istio().SecurityV1().PeerAuthentications(p.ns)
	var err error
	switch op {
	case "create":
		_, err = c.Create(context.Background(), crOf(p), metav1.CreateOptions{})
	case "update":
		_, err = c.Update(context.Background(), crOf(p), metav1.UpdateOptions{})
	case "delete":
		err = c.Delete(context.Background(), p.name, metav1.DeleteOptions{})
	}
	if err != nil {
		panic("ambient edit " + op + ": " + err.Error())
	}
	w.edited = true
}

func (s *sut) ambientWorkload(kind, ns string, labels, meta [][2]string) string {
	if kind != "pod" && kind != "we" && kind != "se" {
		return "bad-op"
	}
	w := s.ambWorld()
	key := strings.Join([]string{kind, ns, encLabels(labels), encLabels(meta)}, " ")
	ip, exists := w.ips[key]
	if !exists {
		n := len(w.ips) + 1
		ip = fmt.Sprintf("10.7.7.%d", n)
		name := fmt.Sprintf("w%d", n)
		w.ips[key] = ip
		lm := labelsMap(labels)
		kc := w.fs.KubeClient()
		var err error
		switch kind {
		case "pod":
			_, err = kc.Kube().CoreV1().Pods(ns).Create(context.Background(), &corev1.Pod{
				ObjectMeta: metav1.ObjectMeta{Name: name, Namespace: ns, Labels: lm},
				Spec:       corev1.PodSpec{ServiceAccountName: "sa", NodeName: "node1"},
				Status: corev1.PodStatus{
					PodIP: ip, PodIPs: []corev1.PodIP{{IP: ip}}, Phase: corev1.PodRunning,
					Conditions: []corev1.PodCondition{{Type: corev1.PodReady, Status: corev1.ConditionTrue}},
				},
			}, metav1.CreateOptions{})
		case "we":
			_, err = kc.Istio().NetworkingV1().WorkloadEntries(ns).Create(context.Background(), &networkingclient.WorkloadEntry{
				ObjectMeta: metav1.ObjectMeta{Name: name, Namespace: ns, Labels: labelsMap(meta)},
				Spec:       networkingapi.WorkloadEntry{Address: ip, Labels: lm},
			}, metav1.CreateOptions{})
		case "se":
			_, err = kc.Istio().NetworkingV1().ServiceEntries(ns).Create(context.Background(), &networkingclient.ServiceEntry{
				ObjectMeta: metav1.ObjectMeta{Name: name, Namespace: ns, Labels: labelsMap(meta)},
				Spec: networkingapi.ServiceEntry{
					Hosts:      []string{name + "." + ns + ".example.com"},
					Ports:      []*networkingapi.ServicePort{{Number: 80, Name: "http", Protocol: "HTTP"}},
					Location:   networkingapi.ServiceEntry_MESH_INTERNAL,
					Resolution: networkingapi.ServiceEntry_STATIC,
					Endpoints:  []*networkingapi.WorkloadEntry{{Address: ip, Labels: lm}},
				},
			}, metav1.CreateOptions{})
		}
		if err != nil {
			panic("aw create: " + err.Error())
		}
	}
	// the workload's own labels, for the WAITING strategy only (see below)
	own := labels
	if kind == "we" {
		own = mergedLabels(labels, meta)
	}
	// The informers and the krt pipeline are asynchronous and offer no barrier. Wait until the workload is there and its
	// policy list has not changed for a while; after an edit additionally (for at most 3 s) until the list enforces what
	// the specification says - on a correct index that is the final state, a stale index runs into the limit and its
	// stale answer is what gets printed and judged. The printed value is always the index's own.
	read := func() (string, []string) {
		info, _ := w.idx.AddressInformation(sets.New("/" + ip))
		if len(info) == 0 || info[0].GetWorkload() == nil {
			return "absent", nil
		}
		keys := append([]string(nil), info[0].GetWorkload().GetAuthorizationPolicies()...)
		sort.Strings(keys)
		if len(keys) == 0 {
			return "K=-", keys
		}
		return "K=" + strings.Join(keys, ","), keys
	}
	consistent := func(keys []string) bool {
		v := s.ambientView()
		r := ambientResult{keys: keys}
		s.evalKeys(v, &r)
		if r.dangling {
			return false
		}
		for _, p := range queryPort {
			got, ok := r.denied(false, p)
			if !ok || got != (effectiveMode(s.pas, s.root, ns, own, p) == "STRICT") {
				return false
			}
		}
		return true
	}
	last, stable := "?", 0
	start := time.Now()
	deadline := start.Add(8 * time.Second)
	specLimit := start.Add(3 * time.Second)
	for time.Now().Before(deadline) {
		cur, keys := read()
		if cur == last && cur != "absent" {
			stable++
			if stable >= 15 && (!w.edited || time.Now().After(specLimit) || consistent(keys)) {
				return cur
			}
		} else {
			stable = 0
		}
		last = cur
		time.Sleep(2 * time.Millisecond)
	}
	return "timeout:" + last
}
