package main

// Op `aw` (stream ambient): the policy keys a workload gets from the REAL ambient index - the whole krt
// pipeline on a fake kube client (PeerAuthentication CRs + one Pod / WorkloadEntry / ServiceEntry with an inline
// endpoint), i.e. the three production callers of buildWorkloadPolicies (workloads.go podWorkloadBuilder,
// workloadEntryWorkloadBuilder, serviceEntryWorkloadBuilder) with the labels THEY pass.
//
//	aw <pod|we|se> <ns> <labels> <metaLabels>   -> K=<AuthorizationPolicies of the workload, sorted>
//
// labels: the workload's labels (pod labels / WorkloadEntry spec.labels / the inline endpoint's labels);
// metaLabels: the metadata labels of the WorkloadEntry / ServiceEntry resource ("-": none; ignored for pods).

import (
	"sort"
	"strings"
	"time"

	corev1 "k8s.io/api/core/v1"
	metav1 "k8s.io/apimachinery/pkg/apis/meta/v1"
	"k8s.io/apimachinery/pkg/runtime"

	networkingapi "istio.io/api/networking/v1alpha3"
	networkingclient "istio.io/client-go/pkg/apis/networking/v1"
	"istio.io/istio/pilot/pkg/features"
	xdsfake "istio.io/istio/pilot/test/xds"
	"istio.io/istio/pkg/config/mesh"
	"istio.io/istio/pkg/util/sets"
	"verifharness/internal/quiet"
)

func (s *sut) ambientWorkload(kind, ns string, labels, meta [][2]string) string {
	f := &failer{}
	defer f.done()
	features.EnableAmbient = true
	const ip = "10.7.7.7"
	var objs []runtime.Object
	seenNs := map[string]bool{}
	for _, n := range []string{s.root, ns, "ns1", "ns2", "ns3"} {
		if !seenNs[n] {
			objs = append(objs, &corev1.Namespace{ObjectMeta: metav1.ObjectMeta{Name: n}})
		}
		seenNs[n] = true
	}
	for _, p := range s.pas {
		objs = append(objs, crOf(p))
	}
	lm := labelsMap(labels)
	switch kind {
	case "pod":
		objs = append(objs, &corev1.Pod{
			ObjectMeta: metav1.ObjectMeta{Name: "w", Namespace: ns, Labels: lm},
			Spec:       corev1.PodSpec{ServiceAccountName: "sa", NodeName: "node1"},
			Status: corev1.PodStatus{
				PodIP: ip, PodIPs: []corev1.PodIP{{IP: ip}}, Phase: corev1.PodRunning,
				Conditions: []corev1.PodCondition{{Type: corev1.PodReady, Status: corev1.ConditionTrue}},
			},
		})
	case "we":
		objs = append(objs, &networkingclient.WorkloadEntry{
			ObjectMeta: metav1.ObjectMeta{Name: "w", Namespace: ns, Labels: labelsMap(meta)},
			Spec:       networkingapi.WorkloadEntry{Address: ip, Labels: lm},
		})
	case "se":
		objs = append(objs, &networkingclient.ServiceEntry{
			ObjectMeta: metav1.ObjectMeta{Name: "w", Namespace: ns, Labels: labelsMap(meta)},
			Spec: networkingapi.ServiceEntry{
				Hosts:      []string{"w." + ns + ".example.com"},
				Ports:      []*networkingapi.ServicePort{{Number: 80, Name: "http", Protocol: "HTTP"}},
				Location:   networkingapi.ServiceEntry_MESH_INTERNAL,
				Resolution: networkingapi.ServiceEntry_STATIC,
				Endpoints:  []*networkingapi.WorkloadEntry{{Address: ip, Labels: lm}},
			},
		})
	default:
		return "bad-op"
	}
	mc := mesh.DefaultMeshConfig()
	mc.RootNamespace = s.root
	fs := xdsfake.NewFakeDiscoveryServer(f, xdsfake.FakeOptions{KubernetesObjects: objs, MeshConfig: mc})
	quiet.Silence()
	idx := fs.Discovery.Env.AmbientIndexes
	// the informers and the krt pipeline are asynchronous: wait until the workload is there and its policy list
	// has not changed for a while
	last, stable := "?", 0
	deadline := time.Now().Add(8 * time.Second)
	for time.Now().Before(deadline) {
		cur := "absent"
		if info, _ := idx.AddressInformation(sets.New("/" + ip)); len(info) > 0 && info[0].GetWorkload() != nil {
			keys := append([]string(nil), info[0].GetWorkload().GetAuthorizationPolicies()...)
			sort.Strings(keys)
			cur = "K=-"
			if len(keys) > 0 {
				cur = "K=" + strings.Join(keys, ",")
			}
		}
		if cur == last && cur != "absent" {
			stable++
			if stable >= 15 {
				return cur
			}
		} else {
			stable = 0
		}
		last = cur
		time.Sleep(2 * time.Millisecond)
	}
	return "timeout:" + last
}
