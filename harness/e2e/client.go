package main

// An in-process Envoy-like xDS client that speaks either state-of-the-world or delta ADS. It
// implements the server side of the gRPC stream interfaces directly (xds.DiscoveryStream /
// xds.DeltaDiscoveryStream) and is handed to the REAL DiscoveryServer.Stream / StreamDeltas, so
// the server's Send runs the client's response handling synchronously: "the server finished
// pushing" implies "the client has applied it".
//
// Client model (both protocols): CDS and LDS are wildcard subscriptions; EDS is subscribed for the
// EDS-type clusters held, RDS for the route names referenced by the listeners held; every response
// is ACKed; EDS / RDS are re-requested when the referenced set changes; a named resource is dropped
// when its parent no longer references it. SotW: a CDS / LDS response replaces the whole set, an
// EDS / RDS response updates the resources it carries; like Envoy, the client re-sends its EDS
// request after a CDS response that adds or changes an EDS cluster (warming). Delta: the client
// sends subscribe / unsubscribe diffs and applies resources and removed_resources.
//
// The client object outlives a stream: connect() on a client that already holds state presents
// that state (SotW: version_info / response_nonce / resource names of the previous stream; delta:
// initial_resource_versions for everything retained).

import (
	"context"
	"fmt"
	"io"
	"net"
	"sort"
	"strings"
	"sync"
	"sync/atomic"
	"time"

	cluster "github.com/envoyproxy/go-control-plane/envoy/config/cluster/v3"
	envoycore "github.com/envoyproxy/go-control-plane/envoy/config/core/v3"
	listener "github.com/envoyproxy/go-control-plane/envoy/config/listener/v3"
	hcm "github.com/envoyproxy/go-control-plane/envoy/extensions/filters/network/http_connection_manager/v3"
	discovery "github.com/envoyproxy/go-control-plane/envoy/service/discovery/v3"
	rpcstatus "google.golang.org/genproto/googleapis/rpc/status"
	"google.golang.org/grpc/codes"
	"google.golang.org/grpc/metadata"
	"google.golang.org/grpc/peer"
	"google.golang.org/grpc/status"
	"google.golang.org/protobuf/types/known/anypb"

	"istio.io/istio/pilot/pkg/model"
	v3 "istio.io/istio/pilot/pkg/xds/v3"
	"istio.io/istio/pilot/test/xdstest"
)

var longType = map[string]string{
	"CDS": v3.ClusterType, "EDS": v3.EndpointType, "LDS": v3.ListenerType, "RDS": v3.RouteType,
	"WDS": v3.AddressType, "WADS": v3.WorkloadAuthorizationType, "ECDS": v3.ExtensionConfigurationType, "NDS": v3.NameTableType,
}

func shortType(url string) string {
	for k, v := range longType {
		if v == url {
			return k
		}
	}
	return url
}

var envoyTypes = []string{"CDS", "EDS", "LDS", "RDS"}

type resEntry struct {
	Hash   string
	Ver    string
	Text   string
	Eds    string   // clusters: the EDS resource name this cluster needs ("" = not an EDS cluster)
	Routes []string // listeners: the RDS route names referenced
	Ecds   []string // listeners: the ECDS extension config names referenced (c03.go ecdsOfListener)
	Alias  []string // WDS: the aliases the server attached (addresses of the workload / service)
}

type held map[string]map[string]resEntry // type -> name -> entry

func (h held) clone() held {
	o := held{}
	for t, m := range h {
		o[t] = map[string]resEntry{}
		for n, e := range m {
			o[t][n] = e
		}
	}
	return o
}

// envoy is the client; one at a time of its streams is live.
type envoy struct {
	label    string // sotw | delta | fresh-...
	delta    bool
	nodeID   string
	meta     *model.NodeMetadata
	explicit bool              // delta: subscribe to "*" explicitly instead of the legacy empty subscription
	zt       string            // "" (Envoy) | wildcard | ondemand: a ztunnel speaking delta WDS (Address type)
	want     []string          // ztunnel on-demand: the names explicitly subscribed (sorted)
	unsubbed map[string]bool   // ztunnel on-demand: names explicitly unsubscribed and not subscribed again
	stale    map[string]string // ztunnel reconnect: versions to present instead of the retained ones (name -> version)
	nds      bool              // DNS capture: the proxy also subscribes to the name table (NDS)

	mu      sync.Mutex
	held    held
	subs    map[string][]string // EDS / RDS: names wanted (sorted)
	nonce   map[string]string
	version map[string]string
	st      *stream

	// accounting
	nResp    map[string]int
	nRes     int
	nRemoved int
	errs     []string
}

// stream is one connection of an envoy.
type stream struct {
	e      *envoy
	ctx    context.Context
	cancel context.CancelFunc
	sotw   chan *discovery.DiscoveryRequest
	dlt    chan *discovery.DeltaDiscoveryRequest
	queued atomic.Int64
	last   atomic.Int64
	done   chan struct{}

	// everything below is guarded by e.mu
	sentNode    bool
	dead        bool
	resps       map[string]int // responses per type on this stream
	reqs        map[string]int // requests per type on this stream
	removedSeen map[string]map[string]bool
	nResp       int
	cutAfter    int               // kill the stream at the cutAfter-th response (0 = never)
	cutDrop     bool              // ... without applying that response (lost in transit)
	cutErr      bool              // ... and Send reports the failure to the server (failed send)
	nonces      map[string]string // nonce of the last response per type on THIS stream (a nonce is per stream)
	edsDue      bool              // a CDS response arrived on this stream and no EDS response since
	reconnect   bool
	lastType    string // type of the last response seen
	log         []string
	nackNext    map[string]bool // the next request of these types carries error_detail
	keepNonce   bool            // opened with connectOpts.keepNonce (read by the ztunnel first request)
	cutStall    bool            // the cutAfter-th response stalls in Send instead of being cut
	stalled     bool
	stallCh     chan struct{}
	zombie      bool  // the client has given this stream up without closing it (the server has not noticed): what the server sends on it vanishes
	err         error // what Stream / StreamDeltas returned (valid once done is closed)
}

func newEnvoy(label string, delta bool, nodeName string) *envoy {
	return &envoy{
		label: label, delta: delta,
		nodeID: "sidecar~10.30.0.9~" + nodeName + "." + proxyNs + "~" + proxyNs + ".svc.cluster.local",
		meta: &model.NodeMetadata{Namespace: proxyNs, Labels: map[string]string{"app": "client"}, ClusterID: "Kubernetes",
			IstioVersion: "1.32.0", ServiceAccount: "client"},
		held: held{}, subs: map[string][]string{}, nonce: map[string]string{}, version: map[string]string{},
		nResp: map[string]int{},
	}
}

func (s *stream) touch() { s.last.Store(time.Now().UnixNano()) }

// --- grpc.ServerStream
func (s *stream) SetHeader(metadata.MD) error  { return nil }
func (s *stream) SendHeader(metadata.MD) error { return nil }
func (s *stream) SetTrailer(metadata.MD)       {}
func (s *stream) Context() context.Context     { return s.ctx }
func (s *stream) SendMsg(any) error            { return nil }
func (s *stream) RecvMsg(any) error            { return nil }

type sotwStream struct{ *stream }

type deltaStream struct{ *stream }

func (s sotwStream) Recv() (*discovery.DiscoveryRequest, error) {
	select {
	case <-s.ctx.Done():
		return nil, io.EOF
	default:
	}
	select {
	case r := <-s.sotw:
		s.queued.Add(-1)
		s.touch()
		return r, nil
	case <-s.ctx.Done():
		return nil, io.EOF
	}
}

func (s deltaStream) Recv() (*discovery.DeltaDiscoveryRequest, error) {
	select {
	case <-s.ctx.Done():
		return nil, io.EOF
	default:
	}
	select {
	case r := <-s.dlt:
		s.queued.Add(-1)
		s.touch()
		return r, nil
	case <-s.ctx.Done():
		return nil, io.EOF
	}
}

// activity interface (quiescence)
func (e *envoy) pending() int64 {
	e.mu.Lock()
	defer e.mu.Unlock()
	if e.st == nil || e.st.dead {
		return 0
	}
	return e.st.queued.Load()
}

func (e *envoy) lastActivity() int64 {
	e.mu.Lock()
	defer e.mu.Unlock()
	if e.st == nil {
		return 0
	}
	return e.st.last.Load()
}

// ready: the initial exchange of the live stream is complete.
func (e *envoy) ready() bool {
	e.mu.Lock()
	defer e.mu.Unlock()
	s := e.st
	if s == nil || s.dead {
		return true
	}
	if e.zt != "" {
		return s.resps["WDS"] > 0
	}
	for _, t := range []string{"CDS", "LDS"} {
		if s.resps[t] == 0 {
			return false
		}
	}
	return true
}

func (s *stream) node() *envoycore.Node {
	if s.sentNode {
		return nil
	}
	s.sentNode = true
	if s.e.nds {
		s.e.meta.DNSCapture = true
	}
	return &envoycore.Node{Id: s.e.nodeID, Metadata: s.e.meta.ToStruct()}
}

func (s *stream) logf(format string, a ...any) {
	if len(s.log) < 400 {
		s.log = append(s.log, fmt.Sprintf(format, a...))
	}
}

// sendSotw: caller holds e.mu
func (s *stream) sendSotw(typ string, names []string, nonce, version string) {
	if s.dead {
		return
	}
	r := &discovery.DiscoveryRequest{TypeUrl: longType[typ], ResourceNames: names, ResponseNonce: nonce, VersionInfo: version, Node: s.node()}
	if s.nackNext[typ] {
		delete(s.nackNext, typ)
		r.ErrorDetail = &rpcstatus.Status{Code: 13, Message: "rejected on the previous stream"}
	}
	s.reqs[typ]++
	s.queued.Add(1)
	s.touch()
	s.logf(">%s n=%d nonce=%v", typ, len(names), nonce != "")
	s.sotw <- r
}

// sendDelta: caller holds e.mu
func (s *stream) sendDelta(typ string, sub, unsub []string, nonce string, initial map[string]string) {
	if s.dead {
		return
	}
	r := &discovery.DeltaDiscoveryRequest{TypeUrl: longType[typ], ResourceNamesSubscribe: sub, ResourceNamesUnsubscribe: unsub,
		ResponseNonce: nonce, InitialResourceVersions: initial, Node: s.node()}
	if s.nackNext[typ] {
		delete(s.nackNext, typ)
		r.ErrorDetail = &rpcstatus.Status{Code: 13, Message: "rejected on the previous stream"}
	}
	s.reqs[typ]++
	s.queued.Add(1)
	s.touch()
	s.logf(">%s +%d -%d init=%d ack=%v", typ, len(sub), len(unsub), len(initial), nonce != "")
	s.dlt <- r
}

// sendProbe: a HealthInformation request of the istio-agent's health checker (a VM proxy with a readiness
// probe). It carries no node; sent BEFORE the first xDS request the server has to skip it and initialise the
// connection on the next request. Caller holds e.mu.
func (s *stream) sendProbe() {
	if s.dead {
		return
	}
	s.queued.Add(1)
	s.touch()
	s.logf(">HEALTH probe")
	if s.dlt != nil {
		s.dlt <- &discovery.DeltaDiscoveryRequest{TypeUrl: v3.HealthInfoType}
	} else {
		s.sotw <- &discovery.DiscoveryRequest{TypeUrl: v3.HealthInfoType}
	}
}

// kill: caller holds e.mu
func (s *stream) kill() {
	if !s.dead {
		s.dead = true
		s.cancel()
	}
}

var errClosed = status.Error(codes.Unavailable, "stream closed by the client")

// stallHere: the scripted "stalled send" - the K-th response does not get through: Send blocks (the connection's
// loop is stuck in it, a full TCP window) until the harness lets the stream die; the response is lost. Returns
// true when this Send was the stalled one (it then fails).
func (s *stream) stallHere(typ string) bool {
	e := s.e
	e.mu.Lock()
	if s.dead || s.zombie || !s.cutStall || s.cutAfter == 0 || s.nResp+1 != s.cutAfter {
		e.mu.Unlock()
		return false
	}
	s.nResp++
	s.stalled = true
	s.touch()
	s.logf("STALLED at response %d (%s)", s.nResp, typ)
	ch := s.stallCh
	e.mu.Unlock()
	<-ch
	return true
}

// releaseStall lets a stalled Send fail and the stream die.
func (e *envoy) releaseStall() {
	e.mu.Lock()
	s := e.st
	if s != nil && s.stalled && !s.dead {
		s.kill()
		close(s.stallCh)
	}
	e.mu.Unlock()
}

func (e *envoy) isStalled() bool {
	e.mu.Lock()
	defer e.mu.Unlock()
	return e.st != nil && e.st.stalled
}

// cutCheck implements the scripted stream cut; it returns (apply, err-to-return, handled).
func (s *stream) cutCheck() (apply bool, stop bool) {
	s.nResp++
	if s.cutAfter > 0 && s.nResp == s.cutAfter {
		return !s.cutDrop, true
	}
	return true, false
}

// ---------------------------------------------------------------- SotW

func (s sotwStream) Send(resp *discovery.DiscoveryResponse) error {
	if s.stallHere(shortType(resp.TypeUrl)) {
		return errClosed
	}
	e := s.e
	e.mu.Lock()
	defer e.mu.Unlock()
	if s.dead {
		return errClosed
	}
	if s.zombie {
		return nil
	}
	s.touch()
	apply, stop := s.cutCheck()
	if apply {
		e.applySotw(s.stream, resp)
	}
	if stop {
		s.logf("CUT at response %d (%s) applied=%v failed-send=%v", s.nResp, shortType(resp.TypeUrl), apply, s.cutErr)
		s.kill()
		if !apply && s.cutErr {
			return errClosed
		}
	}
	return nil
}

func (e *envoy) applySotw(s *stream, resp *discovery.DiscoveryResponse) {
	typ := shortType(resp.TypeUrl)
	s.resps[typ]++
	s.lastType = typ
	e.nResp[typ]++
	e.nonce[typ] = resp.Nonce
	s.nonces[typ] = resp.Nonce
	e.version[typ] = resp.VersionInfo
	got := map[string]resEntry{}
	for _, a := range resp.Resources {
		n, x := canonRes(a)
		got[n] = x
		e.nRes++
	}
	s.logf("<%s %d v=%s", typ, len(got), resp.VersionInfo)
	old := e.held[typ]
	switch typ {
	case "CDS", "LDS", "NDS":
		e.held[typ] = got
	default:
		if e.held[typ] == nil {
			e.held[typ] = map[string]resEntry{}
		}
		// like Envoy, ignore resources nobody watches (a push generated before the server read the
		// latest subscription change may still carry them)
		want := map[string]bool{}
		for _, n := range e.subs[typ] {
			want[n] = true
		}
		for n, x := range got {
			if want[n] {
				e.held[typ][n] = x
			}
		}
	}
	// ACK
	switch typ {
	case "CDS", "LDS", "NDS":
		s.sendSotw(typ, nil, resp.Nonce, resp.VersionInfo)
	default:
		s.sendSotw(typ, e.subs[typ], resp.Nonce, resp.VersionInfo)
	}
	switch typ {
	case "CDS":
		names := edsNamesOfHeld(got)
		// Envoy warms every added or changed cluster and asks for its endpoints again
		warm := s.resps["CDS"] == 1
		for n, x := range got {
			if o, ok := old[n]; x.Eds != "" && (!ok || o.Hash != x.Hash) {
				warm = true
			}
		}
		s.edsDue = len(names) > 0
		e.resubscribeSotw(s, "EDS", names, warm)
	case "EDS":
		s.edsDue = false
	case "LDS":
		e.resubscribeSotw(s, "RDS", rdsNamesOfHeld(got), false)
		e.resubscribeSotw(s, "ECDS", ecdsNamesOfHeld(got), false)
	}
}

func (e *envoy) resubscribeSotw(s *stream, typ string, names []string, force bool) {
	names = dedupSorted(names)
	same := strings.Join(names, "\x00") == strings.Join(e.subs[typ], "\x00")
	if len(names) == 0 && len(e.subs[typ]) == 0 {
		return
	}
	if same && !force && s.reqs[typ] > 0 {
		return
	}
	e.subs[typ] = names
	e.prune(typ)
	// an empty list unsubscribes (Envoy does send it); before the first response of this type on
	// this stream the nonce is empty
	s.sendSotw(typ, names, s.nonces[typ], e.version[typ])
}

// prune drops named resources the parent no longer references.
func (e *envoy) prune(typ string) {
	want := map[string]bool{}
	for _, n := range e.subs[typ] {
		want[n] = true
	}
	for n := range e.held[typ] {
		if !want[n] {
			delete(e.held[typ], n)
		}
	}
}

// ---------------------------------------------------------------- delta

func (s deltaStream) Send(resp *discovery.DeltaDiscoveryResponse) error {
	if s.stallHere(shortType(resp.TypeUrl)) {
		return errClosed
	}
	e := s.e
	e.mu.Lock()
	defer e.mu.Unlock()
	if s.dead {
		return errClosed
	}
	if s.zombie {
		return nil
	}
	s.touch()
	apply, stop := s.cutCheck()
	if apply {
		e.applyDelta(s.stream, resp)
	}
	if stop {
		s.logf("CUT at response %d (%s) applied=%v failed-send=%v", s.nResp, shortType(resp.TypeUrl), apply, s.cutErr)
		s.kill()
		if !apply && s.cutErr {
			return errClosed
		}
	}
	return nil
}

func (e *envoy) applyDelta(s *stream, resp *discovery.DeltaDiscoveryResponse) {
	typ := shortType(resp.TypeUrl)
	s.resps[typ]++
	s.lastType = typ
	e.nResp[typ]++
	e.nonce[typ] = resp.Nonce
	s.nonces[typ] = resp.Nonce
	if e.held[typ] == nil {
		e.held[typ] = map[string]resEntry{}
	}
	wildcard := typ == "CDS" || typ == "LDS" || typ == "NDS" || typ == "WDS" || typ == "WADS" // a ztunnel takes whatever WDS / WADS resource it is sent
	want := map[string]bool{}
	for _, n := range e.subs[typ] {
		want[n] = true
	}
	for _, r := range resp.Resources {
		e.nRes++
		if !wildcard && !want[r.Name] {
			continue // nobody watches it (any more)
		}
		_, x := canonRes(r.Resource)
		x.Ver = r.Version
		x.Alias = r.Aliases
		e.held[typ][r.Name] = x
	}
	if s.removedSeen[typ] == nil {
		s.removedSeen[typ] = map[string]bool{}
	}
	for _, n := range resp.RemovedResources {
		delete(e.held[typ], n)
		s.removedSeen[typ][n] = true
		e.nRemoved++
	}
	if typ == "CDS" && len(resp.RemovedResources) > 0 && len(resp.RemovedResources) <= 6 {
		s.logf("<%s +%d -%d v=%s removed=%s", typ, len(resp.Resources), len(resp.RemovedResources), resp.SystemVersionInfo, strings.Join(resp.RemovedResources, ","))
	} else {
		s.logf("<%s +%d -%d v=%s", typ, len(resp.Resources), len(resp.RemovedResources), resp.SystemVersionInfo)
	}
	// ACK
	s.sendDelta(typ, nil, nil, resp.Nonce, nil)
	switch typ {
	case "CDS":
		names := edsNamesOfHeld(e.held["CDS"])
		s.edsDue = len(names) > 0
		e.resubscribeDelta(s, "EDS", names)
	case "EDS":
		s.edsDue = false
	case "LDS":
		e.resubscribeDelta(s, "RDS", rdsNamesOfHeld(e.held["LDS"]))
		e.resubscribeDelta(s, "ECDS", ecdsNamesOfHeld(e.held["LDS"]))
	}
	// a named resource the server removed is still wanted by the client; nothing to do
}

func (e *envoy) resubscribeDelta(s *stream, typ string, names []string) {
	names = dedupSorted(names)
	old := map[string]bool{}
	for _, n := range e.subs[typ] {
		old[n] = true
	}
	var add, del []string
	now := map[string]bool{}
	for _, n := range names {
		now[n] = true
		if !old[n] {
			add = append(add, n)
		}
	}
	for _, n := range e.subs[typ] {
		if !now[n] {
			del = append(del, n)
		}
	}
	if len(add) == 0 && len(del) == 0 {
		return
	}
	e.subs[typ] = names
	e.prune(typ)
	s.sendDelta(typ, add, del, "", nil)
}

// ---------------------------------------------------------------- resource helpers

// canonRes unmarshals one resource: its name, canonical text + hash, and what it references.
func canonRes(a *anypb.Any) (string, resEntry) {
	if a == nil {
		return "?", resEntry{Hash: "nil", Text: "nil"}
	}
	m, err := a.UnmarshalNew()
	if err != nil {
		t := "unmarshal-error:" + err.Error()
		return "?", resEntry{Hash: hashOf(t), Text: t}
	}
	t := canonMsg(m)
	x := resEntry{Hash: hashOf(t), Text: t}
	name := "-"
	switch r := m.(type) {
	case *cluster.Cluster:
		name = r.Name
		if ty, ok := r.ClusterDiscoveryType.(*cluster.Cluster_Type); ok && ty.Type == cluster.Cluster_EDS {
			x.Eds = r.Name
			if sn := r.GetEdsClusterConfig().GetServiceName(); sn != "" {
				x.Eds = sn
			}
		}
	case *listener.Listener:
		name = r.Name
		x.Routes = routesOfListener(r)
		x.Ecds = ecdsOfListener(r)
	case interface{ GetClusterName() string }:
		name = r.GetClusterName()
	case interface{ GetName() string }:
		name = r.GetName()
	}
	return name, x
}

func routesOfListener(l *listener.Listener) []string {
	var out []string
	chains := append([]*listener.FilterChain{}, l.FilterChains...)
	if l.DefaultFilterChain != nil {
		chains = append(chains, l.DefaultFilterChain)
	}
	for _, fc := range chains {
		for _, f := range fc.Filters {
			if f.Name != "envoy.filters.network.http_connection_manager" {
				continue
			}
			h := xdstest.SilentlyUnmarshalAny[hcm.HttpConnectionManager](f.GetTypedConfig())
			if r, ok := h.GetRouteSpecifier().(*hcm.HttpConnectionManager_Rds); ok {
				out = append(out, r.Rds.RouteConfigName)
			}
		}
	}
	return out
}

func edsNamesOfHeld(m map[string]resEntry) []string {
	var out []string
	for _, x := range m {
		if x.Eds != "" {
			out = append(out, x.Eds)
		}
	}
	return out
}

func rdsNamesOfHeld(m map[string]resEntry) []string {
	var out []string
	for _, x := range m {
		out = append(out, x.Routes...)
	}
	return out
}

func dedupSorted(xs []string) []string {
	o := append([]string(nil), xs...)
	sort.Strings(o)
	out := o[:0]
	for i, s := range o {
		if i == 0 || s != o[i-1] {
			out = append(out, s)
		}
	}
	return out
}

// ---------------------------------------------------------------- connecting

type connectOpts struct {
	order     []string // order of the first requests (default CDS, LDS and, on reconnect, EDS, RDS)
	keepNonce bool     // reconnect: present the response_nonce retained from the previous stream in the first request per type (SotW and delta)
	cutAfter  int
	cutDrop   bool
	cutErr    bool
	cutStall  bool // the cutAfter-th response blocks in Send until releaseStall
	hold      bool // do not send the first requests yet (the caller does via kick)
	// the caller expects the server to refuse the stream (not ready): the returned error is not a client error
	expectRefusal bool
	// a health probe of the agent reaches the server before the first xDS request of the stream
	probeFirst bool
	// types whose first request carries error_detail: the NACK the proxy had queued when the previous stream broke
	nackFirst map[string]bool
}

// connect opens a new stream to the server. A client that holds state presents it.
func (e *envoy) connect(st *site, o connectOpts) *stream {
	e.mu.Lock()
	defer e.mu.Unlock()
	base := peer.NewContext(context.Background(), &peer.Peer{Addr: &net.TCPAddr{IP: net.IPv4(127, 0, 0, 1), Port: 15010}})
	ctx, cancel := context.WithCancel(base)
	s := &stream{e: e, ctx: ctx, cancel: cancel, done: make(chan struct{}), resps: map[string]int{}, reqs: map[string]int{},
		removedSeen: map[string]map[string]bool{}, nonces: map[string]string{}, cutAfter: o.cutAfter, cutDrop: o.cutDrop, cutErr: o.cutErr}
	s.reconnect = len(e.nResp) > 0
	s.keepNonce = o.keepNonce
	s.cutStall, s.stallCh = o.cutStall, make(chan struct{})
	s.touch()
	if e.delta {
		s.dlt = make(chan *discovery.DeltaDiscoveryRequest, 4096)
	} else {
		s.sotw = make(chan *discovery.DiscoveryRequest, 4096)
	}
	e.st = s
	srv := st.s.Discovery
	go func() {
		defer close(s.done)
		defer func() {
			if r := recover(); r != nil {
				e.mu.Lock()
				e.errs = append(e.errs, fmt.Sprint("panic: ", r))
				e.mu.Unlock()
			}
		}()
		var err error
		if e.delta {
			err = srv.StreamDeltas(deltaStream{s})
		} else {
			err = srv.Stream(sotwStream{s})
		}
		e.mu.Lock()
		s.err = err
		e.mu.Unlock()
		if err != nil && !strings.Contains(err.Error(), "closed by the client") {
			e.mu.Lock()
			if !s.dead && !s.zombie && !o.expectRefusal {
				e.errs = append(e.errs, err.Error())
			}
			e.mu.Unlock()
		}
	}()
	if !o.hold {
		e.firstRequests(s, o)
	}
	return s
}

// firstRequests sends the first request per type of a stream: caller holds e.mu.
func (e *envoy) firstRequests(s *stream, o connectOpts) {
	if len(o.nackFirst) > 0 {
		s.nackNext = map[string]bool{}
		for t := range o.nackFirst {
			s.nackNext[t] = true
		}
	}
	if o.probeFirst {
		s.sendProbe()
	}
	if e.zt != "" {
		e.ztFirstRequest(s)
		return
	}
	order := o.order
	if order == nil {
		order = []string{"CDS", "LDS", "EDS", "RDS"}
	}
	if e.nds {
		// the agent's DNS proxy asks for the name table on the same stream (wildcard, one unnamed resource)
		order = append(append([]string{}, order...), "NDS")
	}
	// a reconnecting proxy re-sends its extension config subscription as well
	order = append(append([]string{}, order...), "ECDS")
	for _, typ := range order {
		wildcard := typ == "CDS" || typ == "LDS" || typ == "NDS"
		if !wildcard && len(e.subs[typ]) == 0 {
			continue
		}
		if e.delta {
			var sub []string
			if wildcard {
				if e.explicit {
					sub = []string{"*"}
				}
			} else {
				sub = e.subs[typ]
			}
			var initial map[string]string
			if len(e.held[typ]) > 0 {
				initial = map[string]string{}
				for n, x := range e.held[typ] {
					initial[n] = x.Ver
				}
			}
			nonce := ""
			if o.keepNonce {
				nonce = e.nonce[typ]
			}
			s.sendDelta(typ, sub, nil, nonce, initial)
		} else {
			nonce := ""
			if o.keepNonce {
				nonce = e.nonce[typ]
			}
			var names []string
			if !wildcard {
				names = e.subs[typ]
			}
			s.sendSotw(typ, names, nonce, e.version[typ])
		}
	}
}

// disconnect closes the live stream and waits for the server side to return.
func (e *envoy) disconnect() {
	e.mu.Lock()
	s := e.st
	if s != nil {
		s.kill()
	}
	e.mu.Unlock()
	if s != nil {
		select {
		case <-s.done:
		case <-time.After(5 * time.Second):
		}
	}
}

// abandon gives the live stream up WITHOUT closing it: the network died, the server has not noticed.
// Whatever the server still sends on it vanishes; the stream object is returned so that the caller
// can let the server notice later (closeStream).
func (e *envoy) abandon() *stream {
	e.mu.Lock()
	defer e.mu.Unlock()
	s := e.st
	if s != nil && !s.dead {
		s.zombie = true
		s.logf("ABANDONED (not closed)")
	}
	return s
}

// closeStream lets the server notice that an abandoned stream is gone and waits for its handler to return.
func (e *envoy) closeStream(s *stream) {
	if s == nil {
		return
	}
	e.mu.Lock()
	s.kill()
	e.mu.Unlock()
	select {
	case <-s.done:
	case <-time.After(5 * time.Second):
	}
}

func (e *envoy) snapshot() held {
	e.mu.Lock()
	defer e.mu.Unlock()
	return e.held.clone()
}

func (e *envoy) streamLog() []string {
	e.mu.Lock()
	defer e.mu.Unlock()
	if e.st == nil {
		return nil
	}
	return append([]string(nil), e.st.log...)
}

func (e *envoy) errors() []string {
	e.mu.Lock()
	defer e.mu.Unlock()
	return append([]string(nil), e.errs...)
}

// ---------------------------------------------------------------- comparison

type diff struct {
	Type string `json:"type"`
	Name string `json:"name"`
	Kind string `json:"kind"` // differs | only-a | only-b
	Hint string `json:"hint,omitempty"`
}

// compareHeld compares two held maps on the given types.
func compareHeld(a, b held, types []string) []diff {
	var out []diff
	for _, typ := range types {
		names := map[string]bool{}
		for n := range a[typ] {
			names[n] = true
		}
		for n := range b[typ] {
			names[n] = true
		}
		for _, n := range sortedKeys(names) {
			x, okx := a[typ][n]
			y, oky := b[typ][n]
			switch {
			case okx && oky && x.Hash != y.Hash:
				out = append(out, diff{typ, n, "differs", firstDifference(x.Text, y.Text)})
			case okx && !oky:
				out = append(out, diff{typ, n, "only-a", ""})
			case !okx && oky:
				out = append(out, diff{typ, n, "only-b", ""})
			}
		}
	}
	return out
}

func countHeld(h held, types []string) int {
	n := 0
	for _, t := range types {
		n += len(h[t])
	}
	return n
}
