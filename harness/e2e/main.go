// Command e2e: end-to-end exploration of the REAL generators of a REAL DiscoveryServer
// (pilot/test/xds.NewFakeDiscoveryServer) for properties C03 (delta = SotW) and C05 (reconnect
// resynchronises, registration vs initialisation).
//
//	e2e run <stream> <seed> <ncases> <out-file>
//	    one line per case: `OK <summary>` or `FAIL <clause> <single-line JSON replay>`;
//	    last line `STATS <single-line JSON>`; exit 0 whenever it ran to completion.
//	e2e replay <stream> <replay-json-file>
//	    re-run one history (the JSON of a FAIL line, or just its "history" member).
//
// Streams: c01 | c03 | c05 | initrace. All randomness comes from wire.Rng seeded by <seed>.
package main

import (
	"bytes"
	"embed"
	"encoding/json"
	"fmt"
	"os"
	"runtime/debug"
	"strconv"
	"strings"
	"time"

	_ "verifharness/internal/quiet"
	"verifharness/internal/wire"
)

//go:embed corpus/*.json
var corpusFS embed.FS

// corpus returns the hand-kept witnesses of a stream (harness/e2e/corpus/<stream>.<name>.json,
// embedded at build time); `e2e run` plays them before the generated cases.
func corpus(stream string) []*History {
	ents, err := corpusFS.ReadDir("corpus")
	if err != nil {
		return nil
	}
	var out []*History
	for _, e := range ents {
		if !strings.HasPrefix(e.Name(), stream+".") {
			continue
		}
		raw, err := corpusFS.ReadFile("corpus/" + e.Name())
		if err != nil {
			continue
		}
		h := &History{}
		if err := json.Unmarshal(raw, h); err != nil {
			fmt.Fprintln(os.Stderr, "corpus file", e.Name(), "does not parse:", err)
			os.Exit(2)
		}
		h.Corpus = strings.TrimSuffix(e.Name(), ".json")
		out = append(out, h)
	}
	return out
}

// History is one self-contained case.
type History struct {
	Stream   string `json:"stream"`
	Corpus   string `json:"corpus,omitempty"` // name of the corpus file this case came from
	Seed     uint64 `json:"seed,omitempty"`
	Case     int    `json:"case,omitempty"`
	Flavor   string `json:"flavor"` // envoy | zt
	Debounce int    `json:"debounce_ms"`
	Explicit bool   `json:"explicit_wildcard,omitempty"` // delta client subscribes to "*" explicitly
	Base     []Op   `json:"base"`
	Steps    [][]Op `json:"steps"` // the ops of one step are applied back to back; quiescence + comparison after each step

	// c03 (envoy flavour): hold back the events of one step while the next one is pushed
	Lag *LagSpec `json:"lag,omitempty"`
	// c03 (envoy flavour): at the end, compare the delta client's endpoints with a client connected then (c03.go freshEndpoints)
	FreshEDS bool `json:"fresh_eds,omitempty"`

	// c05
	Cut *CutSpec `json:"cut,omitempty"`

	// initrace
	Gate  string `json:"gate,omitempty"`
	Proto string `json:"proto,omitempty"` // sotw | delta
}

// result of one case
type result struct {
	OK      bool
	Clause  string
	Summary string         // OK line
	Detail  map[string]any // FAIL: what differed
}

type stats struct {
	Cases       int            `json:"cases"`
	OK          int            `json:"ok"`
	Fail        int            `json:"fail"`
	Clauses     map[string]int `json:"fail_clauses"`
	Servers     int            `json:"servers"`
	Steps       int            `json:"steps"`
	Ops         map[string]int `json:"ops"`
	Comparisons int            `json:"comparisons"`
	Compared    int            `json:"resources_compared"`
	Responses   map[string]int `json:"responses"`
	Resources   int            `json:"resources_received"`
	Removed     int            `json:"removed_resources_received"`
	Cuts        map[string]int `json:"cut_points"`
	Reconnects  map[string]int `json:"reconnects"`
	Retained    int            `json:"retained_resources_presented"`
	GoneWhile   int            `json:"retained_resources_deleted_while_away"`
	Extra       map[string]int `json:"extra"`
	Millis      int64          `json:"millis"`
}

func newStats() *stats {
	return &stats{Clauses: map[string]int{}, Ops: map[string]int{}, Responses: map[string]int{}, Cuts: map[string]int{},
		Reconnects: map[string]int{}, Extra: map[string]int{}}
}

func (s *stats) client(e *envoy) {
	e.mu.Lock()
	defer e.mu.Unlock()
	pre := "sotw-"
	if e.delta {
		pre = "delta-"
	}
	for t, n := range e.nResp {
		s.Responses[pre+t] += n
	}
	s.Resources += e.nRes
	s.Removed += e.nRemoved
}

func usage() {
	fmt.Fprintln(os.Stderr, "usage: e2e run <stream> <seed> <ncases> <out-file> | e2e replay <stream> <replay-json-file>")
	os.Exit(2)
}

func generate(stream string, r *wire.Rng) *History {
	switch stream {
	case "c01":
		return genC01(r)
	case "c03":
		return genC03(r)
	case "c05":
		return genC05(r)
	case "initrace":
		return genInitrace(r)
	}
	fmt.Fprintln(os.Stderr, "unknown stream", stream)
	os.Exit(2)
	return nil
}

// caseLimit: a case that does not come back at all (every wait inside a case is bounded, so this
// means a deadlock in the harness or in the server) ends the run with a distinct line and exit code 3.
const caseLimit = 4 * time.Minute

func executeGuarded(h *History, st *stats, onHang func()) result {
	done := make(chan result, 1)
	go func() { done <- execute(h, st) }()
	select {
	case r := <-done:
		return r
	case <-time.After(caseLimit):
		onHang()
		os.Exit(3)
		return result{}
	}
}

func execute(h *History, st *stats) (res result) {
	defer func() {
		if r := recover(); r != nil {
			res = result{Clause: "harness-panic", Detail: map[string]any{"panic": fmt.Sprint(r), "stack": strings.Split(string(debug.Stack()), "\n")[:12]}}
		}
	}()
	switch h.Stream {
	case "c01":
		return runC01(h, st)
	case "c03":
		if h.Flavor == "zt" {
			return runC03Zt(h, st)
		}
		return runC03(h, st)
	case "c05":
		if h.Flavor == "zt" {
			return runC05Zt(h, st)
		}
		return runC05(h, st)
	case "initrace":
		return runInitrace(h, st)
	}
	return result{Clause: "harness-unknown-stream"}
}

func line(h *History, res result) string {
	if res.OK {
		return "OK " + res.Summary
	}
	obj := map[string]any{"history": h}
	for k, v := range res.Detail {
		obj[k] = v
	}
	var buf bytes.Buffer
	enc := json.NewEncoder(&buf)
	enc.SetEscapeHTML(false)
	if err := enc.Encode(obj); err != nil {
		buf.Reset()
		buf.WriteString(`{"marshal-error":` + strconv.Quote(err.Error()) + `}`)
	}
	return "FAIL " + res.Clause + " " + strings.TrimSpace(buf.String())
}

func main() {
	if len(os.Args) < 2 {
		usage()
	}
	switch os.Args[1] {
	case "run":
		if len(os.Args) != 6 {
			usage()
		}
		stream := os.Args[2]
		seed, err := strconv.ParseUint(os.Args[3], 10, 64)
		if err != nil {
			if n, e2 := strconv.ParseInt(os.Args[3], 10, 64); e2 == nil {
				seed = uint64(n)
			} else {
				usage()
			}
		}
		n, err := strconv.Atoi(os.Args[4])
		if err != nil {
			usage()
		}
		out := wire.Create(os.Args[5])
		st := newStats()
		t0 := time.Now()
		salt := uint64(0)
		for _, c := range stream {
			salt = salt*131 + uint64(c)
		}
		r := wire.NewRng(seed*1000003 + salt)
		var cases []*History
		for _, h := range corpus(stream) {
			cases = append(cases, h)
		}
		for i := 0; i < n; i++ {
			h := generate(stream, r.Fork())
			h.Seed, h.Case = seed, i
			cases = append(cases, h)
		}
		// E2E_SHARD=i/n: play only every n-th case (corpus and generated alike), starting with the i-th; the checks run
		// the n shards of one stream side by side (a case is mostly waiting for quiescence)
		shard, shards := 0, 1
		if v := os.Getenv("E2E_SHARD"); v != "" {
			if _, err := fmt.Sscanf(v, "%d/%d", &shard, &shards); err != nil || shards < 1 || shard < 0 || shard >= shards {
				usage()
			}
		}
		for k, h := range cases {
			if k%shards != shard {
				continue
			}
			h := h
			if h.Corpus != "" {
				st.Extra["corpus-cases"]++
			}
			res := executeGuarded(h, st, func() {
				out.Line(line(h, result{Clause: "harness-timeout", Detail: map[string]any{"where": "case did not return within " + caseLimit.String()}}))
				b, _ := json.Marshal(st)
				out.Line("STATS " + string(b))
				out.Close()
			})
			if res.OK && h.Corpus != "" {
				res.Summary = "corpus=" + h.Corpus + " " + res.Summary
			}
			st.Cases++
			if res.OK {
				st.OK++
			} else {
				st.Fail++
				st.Clauses[res.Clause]++
			}
			out.Line(line(h, res))
			out.Flush()
		}
		st.Millis = time.Since(t0).Milliseconds()
		b, _ := json.Marshal(st)
		out.Line("STATS " + string(b))
		out.Close()
	case "replay", "shrink":
		if len(os.Args) != 4 && !(os.Args[1] == "shrink" && len(os.Args) == 5) {
			usage()
		}
		raw, err := os.ReadFile(os.Args[3])
		if err != nil {
			fmt.Fprintln(os.Stderr, err)
			os.Exit(2)
		}
		txt := strings.TrimSpace(string(raw))
		// accept a whole FAIL line too
		if i := strings.IndexByte(txt, '{'); i > 0 {
			txt = txt[i:]
		}
		var wrap struct {
			History *History `json:"history"`
		}
		h := &History{}
		if err := json.Unmarshal([]byte(txt), &wrap); err == nil && wrap.History != nil {
			h = wrap.History
		} else if err := json.Unmarshal([]byte(txt), h); err != nil {
			fmt.Fprintln(os.Stderr, "cannot parse replay file:", err)
			os.Exit(2)
		}
		if h.Stream == "" {
			h.Stream = os.Args[2]
		}
		if h.Stream != os.Args[2] {
			fmt.Fprintf(os.Stderr, "replay file is for stream %q, not %q\n", h.Stream, os.Args[2])
			os.Exit(2)
		}
		res := execute(h, newStats())
		if os.Args[1] == "shrink" {
			if res.OK {
				fmt.Println(line(h, res))
				return
			}
			h, res = shrink(h, res.Clause)
			if len(os.Args) == 5 {
				b, _ := json.Marshal(h)
				_ = os.WriteFile(os.Args[4], append(b, '\n'), 0o644)
			}
		}
		fmt.Println(line(h, res))
	default:
		usage()
	}
}

// ---------------------------------------------------------------- helpers shared by the streams

func (h *History) baseWorld() *world {
	w := newWorld(h.Flavor == "zt")
	for _, o := range h.Base {
		w.note(o)
	}
	return w
}

func opsShort(steps [][]Op) string {
	var parts []string
	for _, s := range steps {
		var x []string
		for _, o := range s {
			x = append(x, o.short())
		}
		parts = append(parts, strings.Join(x, "+"))
	}
	return strings.Join(parts, ",")
}

func limitDiffs(d []diff, n int) []diff {
	if len(d) > n {
		return d[:n]
	}
	return d
}

func timeoutResult(where string, extra map[string]any) result {
	d := map[string]any{"where": where}
	for k, v := range extra {
		d[k] = v
	}
	return result{Clause: "harness-timeout", Detail: d}
}

func itoa(n int) string { return strconv.Itoa(n) }
