package main

// Stream `initrace`: registration vs initialisation (C05 mechanism "connection registered before
// proxy initialisation so no snapshot is missed"). initConnection reads
// proxy.LastPushContext = s.globalPushContext() BEFORE s.addCon(...). The harness parks a
// connecting client at a gate inside that window (hook verifGate in pilot/pkg/xds/ads.go, build
// tag verif), creates a ServiceEntry, waits until the server has published the new push context
// and its push round is fully drained, releases the gate, lets the client finish its initial
// exchange and compares what it holds with a client connected afterwards.
//
//	gate init:after-lastpushcontext   the connection is NOT registered while the snapshot is published
//	gate init:after-addcon            control: the connection IS registered, the push is queued for it
//
// The other side of the same race, the two halves of Push (discovery.go: initPushContext makes the new
// snapshot global, THEN AdsPushAll -> StartPush enqueues it for the registered connections): Push is
// parked between / after its halves while a WHOLE connection initialises.
//
//	gate push:after-publish           Push has made the snapshot global and not yet enqueued it: the snapshot
//	                                  must already be the global one (clause push-enqueued-before-published
//	                                  otherwise); the connection that initialises meanwhile reads it
//	gate push:after-enqueue           the push round has been enqueued (without the connection): the snapshot
//	                                  must be global by now, so that the connection initialises from it
//
// Cold start ("not serving before the caches are synced"; Stream / StreamDeltas: IsServerReady gate and
// globalPushContext().InitContext): the fake server is put back into the state of a starting instance -
// never-initialised global push context (model.NewPushContext(), what Environment starts with), empty
// xDS cache and, for cold:not-ready, readiness flag cleared - and a proxy connects:
//
//	gate cold:not-ready               the stream must be refused with an error, nothing sent and the
//	                                  context left alone (coldstart-served-before-ready); once marked ready the
//	                                  proxy is served the complete state (coldstart-served-uninitialised)
//	gate cold:uninitialised-context   ready, but no push ever initialised the context: the proxy must be served
//	                                  the same as a proxy of the warm instance (coldstart-served-uninitialised)
//
// With a cut spec (h.Cut) the client that goes through an init:* / push:* gate is a RECONNECTING one: it was
// connected before, holds the state of that time and presents it (versions, nonces in half of the cases, names,
// initial_resource_versions, first requests in a random type order) - retained state combined with the
// registration window.
//
// Admission (Stream / StreamDeltas / initConnection refuse a stream before anything is registered): the proxy
// holds state from an earlier stream, is refused, and retries once the reason is gone:
//
//	gate admit:rate-limit             WaitForRequestLimit fails (codes.ResourceExhausted)
//	gate admit:ztunnel-without-ambient  a ztunnel node on an instance without PILOT_ENABLE_AMBIENT
//
// Readiness accounting (bootstrap marks the instance ready once CommittedUpdates has caught up with the
// InboundUpdates it saw when the caches were synced; `debounce` adds to CommittedUpdates only AFTER pushFn = Push has
// returned, i.e. after the context built from those updates is published):
//
//	push:* gates                      while Push is parked (inside pushFn) CommittedUpdates must still be behind
//	                                  InboundUpdates (clause committed-before-push-returned)
//	gate ready:debounce-commit        the REAL debounce loop (hook VerifDebounce) with a pushFn that blocks: the
//	                                  committed counter stays 0 while pushFn runs - also when further updates arrive
//	                                  meanwhile - and reaches the number of updates only after the pushes returned
//
// clause admission-refusal-leaves-state: the refused stream got a response, returned no error, or left a
// connection registered; the retry is judged like any reconnect (init-window-missed-snapshot = stale vs fresh).

import (
	"bytes"
	"context"
	"encoding/json"
	"fmt"
	"os"
	"os/exec"
	"strings"
	"sync/atomic"
	"time"

	uatomic "go.uber.org/atomic"
	"golang.org/x/time/rate"
	"google.golang.org/grpc/status"

	"istio.io/istio/pilot/pkg/model"
	"istio.io/istio/pilot/pkg/xds"
	"istio.io/istio/pkg/config/schema/kind"
	"istio.io/istio/pkg/util/sets"
	"verifharness/internal/wire"
)

func genInitrace(r *wire.Rng) *History {
	h := &History{Stream: "initrace", Flavor: "envoy", Debounce: wire.Pick(r, []int{0, 5, 20})}
	clock := 0
	h.Base = genBase(r, &clock)
	// the change made inside the window: always visible to the proxy (a new ServiceEntry in its
	// namespace, or a change of an existing one), sometimes followed by a second change
	w := newWorld(false)
	for _, o := range h.Base {
		w.note(o)
	}
	var ops []Op
	name := wire.Pick(r, []string{"se-a", "se-b"})
	if old, ok := w.Cfg["se/ns1/"+name]; ok {
		o := old
		o.Ports = append([]int{}, old.Ports...)
		// add a port that is not there yet: a new cluster
		for _, p := range []int{8080, 7070, 80, 443, 9090} {
			has := false
			for _, q := range o.Ports {
				if q == p {
					has = true
				}
			}
			if !has {
				o.Ports = append(o.Ports, p)
				break
			}
		}
		if n := normSE(o); sameOp(n, old) {
			// the added port did not survive normalisation (a multi-host entry has no TCP port): drop one instead
			o.Ports = append([]int{}, old.Ports[1:]...)
			if len(o.Ports) == 0 {
				o.Ports = []int{7070}
			}
		}
		ops = append(ops, normSE(o))
	} else {
		o := genSE(r, name, &clock)
		o.Exp = nil
		ops = append(ops, normSE(o))
	}
	if r.Chance(1, 3) {
		w2 := w.clone()
		w2.note(ops[0])
		ops = append(ops, genOp(r, w2, &clock))
	}
	h.Steps = [][]Op{ops}
	h.Gate = wire.Pick(r, []string{"init:after-lastpushcontext", "init:after-lastpushcontext", "init:after-lastpushcontext",
		"init:after-addcon", "init:after-addcon", "init:after-addcon", "push:after-publish", "push:after-enqueue", "push:after-enqueue",
		"cold:not-ready", "cold:uninitialised-context", "ready:debounce-commit"})
	h.Proto = wire.Pick(r, []string{"sotw", "delta"})
	h.Explicit = r.Chance(1, 2)
	if (strings.HasPrefix(h.Gate, "init:") || strings.HasPrefix(h.Gate, "push:")) && r.Chance(1, 2) {
		h.Cut = &CutSpec{Mode: "quiet", Order: permute(r, envoyTypes), KeepNonce: r.Chance(1, 2)}
	}
	if r.Chance(1, 8) {
		h.Gate = wire.Pick(r, []string{"admit:rate-limit", "admit:ztunnel-without-ambient"})
		h.Cut = nil
	}
	if ztEnabled && strings.HasPrefix(h.Gate, "init:") && r.Chance(1, 5) {
		// the gated client is a ztunnel (wildcard WDS over delta); the change inside the window is a new pod
		h.Flavor, h.Proto = "zt", "delta"
		h.Base = genZtBase(r)
		wz := newWorld(true)
		for _, o := range h.Base {
			wz.note(o)
		}
		free := ""
		for _, p := range ztPods {
			if _, ok := wz.Pods[p]; !ok {
				free = p
				break
			}
		}
		if free == "" {
			free = ztPods[0]
			h.Base = append(h.Base, Op{K: "poddel", N: free})
		}
		h.Steps = [][]Op{{genPod(r, free)}}
	}
	return h
}

// gatedTypes: what is compared for the flavour.
func gatedTypes(h *History) []string {
	if h.Flavor == "zt" {
		return []string{"WDS"}
	}
	return envoyTypes
}

func newGated(h *History, label, name string) *envoy {
	if h.Flavor == "zt" {
		e := newZt(label, "wildcard", name)
		e.explicit = h.Explicit
		return e
	}
	e := newEnvoy(label, h.Proto == "delta", name)
	e.explicit = h.Explicit
	return e
}

// gatedClient: the client that will go through the gate - brand-new, or (cut spec) one that was connected
// before and retained what it held then.
func gatedClient(st *site, h *History, stt *stats) (*envoy, connectOpts, *result) {
	e := newGated(h, h.Proto, "app-"+h.Proto)
	if h.Cut == nil {
		return e, connectOpts{}, nil
	}
	e.connect(st, connectOpts{})
	if !st.quiesce(e) {
		r := timeoutResult("first connection of the reconnecting client", map[string]any{"log": e.streamLog(), "errors": e.errors()})
		e.disconnect()
		return nil, connectOpts{}, &r
	}
	e.disconnect()
	if !st.quiesce() {
		r := timeoutResult("after the first connection", nil)
		return nil, connectOpts{}, &r
	}
	stt.Reconnects["gated-client-retains-state"]++
	stt.Retained += countHeld(e.snapshot(), gatedTypes(h))
	return e, connectOpts{order: h.Cut.Order, keepNonce: h.Cut.KeepNonce}, nil
}

func runInitrace(h *History, stt *stats) result {
	switch {
	case h.Gate == "ready:debounce-commit":
		return runDebounceCommit(h, stt)
	case strings.HasPrefix(h.Gate, "admit:"):
		return runAdmission(h, stt)
	case strings.HasPrefix(h.Gate, "push:"):
		return runPushGate(h, stt)
	case strings.HasPrefix(h.Gate, "cold:"):
		return runColdStart(h, stt)
	}
	w := h.baseWorld()
	st := newSite(w, time.Duration(h.Debounce)*time.Millisecond)
	stt.Servers++
	defer st.close()
	d := st.s.Discovery

	e, copts, bad := gatedClient(st, h, stt)
	if bad != nil {
		return *bad
	}
	arrived := make(chan struct{}, 1)
	release := make(chan struct{})
	var once atomic.Bool
	gate := h.Gate
	xds.VerifE2ESetGate(func(point string) {
		if point == gate && once.CompareAndSwap(false, true) {
			arrived <- struct{}{}
			<-release
		}
	})
	released := false
	defer func() {
		xds.VerifE2ESetGate(nil)
		if !released {
			close(release)
		}
	}()

	e.connect(st, copts)
	defer e.disconnect()
	select {
	case <-arrived:
	case <-time.After(settleTime):
		return timeoutResult("client never reached the gate "+gate, nil)
	}
	stt.Cuts["gate:"+gate]++

	// the change inside the window
	before := xds.VerifE2EGlobalPushContext(d)
	for _, o := range h.Steps[0] {
		in := d.InboundUpdates.Load()
		if err := st.apply(w, o); err != nil {
			return result{Clause: "harness-apply-error", Detail: map[string]any{"op": o, "err": err.Error()}}
		}
		stt.Ops[o.K]++
		st.awaitInbound(in, 2*time.Second)
	}
	// wait until the new snapshot is published and its push round is over
	deadline := time.Now().Add(settleTime)
	var since time.Time
	for {
		now := time.Now()
		ok := xds.VerifE2EGlobalPushContext(d) != before &&
			d.InboundUpdates.Load() == d.CommittedUpdates.Load() && xds.VerifC01PushChannelLen(d) == 0
		if ok && gate == "init:after-lastpushcontext" {
			// not registered: the round must have drained completely
			if p, q := xds.VerifC01QueueCounts(d); p != 0 || q != 0 {
				ok = false
			}
		}
		if !ok {
			since = time.Time{}
		} else if since.IsZero() {
			since = now
		} else if now.Sub(since) >= 2*calmTime {
			break
		}
		if now.After(deadline) {
			return timeoutResult("new push context never published / drained", nil)
		}
		time.Sleep(pollEvery)
	}
	published := xds.VerifE2EGlobalPushContext(d).PushVersion
	registered := len(d.AllClients())

	// release the client: it registers and initialises from whatever LastPushContext it has
	xds.VerifE2ESetGate(nil)
	close(release)
	released = true
	if !st.quiesce(e) {
		return timeoutResult("client after release", map[string]any{"log": e.streamLog(), "errors": e.errors()})
	}
	// the claim is "stale until the next unrelated push": a difference must persist in a quiescent system
	df, tr := compareWithFresh(st, h, e, stt)
	if tr != nil {
		return *tr
	}
	stt.client(e)
	if errs := e.errors(); len(errs) > 0 {
		return result{Clause: "harness-client-error", Detail: map[string]any{"errors": errs}}
	}
	if len(df) > 0 {
		return result{Clause: "init-window-missed-snapshot", Detail: map[string]any{
			"n": len(df), "diff": limitDiffs(df, 6), "a": "gated client", "b": "fresh client", "published": published,
			"registered_while_published": registered, "log": e.streamLog()}}
	}
	return result{OK: true, Summary: "initrace gate=" + gate + " proto=" + h.Proto + " ops=" + opsShort(h.Steps) +
		" flavor=" + h.Flavor + " held=" + itoa(countHeld(e.snapshot(), gatedTypes(h)))}
}

// waitClientCalm waits until the client is through its initial exchange and has seen no traffic for a
// while - without looking at the server's counters (Push is parked, so the server is not idle).
func waitClientCalm(e *envoy) bool {
	deadline := time.Now().Add(settleTime)
	for time.Now().Before(deadline) {
		if e.ready() && e.pending() == 0 && time.Now().UnixNano()-e.lastActivity() > int64(4*calmTime) {
			return true
		}
		time.Sleep(pollEvery)
	}
	return false
}

// compareWithFresh: what the client holds against a client connected now (a difference must persist).
func compareWithFresh(st *site, h *History, e *envoy, stt *stats) ([]diff, *result) {
	check := func(label string) ([]diff, *result) {
		fresh := newGated(h, "fresh", "app-fresh-"+label)
		fresh.connect(st, connectOpts{})
		defer fresh.disconnect()
		if !st.quiesce(e, fresh) {
			r := timeoutResult("fresh client", map[string]any{"log": fresh.streamLog(), "errors": fresh.errors()})
			return nil, &r
		}
		a, b := e.snapshot(), fresh.snapshot()
		stt.Comparisons++
		stt.Compared += countHeld(b, gatedTypes(h))
		stt.client(fresh)
		return compareHeld(a, b, gatedTypes(h)), nil
	}
	df, tr := check("1")
	if tr != nil {
		return nil, tr
	}
	if len(df) > 0 {
		time.Sleep(patience / 3)
		df, tr = check("2")
		if tr != nil {
			return nil, tr
		}
	}
	return df, nil
}

// runPushGate parks Push (not the connection) at a gate between / after its two halves, lets a whole
// connection initialise, releases Push and compares with a client connected afterwards.
func runPushGate(h *History, stt *stats) result {
	w := h.baseWorld()
	st := newSite(w, time.Duration(h.Debounce)*time.Millisecond)
	stt.Servers++
	defer st.close()
	d := st.s.Discovery

	e, copts, bad := gatedClient(st, h, stt)
	if bad != nil {
		return *bad
	}
	arrived := make(chan struct{}, 1)
	release := make(chan struct{})
	var once atomic.Bool
	gate := h.Gate
	xds.VerifE2ESetGate(func(point string) {
		if point == gate && once.CompareAndSwap(false, true) {
			arrived <- struct{}{}
			<-release
		}
	})
	released := false
	defer func() {
		xds.VerifE2ESetGate(nil)
		if !released {
			close(release)
		}
	}()

	before := xds.VerifE2EGlobalPushContext(d)
	for _, o := range h.Steps[0] {
		if err := st.apply(w, o); err != nil {
			return result{Clause: "harness-apply-error", Detail: map[string]any{"op": o, "err": err.Error()}}
		}
		stt.Ops[o.K]++
	}
	select {
	case <-arrived:
	case <-time.After(settleTime):
		return timeoutResult("Push never reached the gate "+gate, nil)
	}
	stt.Cuts["gate:"+gate]++
	// at either gate the snapshot this Push built must already be the global one: a connection that
	// initialises now is not in the push round (after-enqueue) or may not be (after-publish)
	publishedAtGate := xds.VerifE2EGlobalPushContext(d) != before
	// Push has not returned: the updates it carries are not committed yet (bootstrap's readiness test reads this counter)
	committedAtGate, inboundAtGate := d.CommittedUpdates.Load(), d.InboundUpdates.Load()

	e.connect(st, copts)
	defer e.disconnect()
	if !waitClientCalm(e) {
		return timeoutResult("client while Push is parked at "+gate, map[string]any{"log": e.streamLog(), "errors": e.errors()})
	}
	registered := len(registeredIDs(st, e))

	xds.VerifE2ESetGate(nil)
	close(release)
	released = true
	if !st.quiesce(e) {
		return timeoutResult("after releasing Push", map[string]any{"log": e.streamLog(), "errors": e.errors()})
	}
	df, tr := compareWithFresh(st, h, e, stt)
	if tr != nil {
		return *tr
	}
	stt.client(e)
	if errs := e.errors(); len(errs) > 0 {
		return result{Clause: "harness-client-error", Detail: map[string]any{"errors": errs}}
	}
	if len(df) > 0 {
		return result{Clause: "init-window-missed-snapshot", Detail: map[string]any{
			"n": len(df), "diff": limitDiffs(df, 6), "a": "client that initialised while Push was parked at " + gate, "b": "fresh client",
			"published_at_gate": publishedAtGate, "registered_while_parked": registered, "log": e.streamLog()}}
	}
	if committedAtGate >= inboundAtGate {
		return result{Clause: "committed-before-push-returned", Detail: map[string]any{"gate": gate, "committed": committedAtGate, "inbound": inboundAtGate,
			"what": "CommittedUpdates has caught up with InboundUpdates while the Push that carries the updates has not returned: an instance that is starting would be marked ready before its push context is complete"}}
	}
	if !publishedAtGate {
		return result{Clause: "push-enqueued-before-published", Detail: map[string]any{"gate": gate,
			"what": "Push reached this point and the push context it built is not the global one yet: connections are (being) handed a snapshot that a connection registering now cannot read"}}
	}
	return result{OK: true, Summary: "initrace gate=" + gate + " proto=" + h.Proto + " ops=" + opsShort(h.Steps) +
		" held=" + itoa(countHeld(e.snapshot(), envoyTypes))}
}

// runColdStart: a proxy meets an instance that is still starting. A server that serves from a
// never-initialised push context may dereference nil in one of ITS goroutines, which cannot be recovered
// here, so the case runs in a child process (`e2e replay initrace <file>`); a crashed child is a verdict.
func runColdStart(h *History, stt *stats) result {
	if os.Getenv("E2E_COLD_CHILD") != "" {
		return runColdStartHere(h, stt)
	}
	stt.Servers++
	stt.Cuts["gate:"+h.Gate]++
	exe, err := os.Executable()
	if err != nil {
		return runColdStartHere(h, stt)
	}
	f, err := os.CreateTemp("", "e2e-cold-*.json")
	if err != nil {
		return runColdStartHere(h, stt)
	}
	defer os.Remove(f.Name())
	hc := *h
	hc.Corpus = ""
	b, _ := json.Marshal(&hc)
	_, _ = f.Write(append(b, '\n'))
	f.Close()
	ctx, cancel := context.WithTimeout(context.Background(), 90*time.Second)
	defer cancel()
	cmd := exec.CommandContext(ctx, exe, "replay", "initrace", f.Name())
	cmd.Env = append(os.Environ(), "E2E_COLD_CHILD=1")
	var stdout, stderr bytes.Buffer
	cmd.Stdout, cmd.Stderr = &stdout, &stderr
	runErr := cmd.Run()
	for _, l := range strings.Split(stdout.String(), "\n") {
		switch {
		case strings.HasPrefix(l, "OK "):
			stt.Comparisons++
			return result{OK: true, Summary: strings.TrimPrefix(l, "OK ")}
		case strings.HasPrefix(l, "FAIL "):
			p := strings.SplitN(l, " ", 3)
			d := map[string]any{}
			if len(p) == 3 {
				_ = json.Unmarshal([]byte(p[2]), &d)
			}
			delete(d, "history")
			return result{Clause: p[1], Detail: d}
		}
	}
	if ctx.Err() != nil {
		return timeoutResult("cold-start child process", nil)
	}
	// no verdict: the server process died
	var trace []string
	for _, l := range strings.Split(stderr.String(), "\n") {
		if strings.HasPrefix(l, "panic:") || strings.HasPrefix(l, "[signal") || strings.Contains(l, "istio.io/istio/pilot/pkg/") {
			trace = append(trace, strings.TrimSpace(l))
		}
		if len(trace) >= 10 {
			break
		}
	}
	return result{Clause: "coldstart-served-uninitialised", Detail: map[string]any{
		"what": "the server process crashed while serving the proxy that connected to the starting instance", "exit": fmt.Sprint(runErr), "trace": trace}}
}

func runColdStartHere(h *History, stt *stats) result {
	w := h.baseWorld()
	// the instance has everything in its caches (including the change of this history)
	for _, o := range h.Steps[0] {
		w.note(o)
	}
	st := newSite(w, time.Duration(h.Debounce)*time.Millisecond)
	defer st.close()
	d := st.s.Discovery
	delta := h.Proto == "delta"

	// reference: what a proxy of the warm instance holds
	ref := newEnvoy("warm", delta, "app-"+h.Proto)
	ref.explicit = h.Explicit
	ref.connect(st, connectOpts{})
	if !st.quiesce(ref) {
		ref.disconnect()
		return timeoutResult("reference client", map[string]any{"log": ref.streamLog(), "errors": ref.errors()})
	}
	want := ref.snapshot()
	ref.disconnect()
	stt.client(ref)
	if !st.quiesce() {
		return timeoutResult("after the reference client", nil)
	}

	// back to the state of a starting instance
	notReady := h.Gate == "cold:not-ready"
	if notReady {
		xds.VerifC05SetServerReady(d, false)
		defer xds.VerifC05SetServerReady(d, true)
	}
	cold := model.NewPushContext()
	st.s.Env().SetPushContext(cold)
	d.Cache.ClearAll()

	e := newEnvoy(h.Proto, delta, "app-"+h.Proto)
	e.explicit = h.Explicit
	if notReady {
		s := e.connect(st, connectOpts{expectRefusal: true})
		select {
		case <-s.done:
		case <-time.After(2 * time.Second):
		}
		e.mu.Lock()
		var err error
		returned := false
		select {
		case <-s.done:
			returned, err = true, s.err
		default:
		}
		nresp := s.nResp
		e.mu.Unlock()
		initialised := cold.InitDone.Load()
		// Stream answers codes.Unavailable, StreamDeltas a plain error (codes.Unknown on the wire): either way
		// the proxy keeps what it has and retries
		if !returned || err == nil || nresp > 0 || initialised {
			e.disconnect()
			code := "stream still open"
			if returned {
				code = status.Code(err).String()
			}
			return result{Clause: "coldstart-served-before-ready", Detail: map[string]any{"stream_result": code, "responses": nresp,
				"context_initialised": initialised, "log": e.streamLog()}}
		}
		e.disconnect()
		// caches synced: the instance is marked ready, the proxy retries
		xds.VerifC05SetServerReady(d, true)
	}
	e.connect(st, connectOpts{})
	defer e.disconnect()
	ok := st.quiesce(e)
	errs := e.errors()
	if !ok && len(errs) == 0 {
		return timeoutResult("cold client", map[string]any{"log": e.streamLog()})
	}
	df := compareHeld(e.snapshot(), want, envoyTypes)
	stt.Comparisons++
	stt.Compared += countHeld(want, envoyTypes)
	stt.client(e)
	if len(df) > 0 || len(errs) > 0 {
		return result{Clause: "coldstart-served-uninitialised", Detail: map[string]any{"n": len(df), "diff": limitDiffs(df, 6),
			"a": "proxy that connected to the starting instance", "b": "proxy of the warm instance", "errors": errs,
			"context_initialised": cold.InitDone.Load(), "log": e.streamLog()}}
	}
	return result{OK: true, Summary: "initrace gate=" + h.Gate + " proto=" + h.Proto + " held=" + itoa(countHeld(e.snapshot(), envoyTypes))}
}

// runAdmission: a proxy that holds state from an earlier stream is refused at the door and retries.
func runAdmission(h *History, stt *stats) result {
	w := h.baseWorld()
	st := newSite(w, time.Duration(h.Debounce)*time.Millisecond)
	stt.Servers++
	defer st.close()
	d := st.s.Discovery
	delta := h.Proto == "delta"
	e := newEnvoy(h.Proto, delta, "app-"+h.Proto)
	e.explicit = h.Explicit
	e.connect(st, connectOpts{})
	if !st.quiesce(e) {
		e.disconnect()
		return timeoutResult("first connection", map[string]any{"log": e.streamLog(), "errors": e.errors()})
	}
	e.disconnect()
	// the change made while the proxy is away
	for _, o := range h.Steps[0] {
		in := d.InboundUpdates.Load()
		if err := st.apply(w, o); err != nil {
			return result{Clause: "harness-apply-error", Detail: map[string]any{"op": o, "err": err.Error()}}
		}
		stt.Ops[o.K]++
		st.awaitInbound(in, 2*time.Second)
	}
	if !st.quiesce() {
		return timeoutResult("server quiescence while away", nil)
	}
	stt.Cuts["gate:"+h.Gate]++

	refusedClient := e
	var restore func()
	switch h.Gate {
	case "admit:rate-limit":
		old := d.RequestRateLimit
		lim := rate.NewLimiter(rate.Limit(0.0001), 1)
		lim.Allow() // the only token is gone: the next stream waits a second and gives up
		d.RequestRateLimit = lim
		restore = func() { d.RequestRateLimit = old }
	case "admit:ztunnel-without-ambient":
		// the same workload announces itself as a ztunnel; the instance runs without PILOT_ENABLE_AMBIENT
		refusedClient = newEnvoy(h.Proto, delta, "app-"+h.Proto)
		refusedClient.nodeID = "ztunnel~10.30.0.9~app-" + h.Proto + "." + proxyNs + "~" + proxyNs + ".svc.cluster.local"
		restore = func() {}
	default:
		return result{Clause: "harness-bad-history", Detail: map[string]any{"err": "unknown gate " + h.Gate}}
	}
	s := refusedClient.connect(st, connectOpts{expectRefusal: true})
	select {
	case <-s.done:
	case <-time.After(5 * time.Second):
	}
	refusedClient.mu.Lock()
	returned := false
	var err error
	select {
	case <-s.done:
		returned, err = true, s.err
	default:
	}
	nresp := s.nResp
	refusedClient.mu.Unlock()
	registered := len(d.AllClients())
	restore()
	if !returned || err == nil || nresp > 0 || registered > 0 {
		refusedClient.disconnect()
		code := "stream still open"
		if returned {
			code = status.Code(err).String()
		}
		return result{Clause: "admission-refusal-leaves-state", Detail: map[string]any{"gate": h.Gate, "stream_result": code, "responses": nresp,
			"connections_registered": registered, "log": refusedClient.streamLog()}}
	}
	refusedClient.disconnect()
	// the retry, with what the proxy retained
	e.connect(st, connectOpts{keepNonce: true})
	defer e.disconnect()
	if !st.quiesce(e) {
		return timeoutResult("retry after the refusal", map[string]any{"log": e.streamLog(), "errors": e.errors()})
	}
	df, tr := compareWithFresh(st, h, e, stt)
	if tr != nil {
		return *tr
	}
	stt.client(e)
	if errs := e.errors(); len(errs) > 0 {
		return result{Clause: "harness-client-error", Detail: map[string]any{"errors": errs}}
	}
	if len(df) > 0 {
		return result{Clause: "init-window-missed-snapshot", Detail: map[string]any{"n": len(df), "diff": limitDiffs(df, 6),
			"a": "proxy that was refused (" + h.Gate + ") and retried", "b": "fresh client", "log": e.streamLog()}}
	}
	return result{OK: true, Summary: "initrace gate=" + h.Gate + " proto=" + h.Proto + " held=" + itoa(countHeld(e.snapshot(), envoyTypes))}
}

// runDebounceCommit drives the real debounce loop with a blocking push function.
func runDebounceCommit(h *History, stt *stats) result {
	stt.Cuts["gate:"+h.Gate]++
	ch := make(chan *model.PushRequest, 16)
	stop := make(chan struct{})
	defer close(stop)
	var sent uatomic.Int64
	entered := make(chan int, 16)
	release := make(chan struct{}, 16)
	npush := 0
	pushFn := func(req *model.PushRequest) {
		npush++
		entered <- npush
		<-release
	}
	after := time.Duration(h.Debounce) * time.Millisecond
	go xds.VerifDebounce(ch, stop, after, 10*after+50*time.Millisecond, h.Explicit, pushFn, &sent)
	key := func(i int) *model.PushRequest {
		return &model.PushRequest{ConfigsUpdated: sets.New(model.ConfigKey{Kind: kind.ServiceEntry, Name: "se-" + itoa(i), Namespace: proxyNs}),
			Reason: model.NewReasonStats(model.ConfigUpdate)}
	}
	fail := func(where string, inbound int64) result {
		return result{Clause: "committed-before-push-returned", Detail: map[string]any{"where": where, "committed": sent.Load(), "inbound": inbound,
			"what": "the debouncer counted updates as committed while the push function that carries them had not returned"}}
	}
	first := 1 + len(h.Steps[0])
	for i := 0; i < first; i++ {
		ch <- key(i)
	}
	inbound := int64(first)
	select {
	case <-entered:
	case <-time.After(settleTime):
		return timeoutResult("debounce never called the push function", nil)
	}
	time.Sleep(5 * calmTime / 3)
	if sent.Load() != 0 {
		return fail("first push running", inbound)
	}
	// more updates arrive while the push runs (an informer still delivering): they must not be counted either
	for i := 0; i < 2; i++ {
		ch <- key(100 + i)
	}
	inbound += 2
	time.Sleep(after + 5*calmTime/3)
	if sent.Load() != 0 {
		return fail("updates received while the first push runs", inbound)
	}
	release <- struct{}{}
	// the first push returned: exactly its updates are committed; the later ones only after THEIR push returned
	select {
	case <-entered:
	case <-time.After(settleTime):
		return timeoutResult("debounce never started the second push", nil)
	}
	time.Sleep(5 * calmTime / 3)
	if got := sent.Load(); got >= inbound {
		return fail("second push running", inbound)
	}
	release <- struct{}{}
	deadline := time.Now().Add(settleTime)
	for sent.Load() != inbound {
		if time.Now().After(deadline) {
			return result{Clause: "committed-before-push-returned", Detail: map[string]any{"where": "after all pushes returned", "committed": sent.Load(), "inbound": inbound,
				"what": "the committed counter never reached the number of updates received: the instance would never become ready"}}
		}
		time.Sleep(pollEvery)
	}
	stt.Comparisons++
	return result{OK: true, Summary: "initrace gate=" + h.Gate + " updates=" + itoa(int(inbound)) + " debounce_ms=" + itoa(h.Debounce) + " eds_debounce=" + wire.B(h.Explicit)}
}
