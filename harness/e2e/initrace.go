package main

// Stream `initrace`: registration vs initialisation (C05 mechanism "connection registered before
// proxy initialisation so no snapshot is missed"). initConnection reads
// proxy.LastPushContext = s.globalPushContext() BEFORE s.addCon(...). The harness parks a
// connecting client at a gate inside that window (hook verifGate in pilot/pkg/xds/ads.go, build
// tag verif), creates a ServiceEntry, waits until the server has published the new push context
// and its push round is fully drained, releases the gate, lets the client finish its initial
// exchange and compares what it holds with a client connected afterwards.
//
//	gate init:after-lastpushcontext   the connection is NOT registered while the snapshot is published
//	gate init:after-addcon            control: the connection IS registered, the push is queued for it

import (
	"sync/atomic"
	"time"

	"istio.io/istio/pilot/pkg/xds"
	"verifharness/internal/wire"
)

func genInitrace(r *wire.Rng) *History {
	h := &History{Stream: "initrace", Flavor: "envoy", Debounce: wire.Pick(r, []int{0, 5, 20})}
	clock := 0
	h.Base = genBase(r, &clock)
	// the change made inside the window: always visible to the proxy (a new ServiceEntry in its
	// namespace, or a change of an existing one), sometimes followed by a second change
	w := newWorld(false)
	for _, o := range h.Base {
		w.note(o)
	}
	var ops []Op
	name := wire.Pick(r, []string{"se-a", "se-b"})
	if old, ok := w.Cfg["se/ns1/"+name]; ok {
		o := old
		o.Ports = append([]int{}, old.Ports...)
		// add a port that is not there yet: a new cluster
		for _, p := range []int{8080, 9090, 80, 443} {
			has := false
			for _, q := range o.Ports {
				if q == p {
					has = true
				}
			}
			if !has {
				o.Ports = append(o.Ports, p)
				break
			}
		}
		ops = append(ops, normSE(o))
	} else {
		o := genSE(r, name, &clock)
		o.Exp = nil
		ops = append(ops, normSE(o))
	}
	if r.Chance(1, 3) {
		w2 := w.clone()
		w2.note(ops[0])
		ops = append(ops, genOp(r, w2, &clock))
	}
	h.Steps = [][]Op{ops}
	h.Gate = "init:after-lastpushcontext"
	if r.Chance(1, 4) {
		h.Gate = "init:after-addcon"
	}
	h.Proto = wire.Pick(r, []string{"sotw", "delta"})
	h.Explicit = r.Chance(1, 2)
	return h
}

func runInitrace(h *History, stt *stats) result {
	w := h.baseWorld()
	st := newSite(w, time.Duration(h.Debounce)*time.Millisecond)
	stt.Servers++
	defer st.close()
	d := st.s.Discovery

	arrived := make(chan struct{}, 1)
	release := make(chan struct{})
	var once atomic.Bool
	gate := h.Gate
	xds.VerifE2ESetGate(func(point string) {
		if point == gate && once.CompareAndSwap(false, true) {
			arrived <- struct{}{}
			<-release
		}
	})
	released := false
	defer func() {
		xds.VerifE2ESetGate(nil)
		if !released {
			close(release)
		}
	}()

	e := newEnvoy(h.Proto, h.Proto == "delta", "app-"+h.Proto)
	e.explicit = h.Explicit
	e.connect(st, connectOpts{})
	defer e.disconnect()
	select {
	case <-arrived:
	case <-time.After(settleTime):
		return timeoutResult("client never reached the gate "+gate, nil)
	}
	stt.Cuts["gate:"+gate]++

	// the change inside the window
	before := xds.VerifE2EGlobalPushContext(d)
	for _, o := range h.Steps[0] {
		in := d.InboundUpdates.Load()
		if err := st.apply(w, o); err != nil {
			return result{Clause: "harness-apply-error", Detail: map[string]any{"op": o, "err": err.Error()}}
		}
		stt.Ops[o.K]++
		st.awaitInbound(in, 2*time.Second)
	}
	// wait until the new snapshot is published and its push round is over
	deadline := time.Now().Add(settleTime)
	var since time.Time
	for {
		now := time.Now()
		ok := xds.VerifE2EGlobalPushContext(d) != before &&
			d.InboundUpdates.Load() == d.CommittedUpdates.Load() && xds.VerifC01PushChannelLen(d) == 0
		if ok && gate == "init:after-lastpushcontext" {
			// not registered: the round must have drained completely
			if p, q := xds.VerifC01QueueCounts(d); p != 0 || q != 0 {
				ok = false
			}
		}
		if !ok {
			since = time.Time{}
		} else if since.IsZero() {
			since = now
		} else if now.Sub(since) >= 2*calmTime {
			break
		}
		if now.After(deadline) {
			return timeoutResult("new push context never published / drained", nil)
		}
		time.Sleep(pollEvery)
	}
	published := xds.VerifE2EGlobalPushContext(d).PushVersion
	registered := len(d.AllClients())

	// release the client: it registers and initialises from whatever LastPushContext it has
	xds.VerifE2ESetGate(nil)
	close(release)
	released = true
	if !st.quiesce(e) {
		return timeoutResult("client after release", map[string]any{"log": e.streamLog(), "errors": e.errors()})
	}
	check := func(label string) ([]diff, *result) {
		fresh := newEnvoy("fresh", h.Proto == "delta", "app-fresh-"+label)
		fresh.explicit = h.Explicit
		fresh.connect(st, connectOpts{})
		defer fresh.disconnect()
		if !st.quiesce(e, fresh) {
			r := timeoutResult("fresh client", map[string]any{"log": fresh.streamLog(), "errors": fresh.errors()})
			return nil, &r
		}
		a, b := e.snapshot(), fresh.snapshot()
		stt.Comparisons++
		stt.Compared += countHeld(b, envoyTypes)
		stt.client(fresh)
		return compareHeld(a, b, envoyTypes), nil
	}
	df, tr := check("1")
	if tr != nil {
		return *tr
	}
	if len(df) > 0 {
		// the claim is "stale until the next unrelated push": it must persist in a quiescent system
		time.Sleep(patience / 3)
		df, tr = check("2")
		if tr != nil {
			return *tr
		}
	}
	stt.client(e)
	if errs := e.errors(); len(errs) > 0 {
		return result{Clause: "harness-client-error", Detail: map[string]any{"errors": errs}}
	}
	if len(df) > 0 {
		return result{Clause: "init-window-missed-snapshot", Detail: map[string]any{
			"n": len(df), "diff": limitDiffs(df, 6), "a": "gated client", "b": "fresh client", "published": published,
			"registered_while_published": registered, "log": e.streamLog()}}
	}
	return result{OK: true, Summary: "initrace gate=" + gate + " proto=" + h.Proto + " ops=" + opsShort(h.Steps) +
		" held=" + itoa(countHeld(e.snapshot(), envoyTypes))}
}
