package main

// Stream `c05` (reconnect resynchronises), Envoy flavour. A random prefix of a history is played
// to a SotW client and a delta client; their streams are cut at a random point (quiescent, right
// after a change was made but before its push, at the K-th response after a change - applied or
// lost in transit -, or at the K-th response of the initial exchange: e.g. between CDS and EDS);
// a random set of further changes is applied while they are away (including deletion of services
// whose clusters they retained); they reconnect to the same server or to a SECOND server
// cold-started from the same final objects, presenting their old state (SotW: previous
// version_info, optionally the previous response_nonce, and resource names in the first request
// per type, in a random type order; delta: initial_resource_versions for everything retained plus
// "*" / the names). After quiescence:
//
//	reconnect-request-unanswered  a type whose first request was sent got no response although the
//	                              client still wants it (or no EDS response followed the CDS response)
//	reconnect-stale               the held maps differ from those of a brand-new client
//	reconnect-not-removed         delta: a retained CDS / LDS resource that no longer exists was
//	                              not listed in removed_resources (and is therefore still held)
//
// Overlap (cut.overlap): the network died without the server noticing - the clients abandon their
// streams WITHOUT closing them, reconnect (same proxy ID, so two connections of one proxy are
// registered at once), and only then the old streams terminate on the server (removeCon after the new
// addCon). Further changes (cut.after) must still reach the reconnected streams:
//
//	overlap-connection-id-reused     the old and the new stream of one proxy share a connection ID
//	                                 (only one of them is registered while both are open)
//	overlap-connection-unregistered  the new stream is no longer registered once the old one terminated

import (
	"context"
	"sort"
	"strings"
	"time"

	corev1 "k8s.io/api/core/v1"
	metav1 "k8s.io/apimachinery/pkg/apis/meta/v1"

	networking "istio.io/api/networking/v1alpha3"
	typev1beta1 "istio.io/api/type/v1beta1"
	"istio.io/istio/pilot/pkg/features"
	"istio.io/istio/pilot/pkg/model"
	"istio.io/istio/pilot/pkg/xds"
	"istio.io/istio/pkg/config"
	"istio.io/istio/pkg/config/schema/gvk"
	"verifharness/internal/wire"
)

type CutSpec struct {
	Mode      string   `json:"mode"`              // quiet | after-change | at-response | initial
	K         int      `json:"k,omitempty"`       // at-response / initial: the stream dies at its K-th response from arming
	Fate      string   `json:"fate,omitempty"`    // of that response: applied (default) | lost (in transit; the server's Send succeeded) | failed-send (Send returned an error)
	Trigger   []Op     `json:"trigger,omitempty"` // the change made right before the cut
	Away      []Op     `json:"away,omitempty"`    // changes while disconnected
	Second    bool     `json:"second_server,omitempty"`
	Order     []string `json:"order"`
	KeepNonce bool     `json:"keep_nonce,omitempty"`
	Overlap   bool     `json:"overlap,omitempty"` // reconnect first, the old streams terminate afterwards (same server only)
	After     []Op     `json:"after,omitempty"`   // changes made after the reconnect (and after the old streams are gone)
	// round 3
	Probe     bool     `json:"probe_first,omitempty"` // a health probe of the agent reaches the server before the first xDS request of the new stream
	Hot       bool     `json:"hot,omitempty"`         // reconnect into a NON-quiescent server: the away changes are made and the proxies reconnect at once (same server)
	AgainK    int      `json:"again_k,omitempty"`     // a second fault during the resync: the reconnected stream dies at its AgainK-th response, the proxy reconnects once more
	AgainFate string   `json:"again_fate,omitempty"`
	Nds       bool     `json:"nds,omitempty"`        // the proxies capture DNS: they also subscribe to the name table (NDS)
	NackFirst []string `json:"nack_first,omitempty"` // types whose first request on the new stream is the NACK the proxy could not send before the old stream broke (error_detail set)
	Wide      bool     `json:"wide,omitempty"`       // history drawn from the wide grammar (PeerAuthentication, EnvoyFilter with ECDS)
	// round 4
	Relabel  bool `json:"relabel,omitempty"`     // overlap: the proxies are kube pods; their labels change (a Sidecar selects the new labels) while the old and the new stream are both registered
	StopBy   bool `json:"server_stop,omitempty"` // the cut is made by the SERVER: Connection.Stop() on the registered connection (force-disconnect), the proxy notices the closed stream
	Shutdown bool `json:"shutdown,omitempty"`    // second server: the old instance is shut down with the streams still open (restart), not left running
	// zt flavour
	StaleVersions bool `json:"stale_versions,omitempty"` // present wrong versions for some retained resources
}

func genAwayOp(r *wire.Rng, w *world, clock *int) Op {
	if r.Chance(1, 3) {
		// delete something the clients hold clusters for
		var cands []Op
		for _, k := range sortedKeys(w.Cfg) {
			c := w.Cfg[k]
			if c.K == "se" || c.K == "dr" {
				cands = append(cands, Op{K: "del", Kind: c.K, N: c.N, Ns: c.Ns})
			}
		}
		if _, ok := w.Mem[memHost]; ok {
			cands = append(cands, Op{K: "mdel", N: memHost, Ns: proxyNs})
		}
		if len(cands) > 0 {
			return wire.Pick(r, cands)
		}
	}
	return genOp(r, w, clock)
}

func permute(r *wire.Rng, xs []string) []string {
	o := append([]string(nil), xs...)
	for i := len(o) - 1; i > 0; i-- {
		j := r.Intn(i + 1)
		o[i], o[j] = o[j], o[i]
	}
	return o
}

func genC05(r *wire.Rng) *History {
	if ztEnabled && r.Chance(1, 4) {
		return genC05Zt(r)
	}
	h := &History{Stream: "c05", Flavor: "envoy", Debounce: wire.Pick(r, []int{0, 5, 20}), Explicit: r.Chance(1, 2)}
	clock := 0
	wide := r.Chance(1, 3)
	router := r.Chance(1, 6)
	if wide || router {
		wideGrammar = true
		defer func() { wideGrammar = false }()
	}
	w := newWorld(false)
	// the op generators of the flavour
	genOp, genAwayOp := genOp, genAwayOp
	if router {
		// an ingress gateway (node type router, PILOT_FILTER_GATEWAY_CLUSTER_CONFIG): base and grammar of stream c03's
		// router flavour - Gateway / bound VirtualService changes drive the gateway arms of CDS / LDS / RDS
		src := genC03Router(r)
		h.Flavor, h.Base, wide = "router", src.Base, true
		for _, o := range h.Base {
			w.note(o)
			if o.T > clock {
				clock = o.T
			}
		}
		genOp = genRouterOp
		genAwayOp = func(r *wire.Rng, w *world, clock *int) Op {
			if r.Chance(1, 3) {
				var cands []Op
				for _, k := range sortedKeys(w.Cfg) {
					if c := w.Cfg[k]; c.K == "se" || c.K == "dr" || c.K == "vs" || c.K == "gw" {
						cands = append(cands, Op{K: "del", Kind: c.K, N: c.N, Ns: c.Ns})
					}
				}
				if len(cands) > 0 {
					return wire.Pick(r, cands)
				}
			}
			return genRouterOp(r, w, clock)
		}
	} else {
		h.Base = genBase(r, &clock)
		for _, o := range h.Base {
			w.note(o)
		}
	}
	c := &CutSpec{Mode: wire.Pick(r, []string{"quiet", "after-change", "at-response", "at-response", "initial"})}
	if c.Mode != "initial" {
		n := r.Intn(4)
		for i := 0; i < n; i++ {
			o := genOp(r, w, &clock)
			w.note(o)
			h.Steps = append(h.Steps, []Op{o})
		}
	}
	if c.Mode == "after-change" || c.Mode == "at-response" {
		n := 1 + r.Intn(2)
		for i := 0; i < n; i++ {
			o := genOp(r, w, &clock)
			w.note(o)
			c.Trigger = append(c.Trigger, o)
		}
	}
	if c.Mode == "at-response" || c.Mode == "initial" {
		c.K = 1 + r.Intn(5)
		if c.Mode == "initial" && r.Chance(1, 6) {
			c.K = 0 // the stream dies before any response: the first requests may or may not have been read
		}
		c.Fate = wire.Pick(r, []string{"applied", "applied", "lost", "failed-send"})
		if c.Mode == "initial" && c.K > 0 && r.Chance(1, 4) {
			// the K-th response (an answer to a REQUEST) stalls in Send; a change is made meanwhile, its push is taken
			// off the queue and waits for the connection's loop; then the stream dies
			c.Fate = "stalled"
			o := genOp(r, w, &clock)
			w.note(o)
			c.Trigger = []Op{o}
		}
	}
	n := r.Intn(5)
	for i := 0; i < n; i++ {
		o := genAwayOp(r, w, &clock)
		w.note(o)
		c.Away = append(c.Away, o)
	}
	c.Second = r.Chance(1, 3)
	c.Order = permute(r, envoyTypes)
	c.KeepNonce = r.Chance(1, 2)
	// the server has not noticed the dead streams when the proxies come back (only where the streams
	// are still open at the cut, and on the same instance)
	if (c.Mode == "quiet" || c.Mode == "after-change") && !c.Second && r.Chance(2, 3) {
		c.Overlap = true
	}
	if c.Overlap || r.Chance(1, 4) {
		n := 1 + r.Intn(2)
		for i := 0; i < n; i++ {
			o := genOp(r, w, &clock)
			w.note(o)
			c.After = append(c.After, o)
		}
	}
	c.Wide = wide
	c.Probe = r.Chance(1, 4)
	c.Nds = r.Chance(1, 2)
	if !c.Second && len(c.Away) > 0 && r.Chance(1, 3) {
		c.Hot = true
	}
	if !c.Overlap && r.Chance(1, 4) {
		c.AgainK = 1 + r.Intn(4)
		c.AgainFate = wire.Pick(r, []string{"applied", "lost", "failed-send"})
	}
	if c.Overlap && !router && r.Chance(1, 3) {
		c.Relabel = true
	}
	if (c.Mode == "quiet" || c.Mode == "after-change") && !c.Overlap && r.Chance(1, 3) {
		c.StopBy = true
	}
	if c.Second && r.Chance(1, 2) {
		c.Shutdown = true
	}
	if c.Second && !c.Shutdown && len(c.Away) > 1 && r.Chance(1, 3) {
		c.Hot = true // the LAST away change reaches the second instance right before the proxies do
	}
	if r.Chance(1, 4) {
		c.NackFirst = wire.Subset(r, envoyTypes, 1, 2)
		if len(c.NackFirst) == 0 {
			c.NackFirst = []string{"CDS"}
		}
	}
	h.Cut = c
	return h
}

// pushSlotsLeaked: after a cut the server must get all its push slots back - the push that was on its way to
// the dead stream is marked done and its semaphore token returned (doSendPushes, `case <-closed`). At rest the
// sender loop itself holds one token and nothing is in the processing table.
func pushSlotsLeaked(st *site) (bool, map[string]any) {
	var tokens, processing, gone int
	deadline := time.Now().Add(2 * time.Second)
	for {
		t, q, _ := xds.VerifC02ServerState(st.s.Discovery)
		reg := map[string]bool{}
		for _, c := range st.s.Discovery.AllClients() {
			reg[c.ID()] = true
		}
		tokens, processing, gone = t, len(q.Processing), 0
		for c := range q.Processing {
			if !reg[c.ID()] {
				gone++
			}
		}
		if gone == 0 && tokens <= 1+processing {
			return false, nil
		}
		if time.Now().After(deadline) {
			break
		}
		time.Sleep(20 * time.Millisecond)
	}
	return true, map[string]any{"semaphore_tokens": tokens, "processing": processing, "processing_for_closed_connections": gone,
		"expected": "one token (the sender loop), nothing in processing for a connection that is gone"}
}

// ---- round 4: the proxies as kube pods whose labels change (ProxyUpdate)

const movedLabel = "moved"

func clientPod(name, ip, app string) *corev1.Pod {
	return &corev1.Pod{
		ObjectMeta: metav1.ObjectMeta{Name: name, Namespace: proxyNs, Labels: map[string]string{"app": app}},
		Spec:       corev1.PodSpec{ServiceAccountName: "client", NodeName: "node1"},
		Status: corev1.PodStatus{PodIP: ip, PodIPs: []corev1.PodIP{{IP: ip}}, Phase: corev1.PodRunning,
			Conditions: []corev1.PodCondition{{Type: corev1.PodReady, Status: corev1.ConditionTrue, LastTransitionTime: metav1.NewTime(epoch)}}},
	}
}

func (e *envoy) setIP(ip string) {
	p := strings.SplitN(e.nodeID, "~", 4)
	e.nodeID = p[0] + "~" + ip + "~" + p[2] + "~" + p[3]
}

func (e *envoy) podName() string {
	return strings.SplitN(strings.SplitN(e.nodeID, "~", 4)[2], ".", 2)[0]
}
func (e *envoy) podIP() string { return strings.SplitN(e.nodeID, "~", 4)[1] }

// podLabelsKnown: the registry answers the proxy's label lookup with the given app label.
func podLabelsKnown(st *site, e *envoy, app string) bool {
	p := &model.Proxy{ID: e.podName() + "." + proxyNs, IPAddresses: []string{e.podIP()}, Metadata: &model.NodeMetadata{Namespace: proxyNs, ClusterID: "Kubernetes"},
		Type: model.SidecarProxy}
	l := st.s.Env().GetProxyWorkloadLabels(p)
	return l != nil && l["app"] == app
}

// setupRelabel makes the two proxies pods of the kube registry (label app=client) and adds a Sidecar that selects
// app=moved and imports nothing: once a proxy's pod carries that label its outbound configuration shrinks.
func setupRelabel(st *site, es ...*envoy) error {
	pods := st.s.KubeClient().Kube().CoreV1().Pods(proxyNs)
	for _, e := range es {
		p := clientPod(e.podName(), e.podIP(), "client")
		created, err := pods.Create(context.Background(), p, metav1.CreateOptions{})
		if err != nil {
			return err
		}
		created.Status = p.Status
		if _, err := pods.UpdateStatus(context.Background(), created, metav1.UpdateOptions{}); err != nil {
			return err
		}
	}
	_, err := st.s.Store().Create(config.Config{
		Meta: config.Meta{GroupVersionKind: gvk.Sidecar, Name: "selected-by-label", Namespace: proxyNs, CreationTimestamp: epoch},
		Spec: &networking.Sidecar{WorkloadSelector: &networking.WorkloadSelector{Labels: map[string]string{"app": movedLabel}},
			Egress: []*networking.IstioEgressListener{{Hosts: []string{"~/*"}}}},
	})
	if err != nil {
		return err
	}
	deadline := time.Now().Add(settleTime)
	for time.Now().Before(deadline) {
		ok := true
		for _, e := range es {
			ok = ok && podLabelsKnown(st, e, "client")
		}
		if ok {
			return nil
		}
		time.Sleep(pollEvery)
	}
	return context.DeadlineExceeded
}

func relabelPods(st *site, app string, es ...*envoy) error {
	pods := st.s.KubeClient().Kube().CoreV1().Pods(proxyNs)
	for _, e := range es {
		p, err := pods.Get(context.Background(), e.podName(), metav1.GetOptions{})
		if err != nil {
			return err
		}
		p.Labels = map[string]string{"app": app}
		if _, err := pods.Update(context.Background(), p, metav1.UpdateOptions{}); err != nil {
			return err
		}
	}
	deadline := time.Now().Add(settleTime)
	for time.Now().Before(deadline) {
		ok := true
		for _, e := range es {
			ok = ok && podLabelsKnown(st, e, app)
		}
		if ok {
			return nil
		}
		time.Sleep(pollEvery)
	}
	return context.DeadlineExceeded
}

var _ = typev1beta1.WorkloadSelector{}

// registeredIDs: the connection IDs the server has registered (adsClients) for this client's proxy.
func registeredIDs(st *site, e *envoy) []string {
	var out []string
	want := strings.SplitN(e.nodeID, "~", 4)[2]
	for _, c := range st.s.Discovery.AllClients() {
		if p := c.Proxy(); p != nil && p.ID == want {
			out = append(out, c.ID())
		}
	}
	sort.Strings(out)
	return out
}

// armCut makes the live stream die at its k-th response from now.
func (e *envoy) armCut(k int, fate string) {
	e.mu.Lock()
	defer e.mu.Unlock()
	if e.st != nil && !e.st.dead {
		e.st.cutAfter = e.st.nResp + k
		e.st.cutDrop = fate == "lost" || fate == "failed-send"
		e.st.cutErr = fate == "failed-send"
	}
}

func (e *envoy) isDead() bool {
	e.mu.Lock()
	defer e.mu.Unlock()
	return e.st == nil || e.st.dead
}

// lastResponseType: the type of the last response the live (or just cut) stream saw ("" = none).
func (e *envoy) lastResponseType() string {
	e.mu.Lock()
	defer e.mu.Unlock()
	if e.st == nil {
		return ""
	}
	return e.st.lastType
}

func runC05(h *History, stt *stats) result {
	c := h.Cut
	if c == nil {
		return result{Clause: "harness-bad-history", Detail: map[string]any{"err": "no cut spec"}}
	}
	w := h.baseWorld()
	if h.Flavor == "router" {
		old := features.FilterGatewayClusterConfig
		features.FilterGatewayClusterConfig = true
		defer func() { features.FilterGatewayClusterConfig = old }()
		stt.Extra["router-flavour"]++
	}
	deb := time.Duration(h.Debounce) * time.Millisecond
	// several ops applied back to back are only deterministic when their events merge into ONE push (otherwise a
	// push built for the first event may already contain the state of the second one: C03's known class
	// "events behind state", which is not about reconnects) - as in stream c03 such bursts get debounce 50 ms
	if len(c.Trigger) > 1 || (c.Hot && !c.Second && len(c.Away) > 1) {
		if deb < 50*time.Millisecond {
			deb = 50 * time.Millisecond
		}
	}
	st := newSite(w, deb)
	stt.Servers++
	defer st.close()

	sotw := newEnvoy("sotw", false, "app-sotw")
	delta := newEnvoy("delta", true, "app-delta")
	delta.explicit = h.Explicit
	if h.Flavor == "router" {
		asRouter(sotw, "gw-sotw")
		asRouter(delta, "gw-delta")
	}
	sotw.nds, delta.nds = c.Nds && h.Flavor != "router", c.Nds && h.Flavor != "router"
	relabel := c.Relabel && c.Overlap && !c.Second && h.Flavor != "router"
	if relabel {
		delta.setIP("10.30.0.10") // one pod, one address
		if err := setupRelabel(st, sotw, delta); err != nil {
			return result{Clause: "harness-apply-error", Detail: map[string]any{"op": "pods of the proxies", "err": err.Error()}}
		}
		if !st.quiesce() {
			return timeoutResult("pods of the proxies", nil)
		}
	}
	types := append([]string{}, envoyTypes...)
	if c.Wide {
		types = append(types, "ECDS")
	}
	if c.Nds && h.Flavor != "router" {
		types = append(types, "NDS")
	}
	both := []*envoy{sotw, delta}
	defer func() {
		for _, e := range both {
			e.disconnect()
			stt.client(e)
		}
	}()

	// --- phase 1: up to the cut
	waitDeadOrQuiet := func() bool {
		deadline := time.Now().Add(settleTime)
		for time.Now().Before(deadline) {
			if sotw.isDead() && delta.isDead() {
				return true
			}
			// the live ones may simply never see K responses: quiescence ends the wait too
			var live []activity
			for _, e := range both {
				if !e.isDead() {
					live = append(live, e)
				}
			}
			if st.quiesceFor(calmTime, live...) {
				return true
			}
		}
		return false
	}
	if c.Mode == "initial" && c.K == 0 {
		for _, e := range both {
			e.connect(st, connectOpts{})
			e.disconnect()
		}
	} else if c.Mode == "initial" && c.Fate == "stalled" {
		stt.Cuts["response-stalled-in-send"]++
		for _, e := range both {
			e.connect(st, connectOpts{cutAfter: c.K, cutStall: true})
		}
		deadline := time.Now().Add(3 * time.Second)
		for !(sotw.isStalled() && delta.isStalled()) && time.Now().Before(deadline) {
			time.Sleep(pollEvery)
		}
		for _, o := range c.Trigger {
			if err := st.apply(w, o); err != nil {
				return result{Clause: "harness-apply-error", Detail: map[string]any{"op": o, "err": err.Error()}}
			}
			stt.Ops[o.K]++
		}
		// wait until the push for the stalled connections has been taken off the queue (it now waits for their loops)
		deadline = time.Now().Add(3 * time.Second)
		for time.Now().Before(deadline) {
			_, q, _ := xds.VerifC02ServerState(st.s.Discovery)
			if len(q.Processing) >= 2 {
				stt.Cuts["push-waiting-for-a-stalled-connection"]++
				break
			}
			time.Sleep(pollEvery)
		}
		for _, e := range both {
			e.releaseStall()
		}
	} else if c.Mode == "initial" {
		for _, e := range both {
			e.connect(st, connectOpts{cutAfter: c.K, cutDrop: c.Fate == "lost" || c.Fate == "failed-send", cutErr: c.Fate == "failed-send"})
		}
		if !waitDeadOrQuiet() {
			return timeoutResult("initial exchange", clientInfo(sotw, delta))
		}
	} else {
		for _, e := range both {
			e.connect(st, connectOpts{})
		}
		if !st.quiesce(sotw, delta) {
			return timeoutResult("first connection", clientInfo(sotw, delta))
		}
		for _, ops := range h.Steps {
			if r := applyStep(st, w, ops, stt); r != nil {
				return *r
			}
			stt.Steps++
			if !st.quiesce(sotw, delta) {
				return timeoutResult("prefix", clientInfo(sotw, delta))
			}
		}
		switch c.Mode {
		case "after-change":
			for _, o := range c.Trigger {
				if err := st.apply(w, o); err != nil {
					return result{Clause: "harness-apply-error", Detail: map[string]any{"op": o, "err": err.Error()}}
				}
				stt.Ops[o.K]++
			}
		case "at-response":
			for _, e := range both {
				e.armCut(c.K, c.Fate)
			}
			if r := applyStep(st, w, c.Trigger, stt); r != nil {
				return *r
			}
			if !waitDeadOrQuiet() {
				return timeoutResult("waiting for the cut", clientInfo(sotw, delta))
			}
		}
	}
	stt.Cuts["mode:"+c.Mode]++
	zombies := map[string]*stream{}
	for _, e := range both {
		if e.isDead() {
			stt.Cuts["scripted-response-cut"]++
			if c.Fate != "" {
				stt.Cuts["response-"+c.Fate]++
			}
		}
		lt := e.lastResponseType()
		stt.Cuts[e.label+"-last-response:"+lt]++
		e.mu.Lock()
		if e.st != nil && e.st.dead && e.st.edsDue && lt == "CDS" {
			stt.Cuts["between-CDS-and-EDS"]++
		}
		e.mu.Unlock()
		switch {
		case c.Overlap && !c.Second && !e.isDead():
			zombies[e.label] = e.abandon()
		case c.Shutdown && c.Second && !e.isDead():
			// the stream stays open until the instance itself goes away (below)
		case c.StopBy && !e.isDead():
			// the SERVER ends the stream (Connection.Stop: what a forced disconnect / max connection age does); the
			// proxy notices the closed stream and will reconnect
			stt.Cuts["server-side-stop"]++
			e.mu.Lock()
			live := e.st
			e.mu.Unlock()
			want := strings.SplitN(e.nodeID, "~", 4)[2]
			for _, con := range st.s.Discovery.AllClients() {
				if p := con.Proxy(); p != nil && p.ID == want {
					con.Stop()
				}
			}
			select {
			case <-live.done:
			case <-time.After(5 * time.Second):
				return result{Clause: "server-stop-leaves-connection", Detail: map[string]any{"client": e.label, "what": "the stream handler did not return after Connection.Stop()", "log": e.streamLog()}}
			}
			// (gRPC cancels the stream context when the handler returns; here the client does it) - the receive
			// goroutine then unregisters the connection
			e.disconnect()
			deadline := time.Now().Add(3 * time.Second)
			for len(registeredIDs(st, e)) != 0 && time.Now().Before(deadline) {
				time.Sleep(pollEvery)
			}
			if ids := registeredIDs(st, e); len(ids) != 0 {
				return result{Clause: "server-stop-leaves-connection", Detail: map[string]any{"client": e.label, "registered": ids}}
			}
		default:
			e.disconnect()
		}
	}
	defer func() {
		for _, e := range both {
			e.closeStream(zombies[e.label])
		}
	}()
	cutLog := clientInfo(sotw, delta)
	retained := map[string]held{}
	for _, e := range both {
		retained[e.label] = e.snapshot()
		stt.Retained += countHeld(retained[e.label], types)
	}
	if errs := append(sotw.errors(), delta.errors()...); len(errs) > 0 {
		return result{Clause: "harness-client-error", Detail: map[string]any{"phase": "before reconnect", "errors": errs}}
	}

	// --- phase 2: changes while away
	hot := c.Hot && !c.Second && len(c.Away) > 0
	shutdown := c.Shutdown && c.Second
	var heldBack []Op // second server + hot: the last away change reaches the NEW instance right before the proxies do
	away := c.Away
	if c.Hot && c.Second && !shutdown && len(away) > 1 {
		heldBack, away = away[len(away)-1:], away[:len(away)-1]
	}
	if shutdown {
		// a restart: the old instance is shut down with the streams still open (and, in after-change mode, with the
		// push of the trigger on its way); the changes made while the proxies are away never reach it
		stt.Reconnects["old-instance-shut-down-with-live-streams"]++
		st.close()
		for _, e := range both {
			e.disconnect()
		}
		for _, o := range away {
			w.note(o)
			stt.Ops[o.K]++
		}
	} else if hot {
		// the proxies come back while the server is still digesting the changes (debounce, push context
		// initialisation, push round): their registration races with the publication
		stt.Reconnects["into-non-quiescent-server"]++
		for _, o := range c.Away {
			if err := st.apply(w, o); err != nil {
				return result{Clause: "harness-apply-error", Detail: map[string]any{"op": o, "err": err.Error()}}
			}
			stt.Ops[o.K]++
		}
	} else {
		for _, o := range away {
			if r := applyStep(st, w, []Op{o}, stt); r != nil {
				return *r
			}
		}
		if !st.quiesce() {
			if leaked, d := pushSlotsLeaked(st); leaked {
				return result{Clause: "push-slot-leaked-after-cut", Detail: merge(d, map[string]any{"cut": cutLog})}
			}
			return timeoutResult("server quiescence while away", nil)
		}
		if leaked, d := pushSlotsLeaked(st); leaked {
			return result{Clause: "push-slot-leaked-after-cut", Detail: merge(d, map[string]any{"cut": cutLog})}
		}
	}

	// --- phase 3: reconnect
	target := st
	if c.Second {
		target = newSite(w, deb)
		stt.Servers++
		defer target.close()
		if !target.quiesce() {
			return timeoutResult("second server", nil)
		}
		stt.Reconnects["second-server"]++
		if len(heldBack) > 0 {
			stt.Reconnects["into-non-quiescent-second-server"]++
			for _, o := range heldBack {
				if err := target.apply(w, o); err != nil {
					return result{Clause: "harness-apply-error", Detail: map[string]any{"op": o, "err": err.Error()}}
				}
				stt.Ops[o.K]++
			}
			hot = true // the EDS-after-CDS clause is about the first exchange only (see below)
		}
	} else {
		stt.Reconnects["same-server"]++
	}
	stt.Reconnects["first:"+c.Order[0]]++
	if c.KeepNonce {
		stt.Reconnects["sotw-keeps-nonce"]++
	}
	nack := map[string]bool{}
	for _, t := range c.NackFirst {
		nack[t] = true
	}
	if len(nack) > 0 {
		stt.Reconnects["first-request-is-a-queued-nack"]++
	}
	if c.Probe {
		stt.Reconnects["health-probe-first"]++
	}
	if c.AgainK > 0 {
		// a second fault during the resynchronisation
		stt.Reconnects["second-fault-during-resync"]++
		for _, e := range both {
			e.connect(target, connectOpts{order: c.Order, keepNonce: c.KeepNonce, probeFirst: c.Probe, nackFirst: nack,
				cutAfter: c.AgainK, cutDrop: c.AgainFate == "lost" || c.AgainFate == "failed-send", cutErr: c.AgainFate == "failed-send"})
		}
		deadline := time.Now().Add(settleTime)
		for time.Now().Before(deadline) && !(sotw.isDead() && delta.isDead()) {
			var live []activity
			for _, e := range both {
				if !e.isDead() {
					live = append(live, looseActivity{e})
				}
			}
			if target.quiesceFor(calmTime, live...) {
				break
			}
		}
		for _, e := range both {
			e.disconnect()
		}
		// what the second stream delivered is retained as well
		for _, e := range both {
			retained[e.label] = e.snapshot()
		}
		if errs := append(sotw.errors(), delta.errors()...); len(errs) > 0 {
			return result{Clause: "harness-client-error", Detail: map[string]any{"phase": "second fault", "errors": errs}}
		}
		// the third stream asks in the reverse order
		rev := append([]string{}, c.Order...)
		for i, j := 0, len(rev)-1; i < j; i, j = i+1, j-1 {
			rev[i], rev[j] = rev[j], rev[i]
		}
		c = &CutSpec{Mode: c.Mode, K: c.K, Fate: c.Fate, Away: c.Away, Second: c.Second, Order: rev, KeepNonce: c.KeepNonce, After: c.After,
			Probe: c.Probe, Nds: c.Nds, Wide: c.Wide, Overlap: c.Overlap, Hot: c.Hot, AgainK: c.AgainK}
		nack = map[string]bool{}
	}
	firstSent := map[string]map[string]bool{}
	for _, e := range both {
		s := e.connect(target, connectOpts{order: c.Order, keepNonce: c.KeepNonce, probeFirst: c.Probe, nackFirst: nack})
		e.mu.Lock()
		firstSent[e.label] = map[string]bool{}
		for t, n := range s.reqs {
			if n > 0 {
				firstSent[e.label][t] = true
			}
		}
		e.mu.Unlock()
	}
	fs := newEnvoy("fresh-sotw", false, "app-fresh-sotw")
	fd := newEnvoy("fresh-delta", true, "app-fresh-delta")
	if h.Flavor == "router" {
		asRouter(fs, "gw-fresh-sotw")
		asRouter(fd, "gw-fresh-delta")
	}
	if relabel {
		// the brand-new client is the SAME workload (its labels come from its pod)
		fs, fd = newEnvoy("fresh-sotw", false, "app-sotw"), newEnvoy("fresh-delta", true, "app-delta")
		fd.setIP("10.30.0.10")
	}
	fd.explicit = h.Explicit
	fs.nds, fd.nds = sotw.nds, delta.nds
	fresh := map[string]*envoy{"sotw": fs, "delta": fd}
	if !target.quiesceLoose(sotw, delta) {
		// a reconnected stream on which the server has not sent anything and is not even reading the requests
		// any more is not a slow harness: the proxy is never served (e.g. the connection was never initialised)
		var stuck []string
		for _, e := range both {
			e.mu.Lock()
			if e.st != nil && !e.st.dead && e.st.nResp == 0 && e.st.queued.Load() > 0 {
				stuck = append(stuck, e.label)
			}
			e.mu.Unlock()
		}
		if len(stuck) > 0 {
			return result{Clause: "reconnect-request-unanswered", Detail: merge(map[string]any{"unanswered": stuck,
				"what": "no response at all on the new stream and the server stopped reading it"}, merge(clientInfo(sotw, delta), map[string]any{"cut": cutLog}))}
		}
		if leaked, d := pushSlotsLeaked(target); leaked {
			return result{Clause: "push-slot-leaked-after-cut", Detail: merge(d, map[string]any{"cut": cutLog})}
		}
		return timeoutResult("after reconnect", merge(clientInfo(sotw, delta), map[string]any{"cut": cutLog}))
	}
	info := func() map[string]any {
		return merge(map[string]any{"cut": cutLog}, clientInfo(sotw, delta))
	}
	// (a) every first request was answered
	var unanswered []string
	for _, e := range both {
		e.mu.Lock()
		for _, t := range types {
			wanted := t == "CDS" || t == "LDS" || t == "NDS" || len(e.subs[t]) > 0
			if firstSent[e.label][t] && e.st.resps[t] == 0 && wanted {
				unanswered = append(unanswered, e.label+":"+t)
			}
		}
		// (into a non-quiescent server the pushes of the away changes follow the first exchange on the new stream; a
		// CDS PUSH is not owed an EDS response - the warming re-request of a real Envoy is outside this client model -,
		// so there the clause is only "the first CDS answer was followed by an EDS answer at all")
		if e.st.edsDue && len(e.subs["EDS"]) > 0 && (!hot || e.st.resps["EDS"] == 0) {
			unanswered = append(unanswered, e.label+":EDS-after-CDS")
		}
		e.mu.Unlock()
	}
	sort.Strings(unanswered)
	if len(unanswered) > 0 {
		return result{Clause: "reconnect-request-unanswered", Detail: merge(map[string]any{"unanswered": unanswered}, info())}
	}
	// (a') the server keeps no memory across streams: the new connection watches exactly the types the proxy
	// asked for on the NEW stream (fresh WatchedResources through initializeProxy), nothing inherited
	if len(zombies) == 0 {
		for _, e := range both {
			want := strings.SplitN(e.nodeID, "~", 4)[2]
			e.mu.Lock()
			asked := map[string]bool{}
			for t, n := range e.st.reqs {
				if n > 0 {
					asked[longType[t]] = true
				}
			}
			e.mu.Unlock()
			for _, c := range target.s.Discovery.AllClients() {
				p := c.Proxy()
				if p == nil || p.ID != want {
					continue
				}
				var extra []string
				for t := range p.GetWatchedResourceTypes() {
					if !asked[t] {
						extra = append(extra, shortType(t))
					}
				}
				if len(extra) > 0 {
					sort.Strings(extra)
					return result{Clause: "reconnect-inherited-watch", Detail: merge(map[string]any{"client": e.label, "watched_but_never_requested_on_this_stream": extra}, info())}
				}
			}
		}
	}

	if len(zombies) > 0 {
		stt.Reconnects["overlapping-old-stream"]++
		// both streams of each proxy are open: both must be registered, under different IDs
		for _, e := range both {
			if zombies[e.label] == nil {
				continue
			}
			if ids := registeredIDs(target, e); len(ids) != 2 {
				return result{Clause: "overlap-connection-id-reused", Detail: merge(map[string]any{"client": e.label, "registered": ids,
					"expected": "two connections of the proxy (old stream not yet terminated, new stream)"}, info())}
			}
		}
		if relabel && len(zombies) == 2 {
			// the pods' labels change while two connections of each proxy are registered: the ProxyUpdate push (the only
			// thing that makes a connected proxy re-read its workload labels) has to reach the LIVE stream
			stt.Reconnects["labels-change-during-overlap"]++
			in := target.s.Discovery.InboundUpdates.Load()
			if err := relabelPods(target, movedLabel, sotw, delta); err != nil {
				return result{Clause: "harness-apply-error", Detail: map[string]any{"op": "relabel the proxies' pods", "err": err.Error()}}
			}
			target.awaitInbound(in, 2*time.Second)
			if !target.quiesceLoose(sotw, delta) {
				return timeoutResult("label change during the overlap", info())
			}
		}
		// now the server notices the dead streams: removeCon(old) runs after addCon(new)
		for _, e := range both {
			e.closeStream(zombies[e.label])
		}
		if !target.quiesceLoose(sotw, delta) {
			return timeoutResult("after the old streams terminated", info())
		}
		for _, e := range both {
			if zombies[e.label] == nil {
				continue
			}
			if ids := registeredIDs(target, e); len(ids) != 1 {
				return result{Clause: "overlap-connection-unregistered", Detail: merge(map[string]any{"client": e.label, "registered": ids,
					"expected": "exactly the reconnected stream"}, info())}
			}
		}
	}
	// the reconnected streams keep following changes
	if len(c.After) > 0 {
		stt.Reconnects["changes-after-reconnect"]++
		// one at a time, each pushed to quiescence (no un-scripted burst, see above)
		for _, o := range c.After {
			if r := applyStep(target, w, []Op{o}, stt); r != nil {
				return *r
			}
			if !target.quiesceLoose(sotw, delta) {
				return timeoutResult("changes after the reconnect", info())
			}
		}
	}

	fs.connect(target, connectOpts{})
	fd.connect(target, connectOpts{})
	defer func() {
		fs.disconnect()
		fd.disconnect()
		stt.client(fs)
		stt.client(fd)
	}()
	cmp := func() []diff {
		var out []diff
		for _, e := range both {
			a, b := e.snapshot(), fresh[e.label].snapshot()
			stt.Comparisons++
			stt.Compared += countHeld(b, types)
			for _, d := range compareHeld(a, b, types) {
				d.Type = e.label + ":" + d.Type
				out = append(out, d)
			}
		}
		return out
	}
	df, ok := settle(target, stt, cmp, sotw, delta, fs, fd)
	if !ok {
		return timeoutResult("fresh clients", clientInfo(sotw, delta, fs, fd))
	}
	if errs := append(sotw.errors(), delta.errors()...); len(errs) > 0 {
		return result{Clause: "harness-client-error", Detail: map[string]any{"phase": "after reconnect", "errors": errs}}
	}
	// (b) + (c)
	fh := fd.snapshot()
	gone := 0
	for _, t := range []string{"CDS", "LDS"} {
		for n := range retained["delta"][t] {
			if _, ok := fh[t][n]; !ok {
				gone++
			}
		}
	}
	stt.GoneWhile += gone
	if len(df) > 0 {
		clause := "reconnect-not-removed"
		var notRemoved []string
		delta.mu.Lock()
		for _, d := range df {
			isRetainedGone := false
			for _, t := range []string{"CDS", "LDS"} {
				if d.Type == "delta:"+t && d.Kind == "only-a" {
					if _, was := retained["delta"][t][d.Name]; was && !delta.st.removedSeen[t][d.Name] {
						isRetainedGone = true
						notRemoved = append(notRemoved, t+"/"+d.Name)
					}
				}
			}
			if !isRetainedGone {
				clause = "reconnect-stale"
			}
		}
		delta.mu.Unlock()
		return result{Clause: clause, Detail: merge(map[string]any{"n": len(df), "diff": limitDiffs(df, 8), "a": "reconnected client",
			"b": "brand-new client", "not_removed": notRemoved}, info())}
	}
	if !shutdown {
		if leaked, d := pushSlotsLeaked(st); leaked {
			return result{Clause: "push-slot-leaked-after-cut", Detail: merge(d, info())}
		}
	}
	hd := delta.snapshot()
	return result{OK: true, Summary: "c05 envoy cut=" + c.Mode + " k=" + itoa(c.K) + " prefix=" + itoa(len(h.Steps)) + " away=" + itoa(len(c.Away)) +
		" second=" + wire.B(c.Second) + " overlap=" + wire.B(len(zombies) > 0) + " after=" + itoa(len(c.After)) + " hot=" + wire.B(hot) + " again=" + itoa(c.AgainK) + " probe=" + wire.B(c.Probe) +
		" nds=" + wire.B(c.Nds) + " wide=" + wire.B(c.Wide) + " relabel=" + wire.B(relabel) + " srvstop=" + wire.B(c.StopBy && !c.Overlap) + " shutdown=" + wire.B(shutdown) + " nack=" + itoa(len(h.Cut.NackFirst)) + " first=" + c.Order[0] + " retained=" + itoa(countHeld(retained["delta"], types)) + " gone=" + itoa(gone) +
		" held=" + itoa(len(hd["CDS"])) + "/" + itoa(len(hd["EDS"])) + "/" + itoa(len(hd["LDS"])) + "/" + itoa(len(hd["RDS"]))}
}
