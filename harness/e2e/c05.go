package main

// Stream `c05` (reconnect resynchronises), Envoy flavour. A random prefix of a history is played
// to a SotW client and a delta client; their streams are cut at a random point (quiescent, right
// after a change was made but before its push, at the K-th response after a change - applied or
// lost in transit -, or at the K-th response of the initial exchange: e.g. between CDS and EDS);
// a random set of further changes is applied while they are away (including deletion of services
// whose clusters they retained); they reconnect to the same server or to a SECOND server
// cold-started from the same final objects, presenting their old state (SotW: previous
// version_info, optionally the previous response_nonce, and resource names in the first request
// per type, in a random type order; delta: initial_resource_versions for everything retained plus
// "*" / the names). After quiescence:
//
//	reconnect-request-unanswered  a type whose first request was sent got no response although the
//	                              client still wants it (or no EDS response followed the CDS response)
//	reconnect-stale               the held maps differ from those of a brand-new client
//	reconnect-not-removed         delta: a retained CDS / LDS resource that no longer exists was
//	                              not listed in removed_resources (and is therefore still held)
//
// Overlap (cut.overlap): the network died without the server noticing - the clients abandon their
// streams WITHOUT closing them, reconnect (same proxy ID, so two connections of one proxy are
// registered at once), and only then the old streams terminate on the server (removeCon after the new
// addCon). Further changes (cut.after) must still reach the reconnected streams:
//
//	overlap-connection-id-reused     the old and the new stream of one proxy share a connection ID
//	                                 (only one of them is registered while both are open)
//	overlap-connection-unregistered  the new stream is no longer registered once the old one terminated

import (
	"sort"
	"strings"
	"time"

	"verifharness/internal/wire"
)

type CutSpec struct {
	Mode      string   `json:"mode"`              // quiet | after-change | at-response | initial
	K         int      `json:"k,omitempty"`       // at-response / initial: the stream dies at its K-th response from arming
	Fate      string   `json:"fate,omitempty"`    // of that response: applied (default) | lost (in transit; the server's Send succeeded) | failed-send (Send returned an error)
	Trigger   []Op     `json:"trigger,omitempty"` // the change made right before the cut
	Away      []Op     `json:"away,omitempty"`    // changes while disconnected
	Second    bool     `json:"second_server,omitempty"`
	Order     []string `json:"order"`
	KeepNonce bool     `json:"keep_nonce,omitempty"`
	Overlap   bool     `json:"overlap,omitempty"` // reconnect first, the old streams terminate afterwards (same server only)
	After     []Op     `json:"after,omitempty"`   // changes made after the reconnect (and after the old streams are gone)
	// zt flavour
	StaleVersions bool `json:"stale_versions,omitempty"` // present wrong versions for some retained resources
}

func genAwayOp(r *wire.Rng, w *world, clock *int) Op {
	if r.Chance(1, 3) {
		// delete something the clients hold clusters for
		var cands []Op
		for _, k := range sortedKeys(w.Cfg) {
			c := w.Cfg[k]
			if c.K == "se" || c.K == "dr" {
				cands = append(cands, Op{K: "del", Kind: c.K, N: c.N, Ns: c.Ns})
			}
		}
		if _, ok := w.Mem[memHost]; ok {
			cands = append(cands, Op{K: "mdel", N: memHost, Ns: proxyNs})
		}
		if len(cands) > 0 {
			return wire.Pick(r, cands)
		}
	}
	return genOp(r, w, clock)
}

func permute(r *wire.Rng, xs []string) []string {
	o := append([]string(nil), xs...)
	for i := len(o) - 1; i > 0; i-- {
		j := r.Intn(i + 1)
		o[i], o[j] = o[j], o[i]
	}
	return o
}

func genC05(r *wire.Rng) *History {
	if ztEnabled && r.Chance(1, 4) {
		return genC05Zt(r)
	}
	h := &History{Stream: "c05", Flavor: "envoy", Debounce: wire.Pick(r, []int{0, 5, 20}), Explicit: r.Chance(1, 2)}
	clock := 0
	h.Base = genBase(r, &clock)
	w := newWorld(false)
	for _, o := range h.Base {
		w.note(o)
	}
	c := &CutSpec{Mode: wire.Pick(r, []string{"quiet", "after-change", "at-response", "at-response", "initial"})}
	if c.Mode != "initial" {
		n := r.Intn(4)
		for i := 0; i < n; i++ {
			o := genOp(r, w, &clock)
			w.note(o)
			h.Steps = append(h.Steps, []Op{o})
		}
	}
	if c.Mode == "after-change" || c.Mode == "at-response" {
		n := 1 + r.Intn(2)
		for i := 0; i < n; i++ {
			o := genOp(r, w, &clock)
			w.note(o)
			c.Trigger = append(c.Trigger, o)
		}
	}
	if c.Mode == "at-response" || c.Mode == "initial" {
		c.K = 1 + r.Intn(5)
		c.Fate = wire.Pick(r, []string{"applied", "applied", "lost", "failed-send"})
	}
	n := r.Intn(5)
	for i := 0; i < n; i++ {
		o := genAwayOp(r, w, &clock)
		w.note(o)
		c.Away = append(c.Away, o)
	}
	c.Second = r.Chance(1, 3)
	c.Order = permute(r, envoyTypes)
	c.KeepNonce = r.Chance(1, 2)
	// the server has not noticed the dead streams when the proxies come back (only where the streams
	// are still open at the cut, and on the same instance)
	if (c.Mode == "quiet" || c.Mode == "after-change") && !c.Second && r.Chance(2, 3) {
		c.Overlap = true
	}
	if c.Overlap || r.Chance(1, 4) {
		n := 1 + r.Intn(2)
		for i := 0; i < n; i++ {
			o := genOp(r, w, &clock)
			w.note(o)
			c.After = append(c.After, o)
		}
	}
	h.Cut = c
	return h
}

// registeredIDs: the connection IDs the server has registered (adsClients) for this client's proxy.
func registeredIDs(st *site, e *envoy) []string {
	var out []string
	want := strings.SplitN(e.nodeID, "~", 4)[2]
	for _, c := range st.s.Discovery.AllClients() {
		if p := c.Proxy(); p != nil && p.ID == want {
			out = append(out, c.ID())
		}
	}
	sort.Strings(out)
	return out
}

// armCut makes the live stream die at its k-th response from now.
func (e *envoy) armCut(k int, fate string) {
	e.mu.Lock()
	defer e.mu.Unlock()
	if e.st != nil && !e.st.dead {
		e.st.cutAfter = e.st.nResp + k
		e.st.cutDrop = fate == "lost" || fate == "failed-send"
		e.st.cutErr = fate == "failed-send"
	}
}

func (e *envoy) isDead() bool {
	e.mu.Lock()
	defer e.mu.Unlock()
	return e.st == nil || e.st.dead
}

// lastResponseType: the type of the last response the live (or just cut) stream saw ("" = none).
func (e *envoy) lastResponseType() string {
	e.mu.Lock()
	defer e.mu.Unlock()
	if e.st == nil {
		return ""
	}
	return e.st.lastType
}

func runC05(h *History, stt *stats) result {
	c := h.Cut
	if c == nil {
		return result{Clause: "harness-bad-history", Detail: map[string]any{"err": "no cut spec"}}
	}
	w := h.baseWorld()
	deb := time.Duration(h.Debounce) * time.Millisecond
	st := newSite(w, deb)
	stt.Servers++
	defer st.close()

	sotw := newEnvoy("sotw", false, "app-sotw")
	delta := newEnvoy("delta", true, "app-delta")
	delta.explicit = h.Explicit
	both := []*envoy{sotw, delta}
	defer func() {
		for _, e := range both {
			e.disconnect()
			stt.client(e)
		}
	}()

	// --- phase 1: up to the cut
	waitDeadOrQuiet := func() bool {
		deadline := time.Now().Add(settleTime)
		for time.Now().Before(deadline) {
			if sotw.isDead() && delta.isDead() {
				return true
			}
			// the live ones may simply never see K responses: quiescence ends the wait too
			var live []activity
			for _, e := range both {
				if !e.isDead() {
					live = append(live, e)
				}
			}
			if st.quiesceFor(calmTime, live...) {
				return true
			}
		}
		return false
	}
	if c.Mode == "initial" {
		for _, e := range both {
			e.connect(st, connectOpts{cutAfter: c.K, cutDrop: c.Fate == "lost" || c.Fate == "failed-send", cutErr: c.Fate == "failed-send"})
		}
		if !waitDeadOrQuiet() {
			return timeoutResult("initial exchange", clientInfo(sotw, delta))
		}
	} else {
		for _, e := range both {
			e.connect(st, connectOpts{})
		}
		if !st.quiesce(sotw, delta) {
			return timeoutResult("first connection", clientInfo(sotw, delta))
		}
		for _, ops := range h.Steps {
			if r := applyStep(st, w, ops, stt); r != nil {
				return *r
			}
			stt.Steps++
			if !st.quiesce(sotw, delta) {
				return timeoutResult("prefix", clientInfo(sotw, delta))
			}
		}
		switch c.Mode {
		case "after-change":
			for _, o := range c.Trigger {
				if err := st.apply(w, o); err != nil {
					return result{Clause: "harness-apply-error", Detail: map[string]any{"op": o, "err": err.Error()}}
				}
				stt.Ops[o.K]++
			}
		case "at-response":
			for _, e := range both {
				e.armCut(c.K, c.Fate)
			}
			if r := applyStep(st, w, c.Trigger, stt); r != nil {
				return *r
			}
			if !waitDeadOrQuiet() {
				return timeoutResult("waiting for the cut", clientInfo(sotw, delta))
			}
		}
	}
	stt.Cuts["mode:"+c.Mode]++
	zombies := map[string]*stream{}
	for _, e := range both {
		if e.isDead() {
			stt.Cuts["scripted-response-cut"]++
			if c.Fate != "" {
				stt.Cuts["response-"+c.Fate]++
			}
		}
		lt := e.lastResponseType()
		stt.Cuts[e.label+"-last-response:"+lt]++
		e.mu.Lock()
		if e.st != nil && e.st.dead && e.st.edsDue && lt == "CDS" {
			stt.Cuts["between-CDS-and-EDS"]++
		}
		e.mu.Unlock()
		if c.Overlap && !c.Second && !e.isDead() {
			zombies[e.label] = e.abandon()
		} else {
			e.disconnect()
		}
	}
	defer func() {
		for _, e := range both {
			e.closeStream(zombies[e.label])
		}
	}()
	cutLog := clientInfo(sotw, delta)
	retained := map[string]held{}
	for _, e := range both {
		retained[e.label] = e.snapshot()
		stt.Retained += countHeld(retained[e.label], envoyTypes)
	}
	if errs := append(sotw.errors(), delta.errors()...); len(errs) > 0 {
		return result{Clause: "harness-client-error", Detail: map[string]any{"phase": "before reconnect", "errors": errs}}
	}

	// --- phase 2: changes while away
	for _, o := range c.Away {
		if r := applyStep(st, w, []Op{o}, stt); r != nil {
			return *r
		}
	}
	if !st.quiesce() {
		return timeoutResult("server quiescence while away", nil)
	}

	// --- phase 3: reconnect
	target := st
	if c.Second {
		target = newSite(w, deb)
		stt.Servers++
		defer target.close()
		if !target.quiesce() {
			return timeoutResult("second server", nil)
		}
		stt.Reconnects["second-server"]++
	} else {
		stt.Reconnects["same-server"]++
	}
	stt.Reconnects["first:"+c.Order[0]]++
	if c.KeepNonce {
		stt.Reconnects["sotw-keeps-nonce"]++
	}
	firstSent := map[string]map[string]bool{}
	for _, e := range both {
		s := e.connect(target, connectOpts{order: c.Order, keepNonce: c.KeepNonce})
		e.mu.Lock()
		firstSent[e.label] = map[string]bool{}
		for t, n := range s.reqs {
			if n > 0 {
				firstSent[e.label][t] = true
			}
		}
		e.mu.Unlock()
	}
	fs := newEnvoy("fresh-sotw", false, "app-fresh-sotw")
	fd := newEnvoy("fresh-delta", true, "app-fresh-delta")
	fd.explicit = h.Explicit
	fresh := map[string]*envoy{"sotw": fs, "delta": fd}
	if !target.quiesceLoose(sotw, delta) {
		return timeoutResult("after reconnect", merge(clientInfo(sotw, delta), map[string]any{"cut": cutLog}))
	}
	info := func() map[string]any {
		return merge(map[string]any{"cut": cutLog}, clientInfo(sotw, delta))
	}
	// (a) every first request was answered
	var unanswered []string
	for _, e := range both {
		e.mu.Lock()
		for _, t := range envoyTypes {
			wanted := t == "CDS" || t == "LDS" || len(e.subs[t]) > 0
			if firstSent[e.label][t] && e.st.resps[t] == 0 && wanted {
				unanswered = append(unanswered, e.label+":"+t)
			}
		}
		if e.st.edsDue && len(e.subs["EDS"]) > 0 {
			unanswered = append(unanswered, e.label+":EDS-after-CDS")
		}
		e.mu.Unlock()
	}
	sort.Strings(unanswered)
	if len(unanswered) > 0 {
		return result{Clause: "reconnect-request-unanswered", Detail: merge(map[string]any{"unanswered": unanswered}, info())}
	}

	if len(zombies) > 0 {
		stt.Reconnects["overlapping-old-stream"]++
		// both streams of each proxy are open: both must be registered, under different IDs
		for _, e := range both {
			if zombies[e.label] == nil {
				continue
			}
			if ids := registeredIDs(target, e); len(ids) != 2 {
				return result{Clause: "overlap-connection-id-reused", Detail: merge(map[string]any{"client": e.label, "registered": ids,
					"expected": "two connections of the proxy (old stream not yet terminated, new stream)"}, info())}
			}
		}
		// now the server notices the dead streams: removeCon(old) runs after addCon(new)
		for _, e := range both {
			e.closeStream(zombies[e.label])
		}
		if !target.quiesceLoose(sotw, delta) {
			return timeoutResult("after the old streams terminated", info())
		}
		for _, e := range both {
			if zombies[e.label] == nil {
				continue
			}
			if ids := registeredIDs(target, e); len(ids) != 1 {
				return result{Clause: "overlap-connection-unregistered", Detail: merge(map[string]any{"client": e.label, "registered": ids,
					"expected": "exactly the reconnected stream"}, info())}
			}
		}
	}
	// the reconnected streams keep following changes
	if len(c.After) > 0 {
		stt.Reconnects["changes-after-reconnect"]++
		if r := applyStep(target, w, c.After, stt); r != nil {
			return *r
		}
		if !target.quiesceLoose(sotw, delta) {
			return timeoutResult("changes after the reconnect", info())
		}
	}

	fs.connect(target, connectOpts{})
	fd.connect(target, connectOpts{})
	defer func() {
		fs.disconnect()
		fd.disconnect()
		stt.client(fs)
		stt.client(fd)
	}()
	cmp := func() []diff {
		var out []diff
		for _, e := range both {
			a, b := e.snapshot(), fresh[e.label].snapshot()
			stt.Comparisons++
			stt.Compared += countHeld(b, envoyTypes)
			for _, d := range compareHeld(a, b, envoyTypes) {
				d.Type = e.label + ":" + d.Type
				out = append(out, d)
			}
		}
		return out
	}
	df, ok := settle(target, stt, cmp, sotw, delta, fs, fd)
	if !ok {
		return timeoutResult("fresh clients", clientInfo(sotw, delta, fs, fd))
	}
	if errs := append(sotw.errors(), delta.errors()...); len(errs) > 0 {
		return result{Clause: "harness-client-error", Detail: map[string]any{"phase": "after reconnect", "errors": errs}}
	}
	// (b) + (c)
	fh := fd.snapshot()
	gone := 0
	for _, t := range []string{"CDS", "LDS"} {
		for n := range retained["delta"][t] {
			if _, ok := fh[t][n]; !ok {
				gone++
			}
		}
	}
	stt.GoneWhile += gone
	if len(df) > 0 {
		clause := "reconnect-not-removed"
		var notRemoved []string
		delta.mu.Lock()
		for _, d := range df {
			isRetainedGone := false
			for _, t := range []string{"CDS", "LDS"} {
				if d.Type == "delta:"+t && d.Kind == "only-a" {
					if _, was := retained["delta"][t][d.Name]; was && !delta.st.removedSeen[t][d.Name] {
						isRetainedGone = true
						notRemoved = append(notRemoved, t+"/"+d.Name)
					}
				}
			}
			if !isRetainedGone {
				clause = "reconnect-stale"
			}
		}
		delta.mu.Unlock()
		return result{Clause: clause, Detail: merge(map[string]any{"n": len(df), "diff": limitDiffs(df, 8), "a": "reconnected client",
			"b": "brand-new client", "not_removed": notRemoved}, info())}
	}
	hd := delta.snapshot()
	return result{OK: true, Summary: "c05 envoy cut=" + c.Mode + " k=" + itoa(c.K) + " prefix=" + itoa(len(h.Steps)) + " away=" + itoa(len(c.Away)) +
		" second=" + wire.B(c.Second) + " overlap=" + wire.B(len(zombies) > 0) + " after=" + itoa(len(c.After)) + " first=" + c.Order[0] + " retained=" + itoa(countHeld(retained["delta"], envoyTypes)) + " gone=" + itoa(gone) +
		" held=" + itoa(len(hd["CDS"])) + "/" + itoa(len(hd["EDS"])) + "/" + itoa(len(hd["LDS"])) + "/" + itoa(len(hd["RDS"]))}
}
