package main

// Stream `c01` (long-lived = fresh): the statement of property C01 seen from both protocols. A
// SotW client and a delta client stay connected while a history is applied; after quiescence at
// every step each is compared with a client of the same protocol connected at that moment.
//
//	long-ne-fresh                                                         any difference, except
//	long-ne-fresh:eds-not-pushed:sidecar-switches-service-for-host        the classified known defect:
//	    every differing resource is a ClusterLoadAssignment whose cluster hostname resolves to a
//	    DIFFERENT service in the proxy's current sidecar scope than in its previous one, and the
//	    step consisted only of Sidecar / VirtualService changes (EDS is not pushed for those
//	    kinds, so the long-lived client keeps the endpoints of the service the hostname used to
//	    resolve to).

import (
	"strings"
	"time"

	"istio.io/istio/pilot/pkg/model"
	"istio.io/istio/pkg/config/host"
	"verifharness/internal/wire"
)

func genC01(r *wire.Rng) *History {
	h := &History{Stream: "c01", Flavor: "envoy", Debounce: wire.Pick(r, []int{0, 5, 20}), Explicit: r.Chance(1, 2)}
	clock := 0
	h.Base = genBase(r, &clock)
	w := newWorld(false)
	for _, o := range h.Base {
		w.note(o)
	}
	steps := 3 + r.Intn(5)
	for i := 0; i < steps; i++ {
		n := 1
		if r.Chance(1, 5) {
			n = 2
		}
		var ops []Op
		for j := 0; j < n; j++ {
			o := genOp(r, w, &clock)
			w.note(o)
			ops = append(ops, o)
		}
		h.Steps = append(h.Steps, ops)
		if n > 1 {
			h.Debounce = 50 // see genC03
		}
	}
	return h
}

// proxyOf finds the server-side proxy of a client.
func proxyOf(st *site, e *envoy) *model.Proxy {
	for _, c := range st.s.Discovery.AllClients() {
		if p := c.Proxy(); p != nil && p.ID == strings.Split(e.nodeID, "~")[2] {
			return p
		}
	}
	return nil
}

// hostSwitched: the cluster's hostname resolves to a different service in the current scope of the
// proxy than in the previous one.
func hostSwitched(p *model.Proxy, clusterName string) bool {
	if p == nil {
		return false
	}
	p.RLock()
	cur, prev := p.SidecarScope, p.PrevSidecarScope
	p.RUnlock()
	if cur == nil || prev == nil {
		return false
	}
	_, _, hn, _ := model.ParseSubsetKey(clusterName)
	a, b := prev.GetService(host.Name(hn)), cur.GetService(host.Name(hn))
	return a != nil && b != nil && !a.Equals(b)
}

func onlyScopeKinds(ops []Op) bool {
	for _, o := range ops {
		k := o.K
		if k == "del" {
			k = o.Kind
		}
		if k != "sc" && k != "vs" {
			return false
		}
	}
	return len(ops) > 0
}

func runC01(h *History, stt *stats) result {
	w := h.baseWorld()
	st := newSite(w, time.Duration(h.Debounce)*time.Millisecond)
	stt.Servers++
	defer st.close()
	sotw := newEnvoy("sotw", false, "app-sotw")
	delta := newEnvoy("delta", true, "app-delta")
	delta.explicit = h.Explicit
	long := []*envoy{sotw, delta}
	for _, e := range long {
		e.connect(st, connectOpts{})
	}
	defer func() {
		for _, e := range long {
			e.disconnect()
			stt.client(e)
		}
	}()
	n := 0
	check := func(step int, ops []Op) *result {
		n++
		fs := newEnvoy("fresh-sotw", false, "app-fresh-sotw-"+itoa(n))
		fd := newEnvoy("fresh-delta", true, "app-fresh-delta-"+itoa(n))
		fd.explicit = h.Explicit
		fresh := []*envoy{fs, fd}
		if !st.quiesce(sotw, delta) {
			r := timeoutResult("quiescence", merge(map[string]any{"after_step": step}, clientInfo(sotw, delta)))
			return &r
		}
		for _, e := range fresh {
			e.connect(st, connectOpts{})
		}
		defer func() {
			for _, e := range fresh {
				e.disconnect()
				stt.client(e)
			}
		}()
		d, ok := settle(st, stt, func() []diff {
			var out []diff
			for i, e := range long {
				a, b := e.snapshot(), fresh[i].snapshot()
				stt.Comparisons++
				stt.Compared += countHeld(b, envoyTypes)
				for _, x := range compareHeld(a, b, envoyTypes) {
					x.Type = e.label + ":" + x.Type
					out = append(out, x)
				}
			}
			return out
		}, sotw, delta, fs, fd)
		if !ok {
			r := timeoutResult("quiescence-fresh", merge(map[string]any{"after_step": step}, clientInfo(fs, fd)))
			return &r
		}
		if errs := append(sotw.errors(), delta.errors()...); len(errs) > 0 {
			return &result{Clause: "harness-client-error", Detail: map[string]any{"after_step": step, "errors": errs}}
		}
		if len(d) == 0 {
			return nil
		}
		clause := "long-ne-fresh"
		known := onlyScopeKinds(ops)
		for _, x := range d {
			f := strings.SplitN(x.Type, ":", 2)
			e := sotw
			if f[0] == "delta" {
				e = delta
			}
			if f[1] != "EDS" || x.Kind != "differs" || !hostSwitched(proxyOf(st, e), x.Name) {
				known = false
			}
		}
		if known {
			clause = "long-ne-fresh:eds-not-pushed:sidecar-switches-service-for-host"
		}
		return &result{Clause: clause, Detail: merge(map[string]any{"after_step": step, "n": len(d), "diff": limitDiffs(d, 8),
			"a": "long-lived client", "b": "fresh client"}, clientInfo(sotw, delta))}
	}
	if r := check(0, nil); r != nil {
		return *r
	}
	for i, ops := range h.Steps {
		if r := applyStep(st, w, ops, stt); r != nil {
			return *r
		}
		stt.Steps++
		if r := check(i+1, ops); r != nil {
			return *r
		}
	}
	hd := sotw.snapshot()
	return result{OK: true, Summary: "c01 envoy steps=" + itoa(len(h.Steps)) + " held=" + itoa(len(hd["CDS"])) + "/" + itoa(len(hd["EDS"])) + "/" +
		itoa(len(hd["LDS"])) + "/" + itoa(len(hd["RDS"])) + " ops=" + opsShort(h.Steps)}
}
