package main

// ztunnel flavour of streams c03 and c05: delta WDS (Address type) clients of node type "ztunnel"
// against the real WorkloadGenerator / ambient index (kube pods and services in a fake cluster,
// PILOT_ENABLE_AMBIENT on). There is no SotW for WDS, so a long-lived client is compared with a
// client connected afterwards:
//
//	wildcard client W    held(W) must equal held(fresh wildcard client)
//	on-demand client D   (subscribes / unsubscribes names mid-history: pod IPs, service VIPs,
//	                     namespace/hostname keys, pod UIDs; node-local pods come unasked)
//	                     every resource D holds must be current (same content as in the fresh
//	                     wildcard client: nothing deleted or stale is retained), and everything a
//	                     fresh on-demand client subscribing to the same names gets, D holds too
//	                     (nothing it still needs is missing).
//
// On unsubscribe the client drops the resource of exactly that name; the server keeps the
// generator-merged pod names subscribed, so whatever else D still holds is kept current by it.

import (
	"fmt"
	"os"
	"sort"
	"strings"
	"sync"
	"time"

	"istio.io/istio/pilot/pkg/model"
	"istio.io/istio/pkg/util/sets"
	"verifharness/internal/wire"
)

const ztNode = "node1"

func newZt(label, mode, name string) *envoy {
	e := newEnvoy(label, true, name)
	e.zt = mode
	e.nodeID = "ztunnel~10.30.0.8~" + name + ".istio-system~istio-system.svc.cluster.local"
	e.meta = &model.NodeMetadata{Namespace: "istio-system", ClusterID: "Kubernetes", IstioVersion: "1.32.0", ServiceAccount: "ztunnel", NodeName: ztNode}
	return e
}

// ztFirstRequest: caller holds e.mu. A client that holds state presents initial_resource_versions.
func (e *envoy) ztFirstRequest(s *stream) {
	var initial map[string]string
	if len(e.held["WDS"]) > 0 {
		initial = map[string]string{}
		for n, x := range e.held["WDS"] {
			initial[n] = x.Ver
			if v, ok := e.stale[n]; ok {
				initial[n] = v
			}
		}
	}
	// c05: a reconnecting ztunnel may present the nonce it retained from the previous stream
	nonce := ""
	if s.keepNonce {
		nonce = e.nonce["WDS"]
	}
	if e.zt == "wildcard" {
		var sub []string
		if e.explicit {
			sub = []string{"*"}
		}
		s.sendDelta("WDS", sub, nil, nonce, initial)
		if hasWads(e) {
			// the Authorization type: a wildcard subscription too; what is retained is reported by name (the
			// resources carry no version)
			var held map[string]string
			if len(e.held["WADS"]) > 0 {
				held = map[string]string{}
				for n := range e.held["WADS"] {
					held[n] = ""
				}
			}
			s.sendDelta("WADS", sub, nil, "", held)
		}
		return
	}
	// on-demand: subscribe to and unsubscribe from "*" (= not wildcard), plus the names wanted
	s.sendDelta("WDS", append([]string{"*"}, e.want...), []string{"*"}, nonce, initial)
}

func (e *envoy) ztSubscribe(names []string) {
	e.mu.Lock()
	defer e.mu.Unlock()
	var add []string
	for _, n := range names {
		if !contains(e.want, n) {
			add = append(add, n)
			e.want = append(e.want, n)
			delete(e.unsubbed, n)
		}
	}
	sort.Strings(e.want)
	if len(add) > 0 && e.st != nil {
		e.st.sendDelta("WDS", add, nil, "", nil)
	}
}

// ztUnsubscribe: the client drops the resource of exactly that name, unless one of the aliases the
// server attached to it is still subscribed (then the resource is still wanted under that alias).
func (e *envoy) ztUnsubscribe(names []string) {
	e.mu.Lock()
	defer e.mu.Unlock()
	var del []string
	for _, n := range names {
		if contains(e.want, n) {
			del = append(del, n)
		}
	}
	var keep []string
	for _, n := range e.want {
		if !contains(del, n) {
			keep = append(keep, n)
		}
	}
	e.want = keep
	if e.unsubbed == nil {
		e.unsubbed = map[string]bool{}
	}
	for _, n := range del {
		e.unsubbed[n] = true
		if x, ok := e.held["WDS"][n]; ok {
			still := false
			for _, a := range x.Alias {
				if contains(e.want, a) {
					still = true
				}
			}
			if !still {
				delete(e.held["WDS"], n)
			}
		}
	}
	if len(del) > 0 && e.st != nil {
		e.st.sendDelta("WDS", nil, del, "", nil)
	}
}

func all(ds []diff, f func(diff) bool) bool {
	for _, d := range ds {
		if !f(d) {
			return false
		}
	}
	return true
}

func contains(xs []string, x string) bool {
	for _, y := range xs {
		if x == y {
			return true
		}
	}
	return false
}

// ---------------------------------------------------------------- grammar

var (
	ztPods  = []string{"p1", "p2", "p3", "p4", "p5"}
	ztSvcs  = []string{"s1", "s2"}
	ztAuthz = []string{"az1", "az2", "az3"}

	// ztWads: the ztunnel clients that also subscribe to the Authorization type (wildcard), as a real ztunnel does:
	// the clients of stream c03 (stream c05 keeps its single-type clients)
	ztWadsMu sync.Mutex
	ztWads   = map[*envoy]bool{}
)

func withWads(e *envoy) *envoy {
	ztWadsMu.Lock()
	ztWads[e] = true
	ztWadsMu.Unlock()
	return e
}

func hasWads(e *envoy) bool {
	ztWadsMu.Lock()
	defer ztWadsMu.Unlock()
	return e != nil && ztWads[e]
}

func dropWads(es ...*envoy) {
	ztWadsMu.Lock()
	for _, e := range es {
		delete(ztWads, e)
	}
	ztWadsMu.Unlock()
}

func genAuthz(r *wire.Rng, name string) Op {
	o := Op{K: "authz", N: name, Mode: wire.Pick(r, []string{"ALLOW", "DENY"}), SA: wire.Pick(r, []string{"sa1", "sa2"})}
	if r.Chance(1, 2) {
		o.Sel = map[string]string{"app": wire.Pick(r, []string{"a", "b"})}
	}
	return o
}

func podIP(name string) string  { return "10.40.0." + name[1:] }
func svcVIP(name string) string { return "10.41.0." + name[1:] }

func genPod(r *wire.Rng, name string) Op {
	return Op{K: "pod", N: name, IP: podIP(name), SA: wire.Pick(r, []string{"sa1", "sa2"}), Node: wire.Pick(r, []string{ztNode, "node2", "node2"}),
		Labels: map[string]string{"app": wire.Pick(r, []string{"a", "b", "c"})}}
}

func genKSvc(r *wire.Rng, name string) Op {
	return Op{K: "ksvc", N: name, Vip: svcVIP(name), Ports: wire.Pick(r, [][]int{{80}, {80, 9090}, {8080}}),
		Sel: map[string]string{"app": wire.Pick(r, []string{"a", "b"})}}
}

func ztNames() []string {
	var out []string
	for _, p := range ztPods {
		out = append(out, "/"+podIP(p), "Kubernetes//Pod/default/"+p)
	}
	for _, s := range ztSvcs {
		out = append(out, "/"+svcVIP(s), "default/"+s+".default.svc.cluster.local")
	}
	return out
}

// ztAuthzOps: stream c03 also draws AuthorizationPolicy ops (the other streams keep their draws).
var ztAuthzOps bool

func genZtOp(r *wire.Rng, w *world, want *[]string) Op {
	for {
		var o Op
		x := 0
		if ztAuthzOps && r.Chance(1, 6) {
			x = 100
		} else {
			x = r.Intn(10)
		}
		switch {
		case x == 100:
			name := wire.Pick(r, ztAuthz)
			if old, ok := w.Authz[name]; ok {
				if r.Chance(1, 3) {
					o = Op{K: "authzdel", N: name}
				} else {
					o = genAuthz(r, name)
					if sameOp(old, o) {
						continue
					}
				}
			} else {
				o = genAuthz(r, name)
			}
		case x < 5:
			name := wire.Pick(r, ztPods)
			if old, ok := w.Pods[name]; ok {
				if r.Chance(1, 3) {
					o = Op{K: "poddel", N: name}
				} else {
					o = genPod(r, name)
					if sameOp(old, o) {
						continue
					}
				}
			} else {
				o = genPod(r, name)
			}
		case x < 7:
			name := wire.Pick(r, ztSvcs)
			if old, ok := w.KSvc[name]; ok {
				if r.Chance(1, 3) {
					o = Op{K: "ksvcdel", N: name}
				} else {
					o = genKSvc(r, name)
					if sameOp(old, o) {
						continue
					}
				}
			} else {
				o = genKSvc(r, name)
			}
		case x < 9:
			n := wire.Pick(r, ztNames())
			if contains(*want, n) {
				continue
			}
			o = Op{K: "sub", Names: []string{n}}
			if r.Chance(1, 4) {
				if m := wire.Pick(r, ztNames()); m != n && !contains(*want, m) {
					o.Names = append(o.Names, m)
				}
			}
			*want = append(*want, o.Names...)
		default:
			if len(*want) == 0 {
				continue
			}
			n := wire.Pick(r, *want)
			o = Op{K: "unsub", Names: []string{n}}
			var keep []string
			for _, x := range *want {
				if x != n {
					keep = append(keep, x)
				}
			}
			*want = keep
		}
		return o
	}
}

func genZtBase(r *wire.Rng) []Op {
	var ops []Op
	for _, p := range ztPods {
		if r.Chance(3, 5) {
			ops = append(ops, genPod(r, p))
		}
	}
	for _, s := range ztSvcs {
		if r.Chance(1, 2) {
			ops = append(ops, genKSvc(r, s))
		}
	}
	return ops
}

func genC03Zt(r *wire.Rng) *History {
	ztAuthzOps = true
	defer func() { ztAuthzOps = false }()
	h := &History{Stream: "c03", Flavor: "zt", Debounce: wire.Pick(r, []int{0, 5, 20}), Explicit: r.Chance(1, 2)}
	h.Base = genZtBase(r)
	for _, n := range ztAuthz {
		if r.Chance(1, 3) {
			h.Base = append(h.Base, genAuthz(r, n))
		}
	}
	w := newWorld(true)
	for _, o := range h.Base {
		w.note(o)
	}
	var want []string
	steps := 5 + r.Intn(6)
	for i := 0; i < steps; i++ {
		n := 1
		if r.Chance(1, 4) {
			n = 2
		}
		var ops []Op
		for j := 0; j < n; j++ {
			o := genZtOp(r, w, &want)
			w.note(o)
			ops = append(ops, o)
		}
		h.Steps = append(h.Steps, ops)
	}
	// half of the cases contain a directed churn: a pod the on-demand client subscribed to (by its
	// resource name or by its address) is deleted and re-created on another node than the client's
	if r.Chance(1, 2) {
		p := wire.Pick(r, ztPods)
		name := wire.Pick(r, []string{"Kubernetes//Pod/default/" + p, "/" + podIP(p)})
		mk := func() Op {
			o := genPod(r, p)
			o.Node = "node2"
			return o
		}
		var churn [][]Op
		if _, ok := w.Pods[p]; !ok {
			churn = append(churn, []Op{mk()})
		}
		if !contains(want, name) {
			churn = append(churn, []Op{{K: "sub", Names: []string{name}}})
		}
		churn = append(churn, []Op{{K: "poddel", N: p}}, []Op{mk()})
		h.Steps = append(h.Steps, churn...)
	}
	return h
}

// ---------------------------------------------------------------- running

var ztTypes = []string{"WDS"}

// ztApply applies the ops of one step: kube changes to the server, (un)subscriptions to D.
func ztApply(st *site, w *world, ops []Op, d *envoy, stt *stats) *result {
	in := st.s.Discovery.InboundUpdates.Load()
	kube := false
	for _, o := range ops {
		stt.Ops[o.K]++
		switch o.K {
		case "sub", "unsub":
			// a client waits for the answer to one subscription change before it makes the next
			if d != nil {
				if o.K == "sub" {
					d.ztSubscribe(o.Names)
				} else {
					d.ztUnsubscribe(o.Names)
				}
				if !st.quiesce(d) {
					r := timeoutResult("answer to a subscription change", clientInfo(d))
					return &r
				}
			}
		default:
			if err := st.apply(w, o); err != nil {
				return &result{Clause: "harness-apply-error", Detail: map[string]any{"op": o, "err": err.Error()}}
			}
			kube = true
		}
	}
	if kube {
		st.awaitInbound(in, 2*time.Second)
		if why := ztAwaitIndex(st, w); why != "" {
			r := timeoutResult("ambient index never reflected the objects: "+why, nil)
			return &r
		}
	}
	return nil
}

// ztIndexMatches compares the REAL ambient index with the world: the kube informers and the krt
// pipeline behind the index are asynchronous and invisible to the push counters, so quiescence of
// the ztunnel flavour starts from "the index shows exactly the objects of the history".
func ztIndexMatches(st *site, w *world) string {
	idx := st.s.Discovery.Env.AmbientIndexes
	svcKey := func(n string) string { return "default/" + n + ".default.svc.cluster.local" }
	for _, p := range ztPods {
		o, exists := w.Pods[p]
		info, _ := idx.AddressInformation(sets.New("Kubernetes//Pod/default/" + p))
		if exists != (len(info) > 0) {
			return "pod " + p + " presence"
		}
		if !exists {
			continue
		}
		wl := info[0].GetWorkload()
		if wl == nil || wl.ServiceAccount != o.SA || wl.Node != o.Node {
			return "pod " + p + " fields"
		}
		byIP, _ := idx.AddressInformation(sets.New("/" + o.IP))
		if len(byIP) == 0 {
			return "pod " + p + " by address"
		}
		for _, sv := range ztSvcs {
			so, ok := w.KSvc[sv]
			expected := ok && so.Sel["app"] == o.Labels["app"]
			if _, got := wl.Services[svcKey(sv)]; got != expected {
				return "pod " + p + " membership of " + sv
			}
		}
	}
	for _, sv := range ztSvcs {
		o, exists := w.KSvc[sv]
		info, _ := idx.AddressInformation(sets.New(svcKey(sv)))
		if exists != (len(info) > 0) {
			return "service " + sv + " presence"
		}
		if !exists {
			continue
		}
		svc := info[0].GetService()
		if svc == nil || len(svc.Ports) != len(o.Ports) {
			return "service " + sv + " ports"
		}
		for i, p := range svc.Ports {
			if int(p.ServicePort) != o.Ports[i] {
				return "service " + sv + " ports"
			}
		}
		byVIP, _ := idx.AddressInformation(sets.New("/" + o.Vip))
		if len(byVIP) == 0 {
			return "service " + sv + " by address"
		}
	}
	// the authorization policies (REAL Policies(): what the Authorization generator reads)
	got := map[string]string{}
	for _, p := range idx.Policies(nil) {
		if p.Authorization == nil {
			continue
		}
		principal := ""
		for _, g := range p.Authorization.Groups {
			for _, rl := range g.Rules {
				for _, m := range rl.Matches {
					for _, pr := range m.Principals {
						principal += pr.String()
					}
				}
			}
		}
		got[p.ResourceName()] = p.Authorization.Action.String() + " " + principal
	}
	for _, n := range ztAuthz {
		o, exists := w.Authz[n]
		desc, ok := got["default/"+n]
		if exists != ok {
			return "policy " + n + " presence"
		}
		if exists && (!strings.HasPrefix(desc, o.Mode+" ") || !strings.Contains(desc, "/sa/"+o.SA)) {
			return "policy " + n + " content"
		}
	}
	return ""
}

func ztAwaitIndex(st *site, w *world) string {
	deadline := time.Now().Add(8 * time.Second)
	why := ""
	for time.Now().Before(deadline) {
		if why = ztIndexMatches(st, w); why == "" {
			return ""
		}
		time.Sleep(pollEvery)
	}
	return why
}

// ztCompare connects a fresh wildcard and a fresh on-demand client and evaluates the statement.
// ok=false: no quiescence.
func ztCompare(st *site, stt *stats, wc, od *envoy, tag string) ([]diff, bool) {
	fw := newZt("fresh-wildcard", "wildcard", "zt-fw-"+tag)
	fw.explicit = wc != nil && wc.explicit
	types := ztTypes
	if hasWads(wc) {
		withWads(fw)
		defer dropWads(fw)
		types = []string{"WDS", "WADS"}
	}
	fo := newZt("fresh-ondemand", "ondemand", "zt-fo-"+tag)
	if od != nil {
		od.mu.Lock()
		fo.want = append([]string(nil), od.want...)
		od.mu.Unlock()
	}
	fw.connect(st, connectOpts{})
	fo.connect(st, connectOpts{})
	defer func() {
		fw.disconnect()
		fo.disconnect()
		stt.client(fw)
		stt.client(fo)
	}()
	var cs []activity
	for _, e := range []*envoy{wc, od, fw, fo} {
		if e != nil {
			cs = append(cs, e)
		}
	}
	if !st.quiesce(cs...) {
		return nil, false
	}
	if os.Getenv("E2E_DEBUG") != "" {
		fmt.Fprintln(os.Stderr, "DEBUG fresh-ondemand want", fo.want, "log", fo.streamLog(), "held", sortedKeys(fo.snapshot()["WDS"]))
	}
	var out []diff
	ref := fw.snapshot()
	if wc != nil {
		a := wc.snapshot()
		stt.Comparisons++
		stt.Compared += len(ref["WDS"])
		for _, d := range compareHeld(a, ref, types) {
			d.Type = "wildcard:" + d.Type
			out = append(out, d)
		}
	}
	if od != nil {
		a, need := od.snapshot(), fo.snapshot()
		stt.Comparisons++
		stt.Compared += len(a["WDS"]) + len(need["WDS"])
		for _, n := range sortedKeys(a["WDS"]) {
			x := a["WDS"][n]
			if y, ok := ref["WDS"][n]; !ok {
				out = append(out, diff{"ondemand:WDS", n, "holds-deleted", ""})
			} else if x.Hash != y.Hash {
				out = append(out, diff{"ondemand:WDS", n, "holds-stale", aliasOnly(st, od, n, "holds-stale") + " " + firstDifference(x.Text, y.Text)})
			}
		}
		for _, n := range sortedKeys(need["WDS"]) {
			if _, ok := a["WDS"][n]; !ok {
				out = append(out, diff{"ondemand:WDS", n, "missing", untracked(st, od, n)})
			}
		}
	}
	return out, true
}

const aliasHint = "alias-key-not-tracked:"

// memberHint marks the second known class of the on-demand client (same root cause: pushes match
// subscriptions by resource name only): the client subscribed to a SERVICE (by namespace/hostname or
// by VIP) and was answered with the service and its workloads of that moment; a workload that
// becomes a member of the service later (selector or label change, pod created) is never pushed to
// it - the service resource itself does not change and the new member's name is not subscribed.
const memberHint = "service-member-not-tracked:"

// ztEverHeld: the WDS resource names the long-lived on-demand client of a c03 case has held at some
// comparison point (a member it once had and lost is NOT the known class).
var (
	ztEverMu   sync.Mutex
	ztEverHeld = map[*envoy]map[string]bool{}
)

func ztNoteHeld(od *envoy) {
	snap := od.snapshot()
	ztEverMu.Lock()
	defer ztEverMu.Unlock()
	m := ztEverHeld[od]
	if m == nil {
		m = map[string]bool{}
		ztEverHeld[od] = m
	}
	for n := range snap["WDS"] {
		m[n] = true
	}
}

// memberOnly: the missing resource is a workload that the client's subscription reaches ONLY through
// service names (asked of the REAL ambient index), and the client never held it.
func memberOnly(st *site, od *envoy, resource string) string {
	ztEverMu.Lock()
	had := ztEverHeld[od][resource]
	ztEverMu.Unlock()
	if had {
		return ""
	}
	od.mu.Lock()
	want := append([]string(nil), od.want...)
	od.mu.Unlock()
	var via []string
	for _, w := range want {
		addrs, _ := st.s.Discovery.Env.AmbientIndexes.AddressInformation(sets.New(w))
		reaches, service := false, false
		for _, a := range addrs {
			if a.ResourceName() == resource && a.GetWorkload() != nil {
				reaches = true
			}
			if a.GetService() != nil {
				service = true
			}
		}
		if !reaches {
			continue
		}
		if !service {
			return "" // reached through a workload key: not this class
		}
		via = append(via, w)
	}
	if len(via) == 0 {
		return ""
	}
	return memberHint + strings.Join(via, ",")
}

// untracked classifies a resource the long-lived on-demand client is MISSING: both known classes can reach one
// resource at once (a pod subscribed by its address before it existed AND member of a subscribed service). Known
// only if the client never held it and EVERY subscription name that reaches it (asked of the REAL index) is either
//
//	a key that was answered "not found" (removed_resources listed it: an address, a VIP, or the name of a service
//	that did not exist yet) - class alias-key-created-after-subscribe, or
//	the key of a service the resource is a member of - class service-member-added-after-subscribe;
//
// a subscription by the resource's own name, or by an address that was found, tracks it: then it is no known class.
func untracked(st *site, od *envoy, resource string) string {
	ztEverMu.Lock()
	had := ztEverHeld[od][resource]
	ztEverMu.Unlock()
	od.mu.Lock()
	if od.unsubbed[resource] {
		had = false // it held the resource under its own name and unsubscribed that name: dropped by the client itself
	}
	od.mu.Unlock()
	if had {
		return ""
	}
	od.mu.Lock()
	want := append([]string(nil), od.want...)
	notFound := map[string]bool{}
	if od.st != nil {
		for n := range od.st.removedSeen["WDS"] {
			notFound[n] = true
		}
	}
	od.mu.Unlock()
	var viaNotFound, viaService []string
	for _, w := range want {
		addrs, _ := st.s.Discovery.Env.AmbientIndexes.AddressInformation(sets.New(w))
		reaches, service := false, false
		for _, a := range addrs {
			if a.ResourceName() == resource {
				reaches = true
			}
			if a.GetService() != nil && a.ResourceName() != resource {
				service = true
			}
		}
		switch {
		case !reaches:
		case w == resource:
			return "" // subscribed by its own name
		case notFound[w]:
			viaNotFound = append(viaNotFound, w)
		case service:
			viaService = append(viaService, w)
		default:
			return "" // an address that was found: the generator merged the resource name in
		}
	}
	switch {
	case len(viaService) > 0:
		return memberHint + strings.Join(append(viaService, viaNotFound...), ",")
	case len(viaNotFound) > 0:
		return aliasHint + strings.Join(viaNotFound, ",")
	}
	return ""
}

// aliasOnly classifies a difference on the long-lived on-demand client. Pushes match subscriptions
// by RESOURCE NAME only (AddressesUpdated ∩ ResourceNames); a subscription by alias key (network/ip
// of a pod, service VIP) is tracked only through the resource names the generator merged in when
// it answered. The known class: every name of the client's subscription that resolves to the
// resource (asked of the REAL ambient index) is an alias key, and
//
//	missing       the server answered each of those keys with "not found" (removed_resources
//	              lists the key): the object appeared later, nothing was pushed;
//	holds-stale   the client unsubscribed the resource's own name while an alias of it stayed
//	              subscribed: the server stopped tracking the resource.
func aliasOnly(st *site, od *envoy, resource, kind string) string {
	od.mu.Lock()
	want := append([]string(nil), od.want...)
	notFound := map[string]bool{}
	if od.st != nil {
		for n := range od.st.removedSeen["WDS"] {
			notFound[n] = true
		}
	}
	unsubbed := od.unsubbed[resource]
	od.mu.Unlock()
	var via []string
	for _, w := range want {
		addrs, _ := st.s.Discovery.Env.AmbientIndexes.AddressInformation(sets.New(w))
		for _, a := range addrs {
			if a.ResourceName() == resource {
				via = append(via, w)
				break
			}
		}
	}
	if len(via) == 0 {
		return ""
	}
	for _, w := range via {
		if !strings.HasPrefix(w, "/") {
			return ""
		}
		if kind == "missing" && !notFound[w] {
			return ""
		}
	}
	if kind == "holds-stale" && !unsubbed {
		return ""
	}
	return aliasHint + strings.Join(via, ",")
}

// ztSettle: like settle, with fresh reference clients for every look.
func ztSettle(st *site, stt *stats, wc, od *envoy, tag string) ([]diff, bool) {
	d, ok := ztCompare(st, stt, wc, od, tag+"a")
	if !ok || len(d) == 0 {
		return d, ok
	}
	deadline := time.Now().Add(patience)
	for i := 0; time.Now().Before(deadline); i++ {
		time.Sleep(150 * time.Millisecond)
		d, ok = ztCompare(st, stt, wc, od, fmt.Sprintf("%sr%d", tag, i))
		if !ok {
			return nil, false
		}
		if len(d) == 0 {
			stt.Extra["late-convergence"]++
			return nil, true
		}
	}
	return d, true
}

func runC03Zt(h *History, stt *stats) result {
	w := h.baseWorld()
	st := newSite(w, time.Duration(h.Debounce)*time.Millisecond)
	stt.Servers++
	defer st.close()
	wc := withWads(newZt("wildcard", "wildcard", "zt-w"))
	defer dropWads(wc)
	wc.explicit = h.Explicit
	od := newZt("ondemand", "ondemand", "zt-d")
	wc.connect(st, connectOpts{})
	od.connect(st, connectOpts{})
	defer func() {
		wc.disconnect()
		od.disconnect()
		stt.client(wc)
		stt.client(od)
	}()
	var firstKnown *result
	check := func(step int) *result {
		judged := od
		if firstKnown != nil {
			// after a known class of the on-demand client (it lacks resources for good, and what it is sent later
			// depends on them) only the wildcard client is judged for the rest of the history
			judged = nil
		}
		d, ok := ztSettle(st, stt, wc, judged, itoa(step))
		if !ok {
			r := timeoutResult("quiescence", merge(map[string]any{"after_step": step}, clientInfo(wc, od)))
			return &r
		}
		if errs := append(wc.errors(), od.errors()...); len(errs) > 0 {
			return &result{Clause: "harness-client-error", Detail: map[string]any{"after_step": step, "errors": errs}}
		}
		if len(d) > 0 {
			// a known class only if EVERY difference carries the same cause
			clause := "delta-ne-fresh"
			if all(d, func(x diff) bool { return strings.HasPrefix(x.Hint, aliasHint) }) {
				clause = "delta-ne-fresh:ondemand:alias-key-created-after-subscribe"
			} else if all(d, func(x diff) bool {
				return strings.HasPrefix(x.Hint, aliasHint) || strings.HasPrefix(x.Hint, memberHint)
			}) {
				clause = "delta-ne-fresh:ondemand:service-member-added-after-subscribe"
			}
			res := &result{Clause: clause, Detail: merge(map[string]any{"after_step": step, "n": len(d), "diff": limitDiffs(d, 8),
				"a": "long-lived ztunnel client", "b": "fresh ztunnel client", "want": strings.Join(od.want, ",")}, clientInfo(wc, od))}
			if clause != "delta-ne-fresh" {
				// a known class does not end the case: the history goes on (wildcard client only, see above); the
				// known verdict is reported at the end
				firstKnown = res
				return nil
			}
			if firstKnown != nil {
				res.Detail["after_known_class"] = firstKnown.Clause
			}
			return res
		}
		if firstKnown != nil {
			stt.Extra["steps-compared-after-a-known-class"]++
		}
		ztNoteHeld(od)
		return nil
	}
	defer func() {
		ztEverMu.Lock()
		delete(ztEverHeld, od)
		ztEverMu.Unlock()
	}()
	if r := check(0); r != nil {
		return *r
	}
	for i, ops := range h.Steps {
		if r := ztApply(st, w, ops, od, stt); r != nil {
			return *r
		}
		stt.Steps++
		if r := check(i + 1); r != nil {
			return *r
		}
	}
	if firstKnown != nil {
		firstKnown.Detail["history_completed"] = true
		return *firstKnown
	}
	return result{OK: true, Summary: "c03 zt steps=" + itoa(len(h.Steps)) + " held=" + itoa(len(wc.snapshot()["WDS"])) + "/" + itoa(len(od.snapshot()["WDS"])) +
		" want=" + itoa(len(od.want)) + " ops=" + opsShort(h.Steps)}
}

// ---------------------------------------------------------------- c05, ztunnel flavour

func genC05Zt(r *wire.Rng) *History {
	h := &History{Stream: "c05", Flavor: "zt", Debounce: wire.Pick(r, []int{0, 5, 20}), Explicit: r.Chance(1, 2)}
	h.Base = genZtBase(r)
	w := newWorld(true)
	for _, o := range h.Base {
		w.note(o)
	}
	var want []string
	c := &CutSpec{Mode: wire.Pick(r, []string{"quiet", "quiet", "after-change", "at-response", "at-response", "initial"})}
	n := 1 + r.Intn(5)
	if c.Mode == "initial" {
		// the first stream dies at / before its first response: the clients come back holding little or nothing
		n = 0
		c.K = r.Intn(2)
		c.Fate = wire.Pick(r, []string{"applied", "lost", "failed-send"})
	}
	for i := 0; i < n; i++ {
		o := genZtOp(r, w, &want)
		w.note(o)
		h.Steps = append(h.Steps, []Op{o})
	}
	kubeOp := func() Op {
		for {
			var none []string
			o := genZtOp(r, w, &none)
			if o.K != "sub" && o.K != "unsub" {
				return o
			}
		}
	}
	if c.Mode != "quiet" && c.Mode != "initial" {
		k := 1 + r.Intn(2)
		for i := 0; i < k; i++ {
			o := kubeOp()
			w.note(o)
			c.Trigger = append(c.Trigger, o)
		}
	}
	if c.Mode == "at-response" {
		c.K = 1 + r.Intn(2)
		c.Fate = wire.Pick(r, []string{"applied", "lost", "failed-send"})
	}
	k := r.Intn(5)
	for i := 0; i < k; i++ {
		var o Op
		if pods := sortedKeys(w.Pods); len(pods) > 0 && r.Chance(1, 3) {
			o = Op{K: "poddel", N: wire.Pick(r, pods)}
		} else {
			o = kubeOp()
		}
		w.note(o)
		c.Away = append(c.Away, o)
	}
	c.Second = r.Chance(1, 3)
	c.StaleVersions = r.Chance(1, 3)
	c.KeepNonce = r.Chance(1, 2)
	c.Probe = r.Chance(1, 4)
	if (c.Mode == "quiet" || c.Mode == "after-change") && !c.Second && r.Chance(1, 2) {
		c.Overlap = true
	}
	if c.Overlap || r.Chance(1, 3) {
		for i := 1 + r.Intn(2); i > 0; i-- {
			o := kubeOp()
			w.note(o)
			c.After = append(c.After, o)
		}
	}
	h.Cut = c
	return h
}

func runC05Zt(h *History, stt *stats) result {
	c := h.Cut
	if c == nil {
		return result{Clause: "harness-bad-history", Detail: map[string]any{"err": "no cut spec"}}
	}
	w := h.baseWorld()
	deb := time.Duration(h.Debounce) * time.Millisecond
	st := newSite(w, deb)
	stt.Servers++
	defer st.close()
	wc := newZt("wildcard", "wildcard", "zt-w")
	wc.explicit = h.Explicit
	od := newZt("ondemand", "ondemand", "zt-d")
	both := []*envoy{wc, od}
	defer func() {
		for _, e := range both {
			e.disconnect()
			stt.client(e)
		}
	}()
	if c.Mode == "initial" {
		for _, e := range both {
			if c.K == 0 {
				e.connect(st, connectOpts{})
				e.disconnect()
			} else {
				e.connect(st, connectOpts{cutAfter: c.K, cutDrop: c.Fate == "lost" || c.Fate == "failed-send", cutErr: c.Fate == "failed-send"})
			}
		}
		deadline := time.Now().Add(settleTime)
		for !(wc.isDead() && od.isDead()) && time.Now().Before(deadline) {
			// a live one may simply never see K responses: quiescence ends the wait too
			var live []activity
			for _, e := range both {
				if !e.isDead() {
					live = append(live, looseActivity{e})
				}
			}
			if st.quiesceFor(calmTime, live...) {
				break
			}
		}
	} else {
		for _, e := range both {
			e.connect(st, connectOpts{})
		}
		if !st.quiesce(wc, od) {
			return timeoutResult("first connection", clientInfo(wc, od))
		}
	}
	for _, ops := range h.Steps {
		if r := ztApply(st, w, ops, od, stt); r != nil {
			return *r
		}
		stt.Steps++
		if !st.quiesce(wc, od) {
			return timeoutResult("prefix", clientInfo(wc, od))
		}
	}
	switch c.Mode {
	case "after-change":
		for _, o := range c.Trigger {
			if err := st.apply(w, o); err != nil {
				return result{Clause: "harness-apply-error", Detail: map[string]any{"op": o, "err": err.Error()}}
			}
			stt.Ops[o.K]++
		}
	case "at-response":
		for _, e := range both {
			e.armCut(c.K, c.Fate)
		}
		if r := ztApply(st, w, c.Trigger, nil, stt); r != nil {
			return *r
		}
		deadline := time.Now().Add(settleTime)
		for !(wc.isDead() && od.isDead()) {
			var live []activity
			for _, e := range both {
				if !e.isDead() {
					live = append(live, e)
				}
			}
			if st.quiesceFor(calmTime, live...) {
				break
			}
			if time.Now().After(deadline) {
				return timeoutResult("waiting for the cut", clientInfo(wc, od))
			}
		}
	}
	stt.Cuts["zt-mode:"+c.Mode]++
	zombies := map[string]*stream{}
	for _, e := range both {
		if e.isDead() {
			stt.Cuts["zt-scripted-response-cut"]++
			if c.Fate != "" {
				stt.Cuts["zt-response-"+c.Fate]++
			}
		}
		if c.Overlap && !c.Second && !e.isDead() {
			// the server has not noticed the dead stream when the ztunnel comes back
			zombies[e.label] = e.abandon()
		} else {
			e.disconnect()
		}
	}
	defer func() {
		for _, e := range both {
			e.closeStream(zombies[e.label])
		}
	}()
	cutLog := clientInfo(wc, od)
	retained := map[string]held{}
	for _, e := range both {
		retained[e.label] = e.snapshot()
		stt.Retained += len(retained[e.label]["WDS"])
		if c.StaleVersions {
			// present wrong versions for part of what is retained: every second name a version that never
			// existed, every fifth none at all
			e.mu.Lock()
			e.stale = map[string]string{}
			for i, n := range sortedKeys(e.held["WDS"]) {
				if i%5 == 4 {
					e.stale[n] = ""
				} else if i%2 == 0 {
					e.stale[n] = "stale-version"
				}
			}
			e.mu.Unlock()
		}
	}
	for _, o := range c.Away {
		if r := ztApply(st, w, []Op{o}, nil, stt); r != nil {
			return *r
		}
	}
	if !st.quiesce() {
		return timeoutResult("server quiescence while away", nil)
	}
	target := st
	if c.Second {
		target = newSite(w, deb)
		stt.Servers++
		defer target.close()
		if !target.quiesce() {
			return timeoutResult("second server", nil)
		}
		stt.Reconnects["zt-second-server"]++
	} else {
		stt.Reconnects["zt-same-server"]++
	}
	if c.StaleVersions {
		stt.Reconnects["zt-stale-versions"]++
	}
	if c.KeepNonce {
		stt.Reconnects["zt-keeps-nonce"]++
	}
	for _, e := range both {
		e.connect(target, connectOpts{keepNonce: c.KeepNonce, probeFirst: c.Probe})
	}
	if !target.quiesceLoose(wc, od) {
		return timeoutResult("after reconnect", merge(clientInfo(wc, od), map[string]any{"cut": cutLog}))
	}
	info := func() map[string]any {
		return merge(map[string]any{"cut": cutLog, "want": strings.Join(od.want, ",")}, clientInfo(wc, od))
	}
	var unanswered []string
	for _, e := range both {
		e.mu.Lock()
		if e.st.resps["WDS"] == 0 {
			unanswered = append(unanswered, e.label+":WDS")
		}
		e.mu.Unlock()
	}
	if len(unanswered) > 0 {
		return result{Clause: "reconnect-request-unanswered", Detail: merge(map[string]any{"unanswered": unanswered}, info())}
	}
	if len(zombies) > 0 {
		stt.Reconnects["zt-overlapping-old-stream"]++
		for _, e := range both {
			if zombies[e.label] == nil {
				continue
			}
			if ids := registeredIDs(target, e); len(ids) != 2 {
				return result{Clause: "overlap-connection-id-reused", Detail: merge(map[string]any{"client": e.label, "registered": ids}, info())}
			}
		}
		for _, e := range both {
			e.closeStream(zombies[e.label])
		}
		if !target.quiesceLoose(wc, od) {
			return timeoutResult("after the old streams terminated", info())
		}
		for _, e := range both {
			if zombies[e.label] == nil {
				continue
			}
			if ids := registeredIDs(target, e); len(ids) != 1 {
				return result{Clause: "overlap-connection-unregistered", Detail: merge(map[string]any{"client": e.label, "registered": ids}, info())}
			}
		}
	}
	if len(c.After) > 0 {
		// the reconnected streams keep following changes
		stt.Reconnects["zt-changes-after-reconnect"]++
		for _, o := range c.After {
			if r := ztApply(target, w, []Op{o}, nil, stt); r != nil {
				return *r
			}
			if !target.quiesceLoose(wc, od) {
				return timeoutResult("changes after the reconnect", info())
			}
		}
	}
	df, ok := ztSettle(target, stt, wc, od, "rc")
	if !ok {
		return timeoutResult("fresh clients", clientInfo(wc, od))
	}
	if errs := append(wc.errors(), od.errors()...); len(errs) > 0 {
		return result{Clause: "harness-client-error", Detail: map[string]any{"phase": "after reconnect", "errors": errs}}
	}
	if len(c.After) > 0 {
		// changes AFTER the reconnect reach the on-demand client through pushes that match subscriptions by resource
		// name only: the two known classes of C03 (alias key / service member created after the subscription) are a
		// fact about those pushes, not about the reconnect - C03 reports them; here they are set aside
		kept := df[:0]
		for _, d := range df {
			if d.Kind == "missing" && (strings.HasPrefix(d.Hint, aliasHint) || strings.HasPrefix(d.Hint, memberHint)) {
				stt.Extra["c03-known-ondemand-class-set-aside"]++
				continue
			}
			kept = append(kept, d)
		}
		df = kept
	}
	skipped := 0
	if len(df) > 0 {
		clause := "reconnect-not-removed"
		var notRemoved []string
		for _, d := range df {
			label := strings.SplitN(d.Type, ":", 2)[0]
			e := wc
			if label == "ondemand" {
				e = od
			}
			e.mu.Lock()
			_, was := retained[label]["WDS"][d.Name]
			listed := e.st.removedSeen["WDS"][d.Name]
			e.mu.Unlock()
			if (d.Kind == "only-a" || d.Kind == "holds-deleted") && was && !listed {
				notRemoved = append(notRemoved, label+"/"+d.Name)
			} else {
				clause = "reconnect-stale"
			}
		}
		return result{Clause: clause, Detail: merge(map[string]any{"n": len(df), "diff": limitDiffs(df, 8), "a": "reconnected ztunnel client",
			"b": "brand-new ztunnel client", "not_removed": notRemoved}, info())}
	}
	// how much the version skip saved: retained resources neither re-sent nor removed
	for _, e := range both {
		e.mu.Lock()
		skipped += len(e.held["WDS"])
		e.mu.Unlock()
	}
	gone := 0
	for n := range retained["wildcard"]["WDS"] {
		if _, ok := wc.snapshot()["WDS"][n]; !ok {
			gone++
		}
	}
	stt.GoneWhile += gone
	return result{OK: true, Summary: "c05 zt cut=" + c.Mode + " k=" + itoa(c.K) + " fate=" + c.Fate + " prefix=" + itoa(len(h.Steps)) + " away=" + itoa(len(c.Away)) +
		" second=" + wire.B(c.Second) + " stale=" + wire.B(c.StaleVersions) + " overlap=" + wire.B(len(zombies) > 0) + " after=" + itoa(len(c.After)) +
		" nonce=" + wire.B(c.KeepNonce) + " retained=" + itoa(len(retained["wildcard"]["WDS"])) + "/" +
		itoa(len(retained["ondemand"]["WDS"])) + " gone=" + itoa(gone) + " want=" + itoa(len(od.want))}
}
