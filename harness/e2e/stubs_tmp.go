package main

import "verifharness/internal/wire"

func genC03Zt(r *wire.Rng) *History         { return nil }
func genC05Zt(r *wire.Rng) *History         { return nil }
func runC03Zt(h *History, st *stats) result { return result{} }
func runC05Zt(h *History, st *stats) result { return result{} }

const ztEnabled = false
