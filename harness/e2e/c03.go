package main

// Stream `c03` (delta = SotW), Envoy flavour: one history is played to a SotW client AND a delta
// client of the same proxy identity (two connections, distinct node ids, same namespace / labels /
// type / IP) on ONE server. After quiescence at every step the maps name -> hash(canonical
// resource) held by the two clients are compared per type (CDS, EDS, LDS, RDS).

import (
	"time"

	"verifharness/internal/wire"
)

func genC03(r *wire.Rng) *History {
	if ztEnabled && r.Chance(1, 4) {
		return genC03Zt(r)
	}
	h := &History{Stream: "c03", Flavor: "envoy", Debounce: wire.Pick(r, []int{0, 5, 20}), Explicit: r.Chance(1, 2)}
	clock := 0
	h.Base = genBase(r, &clock)
	w := newWorld(false)
	for _, o := range h.Base {
		w.note(o)
	}
	steps := 4 + r.Intn(5)
	for i := 0; i < steps; i++ {
		n := 1
		if r.Chance(1, 4) {
			n = 2 + r.Intn(2)
		}
		var ops []Op
		for j := 0; j < n; j++ {
			o := genOp(r, w, &clock)
			w.note(o)
			ops = append(ops, o)
		}
		h.Steps = append(h.Steps, ops)
	}
	return h
}

// applyStep applies the ops of one step back to back.
func applyStep(st *site, w *world, ops []Op, stt *stats) *result {
	in := st.s.Discovery.InboundUpdates.Load()
	for _, o := range ops {
		if err := st.apply(w, o); err != nil {
			return &result{Clause: "harness-apply-error", Detail: map[string]any{"op": o, "err": err.Error()}}
		}
		stt.Ops[o.K]++
	}
	st.awaitInbound(in, 2*time.Second)
	return nil
}

// settle waits for quiescence and evaluates cmp; a difference must persist for `patience` in a
// quiescent system to be returned (asynchronous event delivery inside the server cannot be
// observed from outside, so a first difference is only a reason to look again).
func settle(st *site, stt *stats, cmp func() []diff, cs ...activity) ([]diff, bool) {
	if !st.quiesce(cs...) {
		return nil, false
	}
	d := cmp()
	if len(d) == 0 {
		return nil, true
	}
	deadline := time.Now().Add(patience)
	for time.Now().Before(deadline) {
		time.Sleep(100 * time.Millisecond)
		if !st.quiesce(cs...) {
			return nil, false
		}
		if d = cmp(); len(d) == 0 {
			stt.Extra["late-convergence"]++
			return nil, true
		}
	}
	return d, true
}

func clientInfo(es ...*envoy) map[string]any {
	out := map[string]any{}
	for _, e := range es {
		if errs := e.errors(); len(errs) > 0 {
			out["errors-"+e.label] = errs
		}
		out["log-"+e.label] = tail(e.streamLog(), 40)
	}
	return out
}

func tail(xs []string, n int) []string {
	if len(xs) > n {
		return xs[len(xs)-n:]
	}
	return xs
}

func merge(a map[string]any, b map[string]any) map[string]any {
	for k, v := range b {
		a[k] = v
	}
	return a
}

func runC03(h *History, stt *stats) result {
	w := h.baseWorld()
	st := newSite(w, time.Duration(h.Debounce)*time.Millisecond)
	stt.Servers++
	defer st.close()

	sotw := newEnvoy("sotw", false, "app-sotw")
	delta := newEnvoy("delta", true, "app-delta")
	delta.explicit = h.Explicit
	sotw.connect(st, connectOpts{})
	delta.connect(st, connectOpts{})
	defer sotw.disconnect()
	defer delta.disconnect()
	defer func() { stt.client(sotw); stt.client(delta) }()

	cmp := func() []diff {
		a, b := sotw.snapshot(), delta.snapshot()
		stt.Comparisons++
		stt.Compared += countHeld(a, envoyTypes)
		return compareHeld(a, b, envoyTypes)
	}
	check := func(step int) *result {
		d, ok := settle(st, stt, cmp, sotw, delta)
		if !ok {
			r := timeoutResult("quiescence", merge(map[string]any{"after_step": step}, clientInfo(sotw, delta)))
			return &r
		}
		if errs := append(sotw.errors(), delta.errors()...); len(errs) > 0 {
			return &result{Clause: "harness-client-error", Detail: map[string]any{"after_step": step, "errors": errs}}
		}
		if len(d) > 0 {
			return &result{Clause: "delta-ne-sotw", Detail: merge(map[string]any{"after_step": step, "n": len(d), "diff": limitDiffs(d, 6),
				"a": "sotw client", "b": "delta client"}, clientInfo(sotw, delta))}
		}
		for _, e := range []*envoy{sotw, delta} {
			e.mu.Lock()
			if e.st.edsDue {
				stt.Extra["eds-due-at-quiescence-"+e.label]++
			}
			e.mu.Unlock()
		}
		return nil
	}
	if r := check(0); r != nil {
		return *r
	}
	for i, ops := range h.Steps {
		if r := applyStep(st, w, ops, stt); r != nil {
			return *r
		}
		stt.Steps++
		if r := check(i + 1); r != nil {
			return *r
		}
	}
	// sanity: the long-lived SotW client against a client connected now (C01's statement; here it
	// guards against both clients being equally stale)
	fresh := newEnvoy("fresh", false, "app-fresh")
	fresh.connect(st, connectOpts{})
	defer fresh.disconnect()
	d, ok := settle(st, stt, func() []diff {
		a, b := sotw.snapshot(), fresh.snapshot()
		stt.Comparisons++
		stt.Compared += countHeld(a, envoyTypes)
		return compareHeld(a, b, envoyTypes)
	}, sotw, delta, fresh)
	stt.client(fresh)
	if !ok {
		return timeoutResult("quiescence-fresh", clientInfo(fresh))
	}
	if len(d) > 0 {
		return result{Clause: "long-ne-fresh", Detail: merge(map[string]any{"n": len(d), "diff": limitDiffs(d, 6), "a": "long-lived sotw client",
			"b": "fresh sotw client"}, clientInfo(sotw, fresh))}
	}
	hd := sotw.snapshot()
	return result{OK: true, Summary: "c03 envoy steps=" + itoa(len(h.Steps)) + " held=" + itoa(len(hd["CDS"])) + "/" + itoa(len(hd["EDS"])) + "/" +
		itoa(len(hd["LDS"])) + "/" + itoa(len(hd["RDS"])) + " ops=" + opsShort(h.Steps)}
}
