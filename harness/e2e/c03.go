package main

// Stream `c03` (delta = SotW), Envoy flavour: one history is played to a SotW client AND a delta
// client of the same proxy identity (two connections, distinct node ids, same namespace / labels /
// type / IP) on ONE server. After quiescence at every step the maps name -> hash(canonical
// resource) held by the two clients are compared per type (CDS, EDS, LDS, RDS).

import (
	"fmt"
	"os"
	"sort"
	"strings"
	"sync"
	"time"

	listener "github.com/envoyproxy/go-control-plane/envoy/config/listener/v3"
	hcm "github.com/envoyproxy/go-control-plane/envoy/extensions/filters/network/http_connection_manager/v3"
	discovery "github.com/envoyproxy/go-control-plane/envoy/service/discovery/v3"
	"google.golang.org/genproto/googleapis/rpc/status"

	"istio.io/istio/pilot/pkg/features"
	"istio.io/istio/pilot/pkg/model"
	"istio.io/istio/pilot/pkg/xds"
	"istio.io/istio/pilot/test/xdstest"
	"istio.io/istio/pkg/config/host"
	"verifharness/internal/wire"
)

// LagSpec scripts "the state is ahead of its events". Events reach the server through ConfigUpdate;
// the hook verifGateReq (build tag verif) lets the harness park those calls by the object names
// they mention, while the registries and the config store already show the change to every push
// context that reloads them:
//
//	the events of step Step (names Names) are parked; step Step+1 is applied (its events, names
//	Next, queue up behind them or are parked as well); once its state is visible the first group is
//	released and pushed to quiescence - from a push context that already contains the change of
//	step Step+1 - and only then the second group is delivered.
//
// The comparison resumes after the last release.
type LagSpec struct {
	Step  int      `json:"step"`
	Names []string `json:"names"`
	Next  []string `json:"next,omitempty"`
}

type reqGate struct {
	mu      sync.Mutex
	parked  [2]int
	release [2]chan struct{}
}

func installReqGate(first, second []string) *reqGate {
	g := &reqGate{release: [2]chan struct{}{make(chan struct{}), make(chan struct{})}}
	stageOf := map[string]int{}
	for _, n := range second {
		stageOf[n] = 2
	}
	for _, n := range first {
		stageOf[n] = 1
	}
	xds.VerifE2ESetReqGate(func(point string, req *model.PushRequest) {
		stage := 0
		for k := range req.ConfigsUpdated {
			if s := stageOf[k.Name]; s != 0 && (stage == 0 || s < stage) {
				stage = s
			}
		}
		if stage == 0 {
			return
		}
		g.mu.Lock()
		g.parked[stage-1]++
		g.mu.Unlock()
		select {
		case <-g.release[stage-1]:
		case <-time.After(30 * time.Second): // never park a caller for good
		}
	})
	return g
}

func (g *reqGate) count(stage int) int {
	g.mu.Lock()
	defer g.mu.Unlock()
	return g.parked[stage-1]
}

func (g *reqGate) open(stage int) {
	select {
	case <-g.release[stage-1]:
	default:
		close(g.release[stage-1])
	}
}

func (g *reqGate) openAll() {
	xds.VerifE2ESetReqGate(nil)
	g.open(1)
	g.open(2)
}

// awaitStateVisible polls the REAL service registry until it shows the ServiceEntry changes of the
// given ops (config-store kinds are visible as soon as the store call returns): the events are
// parked, so the push counters say nothing. Bounded; w is the world after the ops.
func awaitStateVisible(st *site, w *world, ops []Op) {
	sd := st.s.Env().ServiceDiscovery
	visible := func() bool {
		for _, o := range ops {
			if o.K != "se" && !(o.K == "del" && o.Kind == "se") {
				continue
			}
			for _, hn := range allHostsWide {
				// the hostname must resolve iff some ServiceEntry of the world still defines it
				defined := false
				for _, k := range sortedKeys(w.Cfg) {
					if c := w.Cfg[k]; c.K == "se" && contains(c.Hosts, hn) {
						defined = true
					}
				}
				if hn == memHost {
					continue
				}
				if (sd.GetService(host.Name(hn)) != nil) != defined {
					return false
				}
			}
		}
		return true
	}
	deadline := time.Now().Add(3 * time.Second)
	for !visible() && time.Now().Before(deadline) {
		time.Sleep(pollEvery)
	}
	time.Sleep(calmTime)
}

// lagScope is what the known class "events behind state" may touch in one lag case: the hostnames of
// the ServiceEntries (before and after) and the hosts of the DestinationRules (before and after) among
// the ops of the lagged step and of the step applied on top of it.
type lagScope struct {
	seHosts map[string]bool
	drHosts map[string]bool
}

func newLagScope(w *world, groups ...[]Op) *lagScope {
	l := &lagScope{seHosts: map[string]bool{}, drHosts: map[string]bool{}}
	w = w.clone()
	for _, ops := range groups {
		for _, o := range ops {
			old, had := w.Cfg[o.key()]
			switch {
			case o.K == "se" || (o.K == "del" && o.Kind == "se"):
				for _, h := range o.Hosts {
					l.seHosts[h] = true
				}
				if had {
					for _, h := range old.Hosts {
						l.seHosts[h] = true
					}
				}
			case o.K == "dr" || (o.K == "del" && o.Kind == "dr"):
				if o.Host != "" {
					l.drHosts[o.Host] = true
				}
				if had && old.Host != "" {
					l.drHosts[old.Host] = true
				}
			}
			w.note(o)
		}
	}
	return l
}

// known reports whether EVERY difference has the symptom of the known class: the delta client keeps
// a CDS / EDS resource (`only-b`) of a host whose ServiceEntry or DestinationRule was part of the
// scripted race, or keeps the old DestinationRule's settings on a cluster of that rule's host
// (`differs`, CDS only). Anything else - in particular a resource the delta client LACKS - is a
// plain delta-ne-sotw.
func (l *lagScope) known(ds []diff) bool {
	if l == nil || len(ds) == 0 {
		return false
	}
	for _, d := range ds {
		if d.Type != "CDS" && d.Type != "EDS" {
			return false
		}
		h := model.ParseSubsetKeyHostname(d.Name)
		switch d.Kind {
		case "only-b":
			if !l.seHosts[h] && !l.drHosts[h] {
				return false
			}
		case "differs":
			if d.Type != "CDS" || !l.drHosts[h] {
				return false
			}
		default:
			return false
		}
	}
	return true
}

// c03Types: what stream c03 compares (ECDS: the extension configs the listeners held refer to by
// config discovery; like every named resource they are dropped when nothing refers to them any more).
var c03Types = []string{"CDS", "EDS", "LDS", "RDS", "ECDS"}

// ecdsOfListener: the names of the HTTP filters of a listener that are configured by discovery.
func ecdsOfListener(l *listener.Listener) []string {
	var out []string
	chains := append([]*listener.FilterChain{}, l.FilterChains...)
	if l.DefaultFilterChain != nil {
		chains = append(chains, l.DefaultFilterChain)
	}
	for _, fc := range chains {
		for _, f := range fc.Filters {
			if f.Name != "envoy.filters.network.http_connection_manager" {
				continue
			}
			h := xdstest.SilentlyUnmarshalAny[hcm.HttpConnectionManager](f.GetTypedConfig())
			for _, hf := range h.GetHttpFilters() {
				if hf.GetConfigDiscovery() != nil {
					out = append(out, hf.Name)
				}
			}
		}
	}
	return out
}

func ecdsNamesOfHeld(m map[string]resEntry) []string {
	var out []string
	for _, x := range m {
		out = append(out, x.Ecds...)
	}
	return out
}

func opNames(w *world, o Op) []string {
	switch o.K {
	case "se":
		names := append([]string(nil), o.Hosts...)
		if old, ok := w.Cfg[o.key()]; ok {
			names = append(names, old.Hosts...)
		}
		return names
	case "del":
		if old, ok := w.Cfg[o.key()]; ok && old.K == "se" {
			return old.Hosts
		}
		return []string{o.N}
	case "msvc", "mdel", "meps":
		// the memory registry calls ConfigUpdate synchronously, in the goroutine of the harness
		// itself: its events must never be parked
		return nil
	}
	return []string{o.N}
}

// ---------------------------------------------------------------- router flavour
//
// Both clients are one ingress gateway pod (node type router, label istio=ingressgateway) and the
// server runs with PILOT_FILTER_GATEWAY_CLUSTER_CONFIG: CDS holds only the services that
// VirtualServices bound to the proxy's Gateway route to, so VirtualService / Gateway / ServiceEntry
// / DestinationRule changes drive the Router arms of delta CDS (GatewayServices,
// ServiceAttachedToGateway) and the gateway listener / route builders.

const routerGateway = "gw-1"

var gwServerSets = [][]string{
	{"80|HTTP|*.example.com"},
	{"80|HTTP|*.example.com", "8080|HTTP|a.example.com"},
	{"80|HTTP|*"},
	{"8080|HTTP|*.example.com"},
}

func genGW(r *wire.Rng, clock *int) Op {
	*clock++
	return Op{K: "gw", N: routerGateway, Ns: proxyNs, T: *clock, Srv: wire.Pick(r, gwServerSets)}
}

func asRouter(e *envoy, name string) {
	e.nodeID = "router~10.30.0.7~" + name + "." + proxyNs + "~" + proxyNs + ".svc.cluster.local"
	e.meta.Labels = map[string]string{"istio": "ingressgateway"}
	inRegion(e)
}

// inRegion: the proxy runs in region r1 (locality load balancing of DestinationRules is relative to it).
func inRegion(e *envoy) {
	e.meta.Labels["topology.kubernetes.io/region"] = "r1"
	e.meta.Labels["topology.kubernetes.io/zone"] = "z1"
}

// ---------------------------------------------------------------- client-side ops (Envoy flavours)
//
//	csub     the clients change their subscription of a WILDCARD type (Kind = CDS | LDS) explicitly: the delta client
//	         subscribes to (or, the second time, unsubscribes from) Names next to its wildcard, the SotW client lists
//	         them; the server answers from the newly subscribed names only (pushDeltaXds narrowing) and, for CDS, forces
//	         the EDS push
//	cnack    both clients reject the last response of type Kind (error_detail with its nonce)
//	creconn  both streams are closed and re-opened; the clients present what they hold (forceEDSPush with the real
//	         generators after the first CDS request while EDS is asked for again); the history goes on

func isClientOp(o Op) bool { return o.K == "csub" || o.K == "cnack" || o.K == "creconn" }

func genClientOp(r *wire.Rng) Op {
	switch r.Intn(4) {
	case 0:
		return Op{K: "creconn"}
	case 1:
		return Op{K: "cnack", Kind: wire.Pick(r, []string{"CDS", "LDS", "EDS", "RDS"})}
	}
	if r.Chance(1, 3) {
		return Op{K: "csub", Kind: "LDS", Names: []string{wire.Pick(r, []string{"0.0.0.0_80", "virtualOutbound", "no-such-listener"})}}
	}
	return Op{K: "csub", Kind: "CDS", Names: []string{wire.Pick(r, []string{"outbound|80||a.example.com", "outbound|80||b.example.com",
		"outbound|9090||c.example.com", "BlackHoleCluster", "outbound|80||no-such.example.com"})}}
}

// nack sends a rejection of the last response of a type on the live stream.
func (e *envoy) nack(typ string) {
	e.mu.Lock()
	defer e.mu.Unlock()
	s := e.st
	if s == nil || s.dead || s.nonces[typ] == "" {
		return
	}
	detail := &status.Status{Code: 13, Message: "rejected by the harness"}
	s.reqs[typ]++
	s.queued.Add(1)
	s.touch()
	s.logf(">%s NACK", typ)
	if e.delta {
		s.dlt <- &discovery.DeltaDiscoveryRequest{TypeUrl: longType[typ], ResponseNonce: s.nonces[typ], ErrorDetail: detail}
	} else {
		var names []string
		if typ != "CDS" && typ != "LDS" {
			names = e.subs[typ]
		}
		s.sotw <- &discovery.DiscoveryRequest{TypeUrl: longType[typ], ResourceNames: names, ResponseNonce: s.nonces[typ], VersionInfo: e.version[typ], ErrorDetail: detail}
	}
}

// explicitSub toggles an explicit subscription of a wildcard type.
func (e *envoy) explicitSub(typ string, names []string, on bool) {
	e.mu.Lock()
	defer e.mu.Unlock()
	s := e.st
	if s == nil || s.dead {
		return
	}
	if e.delta {
		if on {
			s.sendDelta(typ, names, nil, "", nil)
		} else {
			s.sendDelta(typ, nil, names, "", nil)
		}
		return
	}
	if !on {
		names = nil
	}
	s.sendSotw(typ, names, s.nonces[typ], e.version[typ])
}

func genRouterOp(r *wire.Rng, w *world, clock *int) Op {
	for {
		if r.Chance(1, 5) {
			if old, ok := w.Cfg["gw/"+proxyNs+"/"+routerGateway]; ok {
				if r.Chance(1, 4) {
					return Op{K: "del", Kind: "gw", N: routerGateway, Ns: proxyNs}
				}
				o := genGW(r, clock)
				o.T = old.T
				if !sameOp(old, o) {
					return o
				}
				continue
			}
			return genGW(r, clock)
		}
		o := genOp(r, w, clock)
		switch {
		case o.K == "sc" || (o.K == "del" && o.Kind == "sc") || o.N == inboundSE:
			continue // no Sidecar for a gateway; the proxy address of the inbound entry is the sidecar's
		case o.K == "vs":
			if r.Chance(4, 5) {
				o.Gw = []string{proxyNs + "/" + routerGateway}
			}
		case o.K == "ef" && o.Mode == "cluster":
			o.Mode = "gwcluster"
		}
		if old, ok := w.Cfg[o.key()]; ok && sameOp(old, o) {
			continue
		}
		return o
	}
}

func genC03Router(r *wire.Rng) *History {
	h := &History{Stream: "c03", Flavor: "router", Debounce: wire.Pick(r, []int{0, 5, 20}), Explicit: r.Chance(1, 2)}
	clock := 0
	for _, o := range genBase(r, &clock) {
		switch {
		case o.K == "sc" || o.N == inboundSE:
			continue
		case o.K == "vs":
			o.Gw = []string{proxyNs + "/" + routerGateway}
		case o.K == "ef" && o.Mode == "cluster":
			o.Mode = "gwcluster"
		}
		h.Base = append(h.Base, o)
	}
	if r.Chance(5, 6) {
		h.Base = append(h.Base, genGW(r, &clock))
	}
	w := newWorld(false)
	for _, o := range h.Base {
		w.note(o)
	}
	// a gateway without routes holds no service cluster at all: start with one bound VirtualService
	if r.Chance(3, 4) {
		o := genVS(r, "vs-1", &clock)
		o.Gw = []string{proxyNs + "/" + routerGateway}
		if old, ok := w.Cfg[o.key()]; ok {
			o.T = old.T
		}
		w.note(o)
		h.Base = append(h.Base, o)
	}
	steps := 4 + r.Intn(5)
	for i := 0; i < steps; i++ {
		n := 1
		if r.Chance(1, 5) {
			n = 2
			h.Debounce = 100
		}
		var ops []Op
		for j := 0; j < n; j++ {
			o := genRouterOp(r, w, &clock)
			w.note(o)
			ops = append(ops, o)
		}
		h.Steps = append(h.Steps, ops)
		if r.Chance(1, 8) {
			h.Steps = append(h.Steps, []Op{genClientOp(r)})
		}
	}
	return h
}

func genC03(r *wire.Rng) *History {
	if ztEnabled && r.Chance(1, 4) {
		return genC03Zt(r)
	}
	wideGrammar = true
	defer func() { wideGrammar = false }()
	if r.Chance(1, 3) {
		return genC03Router(r)
	}
	h := &History{Stream: "c03", Flavor: "envoy", Debounce: wire.Pick(r, []int{0, 5, 20}), Explicit: r.Chance(1, 2)}
	clock := 0
	h.Base = genBase(r, &clock)
	w := newWorld(false)
	for _, o := range h.Base {
		w.note(o)
	}
	steps := 4 + r.Intn(5)
	for i := 0; i < steps; i++ {
		n := 1
		if r.Chance(1, 4) {
			n = 2 + r.Intn(2)
		}
		var ops []Op
		for j := 0; j < n; j++ {
			o := genOp(r, w, &clock)
			w.note(o)
			ops = append(ops, o)
		}
		h.Steps = append(h.Steps, ops)
		if r.Chance(1, 6) {
			h.Steps = append(h.Steps, []Op{genClientOp(r)})
		}
	}
	// Un-scripted bursts (ops applied back to back) are only deterministic when all their events
	// merge into ONE push: event delivery inside the server is asynchronous, and with a short
	// debounce the first event can be pushed from a context that already contains the later
	// changes (the race that the lag cases below script deliberately).
	for _, ops := range h.Steps {
		if len(ops) > 1 {
			h.Debounce = 100
		}
		for _, o := range ops {
			// the registry's by-address index trails the event that announces a new instance (see targetsStale)
			if o.N == inboundSE && h.Debounce < 20 {
				h.Debounce = 20
			}
		}
	}
	// a quarter of the cases hold back the events of one single-op step while the next step is pushed
	if r.Chance(1, 4) {
		w2 := newWorld(false)
		for _, o := range h.Base {
			w2.note(o)
		}
		var cands []LagSpec
		for i, ops := range h.Steps {
			if len(ops) == 1 && i+1 < len(h.Steps) && !isClientOp(h.Steps[i+1][0]) &&
				(ops[0].K == "se" || ops[0].K == "dr" || (ops[0].K == "del" && (ops[0].Kind == "se" || ops[0].Kind == "dr"))) {
				l := LagSpec{Step: i + 1, Names: opNames(w2, ops[0])}
				w3 := w2.clone()
				w3.note(ops[0])
				for _, o := range h.Steps[i+1] {
					l.Next = append(l.Next, opNames(w3, o)...)
					w3.note(o)
				}
				cands = append(cands, l)
			}
			for _, o := range ops {
				w2.note(o)
			}
		}
		if len(cands) > 0 {
			l := wire.Pick(r, cands)
			h.Lag = &l
		}
	}
	return h
}

// applyStep applies the ops of one step back to back.
func applyStep(st *site, w *world, ops []Op, stt *stats) *result {
	in := st.s.Discovery.InboundUpdates.Load()
	for _, o := range ops {
		if err := st.apply(w, o); err != nil {
			return &result{Clause: "harness-apply-error", Detail: map[string]any{"op": o, "err": err.Error()}}
		}
		stt.Ops[o.K]++
	}
	st.awaitInbound(in, 2*time.Second)
	return nil
}

// settle waits for quiescence and evaluates cmp; a difference must persist for `patience` in a
// quiescent system to be returned (asynchronous event delivery inside the server cannot be
// observed from outside, so a first difference is only a reason to look again).
func settle(st *site, stt *stats, cmp func() []diff, cs ...activity) ([]diff, bool) {
	if !st.quiesce(cs...) {
		return nil, false
	}
	d := cmp()
	if len(d) == 0 {
		return nil, true
	}
	deadline := time.Now().Add(patience)
	for time.Now().Before(deadline) {
		time.Sleep(100 * time.Millisecond)
		if !st.quiesce(cs...) {
			return nil, false
		}
		if d = cmp(); len(d) == 0 {
			stt.Extra["late-convergence"]++
			return nil, true
		}
	}
	return d, true
}

// serviceTargets: what the server believes each connected proxy serves (hostname:port per
// connection). The two clients of a case are one workload: if these differ, the two connections
// were not given the same inputs by the registries (a race outside the statement of C03).
func serviceTargets(st *site) map[string][]string {
	out := map[string][]string{}
	for _, c := range st.s.Discovery.AllClients() {
		p := c.Proxy()
		if p == nil {
			continue
		}
		p.RLock()
		var ts []string
		for _, t := range p.ServiceTargets {
			ts = append(ts, string(t.Service.Hostname)+":"+itoa(int(t.Port.TargetPort)))
		}
		p.RUnlock()
		sort.Strings(ts)
		out[p.ID] = ts
	}
	return out
}

// targetsStale: some connection's ServiceTargets are not what the registries answer NOW for that
// proxy. With a short debounce the push of a ServiceEntry event can be computed before the
// registry's by-address index shows the new instance (that index is derived asynchronously from
// the same event): the connection then has no inbound configuration for a service that selects it
// until something refreshes its targets. That is a race between registry and push (the subject of
// C01, observation O-C03-3 in notes/C03.md), and it hits the two connections of a case
// independently: they are no longer "the same proxy with the same history".
func targetsStale(st *site) bool {
	sd := st.s.Env().ServiceDiscovery
	for _, c := range st.s.Discovery.AllClients() {
		p := c.Proxy()
		if p == nil {
			continue
		}
		var now []string
		for _, t := range sd.GetProxyServiceTargets(p) {
			now = append(now, string(t.Service.Hostname)+":"+itoa(int(t.Port.TargetPort)))
		}
		sort.Strings(now)
		if strings.Join(now, ",") != strings.Join(serviceTargets(st)[p.ID], ",") {
			return true
		}
	}
	return false
}

func freshEndpoints(st *site, stt *stats, w *world, h *History, delta, sotw *envoy) *result {
	fresh := newEnvoy("fresh-delta", true, "app-fresh")
	if h.Flavor == "router" {
		asRouter(fresh, "gw-fresh")
	} else {
		inRegion(fresh)
	}
	fresh.explicit = h.Explicit
	fresh.connect(st, connectOpts{})
	defer func() { fresh.disconnect(); stt.client(fresh) }()
	defined := map[string]int{}
	for _, k := range sortedKeys(w.Cfg) {
		if c := w.Cfg[k]; c.K == "se" {
			for _, hn := range c.Hosts {
				defined[hn]++
			}
		}
	}
	cmp := func() []diff {
		a, b := delta.snapshot(), fresh.snapshot()
		stt.Comparisons++
		var out []diff
		for _, d := range compareHeld(a, b, []string{"EDS"}) {
			if defined[model.ParseSubsetKeyHostname(d.Name)] > 1 {
				stt.Extra["fresh-eds-not-judged-multi-defined-host"]++
				continue
			}
			out = append(out, d)
		}
		return out
	}
	d, ok := settle(st, stt, cmp, sotw, delta, fresh)
	if !ok {
		r := timeoutResult("quiescence with the fresh reference client", clientInfo(delta, fresh))
		return &r
	}
	stt.Extra["fresh-eds-comparisons"]++
	if len(d) > 0 {
		return &result{Clause: "delta-eds-ne-fresh", Detail: merge(map[string]any{"after_step": len(h.Steps), "n": len(d), "diff": limitDiffs(d, 12),
			"a": "long-lived delta client", "b": "delta client connected at the end"}, clientInfo(delta, fresh))}
	}
	return nil
}

// countArms: which arms of the delta CDS / EDS code an op aims at (evidence: STATS extra "arm:*"); w is the world
// BEFORE the op.
func countArms(stt *stats, w *world, o Op, h *History) {
	arm := func(n string) { stt.Extra["arm:"+n]++ }
	if h.Flavor == "router" {
		arm("router:" + o.K)
	}
	old, had := w.Cfg[o.key()]
	switch {
	case o.K == "se":
		if o.N == inboundSE {
			arm("inbound-service-entry")
		}
		if had {
			for _, p := range old.Ports {
				removed := true
				for _, q := range o.Ports {
					if p == q {
						removed = false
					}
				}
				if removed {
					arm("se-port-removed")
					break
				}
			}
			if old.Res != o.Res {
				arm("se-resolution-changed")
			}
			if strings.Join(old.Hosts, ",") != strings.Join(o.Hosts, ",") {
				arm("se-hosts-changed")
			}
		} else {
			arm("se-created")
		}
	case o.K == "del" && o.Kind == "se":
		arm("se-deleted")
	case o.K == "dr":
		if had && old.Host != o.Host {
			arm("dr-host-changed")
			if len(old.Subsets) > 0 {
				arm("dr-host-changed-with-subsets")
			}
		}
		if o.Loc != "" || (had && old.Loc != "") {
			arm("dr-locality-lb")
		}
	case o.K == "del" && o.Kind == "dr":
		arm("dr-deleted")
		if had && old.Loc != "" {
			arm("dr-locality-lb")
		}
	case o.K == "pa" || (o.K == "del" && o.Kind == "pa"):
		if o.Ns == "istio-system" {
			arm("peer-authentication-root-namespace")
		} else {
			arm("peer-authentication-namespace")
		}
	case o.K == "sc" || (o.K == "del" && o.Kind == "sc"):
		arm("sidecar")
	case o.K == "vs" || (o.K == "del" && o.Kind == "vs"):
		arm("virtual-service")
	case o.K == "ef" || (o.K == "del" && o.Kind == "ef"):
		m := o.Mode
		if had {
			m = old.Mode
		}
		if strings.HasPrefix(m, "ecds") || strings.HasPrefix(o.Mode, "ecds") {
			arm("envoy-filter-ecds")
		} else {
			arm("envoy-filter-cluster")
		}
	case o.K == "gw" || (o.K == "del" && o.Kind == "gw"):
		arm("gateway")
	}
}

func clientInfo(es ...*envoy) map[string]any {
	out := map[string]any{}
	for _, e := range es {
		if errs := e.errors(); len(errs) > 0 {
			out["errors-"+e.label] = errs
		}
		out["log-"+e.label] = tail(e.streamLog(), 40)
	}
	return out
}

func tail(xs []string, n int) []string {
	if len(xs) > n {
		return xs[len(xs)-n:]
	}
	return xs
}

func merge(a map[string]any, b map[string]any) map[string]any {
	for k, v := range b {
		a[k] = v
	}
	return a
}

func runC03(h *History, stt *stats) result {
	w := h.baseWorld()
	if h.Flavor == "router" {
		old := features.FilterGatewayClusterConfig
		features.FilterGatewayClusterConfig = true
		defer func() { features.FilterGatewayClusterConfig = old }()
	}
	st := newSite(w, time.Duration(h.Debounce)*time.Millisecond)
	stt.Servers++
	defer st.close()

	sotw := newEnvoy("sotw", false, "app-sotw")
	delta := newEnvoy("delta", true, "app-delta")
	if h.Flavor == "router" {
		asRouter(sotw, "gw-sotw")
		asRouter(delta, "gw-delta")
	} else {
		inRegion(sotw)
		inRegion(delta)
	}
	delta.explicit = h.Explicit
	sotw.connect(st, connectOpts{})
	delta.connect(st, connectOpts{})
	defer sotw.disconnect()
	defer delta.disconnect()
	defer func() { stt.client(sotw); stt.client(delta) }()

	cmp := func() []diff {
		a, b := sotw.snapshot(), delta.snapshot()
		stt.Comparisons++
		stt.Compared += countHeld(a, c03Types)
		return compareHeld(a, b, c03Types)
	}
	var lag *lagScope
	var firstKnown *result
	explicit := map[string]bool{} // csub: Kind/name -> currently subscribed explicitly
	clientOp := func(o Op) {
		stt.Ops[o.K]++
		stt.Extra["arm:client-"+o.K]++
		switch o.K {
		case "csub":
			key := o.Kind + "/" + strings.Join(o.Names, ",")
			on := !explicit[key]
			explicit[key] = on
			for _, e := range []*envoy{sotw, delta} {
				e.explicitSub(o.Kind, o.Names, on)
			}
		case "cnack":
			for _, e := range []*envoy{sotw, delta} {
				e.nack(o.Kind)
			}
		case "creconn":
			for _, e := range []*envoy{sotw, delta} {
				e.disconnect()
			}
			explicit = map[string]bool{}
			for _, e := range []*envoy{sotw, delta} {
				e.connect(st, connectOpts{})
			}
		}
	}
	check := func(step int) *result {
		d, ok := settle(st, stt, cmp, sotw, delta)
		if ok && len(d) > 0 && targetsStale(st) {
			// restore comparability with a forced full push (a resync, as any mesh-config change causes)
			stt.Extra["service-targets-race-repaired"]++
			st.s.Discovery.ConfigUpdate(&model.PushRequest{Forced: true, Reason: model.NewReasonStats(model.DebugTrigger)})
			time.Sleep(calmTime)
			d, ok = settle(st, stt, cmp, sotw, delta)
		}
		if !ok {
			r := timeoutResult("quiescence", merge(map[string]any{"after_step": step}, clientInfo(sotw, delta)))
			return &r
		}
		if errs := append(sotw.errors(), delta.errors()...); len(errs) > 0 {
			return &result{Clause: "harness-client-error", Detail: map[string]any{"after_step": step, "errors": errs}}
		}
		if len(d) > 0 {
			clause := "delta-ne-sotw"
			if h.Lag != nil && step > h.Lag.Step && lag.known(d) {
				// the scripted race: the events of one change were delivered after a push built from a
				// context that already contained it, and the delta client keeps what that change removed.
				// The damage can be latent (both clients equally stale until the next full CDS build
				// repairs only the SotW client), so it may show at any step from the release on.
				clause = "delta-ne-sotw:events-behind-state"
			}
			res := &result{Clause: clause, Detail: merge(map[string]any{"after_step": step, "n": len(d), "diff": limitDiffs(d, 12), "service_targets": serviceTargets(st),
				"a": "sotw client", "b": "delta client"}, clientInfo(sotw, delta))}
			if clause != "delta-ne-sotw" {
				// a known class does not end the case: the history goes on, every later comparison must again show
				// nothing but the known symptom (the kept resources stay until a full CDS build), anything else is
				// a plain delta-ne-sotw; the known verdict is reported at the end
				if firstKnown == nil {
					firstKnown = res
				}
				stt.Extra["steps-compared-after-a-known-class"]++
				return nil
			}
			if firstKnown != nil {
				res.Detail["after_known_class"] = firstKnown.Clause
			}
			return res
		}
		for _, e := range []*envoy{sotw, delta} {
			e.mu.Lock()
			if e.st.edsDue {
				stt.Extra["eds-due-at-quiescence-"+e.label]++
			}
			e.mu.Unlock()
		}
		return nil
	}
	if r := check(0); r != nil {
		return *r
	}
	var gate *reqGate
	defer func() {
		if gate != nil {
			gate.openAll()
		}
	}()
	applyQuick := func(ops []Op) *result {
		for _, o := range ops {
			if err := st.apply(w, o); err != nil {
				return &result{Clause: "harness-apply-error", Detail: map[string]any{"op": o, "err": err.Error()}}
			}
			stt.Ops[o.K]++
		}
		return nil
	}
	for i := 0; i < len(h.Steps); i++ {
		ops := h.Steps[i]
		if h.Lag != nil && h.Lag.Step == i+1 && i+1 < len(h.Steps) {
			gate = installReqGate(h.Lag.Names, h.Lag.Next)
			lag = newLagScope(w, ops, h.Steps[i+1])
			stt.Extra["arm:lag-case"]++
			for _, o := range append(append([]Op{}, ops...), h.Steps[i+1]...) {
				countArms(stt, w, o, h)
			}
			if r := applyQuick(ops); r != nil {
				return *r
			}
			// the events of this step are parked: the state they announce is visible by then
			deadline := time.Now().Add(2 * time.Second)
			for gate.count(1) == 0 && time.Now().Before(deadline) {
				time.Sleep(pollEvery)
			}
			// the next step: its state becomes visible too, its events wait
			if r := applyQuick(h.Steps[i+1]); r != nil {
				return *r
			}
			stt.Steps += 2
			awaitStateVisible(st, w, append(append([]Op{}, ops...), h.Steps[i+1]...))
			stt.Extra["lag-events-parked"] += gate.count(1)
			if os.Getenv("E2E_DEBUG") != "" {
				fmt.Fprintln(os.Stderr, "DEBUG parked", gate.count(1), gate.count(2))
			}
			gate.open(1)
			if !st.quiesce(sotw, delta) {
				return timeoutResult("quiescence with parked events", clientInfo(sotw, delta))
			}
			stt.Extra["lag-late-events-parked"] += gate.count(2)
			gate.openAll()
			gate = nil
			stt.Extra["lag-released"]++
			time.Sleep(calmTime)
			i++
			if r := check(i + 1); r != nil {
				return *r
			}
			continue
		}
		if isClientOp(ops[0]) {
			for _, o := range ops {
				clientOp(o)
			}
		} else {
			for _, o := range ops {
				countArms(stt, w, o, h)
			}
			if r := applyStep(st, w, ops, stt); r != nil {
				return *r
			}
		}
		stt.Steps++
		if r := check(i + 1); r != nil {
			return *r
		}
	}
	if firstKnown != nil {
		firstKnown.Detail["history_completed"] = true
		return *firstKnown
	}
	// Two equally stale clients must not pass: SotW and delta EDS pushes run through the same buildEndpoints with the
	// same "partial push" decision, so a stale ClusterLoadAssignment is stale in both. At the end of the history the
	// delta client's endpoints are compared with those of a delta client connected now (EDS only; the long-lived =
	// fresh statement at large is C01's). Not judged: clusters of a hostname that several ServiceEntries define
	// (C01's known class: EDS is not pushed when a Sidecar / VirtualService change switches the service of a host).
	// Only histories that ask for it (hand-written corpus cases): on generated histories the comparison shows
	// differences that are not about delta vs SotW (order of locality groups, endpoints that are equally stale in a
	// long-lived SotW client) - see notes/C03.md, round 3.
	if h.FreshEDS {
		if r := freshEndpoints(st, stt, w, h, delta, sotw); r != nil {
			return *r
		}
	}
	hd := sotw.snapshot()
	if os.Getenv("E2E_DEBUG") != "" {
		for _, t := range c03Types {
			for _, n := range sortedKeys(hd[t]) {
				fmt.Fprintln(os.Stderr, "DEBUG held", t, n, hd[t][n].Text)
			}
		}
	}
	return result{OK: true, Summary: "c03 " + h.Flavor + " steps=" + itoa(len(h.Steps)) + " held=" + itoa(len(hd["CDS"])) + "/" + itoa(len(hd["EDS"])) + "/" +
		itoa(len(hd["LDS"])) + "/" + itoa(len(hd["RDS"])) + " ops=" + opsShort(h.Steps)}
}
