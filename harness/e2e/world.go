package main

// The mesh grammar shared by all streams. A history is a list of Ops (JSON, self-contained, so a
// FAIL line can be replayed); a world is the set of objects that exist after a prefix of it. The
// same world can be rendered into a second, cold-started server.

import (
	"context"
	"fmt"
	"sort"
	"strconv"
	"strings"
	"time"

	"google.golang.org/protobuf/types/known/wrapperspb"
	corev1 "k8s.io/api/core/v1"
	metav1 "k8s.io/apimachinery/pkg/apis/meta/v1"
	"k8s.io/apimachinery/pkg/runtime"
	"k8s.io/apimachinery/pkg/util/intstr"

	"istio.io/api/annotation"
	networking "istio.io/api/networking/v1alpha3"
	securityv1beta1 "istio.io/api/security/v1beta1"
	typev1beta1 "istio.io/api/type/v1beta1"
	securityclient "istio.io/client-go/pkg/apis/security/v1"
	"istio.io/istio/pilot/pkg/model"
	"istio.io/istio/pkg/config"
	"istio.io/istio/pkg/config/constants"
	"istio.io/istio/pkg/config/host"
	"istio.io/istio/pkg/config/protocol"
	"istio.io/istio/pkg/config/schema/gvk"
	"istio.io/istio/pkg/kube/kclient/clienttest"
	"istio.io/istio/pkg/util/protomarshal"
	"verifharness/internal/wire"
)

// Op is one event of a history.
//
//	se / dr / vs / sc      create-or-update a ServiceEntry / DestinationRule / VirtualService / Sidecar
//	pa / ef / gw           create-or-update a PeerAuthentication (namespace-wide, Mode) / EnvoyFilter (Mode = what it
//	                       patches, V = a number inside the patch) / Gateway (Srv = port|protocol|host per server)
//	del                    delete the object Kind/Ns/N
//	msvc / meps / mdel     memory-registry service: add-or-update, set endpoints (EDS-only update), remove
//	pod / poddel           kube pod (ambient flavour): create-or-update, delete
//	ksvc / ksvcdel         kube service (ambient flavour)
//	authz / authzdel       kube AuthorizationPolicy (ambient flavour; Mode ALLOW | DENY, SA principal, Sel selector)
//	sub / unsub            client side: the on-demand ztunnel client (un)subscribes to Names
type Op struct {
	K       string            `json:"k"`
	N       string            `json:"n,omitempty"`
	Ns      string            `json:"ns,omitempty"`
	Kind    string            `json:"kind,omitempty"`
	T       int               `json:"t,omitempty"` // logical creation time (orders conflicting objects identically on every server)
	Hosts   []string          `json:"hosts,omitempty"`
	Ports   []int             `json:"ports,omitempty"`
	Res     string            `json:"res,omitempty"`
	Eps     []string          `json:"eps,omitempty"` // ip or ip/version
	Vip     string            `json:"vip,omitempty"`
	Exp     []string          `json:"exp,omitempty"`
	Host    string            `json:"host,omitempty"`
	Subsets []string          `json:"subsets,omitempty"`
	Lb      string            `json:"lb,omitempty"`
	Tls     string            `json:"tls,omitempty"`
	Dst     []string          `json:"dst,omitempty"` // host|subset|port|weight
	Egress  []string          `json:"egress,omitempty"`
	IP      string            `json:"ip,omitempty"`
	SA      string            `json:"sa,omitempty"`
	Node    string            `json:"node,omitempty"`
	Labels  map[string]string `json:"labels,omitempty"`
	Sel     map[string]string `json:"sel,omitempty"`
	Names   []string          `json:"names,omitempty"`
	Mode    string            `json:"mode,omitempty"` // pa: STRICT | PERMISSIVE | DISABLE; ef: cluster | merge | ecds | gwcluster
	V       int               `json:"v,omitempty"`    // ef: a number inside the patch (content change)
	Gw      []string          `json:"gw,omitempty"`   // vs: gateways
	Srv     []string          `json:"srv,omitempty"`  // gw: port|protocol|host
	Loc     string            `json:"loc,omitempty"`  // dr: localityLbSetting distribute | failover (endpoints: ip[/version][@region])
}

func (o Op) key() string {
	k := o.K
	if k == "del" {
		k = o.Kind
	}
	return k + "/" + o.Ns + "/" + o.N
}

func (o Op) short() string {
	switch o.K {
	case "del":
		return "del:" + o.Kind + "/" + o.N
	case "sub", "unsub":
		return o.K + ":" + strings.Join(o.Names, "+")
	}
	return o.K + ":" + o.N
}

type world struct {
	Ambient bool
	Cfg     map[string]Op // se dr vs sc by key
	Mem     map[string]Op // msvc by host (Eps = current endpoints)
	Pods    map[string]Op
	KSvc    map[string]Op
	Authz   map[string]Op // kube AuthorizationPolicy objects (ambient flavour)
}

func newWorld(ambient bool) *world {
	return &world{Ambient: ambient, Cfg: map[string]Op{}, Mem: map[string]Op{}, Pods: map[string]Op{}, KSvc: map[string]Op{}, Authz: map[string]Op{}}
}

func (w *world) clone() *world {
	n := newWorld(w.Ambient)
	for k, v := range w.Cfg {
		n.Cfg[k] = v
	}
	for k, v := range w.Mem {
		n.Mem[k] = v
	}
	for k, v := range w.Pods {
		n.Pods[k] = v
	}
	for k, v := range w.KSvc {
		n.KSvc[k] = v
	}
	for k, v := range w.Authz {
		n.Authz[k] = v
	}
	return n
}

// note records the effect of an op on the world (client-side ops have none).
func (w *world) note(o Op) {
	switch o.K {
	case "se", "dr", "vs", "sc", "pa", "ef", "gw":
		if old, ok := w.Cfg[o.key()]; ok {
			o.T = old.T // an update keeps the creation time
		}
		w.Cfg[o.key()] = o
	case "del":
		delete(w.Cfg, o.key())
	case "msvc":
		if old, ok := w.Mem[o.N]; ok && o.Eps == nil {
			o.Eps = old.Eps
		}
		w.Mem[o.N] = o
	case "meps":
		if old, ok := w.Mem[o.N]; ok {
			old.Eps = o.Eps
			w.Mem[o.N] = old
		}
	case "mdel":
		delete(w.Mem, o.N)
	case "pod":
		w.Pods[o.N] = o
	case "poddel":
		delete(w.Pods, o.N)
	case "ksvc":
		w.KSvc[o.N] = o
	case "ksvcdel":
		delete(w.KSvc, o.N)
	case "authz":
		w.Authz[o.N] = o
	case "authzdel":
		delete(w.Authz, o.N)
	}
}

func sortedKeys[V any](m map[string]V) []string {
	out := make([]string, 0, len(m))
	for k := range m {
		out = append(out, k)
	}
	sort.Strings(out)
	return out
}

// ---------------------------------------------------------------- rendering

var epoch = time.Date(2024, 1, 1, 0, 0, 0, 0, time.UTC)

type portDef struct {
	Name  string
	Proto string
}

var portTable = map[int]portDef{
	80:   {"http", "HTTP"},
	8080: {"http-alt", "HTTP"},
	443:  {"tls", "TLS"},
	9090: {"tcp", "TCP"},
	7070: {"grpc", "GRPC"},
}

func splitEp(e string) (ip, ver string) {
	e, _ = splitLoc(e)
	if i := strings.IndexByte(e, '/'); i >= 0 {
		return e[:i], e[i+1:]
	}
	return e, ""
}

// splitLoc: the optional region of an endpoint ("ip[/version]@region"); its zone is "z1".
func splitLoc(e string) (rest, region string) {
	if i := strings.IndexByte(e, '@'); i >= 0 {
		return e[:i], e[i+1:]
	}
	return e, ""
}

func render(o Op) config.Config {
	meta := config.Meta{Name: o.N, Namespace: o.Ns, CreationTimestamp: epoch.Add(time.Duration(o.T) * time.Second)}
	switch o.K {
	case "se":
		meta.GroupVersionKind = gvk.ServiceEntry
		se := &networking.ServiceEntry{Hosts: o.Hosts, Location: networking.ServiceEntry_MESH_INTERNAL, ExportTo: o.Exp}
		if o.Vip != "" {
			se.Addresses = []string{o.Vip}
		}
		for _, p := range o.Ports {
			d := portTable[p]
			se.Ports = append(se.Ports, &networking.ServicePort{Number: uint32(p), Name: d.Name, Protocol: d.Proto})
		}
		switch o.Res {
		case "DNS":
			se.Resolution = networking.ServiceEntry_DNS
		case "NONE":
			se.Resolution = networking.ServiceEntry_NONE
		default:
			se.Resolution = networking.ServiceEntry_STATIC
			for _, e := range o.Eps {
				ip, ver := splitEp(e)
				we := &networking.WorkloadEntry{Address: ip}
				if ver != "" {
					we.Labels = map[string]string{"version": ver}
				}
				if _, region := splitLoc(e); region != "" {
					we.Locality = region + "/z1"
				}
				se.Endpoints = append(se.Endpoints, we)
			}
		}
		return config.Config{Meta: meta, Spec: se}
	case "dr":
		meta.GroupVersionKind = gvk.DestinationRule
		dr := &networking.DestinationRule{Host: o.Host, ExportTo: o.Exp}
		for _, s := range o.Subsets {
			dr.Subsets = append(dr.Subsets, &networking.Subset{Name: s, Labels: map[string]string{"version": s}})
		}
		if o.Lb != "" || o.Tls != "" || o.Loc != "" {
			dr.TrafficPolicy = &networking.TrafficPolicy{}
			switch o.Loc {
			case "distribute":
				dr.TrafficPolicy.LoadBalancer = &networking.LoadBalancerSettings{LocalityLbSetting: &networking.LocalityLoadBalancerSetting{
					Distribute: []*networking.LocalityLoadBalancerSetting_Distribute{{From: "r1/*", To: map[string]uint32{"r1/*": 20, "r2/*": 80}}},
				}}
			case "failover":
				dr.TrafficPolicy.LoadBalancer = &networking.LoadBalancerSettings{LocalityLbSetting: &networking.LocalityLoadBalancerSetting{
					Failover: []*networking.LocalityLoadBalancerSetting_Failover{{From: "r1", To: "r2"}},
				}}
				dr.TrafficPolicy.OutlierDetection = &networking.OutlierDetection{Consecutive_5XxErrors: wrapperspb.UInt32(3)}
			}
			simple := func(v networking.LoadBalancerSettings_SimpleLB) {
				if dr.TrafficPolicy.LoadBalancer == nil {
					dr.TrafficPolicy.LoadBalancer = &networking.LoadBalancerSettings{}
				}
				dr.TrafficPolicy.LoadBalancer.LbPolicy = &networking.LoadBalancerSettings_Simple{Simple: v}
			}
			switch o.Lb {
			case "RR":
				simple(networking.LoadBalancerSettings_ROUND_ROBIN)
			case "LR":
				simple(networking.LoadBalancerSettings_LEAST_REQUEST)
			case "RND":
				simple(networking.LoadBalancerSettings_RANDOM)
			}
			switch o.Tls {
			case "MUTUAL":
				dr.TrafficPolicy.Tls = &networking.ClientTLSSettings{Mode: networking.ClientTLSSettings_ISTIO_MUTUAL}
			case "DISABLE":
				dr.TrafficPolicy.Tls = &networking.ClientTLSSettings{Mode: networking.ClientTLSSettings_DISABLE}
			case "SIMPLE":
				dr.TrafficPolicy.Tls = &networking.ClientTLSSettings{Mode: networking.ClientTLSSettings_SIMPLE}
			}
		}
		return config.Config{Meta: meta, Spec: dr}
	case "vs":
		meta.GroupVersionKind = gvk.VirtualService
		vs := &networking.VirtualService{Hosts: o.Hosts, ExportTo: o.Exp, Gateways: o.Gw}
		hr := &networking.HTTPRoute{}
		for _, d := range o.Dst {
			f := strings.Split(d, "|")
			for len(f) < 4 {
				f = append(f, "")
			}
			dst := &networking.Destination{Host: f[0], Subset: f[1]}
			if p, _ := strconv.Atoi(f[2]); p != 0 {
				dst.Port = &networking.PortSelector{Number: uint32(p)}
			}
			wt, _ := strconv.Atoi(f[3])
			hr.Route = append(hr.Route, &networking.HTTPRouteDestination{Destination: dst, Weight: int32(wt)})
		}
		vs.Http = []*networking.HTTPRoute{hr}
		return config.Config{Meta: meta, Spec: vs}
	case "sc":
		meta.GroupVersionKind = gvk.Sidecar
		sc := &networking.Sidecar{Egress: []*networking.IstioEgressListener{{Hosts: o.Egress}}}
		return config.Config{Meta: meta, Spec: sc}
	case "pa":
		meta.GroupVersionKind = gvk.PeerAuthentication
		pa := &securityv1beta1.PeerAuthentication{Mtls: &securityv1beta1.PeerAuthentication_MutualTLS{
			Mode: securityv1beta1.PeerAuthentication_MutualTLS_Mode(securityv1beta1.PeerAuthentication_MutualTLS_Mode_value[o.Mode]),
		}}
		return config.Config{Meta: meta, Spec: pa}
	case "gw":
		meta.GroupVersionKind = gvk.Gateway
		gw := &networking.Gateway{Selector: map[string]string{"istio": "ingressgateway"}}
		for i, sv := range o.Srv {
			f := strings.Split(sv, "|")
			port, _ := strconv.Atoi(f[0])
			server := &networking.Server{
				Port:  &networking.Port{Number: uint32(port), Protocol: f[1], Name: strings.ToLower(f[1]) + "-" + strconv.Itoa(i)},
				Hosts: []string{f[2]},
			}
			if f[1] == "TLS" {
				server.Tls = &networking.ServerTLSSettings{Mode: networking.ServerTLSSettings_PASSTHROUGH}
			}
			gw.Servers = append(gw.Servers, server)
		}
		return config.Config{Meta: meta, Spec: gw}
	case "ef":
		meta.GroupVersionKind = gvk.EnvoyFilter
		ef := &networking.EnvoyFilter{}
		if err := protomarshal.ApplyYAML(envoyFilterYAML(o), ef); err != nil {
			panic("render: EnvoyFilter " + o.Mode + ": " + err.Error())
		}
		return config.Config{Meta: meta, Spec: ef}
	}
	panic("render: unknown op kind " + o.K)
}

// envoyFilterYAML: the spec of an EnvoyFilter op. Mode:
//
//	cluster    adds a static cluster ef-<name> (connect timeout V s) to sidecars
//	gwcluster  the same for gateways
//	merge      merges connect_timeout V s into the outbound clusters of port 80 (sidecars and gateways)
//	ecds       adds the extension config ef-ext-<name> (content V) and inserts an HTTP filter that
//	           refers to it by config discovery before the router of every outbound / gateway listener
//	ecdsc / ecdsf  the two halves separately, for the shared name ef-ext-shared
func envoyFilterYAML(o Op) string {
	v := strconv.Itoa(1 + o.V)
	addCluster := func(ctx string) string {
		return `configPatches:
- applyTo: CLUSTER
  match:
    context: ` + ctx + `
  patch:
    operation: ADD
    value:
      name: ef-` + o.N + `
      type: STATIC
      connect_timeout: ` + v + `s
      load_assignment:
        cluster_name: ef-` + o.N + `
        endpoints:
        - lb_endpoints:
          - endpoint:
              address:
                socket_address:
                  address: 127.0.0.1
                  port_value: 9999
`
	}
	switch o.Mode {
	case "cluster":
		return addCluster("SIDECAR_OUTBOUND")
	case "gwcluster":
		return addCluster("GATEWAY")
	case "merge":
		return `configPatches:
- applyTo: CLUSTER
  match:
    cluster:
      portNumber: 80
  patch:
    operation: MERGE
    value:
      connect_timeout: ` + v + `s
`
	case "ecdsc":
		// only the extension config, under a shared name
		return `configPatches:
- applyTo: EXTENSION_CONFIG
  patch:
    operation: ADD
    value:
      name: ef-ext-shared
      typed_config:
        "@type": type.googleapis.com/udpa.type.v1.TypedStruct
        type_url: type.googleapis.com/envoy.extensions.filters.http.buffer.v3.Buffer
        value:
          max_request_bytes: ` + v + `000
`
	case "ecdsf":
		// only the HTTP filter that refers to the shared extension config: when no EnvoyFilter provides the config (any
		// more) the generator answers nothing for the name - never-remove: both clients keep what they were sent
		out := "configPatches:\n"
		for _, ctx := range []string{"SIDECAR_OUTBOUND", "GATEWAY"} {
			out += `- applyTo: HTTP_FILTER
  match:
    context: ` + ctx + `
    listener:
      filterChain:
        filter:
          name: envoy.filters.network.http_connection_manager
          subFilter:
            name: envoy.filters.http.router
  patch:
    operation: INSERT_BEFORE
    value:
      name: ef-ext-shared
      config_discovery:
        config_source:
          ads: {}
          initial_fetch_timeout: 0s
        type_urls: ["type.googleapis.com/envoy.extensions.filters.http.buffer.v3.Buffer"]
`
		}
		return out
	case "ecds":
		out := `configPatches:
- applyTo: EXTENSION_CONFIG
  patch:
    operation: ADD
    value:
      name: ef-ext-` + o.N + `
      typed_config:
        "@type": type.googleapis.com/udpa.type.v1.TypedStruct
        type_url: type.googleapis.com/envoy.extensions.filters.http.buffer.v3.Buffer
        value:
          max_request_bytes: ` + v + `000
`
		for _, ctx := range []string{"SIDECAR_OUTBOUND", "GATEWAY"} {
			out += `- applyTo: HTTP_FILTER
  match:
    context: ` + ctx + `
    listener:
      filterChain:
        filter:
          name: envoy.filters.network.http_connection_manager
          subFilter:
            name: envoy.filters.http.router
  patch:
    operation: INSERT_BEFORE
    value:
      name: ef-ext-` + o.N + `
      config_discovery:
        config_source:
          ads: {}
          initial_fetch_timeout: 0s
        type_urls: ["type.googleapis.com/envoy.extensions.filters.http.buffer.v3.Buffer"]
`
		}
		return out
	}
	panic("render: unknown EnvoyFilter mode " + o.Mode)
}

func kindGVK(k string) config.GroupVersionKind {
	switch k {
	case "se":
		return gvk.ServiceEntry
	case "dr":
		return gvk.DestinationRule
	case "vs":
		return gvk.VirtualService
	case "sc":
		return gvk.Sidecar
	case "pa":
		return gvk.PeerAuthentication
	case "ef":
		return gvk.EnvoyFilter
	case "gw":
		return gvk.Gateway
	}
	panic("unknown kind " + k)
}

func (w *world) configs() []config.Config {
	var out []config.Config
	for _, k := range sortedKeys(w.Cfg) {
		out = append(out, render(w.Cfg[k]))
	}
	return out
}

func memService(o Op) *model.Service {
	name := strings.SplitN(o.N, ".", 2)[0]
	svc := &model.Service{
		Hostname:       host.Name(o.N),
		DefaultAddress: o.Vip,
		CreationTime:   epoch.Add(time.Duration(o.T) * time.Second),
		Attributes:     model.ServiceAttributes{Name: name, Namespace: o.Ns},
	}
	for _, p := range o.Ports {
		d := portTable[p]
		svc.Ports = append(svc.Ports, &model.Port{Name: d.Name, Port: p, Protocol: protocol.Parse(d.Proto)})
	}
	return svc
}

func memEndpoints(o Op) []*model.IstioEndpoint {
	var out []*model.IstioEndpoint
	for _, p := range o.Ports {
		d := portTable[p]
		for _, e := range o.Eps {
			ip, ver := splitEp(e)
			ep := &model.IstioEndpoint{Addresses: []string{ip}, ServicePortName: d.Name, EndpointPort: uint32(p), Namespace: o.Ns}
			if ver != "" {
				ep.Labels = map[string]string{"version": ver}
			}
			if _, region := splitLoc(e); region != "" {
				ep.Locality = model.Locality{Label: region + "/z1"}
			}
			out = append(out, ep)
		}
	}
	return out
}

func (w *world) memServices() []*model.Service {
	var out []*model.Service
	for _, k := range sortedKeys(w.Mem) {
		out = append(out, memService(w.Mem[k]))
	}
	return out
}

func (w *world) applyMemEndpoints(st *site) {
	for _, k := range sortedKeys(w.Mem) {
		o := w.Mem[k]
		if len(o.Eps) > 0 {
			st.s.MemRegistry.SetEndpoints(o.N, o.Ns, memEndpoints(o))
		}
	}
}

func mkPod(o Op) *corev1.Pod {
	return &corev1.Pod{
		ObjectMeta: metav1.ObjectMeta{
			Name:        o.N,
			Namespace:   "default",
			Annotations: map[string]string{annotation.AmbientRedirection.Name: constants.AmbientRedirectionEnabled},
			Labels:      o.Labels,
		},
		Spec: corev1.PodSpec{ServiceAccountName: o.SA, NodeName: o.Node},
		Status: corev1.PodStatus{
			PodIP:      o.IP,
			PodIPs:     []corev1.PodIP{{IP: o.IP}},
			Phase:      corev1.PodRunning,
			Conditions: []corev1.PodCondition{{Type: corev1.PodReady, Status: corev1.ConditionTrue, LastTransitionTime: metav1.NewTime(epoch)}},
		},
	}
}

func mkKSvc(o Op) *corev1.Service {
	svc := &corev1.Service{
		ObjectMeta: metav1.ObjectMeta{Name: o.N, Namespace: "default"},
		Spec:       corev1.ServiceSpec{ClusterIP: o.Vip, Selector: o.Sel, Type: corev1.ServiceTypeClusterIP},
	}
	for _, p := range o.Ports {
		svc.Spec.Ports = append(svc.Spec.Ports, corev1.ServicePort{Name: portTable[p].Name, Port: int32(p), Protocol: "TCP", TargetPort: intstr.FromInt32(int32(p))})
	}
	return svc
}

func (w *world) kubeObjects() []runtime.Object {
	var out []runtime.Object
	for _, k := range sortedKeys(w.Pods) {
		out = append(out, mkPod(w.Pods[k]))
	}
	for _, k := range sortedKeys(w.KSvc) {
		out = append(out, mkKSvc(w.KSvc[k]))
	}
	for _, k := range sortedKeys(w.Authz) {
		out = append(out, mkAuthz(w.Authz[k]))
	}
	return out
}

// mkAuthz: a kube AuthorizationPolicy in namespace default (Mode = ALLOW | DENY, SA = the principal it names, Sel = the
// workload selector; without selector it is namespace-wide).
func mkAuthz(o Op) *securityclient.AuthorizationPolicy {
	p := &securityclient.AuthorizationPolicy{
		ObjectMeta: metav1.ObjectMeta{Name: o.N, Namespace: "default"},
		Spec: securityv1beta1.AuthorizationPolicy{
			Action: securityv1beta1.AuthorizationPolicy_Action(securityv1beta1.AuthorizationPolicy_Action_value[o.Mode]),
			Rules: []*securityv1beta1.Rule{{From: []*securityv1beta1.Rule_From{{Source: &securityv1beta1.Source{
				Principals: []string{"cluster.local/ns/default/sa/" + o.SA},
			}}}}},
		},
	}
	if len(o.Sel) > 0 {
		p.Spec.Selector = &typev1beta1.WorkloadSelector{MatchLabels: o.Sel}
	}
	return p
}

// ---------------------------------------------------------------- applying an op to a live server

func (st *site) apply(w *world, o Op) error {
	defer w.note(o)
	store := st.s.Store()
	switch o.K {
	case "se", "dr", "vs", "sc", "pa", "ef", "gw":
		if old, ok := w.Cfg[o.key()]; ok {
			o.T = old.T
			c := render(o)
			if cur := store.Get(c.GroupVersionKind, c.Name, c.Namespace); cur != nil {
				c.ResourceVersion = cur.ResourceVersion
			}
			_, err := store.Update(c)
			return err
		}
		_, err := store.Create(render(o))
		return err
	case "del":
		if _, ok := w.Cfg[o.key()]; !ok {
			return nil
		}
		return store.Delete(kindGVK(o.Kind), o.N, o.Ns, nil)
	case "msvc":
		if old, ok := w.Mem[o.N]; ok && o.Eps == nil {
			o.Eps = old.Eps
		}
		st.s.MemRegistry.AddService(memService(o))
		st.s.MemRegistry.SetEndpoints(o.N, o.Ns, memEndpoints(o))
	case "meps":
		if old, ok := w.Mem[o.N]; ok {
			old.Eps = o.Eps
			st.s.MemRegistry.SetEndpoints(old.N, old.Ns, memEndpoints(old))
		}
	case "mdel":
		if _, ok := w.Mem[o.N]; ok {
			st.s.MemRegistry.RemoveService(host.Name(o.N))
		}
	case "pod":
		p := mkPod(o)
		pods := clienttest.NewWriter[*corev1.Pod](st.f, st.s.KubeClient())
		pods.CreateOrUpdate(p)
		pods.UpdateStatus(p)
	case "poddel":
		if _, ok := w.Pods[o.N]; ok {
			return st.s.KubeClient().Kube().CoreV1().Pods("default").Delete(context.Background(), o.N, metav1.DeleteOptions{})
		}
	case "ksvc":
		clienttest.NewWriter[*corev1.Service](st.f, st.s.KubeClient()).CreateOrUpdate(mkKSvc(o))
	case "ksvcdel":
		if _, ok := w.KSvc[o.N]; ok {
			return st.s.KubeClient().Kube().CoreV1().Services("default").Delete(context.Background(), o.N, metav1.DeleteOptions{})
		}
	case "authz":
		clienttest.NewWriter[*securityclient.AuthorizationPolicy](st.f, st.s.KubeClient()).CreateOrUpdate(mkAuthz(o))
	case "authzdel":
		if _, ok := w.Authz[o.N]; ok {
			return st.s.KubeClient().Istio().SecurityV1().AuthorizationPolicies("default").Delete(context.Background(), o.N, metav1.DeleteOptions{})
		}
	case "sub", "unsub", "csub", "cnack", "creconn":
		// client side, handled by the stream
	default:
		return fmt.Errorf("unknown op %q", o.K)
	}
	return nil
}

// ---------------------------------------------------------------- generator (Envoy flavour)

const proxyNs = "ns1"

var (
	seNames   = []string{"se-a", "se-b", "se-c", "se-d"}
	seNs      = map[string]string{"se-a": "ns1", "se-b": "ns1", "se-c": "ns2", "se-d": "ns2"}
	seHost    = map[string]string{"se-a": "a.example.com", "se-b": "b.example.com", "se-c": "c.example.com", "se-d": "d.example.com"}
	seVip     = map[string]string{"se-a": "10.10.0.1", "se-b": "10.10.0.2", "se-c": "10.10.0.3", "se-d": "10.10.0.4"}
	allHosts  = []string{"a.example.com", "b.example.com", "c.example.com", "d.example.com", "shared.example.com", "m.ns1.svc.cluster.local"}
	drNames   = []string{"dr-1", "dr-2", "dr-3"}
	vsNames   = []string{"vs-1", "vs-2"}
	portSets  = [][]int{{80}, {80, 9090}, {8080}, {80, 443}, {80, 8080, 9090}, {9090}, {7070, 80}}
	egressSet = [][]string{{"./*"}, {"*/*"}, {"ns2/*"}, {"./a.example.com", "ns2/*"}, {"./*", "istio-system/*"}, {"*/c.example.com", "./b.example.com"}, {"~/*"}}
	memHost   = "m.ns1.svc.cluster.local"

	// wideGrammar: stream c03 draws from a wider grammar - PeerAuthentication and EnvoyFilter ops, a
	// ServiceEntry that selects the proxy itself (inbound clusters and listeners), DestinationRule hosts
	// biased towards existing services, subsets and host changes. The other streams keep theirs (not one
	// draw more or less), so their cases for a given seed do not move.
	wideGrammar  bool
	inboundSE    = "se-i"
	inboundHost  = "in.example.com"
	proxyIP      = "10.30.0.9"
	allHostsWide = append(append([]string{}, allHosts...), inboundHost)
	paNames      = []string{"pa-1", "pa-2", "pa-root"}
	paNs         = map[string]string{"pa-1": "ns1", "pa-2": "ns2", "pa-root": "istio-system"}
	efNames      = []string{"ef-1", "ef-2"}
)

func init() {
	seNs[inboundSE], seHost[inboundSE], seVip[inboundSE] = proxyNs, inboundHost, "10.10.0.9"
}

// withProxyEndpoint makes the inbound ServiceEntry select the proxy: one of its endpoints is the
// address both clients of a case connect from.
func withProxyEndpoint(o Op) Op {
	if o.K != "se" || o.N != inboundSE || o.Res != "STATIC" {
		return o
	}
	for _, e := range o.Eps {
		if ip, _ := splitEp(e); ip == proxyIP {
			return o
		}
	}
	o.Eps = append(append([]string{}, o.Eps...), proxyIP)
	return o
}

// existingHosts: the hostnames some ServiceEntry of the world defines (sorted).
func existingHosts(w *world) []string {
	seen := map[string]bool{}
	for _, k := range sortedKeys(w.Cfg) {
		if c := w.Cfg[k]; c.K == "se" {
			for _, h := range c.Hosts {
				seen[h] = true
			}
		}
	}
	return sortedKeys(seen)
}

// genDRWide: like genDR, but mostly for a host that exists and mostly with subsets; an update changes
// the host half of the time (the clusters of BOTH hosts have to follow).
func genDRWide(r *wire.Rng, w *world, name string, old *Op, clock *int) Op {
	o := genDR(r, name, clock)
	hosts := existingHosts(w)
	if len(hosts) > 0 && r.Chance(3, 4) {
		o.Host = wire.Pick(r, hosts)
	}
	if len(o.Subsets) == 0 && r.Chance(3, 4) {
		o.Subsets = wire.Pick(r, [][]string{{"v1"}, {"v1", "v2"}, {"v2"}})
	}
	if r.Chance(1, 3) {
		o.Loc = wire.Pick(r, []string{"distribute", "failover"})
	}
	if old != nil {
		o.Ns, o.T = old.Ns, old.T
		if r.Chance(1, 2) {
			o.Host = old.Host
		} else if o.Host == old.Host && len(hosts) > 1 {
			for _, h := range hosts {
				if h != old.Host {
					o.Host = h
					break
				}
			}
		}
		if len(old.Subsets) > 0 && r.Chance(1, 2) {
			o.Subsets = old.Subsets // the same subsets move to the other host
		}
	}
	return o
}

func genPA(r *wire.Rng, name string, clock *int) Op {
	*clock++
	return Op{K: "pa", N: name, Ns: paNs[name], T: *clock, Mode: wire.Pick(r, []string{"STRICT", "PERMISSIVE", "DISABLE", "DISABLE"})}
}

func genEF(r *wire.Rng, name string, clock *int) Op {
	*clock++
	return Op{K: "ef", N: name, Ns: wire.Pick(r, []string{proxyNs, proxyNs, "istio-system"}), T: *clock,
		Mode: wire.Pick(r, []string{"cluster", "merge", "ecds", "ecds", "ecdsf", "ecdsc"}), V: r.Intn(3)}
}

// genWideOp: the ops only the wide grammar has.
func genWideOp(r *wire.Rng, w *world, clock *int) Op {
	find := func(k, name string) *Op {
		for _, key := range sortedKeys(w.Cfg) {
			if c := w.Cfg[key]; c.K == k && c.N == name {
				cc := c
				return &cc
			}
		}
		return nil
	}
	switch x := r.Intn(10); {
	case x < 4: // PeerAuthentication
		name := wire.Pick(r, paNames)
		if old := find("pa", name); old != nil {
			if r.Chance(1, 3) {
				return Op{K: "del", Kind: "pa", N: name, Ns: old.Ns}
			}
			o := genPA(r, name, clock)
			o.T = old.T
			return o
		}
		return genPA(r, name, clock)
	case x < 7: // EnvoyFilter
		name := wire.Pick(r, efNames)
		if old := find("ef", name); old != nil {
			if r.Chance(1, 3) {
				return Op{K: "del", Kind: "ef", N: name, Ns: old.Ns}
			}
			o := genEF(r, name, clock)
			o.Ns, o.T = old.Ns, old.T
			if r.Chance(1, 2) {
				o.Mode = old.Mode // only the content changes
			}
			return o
		}
		return genEF(r, name, clock)
	default: // the ServiceEntry that selects the proxy
		key := "se/" + proxyNs + "/" + inboundSE
		if old, ok := w.Cfg[key]; ok {
			if r.Chance(1, 5) {
				return Op{K: "del", Kind: "se", N: inboundSE, Ns: old.Ns}
			}
			o := mutateSE(r, old)
			if r.Chance(1, 2) {
				o.Ports = wire.Pick(r, portSets) // inbound clusters come and go with the ports
			}
			return o
		}
		o := genSE(r, inboundSE, clock)
		o.Res, o.Exp = "STATIC", nil
		if len(o.Eps) == 0 {
			o.Eps = genEps(r, 8)
		}
		return o
	}
}

func genEps(r *wire.Rng, base int) []string {
	n := 1 + r.Intn(3)
	var out []string
	for i := 0; i < n; i++ {
		ip := fmt.Sprintf("10.20.%d.%d", base, 1+r.Intn(6))
		dup := false
		for _, e := range out {
			if x, _ := splitEp(e); x == ip {
				dup = true
			}
		}
		if dup {
			continue
		}
		e := ip
		switch r.Intn(3) {
		case 0:
			e = ip + "/v1"
		case 1:
			e = ip + "/v2"
		}
		if wideGrammar {
			// regions, so that the locality load balancing of a DestinationRule shows in the endpoints
			e += wire.Pick(r, []string{"", "@r1", "@r2", "@r2"})
		}
		out = append(out, e)
	}
	return out
}

func genSE(r *wire.Rng, name string, clock *int) Op {
	*clock++
	idx := int(name[len(name)-1] - 'a')
	o := Op{K: "se", N: name, Ns: seNs[name], T: *clock, Hosts: []string{seHost[name]}, Ports: wire.Pick(r, portSets)}
	if r.Chance(1, 4) {
		o.Hosts = append(o.Hosts, "shared.example.com")
	}
	switch r.Intn(6) {
	case 0:
		o.Res = "DNS"
	case 1:
		o.Res = "NONE"
	default:
		o.Res = "STATIC"
		o.Eps = genEps(r, idx)
	}
	if r.Chance(3, 4) && o.Res != "NONE" {
		o.Vip = seVip[name]
	}
	if o.Ns != proxyNs && r.Chance(1, 4) {
		o.Exp = []string{"."}
	} else if r.Chance(1, 8) {
		o.Exp = []string{"*"}
	}
	return o
}

func mutateSE(r *wire.Rng, old Op) Op {
	o := old
	idx := int(o.N[len(o.N)-1] - 'a')
	switch r.Intn(7) {
	case 0, 1: // endpoints only: an EDS-only update
		if o.Res == "STATIC" {
			o.Eps = genEps(r, idx)
			return o
		}
		o.Res = "STATIC"
		o.Eps = genEps(r, idx)
	case 2:
		o.Ports = wire.Pick(r, portSets)
	case 3:
		switch o.Res {
		case "STATIC":
			o.Res, o.Eps = "DNS", nil
		default:
			o.Res, o.Eps = "STATIC", genEps(r, idx)
		}
	case 4:
		if len(o.Hosts) > 1 {
			o.Hosts = o.Hosts[:1]
		} else {
			o.Hosts = append(append([]string{}, o.Hosts...), "shared.example.com")
		}
	case 5:
		if len(o.Exp) == 0 {
			o.Exp = []string{"."}
		} else {
			o.Exp = nil
		}
	default:
		o.Ports = wire.Pick(r, portSets)
		if o.Res == "STATIC" {
			o.Eps = genEps(r, idx)
		}
	}
	return o
}

func genDR(r *wire.Rng, name string, clock *int) Op {
	*clock++
	o := Op{K: "dr", N: name, Ns: wire.Pick(r, []string{"ns1", "ns1", "ns2", "istio-system"}), T: *clock, Host: wire.Pick(r, allHosts)}
	o.Subsets = wire.Pick(r, [][]string{nil, {"v1"}, {"v1", "v2"}, {"v2"}, {"v1", "v3"}})
	o.Lb = wire.Pick(r, []string{"", "RR", "LR", "RND"})
	o.Tls = wire.Pick(r, []string{"", "", "MUTUAL", "DISABLE", "SIMPLE"})
	if r.Chance(1, 6) {
		o.Exp = []string{"."}
	}
	return o
}

func genVS(r *wire.Rng, name string, clock *int) Op {
	*clock++
	h := wire.Pick(r, allHosts)
	o := Op{K: "vs", N: name, Ns: wire.Pick(r, []string{"ns1", "ns1", "ns2"}), T: *clock, Hosts: []string{h}}
	n := 1 + r.Intn(2)
	for i := 0; i < n; i++ {
		d := wire.Pick(r, allHosts)
		sub := wire.Pick(r, []string{"", "", "v1", "v2"})
		port := wire.Pick(r, []string{"", "80", "8080"})
		wt := ""
		if n == 2 {
			wt = "50"
		}
		o.Dst = append(o.Dst, d+"|"+sub+"|"+port+"|"+wt)
	}
	return o
}

func genSC(r *wire.Rng, clock *int) Op {
	*clock++
	return Op{K: "sc", N: "default", Ns: proxyNs, T: *clock, Egress: wire.Pick(r, egressSet)}
}

func genMem(r *wire.Rng, clock *int) Op {
	*clock++
	return Op{K: "msvc", N: memHost, Ns: proxyNs, T: *clock, Vip: "10.10.1.1", Ports: wire.Pick(r, [][]int{{80}, {80, 9090}, {8080}}), Eps: genEps(r, 9)}
}

// normSE keeps the grammar clear of a nondeterminism that belongs to another property (C17 / F9):
// the services of ONE multi-host ServiceEntry tie in SortServicesByCreationTime (same time, name,
// namespace) and their relative order is random per push context; whenever the two hosts compete
// for one thing (the VIP as a virtual-host domain, a 0.0.0.0 TCP listener) the winner differs
// between two clients of the same server. A multi-host entry therefore has no VIP and no plain TCP port.
func normSE(o Op) Op {
	if o.K != "se" || len(o.Hosts) < 2 {
		return o
	}
	o.Vip = ""
	var ports []int
	for _, p := range o.Ports {
		if portTable[p].Proto != "TCP" {
			ports = append(ports, p)
		}
	}
	if len(ports) == 0 {
		ports = []int{80}
	}
	o.Ports = ports
	return o
}

func sameOp(a, b Op) bool { return fmt.Sprintf("%+v", a) == fmt.Sprintf("%+v", b) }

// genOp draws one change against the current world: a real change (never a no-op).
func genOp(r *wire.Rng, w *world, clock *int) Op {
	for {
		var o Op
		x := 0
		if wideGrammar && r.Chance(1, 4) {
			x = 100
		} else {
			x = r.Intn(20)
		}
		switch {
		case x == 100:
			o = genWideOp(r, w, clock)
		case x < 8: // ServiceEntry
			name := wire.Pick(r, seNames)
			key := "se/" + seNs[name] + "/" + name
			if old, ok := w.Cfg[key]; ok {
				if r.Chance(1, 4) {
					o = Op{K: "del", Kind: "se", N: name, Ns: old.Ns}
				} else {
					o = mutateSE(r, old)
				}
			} else {
				o = genSE(r, name, clock)
			}
		case x < 12: // DestinationRule
			name := wire.Pick(r, drNames)
			var old *Op
			for _, k := range sortedKeys(w.Cfg) {
				if c := w.Cfg[k]; c.K == "dr" && c.N == name {
					cc := c
					old = &cc
				}
			}
			if old != nil {
				if r.Chance(1, 3) {
					o = Op{K: "del", Kind: "dr", N: name, Ns: old.Ns}
				} else if wideGrammar {
					o = genDRWide(r, w, name, old, clock)
				} else {
					o = genDR(r, name, clock)
					o.Ns, o.T = old.Ns, old.T
					if r.Chance(2, 3) {
						o.Host = old.Host
					}
				}
			} else if wideGrammar {
				o = genDRWide(r, w, name, nil, clock)
			} else {
				o = genDR(r, name, clock)
			}
		case x < 15: // VirtualService
			name := wire.Pick(r, vsNames)
			var old *Op
			for _, k := range sortedKeys(w.Cfg) {
				if c := w.Cfg[k]; c.K == "vs" && c.N == name {
					cc := c
					old = &cc
				}
			}
			if old != nil {
				if r.Chance(1, 3) {
					o = Op{K: "del", Kind: "vs", N: name, Ns: old.Ns}
				} else {
					o = genVS(r, name, clock)
					o.Ns, o.T = old.Ns, old.T
				}
			} else {
				o = genVS(r, name, clock)
			}
		case x < 17: // Sidecar
			if old, ok := w.Cfg["sc/"+proxyNs+"/default"]; ok {
				if r.Chance(1, 3) {
					o = Op{K: "del", Kind: "sc", N: "default", Ns: proxyNs}
				} else {
					o = genSC(r, clock)
					o.T = old.T
				}
			} else {
				o = genSC(r, clock)
			}
		default: // memory registry service and its endpoints
			if old, ok := w.Mem[memHost]; ok {
				switch r.Intn(5) {
				case 0:
					o = Op{K: "mdel", N: memHost, Ns: proxyNs}
				case 1:
					o = genMem(r, clock)
					o.T = old.T
				default:
					o = Op{K: "meps", N: memHost, Ns: proxyNs, Eps: genEps(r, 9)}
				}
			} else {
				o = genMem(r, clock)
			}
		}
		o = withProxyEndpoint(normSE(o))
		// reject no-ops
		switch o.K {
		case "se", "dr", "vs", "sc", "pa", "ef", "gw":
			if old, ok := w.Cfg[o.key()]; ok && sameOp(old, o) {
				continue
			}
		case "meps":
			if old := w.Mem[o.N]; strings.Join(old.Eps, ",") == strings.Join(o.Eps, ",") {
				continue
			}
		case "msvc":
			if old, ok := w.Mem[o.N]; ok && sameOp(old, o) {
				continue
			}
		}
		return o
	}
}

// genBase draws a starting world: services almost always exist since everything refers to them.
func genBase(r *wire.Rng, clock *int) []Op {
	var ops []Op
	for _, n := range seNames {
		if r.Chance(3, 5) {
			ops = append(ops, normSE(genSE(r, n, clock)))
		}
	}
	if r.Chance(1, 2) {
		ops = append(ops, genMem(r, clock))
	}
	for _, n := range drNames {
		if r.Chance(1, 3) {
			ops = append(ops, genDR(r, n, clock))
		}
	}
	for _, n := range vsNames {
		if r.Chance(1, 3) {
			ops = append(ops, genVS(r, n, clock))
		}
	}
	if r.Chance(1, 4) {
		ops = append(ops, genSC(r, clock))
	}
	if wideGrammar {
		w := newWorld(false)
		for _, o := range ops {
			w.note(o)
		}
		for i, o := range ops {
			if o.K == "dr" && r.Chance(3, 4) {
				t := o.T
				ops[i] = genDRWide(r, w, o.N, nil, clock)
				ops[i].T = t
			}
		}
		if r.Chance(1, 2) {
			o := genSE(r, inboundSE, clock)
			o.Res, o.Exp = "STATIC", nil
			if len(o.Eps) == 0 {
				o.Eps = genEps(r, 8)
			}
			ops = append(ops, withProxyEndpoint(normSE(o)))
		}
		if r.Chance(1, 4) {
			ops = append(ops, genPA(r, wire.Pick(r, paNames), clock))
		}
		if r.Chance(1, 4) {
			ops = append(ops, genEF(r, wire.Pick(r, efNames), clock))
		}
	}
	return ops
}
