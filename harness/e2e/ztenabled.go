package main

// ztEnabled: a quarter of the c03 / c05 cases are of the ztunnel (WDS) flavour.
const ztEnabled = true
