package main

// One FakeDiscoveryServer ("site") with the machinery every stream needs: a test.Failer for a
// non-test binary, robust quiescence detection and canonical hashing of xDS resources.

import (
	"crypto/sha1"
	"encoding/hex"
	"fmt"
	"os"
	"strings"
	"sync"
	"time"

	"google.golang.org/protobuf/encoding/protojson"
	"google.golang.org/protobuf/proto"

	"istio.io/istio/pilot/pkg/features"
	"istio.io/istio/pilot/pkg/xds"
	xdsfake "istio.io/istio/pilot/test/xds"
	"verifharness/internal/quiet"
)

// ---------------------------------------------------------------- test.Failer

type failer struct {
	mu       sync.Mutex
	cleanups []func()
}

type harnessFailure string

func (f *failer) Fail()                          { panic(harnessFailure("Fail")) }
func (f *failer) FailNow()                       { panic(harnessFailure("FailNow")) }
func (f *failer) Fatal(args ...any)              { panic(harnessFailure(fmt.Sprint(args...))) }
func (f *failer) Fatalf(format string, a ...any) { panic(harnessFailure(fmt.Sprintf(format, a...))) }
func (f *failer) Log(args ...any)                {}
func (f *failer) Logf(format string, a ...any)   {}
func (f *failer) TempDir() string                { d, _ := os.MkdirTemp("", "e2e"); return d }
func (f *failer) Helper()                        {}
func (f *failer) Skip(args ...any)               {}
func (f *failer) Cleanup(fn func()) {
	f.mu.Lock()
	defer f.mu.Unlock()
	f.cleanups = append(f.cleanups, fn)
}

func (f *failer) done() {
	f.mu.Lock()
	cs := f.cleanups
	f.cleanups = nil
	f.mu.Unlock()
	for i := len(cs) - 1; i >= 0; i-- {
		func() {
			defer func() { _ = recover() }()
			cs[i]()
		}()
	}
}

// ---------------------------------------------------------------- site

const (
	pollEvery  = 2 * time.Millisecond
	calmTime   = 30 * time.Millisecond // no activity anywhere for this long = quiescent
	settleTime = 20 * time.Second      // hard limit for reaching quiescence (then: harness-timeout)
	patience   = 3 * time.Second       // a difference must persist this long in a quiescent system
)

type site struct {
	f       *failer
	s       *xdsfake.FakeDiscoveryServer
	ambient bool
}

// activity is implemented by every client kind: quiescence needs to know whether a client still
// has requests the server has not read and when it last saw traffic.
type activity interface {
	pending() int64
	lastActivity() int64
	ready() bool
}

func newSite(w *world, debounce time.Duration) *site {
	f := &failer{}
	features.EnableAmbient = w.Ambient
	opts := xdsfake.FakeOptions{
		Configs:           w.configs(),
		Services:          w.memServices(),
		KubernetesObjects: w.kubeObjects(),
		DebounceTime:      debounce,
	}
	s := xdsfake.NewFakeDiscoveryServer(f, opts)
	quiet.Silence()
	st := &site{f: f, s: s, ambient: w.Ambient}
	w.applyMemEndpoints(st)
	if w.Ambient {
		ztAwaitIndex(st, w)
	}
	return st
}

func (st *site) close() { st.f.done() }

// idle: nothing is pending between a change and the connections (debouncer committed everything
// it was handed, push channel drained, push queue empty, no push in flight, every request read).
func (st *site) idle(cs []activity) bool {
	d := st.s.Discovery
	if d.InboundUpdates.Load() != d.CommittedUpdates.Load() {
		return false
	}
	if xds.VerifC01PushChannelLen(d) != 0 {
		return false
	}
	if p, q := xds.VerifC01QueueCounts(d); p != 0 || q != 0 {
		return false
	}
	for _, c := range d.AllClients() {
		if xds.VerifE2EDeltaReqChanLen(c) != 0 || len(c.PushCh()) != 0 {
			return false
		}
	}
	for _, c := range cs {
		if c.pending() != 0 {
			return false
		}
	}
	return true
}

// quiesce waits until the site has been idle, with no client activity and every client through
// its initial exchange, for calmTime in consecutive polls. false = gave up after settleTime.
func (st *site) quiesce(cs ...activity) bool {
	return st.quiesceFor(calmTime, cs...)
}

// quiesceLoose does not insist on the initial exchange being complete: after a reconnect "the
// first request was never answered" is a verdict, not a reason to wait.
func (st *site) quiesceLoose(cs ...activity) bool {
	loose := make([]activity, len(cs))
	for i, c := range cs {
		loose[i] = looseActivity{c}
	}
	return st.quiesceFor(4*calmTime, loose...)
}

type looseActivity struct{ activity }

func (looseActivity) ready() bool { return true }

func (st *site) quiesceFor(calm time.Duration, cs ...activity) bool {
	deadline := time.Now().Add(settleTime)
	var since time.Time
	lastInbound := st.s.Discovery.InboundUpdates.Load()
	for time.Now().Before(deadline) {
		now := time.Now()
		ok := st.idle(cs)
		if in := st.s.Discovery.InboundUpdates.Load(); in != lastInbound {
			lastInbound = in
			ok = false
		}
		if ok {
			for _, c := range cs {
				if !c.ready() || now.UnixNano()-c.lastActivity() < int64(calm) {
					ok = false
					break
				}
			}
		}
		if ok {
			if since.IsZero() {
				since = now
			}
			if now.Sub(since) >= calm {
				return true
			}
		} else {
			since = time.Time{}
		}
		time.Sleep(pollEvery)
	}
	return false
}

// awaitInbound waits (bounded) until the server has been handed at least one update more than
// `before`: config store and kube events are delivered asynchronously, so right after a change
// everything still looks idle. Not reaching it is not an error (the change may be invisible).
func (st *site) awaitInbound(before int64, limit time.Duration) {
	deadline := time.Now().Add(limit)
	for time.Now().Before(deadline) {
		if st.s.Discovery.InboundUpdates.Load() > before {
			return
		}
		time.Sleep(pollEvery)
	}
}

// ---------------------------------------------------------------- canonical resources

func canonMsg(m proto.Message) string {
	b, err := protojson.MarshalOptions{Multiline: false}.Marshal(m)
	if err != nil {
		// a nested Any of an unregistered type: fall back to deterministic binary
		bb, _ := proto.MarshalOptions{Deterministic: true}.Marshal(m)
		return "bin:" + hex.EncodeToString(bb)
	}
	// protojson deliberately randomises whitespace; strip it outside strings
	return stripSpace(string(b))
}

func stripSpace(s string) string {
	var b strings.Builder
	in, esc := false, false
	for i := 0; i < len(s); i++ {
		ch := s[i]
		if in {
			b.WriteByte(ch)
			if esc {
				esc = false
			} else if ch == '\\' {
				esc = true
			} else if ch == '"' {
				in = false
			}
			continue
		}
		if ch == ' ' || ch == '\n' || ch == '\t' {
			continue
		}
		if ch == '"' {
			in = true
		}
		b.WriteByte(ch)
	}
	return b.String()
}

func hashOf(s string) string { h := sha1.Sum([]byte(s)); return hex.EncodeToString(h[:8]) }

// firstDifference renders where two canonical texts start to differ (for FAIL lines).
func firstDifference(a, b string) string {
	i := 0
	for i < len(a) && i < len(b) && a[i] == b[i] {
		i++
	}
	lo := i - 60
	if lo < 0 {
		lo = 0
	}
	cut := func(s string) string {
		hi := i + 100
		if hi > len(s) {
			hi = len(s)
		}
		if lo > len(s) {
			return ""
		}
		return s[lo:hi]
	}
	return fmt.Sprintf("a=..%s.. b=..%s..", cut(a), cut(b))
}
