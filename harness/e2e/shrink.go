package main

// `e2e shrink <stream> <replay-json-file> [out-file]`: minimise a failing history by dropping
// steps, ops, base objects and (c05) away / trigger ops while the case still fails with the same
// clause; prints the FAIL line of the minimal history. Not part of the contract used by the
// checks; used to prepare the witnesses recorded in notes/E2E.md.

import (
	"encoding/json"
	"fmt"
	"os"
)

func cloneHistory(h *History) *History {
	b, _ := json.Marshal(h)
	n := &History{}
	_ = json.Unmarshal(b, n)
	return n
}

func failsWith(h *History, clause string, tries int) (result, bool) {
	var last result
	for i := 0; i < tries; i++ {
		last = execute(cloneHistory(h), newStats())
		if last.OK || last.Clause != clause {
			return last, false
		}
	}
	return last, true
}

func shrink(h *History, clause string) (*History, result) {
	best := cloneHistory(h)
	bestRes, _ := failsWith(best, clause, 1)
	try := func(c *History) bool {
		if r, ok := failsWith(c, clause, 2); ok {
			best, bestRes = c, r
			fmt.Fprintf(os.Stderr, "shrink: base=%d steps=%d ops=%s\n", len(c.Base), len(c.Steps), opsShort(c.Steps))
			return true
		}
		return false
	}
	for changed := true; changed; {
		changed = false
		// whole steps, last first
		for i := len(best.Steps) - 1; i >= 0; i-- {
			c := cloneHistory(best)
			c.Steps = append(c.Steps[:i], c.Steps[i+1:]...)
			if try(c) {
				changed = true
			}
		}
		// single ops of multi-op steps
		for i := len(best.Steps) - 1; i >= 0; i-- {
			for j := len(best.Steps[i]) - 1; j >= 0 && len(best.Steps[i]) > 1; j-- {
				c := cloneHistory(best)
				c.Steps[i] = append(c.Steps[i][:j], c.Steps[i][j+1:]...)
				if try(c) {
					changed = true
				}
			}
		}
		if best.Cut != nil {
			for i := len(best.Cut.Away) - 1; i >= 0; i-- {
				c := cloneHistory(best)
				c.Cut.Away = append(c.Cut.Away[:i], c.Cut.Away[i+1:]...)
				if try(c) {
					changed = true
				}
			}
			for i := len(best.Cut.Trigger) - 1; i >= 0 && len(best.Cut.Trigger) > 1; i-- {
				c := cloneHistory(best)
				c.Cut.Trigger = append(c.Cut.Trigger[:i], c.Cut.Trigger[i+1:]...)
				if try(c) {
					changed = true
				}
			}
		}
		for i := len(best.Base) - 1; i >= 0; i-- {
			c := cloneHistory(best)
			c.Base = append(c.Base[:i], c.Base[i+1:]...)
			if try(c) {
				changed = true
			}
		}
		if best.Debounce != 0 {
			c := cloneHistory(best)
			c.Debounce = 0
			if try(c) {
				changed = true
			}
		}
	}
	return best, bestRes
}
