// Harness for C15: drives the REAL Kubernetes service registry controller
// (pilot/pkg/serviceregistry/kube/controller) on a kube.NewFakeClient, one informer-visible
// object write per line, and prints the controller's caches and its EndpointIndex shard.
//
//	c15 gen    <stream> <seed> <ncases> <ops-out>
//	c15 exec   <stream> <ops-in> <impl-out>
//	c15 oracle <stream> <ops-in> <verdict-out>
//
// Stream `order`: one case = one object history in one interleaving of the per-type streams.
// Every write is made while the controller's event queue is blocked (a task parked on the
// queue through the verif hook), the harness waits until the informer has enqueued the event
// (pending-task count, no sleeps), then unblocks and drains the queue including replays queued
// by the handlers.  `hold` ... `release` keeps the queue blocked over several writes, so that the
// informer stores run ahead of the handlers.  The last line `cold <type order>` starts a second
// controller whose stores hold the final objects before the first handler runs (the situation
// of a cold start, with the Add events in the given type order) and prints the property view of
// both controllers.  The Lean driver (lean/IstioModel/C15/Driver.lean) consumes the same ops.
package main

import (
	"context"
	"fmt"
	"os"
	"runtime"
	"sort"
	"strconv"
	"strings"
	"sync"
	"sync/atomic"
	"time"

	corev1 "k8s.io/api/core/v1"
	discoveryv1 "k8s.io/api/discovery/v1"
	metav1 "k8s.io/apimachinery/pkg/apis/meta/v1"
	kruntime "k8s.io/apimachinery/pkg/runtime"
	"k8s.io/apimachinery/pkg/util/intstr"
	"k8s.io/apimachinery/pkg/watch"
	kubefake "k8s.io/client-go/kubernetes/fake"
	clienttesting "k8s.io/client-go/testing"

	"istio.io/istio/pilot/pkg/model"
	"istio.io/istio/pilot/pkg/serviceregistry/kube/controller"
	kubelib "istio.io/istio/pkg/kube"
	"verifharness/internal/quiet"
	"verifharness/internal/wire"
)

func main() {
	if len(os.Args) < 2 {
		fmt.Fprintln(os.Stderr, "usage: c15 gen|exec|oracle ...")
		os.Exit(2)
	}
	quiet.Silence()
	switch os.Args[1] {
	case "gen":
		seed, _ := strconv.ParseUint(os.Args[3], 10, 64)
		n, _ := strconv.Atoi(os.Args[4])
		gen(os.Args[2], seed, n, os.Args[5])
	case "exec":
		execOps(os.Args[2], os.Args[3], os.Args[4])
	case "oracle":
		oracle(os.Args[2], os.Args[3], os.Args[4])
	case "barrier":
		barrier(os.Args[4])
	default:
		os.Exit(2)
	}
}

// ---------------------------------------------------------------- test.Failer outside `go test`

type failer struct {
	mu       sync.Mutex
	cleanups []func()
	failed   string
}

type failNow struct{ msg string }

func (f *failer) Fail()                        { f.failed = "fail" }
func (f *failer) FailNow()                     { panic(failNow{"failnow"}) }
func (f *failer) Fatal(a ...any)               { panic(failNow{fmt.Sprint(a...)}) }
func (f *failer) Fatalf(s string, a ...any)    { panic(failNow{fmt.Sprintf(s, a...)}) }
func (f *failer) Log(a ...any)                 {}
func (f *failer) Logf(s string, a ...any)      {}
func (f *failer) TempDir() string              { return os.TempDir() }
func (f *failer) Helper()                      {}
func (f *failer) Skip(a ...any)                {}
func (f *failer) Cleanup(c func())             { f.mu.Lock(); f.cleanups = append(f.cleanups, c); f.mu.Unlock() }
func (f *failer) done() {
	f.mu.Lock()
	cs := f.cleanups
	f.cleanups = nil
	f.mu.Unlock()
	for i := len(cs) - 1; i >= 0; i-- {
		func() {
			defer func() { _ = recover() }()
			cs[i]()
		}()
	}
}

// ---------------------------------------------------------------- one controller

const waitLimit = 30 * time.Second

type world struct {
	t       *failer
	fc      *controller.FakeController
	client  kubelib.Client
	index   *model.EndpointIndex
	held    bool
	gate    chan struct{}
	rv      int
	present map[string]bool // "kind/ns/name" written and not deleted (API server view)
	visible map[string]bool // pods the pod informer knows (its field selector hides Failed pods)
}

func newWorld(objs ...kruntime.Object) *world {
	w := &world{t: &failer{}, present: map[string]bool{}, visible: map[string]bool{}}
	w.client = kubelib.NewFakeClient(objs...)
	podWatch := installPodFieldSelector(w.client.Kube().(*kubefake.Clientset))
	w.index = model.NewEndpointIndex(model.DisabledCache{})
	fc, _ := controller.NewFakeControllerWithOptions(w.t, controller.FakeControllerOptions{
		Client:     w.client,
		XDSUpdater: model.NewEndpointIndexUpdater(w.index),
	})
	w.fc = fc
	quiet.Silence()
	spinUntil("pod watch", podWatch)
	w.drain()
	return w
}

func (w *world) close() { w.t.done() }

func spinUntil(what string, cond func() bool) {
	deadline := time.Now().Add(waitLimit)
	for i := 0; !cond(); i++ {
		if i < 200 {
			runtime.Gosched()
		} else {
			time.Sleep(20 * time.Microsecond)
		}
		if i%1024 == 1023 && time.Now().After(deadline) {
			panic(failNow{"timeout waiting for " + what})
		}
	}
}

// hold parks a task on the controller's queue; the worker stays inside it until release.
func (w *world) hold() {
	if w.held {
		return
	}
	started := make(chan struct{})
	gate := make(chan struct{})
	controller.VerifC15Push(w.fc.Controller, func() {
		close(started)
		<-gate
	})
	<-started
	w.gate = gate
	w.held = true
}

// drain waits until the controller's queue is idle.  No event source is active while it runs (every
// write waited for its informer event), so the only new tasks are the ones pushed by running
// handlers: an event handler may push replays (podArrived), a replay pushes nothing - chains have
// length <= 2.  A barrier task that completes proves that everything queued before it has run; a
// task still running or waiting after a barrier was pushed by a task that ran after the previous
// barrier was queued.  Three consecutive barriers that each find nothing waiting therefore prove
// idleness (one more than the longest chain).
func (w *world) drain() {
	clean := 0
	for clean < 3 {
		done := make(chan struct{})
		controller.VerifC15Push(w.fc.Controller, func() { close(done) })
		select {
		case <-done:
		case <-time.After(waitLimit):
			panic(failNow{"timeout draining the queue"})
		}
		if controller.VerifC15Pending(w.fc.Controller) == 0 {
			clean++
		} else {
			clean = 0
		}
	}
}

func (w *world) release() {
	if !w.held {
		return
	}
	close(w.gate)
	w.held = false
	w.drain()
}

// write performs one client write with the queue blocked and waits for the informer to enqueue
// exactly one task for it.
func (w *world) write(do func() error, events int) error {
	wasHeld := w.held
	w.hold()
	before := controller.VerifC15Pending(w.fc.Controller)
	if err := do(); err != nil {
		if !wasHeld {
			w.release()
		}
		return err
	}
	spinUntil("informer event", func() bool { return controller.VerifC15Pending(w.fc.Controller) >= before+events })
	if !wasHeld {
		w.release()
	}
	return nil
}

// ---------------------------------------------------------------- the pod informer's field selector

// The controller's pod informer lists and watches with the field selector `status.phase!=Failed`.
// client-go's fake object tracker ignores field selectors, so the API server's behaviour is supplied
// here: Failed pods are left out of the list, and a watched pod that turns Failed is delivered as a
// DELETED event carrying the new (Failed) object - the production path for evicted pods.
const failedSelector = "status.phase!=Failed"

func podMatches(o kruntime.Object) bool {
	p, ok := o.(*corev1.Pod)
	return ok && p.Status.Phase != corev1.PodFailed
}

type selWatch struct {
	src  watch.Interface
	out  chan watch.Event
	stop chan struct{}
	once sync.Once
}

func (s *selWatch) ResultChan() <-chan watch.Event { return s.out }
func (s *selWatch) Stop()                          { s.once.Do(func() { close(s.stop); s.src.Stop() }) }

func newSelWatch(src watch.Interface) *selWatch {
	s := &selWatch{src: src, out: make(chan watch.Event, 100), stop: make(chan struct{})}
	go func() {
		defer close(s.out)
		gone := map[string]bool{} // keys whose last delivered state did not match the selector
		for ev := range src.ResultChan() {
			p, ok := ev.Object.(*corev1.Pod)
			if !ok {
				continue
			}
			key := p.Namespace + "/" + p.Name
			var send *watch.Event
			switch ev.Type {
			case watch.Added, watch.Modified:
				if podMatches(p) {
					t := ev.Type
					if gone[key] {
						t = watch.Added
					}
					delete(gone, key)
					send = &watch.Event{Type: t, Object: ev.Object}
				} else {
					if !gone[key] && ev.Type == watch.Modified {
						send = &watch.Event{Type: watch.Deleted, Object: ev.Object}
					}
					gone[key] = true
				}
			case watch.Deleted:
				if !gone[key] {
					send = &ev
				}
				delete(gone, key)
			default:
				send = &ev
			}
			if send != nil {
				select {
				case s.out <- *send:
				case <-s.stop:
					return
				}
			}
		}
	}()
	return s
}

// installPodFieldSelector returns a function that reports whether the filtered pod watch is established (a write
// made before that would be lost between the informer's list and its watch).
func installPodFieldSelector(cs *kubefake.Clientset) func() bool {
	var watching atomic.Bool
	gvr := corev1.SchemeGroupVersion.WithResource("pods")
	gvk := corev1.SchemeGroupVersion.WithKind("Pod")
	tracker := cs.Tracker()
	cs.PrependReactor("list", "pods", func(a clienttesting.Action) (bool, kruntime.Object, error) {
		la, ok := a.(clienttesting.ListAction)
		if !ok || la.GetListRestrictions().Fields == nil || la.GetListRestrictions().Fields.String() != failedSelector {
			return false, nil, nil
		}
		obj, err := tracker.List(gvr, gvk, a.GetNamespace())
		if err != nil {
			return true, nil, err
		}
		l := obj.(*corev1.PodList)
		out := &corev1.PodList{ListMeta: l.ListMeta}
		for i := range l.Items {
			if podMatches(&l.Items[i]) {
				out.Items = append(out.Items, l.Items[i])
			}
		}
		return true, out, nil
	})
	cs.PrependWatchReactor("pods", func(a clienttesting.Action) (bool, watch.Interface, error) {
		wa, ok := a.(clienttesting.WatchAction)
		if !ok || wa.GetWatchRestrictions().Fields == nil || wa.GetWatchRestrictions().Fields.String() != failedSelector {
			return false, nil, nil
		}
		w, err := tracker.Watch(gvr, a.GetNamespace())
		if err != nil {
			return true, nil, err
		}
		watching.Store(true)
		return true, newSelWatch(w), nil
	})
	return watching.Load
}

func (w *world) nextRV() string { w.rv++; return strconv.Itoa(w.rv) }

// ---------------------------------------------------------------- op lines -> objects

func kv(tok string) map[string]string {
	l := wire.DecList(tok)
	if len(l) == 0 {
		return nil
	}
	m := map[string]string{}
	for _, e := range l {
		k, v, _ := strings.Cut(e, "=")
		m[k] = v
	}
	return m
}

func namePort(tok string) (names []string, ports []int32) {
	for _, e := range wire.DecList(tok) {
		n, p, _ := strings.Cut(e, ":")
		x, _ := strconv.Atoi(p)
		names = append(names, n)
		ports = append(ports, int32(x))
	}
	return names, ports
}

func has(l []string, s string) bool {
	for _, x := range l {
		if x == s {
			return true
		}
	}
	return false
}

// svc <ns> <name> <kind> <ports> <selector> <flags>
func mkService(f []string) *corev1.Service {
	ns, name, kind := wire.Dec(f[1]), wire.Dec(f[2]), f[3]
	s := &corev1.Service{ObjectMeta: metav1.ObjectMeta{Name: name, Namespace: ns}}
	names, ports := namePort(f[4])
	for i := range names {
		s.Spec.Ports = append(s.Spec.Ports, corev1.ServicePort{Name: names[i], Port: ports[i], Protocol: corev1.ProtocolTCP,
			TargetPort: intstr.FromInt32(ports[i] + 8000)})
	}
	s.Spec.Selector = kv(f[5])
	switch kind {
	case "cip":
		s.Spec.Type = corev1.ServiceTypeClusterIP
		s.Spec.ClusterIP = "10.96.0." + strconv.Itoa(1+int(name[0])%200)
		s.Spec.ClusterIPs = []string{s.Spec.ClusterIP}
	case "hl":
		s.Spec.Type = corev1.ServiceTypeClusterIP
		s.Spec.ClusterIP = corev1.ClusterIPNone
	case "ext":
		s.Spec.Type = corev1.ServiceTypeExternalName
		s.Spec.ExternalName = "ext.example.com"
	case "lb":
		// a LoadBalancer with an assigned ingress IP: ConvertService ClusterExternalAddresses
		s.Spec.Type = corev1.ServiceTypeLoadBalancer
		s.Spec.ClusterIP = "10.96.0." + strconv.Itoa(1+int(name[0])%200)
		s.Spec.ClusterIPs = []string{s.Spec.ClusterIP}
		s.Status.LoadBalancer.Ingress = []corev1.LoadBalancerIngress{{IP: "1.2.3.4"}}
	}
	flags := wire.DecList(f[6])
	if has(flags, "drain") {
		s.Labels = map[string]string{"istio.io/persistent-session": "c"}
	}
	ann := map[string]string{}
	if has(flags, "td") {
		ann["networking.istio.io/traffic-distribution"] = "PreferClose"
	}
	if has(flags, "x") {
		// exported to nobody: endpointslice.go serviceNeedsPush
		ann["networking.istio.io/exportTo"] = "~"
	}
	if has(flags, "std") {
		// spec.trafficDistribution (highest priority in GetTrafficDistribution)
		v := corev1.ServiceTrafficDistributionPreferClose
		s.Spec.TrafficDistribution = &v
	}
	if has(flags, "eip") {
		s.Spec.ExternalIPs = []string{"5.6.7.8"}
	}
	if has(flags, "nl") {
		v := corev1.ServiceInternalTrafficPolicyLocal
		s.Spec.InternalTrafficPolicy = &v
	}
	if has(flags, "csa") {
		ann["alpha.istio.io/canonical-serviceaccounts"] = "spiffe://cluster.local/ns/x/sa/canon"
	}
	if has(flags, "sa") {
		// ConvertService: Service.ServiceAccounts from the annotation
		ann["alpha.istio.io/kubernetes-serviceaccounts"] = "acct1,acct2"
	}
	if len(ann) > 0 {
		s.Annotations = ann
	}
	return s
}

func cond(c byte) *bool {
	switch c {
	case 't':
		b := true
		return &b
	case 'f':
		b := false
		return &b
	}
	return nil
}

// slice <ns> <name> <svc> <addrtype> <ports> <eps>    ep = addr+addr/r/s/t/targetNs:targetName|!targetNs:targetName|-
// svc "M:<name>": the slice also carries the MCS service-name label (the controller ignores such slices);
// port name "nil" / port 0: nil pointers; target "!ns:name": a targetRef whose Kind is not Pod.
func mkSlice(f []string) *discoveryv1.EndpointSlice {
	ns, name, svc := wire.Dec(f[1]), wire.Dec(f[2]), wire.Dec(f[3])
	s := &discoveryv1.EndpointSlice{ObjectMeta: metav1.ObjectMeta{Name: name, Namespace: ns}}
	if strings.HasPrefix(svc, "M:") {
		svc = svc[2:]
		s.Labels = map[string]string{discoveryv1.LabelServiceName: svc, "multicluster.kubernetes.io/service-name": svc}
	} else if svc != "" {
		s.Labels = map[string]string{discoveryv1.LabelServiceName: svc}
	}
	s.AddressType = discoveryv1.AddressTypeIPv4
	if f[4] == "fqdn" {
		s.AddressType = discoveryv1.AddressTypeFQDN
	}
	names, ports := namePort(f[5])
	for i := range names {
		n, p, pr := names[i], ports[i], corev1.ProtocolTCP
		ep := discoveryv1.EndpointPort{Name: &n, Port: &p, Protocol: &pr}
		if n == "nil" {
			ep.Name = nil
		}
		if p == 0 {
			ep.Port = nil
		}
		s.Ports = append(s.Ports, ep)
	}
	for _, e := range wire.DecList(f[6]) {
		p := strings.Split(e, "/")
		if len(p) != 5 {
			continue
		}
		ep := discoveryv1.Endpoint{Addresses: strings.Split(p[0], "+")}
		ep.Conditions = discoveryv1.EndpointConditions{Ready: cond(p[1][0]), Serving: cond(p[2][0]), Terminating: cond(p[3][0])}
		if strings.HasPrefix(p[4], "!") {
			tns, tn, _ := strings.Cut(p[4][1:], ":")
			ep.TargetRef = &corev1.ObjectReference{Kind: "Node", Namespace: tns, Name: tn}
		} else if p[4] != "-" {
			tns, tn, _ := strings.Cut(p[4], ":")
			ep.TargetRef = &corev1.ObjectReference{Kind: "Pod", Namespace: tns, Name: tn}
		}
		s.Endpoints = append(s.Endpoints, ep)
	}
	return s
}

var epoch = metav1.NewTime(time.Unix(1700000000, 0))

// pod <ns> <name> <ip> <phase> <ready> <deleting> <labels> <sa> <node>
func mkPod(f []string) *corev1.Pod {
	ns, name, ip := wire.Dec(f[1]), wire.Dec(f[2]), wire.Dec(f[3])
	p := &corev1.Pod{ObjectMeta: metav1.ObjectMeta{Name: name, Namespace: ns, Labels: kv(f[7])}}
	// pseudo labels carry pod fields that are not labels: @owner (controller ownerReference), @host / @sub (spec.hostname /
	// spec.subdomain)
	for k, v := range p.Labels {
		if !strings.HasPrefix(k, "@") {
			continue
		}
		delete(p.Labels, k)
		switch k {
		case "@owner":
			yes := true
			p.GenerateName = name + "-"
			p.OwnerReferences = []metav1.OwnerReference{{APIVersion: "apps/v1", Kind: "StatefulSet", Name: v, Controller: &yes}}
		case "@amb":
			// the one annotation labelFilter looks at
			p.Annotations = map[string]string{"ambient.istio.io/redirection": v}
		case "@host":
			p.Spec.Hostname = v
		case "@sub":
			p.Spec.Subdomain = v
		}
	}
	if len(p.Labels) == 0 {
		p.Labels = nil
	}
	p.Spec.ServiceAccountName = wire.Dec(f[8])
	p.Spec.NodeName = wire.Dec(f[9])
	switch f[4] {
	case "P":
		p.Status.Phase = corev1.PodPending
	case "R":
		p.Status.Phase = corev1.PodRunning
	case "S":
		p.Status.Phase = corev1.PodSucceeded
	case "F":
		p.Status.Phase = corev1.PodFailed
	}
	if ip != "" {
		p.Status.PodIP = ip
		p.Status.PodIPs = []corev1.PodIP{{IP: ip}}
	}
	st := corev1.ConditionFalse
	if f[5] == "1" {
		st = corev1.ConditionTrue
	}
	p.Status.Conditions = []corev1.PodCondition{{Type: corev1.PodReady, Status: st}}
	if f[6] == "1" {
		t := epoch
		p.DeletionTimestamp = &t
		p.Finalizers = []string{"verif/hold"}
	}
	return p
}

// node <name> <region> <zone>
func mkNode(f []string) *corev1.Node {
	n := &corev1.Node{ObjectMeta: metav1.ObjectMeta{Name: wire.Dec(f[1])}}
	// region "L:<r>" / zone "L:<z>": the legacy failure-domain labels; zone "<z>/<subzone>": topology.istio.io/subzone
	l := map[string]string{}
	if r := wire.Dec(f[2]); r != "" {
		if strings.HasPrefix(r, "L:") {
			l[corev1.LabelFailureDomainBetaRegion] = r[2:]
		} else {
			l[corev1.LabelTopologyRegion] = r
		}
	}
	if z := wire.Dec(f[3]); z != "" {
		z, sub, _ := strings.Cut(z, "/")
		if sub != "" {
			l["topology.istio.io/subzone"] = sub
		}
		if strings.HasPrefix(z, "L:") {
			l[corev1.LabelFailureDomainBetaZone] = z[2:]
		} else if z != "" {
			l[corev1.LabelTopologyZone] = z
		}
	}
	if len(l) > 0 {
		n.Labels = l
	}
	return n
}

// ns <name> <traffic distribution: close|~>
func mkNamespace(f []string) *corev1.Namespace {
	n := &corev1.Namespace{ObjectMeta: metav1.ObjectMeta{Name: wire.Dec(f[1])}}
	if f[2] == "close" {
		n.Annotations = map[string]string{"networking.istio.io/traffic-distribution": "PreferClose"}
	}
	return n
}

var arity = map[string]int{"svc": 7, "delsvc": 3, "slice": 7, "delslice": 3, "pod": 10, "delpod": 3, "node": 4, "delnode": 2,
	"ns": 3, "delns": 2}

func objKey(f []string) string {
	switch f[0] {
	case "svc", "delsvc":
		return "svc/" + f[1] + "/" + f[2]
	case "slice", "delslice":
		return "slice/" + f[1] + "/" + f[2]
	case "pod", "delpod":
		return "pod/" + f[1] + "/" + f[2]
	case "node", "delnode":
		return "node/" + f[1]
	case "ns", "delns":
		return "ns/" + f[1]
	}
	return ""
}

// apply performs one object op on the fake client of w. Returns false for a malformed or
// inapplicable op (nothing written).
func (w *world) apply(f []string) bool {
	if arity[f[0]] != len(f) {
		return false
	}
	key := objKey(f)
	exists := w.present[key]
	ctx := context.Background()
	k := w.client.Kube()
	var do func() error
	events := 1
	switch f[0] {
	case "ns":
		o := mkNamespace(f)
		o.ResourceVersion = w.nextRV()
		if exists {
			do = func() error { _, e := k.CoreV1().Namespaces().Update(ctx, o, metav1.UpdateOptions{}); return e }
		} else {
			do = func() error { _, e := k.CoreV1().Namespaces().Create(ctx, o, metav1.CreateOptions{}); return e }
		}
	case "svc":
		o := mkService(f)
		o.ResourceVersion = w.nextRV()
		if exists {
			do = func() error { _, e := k.CoreV1().Services(o.Namespace).Update(ctx, o, metav1.UpdateOptions{}); return e }
		} else {
			do = func() error { _, e := k.CoreV1().Services(o.Namespace).Create(ctx, o, metav1.CreateOptions{}); return e }
		}
	case "slice":
		o := mkSlice(f)
		o.ResourceVersion = w.nextRV()
		if exists {
			do = func() error {
				_, e := k.DiscoveryV1().EndpointSlices(o.Namespace).Update(ctx, o, metav1.UpdateOptions{})
				return e
			}
		} else {
			do = func() error {
				_, e := k.DiscoveryV1().EndpointSlices(o.Namespace).Create(ctx, o, metav1.CreateOptions{})
				return e
			}
		}
	case "pod":
		o := mkPod(f)
		o.ResourceVersion = w.nextRV()
		if exists {
			do = func() error { _, e := k.CoreV1().Pods(o.Namespace).Update(ctx, o, metav1.UpdateOptions{}); return e }
		} else {
			do = func() error { _, e := k.CoreV1().Pods(o.Namespace).Create(ctx, o, metav1.CreateOptions{}); return e }
		}
		// the informer hides Failed pods: no event unless a known pod turns Failed (DELETE with the new object)
		if o.Status.Phase == corev1.PodFailed && !w.visible[key] {
			events = 0
		}
	case "node":
		o := mkNode(f)
		o.ResourceVersion = w.nextRV()
		if exists {
			do = func() error { _, e := k.CoreV1().Nodes().Update(ctx, o, metav1.UpdateOptions{}); return e }
		} else {
			do = func() error { _, e := k.CoreV1().Nodes().Create(ctx, o, metav1.CreateOptions{}); return e }
		}
	case "delsvc", "delslice", "delpod", "delnode", "delns":
		if !exists {
			return false
		}
		ns, name := "", wire.Dec(f[1])
		if f[0] != "delnode" && f[0] != "delns" {
			ns, name = wire.Dec(f[1]), wire.Dec(f[2])
		}
		if f[0] == "delpod" && !w.visible[key] {
			events = 0
		}
		switch f[0] {
		case "delns":
			do = func() error { return k.CoreV1().Namespaces().Delete(ctx, name, metav1.DeleteOptions{}) }
		case "delsvc":
			do = func() error { return k.CoreV1().Services(ns).Delete(ctx, name, metav1.DeleteOptions{}) }
		case "delslice":
			do = func() error { return k.DiscoveryV1().EndpointSlices(ns).Delete(ctx, name, metav1.DeleteOptions{}) }
		case "delpod":
			do = func() error { return k.CoreV1().Pods(ns).Delete(ctx, name, metav1.DeleteOptions{}) }
		case "delnode":
			do = func() error { return k.CoreV1().Nodes().Delete(ctx, name, metav1.DeleteOptions{}) }
		}
	default:
		return false
	}
	if err := w.write(do, events); err != nil {
		panic(failNow{"client write failed: " + err.Error()})
	}
	if strings.HasPrefix(f[0], "del") {
		delete(w.present, key)
		delete(w.visible, key)
	} else {
		w.present[key] = true
		if f[0] == "pod" {
			w.visible[key] = f[4] != "F"
		}
	}
	return true
}

// ---------------------------------------------------------------- canonical state

func sortedKeys[V any](m map[string]V) []string {
	ks := make([]string, 0, len(m))
	for k := range m {
		ks = append(ks, k)
	}
	sort.Strings(ks)
	return ks
}

func showMap(m map[string]string) string {
	parts := make([]string, 0, len(m))
	for _, k := range sortedKeys(m) {
		parts = append(parts, k+"="+m[k])
	}
	return strings.Join(parts, "&")
}

func healthTok(h model.HealthStatus) string {
	switch h {
	case model.Healthy:
		return "H"
	case model.UnHealthy:
		return "U"
	case model.Draining:
		return "D"
	case model.Terminating:
		return "T"
	}
	return "?" + strconv.Itoa(int(h))
}

func showEndpoint(e *model.IstioEndpoint) string {
	if e == nil {
		return "nil"
	}
	return strings.Join(e.Addresses, "+") + ":" + strconv.Itoa(int(e.EndpointPort)) + "|" + e.ServicePortName + "|" +
		healthTok(e.HealthStatus) + "|" + wire.B(e.SendUnhealthyEndpoints) + "|" + e.ServiceAccount + "|" + e.Namespace + "|" +
		e.NodeName + "|" + e.TLSMode + "|" + e.Locality.Label + "|" + e.WorkloadName + "|" + string(e.Network) + "|" + e.HostName + "|" +
		e.SubDomain + "|" + showMap(e.Labels)
}

func showEndpoints(eps []*model.IstioEndpoint) string {
	l := make([]string, 0, len(eps))
	for _, e := range eps {
		l = append(l, showEndpoint(e))
	}
	// the LIST as the controller holds it (no sorting): endpointSliceCache.get walks the slices in name order
	return "[" + strings.Join(l, ",") + "]"
}

func showEndpointSet(eps []*model.IstioEndpoint) string {
	l := make([]string, 0, len(eps))
	for _, e := range eps {
		l = append(l, showEndpoint(e))
	}
	sort.Strings(l)
	return "[" + strings.Join(l, ",") + "]"
}

func resTok(r model.Resolution) string {
	switch r {
	case model.ClientSideLB:
		return "eds"
	case model.DNSLB:
		return "dns"
	case model.Passthrough:
		return "pass"
	case model.DNSRoundRobinLB:
		return "dnsrr"
	case model.Alias:
		return "alias"
	}
	return "?"
}

func showService(s *model.Service) string {
	ports := make([]string, 0, len(s.Ports))
	for _, p := range s.Ports {
		ports = append(ports, p.Name+":"+strconv.Itoa(p.Port)+":"+string(p.Protocol))
	}
	td := "any"
	if s.Attributes.TrafficDistribution != model.TrafficDistributionAny {
		td = "close"
	}
	return string(s.Hostname) + "{" + resTok(s.Resolution) + ";" + s.DefaultAddress + ";" + strings.Join(ports, ",") + ";" +
		showMap(s.Attributes.LabelSelectors) + ";" + s.Attributes.ExternalName + ";" + s.Attributes.Type + ";" +
		wire.B(s.MeshExternal) + ";" + showMap(s.Attributes.Labels) + ";" + td + ";" + showExportTo(s) + ";" +
		strings.Join(s.ServiceAccounts, "+") + ";" + strings.Join(s.ClusterVIPs.GetAddressesFor("fake"), "+") + ";" +
		strings.Join(s.Attributes.ClusterExternalAddresses.GetAddressesFor("fake"), "+") + ";" + wire.B(s.Attributes.NodeLocal) + "}"
}

func showExportTo(s *model.Service) string {
	l := make([]string, 0, len(s.Attributes.ExportTo))
	for v := range s.Attributes.ExportTo {
		l = append(l, string(v))
	}
	sort.Strings(l)
	return strings.Join(l, "+")
}

type snapshot struct {
	services []string            // canonical services, sorted by hostname (Services() sorts)
	hosts    map[string]bool     // hostnames in servicesMap
	idxEps   map[string]string   // "host/ns" -> endpoints of this registry's shard
	idxSA    map[string]string   // "host/ns" -> service accounts
	full     string              // full dump line
}

func (w *world) snap() snapshot {
	var sn snapshot
	sn.hosts = map[string]bool{}
	sn.idxEps = map[string]string{}
	sn.idxSA = map[string]string{}
	c := w.fc.Controller
	for _, s := range c.Services() {
		sn.services = append(sn.services, showService(s))
		sn.hosts[string(s.Hostname)] = true
	}
	shard := model.ShardKeyFromRegistry(c)
	var idx []string
	for host, byNs := range w.index.Shardz() {
		for ns, es := range byNs {
			es.RLock()
			es0 := es.Shards[shard]
			eps := showEndpoints(es0)
			_, hasShard := es.Shards[shard]
			others := len(es.Shards)
			if hasShard {
				others--
			}
			sas := es.ServiceAccounts.UnsortedList()
			es.RUnlock()
			sort.Strings(sas)
			k := host + "/" + ns
			// the property view compares endpoint SETS (the property statement), the full dump keeps the list
			sn.idxEps[k] = showEndpointSet(es0)
			sn.idxSA[k] = "{" + strings.Join(sas, ",") + "}"
			x := k + eps + sn.idxSA[k]
			if !hasShard {
				x = k + "-" + sn.idxSA[k]
			}
			if others != 0 {
				x += "!foreign-shards"
			}
			idx = append(idx, x)
		}
	}
	sort.Strings(idx)
	cs := controller.VerifC15Snapshot(c)
	var slc []string
	for _, h := range sortedKeys(cs.Slices) {
		var per []string
		for _, s := range sortedKeys(cs.Slices[h]) {
			per = append(per, s+showEndpoints(cs.Slices[h][s]))
		}
		slc = append(slc, h+"{"+strings.Join(per, " ")+"}")
	}
	var byip, ipby, rs []string
	for _, ip := range sortedKeys(cs.PodsByIP) {
		byip = append(byip, ip+"="+strings.Join(cs.PodsByIP[ip], "+"))
	}
	for _, k := range sortedKeys(cs.IPByPods) {
		ipby = append(ipby, k+"="+cs.IPByPods[k])
	}
	for _, ip := range sortedKeys(cs.NeedResync) {
		rs = append(rs, ip+"="+strings.Join(cs.NeedResync[ip], "+"))
	}
	sn.full = "S[" + strings.Join(sn.services, " ") + "] X[" + strings.Join(idx, " ") + "] C[" + strings.Join(slc, " ") +
		"] I[" + strings.Join(byip, " ") + "] P[" + strings.Join(ipby, " ") + "] R[" + strings.Join(rs, " ") + "]"
	return sn
}

// propView is what the property statement talks about: the services, and for every service
// that exists, the endpoints and the service accounts the index holds for this registry.
func (sn snapshot) propView() string {
	var parts []string
	for _, s := range sn.services {
		host := s[:strings.Index(s, "{")]
		eps, sa := "[]", "{}"
		for k, v := range sn.idxEps {
			if strings.HasPrefix(k, host+"/") {
				eps, sa = v, sn.idxSA[k]
			}
		}
		parts = append(parts, s+"="+eps+sa)
	}
	return "<" + strings.Join(parts, " ") + ">"
}

// ---------------------------------------------------------------- cases

type caseRun struct {
	w    *world
	last map[string][]string // key -> last upsert line of every live object
}

func newCase() *caseRun { return &caseRun{w: newWorld(), last: map[string][]string{}} }

func (c *caseRun) close() {
	if c.w != nil {
		c.w.close()
	}
}

var kinds = []string{"node", "ns", "svc", "pod", "slice"}

// finalLines returns the upsert lines of the live objects, kinds in the given order, keys sorted.
func (c *caseRun) finalLines(order []string) [][]string {
	var out [][]string
	keys := sortedKeys(c.last)
	if has(order, "rev") {
		// the Add events of one kind in the opposite order (the list order of an informer is not specified)
		for i, j := 0, len(keys)-1; i < j; i, j = i+1, j-1 {
			keys[i], keys[j] = keys[j], keys[i]
		}
	}
	for _, kd := range order {
		for _, k := range keys {
			if strings.HasPrefix(k, kd+"/") {
				out = append(out, c.last[k])
			}
		}
	}
	return out
}

func parseOrder(tok string) []string {
	o := wire.DecList(tok)
	seen := map[string]bool{}
	var out []string
	for _, k := range o {
		if has(kinds, k) && !seen[k] {
			seen[k] = true
			out = append(out, k)
		}
	}
	for _, k := range kinds {
		if !seen[k] {
			out = append(out, k)
		}
	}
	if has(o, "rev") {
		out = append(out, "rev")
	}
	return out
}

// coldView runs a second controller whose informer stores hold all final objects before any
// handler runs; the Add events are queued in `order`.
func (c *caseRun) coldView(order []string) string {
	w := newWorld()
	defer w.close()
	w.hold()
	for _, f := range c.finalLines(order) {
		w.apply(f)
	}
	w.release()
	return w.snap().propView()
}

// literalColdView starts a controller on a client that already contains the final objects.
func (c *caseRun) literalColdView() string {
	var objs []kruntime.Object
	for _, f := range c.finalLines(kinds) {
		switch f[0] {
		case "svc":
			objs = append(objs, mkService(f))
		case "slice":
			objs = append(objs, mkSlice(f))
		case "pod":
			objs = append(objs, mkPod(f))
		case "node":
			objs = append(objs, mkNode(f))
		case "ns":
			objs = append(objs, mkNamespace(f))
		}
	}
	w := newWorld(objs...)
	defer w.close()
	return w.snap().propView()
}

func (c *caseRun) step(f []string) (out string) {
	defer func() {
		if r := recover(); r != nil {
			if fn, ok := r.(failNow); ok {
				out = "harness-error " + wire.Enc(fn.msg)
			} else {
				out = "crash"
			}
		}
	}()
	switch f[0] {
	case "hold":
		if len(f) != 1 {
			return "bad-op"
		}
		c.w.hold()
		return "ok"
	case "release":
		if len(f) != 1 {
			return "bad-op"
		}
		c.w.release()
		return c.w.snap().full
	case "cold":
		if len(f) != 2 {
			return "bad-op"
		}
		c.w.release()
		return "ordered=" + c.w.snap().propView() + " cold=" + c.coldView(parseOrder(f[1]))
	}
	if !c.w.apply(f) {
		return "bad-op"
	}
	key := objKey(f)
	if strings.HasPrefix(f[0], "del") {
		delete(c.last, key)
	} else {
		c.last[key] = f
	}
	if c.w.held {
		return "queued"
	}
	return c.w.snap().full
}

func splitCases(lines [][]string) [][][]string {
	var cases [][][]string
	for _, f := range lines {
		if f[0] == "case" || len(cases) == 0 {
			cases = append(cases, nil)
		}
		cases[len(cases)-1] = append(cases[len(cases)-1], f)
	}
	return cases
}

func workers() int {
	n := runtime.GOMAXPROCS(0)
	if n > 8 {
		n = 8
	}
	if n < 1 {
		n = 1
	}
	return n
}

// parallelCases runs fn over the cases with a worker pool and returns the outputs in order.
func parallelCases(cases [][][]string, fn func(cs [][]string) []string) [][]string {
	out := make([][]string, len(cases))
	var wg sync.WaitGroup
	next := make(chan int)
	for i := 0; i < workers(); i++ {
		wg.Add(1)
		go func() {
			defer wg.Done()
			for k := range next {
				out[k] = fn(cases[k])
			}
		}()
	}
	for k := range cases {
		next <- k
	}
	close(next)
	wg.Wait()
	return out
}

func runCase(cs [][]string) []string {
	var c *caseRun
	defer func() {
		if c != nil {
			c.close()
		}
	}()
	res := make([]string, 0, len(cs))
	for _, f := range cs {
		if f[0] == "case" {
			if c != nil {
				c.close()
			}
			c = newCase()
			res = append(res, "ok")
			continue
		}
		if c == nil {
			c = newCase()
		}
		res = append(res, c.step(f))
	}
	return res
}

func execOps(stream, in, outp string) {
	out := wire.Create(outp)
	defer out.Close()
	for _, res := range parallelCases(splitCases(wire.ReadLines(in)), runCase) {
		for _, l := range res {
			out.Line(l)
		}
	}
}

// ---------------------------------------------------------------- oracle: the property itself

var coldOrders = [][]string{
	{"node", "ns", "svc", "pod", "slice"},
	{"slice", "pod", "svc", "ns", "node"},
	{"pod", "slice", "node", "svc", "ns", "rev"},
}

func permutations(l []string) [][]string {
	if len(l) <= 1 {
		return [][]string{append([]string(nil), l...)}
	}
	var out [][]string
	for i := range l {
		rest := append(append([]string(nil), l[:i]...), l[i+1:]...)
		for _, p := range permutations(rest) {
			out = append(out, append([]string{l[i]}, p...))
		}
	}
	return out
}

func oracleCase(cs [][]string) []string {
	c := newCase()
	defer c.close()
	for _, f := range cs {
		if f[0] == "case" || f[0] == "cold" {
			continue
		}
		if o := c.step(f); strings.HasPrefix(o, "harness-error") || o == "crash" {
			return []string{"FAIL " + strings.Fields(o)[0] + " op=" + strings.Join(f, "_")}
		}
	}
	c.w.release()
	ordered := c.w.snap().propView()
	for _, o := range coldOrders {
		if v := c.coldView(o); v != ordered {
			return []string{"FAIL order-vs-cold cold-order=" + strings.Join(o, ",") + " ordered=" + wire.Enc(ordered) + " cold=" + wire.Enc(v)}
		}
	}
	if v := c.literalColdView(); v != ordered {
		// the cross-kind order of the initial Add events of a literal cold start is not fixed: find a kind order of the
		// held cold start that ends in the same view, so that the divergence can be classified and replayed
		for _, o := range permutations(kinds) {
			if c.coldView(o) == v {
				return []string{"FAIL order-vs-cold cold-order=" + strings.Join(o, ",") + " ordered=" + wire.Enc(ordered) + " cold=" + wire.Enc(v) +
					" literal=1"}
			}
		}
		return []string{"FAIL order-vs-literal-cold ordered=" + wire.Enc(ordered) + " cold=" + wire.Enc(v)}
	}
	// no entry may stay parked in needResync for an address whose pod is ready in the final objects
	return []string{"OK"}
}

func oracle(stream, in, outp string) {
	out := wire.Create(outp)
	defer out.Close()
	for _, res := range parallelCases(splitCases(wire.ReadLines(in)), oracleCase) {
		for _, l := range res {
			out.Line(l)
		}
	}
}
