package main

import (
	"sort"
	"strconv"
	"strings"

	"verifharness/internal/wire"
)

// Generator for stream `order`.  A case is a random history of object writes over a small
// universe (so that collisions - IP reuse, several slices per service, endpoints before pods -
// are frequent), in one interleaving; `hold`/`release` lines let the informer stores run ahead of
// the handlers.  Only wire.Rng is used.
//
// Determinism constraints (the real controller is genuinely nondeterministic outside them, see
// notes/C15.md): an address is in at most one slice of a service except inside the three-line
// "move" macro (refresh old slice, add to new slice, remove from old slice) during which no
// other object is written; endpoints without targetRef never use an address shared by pods.

type gPod struct {
	ns, name, ip, phase string
	ready, deleting     bool
	labels              []string
	extra               []string // labels and pseudo labels fixed for the life of the pod (hostname/subdomain, istio-locality, network)
	owner               string   // controller ownerReference (pseudo label @owner); changes in place (adoption / orphaning)
	sa, node            string
}

type gEp struct {
	extra   string // "+second address" of a multi-address endpoint
	addr    string
	r, s, t byte
	target  string // "ns:name" or "-"
}

type gSlice struct {
	ns, name, svc, atype string
	eps                  []gEp
}

type gSvc struct {
	ns, name, kind string
	ports          []string
	sel            []string
	flags          []string
}

type gNode struct{ name, region, zone string }

type genState struct {
	r      *wire.Rng
	out    *wire.Out
	pods   map[string]*gPod
	slices map[string]*gSlice
	svcs   map[string]*gSvc
	nodes  map[string]*gNode
	ports  map[string][]string // slice ports per "ns/svc"
	held   bool
	nss    []string
	wide   bool
	noHold bool
	withNs bool
	nsObj  map[string]string // namespace objects: name -> annotation token
	podInWindow bool         // a pod was written inside the current hold window
	portsSet map[string]bool
	mcs      map[string]bool
	perSlicePorts bool
}

var (
	podIPs    = []string{"10.0.0.1", "10.0.0.2", "10.0.0.3"}
	labelSets = [][]string{{"app=a"}, {"app=b"}, {"app=a", "version=v1"}, {"app=a", "version=v2"}, {"app=a", "security.istio.io/tlsMode=istio"}, nil,
		{"app=a", "@amb=enabled"}} // "@amb": the ambient redirection ANNOTATION (the annotation arm of labelFilter)
	selSets   = [][]string{{"app=a"}, {"app=b"}, {"app=a", "version=v1"}, nil}
	portSets  = [][]string{{"http:80"}, {"http:80", "tcp:90"}, {"tcp:90"}}
	epPorts   = [][]string{{"http:8080"}, {"http:8080", "tcp:9090"}, {"tcp:9090"}, {"http:9090"}, {"tcp:8080"}}
)

func (g *genState) emit(tok ...string) { g.out.Line(tok...) }

func sortedNames[V any](m map[string]V) []string {
	ks := make([]string, 0, len(m))
	for k := range m {
		ks = append(ks, k)
	}
	sort.Strings(ks)
	return ks
}

func (g *genState) podLine(p *gPod) {
	g.emit("pod", p.ns, p.name, wire.Enc(p.ip), p.phase, wire.B(p.ready), wire.B(p.deleting),
		wire.EncList(g.podLabels(p)), p.sa, wire.Enc(p.node))
}

func (g *genState) podLabels(p *gPod) []string {
	l := append(append([]string{}, p.labels...), p.extra...)
	if p.owner != "" {
		l = append(l, "@owner="+p.owner)
	}
	return l
}

func (g *genState) svcLine(s *gSvc) {
	g.emit("svc", s.ns, s.name, s.kind, wire.EncList(s.ports), wire.EncList(s.sel), wire.EncList(s.flags))
}

func (g *genState) sliceLine(s *gSlice) {
	eps := make([]string, 0, len(s.eps))
	for _, e := range s.eps {
		eps = append(eps, e.addr+e.extra+"/"+string(e.r)+"/"+string(e.s)+"/"+string(e.t)+"/"+e.target)
	}
	g.emit("slice", s.ns, s.name, wire.Enc(s.svc), s.atype, wire.EncList(g.slicePorts(s)), wire.EncList(eps))
}

func (g *genState) nodeLine(n *gNode) { g.emit("node", n.name, wire.Enc(n.region), wire.Enc(n.zone)) }

func (g *genState) slicePorts(s *gSlice) []string {
	k := s.ns + "/" + s.svc
	if g.perSlicePorts {
		// sibling slices of one Service with different port lists (same name / other number, same number / other name:
		// endpointSliceCache.get dedups on (address, port NAME))
		k = s.ns + "/" + s.svc + "/" + s.name
	}
	if !g.portsSet[k] {
		g.portsSet[k] = true
		g.ports[k] = wire.Pick(g.r, epPorts)
		if g.r.Chance(1, 15) {
			g.ports[k] = nil // a slice without ports: no endpoints, the pods are still looked up
		} else if g.wide && g.r.Chance(1, 12) {
			g.ports[k] = wire.Pick(g.r, [][]string{{"nil:8080"}, {"http:0"}}) // nil port name / nil port number
		}
	}
	return g.ports[k]
}

func tri(r *wire.Rng, bias byte) byte {
	switch r.Intn(6) {
	case 0:
		return 'n'
	case 1:
		return 't'
	case 2:
		return 'f'
	}
	return bias
}

// addrHolder returns the slice of the same service (other than `except`) that contains addr.
func (g *genState) addrHolder(ns, svc, addr, except string) *gSlice {
	for _, k := range sortedNames(g.slices) {
		s := g.slices[k]
		if s.ns == ns && s.svc == svc && s.name != except {
			for _, e := range s.eps {
				if e.addr == addr {
					return s
				}
			}
		}
	}
	return nil
}

// mkEp builds an endpoint for addr: mostly faithful to the current pods, sometimes arbitrary.
func (g *genState) mkEp(ns, addr string) gEp {
	r := g.r
	var owner *gPod
	for _, k := range sortedNames(g.pods) {
		p := g.pods[k]
		if p.ns == ns && p.ip == addr {
			owner = p
		}
	}
	e := gEp{addr: addr, r: 't', s: 't', t: 'f', target: "-"}
	if r.Chance(1, 10) {
		e.extra = "+10.0." + map[bool]string{true: "3", false: "4"}[strings.HasPrefix(addr, "10.0.0.")] + "." + addr[len(addr)-1:]
	}
	if addr == "10.0.0.3" && r.Chance(1, 3) {
		// no targetRef at a pod address: the pod is looked up by IP in the pod cache (only p3 ever holds 10.0.0.3
		// in a namespace, so the lookup is unambiguous)
		if g.wide && r.Chance(1, 3) {
			// a targetRef whose Kind is not Pod (it names a pod all the same): looked up by IP like no targetRef
			e.target = "!" + ns + ":" + wire.Pick(r, []string{"p1", "p2", "p3"})
		}
	} else if strings.HasPrefix(addr, "10.0.0.") {
		switch {
		case owner != nil && r.Chance(7, 8):
			e.target = owner.ns + ":" + owner.name
			if !owner.ready || owner.deleting {
				e.r = 'f'
			}
			if owner.deleting {
				e.t = 't'
			}
		default:
			// endpoint before its pod (pod pN usually gets 10.0.0.N), or a stale reference
			e.target = ns + ":p" + addr[len(addr)-1:]
			if r.Chance(1, 5) {
				e.target = ns + ":" + wire.Pick(r, []string{"p1", "p2", "p3"})
			}
			if g.wide && len(g.nss) > 1 && r.Chance(1, 6) {
				// a targetRef into ANOTHER namespace (legal for a hand-written slice; the slice controller never writes it)
				other := "n1"
				if ns == "n1" {
					other = "n2"
				}
				e.target = other + ":" + wire.Pick(r, []string{"p1", "p2"})
			}
		}
	}
	if r.Chance(1, 4) {
		e.r = tri(r, e.r)
		e.s = tri(r, e.s)
		e.t = tri(r, e.t)
	}
	return e
}

// pickIP: pod pN usually gets 10.0.0.N, sometimes another address of the pool (IP reuse)
func (g *genState) pickIP(name string) string {
	if name == "p3" {
		return "10.0.0.3" // reserved: endpoints without targetRef use this address
	}
	if g.r.Chance(3, 4) {
		return "10.0.0." + name[1:]
	}
	return wire.Pick(g.r, podIPs[:2])
}

func (g *genState) opPod() {
	r := g.r
	ns := wire.Pick(r, g.nss)
	name := wire.Pick(r, []string{"p1", "p2", "p3"})
	k := ns + "/" + name
	p := g.pods[k]
	if p == nil {
		p = &gPod{ns: ns, name: name, phase: "P", labels: wire.Pick(r, labelSets), sa: wire.Pick(r, []string{"sa1", "sa2"})}
		if g.wide && r.Chance(1, 5) {
			p.extra = wire.Pick(r, [][]string{{"@sub=sd"}, {"@host=h1", "@sub=sd"}, {"istio-locality=r9.z9.s9"}, {"istio-locality=r8/z8"},
				{"topology.istio.io/network=n2"}})
		}
		if r.Chance(1, 2) {
			p.node = wire.Pick(r, []string{"k1", "k2"})
		}
		if r.Chance(1, 2) {
			p.ip = g.pickIP(name)
			p.phase = "R"
			p.ready = r.Chance(2, 3)
		}
		g.pods[k] = p
		g.podInWindow = g.held
		g.podLine(p)
		return
	}
	g.podInWindow = g.held
	if p.phase == "F" && r.Chance(2, 3) {
		delete(g.pods, k)
		g.emit("delpod", ns, name)
		return
	}
	if p.phase == "F" {
		// a Failed pod comes back (restartPolicy): the informer sees an ADD again
		p.phase = "R"
		if p.ip == "" {
			p.ip = g.pickIP(name)
		}
		p.ready = r.Chance(1, 2)
		g.podLine(p)
		return
	}
	switch r.Intn(13) {
	case 0, 1:
		if p.ip == "" {
			p.ip = g.pickIP(name)
		}
		p.phase = "R"
		p.ready = true
	case 2:
		p.ready = !p.ready
	case 3, 4:
		p.labels = wire.Pick(r, labelSets)
	case 5:
		p.deleting = true
		if r.Chance(1, 2) {
			p.ready = false
		}
	case 6:
		p.phase = wire.Pick(r, []string{"S", "F"})
		p.ready = false
		if r.Chance(1, 2) {
			p.ip = "" // eviction removes the IP in the same update
		}
	case 7, 12:
		p.ip = g.pickIP(name) // IP change
		if r.Chance(1, 3) {
			p.ready = false // ... and not ready any more, in one write (deleteIP then looks under the NEW IP)
		}
	case 8:
		if p.node == "" {
			p.node = wire.Pick(r, []string{"k1", "k2"})
		}
		if p.ip == "" {
			p.ip = g.pickIP(name)
		}
	case 9, 10:
		delete(g.pods, k)
		g.emit("delpod", ns, name)
		return
	default:
		switch r.Intn(4) {
		case 0:
			p.phase = wire.Pick(r, []string{"P", "R"})
		case 1:
			// in-place change of the node (k1 -> k2 too): replays the slices that refer to the pod
			p.node = wire.Pick(r, []string{"k1", "k2"})
		case 2:
			// ... of the service account
			if p.sa == "sa1" {
				p.sa = "sa2"
			} else {
				p.sa = "sa1"
			}
		default:
			// ... of the controller ownerReference (adoption / orphaning)
			if p.owner == "" {
				p.owner = wire.Pick(r, []string{"ss1", "ss2"})
			} else {
				p.owner = wire.Pick(r, []string{"", "ss2"})
			}
		}
	}
	g.podLine(p)
	g.maybeDeleteInWindow("delpod", ns, name, func() { delete(g.pods, k) })
}

// maybeDeleteInWindow: inside a hold window an update is sometimes followed at once by the delete of the same object -
// the Update handler then finds the object gone and the Delete handler sees only its last version
func (g *genState) maybeDeleteInWindow(op, a, b string, forget func()) {
	if g.held && g.r.Chance(1, 5) {
		forget()
		if b == "" {
			g.emit(op, a)
		} else {
			g.emit(op, a, b)
		}
	}
}

func (g *genState) opSvc() {
	r := g.r
	ns := wire.Pick(r, g.nss)
	name := wire.Pick(r, []string{"a", "b"})
	k := ns + "/" + name
	s := g.svcs[k]
	if s != nil && r.Chance(1, 4) {
		delete(g.svcs, k)
		g.emit("delsvc", ns, name)
		return
	}
	if s == nil {
		s = &gSvc{ns: ns, name: name, kind: "cip", ports: wire.Pick(r, portSets), sel: wire.Pick(r, selSets)}
		if r.Chance(1, 4) {
			s.kind = wire.Pick(r, []string{"hl", "ext", "lb"})
		}
		g.svcs[k] = s
	} else {
		switch r.Intn(5) {
		case 0:
			s.ports = wire.Pick(r, portSets)
		case 1:
			s.sel = wire.Pick(r, selSets)
		case 2:
			s.kind = wire.Pick(r, []string{"cip", "hl", "ext", "lb"})
		default:
		}
	}
	if g.wide && r.Chance(1, 3) {
		s.flags = wire.Pick(r, [][]string{{"drain"}, {"td"}, {"drain", "td"}, nil})
	}
	// exported to nobody (annotation networking.istio.io/exportTo: "~") and the service-accounts annotation, set and cleared again
	for _, fl := range []string{"x", "sa", "std", "csa", "eip", "nl"} {
		if g.wide && r.Chance(1, 8) {
			if has(s.flags, fl) {
				f := []string{}
				for _, x := range s.flags {
					if x != fl {
						f = append(f, x)
					}
				}
				s.flags = f
			} else {
				s.flags = append(append([]string{}, s.flags...), fl)
			}
		}
	}
	g.svcLine(s)
	g.maybeDeleteInWindow("delsvc", ns, name, func() { delete(g.svcs, k) })
}

func (g *genState) candidateAddrs(ns string) []string {
	a := append([]string(nil), podIPs...)
	a = append(a, "10.0.2.1", "10.0.2.2")
	return a
}

func (g *genState) opSlice() {
	r := g.r
	ns := wire.Pick(r, g.nss)
	svc := wire.Pick(r, []string{"a", "a", "b"})
	if g.wide && r.Chance(1, 25) {
		// a slice with the MCS service-name label: invisible to the controller; created and deleted, the label never edited
		k := ns + "/" + svc + "-m1"
		if g.mcs[k] {
			delete(g.mcs, k)
			g.emit("delslice", ns, svc+"-m1")
		} else {
			g.mcs[k] = true
			g.emit("slice", ns, svc+"-m1", "M:"+svc, "v4", "http:8080", "10.0.2.9/t/t/f/-")
		}
		return
	}
	name := svc + "-" + wire.Pick(r, []string{"s1", "s2", "s1", "s2", "s3"})
	k := ns + "/" + name
	s := g.slices[k]
	if s != nil && r.Chance(1, 5) {
		delete(g.slices, k)
		g.emit("delslice", ns, name)
		return
	}
	if s == nil {
		s = &gSlice{ns: ns, name: name, svc: svc, atype: "v4"}
		if r.Chance(1, 25) {
			s.atype = "fqdn"
		}
		if r.Chance(1, 30) {
			s.svc = ""
		}
		g.slices[k] = s
	}
	if s.svc != "" && (r.Chance(1, 15) || (g.held && r.Chance(1, 6))) {
		// the service-name label of an existing slice is edited (legal, never done by the slice controller)
		if s.svc == "a" {
			s.svc = "b"
		} else {
			s.svc = "a"
		}
	}
	// the address move macro needs an existing sibling slice holding an address
	if r.Chance(1, 4) && s.svc != "" {
		for _, a := range g.candidateAddrs(ns) {
			if from := g.addrHolder(ns, s.svc, a, s.name); from != nil && from.atype == "v4" && s.atype == "v4" {
				// refresh old, add to new, remove from old - contiguous
				for i := range from.eps {
					from.eps[i] = g.refresh(from.eps[i], ns)
				}
				g.sliceLine(from)
				var moved gEp
				for _, e := range from.eps {
					if e.addr == a {
						moved = e
					}
				}
				for i := range s.eps {
					s.eps[i] = g.refresh(s.eps[i], ns)
				}
				s.eps = append(s.eps, moved)
				g.sliceLine(s)
				var keep []gEp
				for _, e := range from.eps {
					if e.addr != a {
						keep = append(keep, e)
					}
				}
				from.eps = keep
				g.sliceLine(from)
				return
			}
		}
	}
	// otherwise recompute the endpoint list
	var eps []gEp
	for _, a := range g.candidateAddrs(ns) {
		if g.addrHolder(ns, s.svc, a, s.name) != nil && !r.Chance(1, 4) {
			continue // mostly one slice per address; sometimes a (possibly conflicting) duplicate
		}
		if r.Chance(2, 5) {
			eps = append(eps, g.mkEp(ns, a))
		}
	}
	s.eps = eps
	g.sliceLine(s)
	g.maybeDeleteInWindow("delslice", ns, name, func() { delete(g.slices, k) })
}

// refresh keeps an endpoint as it is (the slice is rewritten unchanged): the controller then
// recomputes its record from the current stores.
func (g *genState) refresh(e gEp, ns string) gEp { return e }

func (g *genState) opNs() {
	r := g.r
	name := wire.Pick(r, g.nss)
	if td, ok := g.nsObj[name]; ok && (r.Chance(1, 5) || (td == "close" && r.Chance(1, 2))) {
		delete(g.nsObj, name)
		g.emit("delns", name)
		return
	}
	td := wire.Pick(r, []string{"close", "~", "~"})
	g.nsObj[name] = td
	g.emit("ns", name, td)
	g.maybeDeleteInWindow("delns", name, "", func() { delete(g.nsObj, name) })
}

func (g *genState) opNode() {
	r := g.r
	name := wire.Pick(r, []string{"k1", "k2"})
	n := g.nodes[name]
	if n != nil && r.Chance(1, 4) {
		delete(g.nodes, name)
		g.emit("delnode", name)
		return
	}
	if n == nil {
		n = &gNode{name: name}
		g.nodes[name] = n
	}
	n.region = wire.Pick(r, []string{"r1", "r2", ""})
	n.zone = wire.Pick(r, []string{"z1", ""})
	if g.wide && r.Chance(1, 3) {
		// legacy failure-domain labels, subzone
		n.region = wire.Pick(r, []string{"L:r1", "r2", ""})
		n.zone = wire.Pick(r, []string{"L:z1", "z1/s1", "/s2", "L:z1/s1"})
	}
	g.nodeLine(n)
}

func gen(stream string, seed uint64, n int, outp string) {
	out := wire.Create(outp)
	defer out.Close()
	root := wire.NewRng(seed ^ 0xC15)
	for c := 0; c < n; c++ {
		r := root.Fork()
		g := &genState{r: r, out: out, pods: map[string]*gPod{}, slices: map[string]*gSlice{}, svcs: map[string]*gSvc{},
			nodes: map[string]*gNode{}, ports: map[string][]string{}, nss: []string{"n1"}, nsObj: map[string]string{},
			portsSet: map[string]bool{}, mcs: map[string]bool{}}
		if r.Chance(1, 6) {
			g.nss = []string{"n1", "n1", "n2"}
		}
		if r.Chance(1, 3) {
			out.Line("case", strconv.Itoa(c), stream, "sim") // a simulated well-behaved cluster history
			g.simCase()
			continue
		}
		out.Line("case", strconv.Itoa(c), stream)
		g.wide = r.Chance(1, 3)
		g.perSlicePorts = r.Chance(1, 4)
		g.noHold = r.Chance(3, 5) // most histories are handled write by write (the class of the theorems)
		withNodes := r.Chance(1, 3)
		g.withNs = r.Chance(1, 3)
		length := 2 + r.Intn(14)
		if r.Chance(1, 10) {
			length += 15
		}
		for i := 0; i < length; i++ {
			if !g.noHold && r.Chance(1, 8) {
				if g.held {
					g.emit("release")
				} else {
					g.emit("hold")
				}
				g.held = !g.held
				g.podInWindow = false
				continue
			}
			switch x := r.Intn(20); {
			case x < 8:
				g.opPod()
			case x < 12:
				// recomputeServiceForPod stops at the first matching Service that is not yet in servicesMap, in the
				// (random) order of the lister: no Service write after a Pod write inside one hold window
				// (a Service write after a Pod write inside one window used to be excluded: recomputeServiceForPod ended its loop
				// at the first Service missing from servicesMap, in lister order - fixed by bcf9457)
				g.opSvc()
			case x < 17:
				g.opSlice()
			case x == 17 || (x == 16 && g.withNs):
				if g.withNs {
					g.opNs()
				} else {
					g.opSlice()
				}
			default:
				if withNodes {
					g.opNode()
				} else {
					g.opPod()
				}
			}
		}
		if r.Chance(1, 50) {
			out.Line("delpod", "n1") // malformed
		}
		if r.Chance(1, 50) {
			out.Line("delsvc", "n1", "zz") // absent object
		}
		if g.held {
			g.emit("release")
		}
		order := append([]string(nil), kinds...)
		for i := len(order) - 1; i > 0; i-- {
			j := r.Intn(i + 1)
			order[i], order[j] = order[j], order[i]
		}
		if r.Chance(1, 3) {
			order = append(order, "rev") // the Add events of one kind in the opposite order
		}
		out.Line("cold", wire.EncList(order))
	}
}

// ---------------------------------------------------------------- realistic histories

// simCase writes the history of a small, well-behaved cluster - a Service selecting app=a, pods that
// go through Pending / IP / Running / Ready / label edit / Terminating / gone (the next pod may
// reuse the IP), the slices an endpoint slice controller would write after each pod change, Nodes -
// as per-kind streams in causal order, and then one random interleaving of the streams (per-kind
// order kept: that is all the informers guarantee).
func (g *genState) simCase() {
	r := g.r
	var streams [5][]string // node, svc, pod, slice, ns
	add := func(k int, toks ...string) { streams[k] = append(streams[k], strings.Join(toks, " ")) }
	if r.Chance(1, 2) {
		add(4, "ns", "n1", wire.Pick(r, []string{"close", "~"})) // the namespace exists before everything in it
	}
	kind := wire.Pick(r, []string{"cip", "cip", "hl"})
	flags := wire.Pick(r, [][]string{nil, nil, {"drain"}})
	add(1, "svc", "n1", "a", kind, "http:80", "app=a", wire.EncList(flags))
	withNodes := r.Chance(1, 2)
	if withNodes {
		add(0, "node", "k1", "r1", "z1")
	}
	type sp struct {
		node          string
		name, ip, ver string
		ready, term   bool
		alive         bool
	}
	pods := []*sp{}
	twoSlices := r.Chance(1, 3)
	sliceOf := func(p *sp) string {
		if twoSlices && p.name != "p1" {
			return "a-s2"
		}
		return "a-s1"
	}
	podLine := func(p *sp, phase string) {
		node := "~"
		if p.node != "" {
			node = p.node
		}
		add(2, "pod", "n1", p.name, wire.Enc(p.ip), phase, wire.B(p.ready), wire.B(p.term), "app=a,version="+p.ver, "sa-"+p.name, node)
	}
	writeSlices := func() {
		for _, sn := range []string{"a-s1", "a-s2"} {
			if sn == "a-s2" && !twoSlices {
				continue
			}
			var eps []string
			for _, p := range pods {
				if !p.alive || p.ip == "" || sliceOf(p) != sn {
					continue
				}
				rd, tm := "t", "f"
				if !p.ready || p.term {
					rd = "f"
				}
				if p.term {
					tm = "t"
				}
				eps = append(eps, p.ip+"/"+rd+"/t/"+tm+"/n1:"+p.name)
			}
			add(3, "slice", "n1", sn, "a", "v4", "http:8080", wire.EncList(eps))
		}
	}
	steps := 3 + r.Intn(8)
	names := []string{"p1", "p2", "p3"}
	for i := 0; i < steps; i++ {
		var live []*sp
		for _, p := range pods {
			if p.alive {
				live = append(live, p)
			}
		}
		switch x := r.Intn(10); {
		case x < 3 || len(live) == 0:
			// a new pod (name not in use), Pending without IP, then IP, then ready
			var name string
			for _, n := range names {
				used := false
				for _, p := range live {
					if p.name == n {
						used = true
					}
				}
				if !used {
					name = n
					break
				}
			}
			if name == "" {
				continue
			}
			p := &sp{name: name, ver: "v1", alive: true}
			pods = append(pods, p)
			podLine(p, "P")
			if withNodes {
				p.node = "k1" // Pending pod bound to a node by the scheduler
				if r.Chance(1, 2) {
					podLine(p, "P")
				}
			}
			// the IP of a pod that is gone may be reused
			p.ip = "10.0.0." + strconv.Itoa(1+r.Intn(3))
			for _, q := range live {
				if q.ip == p.ip {
					p.ip = "10.0.0." + strconv.Itoa(4+len(pods))
				}
			}
			podLine(p, "R")
			writeSlices()
			if r.Chance(3, 4) {
				p.ready = true
				podLine(p, "R")
				writeSlices()
			}
		case x < 5:
			p := wire.Pick(r, live)
			p.ver = wire.Pick(r, []string{"v1", "v2", "v3"})
			podLine(p, "R") // label edit that keeps the selector: no slice write follows
		case x < 6:
			p := wire.Pick(r, live)
			if !p.term {
				p.ready = !p.ready
				podLine(p, "R")
				writeSlices()
			}
		case x < 9:
			// termination: deletionTimestamp, slice marks it, pod gone, slice drops it
			p := wire.Pick(r, live)
			if r.Chance(1, 4) {
				// eviction: the pod turns Failed and loses its IP in the same update (the informer's field selector
				// turns this into a DELETE), the slice drops it, the pod object is removed later
				p.ready, p.alive = false, false
				ip := p.ip
				p.ip = ""
				podLine(p, "F")
				p.ip = ip
				writeSlices()
				add(2, "delpod", "n1", p.name)
				break
			}
			p.term, p.ready = true, false
			podLine(p, "R")
			writeSlices()
			p.alive = false
			add(2, "delpod", "n1", p.name)
			writeSlices()
		default:
			if withNodes {
				add(0, "node", "k1", wire.Pick(r, []string{"r1", "r2"}), "z1")
			}
		}
	}
	// drop slice writes that repeat the previous version of the same slice
	last := map[string]string{}
	var sl []string
	for _, l := range streams[3] {
		f := strings.Fields(l)
		if last[f[2]] == l {
			continue
		}
		last[f[2]] = l
		sl = append(sl, l)
	}
	streams[3] = sl
	// one interleaving
	idx := [5]int{}
	remaining := 0
	for _, s := range streams {
		remaining += len(s)
	}
	simHold := r.Chance(1, 3)
	for remaining > 0 {
		if simHold && r.Chance(1, 12) {
			if g.held {
				g.emit("release")
			} else {
				g.emit("hold")
			}
			g.held = !g.held
			g.podInWindow = false
		}
		k := r.Intn(5)
		if idx[k] >= len(streams[k]) {
			continue
		}
		if k == 1 && g.held && g.podInWindow {
			continue // see gen(): no Service write after a Pod write inside one hold window
		}
		if k == 2 && g.held {
			g.podInWindow = true
		}
		// bursts: a stream usually delivers a few events in a row
		n := 1 + r.Intn(3)
		for ; n > 0 && idx[k] < len(streams[k]); n-- {
			g.out.Line(streams[k][idx[k]])
			idx[k]++
			remaining--
		}
	}
	if g.held {
		g.emit("release")
		g.held = false
	}
	order := append([]string(nil), kinds...)
	for i := len(order) - 1; i > 0; i-- {
		j := r.Intn(i + 1)
		order[i], order[j] = order[j], order[i]
	}
	g.out.Line("cold", wire.EncList(order))
}
