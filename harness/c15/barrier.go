package main

import (
	"errors"
	"sync"
	"sync/atomic"
	"time"

	corev1 "k8s.io/api/core/v1"
	kruntime "k8s.io/apimachinery/pkg/runtime"
	kubefake "k8s.io/client-go/kubernetes/fake"
	clienttesting "k8s.io/client-go/testing"

	meshconfig "istio.io/api/mesh/v1alpha1"
	"istio.io/istio/pilot/pkg/model"
	"istio.io/istio/pilot/pkg/serviceregistry/aggregate"
	"istio.io/istio/pilot/pkg/serviceregistry/kube/controller"
	"istio.io/istio/pkg/activenotifier"
	"istio.io/istio/pkg/config/mesh/meshwatcher"
	kubelib "istio.io/istio/pkg/kube"
	"istio.io/istio/pkg/kube/kclient"
	"istio.io/istio/pkg/kube/krt"
	"istio.io/istio/pkg/kube/namespace"
	"verifharness/internal/wire"
)

// The cold-start barrier of the REAL controller: Controller.Run must not start the event queue before every
// informer has synced (controller.go Run / informersSynced) - theorem class (2) assumes the stores are full before the
// first handler runs.  The fake informers of the other tests sync instantly, so the barrier is probed here with a
// controller built by hand on a populated client on which the LIST of ONE kind is gated (fails until the gate opens): all other
// informers sync, that one cannot - in turn for pods, nodes, services and endpointslices.  A task parked on the controller's queue must not run while the gate is closed (a controller without the
// barrier starts its queue within 100 ms of the other informers' sync: kubelib.WaitForCacheSync); after the gate
// opens the controller must end in the view of an ordinary cold start on the same objects.
//
// The wait is a grace period for the NEGATIVE ("nothing ran"): on the unchanged controller nothing can run however
// long we wait, so the probe never raises a false alarm; a broken barrier is missed only if the machine stalls the
// controller's goroutine for the whole period.
const barrierGrace = 1500 * time.Millisecond

func barrierObjects() [][]string {
	return [][]string{
		{"node", "k1", "r1", "z1"},
		{"svc", "n1", "a", "cip", "http:80", "app=a", "drain"},
		{"pod", "n1", "p1", "10.0.0.1", "R", "1", "0", "app=a", "sa1", "k1"},
		{"pod", "n1", "p3", "10.0.0.3", "R", "0", "0", "app=b", "sa2", "k1"},
		// a targeted endpoint, a not-ready one, and one without targetRef at a pod's address (looked up in the pod cache)
		{"slice", "n1", "a-s1", "a", "v4", "http:8080", "10.0.0.1/t/t/f/n1:p1,10.0.0.3/f/t/f/n1:p3,10.0.0.3+10.0.3.3/t/t/f/-"},
	}
}

func mkObjects(lines [][]string) []kruntime.Object {
	var objs []kruntime.Object
	for _, f := range lines {
		switch f[0] {
		case "svc":
			objs = append(objs, mkService(f))
		case "slice":
			objs = append(objs, mkSlice(f))
		case "pod":
			objs = append(objs, mkPod(f))
		case "node":
			objs = append(objs, mkNode(f))
		case "ns":
			objs = append(objs, mkNamespace(f))
		}
	}
	return objs
}

// gatedKinds: the informers whose LIST is refused in turn (each a conjunct of informersSynced).  Not gated: namespaces -
// the discovery-namespace filter that every controller is built with blocks in its constructor until the (shared)
// namespace informer has synced, so the controller's own conjunct cannot be isolated; imports / exports / the network
// manager - no list of a core kind (MCS is off), synced at once.
var gatedKinds = []string{"pods", "nodes", "services", "endpointslices"}

func barrierWant() string {
	// the reference: an ordinary literal cold start
	ref := newWorld(mkObjects(barrierObjects())...)
	defer ref.close()
	return ref.snap().propView()
}

func barrierProbe(kind string, want string) string {
	t := &failer{}
	defer t.done()
	client := kubelib.NewFakeClient(mkObjects(barrierObjects())...)
	cs := client.Kube().(*kubefake.Clientset)
	podWatch := installPodFieldSelector(cs)
	// the gate: while it is closed every LIST of pods fails (the reflector retries with backoff), so the pod informer
	// cannot sync; a reactor must not block - the fake clientset runs reactors under its lock
	var open atomic.Bool
	var gated atomic.Int32
	cs.PrependReactor("list", kind, func(a clienttesting.Action) (bool, kruntime.Object, error) {
		if open.Load() {
			return false, nil, nil
		}
		gated.Add(1)
		return true, nil, errors.New("verif: the list of " + kind + " is gated")
	})
	stop := make(chan struct{})
	t.Cleanup(func() { client.Shutdown() }) // cleanups run last-in first-out: stop first, then wait for the informers
	t.Cleanup(func() { close(stop) })
	mw := meshwatcher.NewTestWatcher(&meshconfig.MeshConfig{TrustDomain: "cluster.local"})
	kubelib.SetObjectFilter(client, namespace.NewDiscoveryNamespacesFilter(kclient.New[*corev1.Namespace](client), mw, stop))
	index := model.NewEndpointIndex(model.DisabledCache{})
	msc := aggregate.NewController(aggregate.Options{MeshHolder: mw})
	c := controller.NewController(client, controller.Options{
		DomainSuffix:          "company.com",
		XDSUpdater:            model.NewEndpointIndexUpdater(index),
		Metrics:               &model.Environment{},
		MeshWatcher:           mw,
		ClusterID:             client.ClusterID(),
		MeshServiceController: msc,
		StatusWritingEnabled:  activenotifier.New(false),
		KrtDebugger:           new(krt.DebugHandler),
	})
	msc.AddRegistry(c)
	var ran atomic.Bool
	controller.VerifC15Push(c, func() { ran.Store(true) })
	go client.RunAndWait(stop)
	go c.Run(stop)
	// positive: every informer but the pod informer has synced, and the pod informer's LIST has been refused at the gate
	othersSynced := func() bool {
		for k, v := range controller.VerifC15InformerSync(c) {
			if k == kind {
				continue
			}
			if !v {
				return false
			}
		}
		return true
	}
	spinUntil("other informers ("+kind+" gated)", func() bool { return othersSynced() && gated.Load() > 0 })
	if controller.VerifC15InformerSync(c)[kind] {
		open.Store(true)
		return "FAIL barrier-probe-invalid the informer of " + kind + " reports synced while its list is refused"
	}
	deadline := time.Now().Add(barrierGrace)
	for time.Now().Before(deadline) && !ran.Load() {
		time.Sleep(5 * time.Millisecond)
	}
	early := ran.Load() || c.HasSynced()
	open.Store(true)
	if early {
		return "FAIL cold-start-barrier the controller's event queue ran (HasSynced=" + wire.B(c.HasSynced()) +
			") while the informer of " + kind + " had not synced: handlers see an incomplete store at a cold start"
	}
	spinUntil("pod watch", podWatch)
	spinUntil("controller sync", c.HasSynced)
	w := &world{t: t, fc: &controller.FakeController{Controller: c, Endpoints: index}, client: client, index: index,
		present: map[string]bool{}, visible: map[string]bool{}}
	w.drain()
	if got := w.snap().propView(); got != want {
		return "FAIL cold-start-barrier-view kind=" + kind + " gated=" + wire.Enc(got) + " plain=" + wire.Enc(want)
	}
	return "OK " + kind
}

// barrier runs one probe per gated informer, in parallel (each has its own client and controller)
func barrier(outp string) {
	out := wire.Create(outp)
	defer out.Close()
	want := barrierWant()
	res := make([]string, len(gatedKinds))
	var wg sync.WaitGroup
	for i, k := range gatedKinds {
		wg.Add(1)
		go func() {
			defer wg.Done()
			defer func() {
				if r := recover(); r != nil {
					res[i] = "FAIL barrier-probe-crashed kind=" + k
					if fn, ok := r.(failNow); ok {
						res[i] += " " + wire.Enc(fn.msg)
					}
				}
			}()
			res[i] = barrierProbe(k, want)
		}()
	}
	wg.Wait()
	for _, l := range res {
		out.Line(l)
	}
}
