package main

// Stream wds: the REAL workload generator (pilot/pkg/xds/workload.go GenerateDeltas /
// generateDeltasOndemand / appendAddress) behind the real processDeltaRequest / pushConnectionDelta,
// over a stub ambient index with the contract of ambientindex.go AddressInformation /
// AdditionalPodSubscriptions (node-local part).  Model: lean/IstioModel/C03/Wds.lean.
//
//	widx  name:alias:onNode:ver,...      replace the index (sorted by name)
//	wreq  <sub> <unsub> <init name@ver,..> <cur|stale|empty>   delta request for the Address type
//	wpush <updated names>                push for updated addresses
//	wreconnect                           fresh stream; the client keeps what it holds

import (
	"fmt"
	"net/netip"
	"sort"
	"strconv"
	"strings"

	discovery "github.com/envoyproxy/go-control-plane/envoy/service/discovery/v3"

	"istio.io/istio/pilot/pkg/model"
	pxds "istio.io/istio/pilot/pkg/xds"
	v3 "istio.io/istio/pilot/pkg/xds/v3"
	"istio.io/istio/pkg/config/schema/kind"
	"istio.io/istio/pkg/util/sets"
	"istio.io/istio/pkg/workloadapi"
	"verifharness/internal/wire"
)

type wl struct {
	name, alias string
	onNode      bool
	ver         int
}

type stubIndex struct {
	model.NoopAmbientIndexes
	wls []wl // sorted by name
}

func mkAddr(w wl) model.AddressInfo {
	p := strings.SplitN(w.alias, "/", 2)
	ip := netip.MustParseAddr(p[1])
	node := "other"
	if w.onNode {
		node = "n1"
	}
	return model.NewAddressInfo(&workloadapi.Address{Type: &workloadapi.Address_Workload{Workload: &workloadapi.Workload{
		Uid: w.name, Name: w.name, Namespace: "ns", Network: p[0], Addresses: [][]byte{ip.AsSlice()}, Node: node,
		ServiceAccount: "content-v" + strconv.Itoa(w.ver),
	}}})
}

func (s *stubIndex) lookup(k string) []wl {
	var out []wl
	for _, w := range s.wls {
		if w.name == k || w.alias == k {
			out = append(out, w)
		}
	}
	return out
}

func (s *stubIndex) AddressInformation(addresses sets.String) ([]model.AddressInfo, sets.String) {
	if len(addresses) == 0 {
		out := make([]model.AddressInfo, 0, len(s.wls))
		for _, w := range s.wls {
			out = append(out, mkAddr(w))
		}
		return out, nil
	}
	var res []model.AddressInfo
	var removed []string
	got := sets.New[string]()
	for a := range addresses {
		l := s.lookup(a)
		if len(l) == 0 {
			removed = append(removed, a)
			continue
		}
		for _, w := range l {
			if !got.InsertContains(w.name) {
				res = append(res, mkAddr(w))
			}
		}
	}
	return res, sets.New(removed...)
}

func (s *stubIndex) AdditionalPodSubscriptions(proxy *model.Proxy, _ sets.String, currentSubs sets.String) sets.String {
	out := sets.New[string]()
	if proxy.Metadata.NodeName == "" {
		return out
	}
	for _, w := range s.wls {
		if w.onNode && !currentSubs.Contains(w.name) {
			out.Insert(w.name)
		}
	}
	return out
}

type wdsSys struct {
	idx   *stubIndex
	srv   *pxds.DiscoveryServer
	proxy *model.Proxy
	ds    *deltaStream
	con   *pxds.Connection
	push  *model.PushContext
	// delta client
	held     map[string]int
	heldVer  map[string]string // real version strings, echoed in initial_resource_versions
	verOf    map[string]int    // real version string -> logical version
	subNames sets.String       // names the client is subscribed to (on-demand); nil = wildcard
	wildcard bool
}

func newWds() *wdsSys {
	w := &wdsSys{idx: &stubIndex{}, held: map[string]int{}, heldVer: map[string]string{}, verOf: map[string]int{}, subNames: sets.New[string]()}
	w.push = model.NewPushContext()
	w.push.PushVersion = "v1/"
	gens := map[string]model.XdsResourceGenerator{}
	w.srv = pxds.VerifC03NewServer(gens)
	w.srv.Env = &model.Environment{}
	w.srv.Env.AmbientIndexes = w.idx
	gens[v3.AddressType] = pxds.WorkloadGenerator{Server: w.srv}
	w.connect()
	return w
}

func (w *wdsSys) connect() {
	w.ds = &deltaStream{}
	w.proxy = newProxy("ztunnel-proxy", w.push)
	w.proxy.Metadata.NodeName = "n1"
	w.con = pxds.VerifNewDeltaConnection(w.proxy, w.ds)
}

// captured responses carry real version strings; translate and apply to the client
func (w *wdsSys) drain() string {
	var parts []string
	for _, r := range w.ds.raw {
		var rs []res
		for _, rr := range r.Resources {
			lv, ok := w.verOf[rr.Version]
			if !ok {
				lv = -1
			}
			rs = append(rs, res{rr.Name, lv})
			w.held[rr.Name] = lv
			w.heldVer[rr.Name] = rr.Version
		}
		sort.Slice(rs, func(i, j int) bool { return rs[i].name < rs[j].name })
		for _, n := range r.RemovedResources {
			delete(w.held, n)
			delete(w.heldVer, n)
		}
		parts = append(parts, fmt.Sprintf("WDS:res=%s;rem=%s", encRes(rs), wire.EncSet(r.RemovedResources)))
	}
	w.ds.raw = nil
	w.ds.got = nil
	if len(parts) == 0 {
		return "-"
	}
	return strings.Join(parts, " ")
}

func (w *wdsSys) apply(f []string) (out string) {
	defer func() {
		if r := recover(); r != nil {
			out = "crash"
		}
	}()
	switch f[0] {
	case "case":
		*w = *newWds()
		return "ok"
	case "widx":
		w.idx.wls = nil
		if f[1] != "-" {
			for _, e := range strings.Split(f[1], ",") {
				p := strings.Split(e, ":")
				v, _ := strconv.Atoi(p[3])
				x := wl{wire.Dec(p[0]), wire.Dec(p[1]), p[2] == "1", v}
				w.idx.wls = append(w.idx.wls, x)
				w.verOf[mkAddr(x).Version] = v
			}
		}
		return "ok"
	case "wreq":
		sub, unsub := wire.DecList(f[1]), wire.DecList(f[2])
		req := &discovery.DeltaDiscoveryRequest{
			TypeUrl: v3.AddressType, ResourceNamesSubscribe: sub, ResourceNamesUnsubscribe: unsub,
			ResponseNonce: resolveNonce(w.proxy, "WDS", f[4]),
		}
		if f[3] == "held" || f[3] == "heldx" {
			// a conformant (re)connecting client reports everything it holds, with the versions it was given
			// (heldx: with versions the server never produced, e.g. those of another build of the control plane)
			req.InitialResourceVersions = map[string]string{}
			for n, vs := range w.heldVer {
				if f[3] == "heldx" {
					vs = "x-" + vs
				}
				req.InitialResourceVersions[n] = vs
			}
		}
		_ = pxds.VerifC03ProcessDeltaRequest(w.srv, req, w.con)
		return w.drain() + " | " + showState(w.proxy)
	case "wpush":
		pr := &model.PushRequest{
			Push:             w.push,
			ConfigsUpdated:   sets.New(model.ConfigKey{Kind: kind.Endpoints, Name: "x", Namespace: "y"}),
			AddressesUpdated: sets.New(wire.DecList(f[1])...),
			Reason:           model.NewReasonStats(model.AmbientUpdate),
		}
		_ = pxds.VerifC03PushConnectionDelta(w.srv, w.con, pr)
		return w.drain() + " | " + showState(w.proxy)
	case "wreconnect":
		w.connect()
		return "ok"
	}
	return "bad-op"
}

var wdsNames = []string{"w1", "w2", "w3", "w4"}
var wdsAlias = map[string]string{"w1": "net/10.0.0.1", "w2": "net/10.0.0.2", "w3": "net/10.0.0.3", "w4": "net/10.0.0.4"}

func encIdx(m map[string]wl) string {
	if len(m) == 0 {
		return "-"
	}
	var names []string
	for n := range m {
		names = append(names, n)
	}
	sort.Strings(names)
	parts := make([]string, len(names))
	for i, n := range names {
		w := m[n]
		parts[i] = fmt.Sprintf("%s:%s:%s:%d", wire.Enc(w.name), wire.Enc(w.alias), wire.B(w.onNode), w.ver)
	}
	return strings.Join(parts, ",")
}

// genWds: each case is a ztunnel-like client, wildcard or on-demand, following index changes with
// pushes that name the changed addresses, subscription changes and reconnects.
func genWds(seed uint64, n int, outp string) {
	out := wire.Create(outp)
	defer out.Close()
	root := wire.NewRng(seed ^ 0xC03D5)
	for c := 0; c < n; c++ {
		r := root.Fork()
		out.Line("case", strconv.Itoa(c), "wds")
		idx := map[string]wl{}
		wild := r.Chance(1, 2)
		onNode := map[string]bool{"w4": r.Chance(1, 2)}
		mutate := func() []string {
			var changed []string
			for _, nm := range wire.Subset(r, wdsNames, 1, 2) {
				if _, ok := idx[nm]; ok && r.Chance(1, 3) {
					delete(idx, nm)
				} else {
					idx[nm] = wl{nm, wdsAlias[nm], onNode[nm], 1 + r.Intn(3)}
				}
				changed = append(changed, nm)
			}
			return changed
		}
		mutate()
		out.Line("widx", encIdx(idx))
		subs := []string{}
		first := func() {
			// what a reconnecting client presents: the versions it holds (1/6: versions this server never
			// produced), and in a third of the cases the nonce it retained from the dead stream
			init, nk := "held", "empty"
			if r.Chance(1, 6) {
				init = "heldx"
			}
			if r.Chance(1, 3) {
				nk = "stale"
			}
			if wild {
				if r.Chance(1, 2) {
					// the legacy wildcard: no resource_names_subscribe at all
					out.Line("wreq", "-", "-", init, nk)
				} else {
					out.Line("wreq", "*", "-", init, nk)
				}
			} else {
				subs = wire.Subset(r, wdsNames, 1, 2)
				if len(subs) == 0 {
					subs = []string{"w1"}
				}
				s2 := append([]string(nil), subs...)
				if r.Chance(1, 4) {
					s2[0] = wdsAlias[s2[0]] // subscribe by address
				}
				// on-demand clients subscribe and unsubscribe "*" at once
				out.Line("wreq", wire.EncList(append([]string{"*"}, s2...)), "*", init, nk)
			}
		}
		first()
		length := 2 + r.Intn(14)
		for i := 0; i < length; i++ {
			switch r.Intn(8) {
			case 0, 1, 2, 3:
				ch := mutate()
				out.Line("widx", encIdx(idx))
				if r.Chance(9, 10) {
					out.Line("wpush", wire.EncList(ch))
				}
			case 4:
				if !wild {
					add := wire.Subset(r, wdsNames, 1, 3)
					rem := wire.Subset(r, wdsNames, 1, 5)
					if len(add)+len(rem) > 0 {
						out.Line("wreq", wire.EncList(add), wire.EncList(rem), "-", "empty")
					}
				} else {
					out.Line("wreq", "-", "-", "-", "cur") // ACK
				}
			case 5:
				out.Line("wreconnect")
				first()
			case 6:
				out.Line("wpush", wire.EncList(wire.Subset(r, wdsNames, 1, 2)))
			default:
				out.Line("wreq", "-", "-", "-", "cur")
			}
		}
	}
}

// oracleWds: the property on the real generator. A wildcard client that was told about every
// change (each index change is followed by a push naming it) holds exactly the index; an on-demand
// client holds, for every resource name it is subscribed to, the current version iff it exists -
// also after the resource was removed and re-created, and after a reconnect presenting versions.
func oracleWds(in string) []string {
	var verdicts []string
	verdict, open, idx := "", false, 0
	flush := func() {
		if open {
			if verdict == "" {
				verdict = "OK"
			}
			verdicts = append(verdicts, verdict)
		}
	}
	w := newWds()
	wild := false
	subscribed := sets.New[string]()
	dirty := sets.New[string]() // names changed in the index and not yet announced by a push
	var prevIdx map[string]int
	fresh := true // no request yet on the current stream
	for _, f := range wire.ReadLines(in) {
		if f[0] == "case" {
			flush()
			verdict, open, idx = "", true, 0
			wild, subscribed, dirty, prevIdx = false, sets.New[string](), sets.New[string](), map[string]int{}
			fresh = true
		}
		idx++
		if w.apply(f) == "crash" && verdict == "" {
			verdict = fmt.Sprintf("FAIL never-crashes op=%d", idx-1)
		}
		cur := map[string]int{}
		for _, x := range w.idx.wls {
			cur[x.name] = x.ver
		}
		switch f[0] {
		case "widx":
			for n, v := range cur {
				if pv, ok := prevIdx[n]; !ok || pv != v {
					dirty.Insert(n)
				}
			}
			for n := range prevIdx {
				if _, ok := cur[n]; !ok {
					dirty.Insert(n)
				}
			}
			prevIdx = cur
			continue
		case "wreq":
			sub, unsub := wire.DecList(f[1]), wire.DecList(f[2])
			// the first request of a stream, whatever its shape ("*", the legacy empty subscription, with or
			// without a retained nonce)
			isFirst := fresh
			fresh = false
			if isFirst {
				wild = (len(sub) == 0 || sets.New(sub...).Contains("*")) && !sets.New(unsub...).Contains("*")
				subscribed = sets.New[string]()
				dirty = sets.New[string]() // a first request is answered from the whole index
			}
			for _, s := range sub {
				if s == "*" {
					continue
				}
				for _, x := range wdsNames {
					// by resource name, or by address when the address resolves at that moment (a
					// subscription by address to a workload that does not exist yet is only recorded
					// under the address, and pushes are keyed by resource name: observation O-C03-2,
					// outside this clause)
					_, exists := cur[x]
					if s == x || (s == wdsAlias[x] && exists) {
						subscribed.Insert(x)
					}
				}
			}
			for _, s := range unsub {
				subscribed.Delete(s)
			}
		case "wpush":
			for _, n := range wire.DecList(f[1]) {
				dirty.Delete(n)
			}
		case "wreconnect":
			fresh = true
			continue
		}
		if verdict != "" {
			continue
		}
		check := func(n string) {
			if dirty.Contains(n) {
				return
			}
			hv, hok := w.held[n]
			cv, cok := cur[n]
			if hok != cok || (cok && hv != cv) {
				verdict = fmt.Sprintf("FAIL wds-client-stale op=%d name=%s index=%v/%d held=%v/%d wildcard=%v", idx-1, n, cok, cv, hok, hv, wild)
			}
		}
		if wild {
			for _, n := range wdsNames {
				check(n)
			}
		} else {
			for n := range subscribed {
				check(n)
			}
		}
	}
	flush()
	return verdicts
}
