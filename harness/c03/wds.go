package main

// Stream wds: the REAL workload generator (pilot/pkg/xds/workload.go GenerateDeltas /
// generateDeltasOndemand / appendAddress) behind the real processDeltaRequest / pushConnectionDelta,
// over a stub ambient index with the contract of ambientindex.go AddressInformation /
// AdditionalPodSubscriptions (node-local part).  Model: lean/IstioModel/C03/Wds.lean.
//
//	widx  name:alias:onNode:ver[:flags],...   replace the index (sorted by name); flags: x = the alias is listed by
//	                                     Aliases() but not indexed (host-network pod), s = a Service address
//	wreq  <sub> <unsub> <held|heldx|-> <cur|stale|empty>   delta request for the Address type
//	wpush <updated names>                push for updated addresses
//	wlreq                                the same request for the Workload type (same generator; appendAddress sends
//	                                     workloads only); wpush pushes every watched type
//	wpol  name@ver,...                   replace the authorization policies (stub AmbientIndexes.Policies)
//	wareq <sub> <unsub> <held|-> <cur|stale|empty>   delta request for the Authorization type (REAL WorkloadRBACGenerator)
//	wapush <updated policy names> <forced 0|1>       pushDeltaXds for the Authorization type
//	wfail 0|1                            the stream's Send fails
//	wreconnect                           fresh stream; the client keeps what it holds

import (
	"fmt"
	"net/netip"
	"sort"
	"strconv"
	"strings"

	discovery "github.com/envoyproxy/go-control-plane/envoy/service/discovery/v3"

	"istio.io/istio/pilot/pkg/model"
	pxds "istio.io/istio/pilot/pkg/xds"
	v3 "istio.io/istio/pilot/pkg/xds/v3"
	"istio.io/istio/pkg/config/schema/kind"
	"istio.io/istio/pkg/util/sets"
	"istio.io/istio/pkg/workloadapi"
	"istio.io/istio/pkg/workloadapi/security"
	"verifharness/internal/wire"
)

type wl struct {
	name, alias string
	onNode      bool
	ver         int
	noIdx       bool // the alias is not indexed: a lookup by it finds nothing (host-network pods)
	svc         bool // a Service address; name = namespace/hostname
}

type stubIndex struct {
	model.NoopAmbientIndexes
	wls  []wl  // sorted by name
	pols []res // authorization policies, name = namespace/name
}

func mkAddr(w wl) model.AddressInfo {
	p := strings.SplitN(w.alias, "/", 2)
	ip := netip.MustParseAddr(p[1])
	if w.svc {
		q := strings.SplitN(w.name, "/", 2)
		return model.NewAddressInfo(&workloadapi.Address{Type: &workloadapi.Address_Service{Service: &workloadapi.Service{
			Name: q[1], Namespace: q[0], Hostname: q[1],
			Addresses:       []*workloadapi.NetworkAddress{{Network: p[0], Address: ip.AsSlice()}},
			SubjectAltNames: []string{"content-v" + strconv.Itoa(w.ver)},
		}}})
	}
	node := "other"
	if w.onNode {
		node = "n1"
	}
	return model.NewAddressInfo(&workloadapi.Address{Type: &workloadapi.Address_Workload{Workload: &workloadapi.Workload{
		Uid: w.name, Name: w.name, Namespace: "ns", Network: p[0], Addresses: [][]byte{ip.AsSlice()}, Node: node,
		ServiceAccount: "content-v" + strconv.Itoa(w.ver),
	}}})
}

func (s *stubIndex) lookup(k string) []wl {
	var out []wl
	for _, w := range s.wls {
		if w.name == k || (!w.noIdx && w.alias == k) {
			out = append(out, w)
		}
	}
	return out
}

// Policies has the contract of ambient/authorization.go: nothing requested = every policy,
// otherwise the requested keys that exist.
func (s *stubIndex) Policies(requested sets.Set[model.ConfigKey]) []model.WorkloadAuthorization {
	var out []model.WorkloadAuthorization
	for _, p := range s.pols {
		q := strings.SplitN(p.name, "/", 2)
		if len(requested) > 0 && !requested.Contains(model.ConfigKey{Kind: kind.AuthorizationPolicy, Name: q[1], Namespace: q[0]}) {
			continue
		}
		// the content version is the number of (empty) rule groups
		out = append(out, model.WorkloadAuthorization{Authorization: &security.Authorization{
			Name: q[1], Namespace: q[0], Groups: make([]*security.Group, p.ver),
		}})
	}
	return out
}

func (s *stubIndex) AddressInformation(addresses sets.String) ([]model.AddressInfo, sets.String) {
	if len(addresses) == 0 {
		out := make([]model.AddressInfo, 0, len(s.wls))
		for _, w := range s.wls {
			out = append(out, mkAddr(w))
		}
		return out, nil
	}
	var res []model.AddressInfo
	var removed []string
	got := sets.New[string]()
	for a := range addresses {
		l := s.lookup(a)
		if len(l) == 0 {
			removed = append(removed, a)
			continue
		}
		for _, w := range l {
			if !got.InsertContains(w.name) {
				res = append(res, mkAddr(w))
			}
		}
	}
	return res, sets.New(removed...)
}

func (s *stubIndex) AdditionalPodSubscriptions(proxy *model.Proxy, _ sets.String, currentSubs sets.String) sets.String {
	out := sets.New[string]()
	if proxy.Metadata.NodeName == "" {
		return out
	}
	for _, w := range s.wls {
		if w.onNode && !w.svc && !currentSubs.Contains(w.name) {
			out.Insert(w.name)
		}
	}
	return out
}

type wdsSys struct {
	idx   *stubIndex
	srv   *pxds.DiscoveryServer
	proxy *model.Proxy
	ds    *deltaStream
	con   *pxds.Connection
	push  *model.PushContext
	// delta client: what it holds per type (WDS = Address, WL = Workload, WAUTH = Authorization)
	held    map[string]map[string]int
	heldVer map[string]map[string]string // real version strings, echoed in initial_resource_versions
	verOf   map[string]int               // real version string -> logical version
	last    []*discovery.DeltaDiscoveryResponse
}

func newWds() *wdsSys {
	w := &wdsSys{idx: &stubIndex{}, held: map[string]map[string]int{}, heldVer: map[string]map[string]string{}, verOf: map[string]int{}}
	for _, t := range []string{"WDS", "WL", "WAUTH"} {
		w.held[t], w.heldVer[t] = map[string]int{}, map[string]string{}
	}
	w.push = model.NewPushContext()
	w.push.PushVersion = "v1/"
	gens := map[string]model.XdsResourceGenerator{}
	w.srv = pxds.VerifC03NewServer(gens)
	w.srv.Env = &model.Environment{}
	w.srv.Env.AmbientIndexes = w.idx
	// as pilot/pkg/bootstrap/discovery.go registers them
	gens[v3.AddressType] = pxds.WorkloadGenerator{Server: w.srv}
	gens[v3.WorkloadType] = pxds.WorkloadGenerator{Server: w.srv}
	gens[v3.WorkloadAuthorizationType] = pxds.WorkloadRBACGenerator{Server: w.srv}
	w.connect()
	return w
}

func (w *wdsSys) connect() {
	w.ds = &deltaStream{}
	w.proxy = newProxy("ztunnel-proxy", w.push)
	w.proxy.Metadata.NodeName = "n1"
	w.con = pxds.VerifNewDeltaConnection(w.proxy, w.ds)
}

// captured responses carry real version strings; translate and apply to the client
func (w *wdsSys) drain() string {
	var parts []string
	w.last = w.ds.raw
	for _, r := range w.ds.raw {
		t := shortOf[r.TypeUrl]
		var rs []res
		for _, rr := range r.Resources {
			lv, ok := w.verOf[rr.Version]
			if t == "WAUTH" {
				// no version on the wire: the content is the version
				a := &security.Authorization{}
				lv, ok = -1, rr.Resource.UnmarshalTo(a) == nil
				if ok {
					lv = len(a.Groups)
				}
			}
			if !ok {
				lv = -1
			}
			rs = append(rs, res{rr.Name, lv})
			w.held[t][rr.Name] = lv
			w.heldVer[t][rr.Name] = rr.Version
		}
		sort.Slice(rs, func(i, j int) bool { return rs[i].name < rs[j].name })
		for _, n := range r.RemovedResources {
			delete(w.held[t], n)
			delete(w.heldVer[t], n)
		}
		parts = append(parts, fmt.Sprintf("%s:res=%s;rem=%s", t, encRes(rs), wire.EncSet(r.RemovedResources)))
	}
	w.ds.raw = nil
	w.ds.got = nil
	if len(parts) == 0 {
		return "-"
	}
	return strings.Join(parts, " ")
}

func (w *wdsSys) apply(f []string) (out string) {
	defer func() {
		if r := recover(); r != nil {
			out = "crash"
		}
	}()
	switch f[0] {
	case "case":
		*w = *newWds()
		return "ok"
	case "widx":
		w.idx.wls = nil
		if f[1] != "-" {
			for _, e := range strings.Split(f[1], ",") {
				p := strings.Split(e, ":")
				v, _ := strconv.Atoi(p[3])
				x := wl{name: wire.Dec(p[0]), alias: wire.Dec(p[1]), onNode: p[2] == "1", ver: v}
				if len(p) > 4 {
					x.noIdx, x.svc = strings.Contains(p[4], "x"), strings.Contains(p[4], "s")
				}
				w.idx.wls = append(w.idx.wls, x)
				w.verOf[mkAddr(x).Version] = v
			}
		}
		return "ok"
	case "wpol":
		w.idx.pols = decRes(f[1])
		sort.Slice(w.idx.pols, func(i, j int) bool { return w.idx.pols[i].name < w.idx.pols[j].name })
		return "ok"
	case "wfail":
		w.ds.fail = f[1] == "1"
		return "ok"
	case "wreq", "wlreq", "wareq":
		t := map[string]string{"wreq": "WDS", "wlreq": "WL", "wareq": "WAUTH"}[f[0]]
		sub, unsub := wire.DecList(f[1]), wire.DecList(f[2])
		req := &discovery.DeltaDiscoveryRequest{
			TypeUrl: typeURL[t], ResourceNamesSubscribe: sub, ResourceNamesUnsubscribe: unsub,
			ResponseNonce: resolveNonce(w.proxy, t, f[4]),
		}
		if f[3] == "held" || f[3] == "heldx" {
			// a conformant (re)connecting client reports everything it holds, with the versions it was given
			// (heldx: with versions the server never produced, e.g. those of another build of the control plane)
			req.InitialResourceVersions = map[string]string{}
			for n, vs := range w.heldVer[t] {
				if f[3] == "heldx" {
					vs = "x-" + vs
				}
				req.InitialResourceVersions[n] = vs
			}
		}
		_ = pxds.VerifC03ProcessDeltaRequest(w.srv, req, w.con)
		return w.drain() + " | " + showState(w.proxy)
	case "wpush":
		// the whole pushConnectionDelta: every watched type in push order (Address, Workload, Authorization)
		pr := &model.PushRequest{
			Push:             w.push,
			ConfigsUpdated:   sets.New(model.ConfigKey{Kind: kind.Endpoints, Name: "x", Namespace: "y"}),
			AddressesUpdated: sets.New(wire.DecList(f[1])...),
			Reason:           model.NewReasonStats(model.AmbientUpdate),
		}
		_ = pxds.VerifC03PushConnectionDelta(w.srv, w.con, pr)
		return w.drain() + " | " + showState(w.proxy)
	case "wapush":
		keys := sets.New[model.ConfigKey]()
		for _, n := range wire.DecList(f[1]) {
			q := strings.SplitN(n, "/", 2)
			keys.Insert(model.ConfigKey{Kind: kind.AuthorizationPolicy, Name: q[1], Namespace: q[0]})
		}
		pr := &model.PushRequest{Push: w.push, ConfigsUpdated: keys, Forced: f[2] == "1", Reason: model.NewReasonStats(model.ConfigUpdate)}
		_ = pxds.VerifC03PushDeltaXds(w.srv, w.con, typeURL["WAUTH"], pr)
		return w.drain() + " | " + showState(w.proxy)
	case "wreconnect":
		w.connect()
		return "ok"
	}
	return "bad-op"
}

var wdsNames = []string{"w1", "w2", "w3", "w4"}
var wdsAlias = map[string]string{"w1": "net/10.0.0.1", "w2": "net/10.0.0.2", "w3": "net/10.0.0.3", "w4": "net/10.0.0.4"}

const wdsSvc = "ns/s1.svc" // the Service address of the universe (resource name = namespace/hostname)

var wauthNames = []string{"ns/p1", "ns/p2", "ns2/p3"}

func encIdx(m map[string]wl) string {
	if len(m) == 0 {
		return "-"
	}
	var names []string
	for n := range m {
		names = append(names, n)
	}
	sort.Strings(names)
	parts := make([]string, len(names))
	for i, n := range names {
		w := m[n]
		parts[i] = fmt.Sprintf("%s:%s:%s:%d", wire.Enc(w.name), wire.Enc(w.alias), wire.B(w.onNode), w.ver)
		flags := ""
		if w.noIdx {
			flags += "x"
		}
		if w.svc {
			flags += "s"
		}
		if flags != "" {
			parts[i] += ":" + flags
		}
	}
	return strings.Join(parts, ",")
}

func encPols(m map[string]int) string {
	var l []res
	for _, n := range sortedNames(m) {
		l = append(l, res{n, m[n]})
	}
	return encRes(l)
}

// genWds: each case is one ztunnel-like client on one type.
//
//	Address (1/2) / Workload (1/6): wildcard or on-demand, following index changes with pushes that name
//	  the changed addresses, subscription changes (by resource name or by address), reconnects presenting
//	  what it holds, failed sends. The index has workloads whose address is not indexed (host network),
//	  workloads sharing one address, and a Service address.
//	Authorization (1/3): a wildcard client following policy changes with pushes that name the changed
//	  policies, forced pushes, reconnects after policies were deleted while it was away, failed sends.
func genWds(seed uint64, n int, outp string) {
	out := wire.Create(outp)
	defer out.Close()
	root := wire.NewRng(seed ^ 0xC03D5)
	for c := 0; c < n; c++ {
		r := root.Fork()
		out.Line("case", strconv.Itoa(c), "wds")
		switch k := r.Intn(6); {
		case k < 3:
			genWdsAddr(r, out, "wreq")
		case k < 4:
			genWdsAddr(r, out, "wlreq")
		default:
			genWdsAuth(r, out)
		}
	}
}

func genWdsAddr(r *wire.Rng, out *wire.Out, reqOp string) {
	idx := map[string]wl{}
	wild := r.Chance(1, 2)
	universe := append([]string(nil), wdsNames...)
	if r.Chance(1, 2) {
		universe = append(universe, wdsSvc)
	}
	// attributes of a name are fixed within a case
	attr := map[string]wl{}
	for _, nm := range wdsNames {
		attr[nm] = wl{name: nm, alias: wdsAlias[nm], noIdx: r.Chance(1, 4)}
	}
	w4 := attr["w4"]
	w4.onNode = r.Chance(1, 2)
	if r.Chance(1, 4) {
		w4.alias = wdsAlias["w3"] // two workloads behind one address
	}
	attr["w4"] = w4
	attr[wdsSvc] = wl{name: wdsSvc, alias: "net/10.0.1.1", svc: true}
	var keys []string // everything a client can subscribe to: resource names and addresses
	for _, nm := range universe {
		keys = append(keys, nm, attr[nm].alias)
	}
	mutate := func() []string {
		var changed []string
		for _, nm := range wire.Subset(r, universe, 1, 2) {
			if _, ok := idx[nm]; ok && r.Chance(1, 3) {
				delete(idx, nm)
			} else {
				x := attr[nm]
				x.ver = 1 + r.Intn(3)
				idx[nm] = x
			}
			changed = append(changed, nm)
		}
		return changed
	}
	mutate()
	out.Line("widx", encIdx(idx))
	first := func() {
		// what a reconnecting client presents: the versions it holds (1/6: versions this server never
		// produced), and in a third of the cases the nonce it retained from the dead stream
		init, nk := "held", "empty"
		if r.Chance(1, 6) {
			init = "heldx"
		}
		if r.Chance(1, 3) {
			nk = "stale"
		}
		if wild {
			if r.Chance(1, 2) {
				// the legacy wildcard: no resource_names_subscribe at all
				out.Line(reqOp, "-", "-", init, nk)
			} else {
				out.Line(reqOp, "*", "-", init, nk)
			}
		} else {
			subs := wire.Subset(r, universe, 1, 2)
			if len(subs) == 0 {
				subs = []string{"w1"}
			}
			s2 := append([]string(nil), subs...)
			switch r.Intn(6) {
			case 0:
				s2[0] = attr[s2[0]].alias // subscribe by address
			case 1:
				s2 = append(s2, attr[s2[0]].alias) // by resource name AND by its address
			}
			// on-demand clients subscribe and unsubscribe "*" at once
			out.Line(reqOp, wire.EncList(append([]string{"*"}, s2...)), "*", init, nk)
		}
	}
	first()
	length := 2 + r.Intn(14)
	for i := 0; i < length; i++ {
		switch r.Intn(9) {
		case 0, 1, 2, 3:
			ch := mutate()
			out.Line("widx", encIdx(idx))
			if r.Chance(9, 10) {
				out.Line("wpush", wire.EncList(ch))
			}
		case 4:
			if !wild {
				add := wire.Subset(r, keys, 1, 4)
				rem := wire.Subset(r, keys, 1, 8)
				if len(add)+len(rem) > 0 {
					out.Line(reqOp, wire.EncList(add), wire.EncList(rem), "-", "empty")
				}
			} else if r.Chance(1, 2) {
				// a wildcard client names resources explicitly next to its wildcard (or drops such names again):
				// answered as a request (everything, plus removals for names that do not exist)
				add := wire.Subset(r, keys, 1, 4)
				rem := wire.Subset(r, keys, 1, 8)
				if len(add)+len(rem) > 0 {
					out.Line(reqOp, wire.EncList(add), wire.EncList(rem), "-", wire.Pick(r, []string{"empty", "cur"}))
				}
			} else {
				out.Line(reqOp, "-", "-", "-", "cur") // ACK
			}
		case 5:
			out.Line("wreconnect")
			first()
		case 6:
			out.Line("wpush", wire.EncList(wire.Subset(r, universe, 1, 2)))
		case 7:
			if r.Chance(1, 2) {
				// a push whose send fails: the stream dies, the client reconnects
				ch := mutate()
				out.Line("widx", encIdx(idx))
				out.Line("wfail", "1")
				out.Line("wpush", wire.EncList(ch))
				out.Line("wfail", "0")
				out.Line("wreconnect")
				first()
			} else {
				out.Line(reqOp, "-", "-", "-", "cur")
			}
		default:
			out.Line(reqOp, "-", "-", "-", "cur")
		}
	}
}

func genWdsAuth(r *wire.Rng, out *wire.Out) {
	pols := map[string]int{}
	mutate := func() []string {
		var changed []string
		for _, nm := range wire.Subset(r, wauthNames, 1, 2) {
			if _, ok := pols[nm]; ok && r.Chance(1, 2) {
				delete(pols, nm)
			} else {
				pols[nm] = 1 + r.Intn(3)
			}
			changed = append(changed, nm)
		}
		return changed
	}
	mutate()
	mutate()
	out.Line("wpol", encPols(pols))
	first := func() {
		nk := "empty"
		if r.Chance(1, 3) {
			nk = "stale"
		}
		switch r.Intn(8) {
		case 0, 1, 2:
			out.Line("wareq", "-", "-", "held", nk) // the legacy wildcard
		case 3:
			// an explicit subscription next to the wildcard
			out.Line("wareq", wire.EncList(append([]string{"*"}, wire.Subset(r, wauthNames, 1, 2)...)), "-", "held", nk)
		default:
			out.Line("wareq", "*", "-", "held", nk)
		}
	}
	first()
	length := 2 + r.Intn(12)
	for i := 0; i < length; i++ {
		switch r.Intn(10) {
		case 0, 1, 2, 3:
			ch := mutate()
			out.Line("wpol", encPols(pols))
			if r.Chance(9, 10) {
				out.Line("wapush", wire.EncList(ch), "0")
			}
		case 4:
			out.Line("wapush", "-", "1") // a full push
		case 5, 6:
			// the stream breaks; policies change (are deleted) while the client is away; it reconnects
			// presenting what it retained
			out.Line("wreconnect")
			if r.Chance(2, 3) {
				mutate()
				out.Line("wpol", encPols(pols))
			}
			first()
		case 7:
			out.Line("wapush", wire.EncList(wire.Subset(r, wauthNames, 1, 2)), wire.B(r.Chance(1, 4)))
		case 8:
			if r.Chance(1, 2) {
				ch := mutate()
				out.Line("wpol", encPols(pols))
				out.Line("wfail", "1")
				out.Line("wapush", wire.EncList(ch), "0")
				out.Line("wfail", "0")
				out.Line("wreconnect")
				first()
			} else {
				// a subscription change on the wildcard type: answered from the newly subscribed names only
				out.Line("wareq", wire.EncList(wire.Subset(r, wauthNames, 1, 2)), wire.EncList(wire.Subset(r, wauthNames, 1, 4)), "-", "empty")
			}
		default:
			out.Line("wareq", "-", "-", "-", "cur") // ACK
		}
	}
}

// oracleWds: the property on the real generators.
//
//	wds-client-stale          Address / Workload: a wildcard client that was told about every change (each
//	                          index change is followed by a push naming it) holds exactly the index; an
//	                          on-demand client holds, for every resource name it is subscribed to (by name, or
//	                          by an address that resolved when it asked), the current version iff it exists -
//	                          also after the resource was removed and re-created, and after a reconnect
//	                          presenting versions. The Workload type never carries a Service.
//	wauth-client-stale        Authorization: after the answer to a first request (whatever it retained, also
//	                          policies deleted while it was away), after a forced push, and after pushes that
//	                          named every changed policy, the client holds exactly the policies.
//	wds-removed-still-needed  "nothing it still needs is removed": a name in removed_resources is not the
//	                          name of something that exists, nor an address of a resource the same response
//	                          delivers.
func oracleWds(in string) []string {
	var verdicts []string
	verdict, open, idx := "", false, 0
	flush := func() {
		if open {
			if verdict == "" {
				verdict = "OK"
			}
			verdicts = append(verdicts, verdict)
		}
	}
	w := newWds()
	wild, failing := false, false
	typ := "WDS"
	subscribed := sets.New[string]()
	dirty := sets.New[string]() // names changed and not yet announced by a push that reached the client
	excluded := sets.New[string]()
	suspended := false
	rawSubs := sets.New[string]() // the names the client asked for on this stream, as it wrote them
	prevIdx, prevPol := map[string]int{}, map[string]int{}
	fresh := true // no request yet on the current stream
	diffInto := func(prev, cur map[string]int) {
		for n, v := range cur {
			if pv, ok := prev[n]; !ok || pv != v {
				dirty.Insert(n)
			}
		}
		for n := range prev {
			if _, ok := cur[n]; !ok {
				dirty.Insert(n)
			}
		}
	}
	for _, f := range wire.ReadLines(in) {
		if f[0] == "case" {
			flush()
			verdict, open, idx = "", true, 0
			wild, failing, typ, subscribed, dirty = false, false, "WDS", sets.New[string](), sets.New[string]()
			excluded, suspended = sets.New[string](), false
			prevIdx, prevPol = map[string]int{}, map[string]int{}
			fresh = true
		}
		idx++
		if w.apply(f) == "crash" && verdict == "" {
			verdict = fmt.Sprintf("FAIL never-crashes op=%d", idx-1)
		}
		switch f[0] {
		case "wlreq":
			typ = "WL"
		case "wareq", "wapush", "wpol":
			typ = "WAUTH"
		}
		// what exists, as the client of this type may hold it
		cur, byName := map[string]int{}, map[string]wl{}
		if typ == "WAUTH" {
			for _, p := range w.idx.pols {
				cur[p.name] = p.ver
			}
		} else {
			for _, x := range w.idx.wls {
				byName[x.name] = x
				if typ == "WL" && x.svc {
					continue
				}
				cur[x.name] = x.ver
			}
		}
		// every response of this op: nothing still needed is removed
		for _, resp := range w.last {
			for _, n := range resp.RemovedResources {
				if verdict != "" {
					break
				}
				if typ == "WAUTH" {
					if _, ok := cur[n]; ok {
						verdict = fmt.Sprintf("FAIL wds-removed-still-needed op=%d type=%s removed=%s exists", idx-1, typ, n)
					}
					continue
				}
				if _, ok := byName[n]; ok {
					verdict = fmt.Sprintf("FAIL wds-removed-still-needed op=%d type=%s removed=%s exists", idx-1, typ, n)
				}
				for _, rr := range resp.Resources {
					// (on-demand only: the wildcard path has no alias rule - a wildcard client that names an ADDRESS
					// explicitly is told the address is "removed" while the resource behind it is delivered,
					// observation O-C03-5; no ztunnel does that)
					if wild {
						break
					}
					if x, ok := byName[rr.Name]; ok && x.alias == n {
						verdict = fmt.Sprintf("FAIL wds-removed-still-needed op=%d type=%s removed=%s is-an-address-of=%s (delivered in the same response)", idx-1, typ, n, rr.Name)
					}
				}
			}
		}
		w.last = nil
		switch f[0] {
		case "widx":
			diffInto(prevIdx, cur)
			prevIdx = cur
			continue
		case "wpol":
			diffInto(prevPol, cur)
			prevPol = cur
			continue
		case "wfail":
			failing = f[1] == "1"
			continue
		case "wreq", "wlreq", "wareq":
			if failing {
				break
			}
			sub, unsub := wire.DecList(f[1]), wire.DecList(f[2])
			// the first request of a stream, whatever its shape ("*", the legacy empty subscription, with or
			// without a retained nonce)
			isFirst := fresh
			fresh = false
			if isFirst {
				wild = (len(sub) == 0 || sets.New(sub...).Contains("*")) && !sets.New(unsub...).Contains("*")
				subscribed, rawSubs = sets.New[string](), sets.New[string]()
				dirty = sets.New[string]() // a first request is answered from everything that exists
			}
			if typ == "WAUTH" {
				// a client that unsubscribes a name explicitly while its wildcard stays (no ztunnel does) makes
				// the server forget that it holds it: outside the clause from then on
				if !isFirst {
					if len(sub)+len(unsub) > 0 {
						// a subscription change next to the wildcard: the answer is generated for the newly subscribed
						// names only and the record is reset to (those - removed + generated): what the client holds of
						// policies whose deletion was not pushed yet is forgotten (observation O-C03-4; no ztunnel
						// changes its Authorization subscription). Not judged until the next first request.
						suspended = true
					}
				} else {
					suspended = false
				}
				break
			}
			for _, s := range sub {
				if s == "*" || sets.New(unsub...).Contains(s) {
					continue // subscribed and unsubscribed in one request: not subscribed
				}
				if rawSubs.InsertContains(s) && strings.HasPrefix(s, "net/") {
					continue // an address it is subscribed to already: a no-op, not a new question (O-C03-2)
				}
				for _, x := range w.idx.wls {
					// by resource name, or by address when the address resolves at that moment (a
					// subscription by address to a workload that does not exist yet is only recorded
					// under the address, and pushes are keyed by resource name: observation O-C03-2,
					// outside this clause)
					if s == x.alias && !x.noIdx {
						subscribed.Insert(x.name)
					}
				}
				if _, isAlias := aliasOwner(s); !isAlias {
					subscribed.Insert(s)
				}
			}
			for _, s := range unsub {
				subscribed.Delete(s)
				rawSubs.Delete(s)
			}
		case "wpush":
			if !failing {
				for _, n := range wire.DecList(f[1]) {
					dirty.Delete(n)
				}
			}
		case "wapush":
			if !failing {
				if f[2] == "1" {
					dirty = sets.New[string]()
				}
				for _, n := range wire.DecList(f[1]) {
					dirty.Delete(n)
				}
			}
		case "wreconnect":
			fresh = true
			continue
		}
		if verdict != "" || fresh || suspended {
			continue
		}
		clause := "wds-client-stale"
		if typ == "WAUTH" {
			clause = "wauth-client-stale"
		}
		check := func(n string) {
			if dirty.Contains(n) || excluded.Contains(n) {
				return
			}
			hv, hok := w.held[typ][n]
			cv, cok := cur[n]
			if hok != cok || (cok && hv != cv) {
				verdict = fmt.Sprintf("FAIL %s op=%d type=%s name=%s exists=%v/%d held=%v/%d wildcard=%v", clause, idx-1, typ, n, cok, cv, hok, hv, wild)
			}
		}
		switch {
		case typ == "WAUTH":
			for _, n := range wauthNames {
				check(n)
			}
		case wild:
			for _, n := range append(append([]string(nil), wdsNames...), wdsSvc) {
				check(n)
			}
		default:
			for n := range subscribed {
				check(n)
			}
		}
	}
	flush()
	return verdicts
}

// aliasOwner: is s one of the addresses of the universe (not a resource name)?
func aliasOwner(s string) (string, bool) {
	return "", strings.HasPrefix(s, "net/")
}
