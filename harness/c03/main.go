// Harness for C03 (and the bookkeeping half of C05): drives the real processDeltaRequest /
// pushConnectionDelta / processRequest / pushConnection (through the verif hooks) on a bare
// DiscoveryServer whose generators are supplied by the harness.
//
//	c03 gen    <stream> <seed> <ncases> <ops-out>
//	c03 exec   <stream> <ops-in> <impl-out>
//	c03 oracle <stream> <ops-in> <verdict-out>
//
// Stream book:  generator outputs are scripted per type (`out` lines); the server's responses
//
//	(resources, removed_resources) and its watch table are compared with the Lean
//	model (lean/IstioModel/C03/Server.lean) after every request / push.
//
// Stream equiv: world-based generators; one SotW and one delta client (the client logic is in
//
//	this file and in lean/IstioModel/C03/Clients.lean) follow the same history;
//	what each holds is printed after every step.
package main

import (
	"context"
	"errors"
	"fmt"
	"os"
	"sort"
	"strconv"
	"strings"

	discovery "github.com/envoyproxy/go-control-plane/envoy/service/discovery/v3"
	"google.golang.org/genproto/googleapis/rpc/status"
	"google.golang.org/grpc/metadata"
	"google.golang.org/protobuf/types/known/anypb"

	"istio.io/istio/pilot/pkg/model"
	pxds "istio.io/istio/pilot/pkg/xds"
	v3 "istio.io/istio/pilot/pkg/xds/v3"
	"istio.io/istio/pkg/config/schema/kind"
	"istio.io/istio/pkg/util/sets"
	_ "verifharness/internal/quiet"
	"verifharness/internal/wire"
)

var typeOrder = []string{"CDS", "EDS", "LDS", "RDS", "SDS", "ECDS", "NDS", "WDS", "WL", "WAUTH"}

var typeURL = map[string]string{
	"CDS": v3.ClusterType, "EDS": v3.EndpointType, "LDS": v3.ListenerType, "RDS": v3.RouteType,
	"SDS": v3.SecretType, "ECDS": v3.ExtensionConfigurationType, "NDS": v3.NameTableType,
	"WDS": v3.AddressType, "WL": v3.WorkloadType, "WAUTH": v3.WorkloadAuthorizationType,
}

var shortOf = func() map[string]string {
	m := map[string]string{}
	for k, v := range typeURL {
		m[v] = k
	}
	return m
}()

func main() {
	if len(os.Args) < 2 {
		fmt.Fprintln(os.Stderr, "usage: c03 gen|exec|oracle ...")
		os.Exit(2)
	}
	switch os.Args[1] {
	case "gen":
		seed, _ := strconv.ParseUint(os.Args[3], 10, 64)
		n, _ := strconv.Atoi(os.Args[4])
		switch os.Args[2] {
		case "book":
			genBook(seed, n, os.Args[5])
		case "wds":
			genWds(seed, n, os.Args[5])
		default:
			genEquiv(os.Args[2], seed, n, os.Args[5])
		}
	case "exec":
		execOps(os.Args[2], os.Args[3], os.Args[4])
	case "oracle":
		oracle(os.Args[2], os.Args[3], os.Args[4])
	default:
		os.Exit(2)
	}
}

// ---------------------------------------------------------------- resources

type res struct {
	name string
	ver  int
}

func decRes(tok string) []res {
	if tok == "-" || tok == "nil" {
		return nil
	}
	var out []res
	for _, e := range strings.Split(tok, ",") {
		p := strings.SplitN(e, "@", 2)
		v := 0
		if len(p) == 2 {
			v, _ = strconv.Atoi(p[1])
		}
		out = append(out, res{wire.Dec(p[0]), v})
	}
	return out
}

func encRes(l []res) string {
	if len(l) == 0 {
		return "-"
	}
	parts := make([]string, len(l))
	for i, r := range l {
		parts[i] = wire.Enc(r.name) + "@" + strconv.Itoa(r.ver)
	}
	return strings.Join(parts, ",")
}

// toResources builds real discovery resources; the version travels in Resource.Version and in the
// Any payload (SotW responses carry only the Any).
func toResources(l []res, isNil bool) model.Resources {
	if isNil {
		return nil
	}
	out := make(model.Resources, 0, len(l))
	for _, r := range l {
		out = append(out, &discovery.Resource{
			Name: r.name, Version: strconv.Itoa(r.ver),
			Resource: &anypb.Any{TypeUrl: "verif/res", Value: []byte(r.name + "@" + strconv.Itoa(r.ver))},
		})
	}
	return out
}

func fromAny(a *anypb.Any) res {
	p := strings.SplitN(string(a.Value), "@", 2)
	v := 0
	if len(p) == 2 {
		v, _ = strconv.Atoi(p[1])
	}
	return res{p[0], v}
}

// ---------------------------------------------------------------- generators

type genOut struct {
	resNil, delNil bool
	res            []res
	deleted        []string
	used, inc      bool
}

// genFn computes a generator's answer from the type and the watched resource it is handed.
type genFn func(short string, w *model.WatchedResource, req *model.PushRequest, viaDelta bool) genOut

// plainGen implements only model.XdsResourceGenerator (not delta-aware).
type plainGen struct {
	short string
	f     genFn
}

func (g plainGen) Generate(_ *model.Proxy, w *model.WatchedResource, req *model.PushRequest) (model.Resources, model.XdsLogDetails, error) {
	o := g.f(g.short, w, req, false)
	return toResources(o.res, o.resNil), model.XdsLogDetails{Incremental: o.inc}, nil
}

// deltaGen also implements model.XdsDeltaResourceGenerator.
type deltaGen struct{ plainGen }

func (g deltaGen) GenerateDeltas(_ *model.Proxy, req *model.PushRequest, w *model.WatchedResource) (
	model.Resources, model.DeletedResources, model.XdsLogDetails, bool, error,
) {
	o := g.f(g.short, w, req, true)
	var del model.DeletedResources
	if !o.delNil {
		del = append(model.DeletedResources{}, o.deleted...)
	}
	return toResources(o.res, o.resNil), del, model.XdsLogDetails{Incremental: o.inc}, o.used, nil
}

// ---------------------------------------------------------------- fake streams

type baseStream struct{ fail bool }

func (b *baseStream) SetHeader(metadata.MD) error  { return nil }
func (b *baseStream) SendHeader(metadata.MD) error { return nil }
func (b *baseStream) SetTrailer(metadata.MD)       {}
func (b *baseStream) Context() context.Context     { return context.Background() }
func (b *baseStream) SendMsg(any) error            { return nil }
func (b *baseStream) RecvMsg(any) error            { return nil }

type wireResp struct {
	short   string
	res     []res
	removed []string
	nonce   string
}

type sotwStream struct {
	baseStream
	got []wireResp
}

func (s *sotwStream) Send(r *discovery.DiscoveryResponse) error {
	if s.fail {
		return errors.New("send failed")
	}
	w := wireResp{short: shortOf[r.TypeUrl], nonce: r.Nonce}
	for _, a := range r.Resources {
		w.res = append(w.res, fromAny(a))
	}
	s.got = append(s.got, w)
	return nil
}
func (s *sotwStream) Recv() (*discovery.DiscoveryRequest, error) { return nil, errors.New("eof") }

type deltaStream struct {
	baseStream
	got []wireResp
	raw []*discovery.DeltaDiscoveryResponse
}

func (s *deltaStream) Send(r *discovery.DeltaDiscoveryResponse) error {
	if s.fail {
		return errors.New("send failed")
	}
	w := wireResp{short: shortOf[r.TypeUrl], nonce: r.Nonce, removed: append([]string(nil), r.RemovedResources...)}
	for _, rr := range r.Resources {
		v, _ := strconv.Atoi(rr.Version)
		w.res = append(w.res, res{rr.Name, v})
	}
	s.got = append(s.got, w)
	s.raw = append(s.raw, r)
	return nil
}
func (s *deltaStream) Recv() (*discovery.DeltaDiscoveryRequest, error) {
	return nil, errors.New("eof")
}

// ---------------------------------------------------------------- system under test

type sut struct {
	srv    *pxds.DiscoveryServer
	gens   map[string]model.XdsResourceGenerator
	dproxy *model.Proxy
	sproxy *model.Proxy
	ds     *deltaStream
	ss     *sotwStream
	dcon   *pxds.Connection
	scon   *pxds.Connection
	push   *model.PushContext
}

func newProxy(id string, push *model.PushContext) *model.Proxy {
	return &model.Proxy{
		ID: id, Type: model.SidecarProxy, Metadata: &model.NodeMetadata{},
		WatchedResources: map[string]*model.WatchedResource{}, LastPushContext: push,
	}
}

func newSUT(f genFn, deltaAware map[string]bool) *sut {
	s := &sut{gens: map[string]model.XdsResourceGenerator{}, ds: &deltaStream{}, ss: &sotwStream{}}
	s.push = model.NewPushContext()
	s.push.PushVersion = "v1/"
	for _, t := range typeOrder {
		s.setGen(t, f, deltaAware[t])
	}
	s.srv = pxds.VerifC03NewServer(s.gens)
	s.dproxy = newProxy("delta-proxy", s.push)
	s.sproxy = newProxy("sotw-proxy", s.push)
	s.dcon = pxds.VerifNewDeltaConnection(s.dproxy, s.ds)
	s.scon = pxds.VerifNewConnection(s.sproxy, s.ss)
	return s
}

func (s *sut) setGen(short string, f genFn, deltaAware bool) {
	pg := plainGen{short: short, f: f}
	if deltaAware {
		s.gens[typeURL[short]] = deltaGen{pg}
	} else {
		s.gens[typeURL[short]] = pg
	}
}

// pushRequest is a non-forced push that skips computeProxyState (only endpoint keys).
func (s *sut) pushRequest() *model.PushRequest {
	return &model.PushRequest{
		Push:           s.push,
		ConfigsUpdated: sets.New(model.ConfigKey{Kind: kind.Endpoints, Name: "x", Namespace: "y"}),
		Reason:         model.NewReasonStats(model.EndpointUpdate),
	}
}

func errDetail(tok string) *status.Status {
	if tok == "-" {
		return nil
	}
	return &status.Status{Code: 13, Message: wire.Dec(tok[2:])}
}

var wireRank = map[string]int{"CDS": 0, "EDS": 1, "LDS": 2, "RDS": 3, "SDS": 4, "WDS": 5, "WL": 6, "WAUTH": 7, "ECDS": 8, "NDS": 9}

func showWires(ws []wireResp) string {
	if len(ws) == 0 {
		return "-"
	}
	// PushOrder first (CDS EDS LDS RDS SDS WDS WL WAUTH), then the unordered types, as the model prints them
	c := append([]wireResp(nil), ws...)
	sort.SliceStable(c, func(i, j int) bool { return wireRank[c[i].short] < wireRank[c[j].short] })
	parts := make([]string, len(c))
	for i, w := range c {
		parts[i] = fmt.Sprintf("%s:res=%s;rem=%s", w.short, encRes(w.res), wire.EncSet(w.removed))
	}
	return strings.Join(parts, " ")
}

func showState(p *model.Proxy) string {
	var parts []string
	for _, t := range typeOrder {
		w := p.WatchedResources[typeURL[t]]
		if w == nil {
			continue
		}
		acked := "old"
		if w.NonceAcked == "" {
			acked = "empty"
		} else if w.NonceAcked == w.NonceSent {
			acked = "cur"
		}
		parts = append(parts, fmt.Sprintf("%s[names=%s;w=%s;sent=%s;acked=%s;always=%s;err=%s]", t,
			wire.EncSet(w.ResourceNames.UnsortedList()), wire.B(w.Wildcard), wire.B(w.NonceSent != ""),
			acked, wire.B(w.AlwaysRespond), wire.Enc(w.LastError)))
	}
	if len(parts) == 0 {
		return "empty"
	}
	return strings.Join(parts, " ")
}

func resolveNonce(p *model.Proxy, short, k string) string {
	switch k {
	case "cur":
		if w := p.WatchedResources[typeURL[short]]; w != nil {
			return w.NonceSent
		}
		return ""
	case "stale":
		return "stale-nonce"
	}
	return ""
}

// canonSegment puts the responses of ONE handler call into the order the model prints them in: the types of
// PushOrder keep the order the real code sent them in (so a change of that order is visible), only the
// unordered types (ECDS, NDS: Go map order) are moved behind them in a fixed order.
func canonSegment(ws []wireResp) {
	key := func(w wireResp) int {
		switch w.short {
		case "ECDS":
			return 1
		case "NDS":
			return 2
		}
		return 0
	}
	sort.SliceStable(ws, func(i, j int) bool { return key(ws[i]) < key(ws[j]) })
}

func (s *sut) pushSotw() {
	n := len(s.ss.got)
	_ = pxds.VerifC03PushConnection(s.srv, s.scon, s.pushRequest())
	canonSegment(s.ss.got[n:])
}

func (s *sut) pushDelta() {
	n := len(s.ds.got)
	_ = pxds.VerifC03PushConnectionDelta(s.srv, s.dcon, s.pushRequest())
	canonSegment(s.ds.got[n:])
}

func (s *sut) deltaRequest(short string, sub, unsub, init []string, nonce string, errTok string) {
	req := &discovery.DeltaDiscoveryRequest{
		TypeUrl: typeURL[short], ResourceNamesSubscribe: sub, ResourceNamesUnsubscribe: unsub,
		ResponseNonce: nonce, ErrorDetail: errDetail(errTok),
	}
	if len(init) > 0 {
		req.InitialResourceVersions = map[string]string{}
		for _, n := range init {
			req.InitialResourceVersions[n] = "retained"
		}
	}
	n := len(s.ds.got)
	_ = pxds.VerifC03ProcessDeltaRequest(s.srv, req, s.dcon)
	canonSegment(s.ds.got[n:])
}

func (s *sut) sotwRequest(short string, names []string, nonce string, errTok string) {
	req := &discovery.DiscoveryRequest{
		TypeUrl: typeURL[short], ResourceNames: names, ResponseNonce: nonce, ErrorDetail: errDetail(errTok),
	}
	n := len(s.ss.got)
	_ = pxds.VerifC03ProcessRequest(s.srv, req, s.scon)
	canonSegment(s.ss.got[n:])
}

// ---------------------------------------------------------------- stream book

type bookSys struct {
	*sut
	outs map[string]genOut
}

func newBook() *bookSys {
	b := &bookSys{outs: map[string]genOut{}}
	b.sut = newSUT(b.scripted, nil)
	return b
}

func (b *bookSys) scripted(short string, _ *model.WatchedResource, _ *model.PushRequest, _ bool) genOut {
	if o, ok := b.outs[short]; ok {
		return o
	}
	return genOut{resNil: true, delNil: true}
}

func (b *bookSys) apply(f []string) (out string) {
	defer func() {
		if r := recover(); r != nil {
			out = "crash"
		}
	}()
	switch f[0] {
	case "case":
		*b = *newBook()
		return "ok"
	case "out":
		o := genOut{resNil: f[3] == "nil", res: decRes(f[3]), inc: f[6] == "1", delNil: true}
		if f[2] != "plain" {
			o.delNil = f[4] == "nil"
			if !o.delNil {
				o.deleted = wire.DecList(f[4])
			}
			o.used = f[5] == "1"
		}
		b.outs[f[1]] = o
		b.setGen(f[1], b.scripted, f[2] != "plain")
		return "ok"
	case "fail":
		if f[1] == "D" {
			b.ds.fail = f[2] == "1"
		} else {
			b.ss.fail = f[2] == "1"
		}
		return "ok"
	case "dreq":
		b.ds.got = nil
		b.deltaRequest(f[1], wire.DecList(f[2]), wire.DecList(f[3]), wire.DecList(f[4]), resolveNonce(b.dproxy, f[1], f[5]), f[6])
		return showWires(b.ds.got) + " | " + showState(b.dproxy)
	case "dpush":
		b.ds.got = nil
		_ = pxds.VerifC03PushConnectionDelta(b.srv, b.dcon, b.pushRequest())
		return showWires(b.ds.got) + " | " + showState(b.dproxy)
	case "req":
		b.ss.got = nil
		b.sotwRequest(f[1], wire.DecList(f[2]), resolveNonce(b.sproxy, f[1], f[3]), f[4])
		return showWires(b.ss.got) + " | " + showState(b.sproxy)
	case "push":
		b.ss.got = nil
		_ = pxds.VerifC03PushConnection(b.srv, b.scon, b.pushRequest())
		return showWires(b.ss.got) + " | " + showState(b.sproxy)
	}
	return "bad-op"
}

var nameUniverse = []string{"a", "b", "c", "d"}

func genResList(r *wire.Rng) string {
	l := wire.Subset(r, nameUniverse, 1, 2)
	if len(l) == 0 {
		return "-"
	}
	parts := make([]string, len(l))
	for i, n := range l {
		parts[i] = n + "@" + strconv.Itoa(1+r.Intn(3))
	}
	return strings.Join(parts, ",")
}

func genBook(seed uint64, n int, outp string) {
	out := wire.Create(outp)
	defer out.Close()
	root := wire.NewRng(seed ^ 0xC03B)
	for c := 0; c < n; c++ {
		r := root.Fork()
		out.Line("case", strconv.Itoa(c), "book")
		types := wire.Subset(r, typeOrder, 1, 3)
		if len(types) == 0 || r.Chance(1, 2) {
			types = append(types, "CDS", "EDS")
		}
		genOutLine := func(t string) {
			k := "plain"
			if r.Chance(1, 2) {
				k = "delta"
			}
			resTok := genResList(r)
			if r.Chance(1, 8) {
				resTok = "nil"
			}
			del := "nil"
			if r.Chance(1, 2) {
				del = wire.EncList(wire.Subset(r, nameUniverse, 1, 3))
			}
			out.Line("out", t, k, resTok, del, wire.B(r.Chance(1, 2)), wire.B(r.Chance(1, 4)))
		}
		for _, t := range types {
			if r.Chance(4, 5) {
				genOutLine(t)
			}
		}
		pickNonce := func() string {
			switch r.Intn(8) {
			case 0:
				return "empty"
			case 1:
				return "stale"
			}
			return "cur"
		}
		pickErr := func() string {
			if r.Chance(1, 12) {
				return "e:boom"
			}
			return "-"
		}
		length := 2 + r.Intn(25)
		for i := 0; i < length; i++ {
			t := wire.Pick(r, types)
			switch r.Intn(12) {
			case 0, 1, 2:
				univ := append([]string{"*"}, nameUniverse...)
				sub := wire.Subset(r, univ, 1, 3)
				unsub := wire.Subset(r, univ, 1, 6)
				var init []string
				if r.Chance(1, 5) {
					init = wire.Subset(r, nameUniverse, 1, 2)
				}
				nk := pickNonce()
				if r.Chance(1, 2) {
					nk = "empty" // spontaneous subscription change
				}
				out.Line("dreq", t, wire.EncList(sub), wire.EncList(unsub), wire.EncList(init), nk, pickErr())
			case 3:
				out.Line("dreq", t, "-", "-", "-", "cur", pickErr()) // ACK
			case 4, 5:
				out.Line("dpush")
			case 6, 7:
				names := wire.Subset(r, nameUniverse, 1, 2)
				out.Line("req", t, wire.EncList(names), pickNonce(), pickErr())
			case 8:
				out.Line("push")
			case 9:
				genOutLine(t)
			case 10:
				if r.Chance(1, 3) {
					out.Line("fail", wire.Pick(r, []string{"D", "S"}), wire.B(r.Chance(1, 2)))
				} else {
					out.Line("dpush")
				}
			default:
				out.Line("push")
			}
		}
	}
}

func execOps(stream, in, outp string) {
	out := wire.Create(outp)
	defer out.Close()
	b := newBook()
	e := newEquiv("equiv")
	w := newWds()
	for _, f := range wire.ReadLines(in) {
		if stream == "book" {
			out.Line(b.apply(f))
		} else if stream == "wds" {
			out.Line(w.apply(f))
		} else {
			out.Line(e.apply(f))
		}
		out.Flush()
	}
}

// ---------------------------------------------------------------- stream equiv
//
// World-based generators and two clients following the same history.
//   wild   (CDS LDS NDS): every resource of the world, whatever names are watched
//   named  (EDS RDS):     one resource per watched name (version 0 when it does not exist)
//   found  (SDS ECDS):    one resource per watched name that exists
// In stream equivd the CDS generator is delta-aware like BuildDeltaClusters: on a non-forced
// push it returns the changed resources and the watched names that ceased to exist (usedDelta).

type clientTy struct {
	subscribed bool
	sub        []string // sorted set; empty = wildcard for wildcard types
	held       map[string]int
	nonce      string
}

type client struct{ ty map[string]*clientTy }

func newClient() *client {
	c := &client{ty: map[string]*clientTy{}}
	for _, t := range typeOrder {
		c.ty[t] = &clientTy{held: map[string]int{}}
	}
	return c
}

type equivSys struct {
	*sut
	mode    string
	world   map[string]map[string]int // what the generators see (snapshot of the last push; EDS live)
	pending map[string]map[string]int // latest state, published by the next push
	changed map[string]sets.String
	sc, dc  *client
	// types for which a response reached the SotW / delta client during the last op
	gotS, gotD sets.String
	// the responses delivered to the two clients during the last op, in delivery order: type/resources/removed
	traceS, traceD []string
	// case flags (C05): deltaCds = the CDS generator is delta-aware (always in stream equivd; flag d elsewhere);
	// nilFound (flag z) = a found-only generator (SDS, ECDS) returns nil - not an empty list - when none of the
	// watched names exists, as a generator that has nothing to say does: nothing is sent at all
	deltaCds, nilFound bool
}

var genClass = map[string]string{
	"CDS": "wild", "LDS": "wild", "NDS": "wild", "EDS": "named", "RDS": "named", "SDS": "found", "ECDS": "found",
	"WDS": "wild", "WL": "wild", "WAUTH": "wild",
}

var equivTypes = []string{"CDS", "EDS", "LDS", "RDS", "SDS", "ECDS", "NDS"}

func isWildcardType(short string) bool {
	switch short {
	case "EDS", "RDS", "SDS", "ECDS":
		return false
	}
	return true
}

func newEquiv(mode string, flags ...string) *equivSys {
	fl := strings.Join(flags, "")
	e := &equivSys{
		deltaCds: mode == "equivd" || strings.Contains(fl, "d"), nilFound: strings.Contains(fl, "z"),
		mode: mode, world: map[string]map[string]int{}, pending: map[string]map[string]int{},
		changed: map[string]sets.String{}, sc: newClient(), dc: newClient(),
	}
	for _, t := range typeOrder {
		e.world[t] = map[string]int{}
		e.pending[t] = map[string]int{}
		e.changed[t] = sets.New[string]()
	}
	e.sut = newSUT(e.worldGen, map[string]bool{"CDS": e.deltaCds})
	return e
}

func sortedNames(m map[string]int) []string {
	out := make([]string, 0, len(m))
	for k := range m {
		out = append(out, k)
	}
	sort.Strings(out)
	return out
}

func (e *equivSys) worldGen(short string, w *model.WatchedResource, req *model.PushRequest, viaDelta bool) genOut {
	world := e.world[short]
	o := genOut{delNil: true}
	watched := sets.SortedList(w.ResourceNames)
	switch genClass[short] {
	case "wild":
		if viaDelta && e.deltaCds && short == "CDS" && !req.Forced {
			// delta-aware: changed resources; watched names that no longer exist are deleted
			o.used, o.delNil = true, false
			for _, n := range sets.SortedList(e.changed[short]) {
				if v, ok := world[n]; ok {
					o.res = append(o.res, res{n, v})
				} else if w.ResourceNames.Contains(n) {
					o.deleted = append(o.deleted, n)
				}
			}
			return o
		}
		for _, n := range sortedNames(world) {
			o.res = append(o.res, res{n, world[n]})
		}
	case "named":
		for _, n := range watched {
			o.res = append(o.res, res{n, world[n]})
		}
	case "found":
		for _, n := range watched {
			if v, ok := world[n]; ok {
				o.res = append(o.res, res{n, v})
			}
		}
		if e.nilFound && len(o.res) == 0 {
			o.resNil = true
		}
	}
	return o
}

func showHeld(c *client) string {
	var parts []string
	for _, t := range equivTypes {
		ct := c.ty[t]
		if !ct.subscribed && len(ct.held) == 0 {
			continue
		}
		var l []res
		for _, n := range sortedNames(ct.held) {
			l = append(l, res{n, ct.held[n]})
		}
		parts = append(parts, t+"{"+encRes(l)+"}")
	}
	if len(parts) == 0 {
		return "none"
	}
	return strings.Join(parts, " ")
}

func showTrace(t []string) string {
	if len(t) == 0 {
		return "-"
	}
	return strings.Join(t, ",")
}

// show: what the two clients hold, and every response that was delivered to them during the op (a response
// that leaves the held maps unchanged - e.g. the forced EDS push after a CDS request - is visible only here)
func (e *equivSys) show() string {
	return "S:" + showHeld(e.sc) + " D:" + showHeld(e.dc) + " | s=" + showTrace(e.traceS) + " d=" + showTrace(e.traceD)
}

// deliver hands every captured response to its client, which applies and ACKs it; repeats while
// the ACKs trigger further responses (bounded).
func (e *equivSys) deliver() { e.deliverBudget(1<<30, 1<<30) }

// deliverBudget delivers at most bs responses to the SotW client and bd to the delta client (the
// stream is cut after that: the remaining responses are lost and never acknowledged).
func (e *equivSys) deliverBudget(bs, bd int) {
	e.gotS, e.gotD = sets.New[string](), sets.New[string]()
	for round := 0; round < 8; round++ {
		sg, dg := e.ss.got, e.ds.got
		e.ss.got, e.ds.got = nil, nil
		if len(sg) == 0 && len(dg) == 0 {
			return
		}
		// the responses are in the order the real code sent them (canonSegment per handler call)
		if len(sg) > bs {
			sg = sg[:bs]
		}
		bs -= len(sg)
		if len(dg) > bd {
			dg = dg[:bd]
		}
		bd -= len(dg)
		for _, w := range sg {
			e.gotS.Insert(w.short)
			e.traceS = append(e.traceS, fmt.Sprintf("%s/%d/0", w.short, len(w.res)))
			ct := e.sc.ty[w.short]
			if isWildcardType(w.short) {
				ct.held = map[string]int{}
			}
			for _, r := range w.res {
				ct.held[r.name] = r.ver
			}
			ct.nonce = w.nonce
			if ct.subscribed {
				e.sotwRequest(w.short, ct.sub, w.nonce, "-")
			}
		}
		for _, w := range dg {
			e.gotD.Insert(w.short)
			e.traceD = append(e.traceD, fmt.Sprintf("%s/%d/%d", w.short, len(w.res), len(w.removed)))
			ct := e.dc.ty[w.short]
			for _, r := range w.res {
				ct.held[r.name] = r.ver
			}
			for _, n := range w.removed {
				delete(ct.held, n)
			}
			ct.nonce = w.nonce
			e.deltaRequest(w.short, nil, nil, nil, w.nonce, "-")
		}
	}
}

func diffSorted(a, b []string) []string {
	bs := sets.New(b...)
	var out []string
	for _, x := range a {
		if !bs.Contains(x) {
			out = append(out, x)
		}
	}
	return out
}

func (e *equivSys) apply(f []string) (out string) {
	defer func() {
		if r := recover(); r != nil {
			out = "crash"
		}
	}()
	e.traceS, e.traceD = nil, nil
	switch f[0] {
	case "case":
		*e = *newEquiv(f[2], f[3:]...)
		return "ok"
	case "world":
		nw := map[string]int{}
		for _, r := range decRes(f[2]) {
			nw[r.name] = r.ver
		}
		// generation reads the PushContext snapshot of the last push to the connection: a change
		// becomes visible at the next push; endpoints are read live
		old := e.pending[f[1]]
		for n, v := range nw {
			if ov, ok := old[n]; !ok || ov != v {
				e.changed[f[1]].Insert(n)
			}
		}
		for n := range old {
			if _, ok := nw[n]; !ok {
				e.changed[f[1]].Insert(n)
			}
		}
		e.pending[f[1]] = nw
		if f[1] == "EDS" {
			e.world[f[1]] = nw
		}
	case "sub":
		t := f[1]
		names := sets.SortedList(sets.New(wire.DecList(f[2])...))
		// flag x (C05): the first request of the stream for this type is the NACK the proxy could not send
		// before the previous stream broke (error_detail set), for both clients
		nackS, nackD := "-", "-"
		if len(f) > 3 && strings.Contains(f[3], "x") {
			if !e.sc.ty[t].subscribed {
				nackS = "e:" + wire.Enc("rejected on the previous stream")
			}
			if !e.dc.ty[t].subscribed {
				nackD = "e:" + wire.Enc("rejected on the previous stream")
			}
		}
		// SotW client
		sc := e.sc.ty[t]
		for _, n := range diffSorted(sc.sub, names) {
			if !isWildcardType(t) {
				delete(sc.held, n)
			}
		}
		if len(names) == 0 && !isWildcardType(t) {
			sc.held = map[string]int{}
			if sc.subscribed {
				e.sotwRequest(t, nil, sc.nonce, "-")
			}
			sc.subscribed, sc.sub = false, nil
		} else {
			// a reconnecting client presents the nonce it retained from the previous stream
			sc.subscribed, sc.sub = true, names
			e.sotwRequest(t, names, sc.nonce, nackS)
		}
		// delta client
		dc := e.dc.ty[t]
		if !dc.subscribed {
			if len(names) == 0 && !isWildcardType(t) {
				dc.held = map[string]int{} // nothing wanted of this type any more
				break
			}
			// optional flags (C05, reconnect): n = the first request presents the nonce retained from the previous
			// stream; e = a wildcard subscription is made the legacy way (no resource_names_subscribe at all)
			flags := ""
			if len(f) > 3 {
				flags = f[3]
			}
			sub := names
			if len(names) == 0 && !strings.Contains(flags, "e") {
				sub = []string{"*"}
			}
			firstNonce := ""
			if strings.Contains(flags, "n") {
				firstNonce = dc.nonce
			}
			dc.subscribed, dc.sub = true, names
			if !isWildcardType(t) {
				// a named resource the client no longer wants is dropped before it reports what it retains
				want := sets.New(names...)
				for n := range dc.held {
					if !want.Contains(n) {
						delete(dc.held, n)
					}
				}
			}
			// first request on a stream: report everything retained (initial_resource_versions)
			e.deltaRequest(t, sub, nil, sortedNames(dc.held), firstNonce, nackD)
		} else {
			add := diffSorted(names, dc.sub)
			rem := diffSorted(dc.sub, names)
			if !isWildcardType(t) {
				for _, n := range rem {
					delete(dc.held, n)
				}
			}
			dc.sub = names
			if len(add) > 0 || len(rem) > 0 {
				e.deltaRequest(t, add, rem, nil, "", "-")
			}
		}
	case "pushcut":
		// a push whose delivery is cut after k responses per client (mid-push, between CDS and EDS,
		// ...): the clients applied and acknowledged only a prefix; then both streams break
		k, _ := strconv.Atoi(f[1])
		for _, t := range typeOrder {
			e.world[t] = e.pending[t]
		}
		e.pushSotw()
		e.pushDelta()
		for _, t := range typeOrder {
			e.changed[t] = sets.New[string]()
		}
		e.deliverBudget(k, k)
		e.reconnect()
		e.gotS, e.gotD = sets.New[string](), sets.New[string]()
		return e.show()
	case "reconnect":
		e.reconnect()
	case "pushall":
		for _, t := range typeOrder {
			e.world[t] = e.pending[t]
		}
		e.pushSotw()
		e.pushDelta()
		for _, t := range typeOrder {
			e.changed[t] = sets.New[string]()
		}
	default:
		return "bad-op"
	}
	e.deliver()
	return e.show()
}

// reconnect: both streams break; the server forgets everything about them (fresh proxies, fresh watch
// tables, possibly another instance); the clients keep what they hold, their nonces and subscriptions and
// will re-send the latter (`sub` ops). The new connection starts from the latest published snapshot.
func (e *equivSys) reconnect() {
	for _, t := range typeOrder {
		e.world[t] = e.pending[t]
		e.sc.ty[t].subscribed = false
		e.dc.ty[t].subscribed = false
	}
	e.ss, e.ds = &sotwStream{}, &deltaStream{}
	e.dproxy = newProxy("delta-proxy-2", e.push)
	e.sproxy = newProxy("sotw-proxy-2", e.push)
	e.dcon = pxds.VerifNewDeltaConnection(e.dproxy, e.ds)
	e.scon = pxds.VerifNewConnection(e.sproxy, e.ss)
}

func genEquiv(stream string, seed uint64, n int, outp string) {
	out := wire.Create(outp)
	defer out.Close()
	root := wire.NewRng(seed ^ 0xC03E)
	for c := 0; c < n; c++ {
		r := root.Fork()
		if stream == "reconn" {
			// reconnects with the delta-aware CDS generator (a wrong record after the resync is not healed by the next
			// full push) and with found-only generators that return nil when they have nothing to say
			flags := ""
			if r.Chance(1, 3) {
				flags += "d"
			}
			if r.Chance(1, 4) {
				flags += "z"
			}
			if flags == "" {
				out.Line("case", strconv.Itoa(c), stream)
			} else {
				out.Line("case", strconv.Itoa(c), stream, flags)
			}
		} else {
			out.Line("case", strconv.Itoa(c), stream)
		}
		types := wire.Subset(r, equivTypes, 1, 2)
		if len(types) == 0 {
			types = []string{"CDS", "EDS"}
		}
		if stream == "reconn" && r.Chance(1, 3) {
			// the pair with a dependency: a CDS request forces an EDS push when EDS is already watched on the stream
			types = []string{"CDS", "EDS"}
		}
		length := 3 + r.Intn(25)
		for i := 0; i < length; i++ {
			t := wire.Pick(r, types)
			switch r.Intn(8) {
			case 0, 1, 2:
				out.Line("world", t, genResList(r))
			case 3, 4:
				names := wire.Subset(r, nameUniverse, 1, 2)
				if isWildcardType(t) && r.Chance(5, 6) {
					names = nil
				}
				out.Line("sub", t, wire.EncList(names))
			case 5:
				if stream == "reconn" {
					if r.Chance(1, 3) {
						out.Line("pushcut", strconv.Itoa(r.Intn(4)))
					} else {
						out.Line("reconnect")
					}
					// re-send some or all subscriptions in a random order, possibly with changes made while away
					resend := wire.Subset(r, types, 4, 5)
					for i := len(resend) - 1; i > 0; i-- { // in any order: EDS before CDS as well
						j := r.Intn(i + 1)
						resend[i], resend[j] = resend[j], resend[i]
					}
					for _, t2 := range resend {
						if r.Chance(1, 3) {
							out.Line("world", t2, genResList(r))
						}
						names := wire.Subset(r, nameUniverse, 1, 2)
						if isWildcardType(t2) && r.Chance(5, 6) {
							names = nil
						}
						// the delta client presents its old nonce in a third of the first requests and makes
						// half of its wildcard subscriptions the legacy way (empty resource_names_subscribe)
						flags := ""
						if r.Chance(1, 3) {
							flags += "n"
						}
						if len(names) == 0 && r.Chance(1, 2) {
							flags += "e"
						}
						// the first request is the NACK the proxy had queued when the stream broke (error_detail set)
						if r.Chance(1, 6) {
							flags += "x"
						}
						if flags == "" {
							out.Line("sub", t2, wire.EncList(names))
						} else {
							out.Line("sub", t2, wire.EncList(names), flags)
						}
					}
				} else {
					out.Line("pushall")
				}
			default:
				out.Line("pushall")
			}
		}
		out.Line("pushall")
	}
}

// ---------------------------------------------------------------- oracle

func oracle(stream, in, outp string) {
	out := wire.Create(outp)
	defer out.Close()
	for _, line := range oracleLines(stream, in) {
		out.Line(line)
	}
}

func oracleLines(stream, in string) []string {
	if stream == "wds" {
		return oracleWds(in)
	}
	var verdicts []string
	verdict, open, idx := "", false, 0
	flush := func() {
		if open {
			if verdict == "" {
				verdict = "OK"
			}
			verdicts = append(verdicts, verdict)
		}
	}
	b := newBook()
	e := newEquiv("equiv")
	for _, f := range wire.ReadLines(in) {
		if f[0] == "case" {
			flush()
			verdict, open, idx = "", true, 0
		}
		idx++
		if stream == "book" {
			res := b.apply(f)
			if res == "crash" && verdict == "" {
				verdict = fmt.Sprintf("FAIL never-crashes op=%d", idx-1)
			}
			continue
		}
		firstS, firstD, edsWatchedD := false, false, false
		if f[0] == "sub" {
			firstS, firstD = !e.sc.ty[f[1]].subscribed, !e.dc.ty[f[1]].subscribed
			edsWatchedD = e.dc.ty["EDS"].subscribed && len(e.dc.ty["EDS"].sub) > 0
		}
		res := e.apply(f)
		if res == "crash" && verdict == "" {
			verdict = fmt.Sprintf("FAIL never-crashes op=%d", idx-1)
		}
		if f[0] == "sub" && verdict == "" {
			// every first request of a type on a stream (initial or re-sent after a reconnect, whatever
			// nonce / retained state it presents) must be answered: nothing stays warming
			wants := len(wire.DecList(f[2])) > 0 || isWildcardType(f[1])
			if e.nilFound && genClass[f[1]] == "found" {
				// a generator that has nothing to say (nil) sends nothing, on a reconnect as on a brand-new stream: an
				// answer is owed only when at least one of the names asked for exists
				wants = false
				for _, n := range wire.DecList(f[2]) {
					if _, ok := e.world[f[1]][n]; ok {
						wants = true
					}
				}
			}
			if wants && firstS && !e.gotS.Contains(f[1]) {
				verdict = fmt.Sprintf("FAIL first-request-unanswered op=%d type=%s client=sotw", idx-1, f[1])
			}
			if wants && firstD && !e.gotD.Contains(f[1]) {
				verdict = fmt.Sprintf("FAIL first-request-unanswered op=%d type=%s client=delta", idx-1, f[1])
			}
			// delta: the first CDS request of a stream on which EDS is already watched (a reconnecting proxy may
			// ask for EDS first) is followed by an EDS response, whatever nonce it presents: the clusters warm
			if f[1] == "CDS" && firstD && edsWatchedD && verdict == "" && !e.gotD.Contains("EDS") {
				verdict = fmt.Sprintf("FAIL cds-request-without-eds-push op=%d client=delta", idx-1)
			}
		}
		if f[0] != "pushall" || verdict != "" {
			continue
		}
		// the property, stated on what the two real clients hold after a completed push:
		// same resources for wildcard and always-answered types; for found-only types equality on
		// the names that exist (SotW never deletes them explicitly); ECDS delta may hold a superset.
		for _, t := range equivTypes {
			if !e.sc.ty[t].subscribed || !e.dc.ty[t].subscribed {
				continue // e.g. not re-subscribed after a reconnect: what is retained is not maintained
			}
			sh, dh := e.sc.ty[t].held, e.dc.ty[t].held
			for _, n := range nameUniverse {
				sv, sok := sh[n]
				dv, dok := dh[n]
				_, exists := e.world[t][n]
				relevant := genClass[t] != "found" || exists
				if !relevant {
					continue
				}
				if t == "ECDS" && !sok {
					continue
				}
				if sok != dok || sv != dv {
					verdict = fmt.Sprintf("FAIL delta-ne-sotw op=%d type=%s name=%s sotw=%v/%d delta=%v/%d", idx-1, t, n, sok, sv, dok, dv)
				}
				// both clients against the world itself (two equally stale clients must not pass):
				// wildcard types hold exactly the world; a subscribed name of an always-answered type
				// holds its current version (0 when it does not exist); found-only types hold what exists
				wv, wok := e.world[t][n]
				subscribedTo := sets.New(e.dc.ty[t].sub...).Contains(n)
				switch genClass[t] {
				case "wild":
					if dok != wok || (wok && dv != wv) {
						verdict = fmt.Sprintf("FAIL delta-ne-world op=%d type=%s name=%s world=%v/%d delta=%v/%d", idx-1, t, n, wok, wv, dok, dv)
					}
				case "named":
					if subscribedTo && (!dok || dv != wv) {
						verdict = fmt.Sprintf("FAIL delta-ne-world op=%d type=%s name=%s world=%v/%d delta=%v/%d", idx-1, t, n, wok, wv, dok, dv)
					}
				case "found":
					if subscribedTo && wok && (!dok || dv != wv) {
						verdict = fmt.Sprintf("FAIL delta-ne-world op=%d type=%s name=%s world=%v/%d delta=%v/%d", idx-1, t, n, wok, wv, dok, dv)
					}
				}
			}
		}
	}
	flush()
	return verdicts
}
