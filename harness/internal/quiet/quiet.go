// Package quiet silences istio's loggers in harness binaries (import for side effect).
package quiet

import "istio.io/istio/pkg/log"

func init() { Silence() }

// Silence turns every registered log scope off; call again after new scopes are registered.
func Silence() {
	for _, s := range log.Scopes() {
		s.SetOutputLevel(log.NoneLevel)
	}
}
