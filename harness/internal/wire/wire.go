// Package wire is the Go side of the line protocol shared with the Lean drivers
// (lean/IstioModel/Common/Wire.lean): one operation per line, space separated tokens,
// strings escaped so that a token never contains a space.
package wire

import (
	"bufio"
	"fmt"
	"os"
	"sort"
	"strings"
)

const hexdigits = "0123456789ABCDEF"

func safe(c byte) bool {
	switch {
	case c >= 'a' && c <= 'z', c >= 'A' && c <= 'Z', c >= '0' && c <= '9':
		return true
	}
	switch c {
	case '_', '.', '/', ':', '*', '@', '=', '+', '-':
		return true
	}
	return false
}

// Enc escapes a string into one token.
func Enc(s string) string {
	if s == "" {
		return "~"
	}
	var b strings.Builder
	for i := 0; i < len(s); i++ {
		c := s[i]
		if c < 128 && safe(c) {
			b.WriteByte(c)
		} else {
			b.WriteByte('%')
			b.WriteByte(hexdigits[c>>4])
			b.WriteByte(hexdigits[c&15])
		}
	}
	return b.String()
}

// Dec is the inverse of Enc.
func Dec(t string) string {
	if t == "~" {
		return ""
	}
	var b strings.Builder
	for i := 0; i < len(t); i++ {
		if t[i] == '%' && i+2 < len(t) {
			x, ok1 := hv(t[i+1])
			y, ok2 := hv(t[i+2])
			if ok1 && ok2 {
				b.WriteByte(byte(x*16 + y))
				i += 2
				continue
			}
		}
		b.WriteByte(t[i])
	}
	return b.String()
}

func hv(c byte) (int, bool) {
	switch {
	case c >= '0' && c <= '9':
		return int(c - '0'), true
	case c >= 'A' && c <= 'F':
		return int(c-'A') + 10, true
	case c >= 'a' && c <= 'f':
		return int(c-'a') + 10, true
	}
	return 0, false
}

// EncList encodes a list in the given order ("-" for empty).
func EncList(l []string) string {
	if len(l) == 0 {
		return "-"
	}
	out := make([]string, len(l))
	for i, s := range l {
		out[i] = Enc(s)
	}
	return strings.Join(out, ",")
}

// EncSet encodes a set: sorted, de-duplicated.
func EncSet(l []string) string {
	c := append([]string(nil), l...)
	sort.Strings(c)
	out := c[:0]
	for i, s := range c {
		if i == 0 || s != c[i-1] {
			out = append(out, s)
		}
	}
	return EncList(out)
}

// DecList decodes a list token.
func DecList(t string) []string {
	if t == "-" {
		return nil
	}
	parts := strings.Split(t, ",")
	for i := range parts {
		parts[i] = Dec(parts[i])
	}
	return parts
}

// B renders a bool.
func B(b bool) string {
	if b {
		return "1"
	}
	return "0"
}

// Out is a buffered line writer that flushes on Close.
type Out struct {
	f *os.File
	w *bufio.Writer
}

// Create opens path for writing ("-" is stdout).
func Create(path string) *Out {
	if path == "-" || path == "" {
		return &Out{f: os.Stdout, w: bufio.NewWriterSize(os.Stdout, 1<<16)}
	}
	f, err := os.Create(path)
	if err != nil {
		fmt.Fprintln(os.Stderr, "wire: ", err)
		os.Exit(2)
	}
	return &Out{f: f, w: bufio.NewWriterSize(f, 1<<16)}
}

// Line writes one line made of the given tokens.
func (o *Out) Line(tokens ...string) {
	o.w.WriteString(strings.Join(tokens, " "))
	o.w.WriteByte('\n')
}

// Flush flushes buffered output (call after every line when the real code may panic).
func (o *Out) Flush() { o.w.Flush() }

// Close flushes and closes.
func (o *Out) Close() {
	o.w.Flush()
	if o.f != os.Stdout {
		o.f.Close()
	}
}

// ReadLines reads all non-empty lines of a file, split into tokens.
func ReadLines(path string) [][]string {
	f, err := os.Open(path)
	if err != nil {
		fmt.Fprintln(os.Stderr, "wire: ", err)
		os.Exit(2)
	}
	defer f.Close()
	var out [][]string
	sc := bufio.NewScanner(f)
	sc.Buffer(make([]byte, 1<<20), 1<<26)
	for sc.Scan() {
		fs := strings.Fields(sc.Text())
		if len(fs) > 0 {
			out = append(out, fs)
		}
	}
	return out
}
