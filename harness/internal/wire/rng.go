package wire

import (
	"os"
	"strconv"
)

// Rng is splitmix64: every random choice of a harness derives from one state so that
// (seed, case index) replays exactly.
type Rng struct{ s uint64 }

// NewRng seeds a generator.
func NewRng(seed uint64) *Rng { return &Rng{s: seed} }

// SeedFromEnv reads VERIF_SEED (default 1).
func SeedFromEnv() uint64 {
	if v := os.Getenv("VERIF_SEED"); v != "" {
		if n, err := strconv.ParseUint(v, 10, 64); err == nil {
			return n
		}
		if n, err := strconv.ParseInt(v, 10, 64); err == nil {
			return uint64(n)
		}
	}
	return 1
}

// Next returns the next 64 random bits.
func (r *Rng) Next() uint64 {
	r.s += 0x9e3779b97f4a7c15
	z := r.s
	z = (z ^ (z >> 30)) * 0xbf58476d1ce4e5b9
	z = (z ^ (z >> 27)) * 0x94d049bb133111eb
	return z ^ (z >> 31)
}

// Intn returns a number in [0,n).
func (r *Rng) Intn(n int) int {
	if n <= 0 {
		return 0
	}
	return int(r.Next() % uint64(n))
}

// Bool returns true with probability num/den.
func (r *Rng) Chance(num, den int) bool { return r.Intn(den) < num }

// Fork derives an independent generator (for per-case sub-seeds).
func (r *Rng) Fork() *Rng { return &Rng{s: r.Next()} }

// Pick returns a random element.
func Pick[T any](r *Rng, xs []T) T { return xs[r.Intn(len(xs))] }

// Subset returns a random sub-list (order preserved), each element kept with prob num/den.
func Subset[T any](r *Rng, xs []T, num, den int) []T {
	var out []T
	for _, x := range xs {
		if r.Chance(num, den) {
			out = append(out, x)
		}
	}
	return out
}
