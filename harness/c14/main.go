// Harness for C14 ("every xDS snapshot sent to a proxy is closed and well-formed").
//
//	c14 gen    <stream> <seed> <ncases> <ops-out>
//	c14 exec   <stream> <ops-in> <impl-out>
//	c14 oracle <stream> <ops-in> <verdict-out>
//
// Stream `snapshot` (T-mon): random meshes are loaded into a REAL discovery server
// (pilot/test/xds.NewFakeDiscoveryServer), the real CDS/EDS/LDS/RDS generators produce the full
// snapshot of each proxy, and `exec` prints, per `push` line,
//
//	<verdict> | pgv=<reasons> L=<n> R=<n> C=<n> E=<n> unk=<answered unknown names>
//
// where <verdict> is the Go re-statement of well-formedness (wf.go) or `crash ...` / `timeout ...`.
// Beside <impl-out> it writes <impl-out>.snap: the same number of lines, each `push` line replaced by
// the abstract snapshot (`snap ...`) the verified Lean monitor (drv_c14) judges; checks/C14.py
// compares the two verdicts and requires both to be `ok`.
//
// Kernel streams (T-diff against exact Lean models): see kernels.go.
package main

import (
	"fmt"
	"os"
	"strconv"
	"strings"

	"google.golang.org/protobuf/encoding/protojson"
	"google.golang.org/protobuf/proto"

	"istio.io/istio/pilot/pkg/model"
	"verifharness/internal/quiet"
	"verifharness/internal/wire"
)

func main() {
	if len(os.Args) < 3 {
		fmt.Fprintln(os.Stderr, "usage: c14 gen|exec|oracle <stream> ...")
		os.Exit(2)
	}
	quiet.Silence()
	stream := os.Args[2]
	switch os.Args[1] {
	case "gen":
		seed, _ := strconv.ParseUint(os.Args[3], 10, 64)
		n, _ := strconv.Atoi(os.Args[4])
		switch stream {
		case "snapshot":
			genSnapshot(seed, n, os.Args[5])
		default:
			genKernel(stream, seed, n, os.Args[5])
		}
	case "exec":
		switch stream {
		case "snapshot":
			execSnapshot(os.Args[3], os.Args[4], false)
		default:
			execKernel(stream, os.Args[3], os.Args[4])
		}
	case "dump":
		sub := ""
		if len(os.Args) > 5 {
			sub = os.Args[5]
		}
		dumpSnapshot(os.Args[3], os.Args[4], sub)
	case "shrink":
		class := ""
		if len(os.Args) > 5 {
			class = os.Args[5]
		}
		shrinkSnapshot(os.Args[3], os.Args[4], class)
	case "oracle":
		switch stream {
		case "snapshot":
			execSnapshot(os.Args[3], os.Args[4], true)
		default:
			oracleKernel(stream, os.Args[3], os.Args[4])
		}
	default:
		os.Exit(2)
	}
}

type lineOut struct {
	impl string
	snap []string
}

// verdictClass is the part of a verdict that identifies the kind of failure (used by the shrinker
// and for fingerprints): `bad <clause>`, with the API's reasons for api-valid; `crash <where> <msg>`.
func verdictClass(impl string) string {
	v, info, _ := strings.Cut(impl, " | ")
	f := strings.Fields(v)
	if len(f) == 0 || f[0] == "ok" {
		return ""
	}
	switch f[0] {
	case "bad":
		if len(f) > 1 && f[1] == "api-valid" {
			for _, t := range strings.Fields(info) {
				if strings.HasPrefix(t, "pgv=") {
					first, _, _ := strings.Cut(strings.TrimPrefix(t, "pgv="), ",")
					return "bad api-valid " + first
				}
			}
		}
		if len(f) > 1 {
			return "bad " + f[1]
		}
	case "crash", "timeout":
		return v
	}
	return ""
}

// runCase executes one case (first line = `case ...`) on the real code: one lineOut per input line.
func runCase(lines [][]string) []lineOut {
	out := make([]lineOut, 0, len(lines))
	mesh := &meshCase{opts: map[string]string{}}
	var (
		w        *world
		initFail string
	)
	defer func() {
		if w != nil {
			w.close()
		}
	}()
	skip := []string{"skip"}
	for _, f := range lines {
		switch f[0] {
		case "case":
			mesh.valid = len(f) > 3 && f[3] == "valid"
			out = append(out, lineOut{"ok", f})
		case "opt":
			for k, v := range decMap(f[1]) {
				mesh.opts[k] = v
			}
			out = append(out, lineOut{"ok", skip})
		case "svc":
			mesh.svcs = append(mesh.svcs, parseSvc(f))
			out = append(out, lineOut{"ok", skip})
		case "ep":
			mesh.eps = append(mesh.eps, parseEp(f))
			out = append(out, lineOut{"ok", skip})
		case "kube":
			mesh.kube = append(mesh.kube, wire.Dec(f[1]))
			out = append(out, lineOut{"ok", skip})
		case "cfg":
			c := parseCfg(f)
			mesh.cfgs = append(mesh.cfgs, c)
			res := "undecodable"
			if cc, err := c.toConfig(); err == nil {
				res = "admitted"
				if validateCfg(cc) != "" {
					res = "rejected-by-validation"
				}
			}
			out = append(out, lineOut{res, skip})
		case "push":
			if w == nil && initFail == "" {
				w, initFail = buildWorld(mesh)
				quiet.Silence()
			}
			if initFail != "" {
				out = append(out, lineOut{initFail + " | -", skip})
				continue
			}
			p := parsePush(f)
			var (
				sn   *snapshot
				px   *model.Proxy
				fail string
			)
			fail = guarded("setup", 20e9, func() { px = w.proxy(p) })
			if fail == "" {
				sn, fail = w.generate(px)
			}
			if fail != "" {
				out = append(out, lineOut{fail + " | -", skip})
				continue
			}
			invalid, reasons := sn.validateAll()
			verdict := sn.wellFormed(invalid)
			pg := "ok"
			if len(reasons) > 0 {
				pg = strings.Join(reasons, ",")
			}
			info := fmt.Sprintf("pgv=%s L=%d R=%d C=%d E=%d unk=rds:%d/%d,eds:%d/%d", pg, len(sn.listeners), len(sn.routes), len(sn.clusters),
				len(sn.endpoints), sn.unkRdsAnswered, sn.unkRds, sn.unkEdsAnswered, sn.unkEds)
			out = append(out, lineOut{verdict + " | " + info, append([]string{"snap"}, sn.reduce(invalid)...)})
		default:
			out = append(out, lineOut{"bad-op", skip})
		}
	}
	return out
}

func splitCases(lines [][]string) [][][]string {
	var cases [][][]string
	for _, f := range lines {
		if f[0] == "case" || len(cases) == 0 {
			cases = append(cases, nil)
		}
		cases[len(cases)-1] = append(cases[len(cases)-1], f)
	}
	return cases
}

// execSnapshot runs the snapshot stream. In oracle mode it prints one line per case: OK or
// FAIL <class> push=<type> (the first push of the case whose snapshot violates the property).
func execSnapshot(opsPath, outPath string, oracle bool) {
	out := wire.Create(outPath)
	defer out.Close()
	var snap *wire.Out
	if !oracle {
		snap = wire.Create(outPath + ".snap")
		defer snap.Close()
	}
	for _, c := range splitCases(wire.ReadLines(opsPath)) {
		res := runCase(c)
		if oracle {
			v := "OK"
			for i, r := range res {
				if cl := verdictClass(r.impl); cl != "" {
					v = "FAIL " + strings.ReplaceAll(cl, " ", ":") + " push=" + c[i][1]
					break
				}
			}
			out.Line(v)
			out.Flush()
			continue
		}
		for _, r := range res {
			out.Line(r.impl)
			snap.Line(r.snap...)
		}
		out.Flush()
		snap.Flush()
	}
}

// shrinkSnapshot delta-debugs one failing case in-process: the smallest set of lines (objects,
// endpoints, pushes) on which some push still fails with the same verdict class.
//
//	c14 shrink snapshot <ops-in (one case)> <ops-out> [class]
func shrinkSnapshot(opsPath, outPath, class string) {
	lines := wire.ReadLines(opsPath)
	if len(lines) == 0 {
		os.Exit(2)
	}
	head, body := lines[0], lines[1:]
	if class == "" {
		for _, r := range runCase(lines) {
			if cl := verdictClass(r.impl); cl != "" {
				class = cl
				break
			}
		}
	}
	if class == "" {
		fmt.Println("no-failure")
		os.Exit(1)
	}
	fails := func(b [][]string) bool {
		for _, r := range runCase(append([][]string{head}, b...)) {
			if verdictClass(r.impl) == class {
				return true
			}
		}
		return false
	}
	chunk := len(body) / 2
	if chunk < 1 {
		chunk = 1
	}
	for chunk >= 1 {
		progressed := false
		for i := 0; i < len(body); {
			end := i + chunk
			if end > len(body) {
				end = len(body)
			}
			cand := append(append([][]string{}, body[:i]...), body[end:]...)
			if len(cand) < len(body) && fails(cand) {
				body = cand
				progressed = true
			} else {
				i += chunk
			}
		}
		if chunk == 1 {
			if !progressed {
				break
			}
		} else {
			chunk /= 2
		}
	}
	o := wire.Create(outPath)
	o.Line(head...)
	for _, b := range body {
		o.Line(b...)
	}
	o.Close()
	fmt.Println("class " + class)
}

// dumpSnapshot prints the route configurations / listeners / clusters of every push of one case
// (debugging aid for triage): c14 dump snapshot <ops> <R|L|C|E> [name-substring]
func dumpSnapshot(opsPath, what, sub string) {
	lines := wire.ReadLines(opsPath)
	mesh := &meshCase{opts: map[string]string{}}
	for _, f := range lines {
		switch f[0] {
		case "opt":
			for k, v := range decMap(f[1]) {
				mesh.opts[k] = v
			}
		case "svc":
			mesh.svcs = append(mesh.svcs, parseSvc(f))
		case "ep":
			mesh.eps = append(mesh.eps, parseEp(f))
		case "kube":
			mesh.kube = append(mesh.kube, wire.Dec(f[1]))
		case "cfg":
			mesh.cfgs = append(mesh.cfgs, parseCfg(f))
		}
	}
	w, fail := buildWorld(mesh)
	if fail != "" {
		fmt.Println(fail)
		return
	}
	defer w.close()
	for _, f := range lines {
		if f[0] != "push" {
			continue
		}
		sn, fail := w.generate(w.proxy(parsePush(f)))
		fmt.Println("== ", strings.Join(f, " "), fail)
		if sn == nil {
			continue
		}
		show := func(name string, m proto.Message) {
			if sub == "" || strings.Contains(name, sub) {
				b, _ := protojson.MarshalOptions{Multiline: true, Indent: " "}.Marshal(m)
				fmt.Println(string(b))
			}
		}
		switch what {
		case "R":
			for _, r := range sn.routes {
				show(r.Name, r)
			}
		case "L":
			for _, l := range sn.listeners {
				show(l.Name, l)
			}
		case "C":
			for _, c := range sn.clusters {
				show(c.Name, c)
			}
		case "E":
			for _, e := range sn.endpoints {
				show(e.ClusterName, e)
			}
		}
	}
}
