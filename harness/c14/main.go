// Harness for C14 ("every xDS snapshot sent to a proxy is closed and well-formed").
//
//	c14 gen    <stream> <seed> <ncases> <ops-out>
//	c14 exec   <stream> <ops-in> <impl-out>
//	c14 oracle <stream> <ops-in> <verdict-out>
//
// Stream `snapshot` (T-mon): random meshes are loaded into a REAL discovery server
// (pilot/test/xds.NewFakeDiscoveryServer), the real CDS/EDS/LDS/RDS generators produce the full
// snapshot of each proxy, and `exec` prints, per `push` line,
//
//	<verdict> | pgv=<reasons> L=<n> R=<n> C=<n> E=<n> unk=<answered unknown names>
//
// where <verdict> is the Go re-statement of well-formedness (wf.go) or `crash ...` / `timeout ...`.
// Beside <impl-out> it writes <impl-out>.snap: the same number of lines, each `push` line replaced by
// the abstract snapshot (`snap ...`) the verified Lean monitor (drv_c14) judges; checks/C14.py
// compares the two verdicts and requires both to be `ok`.
//
// Kernel streams (T-diff against exact Lean models): see kernels.go.
package main

import (
	"encoding/json"
	"fmt"
	"os"
	"regexp"
	"sort"
	"strconv"
	"strings"
	"time"

	"google.golang.org/protobuf/encoding/protojson"
	"google.golang.org/protobuf/proto"

	"istio.io/istio/pilot/pkg/model"
	"istio.io/istio/pkg/config/schema/collections"
	"istio.io/istio/pkg/config/schema/kind"
	"verifharness/internal/quiet"
	"verifharness/internal/wire"
)

func main() {
	if len(os.Args) < 3 {
		fmt.Fprintln(os.Stderr, "usage: c14 gen|exec|oracle <stream> ...")
		os.Exit(2)
	}
	quiet.Silence()
	stream := os.Args[2]
	switch os.Args[1] {
	case "gen":
		seed, _ := strconv.ParseUint(os.Args[3], 10, 64)
		n, _ := strconv.Atoi(os.Args[4])
		switch stream {
		case "snapshot":
			genSnapshot(seed, n, os.Args[5])
		default:
			genKernel(stream, seed, n, os.Args[5])
		}
	case "exec":
		switch stream {
		case "snapshot":
			execSnapshot(os.Args[3], os.Args[4], false)
		default:
			execKernel(stream, os.Args[3], os.Args[4])
		}
	case "dump":
		sub := ""
		if len(os.Args) > 5 {
			sub = os.Args[5]
		}
		dumpSnapshot(os.Args[3], os.Args[4], sub)
	case "shrinkb":
		shrinkBatch(os.Args[3], os.Args[4], os.Args[5])
	case "shrink":
		class := ""
		if len(os.Args) > 5 {
			class = os.Args[5]
		}
		shrinkSnapshot(os.Args[3], os.Args[4], class)
	case "oracle":
		switch stream {
		case "snapshot":
			execSnapshot(os.Args[3], os.Args[4], true)
		default:
			oracleKernel(stream, os.Args[3], os.Args[4])
		}
	default:
		os.Exit(2)
	}
}

type lineOut struct {
	impl string
	snap []string
}

// verdictClasses lists the kinds of failure of one push line (used by the shrinker and for fingerprints): one
// `bad <clause>` per violated clause - for api-valid one `bad api-valid <reason>` per distinct reason of the API -,
// or the `crash <where> <msg>` / `timeout <where>` token.  impl line = `<first verdict> | <info> || <v1> || <v2> ...`.
func verdictClasses(impl string) []string {
	head, rest, _ := strings.Cut(impl, " || ")
	v, info, _ := strings.Cut(head, " | ")
	f := strings.Fields(v)
	if len(f) == 0 || f[0] == "ok" {
		return nil
	}
	if f[0] == "crash" || f[0] == "timeout" {
		return []string{v}
	}
	all := []string{v}
	if rest != "" {
		all = strings.Split(rest, " || ")
	}
	var out []string
	for _, a := range all {
		g := strings.Fields(a)
		if len(g) < 2 || g[0] != "bad" {
			continue
		}
		if g[1] == "api-valid" {
			for _, t := range strings.Fields(info) {
				if strings.HasPrefix(t, "pgv=") {
					for _, r := range strings.Split(strings.TrimPrefix(t, "pgv="), ",") {
						out = append(out, "bad api-valid "+r)
					}
				}
			}
			continue
		}
		out = append(out, "bad "+g[1])
	}
	return out
}

// verdictClass = the first class (oracle mode).
func verdictClass(impl string) string {
	if c := verdictClasses(impl); len(c) > 0 {
		return c[0]
	}
	return ""
}

func hasClass(impl, class string) bool {
	for _, c := range verdictClasses(impl) {
		if c == class {
			return true
		}
	}
	return false
}

// judge renders the verdict of one snapshot: the impl line and the Lean monitor's input line.
func judge(sn *snapshot) lineOut {
	invalid, reasons := sn.validateAll()
	all := sn.wellFormedAll(invalid)
	verdict := "ok"
	if len(all) > 0 {
		verdict = all[0]
	}
	pg := "ok"
	if len(reasons) > 0 {
		pg = strings.Join(reasons, ",")
	}
	info := fmt.Sprintf("pgv=%s L=%d R=%d C=%d E=%d unk=rds:%d/%d,eds:%d/%d any-skipped=%d", pg, len(sn.listeners), len(sn.routes), len(sn.clusters),
		len(sn.endpoints), sn.unkRdsAnswered, sn.unkRds, sn.unkEdsAnswered, sn.unkEds, sn.anySkipped)
	impl := verdict + " | " + info
	if len(all) > 0 {
		impl += " || " + strings.Join(all, " || ")
	}
	return lineOut{impl, append([]string{"snap"}, sn.reduce(invalid)...)}
}

// runCase executes one case (first line = `case ...`) on the real code: one lineOut per input line.
func runCase(lines [][]string) []lineOut {
	out := make([]lineOut, 0, len(lines))
	mesh := &meshCase{opts: map[string]string{}}
	var (
		w        *world
		initFail string
		cl       *client
	)
	defer func() {
		if w != nil {
			w.close()
		}
	}()
	skip := []string{"skip"}
	for _, f := range lines {
		switch f[0] {
		case "case":
			mesh.valid = len(f) > 3 && f[3] == "valid"
			out = append(out, lineOut{"ok", f})
		case "opt":
			for k, v := range decMap(f[1]) {
				mesh.opts[k] = v
			}
			out = append(out, lineOut{"ok", skip})
		case "svc":
			mesh.svcs = append(mesh.svcs, parseSvc(f))
			out = append(out, lineOut{"ok", skip})
		case "ep":
			mesh.eps = append(mesh.eps, parseEp(f))
			out = append(out, lineOut{"ok", skip})
		case "kube":
			mesh.kube = append(mesh.kube, wire.Dec(f[1]))
			out = append(out, lineOut{"ok", skip})
		case "cfg":
			c := parseCfg(f)
			mesh.cfgs = append(mesh.cfgs, c)
			res := "undecodable"
			if cc, err := c.toConfig(); err == nil {
				res = "admitted"
				if validateCfg(cc) != "" {
					res = "rejected-by-validation"
				}
			}
			out = append(out, lineOut{res, skip})
		case "push":
			if w == nil && initFail == "" {
				w, initFail = buildWorld(mesh)
				quiet.Silence()
			}
			if initFail != "" {
				out = append(out, lineOut{initFail + " | -", skip})
				continue
			}
			p := parsePush(f)
			var (
				sn   *snapshot
				px   *model.Proxy
				fail string
			)
			fail = guarded("setup", 20e9, func() { px = w.proxy(p) })
			if fail == "" {
				sn, fail = w.generate(px)
			}
			if fail != "" {
				out = append(out, lineOut{fail + " | -", skip})
				continue
			}
			out = append(out, judge(sn))
		case "dpush":
			// dpush <type> <ns> <labels> <ips> <meta> (<Kind> <name> <namespace>)+: the full snapshot, then an incremental
			// push for one config key merged into it
			if w == nil && initFail == "" {
				w, initFail = buildWorld(mesh)
				quiet.Silence()
			}
			if initFail != "" {
				out = append(out, lineOut{initFail + " | -", skip})
				continue
			}
			if len(f) < 9 {
				out = append(out, lineOut{"bad-op", skip})
				continue
			}
			p := parsePush(f[:6])
			var (
				sn   *snapshot
				px   *model.Proxy
				fail string
			)
			fail = guarded("setup", 20e9, func() { px = w.proxy(p) })
			if fail == "" {
				sn, fail = w.generate(px)
			}
			if fail == "" {
				var keys []model.ConfigKey
				for k := 6; k+2 < len(f); k += 3 {
					keys = append(keys, model.ConfigKey{Kind: kind.FromString(f[k]), Name: wire.Dec(f[k+1]), Namespace: wire.Dec(f[k+2])})
				}
				sn, fail = w.generateIncremental(px, sn, keys...)
			}
			if fail != "" {
				out = append(out, lineOut{fail + " | -", skip})
				continue
			}
			out = append(out, judge(sn))
		case "dseq":
			// dseq <type> <ns> <labels> <ips> <meta>: the proxy whose delta-xDS client is tracked through the `step` lines
			// that follow; this line is its initial full push
			if w == nil && initFail == "" {
				w, initFail = buildWorld(mesh)
				quiet.Silence()
			}
			if initFail != "" {
				out = append(out, lineOut{initFail + " | -", skip})
				continue
			}
			p := parsePush(f[:6])
			var (
				sn   *snapshot
				px   *model.Proxy
				fail string
			)
			fail = guarded("setup", 20e9, func() { px = w.proxy(p) })
			if fail == "" {
				sn, fail = w.generate(px)
			}
			if fail != "" {
				out = append(out, lineOut{fail + " | -", skip})
				continue
			}
			cl = &client{px: px, sn: sn}
			out = append(out, judge(sn))
		case "step":
			// step <create|update|delete> <Kind> <ns> <name> <ts> <labels> <specJSON> <muts>: change the store of the running
			// server, push to the tracked client, judge its merged state
			if cl == nil || w == nil || len(f) < 9 {
				out = append(out, lineOut{"ok", skip})
				continue
			}
			c := parseCfg(f[1:])
			var (
				key  model.ConfigKey
				res  string
				fail string
			)
			fail = guarded("step-store", 20e9, func() { key, res = w.applyStep(f[1], c) })
			if fail == "" && (res == "noop" || res == "undecodable" || res == "store-error") {
				out = append(out, lineOut{"ok", skip})
				continue
			}
			if fail == "" {
				fail = w.stepPush(cl, key)
			}
			if fail != "" {
				out = append(out, lineOut{fail + " | -", skip})
				continue
			}
			out = append(out, judge(cl.sn))
		default:
			out = append(out, lineOut{"bad-op", skip})
		}
	}
	return out
}

func splitCases(lines [][]string) [][][]string {
	var cases [][][]string
	for _, f := range lines {
		if f[0] == "case" || len(cases) == 0 {
			cases = append(cases, nil)
		}
		cases[len(cases)-1] = append(cases[len(cases)-1], f)
	}
	return cases
}

// execSnapshot runs the snapshot stream. In oracle mode it prints one line per case: OK or
// FAIL <class> push=<type> (the first push of the case whose snapshot violates the property).
func execSnapshot(opsPath, outPath string, oracle bool) {
	out := wire.Create(outPath)
	defer out.Close()
	var snap *wire.Out
	if !oracle {
		snap = wire.Create(outPath + ".snap")
		defer snap.Close()
	}
	for _, c := range splitCases(wire.ReadLines(opsPath)) {
		res := runCase(c)
		if oracle {
			v := "OK"
			for i, r := range res {
				if cl := verdictClass(r.impl); cl != "" {
					v = "FAIL " + strings.ReplaceAll(cl, " ", ":") + " push=" + c[i][1]
					break
				}
			}
			out.Line(v)
			out.Flush()
			continue
		}
		for _, r := range res {
			out.Line(r.impl)
			snap.Line(r.snap...)
		}
		out.Flush()
		snap.Flush()
	}
}

// shrinkOne delta-debugs one failing case in-process: the smallest set of lines (objects, endpoints, pushes) on which
// some push still fails with the given verdict class; with deep, then the smallest sub-objects (elements of the arrays
// inside the remaining Gateway / ServiceEntry / VirtualService / Sidecar specs: servers, hosts, ports, routes, matches)
// under the constraint that every object keeps its admission verdict. ok=false: the case does not show the class here.
func shrinkOne(lines [][]string, class string, deep bool, deadline time.Time) (res [][]string, ok bool) {
	head, body := lines[0], lines[1:]
	evals := 0
	fails := func(b [][]string) bool {
		evals++
		for _, r := range runCase(append([][]string{head}, b...)) {
			if hasClass(r.impl, class) {
				return true
			}
		}
		return false
	}
	if !fails(body) {
		return lines, false
	}
	// a push sequence is kept only if the failure needs it: try the store state after k steps as a plain case (objects
	// loaded up front, the tracked proxy gets an ordinary full push)
	nsteps := 0
	for _, l := range body {
		if l[0] == "step" {
			nsteps++
		}
	}
	for k := 0; k <= nsteps && nsteps > 0 && time.Now().Before(deadline); k++ {
		if cand := flattenSeq(body, k); fails(cand) {
			body = cand
			break
		}
	}
	chunk := len(body) / 2
	if chunk < 1 {
		chunk = 1
	}
	for chunk >= 1 && time.Now().Before(deadline) {
		progressed := false
		for i := 0; i < len(body) && time.Now().Before(deadline); {
			end := i + chunk
			if end > len(body) {
				end = len(body)
			}
			cand := append(append([][]string{}, body[:i]...), body[end:]...)
			if len(cand) < len(body) && fails(cand) {
				body = cand
				progressed = true
			} else {
				i += chunk
			}
		}
		if chunk == 1 {
			if !progressed {
				break
			}
		} else {
			chunk /= 2
		}
	}
	// an incremental push is kept only if the failure needs it: try the plain full push of the same proxy instead
	for i := range body {
		if body[i][0] == "dpush" && len(body[i]) >= 6 && time.Now().Before(deadline) {
			cand := append([][]string{}, body...)
			cand[i] = append([]string{"push"}, body[i][1:6]...)
			if fails(cand) {
				body = cand
			}
		}
	}
	if deep {
		// removing sub-objects can make whole lines removable (a Gateway whose only needed server went away keeps
		// one irrelevant server: an empty server list would change its admission verdict) and vice versa: alternate
		// until neither makes progress
		flat := func(b [][]string) string {
			var sb strings.Builder
			for _, l := range b {
				sb.WriteString(strings.Join(l, " "))
				sb.WriteByte('\n')
			}
			return sb.String()
		}
		for time.Now().Before(deadline) {
			before := flat(body)
			body = shrinkInside(body, fails, deadline)
			for i := len(body) - 1; i >= 0 && time.Now().Before(deadline); i-- {
				cand := append(append([][]string{}, body[:i]...), body[i+1:]...)
				if fails(cand) {
					body = cand
				}
			}
			if flat(body) == before {
				break
			}
		}
	}
	return append([][]string{head}, body...), time.Now().Before(deadline)
}

// flattenSeq replaces the push sequence of a case by the state of the config store after its first k steps: the objects
// become ordinary cfg lines, `dseq` an ordinary `push`, the remaining steps are dropped.
func flattenSeq(body [][]string, k int) [][]string {
	type ent struct {
		key  string
		line []string
	}
	var pre, pushes [][]string
	var cfgs []ent
	find := func(key string) int {
		for i := range cfgs {
			if cfgs[i].key == key {
				return i
			}
		}
		return -1
	}
	seen := 0
	for _, l := range body {
		switch l[0] {
		case "cfg":
			if len(l) > 3 {
				cfgs = append(cfgs, ent{l[1] + " " + l[2] + " " + l[3], l})
			}
		case "push", "dpush":
			pushes = append(pushes, l)
		case "dseq":
			pushes = append(pushes, append([]string{"push"}, l[1:]...))
		case "step":
			seen++
			if seen > k || len(l) < 9 {
				continue
			}
			key := l[2] + " " + l[3] + " " + l[4]
			i := find(key)
			switch {
			case l[1] == "delete" && i >= 0:
				cfgs = append(cfgs[:i:i], cfgs[i+1:]...)
			case l[1] == "delete":
			case i >= 0:
				cfgs[i].line = append([]string{"cfg"}, l[2:]...)
			default:
				cfgs = append(cfgs, ent{key, append([]string{"cfg"}, l[2:]...)})
			}
		default:
			pre = append(pre, l)
		}
	}
	out := append([][]string{}, pre...)
	for _, c := range cfgs {
		out = append(out, c.line)
	}
	return append(out, pushes...)
}

func admission(c cfgDesc) string {
	cc, err := c.toConfig()
	if err != nil {
		return "undecodable"
	}
	if msg := validateCfg(cc); msg != "" {
		if msg == "invalid" {
			// validation's own complaint, digits blanked (indices and sizes move when elements are removed)
			if sch, ok := collections.PilotGatewayAPI().FindByGroupVersionKind(cc.GroupVersionKind); ok {
				if _, err := sch.ValidateConfig(cc); err != nil {
					msg = digits.ReplaceAllString(err.Error(), "N")
				}
			}
		}
		return "rejected: " + msg
	}
	return "admitted"
}

var digits = regexp.MustCompile(`[0-9]+`)

// shrinkInside removes array elements inside the specs of the remaining config objects, one at a time, last first,
// as long as the failure persists and the object's admission verdict stays what it was (or turns from rejected to admitted).
func shrinkInside(body [][]string, fails func([][]string) bool, deadline time.Time) [][]string {
	budget := 160
	for li := range body {
		if body[li][0] != "cfg" {
			continue
		}
		switch body[li][1] {
		case "Gateway", "ServiceEntry", "VirtualService", "Sidecar", "DestinationRule":
		default:
			continue
		}
		c := parseCfg(body[li])
		was := admission(c)
		var spec any
		if json.Unmarshal([]byte(c.JSON), &spec) != nil {
			continue
		}
		for progress := true; progress && budget > 0 && time.Now().Before(deadline); {
			progress = false
			for _, path := range arrayPaths(spec, nil) {
				arr := getPath(spec, path).([]any)
				for idx := len(arr) - 1; idx >= 0 && budget > 0; idx-- {
					cand := deleteAt(spec, path, idx)
					b, err := json.Marshal(cand)
					if err != nil {
						continue
					}
					cc := c
					cc.JSON = string(b)
					// the admission verdict stays - for a rejected object: validation's complaint stays literally the same,
					// so shrinking never adds damage beyond the recorded mutation -, or a rejected object becomes an admitted
					// one (the damage is not needed for the failure: the minimal case is then inside admission, and the
					// object loses its mutation tag)
					if now := admission(cc); now != was {
						if now != "admitted" {
							continue
						}
						cc.Muts = nil
					}
					nb := append([][]string{}, body...)
					nb[li] = cc.line()
					budget--
					if fails(nb) {
						spec, c, body = cand, cc, nb
						was = admission(cc)
						progress = true
						break
					}
				}
				if progress {
					break
				}
			}
		}
	}
	return body
}

// arrayPaths lists the paths (keys / indices) of all arrays of more than zero elements inside a JSON value, outermost first.
func arrayPaths(v any, at []any) [][]any {
	var out [][]any
	switch x := v.(type) {
	case []any:
		if len(x) > 0 {
			out = append(out, append([]any{}, at...))
		}
		for i, e := range x {
			out = append(out, arrayPaths(e, append(append([]any{}, at...), i))...)
		}
	case map[string]any:
		keys := make([]string, 0, len(x))
		for k := range x {
			keys = append(keys, k)
		}
		sort.Strings(keys)
		for _, k := range keys {
			out = append(out, arrayPaths(x[k], append(append([]any{}, at...), k))...)
		}
	}
	return out
}

func getPath(v any, path []any) any {
	for _, p := range path {
		switch k := p.(type) {
		case int:
			v = v.([]any)[k]
		case string:
			v = v.(map[string]any)[k]
		}
	}
	return v
}

// deleteAt returns a deep copy of v with element idx of the array at path removed.
func deleteAt(v any, path []any, idx int) any {
	if len(path) == 0 {
		arr := v.([]any)
		out := make([]any, 0, len(arr)-1)
		for i, e := range arr {
			if i != idx {
				out = append(out, e)
			}
		}
		return out
	}
	switch x := v.(type) {
	case []any:
		out := append([]any{}, x...)
		k := path[0].(int)
		out[k] = deleteAt(x[k], path[1:], idx)
		return out
	case map[string]any:
		out := make(map[string]any, len(x))
		for k, e := range x {
			out[k] = e
		}
		k := path[0].(string)
		out[k] = deleteAt(x[k], path[1:], idx)
		return out
	}
	return v
}

// shrinkSnapshot shrinks one case:  c14 shrink snapshot <ops-in (one case)> <ops-out> [class]
func shrinkSnapshot(opsPath, outPath, class string) {
	lines := wire.ReadLines(opsPath)
	if len(lines) == 0 {
		os.Exit(2)
	}
	if class == "" {
		for _, r := range runCase(lines) {
			if cl := verdictClass(r.impl); cl != "" {
				class = cl
				break
			}
		}
	}
	if class == "" {
		fmt.Println("no-failure")
		os.Exit(1)
	}
	res, ok := shrinkOne(lines, class, true, time.Now().Add(120*time.Second))
	o := wire.Create(outPath)
	for _, b := range res {
		o.Line(b...)
	}
	o.Close()
	if !ok {
		fmt.Println("not-shrunk " + class)
		os.Exit(1)
	}
	fmt.Println("class " + class)
}

// shrinkBatch shrinks many (case, class) pairs in one process:
//
//	c14 shrinkb snapshot <ops-in (cases)> <ops-out> <jobs>      jobs: one line per case `<deep 0/1> <class...>`
//
// <ops-out> gets the shrunk cases in order; <ops-out>.status one line per case: `shrunk` or `failed` (the case did not
// show the class in this process, or the time ran out: the case is written back unshrunk).
func shrinkBatch(opsPath, outPath, jobsPath string) {
	cases := splitCases(wire.ReadLines(opsPath))
	jobs := wire.ReadLines(jobsPath)
	o := wire.Create(outPath)
	st := wire.Create(outPath + ".status")
	defer o.Close()
	defer st.Close()
	for i, c := range cases {
		if i >= len(jobs) || len(jobs[i]) < 2 {
			break
		}
		class := strings.Join(jobs[i][1:], " ")
		res, ok := shrinkOne(c, class, jobs[i][0] == "1", time.Now().Add(90*time.Second))
		for _, b := range res {
			o.Line(b...)
		}
		if ok {
			st.Line("shrunk")
		} else {
			st.Line("failed")
		}
		o.Flush()
		st.Flush()
	}
}

// dumpSnapshot prints the route configurations / listeners / clusters of every push of one case
// (debugging aid for triage): c14 dump snapshot <ops> <R|L|C|E> [name-substring]
func dumpSnapshot(opsPath, what, sub string) {
	lines := wire.ReadLines(opsPath)
	mesh := &meshCase{opts: map[string]string{}}
	for _, f := range lines {
		switch f[0] {
		case "opt":
			for k, v := range decMap(f[1]) {
				mesh.opts[k] = v
			}
		case "svc":
			mesh.svcs = append(mesh.svcs, parseSvc(f))
		case "ep":
			mesh.eps = append(mesh.eps, parseEp(f))
		case "kube":
			mesh.kube = append(mesh.kube, wire.Dec(f[1]))
		case "cfg":
			mesh.cfgs = append(mesh.cfgs, parseCfg(f))
		}
	}
	w, fail := buildWorld(mesh)
	if fail != "" {
		fmt.Println(fail)
		return
	}
	defer w.close()
	for _, f := range lines {
		if f[0] != "push" {
			continue
		}
		sn, fail := w.generate(w.proxy(parsePush(f)))
		fmt.Println("== ", strings.Join(f, " "), fail)
		if sn == nil {
			continue
		}
		show := func(name string, m proto.Message) {
			if sub == "" || strings.Contains(name, sub) {
				b, _ := protojson.MarshalOptions{Multiline: true, Indent: " "}.Marshal(m)
				fmt.Println(string(b))
			}
		}
		switch what {
		case "R":
			for _, r := range sn.routes {
				show(r.Name, r)
			}
		case "L":
			for _, l := range sn.listeners {
				show(l.Name, l)
			}
		case "C":
			for _, c := range sn.clusters {
				show(c.Name, c)
			}
		case "E":
			for _, e := range sn.endpoints {
				show(e.ClusterName, e)
			}
		}
	}
}
