package main

// Reduction of a real snapshot (Envoy protos) to the abstract snapshot line the verified Lean monitor
// reads (lean/IstioModel/C14/Driver.lean), and the xDS API's own validation (protoc-gen-validate
// Validate()/ValidateAll(), recursively through every google.protobuf.Any the binary knows).

import (
	"fmt"
	"strconv"
	"strings"

	cluster "github.com/envoyproxy/go-control-plane/envoy/config/cluster/v3"
	core "github.com/envoyproxy/go-control-plane/envoy/config/core/v3"
	listener "github.com/envoyproxy/go-control-plane/envoy/config/listener/v3"
	route "github.com/envoyproxy/go-control-plane/envoy/config/route/v3"
	hcm "github.com/envoyproxy/go-control-plane/envoy/extensions/filters/network/http_connection_manager/v3"
	"google.golang.org/protobuf/proto"
	"google.golang.org/protobuf/reflect/protoreflect"
	"google.golang.org/protobuf/types/known/anypb"

	"verifharness/internal/wire"
)

// encAtom is wire.Enc, except that the atom "-" (the empty-list marker) is escaped.
func encAtom(s string) string {
	if s == "-" {
		return "%2D"
	}
	return wire.Enc(s)
}

func encAtoms(l []string) string {
	if len(l) == 0 {
		return "-"
	}
	out := make([]string, len(l))
	for i, s := range l {
		out[i] = encAtom(s)
	}
	return strings.Join(out, ",")
}

// chainHCMs returns the HTTP connection managers of a filter chain.
func chainHCMs(fc *listener.FilterChain) []*hcm.HttpConnectionManager {
	var out []*hcm.HttpConnectionManager
	for _, f := range fc.GetFilters() {
		tc := f.GetTypedConfig()
		if tc == nil || !strings.HasSuffix(tc.TypeUrl, "HttpConnectionManager") {
			continue
		}
		h := &hcm.HttpConnectionManager{}
		if err := tc.UnmarshalTo(h); err == nil {
			out = append(out, h)
		}
	}
	return out
}

func chainRds(fc *listener.FilterChain) []string {
	var out []string
	for _, h := range chainHCMs(fc) {
		if r := h.GetRds(); r != nil {
			out = append(out, r.RouteConfigName)
		}
	}
	return out
}

func allChains(l *listener.Listener) []*listener.FilterChain {
	return l.GetFilterChains()
}

func listenerRdsNames(l *listener.Listener) []string {
	var out []string
	for _, fc := range allChains(l) {
		out = append(out, chainRds(fc)...)
	}
	if l.GetDefaultFilterChain() != nil {
		out = append(out, chainRds(l.GetDefaultFilterChain())...)
	}
	return out
}

func cidrs(l []*core.CidrRange) string {
	var out []string
	for _, c := range l {
		pl := "nil"
		if c.GetPrefixLen() != nil {
			pl = strconv.Itoa(int(c.GetPrefixLen().GetValue()))
		}
		out = append(out, c.GetAddressPrefix()+"/"+pl)
	}
	return strings.Join(out, ",")
}

// fcmKey renders a FilterChainMatch canonically and injectively on the fields of the message (list
// order kept: Envoy compares the messages). An absent match renders like the empty match.
func fcmKey(m *listener.FilterChainMatch) string {
	if m == nil {
		return ""
	}
	var p []string
	if m.DestinationPort != nil {
		p = append(p, "dp="+strconv.Itoa(int(m.DestinationPort.Value)))
	}
	if len(m.PrefixRanges) > 0 {
		p = append(p, "pr="+cidrs(m.PrefixRanges))
	}
	if m.AddressSuffix != "" {
		p = append(p, "as="+m.AddressSuffix)
	}
	if m.SuffixLen != nil {
		p = append(p, "sl="+strconv.Itoa(int(m.SuffixLen.Value)))
	}
	if len(m.DirectSourcePrefixRanges) > 0 {
		p = append(p, "dsr="+cidrs(m.DirectSourcePrefixRanges))
	}
	if m.SourceType != listener.FilterChainMatch_ANY {
		p = append(p, "st="+m.SourceType.String())
	}
	if len(m.SourcePrefixRanges) > 0 {
		p = append(p, "sr="+cidrs(m.SourcePrefixRanges))
	}
	if len(m.SourcePorts) > 0 {
		var sp []string
		for _, x := range m.SourcePorts {
			sp = append(sp, strconv.Itoa(int(x)))
		}
		p = append(p, "sp="+strings.Join(sp, ","))
	}
	if len(m.ServerNames) > 0 {
		p = append(p, "sni="+strings.Join(quoteAll(m.ServerNames), ","))
	}
	if m.TransportProtocol != "" {
		p = append(p, "tp="+strconv.Quote(m.TransportProtocol))
	}
	if len(m.ApplicationProtocols) > 0 {
		p = append(p, "alpn="+strings.Join(quoteAll(m.ApplicationProtocols), ","))
	}
	return strings.Join(p, ";")
}

// chainKey is what must be unique among the filter chains of a listener: the FilterChainMatch, or -
// when the listener selects chains with a filter_chain_matcher (the Matcher API, as waypoints do), where
// "all filter_chains must have a non-empty and unique name" - the chain's name.
func chainKey(l *listener.Listener, fc *listener.FilterChain) string {
	if l.GetFilterChainMatcher() != nil {
		return "name=" + strconv.Quote(fc.GetName())
	}
	return fcmKey(fc.GetFilterChainMatch())
}

func quoteAll(l []string) []string {
	out := make([]string, len(l))
	for i, s := range l {
		out[i] = strconv.Quote(s)
	}
	return out
}

func addrKey(a *core.Address) string {
	switch x := a.GetAddress().(type) {
	case *core.Address_SocketAddress:
		sa := x.SocketAddress
		port := strconv.Itoa(int(sa.GetPortValue()))
		if sa.GetNamedPort() != "" {
			port = "named:" + sa.GetNamedPort()
		}
		return strings.ToLower(sa.GetProtocol().String()) + ":" + sa.GetAddress() + ":" + port
	case *core.Address_Pipe:
		return "pipe:" + x.Pipe.GetPath()
	case *core.Address_EnvoyInternalAddress:
		return "internal:" + x.EnvoyInternalAddress.GetServerListenerName() + ":" + x.EnvoyInternalAddress.GetEndpointId()
	}
	return "none"
}

func listenerAddrs(l *listener.Listener) []string {
	var out []string
	if l.GetAddress() != nil {
		out = append(out, addrKey(l.GetAddress()))
	} else if l.GetInternalListener() != nil {
		out = append(out, "internal-listener:"+l.Name)
	}
	for _, a := range l.GetAdditionalAddresses() {
		out = append(out, addrKey(a.GetAddress()))
	}
	return out
}

type inlineRoute struct {
	rc *route.RouteConfiguration
}

// inlineRoutes returns the route configurations embedded in HTTP connection managers.
func inlineRoutes(ls []*listener.Listener) []*route.RouteConfiguration {
	var out []*route.RouteConfiguration
	for _, l := range ls {
		chains := append([]*listener.FilterChain{}, allChains(l)...)
		if l.GetDefaultFilterChain() != nil {
			chains = append(chains, l.GetDefaultFilterChain())
		}
		for _, fc := range chains {
			for _, h := range chainHCMs(fc) {
				if rc := h.GetRouteConfig(); rc != nil {
					out = append(out, rc)
				}
			}
		}
	}
	return out
}

func weightLists(vh *route.VirtualHost) [][]int64 {
	var out [][]int64
	for _, r := range vh.GetRoutes() {
		wc := r.GetRoute().GetWeightedClusters()
		if wc == nil {
			continue
		}
		ws := []int64{}
		for _, c := range wc.GetClusters() {
			ws = append(ws, int64(c.GetWeight().GetValue()))
		}
		out = append(out, ws)
	}
	return out
}

func encRoute(rc *route.RouteConfiguration, inline bool) string {
	parts := []string{encAtom(rc.Name), wire.B(inline)}
	for _, vh := range rc.GetVirtualHosts() {
		w := "-"
		if wl := weightLists(vh); len(wl) > 0 {
			var ws []string
			for _, l := range wl {
				if len(l) == 0 {
					ws = append(ws, "~")
					continue
				}
				var xs []string
				for _, x := range l {
					xs = append(xs, strconv.FormatInt(x, 10))
				}
				ws = append(ws, strings.Join(xs, ","))
			}
			w = strings.Join(ws, "^")
		}
		parts = append(parts, encAtom(vh.Name)+"!"+encAtoms(vh.Domains)+"!"+w)
	}
	return strings.Join(parts, "|")
}

func joinOrDash(l []string, sep string) string {
	if len(l) == 0 {
		return "-"
	}
	return strings.Join(l, sep)
}

// reduce renders the abstract snapshot: the tokens after `snap` of the Lean monitor's input line.
func (sn *snapshot) reduce(invalid []string) []string {
	var ls []string
	for _, l := range sn.allListeners() {
		parts := []string{encAtom(l.Name), encAtoms(listenerAddrs(l))}
		for _, fc := range allChains(l) {
			parts = append(parts, encAtom(chainKey(l, fc))+"!"+encAtoms(chainRds(fc)))
		}
		if d := l.GetDefaultFilterChain(); d != nil {
			parts = append(parts, encAtom("<default>")+"!"+encAtoms(chainRds(d)))
		}
		ls = append(ls, strings.Join(parts, "|"))
	}
	var rs []string
	for _, rc := range sn.routes {
		rs = append(rs, encRoute(rc, false))
	}
	for _, rc := range inlineRoutes(sn.listeners) {
		rs = append(rs, encRoute(rc, true))
	}
	var cs []string
	for _, c := range sn.clusters {
		cs = append(cs, encAtom(c.Name)+"|"+wire.B(c.GetType() == cluster.Cluster_EDS)+"|"+encAtom(c.GetEdsClusterConfig().GetServiceName()))
	}
	var es []string
	for _, e := range sn.endpoints {
		es = append(es, e.ClusterName)
	}
	return []string{joinOrDash(ls, ";"), joinOrDash(rs, ";"), joinOrDash(cs, ";"), encAtoms(es), encAtoms(sn.reqRds), encAtoms(sn.reqEds), encAtoms(invalid)}
}

// ---------------------------------------------------------------- the API's own validation

type validator interface{ Validate() error }
type allValidator interface{ ValidateAll() error }

// pgv validates a message and, recursively, every Any inside it whose type is linked in.
// It returns a canonical reason ("" = valid).
// anySkipped counts the Any values met by pgv whose type is not linked into the binary (not judged).
var anySkipped int

// pgv returns EVERY canonical reason for which the API's generated validation rejects the message or a message
// packed in an Any inside it (empty = valid), in the order found.
func pgv(m proto.Message) (reasons []string) {
	defer func() {
		if r := recover(); r != nil {
			reasons = append(reasons, "validate-panic")
		}
	}()
	seen := map[string]bool{}
	add := func(r string) {
		if r != "" && !seen[r] {
			seen[r] = true
			reasons = append(reasons, r)
		}
	}
	var err error
	if v, ok := m.(allValidator); ok {
		err = v.ValidateAll()
	} else if v, ok := m.(validator); ok {
		err = v.Validate()
	}
	for _, r := range leafReasons(err, 0) {
		add(r)
	}
	walkAny(m.ProtoReflect(), 0, func(a *anypb.Any) {
		if a == nil || a.TypeUrl == "" {
			return
		}
		sub, err := a.UnmarshalNew()
		if err != nil {
			anySkipped++ // type not linked in (or opaque typed struct): not judged
			return
		}
		for _, r := range pgv(sub) {
			add(r)
		}
	})
	return reasons
}

type multiErr interface{ AllErrors() []error }
type causeErr interface{ Cause() error }

// leafReasons flattens a protoc-gen-validate error (multi errors, embedded-message causes) into its innermost reasons.
func leafReasons(err error, depth int) []string {
	if err == nil || depth > 30 {
		return nil
	}
	if me, ok := err.(multiErr); ok {
		var out []string
		for _, e := range me.AllErrors() {
			out = append(out, leafReasons(e, depth+1)...)
		}
		return out
	}
	if ce, ok := err.(causeErr); ok && ce.Cause() != nil {
		return leafReasons(ce.Cause(), depth+1)
	}
	return []string{canonErr(err)}
}

func canonErr(err error) string {
	s := err.Error()
	if i := strings.Index(s, ";"); i > 0 {
		s = s[:i]
	}
	if i := strings.Index(s, "\n"); i > 0 {
		s = s[:i]
	}
	// the innermost cause: "invalid A.B[3]: embedded message failed validation | caused by: invalid C.D: reason"
	if i := strings.LastIndex(s, "caused by: "); i >= 0 {
		s = s[i+len("caused by: "):]
	}
	s = strings.TrimPrefix(s, "invalid ")
	s = reNum.ReplaceAllString(s, "N")
	s = strings.ReplaceAll(s, ",", "") // the reasons are printed as a comma separated list
	if len(s) > 90 {
		s = s[:90]
	}
	return strings.ReplaceAll(s, " ", "_")
}

func walkAny(m protoreflect.Message, depth int, f func(*anypb.Any)) {
	if depth > 40 {
		return
	}
	if a, ok := m.Interface().(*anypb.Any); ok {
		f(a)
		return
	}
	m.Range(func(fd protoreflect.FieldDescriptor, v protoreflect.Value) bool {
		switch {
		case fd.IsMap():
			if fd.MapValue().Kind() == protoreflect.MessageKind {
				v.Map().Range(func(_ protoreflect.MapKey, mv protoreflect.Value) bool {
					walkAny(mv.Message(), depth+1, f)
					return true
				})
			}
		case fd.IsList():
			if fd.Kind() == protoreflect.MessageKind {
				l := v.List()
				for i := 0; i < l.Len(); i++ {
					walkAny(l.Get(i).Message(), depth+1, f)
				}
			}
		case fd.Kind() == protoreflect.MessageKind:
			walkAny(v.Message(), depth+1, f)
		}
		return true
	})
}

// validateAll returns "<Type>:<name>" for every resource the API validation rejects, and the
// canonical reasons (sorted, de-duplicated) for the report.
func (sn *snapshot) validateAll() (invalid []string, reasons []string) {
	seen := map[string]bool{}
	anySkipped = 0
	add := func(kind, name string, m proto.Message) {
		rs := pgv(m)
		if len(rs) > 0 {
			invalid = append(invalid, kind+":"+name)
		}
		for _, r := range rs {
			if !seen[r] {
				seen[r] = true
				reasons = append(reasons, r) // in resource order: the first reason belongs to the first invalid resource
			}
		}
	}
	for _, l := range sn.listeners {
		add("Listener", l.Name, l)
	}
	for _, r := range sn.routes {
		add("RouteConfiguration", r.Name, r)
	}
	for _, c := range sn.clusters {
		add("Cluster", c.Name, c)
	}
	for _, e := range sn.endpoints {
		add("ClusterLoadAssignment", e.ClusterName, e)
	}
	for _, u := range sn.undecodable {
		invalid = append(invalid, "Undecodable:"+u)
		if !seen["undecodable"] {
			seen["undecodable"] = true
			reasons = append(reasons, "undecodable")
		}
	}
	sn.anySkipped = anySkipped
	return invalid, reasons
}

var _ = fmt.Sprint
