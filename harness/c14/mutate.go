package main

// Mutations past admission validation (stream `snapshot`, malformed cases): a valid object is decoded,
// damaged in one way validation.go rejects, and re-encoded.  The mutation's name is recorded in the
// cfg line (`tag:<name>`), so that a finding can be fingerprinted by the kind of damage.

import (
	"encoding/json"
	"slices"
	"strings"

	"google.golang.org/protobuf/proto"
	"google.golang.org/protobuf/types/known/durationpb"

	networking "istio.io/api/networking/v1alpha3"
	security "istio.io/api/security/v1beta1"
)

var longName = strings.Repeat("n", 300)

// mutationCatalogue: every (kind, index) of the mutation switches below. The k-th malformed case of a run is FORCED to the
// k-th entry (cyclically), so that every mutation - and with it every known (rule, mutation) pair - is reached in every
// run regardless of the seed; if it does not apply to any object of the case, a random mutation is taken.
var mutationCatalogue = func() [][2]any {
	var out [][2]any
	for _, kn := range []struct {
		kind string
		n    int
	}{{"VirtualService", 27}, {"DestinationRule", 10}, {"ServiceEntry", 16}, {"Gateway", 14}, {"Sidecar", 9}, {"EnvoyFilter", 6},
		{"PeerAuthentication", 1}, {"WorkloadEntry", 3}} {
		for i := 0; i < kn.n; i++ {
			out = append(out, [2]any{kn.kind, i})
		}
	}
	return out
}()

// priorityMutations: catalogue indexes of the mutations on numeric bounds of validation (route weights: negative / sum
// above uint32 / all zero; ring size; connection pool numbers; port range). A slip of such a bound in validation admits
// the object, and the generated configuration is then rejected by Envoy; they are tried more often than once per cycle.
var priorityMutations = func() []int {
	var out []int
	for _, want := range [][2]any{{"VirtualService", 6}, {"VirtualService", 4}, {"VirtualService", 5}, {"DestinationRule", 5},
		{"DestinationRule", 7}, {"ServiceEntry", 2}} {
		for i, e := range mutationCatalogue {
			if e == want {
				out = append(out, i)
			}
		}
	}
	return out
}()

func (g *gen) mutIdx(n int) int {
	if g.force >= 0 && g.force < n {
		return g.force
	}
	return g.r.Intn(n)
}

func (g *gen) tryMutate(c *cfgDesc) bool {
	if len(c.Muts) > 0 || (c.Kind == "WorkloadEntry" && c.Name == "waypoint-a") {
		return false
	}
	cc, err := c.toConfig()
	if err != nil {
		return false
	}
	pm := cc.Spec.(proto.Message)
	tag, _ := g.mutateSpec(c, pm)
	if tag == "" {
		return false
	}
	// NOTE: nil ELEMENTS of repeated message fields are not generated: no decoding path of the control
	// plane (Kubernetes JSON/YAML, MCP protobuf, files) can produce one - they arrive as empty messages,
	// which is what the "-nil-" mutations below leave after the JSON round trip.
	c.JSON = specJSON(pm)
	c.Muts = append(c.Muts, "tag:"+tag)
	return true
}

// mutate damages exactly ONE object of the case, in one way: a finding is then attributed to that mutation.
func (g *gen) mutate(forced int) {
	if forced >= 0 {
		e := mutationCatalogue[forced%len(mutationCatalogue)]
		kind := e[0].(string)
		have := false
		for _, c := range g.cfgs {
			have = have || c.Kind == kind
		}
		if !have {
			switch kind {
			case "VirtualService":
				g.virtualService()
			case "DestinationRule":
				g.destinationRule()
			case "ServiceEntry":
				g.serviceEntry()
			case "Gateway":
				g.gateway()
			case "Sidecar":
				g.sidecar()
			case "EnvoyFilter":
				g.envoyFilter()
			case "PeerAuthentication":
				g.peerAuthentication()
			case "WorkloadEntry":
				g.workloadEntry()
			}
		}
		g.force = e[1].(int)
		// objects bound to an existing gateway first (the gateway path has its own handling of hosts and routes; every
		// other cycle of the catalogue), then the mesh-bound ones, last the ones bound to a gateway that does not exist
		// (no generator reads them: damage there shows nothing)
		bound := func(c *cfgDesc) int {
			var spec struct {
				Gateways []string `json:"gateways"`
				ExportTo []string `json:"exportTo"`
			}
			if json.Unmarshal([]byte(c.JSON), &spec) != nil {
				return 1
			}
			if c.Kind == "VirtualService" && len(spec.ExportTo) > 0 && !slices.Contains(spec.ExportTo, "*") {
				return 2 // visible to one namespace only: most proxies of the case do not see it
			}
			if len(spec.Gateways) == 0 {
				return 1
			}
			rank := 2
			for _, gw := range spec.Gateways {
				if !strings.Contains(gw, "/") {
					gw = c.Ns + "/" + gw
				}
				switch {
				case strings.HasSuffix(gw, "/mesh"):
					if rank == 2 {
						rank = 1
					}
				case slices.Contains(g.gateways, gw):
					rank = 0
				}
			}
			return rank
		}
		if kind == "VirtualService" {
			live := false
			for i := range g.cfgs {
				live = live || (g.cfgs[i].Kind == kind && bound(&g.cfgs[i]) < 2)
			}
			if !live {
				g.virtualService()
			}
		}
		order := []int{0, 1, 2}
		if forced/len(mutationCatalogue)%2 == 1 {
			order = []int{1, 0, 2}
		}
		for _, pass := range order {
			for i := range g.cfgs {
				if g.cfgs[i].Kind == kind && bound(&g.cfgs[i]) == pass && g.tryMutate(&g.cfgs[i]) {
					g.force = -1
					return
				}
			}
		}
		g.force = -1
	}
	if len(g.cfgs) == 0 {
		return
	}
	for try := 0; try < 40; try++ {
		if g.tryMutate(&g.cfgs[g.r.Intn(len(g.cfgs))]) {
			return
		}
	}
}

// mutateSpec damages the object in place; returns the mutation tag and, for nil-element mutations,
// the Go field path of the repeated-field element to nil after decoding.
func (g *gen) mutateSpec(c *cfgDesc, pm proto.Message) (string, string) {
	if g.force < 0 && g.ch(1, 25) {
		c.Name = longName
		return "oversize-name", ""
	}
	switch s := pm.(type) {
	case *networking.VirtualService:
		return g.mutVS(s)
	case *networking.DestinationRule:
		return g.mutDR(s)
	case *networking.ServiceEntry:
		return g.mutSE(s)
	case *networking.Gateway:
		return g.mutGW(s)
	case *networking.Sidecar:
		return g.mutSC(s)
	case *networking.EnvoyFilter:
		return g.mutEF(s)
	case *security.PeerAuthentication:
		s.PortLevelMtls = map[uint32]*security.PeerAuthentication_MutualTLS{0: {Mode: security.PeerAuthentication_MutualTLS_STRICT}, 70000: nil}
		return "pa-port-range", ""
	case *networking.WorkloadEntry:
		switch g.mutIdx(3) {
		case 0:
			s.Address = ""
			return "we-empty-address", ""
		case 1:
			s.Weight = 4294967295
			return "we-huge-weight", ""
		}
		s.Ports = map[string]uint32{"http": 0, "": 70000}
		return "we-port-range", ""
	}
	return "", ""
}

func (g *gen) mutVS(vs *networking.VirtualService) (string, string) {
	firstRoute := func() *networking.HTTPRoute {
		for _, h := range vs.Http {
			if h != nil && len(h.Route) > 0 {
				return h
			}
		}
		return nil
	}
	switch g.mutIdx(27) {
	case 0:
		vs.Hosts = nil
		return "vs-empty-hosts", ""
	case 1:
		vs.Hosts = []string{"*"}
		return "vs-star-host", ""
	case 2:
		vs.Hosts = append(vs.Hosts, strings.ToUpper(vs.Hosts[0]), vs.Hosts[0])
		return "vs-dup-upper-host", ""
	case 3:
		if h := firstRoute(); h != nil {
			h.Route[0].Destination = nil
			return "vs-nil-destination", ""
		}
	case 4:
		if h := firstRoute(); h != nil {
			h.Route[0].Weight = -5
			return "vs-negative-weight", ""
		}
	case 5:
		if h := firstRoute(); h != nil {
			for _, d := range h.Route {
				d.Weight = 2147483647
			}
			h.Route = append(h.Route, &networking.HTTPRouteDestination{Destination: h.Route[0].Destination, Weight: 2147483647},
				&networking.HTTPRouteDestination{Destination: h.Route[0].Destination, Weight: 2147483647})
			return "vs-huge-weights", ""
		}
	case 6:
		h := firstRoute()
		if h == nil && len(vs.Hosts) > 0 {
			// no http route with destinations yet: the damage replaces / adds one towards the VirtualService's own host
			dst := &networking.HTTPRouteDestination{Destination: &networking.Destination{Host: strings.TrimPrefix(vs.Hosts[0], "*.")}}
			h = &networking.HTTPRoute{Route: []*networking.HTTPRouteDestination{dst}}
			vs.Http = append([]*networking.HTTPRoute{h}, vs.Http...)
		}
		if h != nil {
			// exactly TWO destinations, both of weight 0 (the smallest list the "total destination weight = 0" rule covers)
			if len(h.Route) < 2 {
				h.Route = append(h.Route, proto.Clone(h.Route[0]).(*networking.HTTPRouteDestination))
			}
			h.Route = h.Route[:2]
			for _, d := range h.Route {
				d.Weight = 0
			}
			return "vs-zero-weights", ""
		}
	case 7:
		if len(vs.Http) > 0 {
			vs.Http[0].Match = append(vs.Http[0].Match, &networking.HTTPMatchRequest{Uri: &networking.StringMatch{MatchType: &networking.StringMatch_Regex{Regex: "[("}}})
			return "vs-bad-regex", ""
		}
	case 8:
		if h := firstRoute(); h != nil && h.Route[0].Destination != nil {
			h.Route[0].Destination.Port = &networking.PortSelector{Number: []uint32{0, 70000}[g.r.Intn(2)]}
			return "vs-port-range", ""
		}
	case 9:
		if len(vs.Http) > 0 {
			return "vs-nil-http", "Http.0"
		}
	case 10:
		if h := firstRoute(); h != nil {
			return "vs-nil-route-elem", "Http.0.Route.0"
		}
	case 11:
		if len(vs.Http) > 0 {
			vs.Http[0].Match = append(vs.Http[0].Match, nil)
			return "vs-nil-match", "Http.0.Match." + itoa(len(vs.Http[0].Match)-1)
		}
	case 12:
		if len(vs.Tls) > 0 {
			vs.Tls[0].Match[0].SniHosts = []string{"*", "other.example.org"}
			return "vs-sni-star", ""
		}
	case 13:
		if len(vs.Tls) > 0 {
			vs.Tls[0].Match = nil
			return "vs-tls-no-match", ""
		}
	case 14:
		if len(vs.Tls) > 0 {
			vs.Tls[0].Route = nil
			return "vs-tls-no-route", ""
		}
	case 15:
		if len(vs.Tcp) > 0 {
			vs.Tcp[0].Route = nil
			return "vs-tcp-no-route", ""
		}
	case 16:
		if len(vs.Http) > 0 {
			vs.Http[0].Timeout = durationpb.New(-5e9)
			vs.Http[0].Retries = &networking.HTTPRetry{Attempts: -3, PerTryTimeout: durationpb.New(-1e9), RetryOn: "bogus,,5xx"}
			return "vs-negative-timeout", ""
		}
	case 17:
		if len(vs.Http) > 0 {
			vs.Http[0].Redirect = &networking.HTTPRedirect{Uri: "/x", RedirectCode: 999}
			return "vs-redirect-and-route", ""
		}
	case 18:
		if len(vs.Http) > 0 {
			vs.Http[0].Fault = &networking.HTTPFaultInjection{Abort: &networking.HTTPFaultInjection_Abort{Percentage: &networking.Percent{Value: 250}},
				Delay: &networking.HTTPFaultInjection_Delay{Percentage: &networking.Percent{Value: -1}}}
			return "vs-fault-range", ""
		}
	case 19:
		if len(vs.Http) > 0 {
			vs.Http[0].Headers = &networking.Headers{Request: &networking.Headers_HeaderOperations{Set: map[string]string{"": "x", ":bad header\n": "y"}, Add: map[string]string{"": ""}}}
			return "vs-bad-headers", ""
		}
	case 20:
		if len(vs.Http) > 0 {
			vs.Http[0].Route = nil
			vs.Http[0].Redirect = nil
			vs.Http[0].DirectResponse = nil
			return "vs-http-no-action", ""
		}
	case 21:
		if len(vs.Http) > 0 {
			vs.Http[0].Mirror = &networking.Destination{}
			vs.Http[0].Mirrors = []*networking.HTTPMirrorPolicy{{}, {Destination: &networking.Destination{Host: ""}, Percentage: &networking.Percent{Value: 900}}}
			return "vs-empty-mirror", ""
		}
	case 22:
		vs.Gateways = []string{"", "mesh", "a/b/c"}
		return "vs-bad-gateways", ""
	case 23:
		if len(vs.Http) > 0 {
			vs.Http[0].Rewrite = &networking.HTTPRewrite{UriRegexRewrite: &networking.RegexRewrite{Match: "[(", Rewrite: "\\9"}}
			return "vs-bad-rewrite-regex", ""
		}
	case 24:
		if len(vs.Http) > 0 {
			vs.Http[0].CorsPolicy = &networking.CorsPolicy{AllowOrigins: []*networking.StringMatch{nil, {MatchType: &networking.StringMatch_Regex{Regex: "[("}}}, MaxAge: durationpb.New(-1e9)}
			return "vs-bad-cors", "Http.0.CorsPolicy.AllowOrigins.0"
		}
	case 26:
		// mixed-case hosts (rejected by validation: DNS labels are lower-case), also towards gateways
		for i, h := range vs.Hosts {
			vs.Hosts[i] = strings.ToUpper(h[:1]) + h[1:]
			if len(h) > 3 {
				vs.Hosts[i] = h[:2] + strings.ToUpper(h[2:3]) + h[3:]
			}
		}
		vs.Hosts = append(vs.Hosts, strings.ToLower(vs.Hosts[0]))
		return "vs-mixed-case-hosts", ""
	case 25:
		if len(vs.Http) > 0 && len(vs.Http[0].Match) > 0 {
			vs.Http[0].Match[0].Headers = map[string]*networking.StringMatch{"x-nil": nil, "": {MatchType: &networking.StringMatch_Exact{Exact: ""}}}
			vs.Http[0].Match[0].Uri = &networking.StringMatch{}
			return "vs-empty-matchers", ""
		}
	}
	return "", ""
}

func itoa(i int) string {
	if i == 0 {
		return "0"
	}
	s := ""
	for i > 0 {
		s = string(rune('0'+i%10)) + s
		i /= 10
	}
	return s
}

func (g *gen) mutDR(dr *networking.DestinationRule) (string, string) {
	switch g.mutIdx(10) {
	case 0:
		dr.Host = ""
		return "dr-empty-host", ""
	case 1:
		dr.Subsets = append(dr.Subsets, &networking.Subset{Name: "", Labels: map[string]string{"version": "v1"}})
		return "dr-empty-subset-name", ""
	case 2:
		dr.Subsets = append(dr.Subsets, &networking.Subset{Name: "dup"}, &networking.Subset{Name: "dup", Labels: map[string]string{"version": "v2"}})
		return "dr-dup-subset", ""
	case 3:
		dr.Subsets = append(dr.Subsets, &networking.Subset{Name: "a|b", Labels: map[string]string{"version": "v1"}})
		return "dr-pipe-subset", ""
	case 4:
		dr.TrafficPolicy = &networking.TrafficPolicy{PortLevelSettings: []*networking.TrafficPolicy_PortTrafficPolicy{{Port: &networking.PortSelector{Number: 0}}, {Port: nil}, {Port: &networking.PortSelector{Number: 70000}}}}
		return "dr-port-range", ""
	case 5:
		dr.TrafficPolicy = &networking.TrafficPolicy{LoadBalancer: &networking.LoadBalancerSettings{LbPolicy: &networking.LoadBalancerSettings_ConsistentHash{
			ConsistentHash: &networking.LoadBalancerSettings_ConsistentHashLB{HashKey: &networking.LoadBalancerSettings_ConsistentHashLB_HttpHeaderName{HttpHeaderName: ""}, MinimumRingSize: 9999999999}}}}
		return "dr-empty-hash", ""
	case 6:
		dr.TrafficPolicy = &networking.TrafficPolicy{Tls: &networking.ClientTLSSettings{Mode: networking.ClientTLSSettings_MUTUAL}}
		return "dr-mutual-no-certs", ""
	case 7:
		dr.TrafficPolicy = &networking.TrafficPolicy{ConnectionPool: &networking.ConnectionPoolSettings{
			Tcp:  &networking.ConnectionPoolSettings_TCPSettings{MaxConnections: -1, ConnectTimeout: durationpb.New(-1e9)},
			Http: &networking.ConnectionPoolSettings_HTTPSettings{Http1MaxPendingRequests: -1, Http2MaxRequests: -4, MaxRetries: -2, IdleTimeout: durationpb.New(-1e9)}},
			OutlierDetection: &networking.OutlierDetection{Interval: durationpb.New(-1e9), BaseEjectionTime: durationpb.New(0), MaxEjectionPercent: 400, MinHealthPercent: -3}}
		return "dr-negative-pool", ""
	case 8:
		dr.Subsets = append(dr.Subsets, nil)
		return "dr-nil-subset", "Subsets." + itoa(len(dr.Subsets)-1)
	case 9:
		dr.TrafficPolicy = &networking.TrafficPolicy{LoadBalancer: &networking.LoadBalancerSettings{LocalityLbSetting: &networking.LocalityLoadBalancerSetting{
			Distribute: []*networking.LocalityLoadBalancerSetting_Distribute{{From: "", To: map[string]uint32{"": 4294967295, "x/*": 4294967295}}},
			Failover:   []*networking.LocalityLoadBalancerSetting_Failover{{From: "a", To: "a"}}}}}
		return "dr-bad-locality", ""
	}
	return "", ""
}

func (g *gen) mutSE(se *networking.ServiceEntry) (string, string) {
	switch g.mutIdx(16) {
	case 0:
		se.Hosts = nil
		return "se-empty-hosts", ""
	case 1:
		se.Ports = nil
		return "se-no-ports", ""
	case 2:
		if len(se.Ports) > 0 {
			se.Ports[0].Number = []uint32{0, 70000}[g.r.Intn(2)]
			return "se-port-range", ""
		}
	case 3:
		if len(se.Ports) > 0 {
			se.Ports = append(se.Ports, &networking.ServicePort{Number: se.Ports[0].Number, Name: "dup-number", Protocol: "TCP"},
				&networking.ServicePort{Number: 81, Name: se.Ports[0].Name, Protocol: "HTTP"})
			return "se-dup-ports", ""
		}
	case 4:
		se.Addresses = []string{"not-an-ip", "10.0.0.0/33", ""}
		return "se-bad-addresses", ""
	case 5:
		se.Resolution = networking.ServiceEntry_STATIC
		se.Endpoints = []*networking.WorkloadEntry{{Address: ""}, {Address: "unix:///var/run/x.sock"}, {Address: "not an ip"}}
		return "se-bad-endpoint-address", ""
	case 6:
		se.Resolution = networking.ServiceEntry_STATIC
		se.Endpoints = []*networking.WorkloadEntry{{Address: "10.3.9.1", Weight: 4294967295}, {Address: "10.3.9.2", Weight: 4294967295}, {Address: "10.3.9.3", Weight: 4294967295}}
		return "se-huge-endpoint-weight", ""
	case 7:
		se.Resolution = networking.ServiceEntry_STATIC
		se.Endpoints = []*networking.WorkloadEntry{{Address: "10.3.9.1", Ports: map[string]uint32{"nosuchport": 0, "": 70000}}}
		return "se-endpoint-port-range", ""
	case 8:
		se.Hosts = append(se.Hosts, strings.ToUpper(se.Hosts[0]), se.Hosts[0])
		return "se-dup-upper-host", ""
	case 9:
		se.Hosts = []string{"*"}
		return "se-star-host", ""
	case 10:
		se.Endpoints = append(se.Endpoints, nil)
		return "se-nil-endpoint", "Endpoints." + itoa(len(se.Endpoints)-1)
	case 11:
		se.Ports = append(se.Ports, nil)
		return "se-nil-port", "Ports." + itoa(len(se.Ports)-1)
	case 12:
		se.Hosts = []string{"10.0.0.1", "a b", "-bad-.com", "foo..com", ".", ""}
		return "se-garbage-hosts", ""
	case 13:
		if len(se.Ports) > 0 {
			se.Ports[0].Protocol = "BOGUS"
			se.Ports[0].Name = ""
			return "se-bogus-protocol", ""
		}
	case 14:
		se.Resolution = networking.ServiceEntry_DNS
		se.Hosts = []string{"*.wild.example.org"}
		se.Endpoints = nil
		return "se-wildcard-dns", ""
	case 15:
		se.Resolution = networking.ServiceEntry_Resolution(77)
		se.Location = networking.ServiceEntry_Location(9)
		return "se-bad-enum", ""
	}
	return "", ""
}

func (g *gen) mutGW(gw *networking.Gateway) (string, string) {
	switch g.mutIdx(14) {
	case 0:
		gw.Servers = nil
		return "gw-no-servers", ""
	case 1:
		gw.Servers = append(gw.Servers, nil)
		return "gw-nil-server", "Servers." + itoa(len(gw.Servers)-1)
	case 2:
		gw.Servers[0].Port = nil
		return "gw-nil-port", ""
	case 3:
		gw.Servers[0].Port.Number = []uint32{0, 70000}[g.r.Intn(2)]
		return "gw-port-range", ""
	case 4:
		gw.Servers[0].Hosts = nil
		return "gw-no-hosts", ""
	case 5:
		gw.Servers[0].Port.Protocol = "BOGUS"
		return "gw-bogus-protocol", ""
	case 6:
		gw.Servers[0].Port.Protocol = "HTTPS"
		gw.Servers[0].Tls = nil
		return "gw-https-no-tls", ""
	case 7:
		gw.Servers[0].Port.Protocol = "HTTPS"
		gw.Servers[0].Tls = &networking.ServerTLSSettings{Mode: networking.ServerTLSSettings_SIMPLE}
		return "gw-simple-no-cert", ""
	case 8:
		gw.Servers = append(gw.Servers, proto.Clone(gw.Servers[0]).(*networking.Server))
		return "gw-dup-server", ""
	case 9:
		gw.Servers[0].Hosts = []string{"a/b/c", "/", "ns/", "*/*", "", "FOO.com", "foo.com", "Foo.Com"}
		return "gw-garbage-hosts", ""
	case 10:
		gw.Servers[0].Bind = "not an address"
		return "gw-bad-bind", ""
	case 11:
		gw.Selector = nil
		return "gw-no-selector", ""
	case 13:
		// the same host in two letter cases in one HTTP server, and once more in a second server of the port
		if len(gw.Servers[0].Hosts) > 0 {
			h := gw.Servers[0].Hosts[0]
			if strings.HasSuffix(h, "*") || len(h) < 4 {
				h = "foo.com"
			}
			up := h[:len(h)-3] + strings.ToUpper(h[len(h)-3:])
			gw.Servers[0].Hosts = []string{h, up}
			c := proto.Clone(gw.Servers[0]).(*networking.Server)
			c.Hosts = []string{strings.ToUpper(h[:1]) + h[1:]}
			if c.Port != nil {
				c.Port.Name += "-dup"
			}
			gw.Servers = append(gw.Servers, c)
			return "gw-mixed-case-hosts", ""
		}
	case 12:
		gw.Servers[0].Port.Protocol = "TLS"
		gw.Servers[0].Tls = &networking.ServerTLSSettings{Mode: networking.ServerTLSSettings_TLSmode(99)}
		return "gw-bad-tls-mode", ""
	}
	return "", ""
}

func (g *gen) mutSC(sc *networking.Sidecar) (string, string) {
	switch g.mutIdx(9) {
	case 0:
		sc.Egress = append(sc.Egress, &networking.IstioEgressListener{})
		return "sc-egress-no-hosts", ""
	case 1:
		sc.Egress = append(sc.Egress, &networking.IstioEgressListener{Hosts: []string{"bogus", "a/b/c", "", "/"}})
		return "sc-garbage-hosts", ""
	case 2:
		sc.Egress = append([]*networking.IstioEgressListener{{Hosts: []string{"*/*"}, Port: &networking.SidecarPort{Number: []uint32{0, 70000}[g.r.Intn(2)], Name: "x", Protocol: "HTTP"}}}, sc.Egress...)
		return "sc-port-range", ""
	case 3:
		sc.Egress = append([]*networking.IstioEgressListener{
			{Hosts: []string{"*/*"}, Port: &networking.SidecarPort{Number: 80, Name: "http", Protocol: "HTTP"}},
			{Hosts: []string{"./*"}, Port: &networking.SidecarPort{Number: 80, Name: "tcp", Protocol: "TCP"}}}, sc.Egress...)
		return "sc-dup-egress-port", ""
	case 4:
		sc.Egress = append([]*networking.IstioEgressListener{{Hosts: []string{"*/*"}, Bind: "not an address", Port: &networking.SidecarPort{Number: 8081, Name: "http", Protocol: "HTTP"}}}, sc.Egress...)
		return "sc-bad-bind", ""
	case 5:
		sc.Ingress = []*networking.IstioIngressListener{{Port: &networking.SidecarPort{Number: 9080, Name: "http", Protocol: "HTTP"}, DefaultEndpoint: "garbage"},
			{Port: &networking.SidecarPort{Number: 9080, Name: "http", Protocol: "HTTP"}, DefaultEndpoint: "127.0.0.1:0"}, {Port: nil, DefaultEndpoint: ""}}
		return "sc-bad-ingress", ""
	case 6:
		sc.Egress = append(sc.Egress, nil)
		return "sc-nil-egress", "Egress." + itoa(len(sc.Egress)-1)
	case 7:
		sc.Egress = append([]*networking.IstioEgressListener{{Hosts: []string{"*/*"}, Port: &networking.SidecarPort{Number: 8082, Name: "", Protocol: "BOGUS"}}}, sc.Egress...)
		return "sc-bogus-protocol", ""
	case 8:
		sc.Egress = nil
		sc.Ingress = nil
		return "sc-empty", ""
	}
	return "", ""
}

func (g *gen) mutEF(ef *networking.EnvoyFilter) (string, string) {
	switch g.mutIdx(6) {
	case 0:
		ef.ConfigPatches = append(ef.ConfigPatches, nil)
		return "ef-nil-patch", "ConfigPatches." + itoa(len(ef.ConfigPatches)-1)
	case 1:
		ef.ConfigPatches[0].Patch = nil
		return "ef-nil-patch-body", ""
	case 2:
		ef.ConfigPatches[0].Patch.Value = nil
		return "ef-nil-value", ""
	case 3:
		ef.ConfigPatches[0].Match = nil
		return "ef-nil-match", ""
	case 4:
		ef.ConfigPatches[0].ApplyTo = networking.EnvoyFilter_ApplyTo(77)
		ef.ConfigPatches[0].Patch.Operation = networking.EnvoyFilter_Patch_Operation(55)
		return "ef-bad-enum", ""
	case 5:
		ef.ConfigPatches[0].Patch.Value = mustStruct(map[string]any{"nosuchfield": "x", "name": float64(7)})
		return "ef-wrong-shape", ""
	}
	return "", ""
}
