package main

// The system under test: a REAL pilot/test/xds.FakeDiscoveryServer (real config store, service
// registries, PushContext, SidecarScope / gateway merging, xDS generators with the real caches) built
// from the mesh description of one case, and the full state-of-the-world snapshot the real
// CDS / LDS / RDS / EDS generators produce for one proxy.

import (
	"fmt"
	"os"
	"regexp"
	"runtime/debug"
	"sort"
	"strconv"
	"strings"
	"sync"
	"time"

	cluster "github.com/envoyproxy/go-control-plane/envoy/config/cluster/v3"
	corev3 "github.com/envoyproxy/go-control-plane/envoy/config/core/v3"
	endpoint "github.com/envoyproxy/go-control-plane/envoy/config/endpoint/v3"
	listener "github.com/envoyproxy/go-control-plane/envoy/config/listener/v3"
	route "github.com/envoyproxy/go-control-plane/envoy/config/route/v3"

	"google.golang.org/protobuf/types/known/wrapperspb"

	meshconfig "istio.io/api/mesh/v1alpha1"
	"istio.io/istio/pilot/pkg/features"
	"istio.io/istio/pilot/pkg/model"
	"istio.io/istio/pilot/pkg/xds"
	v3 "istio.io/istio/pilot/pkg/xds/v3"
	xdsfake "istio.io/istio/pilot/test/xds"
	"istio.io/istio/pkg/config"
	"istio.io/istio/pkg/config/host"
	"istio.io/istio/pkg/config/mesh"
	"istio.io/istio/pkg/config/protocol"
	"istio.io/istio/pkg/config/schema/gvk"
	"istio.io/istio/pkg/config/visibility"
	"istio.io/istio/pkg/util/sets"
)

type failer struct {
	mu       sync.Mutex
	cleanups []func()
}

func (f *failer) Fail()                          { panic("harness: Fail") }
func (f *failer) FailNow()                       { panic("harness: FailNow") }
func (f *failer) Fatal(args ...any)              { panic(fmt.Sprint(args...)) }
func (f *failer) Fatalf(format string, a ...any) { panic(fmt.Sprintf(format, a...)) }
func (f *failer) Log(args ...any)                {}
func (f *failer) Logf(format string, a ...any)   {}
func (f *failer) TempDir() string                { d, _ := os.MkdirTemp("", "c14"); return d }
func (f *failer) Helper()                        {}
func (f *failer) Skip(args ...any)               {}
func (f *failer) Cleanup(fn func()) {
	f.mu.Lock()
	defer f.mu.Unlock()
	f.cleanups = append(f.cleanups, fn)
}

func (f *failer) done() {
	f.mu.Lock()
	cs := f.cleanups
	f.cleanups = nil
	f.mu.Unlock()
	for i := len(cs) - 1; i >= 0; i-- {
		func() {
			defer func() { _ = recover() }()
			cs[i]()
		}()
	}
}

// meshCase is the parsed mesh description of one case.
type meshCase struct {
	opts  map[string]string
	svcs  []svcDesc
	eps   []epDesc
	cfgs  []cfgDesc
	kube  []string
	valid bool
}

type world struct {
	fl *failer
	s  *xdsfake.FakeDiscoveryServer
}

func (w *world) close() {
	if w != nil && w.fl != nil {
		w.fl.done()
	}
}

func protoOf(p string) protocol.Instance {
	if p == "" || p == "AUTO" {
		return protocol.Unsupported
	}
	return protocol.Parse(p)
}

func (d svcDesc) real() *model.Service {
	s := &model.Service{
		Hostname:       host.Name(d.Host),
		DefaultAddress: d.Vip,
		CreationTime:   time.Unix(500, 0),
		Attributes: model.ServiceAttributes{
			Name:            strings.Split(d.Host, ".")[0],
			Namespace:       d.Ns,
			ServiceRegistry: "Kubernetes",
		},
	}
	switch d.Res {
	case "headless":
		s.Resolution = model.Passthrough
		s.DefaultAddress = "0.0.0.0"
	case "dns":
		s.Resolution = model.DNSLB
	default:
		s.Resolution = model.ClientSideLB
	}
	for _, f := range d.Flags {
		switch f {
		case "ext":
			s.MeshExternal = true
		case "extreg":
			s.Attributes.ServiceRegistry = "External"
		}
	}
	if len(d.ExportTo) > 0 {
		s.Attributes.ExportTo = sets.New[visibility.Instance]()
		for _, e := range d.ExportTo {
			s.Attributes.ExportTo.Insert(visibility.Instance(e))
		}
	}
	for _, p := range d.Ports {
		s.Ports = append(s.Ports, &model.Port{Name: p.Name, Port: p.Port, Protocol: protoOf(p.Proto)})
	}
	return s
}

// guarded runs f with a recover() and a timeout; the result is "" or a canonical failure token.
func guarded(what string, timeout time.Duration, f func()) string {
	done := make(chan string, 1)
	go func() {
		defer func() {
			if r := recover(); r != nil {
				if os.Getenv("C14_TRACE") != "" {
					fmt.Fprintf(os.Stderr, "PANIC in %s: %v\n%s\n", what, r, debug.Stack())
				}
				done <- "crash " + what + " " + canonPanic(r) + "@" + topFrame(debug.Stack())
			}
		}()
		f()
		done <- ""
	}()
	select {
	case r := <-done:
		return r
	case <-time.After(timeout):
		return "timeout " + what
	}
}

var (
	reHex = regexp.MustCompile(`0x[0-9a-fA-F]+`)
	reNum = regexp.MustCompile(`[0-9]+`)
)

// topFrame names the innermost function of /repo on a panic stack (stable: no addresses, no lines).
func topFrame(stack []byte) string {
	seenPanic := false
	for _, l := range strings.Split(string(stack), "\n") {
		if strings.HasPrefix(l, "panic(") {
			seenPanic = true
			continue
		}
		if !seenPanic || !strings.HasPrefix(l, "istio.io/istio/") {
			continue
		}
		f := l
		if i := strings.LastIndex(f, "("); i > 0 {
			f = f[:i]
		}
		f = strings.TrimPrefix(f, "istio.io/istio/")
		if i := strings.LastIndex(f, "/"); i >= 0 {
			f = f[i+1:]
		}
		f = strings.NewReplacer("(", "", ")", "", "*", "", "[...]", "").Replace(f)
		return f
	}
	return "unknown"
}

// canonPanic maps a panic value to a short stable token (no addresses, no numbers).
func canonPanic(r any) string {
	s := fmt.Sprint(r)
	if e, ok := r.(error); ok {
		s = e.Error()
	}
	s = reHex.ReplaceAllString(s, "X")
	s = reNum.ReplaceAllString(s, "N")
	if len(s) > 90 {
		s = s[:90]
	}
	return encAtom(strings.ReplaceAll(s, " ", "_"))
}

// buildWorld constructs the real discovery server for the case.
func buildWorld(m *meshCase) (w *world, fail string) {
	w = &world{fl: &failer{}}
	var cfgs []config.Config
	for _, c := range m.cfgs {
		cc, err := c.toConfig()
		if err != nil {
			continue // undecodable line: the generator never emits one; shrinking may
		}
		cfgs = append(cfgs, cc)
	}
	var svcs []*model.Service
	for _, d := range m.svcs {
		svcs = append(svcs, d.real())
	}
	mc := mesh.DefaultMeshConfig()
	mc.RootNamespace = "istio-system"
	for k, v := range m.opts {
		switch k {
		case "outbound":
			if v == "REGISTRY_ONLY" {
				mc.OutboundTrafficPolicy = &meshconfig.MeshConfig_OutboundTrafficPolicy{Mode: meshconfig.MeshConfig_OutboundTrafficPolicy_REGISTRY_ONLY}
			}
		case "sniffing":
			// protocol sniffing timeouts etc. stay default
		case "h2upgrade":
			if v == "1" {
				mc.H2UpgradePolicy = meshconfig.MeshConfig_UPGRADE
			}
		case "automtls":
			mc.EnableAutoMtls.Value = v == "1"
		case "statname":
			mc.OutboundClusterStatName = "%SERVICE%_%SERVICE_PORT_NAME%_%SERVICE_PORT%"
			mc.InboundClusterStatName = "%SERVICE%_%SERVICE_PORT%"
		}
	}
	setAmbient(m.opts["ambient"] == "1")
	features.EnableQUICListeners = m.opts["quic"] == "1"
	kube := append([]string{}, m.kube...)
	if m.opts["ambient"] == "1" {
		// the ambient index reads services / workloads from the Kubernetes side: mirror those config objects there
		for _, c := range m.cfgs {
			if doc := c.kubeDoc(); doc != "" {
				kube = append(kube, doc)
			}
		}
	}
	fail = guarded("init", 20*time.Second, func() {
		w.s = xdsfake.NewFakeDiscoveryServer(w.fl, xdsfake.FakeOptions{
			Configs:                cfgs,
			Services:               svcs,
			MeshConfig:             mc,
			KubernetesObjectString: strings.Join(kube, "\n---\n"),
		})
		for _, e := range m.eps {
			svc := w.s.MemRegistry.GetService(host.Name(e.Host))
			if svc == nil {
				continue
			}
			port, ok := svc.Ports.Get(e.PortName)
			if !ok {
				continue
			}
			w.s.MemRegistry.AddInstance(&model.ServiceInstance{
				Service:     svc,
				ServicePort: port,
				Endpoint: &model.IstioEndpoint{
					Addresses:       []string{e.IP},
					EndpointPort:    epPort(e, port.Port),
					ServicePortName: port.Name,
					Labels:          e.Labels,
					Locality:        model.Locality{Label: e.Locality},
					LbWeight:        uint32(e.Weight),
					Namespace:       svc.Attributes.Namespace,
					HealthStatus:    model.Healthy,
				},
			})
		}
		// every AddInstance triggers a (debounced, asynchronous) push-context rebuild: wait until the last one is
		// committed, or a proxy would be served from whichever context happens to be current (observed: the embedded
		// endpoints of DNS clusters, and with them the clusters themselves, came and went between runs)
		w.s.EnsureSynced(w.fl)
	})
	if fail != "" {
		return w, fail
	}
	return w, ""
}

// setAmbient switches the control plane between the two deployments it supports: PILOT_ENABLE_AMBIENT=true (with the
// defaults the dependent flags take then, pilot/pkg/features/ambient.go) and the default, non-ambient one. The
// variables are read when a discovery server is built and while it generates; a case uses one setting throughout.
func setAmbient(on bool) {
	features.EnableAmbient = on
	features.EnableAmbientWaypoints = on
	features.EnableHBONESend = on
	features.EnableSidecarHBONEListening = on
	features.EnableAmbientStatus = on
	features.EnableIngressWaypointRouting = on
	features.EnableAmbientWaypointMultiNetwork = on
}

func epPort(e epDesc, servicePort int) uint32 {
	if e.TargetPort != 0 {
		return uint32(e.TargetPort)
	}
	return uint32(servicePort)
}

// snapshot is one full state-of-the-world push for one proxy.
type snapshot struct {
	// static: the listeners of the proxy's bootstrap (status / prometheus port), known from the proxy metadata; they are
	// not part of LDS but occupy their addresses: judged together with the LDS listeners for name / address uniqueness
	static    []*listener.Listener
	listeners []*listener.Listener
	routes    []*route.RouteConfiguration
	clusters  []*cluster.Cluster
	endpoints []*endpoint.ClusterLoadAssignment
	reqRds    []string
	reqEds    []string
	// bookkeeping for the "always answer" observation
	unkRds, unkRdsAnswered int
	unkEds, unkEdsAnswered int
	undecodable            []string
	anySkipped             int // google.protobuf.Any values whose type is not linked in: not judged by the API validation
}

// allListeners = bootstrap listeners, then the LDS listeners.
func (sn *snapshot) allListeners() []*listener.Listener {
	if len(sn.static) == 0 {
		return sn.listeners
	}
	return append(append([]*listener.Listener{}, sn.static...), sn.listeners...)
}

func staticListeners(px *model.Proxy) []*listener.Listener {
	var out []*listener.Listener
	add := func(name string, port int) {
		if port <= 0 {
			return
		}
		for _, l := range out {
			if int(l.GetAddress().GetSocketAddress().GetPortValue()) == port {
				return
			}
		}
		out = append(out, &listener.Listener{Name: "bootstrap-" + name, Address: &corev3.Address{Address: &corev3.Address_SocketAddress{
			SocketAddress: &corev3.SocketAddress{Address: "0.0.0.0", PortSpecifier: &corev3.SocketAddress_PortValue{PortValue: uint32(port)}}}}})
	}
	if px.Type == model.SidecarProxy && px.Metadata != nil {
		add("status-port", px.Metadata.EnvoyStatusPort)
		add("prometheus-port", px.Metadata.EnvoyPrometheusPort)
	}
	return out
}

var (
	unknownRds = []string{"9999", "bogus-route", "http.9999", "https.443.bogus.gw.istio-system", "bogus.default.svc.cluster.local:9999"}
	unknownEds = []string{"outbound|9999||bogus.default.svc.cluster.local", "bogus-cluster", "outbound|80|nosuchsubset|a.default.svc.cluster.local"}
)

func (w *world) proxy(p pushDesc) *model.Proxy {
	px := &model.Proxy{
		ConfigNamespace: p.Ns,
		Labels:          p.Labels,
		IPAddresses:     p.IPs,
		ID:              "px." + p.Ns,
		Metadata:        &model.NodeMetadata{Namespace: p.Ns, Labels: p.Labels, Raw: map[string]any{}},
	}
	switch p.Type {
	case "router":
		px.Type = model.Router
	case "waypoint":
		px.Type = model.Waypoint
	default:
		px.Type = model.SidecarProxy
	}
	for _, m := range p.Meta {
		k, v, _ := strings.Cut(m, "=")
		switch k {
		case "mode":
			px.Metadata.InterceptionMode = model.TrafficInterceptionMode(v)
		case "dns":
			px.Metadata.DNSCapture = v == "1"
		case "http10":
			px.Metadata.HTTP10 = v
		case "hbone":
			px.Metadata.EnableHBONE = v == "1"
		case "version":
			px.Metadata.IstioVersion = v
		case "cluster":
			px.Metadata.ClusterID = "Kubernetes"
		case "unpriv":
			px.Metadata.UnprivilegedPod = v
		case "status":
			px.Metadata.EnvoyStatusPort, _ = strconv.Atoi(v)
		case "prom":
			px.Metadata.EnvoyPrometheusPort, _ = strconv.Atoi(v)
		case "proxycfg": // PROXY_CONFIG of the node: the fields generation reads
			pc := &model.NodeMetaProxyConfig{}
			switch v {
			case "stats":
				pc.ProxyStatsMatcher = &meshconfig.ProxyConfig_ProxyStatsMatcher{InclusionPrefixes: []string{"cluster.outbound"}}
			case "headers":
				pc.ProxyHeaders = &meshconfig.ProxyConfig_ProxyHeaders{RequestId: &meshconfig.ProxyConfig_ProxyHeaders_RequestId{Disabled: wrapperspb.Bool(true)},
					AttemptCount: &meshconfig.ProxyConfig_ProxyHeaders_AttemptCount{Disabled: wrapperspb.Bool(true)}}
			case "concurrency":
				pc.Concurrency = wrapperspb.Int32(2)
			}
			px.Metadata.ProxyConfig = pc
		}
	}
	return w.s.SetupProxy(px)
}

// generate runs the real generators of the discovery server (the map bootstrap.InitGenerators fills)
// exactly as a full push would: CDS, then EDS for what CDS names, LDS, then RDS for what LDS names.
func (w *world) generate(px *model.Proxy) (*snapshot, string) {
	sn := &snapshot{static: staticListeners(px)}
	push := w.s.PushContext()
	req := &model.PushRequest{Push: push, Forced: true, Reason: model.NewReasonStats(model.ConfigUpdate), Start: time.Now()}
	gen := func(typ string, names []string) (model.Resources, error) {
		g := w.s.Discovery.Generators[typ]
		wr := &model.WatchedResource{TypeUrl: typ, ResourceNames: sets.New(names...)}
		res, _, err := g.Generate(px, wr, req)
		return res, err
	}
	fail := guarded("generate", 20*time.Second, func() {
		// CDS
		res, err := gen(v3.ClusterType, nil)
		if err != nil {
			panic("cds error: " + err.Error())
		}
		for _, r := range res {
			c := &cluster.Cluster{}
			if err := r.Resource.UnmarshalTo(c); err != nil {
				sn.undecodable = append(sn.undecodable, "Cluster:"+r.Name)
				continue
			}
			sn.clusters = append(sn.clusters, c)
		}
		// EDS: what the clusters name, in CDS order, plus names nobody defines
		seen := map[string]bool{}
		for _, c := range sn.clusters {
			if c.GetType() == cluster.Cluster_EDS {
				n := c.GetEdsClusterConfig().GetServiceName()
				if n == "" {
					n = c.Name
				}
				if !seen[n] {
					seen[n] = true
					sn.reqEds = append(sn.reqEds, n)
				}
			}
		}
		for _, u := range unknownEds {
			if !seen[u] {
				seen[u] = true
				sn.reqEds = append(sn.reqEds, u)
				sn.unkEds++
			}
		}
		res, err = gen(v3.EndpointType, sn.reqEds)
		if err != nil {
			panic("eds error: " + err.Error())
		}
		for _, r := range res {
			c := &endpoint.ClusterLoadAssignment{}
			if err := r.Resource.UnmarshalTo(c); err != nil {
				sn.undecodable = append(sn.undecodable, "ClusterLoadAssignment:"+r.Name)
				continue
			}
			sn.endpoints = append(sn.endpoints, c)
		}
		// LDS
		res, err = gen(v3.ListenerType, nil)
		if err != nil {
			panic("lds error: " + err.Error())
		}
		for _, r := range res {
			l := &listener.Listener{}
			if err := r.Resource.UnmarshalTo(l); err != nil {
				sn.undecodable = append(sn.undecodable, "Listener:"+r.Name)
				continue
			}
			sn.listeners = append(sn.listeners, l)
		}
		// RDS: what the listeners name, plus names nobody defines
		seen = map[string]bool{}
		for _, l := range sn.listeners {
			for _, n := range listenerRdsNames(l) {
				if !seen[n] {
					seen[n] = true
					sn.reqRds = append(sn.reqRds, n)
				}
			}
		}
		for _, u := range unknownRds {
			if !seen[u] {
				seen[u] = true
				sn.reqRds = append(sn.reqRds, u)
				sn.unkRds++
			}
		}
		res, err = gen(v3.RouteType, sn.reqRds)
		if err != nil {
			panic("rds error: " + err.Error())
		}
		for _, r := range res {
			rc := &route.RouteConfiguration{}
			if err := r.Resource.UnmarshalTo(rc); err != nil {
				sn.undecodable = append(sn.undecodable, "RouteConfiguration:"+r.Name)
				continue
			}
			sn.routes = append(sn.routes, rc)
		}
	})
	if fail != "" {
		return nil, fail
	}
	sn.canonicalOrder()
	have := map[string]bool{}
	for _, e := range sn.endpoints {
		have[e.ClusterName] = true
	}
	for _, u := range unknownEds {
		if have[u] {
			sn.unkEdsAnswered++
		}
	}
	have = map[string]bool{}
	for _, r := range sn.routes {
		have[r.Name] = true
	}
	for _, u := range unknownRds {
		if have[u] {
			sn.unkRdsAnswered++
		}
	}
	sn.canonicalOrder()
	return sn, ""
}

// generateIncremental is what a proxy holds after an INCREMENTAL push on top of the full snapshot sn0: the update of
// one config key (nothing really changed, the push context is the same) goes through the real generators un-forced -
// delta CDS (GenerateDeltas against the watched cluster names), partial EDS, LDS / RDS if the key needs them - and the
// answer is merged into sn0 the way the client does (removed names dropped, same names replaced, new ones added).
// canonicalOrder sorts the resources of every response by name (stable: resources of one name keep their order). RDS and
// EDS iterate the watched names, a Go set, and the listener builders iterate maps: the order of the resources within one
// response is random, means nothing to Envoy and to the property, and would make the reported detail vary from run to run.
func (sn *snapshot) canonicalOrder() {
	sort.SliceStable(sn.listeners, func(i, j int) bool { return sn.listeners[i].Name < sn.listeners[j].Name })
	sort.SliceStable(sn.routes, func(i, j int) bool { return sn.routes[i].Name < sn.routes[j].Name })
	sort.SliceStable(sn.clusters, func(i, j int) bool { return sn.clusters[i].Name < sn.clusters[j].Name })
	sort.SliceStable(sn.endpoints, func(i, j int) bool { return sn.endpoints[i].ClusterName < sn.endpoints[j].ClusterName })
}

func (w *world) generateIncremental(px *model.Proxy, sn0 *snapshot, keys ...model.ConfigKey) (*snapshot, string) {
	sn := &snapshot{static: sn0.static, reqRds: sn0.reqRds, reqEds: sn0.reqEds, unkRds: sn0.unkRds, unkEds: sn0.unkEds,
		unkRdsAnswered: sn0.unkRdsAnswered, unkEdsAnswered: sn0.unkEdsAnswered}
	push := w.s.PushContext()
	req := &model.PushRequest{Push: push, Forced: false, ConfigsUpdated: sets.New(keys...), Reason: model.NewReasonStats(model.ConfigUpdate), Start: time.Now()}
	fail := guarded("generate-incremental", 20*time.Second, func() {
		// CDS, delta
		var names []string
		for _, c := range sn0.clusters {
			names = append(names, c.Name)
		}
		wr := &model.WatchedResource{TypeUrl: v3.ClusterType, ResourceNames: sets.New(names...)}
		var (
			res     model.Resources
			removed model.DeletedResources
			used    bool
			err     error
		)
		if dg, ok := w.s.Discovery.Generators[v3.ClusterType].(model.XdsDeltaResourceGenerator); ok {
			res, removed, _, used, err = dg.GenerateDeltas(px, req, wr)
		} else {
			res, _, err = w.s.Discovery.Generators[v3.ClusterType].Generate(px, wr, req)
		}
		if err != nil {
			panic("cds error: " + err.Error())
		}
		var got []*cluster.Cluster
		for _, r := range res {
			c := &cluster.Cluster{}
			if err := r.Resource.UnmarshalTo(c); err != nil {
				sn.undecodable = append(sn.undecodable, "Cluster:"+r.Name)
				continue
			}
			got = append(got, c)
		}
		switch {
		case res == nil && len(removed) == 0:
			sn.clusters = sn0.clusters
		case !used:
			sn.clusters = got
		default:
			gone := sets.New(removed...)
			repl := map[string][]*cluster.Cluster{} // a name sent twice in one response stays twice (Envoy rejects that)
			for _, c := range got {
				repl[c.Name] = append(repl[c.Name], c)
			}
			seen := map[string]bool{}
			for _, c := range sn0.clusters {
				if gone.Contains(c.Name) {
					continue
				}
				if n, ok := repl[c.Name]; ok {
					if !seen[c.Name] {
						sn.clusters = append(sn.clusters, n...)
					}
					seen[c.Name] = true
					continue
				}
				sn.clusters = append(sn.clusters, c)
			}
			for _, c := range got { // new names, in the order sent
				if !seen[c.Name] {
					sn.clusters = append(sn.clusters, c)
				}
			}
		}
		// EDS, partial
		wr = &model.WatchedResource{TypeUrl: v3.EndpointType, ResourceNames: sets.New(sn0.reqEds...)}
		res, _, err = w.s.Discovery.Generators[v3.EndpointType].Generate(px, wr, req)
		if err != nil {
			panic("eds error: " + err.Error())
		}
		upd := map[string]*endpoint.ClusterLoadAssignment{}
		var order []string
		for _, r := range res {
			c := &endpoint.ClusterLoadAssignment{}
			if err := r.Resource.UnmarshalTo(c); err != nil {
				sn.undecodable = append(sn.undecodable, "ClusterLoadAssignment:"+r.Name)
				continue
			}
			if _, dup := upd[c.ClusterName]; dup {
				order = append(order, c.ClusterName+"\x00dup")
			}
			upd[c.ClusterName] = c
			order = append(order, c.ClusterName)
		}
		had := map[string]bool{}
		for _, e := range sn0.endpoints {
			had[e.ClusterName] = true
			if n, ok := upd[e.ClusterName]; ok {
				sn.endpoints = append(sn.endpoints, n)
			} else {
				sn.endpoints = append(sn.endpoints, e)
			}
		}
		for _, n := range order {
			name := strings.TrimSuffix(n, "\x00dup")
			if !had[name] || name != n {
				sn.endpoints = append(sn.endpoints, upd[name])
			}
		}
		// LDS / RDS: regenerated as a whole if the key needs them, else kept
		wr = &model.WatchedResource{TypeUrl: v3.ListenerType, ResourceNames: sets.New[string]()}
		res, _, err = w.s.Discovery.Generators[v3.ListenerType].Generate(px, wr, req)
		if err != nil {
			panic("lds error: " + err.Error())
		}
		if res == nil {
			sn.listeners = sn0.listeners
		}
		for _, r := range res {
			l := &listener.Listener{}
			if err := r.Resource.UnmarshalTo(l); err != nil {
				sn.undecodable = append(sn.undecodable, "Listener:"+r.Name)
				continue
			}
			sn.listeners = append(sn.listeners, l)
		}
		wr = &model.WatchedResource{TypeUrl: v3.RouteType, ResourceNames: sets.New(sn0.reqRds...)}
		res, _, err = w.s.Discovery.Generators[v3.RouteType].Generate(px, wr, req)
		if err != nil {
			panic("rds error: " + err.Error())
		}
		if res == nil {
			sn.routes = sn0.routes
		}
		for _, r := range res {
			rc := &route.RouteConfiguration{}
			if err := r.Resource.UnmarshalTo(rc); err != nil {
				sn.undecodable = append(sn.undecodable, "RouteConfiguration:"+r.Name)
				continue
			}
			sn.routes = append(sn.routes, rc)
		}
	})
	if fail != "" {
		return nil, fail
	}
	sn.canonicalOrder()
	return sn, ""
}

func sortedKeys(m map[string]bool) []string {
	out := make([]string, 0, len(m))
	for k := range m {
		out = append(out, k)
	}
	sort.Strings(out)
	return out
}

var _ = gvk.VirtualService
var _ = strconv.Itoa

// ---------------------------------------------------------------- sequences of incremental pushes (mode dseq)

// client is the state a delta-xDS client holds for one proxy: what it was sent, merged step by step.
type client struct {
	px *model.Proxy
	sn *snapshot
}

// applyStep changes the config store of the running discovery server (create / update = upsert, delete) and waits
// until the push context built for the change is committed.
func (w *world) applyStep(verb string, c cfgDesc) (key model.ConfigKey, res string) {
	cc, err := c.toConfig()
	if err != nil {
		return key, "undecodable"
	}
	key = model.ConfigKey{Kind: gvk.MustToKind(cc.GroupVersionKind), Name: cc.Name, Namespace: cc.Namespace}
	store := w.s.Store()
	before := w.s.Discovery.InboundUpdates.Load()
	old := w.s.PushContext()
	existing := store.Get(cc.GroupVersionKind, cc.Name, cc.Namespace)
	switch {
	case verb == "delete" && existing == nil:
		return key, "noop"
	case verb == "delete":
		if err := store.Delete(cc.GroupVersionKind, cc.Name, cc.Namespace, nil); err != nil {
			return key, "store-error"
		}
		res = "deleted"
	case existing != nil:
		cc.ResourceVersion = existing.ResourceVersion
		if _, err := store.Update(cc); err != nil {
			return key, "store-error"
		}
		res = "updated"
	default:
		if _, err := store.Create(cc); err != nil {
			return key, "store-error"
		}
		res = "created"
	}
	for end := time.Now().Add(3 * time.Second); time.Now().Before(end) && w.s.Discovery.InboundUpdates.Load() == before; {
		time.Sleep(time.Millisecond)
	}
	w.s.EnsureSynced(w.fl)
	for end := time.Now().Add(3 * time.Second); time.Now().Before(end) && w.s.PushContext() == old; {
		time.Sleep(time.Millisecond)
	}
	return key, res
}

func edsNames(cs []*cluster.Cluster) []string {
	var out []string
	seen := map[string]bool{}
	for _, c := range cs {
		if c.GetType() == cluster.Cluster_EDS {
			n := c.GetEdsClusterConfig().GetServiceName()
			if n == "" {
				n = c.Name
			}
			if !seen[n] {
				seen[n] = true
				out = append(out, n)
			}
		}
	}
	return out
}

// stepPush does what the server does for one connection when config `key` changed (computeProxyState, ProxyNeedsPush,
// then CDS / EDS / LDS / RDS with the client's watched names, delta generators where they exist), applies each response to
// the client's state the way a delta-xDS client does (upsert by name, removed_resources dropped, a removed cluster /
// listener takes its CLA / route configuration with it), then answers the client's requests for names it newly needs.
func (w *world) stepPush(cl *client, key model.ConfigKey) string {
	sn0 := cl.sn
	sn := &snapshot{static: sn0.static, listeners: sn0.listeners, routes: sn0.routes, clusters: sn0.clusters, endpoints: sn0.endpoints,
		reqRds: sn0.reqRds, reqEds: sn0.reqEds}
	px := cl.px
	fail := guarded("generate-step", 20*time.Second, func() {
		push := w.s.PushContext()
		req := &model.PushRequest{Push: push, ConfigsUpdated: sets.New(key), Reason: model.NewReasonStats(model.ConfigUpdate), Start: time.Now()}
		xds.VerifC14ComputeProxyState(w.s.Discovery, px, req)
		if r2, ok := w.s.Discovery.ProxyNeedsPush(px, req); !ok {
			return
		} else if r2 != nil {
			req = r2
		}
		asked := &model.PushRequest{Push: push, Forced: true, Reason: model.NewReasonStats(model.ProxyRequest), Start: time.Now()}
		run := func(typ string, names []string, r *model.PushRequest) (res model.Resources, removed []string, sent bool) {
			wr := &model.WatchedResource{TypeUrl: typ, ResourceNames: sets.New(names...)}
			var (
				del   model.DeletedResources
				logd  model.XdsLogDetails
				delta bool
				err   error
			)
			switch g := w.s.Discovery.Generators[typ].(type) {
			case model.XdsDeltaResourceGenerator:
				res, del, logd, delta, err = g.GenerateDeltas(px, r, wr)
			default:
				res, logd, err = g.Generate(px, wr, r)
			}
			if err != nil {
				panic(typ + " error: " + err.Error())
			}
			if res == nil && del == nil {
				return nil, nil, false
			}
			if delta {
				removed = del
			} else if !logd.Incremental {
				gone := sets.New(names...)
				for _, x := range res {
					gone.Delete(x.Name)
				}
				removed = sets.SortedList(gone)
			}
			return res, removed, true
		}
		// CDS
		var names []string
		for _, c := range sn.clusters {
			names = append(names, c.Name)
		}
		if res, removed, sent := run(v3.ClusterType, names, req); sent {
			gone := sets.New(removed...)
			var got []*cluster.Cluster
			repl := map[string]bool{}
			for _, r := range res {
				c := &cluster.Cluster{}
				if err := r.Resource.UnmarshalTo(c); err != nil {
					sn.undecodable = append(sn.undecodable, "Cluster:"+r.Name)
					continue
				}
				got = append(got, c)
				repl[c.Name] = true
			}
			var merged []*cluster.Cluster
			for _, c := range sn.clusters {
				if !gone.Contains(c.Name) && !repl[c.Name] {
					merged = append(merged, c)
				}
			}
			sn.clusters = append(merged, got...) // a name sent twice in one response stays twice
		}
		// EDS: the push for the names watched so far, then the request for the names the new clusters need
		applyEds := func(res model.Resources, removed []string) {
			gone := sets.New(removed...)
			upd := map[string]bool{}
			var got []*endpoint.ClusterLoadAssignment
			for _, r := range res {
				c := &endpoint.ClusterLoadAssignment{}
				if err := r.Resource.UnmarshalTo(c); err != nil {
					sn.undecodable = append(sn.undecodable, "ClusterLoadAssignment:"+r.Name)
					continue
				}
				got = append(got, c)
				upd[c.ClusterName] = true
			}
			var merged []*endpoint.ClusterLoadAssignment
			for _, e := range sn.endpoints {
				if !gone.Contains(e.ClusterName) && !upd[e.ClusterName] {
					merged = append(merged, e)
				}
			}
			sn.endpoints = append(merged, got...)
		}
		if res, removed, sent := run(v3.EndpointType, sn.reqEds, req); sent {
			applyEds(res, removed)
		}
		need := edsNames(sn.clusters)
		was := sets.New(sn.reqEds...)
		var fresh []string
		for _, n := range need {
			if !was.Contains(n) {
				fresh = append(fresh, n)
			}
		}
		if len(fresh) > 0 {
			if res, _, sent := run(v3.EndpointType, fresh, asked); sent {
				applyEds(res, nil)
			}
		}
		needSet := sets.New(need...)
		var kept []*endpoint.ClusterLoadAssignment
		for _, e := range sn.endpoints {
			if needSet.Contains(e.ClusterName) {
				kept = append(kept, e)
			}
		}
		sn.endpoints, sn.reqEds = kept, need
		// LDS
		names = nil
		for _, l := range sn.listeners {
			names = append(names, l.Name)
		}
		if res, removed, sent := run(v3.ListenerType, names, req); sent {
			gone := sets.New(removed...)
			repl := map[string]bool{}
			var got []*listener.Listener
			for _, r := range res {
				l := &listener.Listener{}
				if err := r.Resource.UnmarshalTo(l); err != nil {
					sn.undecodable = append(sn.undecodable, "Listener:"+r.Name)
					continue
				}
				got = append(got, l)
				repl[l.Name] = true
			}
			var merged []*listener.Listener
			for _, l := range sn.listeners {
				if !gone.Contains(l.Name) && !repl[l.Name] {
					merged = append(merged, l)
				}
			}
			sn.listeners = append(merged, got...)
		}
		// RDS
		applyRds := func(res model.Resources, removed []string) {
			gone := sets.New(removed...)
			upd := map[string]bool{}
			var got []*route.RouteConfiguration
			for _, r := range res {
				rc := &route.RouteConfiguration{}
				if err := r.Resource.UnmarshalTo(rc); err != nil {
					sn.undecodable = append(sn.undecodable, "RouteConfiguration:"+r.Name)
					continue
				}
				got = append(got, rc)
				upd[rc.Name] = true
			}
			var merged []*route.RouteConfiguration
			for _, r := range sn.routes {
				if !gone.Contains(r.Name) && !upd[r.Name] {
					merged = append(merged, r)
				}
			}
			sn.routes = append(merged, got...)
		}
		if res, removed, sent := run(v3.RouteType, sn.reqRds, req); sent {
			applyRds(res, removed)
		}
		need = nil
		seen := map[string]bool{}
		for _, l := range sn.listeners {
			for _, n := range listenerRdsNames(l) {
				if !seen[n] {
					seen[n] = true
					need = append(need, n)
				}
			}
		}
		was = sets.New(sn.reqRds...)
		fresh = nil
		for _, n := range need {
			if !was.Contains(n) {
				fresh = append(fresh, n)
			}
		}
		if len(fresh) > 0 {
			if res, _, sent := run(v3.RouteType, fresh, asked); sent {
				applyRds(res, nil)
			}
		}
		var keptR []*route.RouteConfiguration
		for _, r := range sn.routes {
			if seen[r.Name] {
				keptR = append(keptR, r)
			}
		}
		sn.routes, sn.reqRds = keptR, need
	})
	if fail != "" {
		return fail
	}
	sn.canonicalOrder()
	cl.sn = sn
	return ""
}
