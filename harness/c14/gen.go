package main

// Seeded mesh generator of the `snapshot` stream.  Two kinds of cases:
//
//	valid      every config object passes the schema's admission validation (objects that fail are
//	           dropped and counted), but the objects are chosen to collide: overlapping hosts between
//	           registry services and ServiceEntries, one port with several protocols, one VIP for two
//	           services, duplicate gateway servers, VirtualServices for the same host, subsets without
//	           endpoints, Sidecars with explicit and catch-all egress listeners, EnvoyFilter patches.
//	malformed  a valid mesh in which some objects are mutated past validation (mutate.go) and inserted
//	           as they are - the config store of the discovery server does not validate.

import (
	"fmt"
	"strconv"
	"strings"

	"google.golang.org/protobuf/proto"
	"google.golang.org/protobuf/types/known/durationpb"
	"google.golang.org/protobuf/types/known/structpb"
	"google.golang.org/protobuf/types/known/wrapperspb"

	extensions "istio.io/api/extensions/v1alpha1"
	networking "istio.io/api/networking/v1alpha3"
	networkingv1beta1 "istio.io/api/networking/v1beta1"
	security "istio.io/api/security/v1beta1"
	telemetry "istio.io/api/telemetry/v1alpha1"
	typev1beta1 "istio.io/api/type/v1beta1"
	"verifharness/internal/wire"
)

var (
	namespaces = []string{"default", "ns1", "istio-system"}
	svcNames   = []string{"a", "b", "c", "d"}
	extHosts   = []string{
		"foo.com", "bar.foo.com", "*.foo.com", "api.example.org", "*.example.org", "example.org",
		"a.default", "a.default.svc", "a.default.svc.cluster.local", "b.ns1.svc.cluster.local", "b.ns1",
		"x.local", "*.local", "*.default.svc.cluster.local", "*.cluster.local", "a", "foo.com.cluster.local", "cluster.local",
		"svc.cluster.local", "default.svc.cluster.local", "a.ns1.svc.cluster.local",
		// host names are case-insensitive and validation accepts upper case
		"Foo.com", "API.example.org", "Bar.Foo.com",
	}
	portPool = []portDesc{
		{"http", 80, "HTTP"}, {"tcp", 80, "TCP"}, {"auto", 80, ""}, {"http-alt", 8080, "HTTP"}, {"tcp-alt", 8080, "TCP"},
		{"https", 443, "HTTPS"}, {"tls", 443, "TLS"}, {"tcp-tls", 443, "TCP"}, {"http-443", 443, "HTTP"},
		{"tcp-9000", 9000, "TCP"}, {"http-9000", 9000, "HTTP"}, {"grpc", 7070, "GRPC"}, {"http2", 7070, "HTTP2"},
		{"mysql", 3306, "MySQL"}, {"tcp-3306", 3306, "TCP"}, {"http-3306", 3306, "HTTP"}, {"mongo", 27017, "Mongo"},
		{"auto-90", 90, ""}, {"redis", 6379, "Redis"}, {"udp", 53, "UDP"},
		{"http-15443", 15443, "HTTP"}, {"tls-15443", 15443, "TLS"},
	}
	// the proxy's own ports: virtualOutbound 15001, virtualInbound 15006, HBONE 15008, status 15021, prometheus 15090.
	// HTTP ports on them are guarded (conflictWithReservedListener); non-HTTP ports of address-less services are the
	// known finding `addr-unique`. Drawn in 1 of 10 port lists of the valid cases, guarded and unguarded side equally often.
	reservedPool = []portDesc{
		{"http-15001", 15001, "HTTP"}, {"http-15006", 15006, "HTTP"}, {"grpc-15006", 15006, "GRPC"}, {"http-15008", 15008, "HTTP"},
		{"tcp-15001", 15001, "TCP"}, {"tcp-15006", 15006, "TCP"}, {"tcp-15008", 15008, "TCP"}, {"auto-15006", 15006, ""},
		{"tcp-15090", 15090, "TCP"}, {"tcp-15021", 15021, "TCP"}, {"tls-15001", 15001, "TLS"},
		{"http-15090", 15090, "HTTP"}, {"http-15021", 15021, "HTTP"}, {"http2-15090", 15090, "HTTP2"},
	}
	labelSets = []map[string]string{
		{"app": "a"}, {"app": "a", "version": "v1"}, {"app": "a", "version": "v2"}, {"app": "b"}, {"app": "b", "version": "v1"},
		{"app": "c"}, {"istio": "ingressgateway"}, {"istio": "ingressgateway", "app": "gw"}, {"app": "gw2"},
	}
	localities = []string{"", "region1/zone1/sub1", "region1/zone2", "region2"}
	credNames  = []string{"cred-a", "cred-b"}
)

type gen struct {
	r         *wire.Rng
	malformed bool
	opts      map[string]string
	svcs      []svcDesc
	eps       []epDesc
	cfgs      []cfgDesc
	pushes    []pushDesc
	ts        int64
	dropped   int
	seqPush   *pushDesc
	steps     []stepDesc
	vipN      int
	names     map[string]int
	// what exists, to aim references at
	allHosts   []string            // every service hostname (registry + ServiceEntry)
	hostPorts  map[string][]int    // hostname -> ports
	subsets    map[string][]string // hostname -> subset names defined by some DestinationRule
	gateways   []string            // ns/name
	gwHosts    map[string][]string // ns/name -> server hosts
	epIPs      []string
	efSeq      int
	ambient    bool
	kube       []string
	gwTarget   map[int]int
	tlsServers []tlsServerRef
	dpushes    []dpushDesc
	crowdPort  uint32
	drByHost   map[string][2]string
	force      int          // index into the mutation catalogue of the object's kind, -1 = random
	vsRoutes   []vsRouteRef // named http routes of VirtualServices on hosts that are services: targets for route-level EnvoyFilters
}

type tlsServerRef struct {
	hosts []string
	bind  string
	port  uint32
}

type vsRouteRef struct {
	host  string
	port  int
	route string
	multi bool // another host of the same VirtualService is a service with this port too: their virtual hosts share one route list
}

func newGen(r *wire.Rng, malformed bool) *gen {
	return &gen{r: r, malformed: malformed, force: -1, drByHost: map[string][2]string{}, opts: map[string]string{}, ts: 1000, names: map[string]int{},
		hostPorts: map[string][]int{}, subsets: map[string][]string{}, gwHosts: map[string][]string{}}
}

func (g *gen) pick(l []string) string { return l[g.r.Intn(len(l))] }
func (g *gen) ch(n, d int) bool       { return g.r.Chance(n, d) }

func (g *gen) ns() string {
	if g.ch(6, 10) {
		return "default"
	}
	return g.pick(namespaces)
}

func (g *gen) name(prefix string) string {
	g.names[prefix]++
	return prefix + strconv.Itoa(g.names[prefix])
}

func (g *gen) vip() string {
	// sometimes reuse an address: two services on one VIP
	if g.vipN > 0 && g.ch(1, 6) {
		return "10.0.0." + strconv.Itoa(1+g.r.Intn(g.vipN))
	}
	g.vipN++
	return "10.0.0." + strconv.Itoa(g.vipN)
}

func (g *gen) ports(max int) []portDesc {
	n := 1 + g.r.Intn(max)
	var out []portDesc
	usedNum, usedName := map[int]bool{}, map[string]bool{}
	if !g.malformed && g.ch(1, 10) { // not in malformed cases: a finding there is attributed to the damaged object
		p := reservedPool[g.r.Intn(len(reservedPool))]
		for http := g.ch(1, 2); http != (p.Proto == "HTTP" || p.Proto == "HTTP2" || p.Proto == "GRPC"); { // both sides of the guard equally often
			p = reservedPool[g.r.Intn(len(reservedPool))]
		}
		usedNum[p.Port], usedName[p.Name] = true, true
		out = append(out, p)
	}
	for len(out) < n {
		p := portPool[g.r.Intn(len(portPool))]
		if g.ch(7, 10) {
			p = portPool[g.r.Intn(12)] // bias to the colliding low end
		}
		if usedNum[p.Port] || usedName[p.Name] {
			n--
			continue
		}
		usedNum[p.Port], usedName[p.Name] = true, true
		out = append(out, p)
	}
	return out
}

func (g *gen) exportTo() []string {
	switch g.r.Intn(8) {
	case 0:
		return []string{"."}
	case 1:
		return []string{"*"}
	case 2:
		return []string{g.pick(namespaces)}
	case 3:
		return []string{".", "ns1"}
	}
	return nil
}

func (g *gen) noteHost(h string, ports []portDesc) {
	if _, ok := g.hostPorts[h]; !ok {
		g.allHosts = append(g.allHosts, h)
	}
	for _, p := range ports {
		g.hostPorts[h] = append(g.hostPorts[h], p.Port)
	}
}

func (g *gen) add(kind, ns, name string, spec proto.Message, labels map[string]string) {
	g.ts++
	g.cfgs = append(g.cfgs, cfgDesc{Kind: kind, Ns: ns, Name: name, Ts: g.ts, Labels: labels, JSON: specJSON(spec)})
}

// ---------------------------------------------------------------- registry services

func (g *gen) registryService() {
	name, ns := g.pick(svcNames), g.ns()
	h := fmt.Sprintf("%s.%s.svc.cluster.local", name, ns)
	if _, dup := g.hostPorts[h]; dup {
		return
	}
	d := svcDesc{Host: h, Ns: ns, Vip: g.vip(), Ports: g.ports(3), Res: "vip", ExportTo: g.exportTo()}
	switch g.r.Intn(8) {
	case 0, 1:
		d.Res = "headless"
	case 2:
		d.Res = "dns"
		d.Flags = append(d.Flags, "ext")
	}
	g.svcs = append(g.svcs, d)
	g.noteHost(h, d.Ports)
	ne := g.r.Intn(4)
	for i := 0; i < ne; i++ {
		ip := fmt.Sprintf("10.1.%d.%d", len(g.svcs), i+1)
		lbl := map[string]string{"app": name}
		if g.ch(2, 3) {
			lbl["version"] = g.pick([]string{"v1", "v2"})
		}
		g.epIPs = append(g.epIPs, ip)
		for _, p := range d.Ports {
			g.eps = append(g.eps, epDesc{Host: h, PortName: p.Name, IP: ip, Labels: lbl, Locality: g.pick(localities), Weight: g.r.Intn(3)})
		}
	}
}

// the ingress gateway's own service, so that routers have service targets
func (g *gen) gatewayService() {
	h := "istio-ingressgateway.istio-system.svc.cluster.local"
	d := svcDesc{Host: h, Ns: "istio-system", Vip: g.vip(), Res: "vip",
		Ports: []portDesc{{"http2", 80, "HTTP2"}, {"https", 443, "HTTPS"}, {"tcp", 9000, "TCP"}, {"tls", 15443, "TLS"}}}
	g.svcs = append(g.svcs, d)
	g.noteHost(h, d.Ports)
	// the usual deployment: Service port 80 -> container port 8080, 443 -> 8443 (sometimes equal)
	g.gwTarget = map[int]int{}
	if g.ch(2, 3) {
		g.gwTarget = map[int]int{80: 8080, 443: 8443}
	}
	for _, p := range d.Ports {
		g.eps = append(g.eps, epDesc{Host: h, PortName: p.Name, IP: "10.2.0.1", Labels: map[string]string{"istio": "ingressgateway"}, TargetPort: g.gwTarget[p.Port]})
	}
}

// ---------------------------------------------------------------- ServiceEntry

func (g *gen) serviceEntry() {
	se := &networking.ServiceEntry{}
	nh := 1 + g.r.Intn(3)
	seen := map[string]bool{}
	for i := 0; i < nh; i++ {
		h := g.pick(extHosts)
		if g.ch(1, 5) && len(g.allHosts) > 0 {
			h = g.pick(g.allHosts) // collide with something that exists
		}
		if !seen[h] {
			seen[h] = true
			se.Hosts = append(se.Hosts, h)
		}
	}
	ports := g.ports(3)
	for _, p := range ports {
		sp := &networking.ServicePort{Number: uint32(p.Port), Name: p.Name, Protocol: p.Proto}
		if p.Proto == "" {
			sp.Protocol = ""
		}
		if g.ch(1, 6) {
			sp.TargetPort = uint32(8000 + g.r.Intn(3))
		}
		se.Ports = append(se.Ports, sp)
	}
	wild := false
	for _, h := range se.Hosts {
		if strings.HasPrefix(h, "*") {
			wild = true
		}
	}
	switch g.r.Intn(5) {
	case 0:
		se.Resolution = networking.ServiceEntry_NONE
	case 1, 2:
		se.Resolution = networking.ServiceEntry_STATIC
	case 3:
		se.Resolution = networking.ServiceEntry_DNS
	case 4:
		se.Resolution = networking.ServiceEntry_DNS_ROUND_ROBIN
	}
	if wild && (se.Resolution == networking.ServiceEntry_DNS || se.Resolution == networking.ServiceEntry_DNS_ROUND_ROBIN) && g.ch(4, 5) {
		se.Resolution = networking.ServiceEntry_NONE
	}
	if g.ch(1, 2) {
		se.Location = networking.ServiceEntry_MESH_INTERNAL
	}
	// addresses: none, a VIP (possibly shared), a CIDR
	switch g.r.Intn(6) {
	case 0, 1:
		se.Addresses = []string{g.vip()}
	case 2:
		se.Addresses = []string{g.vip(), "10.9.0.0/16"}
	case 3:
		se.Addresses = []string{"10.9.0.0/16"}
	case 4:
		if g.ch(1, 2) {
			se.Addresses = []string{"2001:db8::" + strconv.Itoa(1+g.r.Intn(3))}
		}
	}
	if se.Resolution == networking.ServiceEntry_STATIC || (se.Resolution == networking.ServiceEntry_DNS && g.ch(1, 2)) {
		if g.ch(1, 5) {
			se.WorkloadSelector = &networking.WorkloadSelector{Labels: map[string]string{"app": g.pick([]string{"a", "b", "we"})}}
		} else {
			ne := g.r.Intn(4)
			for i := 0; i < ne; i++ {
				we := &networking.WorkloadEntry{Address: fmt.Sprintf("10.3.%d.%d", len(g.cfgs)%250, i+1)}
				if se.Resolution == networking.ServiceEntry_DNS {
					we.Address = g.pick([]string{"us.foo.com", "eu.foo.com", "backend.example.org"})
				}
				if g.ch(1, 2) {
					we.Labels = map[string]string{"version": g.pick([]string{"v1", "v2"})}
				}
				if g.ch(1, 3) {
					we.Locality = g.pick(localities[1:])
				}
				if g.ch(1, 3) {
					we.Weight = uint32(1 + g.r.Intn(100))
				}
				if g.ch(1, 3) {
					we.Ports = map[string]uint32{ports[0].Name: uint32(8000 + g.r.Intn(100))}
				}
				se.Endpoints = append(se.Endpoints, we)
			}
		}
	}
	se.ExportTo = g.exportTo()
	if g.ch(1, 8) {
		se.SubjectAltNames = []string{"spiffe://cluster.local/ns/default/sa/x"}
	}
	ns := g.ns()
	var lbl map[string]string
	if g.ambient && g.ch(2, 3) {
		ns = "default"
		lbl = map[string]string{"istio.io/use-waypoint": "waypoint"}
		if g.ch(1, 4) {
			lbl["istio.io/ingress-use-waypoint"] = "true"
		}
	}
	g.add("ServiceEntry", ns, g.name("se"), se, lbl)
	for _, h := range se.Hosts {
		g.noteHost(h, ports)
	}
}

func (g *gen) workloadEntry() {
	we := &networking.WorkloadEntry{
		Address: fmt.Sprintf("10.4.0.%d", 1+g.r.Intn(5)),
		Labels:  map[string]string{"app": g.pick([]string{"a", "b", "we"}), "version": g.pick([]string{"v1", "v2"})},
	}
	if g.ch(1, 3) {
		we.Locality = g.pick(localities[1:])
	}
	if g.ch(1, 3) {
		we.Weight = uint32(1 + g.r.Intn(10))
	}
	if g.ch(1, 3) {
		we.Ports = map[string]uint32{"http": 8080}
	}
	g.add("WorkloadEntry", g.ns(), g.name("we"), we, nil)
}

// ---------------------------------------------------------------- VirtualService

func (g *gen) someHost() string {
	if len(g.allHosts) > 0 && g.ch(4, 5) {
		return g.pick(g.allHosts)
	}
	return g.pick(extHosts)
}

func (g *gen) destination(ownHost string) *networking.Destination {
	h := g.someHost()
	if g.ch(1, 3) {
		h = ownHost
	}
	if strings.HasPrefix(h, "*") {
		h = strings.TrimPrefix(h, "*.")
	}
	d := &networking.Destination{Host: h}
	if g.ch(1, 3) {
		if ss := g.subsets[h]; len(ss) > 0 && g.ch(4, 5) {
			d.Subset = g.pick(ss)
		} else {
			d.Subset = g.pick([]string{"v1", "v2", "nosuch"})
		}
	}
	if ps := g.hostPorts[h]; len(ps) > 0 && g.ch(2, 3) {
		d.Port = &networking.PortSelector{Number: uint32(ps[g.r.Intn(len(ps))])}
	} else if g.ch(1, 4) {
		d.Port = &networking.PortSelector{Number: uint32(portPool[g.r.Intn(12)].Port)}
	}
	return d
}

func (g *gen) stringMatch() *networking.StringMatch {
	switch g.r.Intn(3) {
	case 0:
		return &networking.StringMatch{MatchType: &networking.StringMatch_Exact{Exact: g.pick([]string{"/", "/a", "/api/v1", "x"})}}
	case 1:
		return &networking.StringMatch{MatchType: &networking.StringMatch_Prefix{Prefix: g.pick([]string{"/", "/a", "/api"})}}
	}
	return &networking.StringMatch{MatchType: &networking.StringMatch_Regex{Regex: g.pick([]string{"/a.*", "^/v[0-9]+/.*$", ".*"})}}
}

func (g *gen) httpRoute(host string, gws []string) *networking.HTTPRoute {
	r := &networking.HTTPRoute{}
	if g.ch(1, 3) {
		r.Name = g.pick([]string{"r1", "r2", "primary"})
	}
	nm := g.r.Intn(3)
	for i := 0; i < nm; i++ {
		m := &networking.HTTPMatchRequest{}
		if g.ch(3, 4) {
			m.Uri = g.stringMatch()
		}
		if g.ch(1, 4) {
			m.Headers = map[string]*networking.StringMatch{g.pick([]string{"x-user", "end-user", ":authority"}): g.stringMatch()}
		}
		if g.ch(1, 5) {
			m.Port = uint32(portPool[g.r.Intn(12)].Port)
		}
		if g.ch(1, 6) && len(gws) > 0 {
			m.Gateways = []string{g.pick(gws)}
		}
		if g.ch(1, 6) {
			m.SourceLabels = map[string]string{"app": g.pick([]string{"a", "b"})}
		}
		if g.ch(1, 8) {
			m.Method = &networking.StringMatch{MatchType: &networking.StringMatch_Exact{Exact: "GET"}}
		}
		if g.ch(1, 8) {
			m.QueryParams = map[string]*networking.StringMatch{"q": g.stringMatch()}
		}
		if g.ch(1, 10) {
			m.IgnoreUriCase = true
		}
		r.Match = append(r.Match, m)
	}
	switch g.r.Intn(10) {
	case 0:
		r.Redirect = &networking.HTTPRedirect{Uri: "/new", Authority: "other.example.org"}
		if g.ch(1, 2) {
			r.Redirect.RedirectCode = []uint32{301, 302, 307, 308}[g.r.Intn(4)]
		}
		return r
	case 1:
		r.DirectResponse = &networking.HTTPDirectResponse{Status: 503, Body: &networking.HTTPBody{Specifier: &networking.HTTPBody_String_{String_: "no"}}}
		return r
	}
	nd := 1 + g.r.Intn(3)
	switch {
	case nd == 1:
		r.Route = []*networking.HTTPRouteDestination{{Destination: g.destination(host)}}
		if g.ch(1, 4) {
			r.Route[0].Weight = 100
		}
	default:
		left := int32(100)
		for i := 0; i < nd; i++ {
			w := int32(g.r.Intn(int(left) + 1))
			if i == nd-1 {
				w = left
			}
			left -= w
			r.Route = append(r.Route, &networking.HTTPRouteDestination{Destination: g.destination(host), Weight: w})
		}
		if g.ch(1, 4) { // weights need not sum to 100
			for _, d := range r.Route {
				d.Weight = int32(1 + g.r.Intn(1000))
			}
		}
	}
	if g.ch(1, 5) {
		r.Timeout = durationpb.New(5e9)
	}
	if g.ch(1, 5) {
		r.Retries = &networking.HTTPRetry{Attempts: int32(g.r.Intn(4)), RetryOn: "5xx,connect-failure"}
		if g.ch(1, 2) {
			r.Retries.PerTryTimeout = durationpb.New(2e9)
		}
	}
	if g.ch(1, 6) {
		r.Rewrite = &networking.HTTPRewrite{Uri: "/rewritten"}
		if g.ch(1, 2) {
			r.Rewrite.Authority = "rewritten.example.org"
		}
	}
	if g.ch(1, 8) {
		r.Mirror = g.destination(host)
		if g.ch(1, 2) {
			r.MirrorPercentage = &networking.Percent{Value: 50}
		}
	}
	if g.ch(1, 8) {
		r.Fault = &networking.HTTPFaultInjection{Abort: &networking.HTTPFaultInjection_Abort{
			ErrorType: &networking.HTTPFaultInjection_Abort_HttpStatus{HttpStatus: 500}, Percentage: &networking.Percent{Value: 10}}}
	}
	if g.ch(1, 8) {
		r.CorsPolicy = &networking.CorsPolicy{AllowOrigins: []*networking.StringMatch{g.stringMatch()}, AllowMethods: []string{"GET"}}
	}
	if g.ch(1, 6) {
		r.Headers = &networking.Headers{Request: &networking.Headers_HeaderOperations{Set: map[string]string{"x-a": "1"}, Remove: []string{"x-b"}}}
	}
	return r
}

func (g *gen) virtualService() {
	vs := &networking.VirtualService{}
	nh := 1 + g.r.Intn(3)
	seen := map[string]bool{}
	for i := 0; i < nh; i++ {
		h := g.someHost()
		if g.ch(1, 8) {
			h = g.pick(svcNames) // short name, resolved against the namespace
		}
		if !seen[h] {
			seen[h] = true
			vs.Hosts = append(vs.Hosts, h)
		}
	}
	if g.ch(1, 10) && !strings.HasPrefix(vs.Hosts[0], "*") && len(vs.Hosts[0]) > 1 {
		vs.Hosts = append(vs.Hosts, strings.ToUpper(vs.Hosts[0][:1])+vs.Hosts[0][1:])
	}
	var gws []string
	pickGw := g.r.Intn(6)
	if g.crowdPort != 0 && len(g.gateways) > 0 && g.ch(2, 3) {
		pickGw = 5
	}
	switch pickGw {
	case 0, 1, 2: // mesh only (default)
		if g.ch(1, 3) {
			vs.Gateways = []string{"mesh"}
		}
		gws = []string{"mesh"}
	case 3:
		if len(g.gateways) > 0 {
			gw := g.pick(g.gateways)
			vs.Gateways = []string{gw, "mesh"}
			gws = vs.Gateways
		}
	default:
		if len(g.gateways) > 0 {
			gw := g.pick(g.gateways)
			vs.Gateways = []string{gw}
			gws = vs.Gateways
			// aim at a host the gateway serves
			if hs := g.gwHosts[gw]; len(hs) > 0 && g.ch(3, 4) {
				h := g.pick(hs)
				if i := strings.Index(h, "/"); i >= 0 {
					h = h[i+1:]
				}
				if h == "*" {
					h = g.pick([]string{"*", "foo.com", "bar.foo.com", "*.foo.com", "Foo.com"})
				}
				vs.Hosts = []string{h}
				if g.ch(1, 6) && !strings.HasPrefix(h, "*") {
					vs.Hosts = append(vs.Hosts, strings.ToUpper(h[:1])+h[1:]) // the same host once more, in another letter case
				}
			}
		} else {
			vs.Gateways = []string{g.pick([]string{"istio-system/nosuch", "default/gw1"})}
			gws = vs.Gateways
		}
	}
	kind := g.r.Intn(10)
	boundToGateway := len(gws) > 0 && gws[0] != "mesh"
	if g.crowdPort != 0 && boundToGateway && g.ch(2, 3) {
		// crowded gateway port: give its plaintext TCP / passthrough servers something to route (without a route a
		// server yields no filter chain at all): a tcp route and a tls route that apply to every port
		kind = 9
		if g.ch(1, 2) {
			vs.Hosts = []string{g.pick([]string{"*", "foo.com", "api.example.org"})}
		}
	}
	if kind < 8 {
		nr := 1 + g.r.Intn(3)
		for i := 0; i < nr; i++ {
			vs.Http = append(vs.Http, g.httpRoute(vs.Hosts[0], gws))
		}
	}
	if kind >= 6 {
		// TLS routes: sniHosts must be within the hosts
		nt := 1 + g.r.Intn(2)
		for i := 0; i < nt; i++ {
			h := g.pick(vs.Hosts)
			sni := h
			if strings.HasPrefix(h, "*.") && g.ch(1, 2) {
				sni = "sub" + h[1:]
			}
			m := &networking.TLSMatchAttributes{SniHosts: []string{sni}}
			if g.ch(2, 3) {
				m.Port = 443
			}
			if g.ch(1, 6) {
				m.DestinationSubnets = []string{g.pick([]string{"10.9.0.0/16", "10.0.0.1", "10.0.0.0/8"})}
			}
			if g.ch(1, 6) && len(gws) > 0 {
				m.Gateways = []string{g.pick(gws)}
			}
			vs.Tls = append(vs.Tls, &networking.TLSRoute{Match: []*networking.TLSMatchAttributes{m},
				Route: []*networking.RouteDestination{{Destination: g.destination(vs.Hosts[0])}}})
		}
	}
	if kind >= 8 {
		nt := 1 + g.r.Intn(2)
		for i := 0; i < nt; i++ {
			tr := &networking.TCPRoute{Route: []*networking.RouteDestination{{Destination: g.destination(vs.Hosts[0])}}}
			if g.crowdPort != 0 && boundToGateway {
				if g.ch(1, 2) {
					tr.Match = []*networking.L4MatchAttributes{{Port: g.crowdPort}}
				}
			} else if g.ch(2, 3) {
				m := &networking.L4MatchAttributes{Port: uint32(portPool[g.r.Intn(12)].Port)}
				if g.ch(1, 4) {
					m.DestinationSubnets = []string{g.pick([]string{"10.9.0.0/16", "10.0.0.1"})}
				}
				if g.ch(1, 5) {
					m.SourceLabels = map[string]string{"app": "a"}
				}
				tr.Match = []*networking.L4MatchAttributes{m}
			}
			if g.ch(1, 3) {
				tr.Route = append(tr.Route, &networking.RouteDestination{Destination: g.destination(vs.Hosts[0]), Weight: 30})
				tr.Route[0].Weight = 70
			}
			vs.Tcp = append(vs.Tcp, tr)
		}
	}
	vs.ExportTo = g.exportTo()
	onPort := map[int]int{}
	for _, h := range vs.Hosts {
		for _, p := range g.hostPorts[h] {
			onPort[p]++
		}
	}
	for _, h := range vs.Hosts {
		for _, p := range g.hostPorts[h] {
			for _, r := range vs.Http {
				g.vsRoutes = append(g.vsRoutes, vsRouteRef{h, p, r.Name, onPort[p] > 1})
			}
		}
	}
	g.add("VirtualService", g.ns(), g.name("vs"), vs, nil)
}

// ---------------------------------------------------------------- DestinationRule

func (g *gen) trafficPolicy(depth int) *networking.TrafficPolicy {
	tp := &networking.TrafficPolicy{}
	switch g.r.Intn(6) {
	case 0:
		tp.LoadBalancer = &networking.LoadBalancerSettings{LbPolicy: &networking.LoadBalancerSettings_Simple{Simple: networking.LoadBalancerSettings_ROUND_ROBIN}}
	case 1:
		tp.LoadBalancer = &networking.LoadBalancerSettings{LbPolicy: &networking.LoadBalancerSettings_Simple{Simple: networking.LoadBalancerSettings_LEAST_REQUEST}}
	case 2:
		tp.LoadBalancer = &networking.LoadBalancerSettings{LbPolicy: &networking.LoadBalancerSettings_ConsistentHash{ConsistentHash: &networking.LoadBalancerSettings_ConsistentHashLB{
			HashKey: &networking.LoadBalancerSettings_ConsistentHashLB_HttpHeaderName{HttpHeaderName: "x-user"}}}}
	case 3:
		tp.LoadBalancer = &networking.LoadBalancerSettings{LbPolicy: &networking.LoadBalancerSettings_Simple{Simple: networking.LoadBalancerSettings_PASSTHROUGH}}
	}
	if g.ch(1, 4) {
		tp.ConnectionPool = &networking.ConnectionPoolSettings{Tcp: &networking.ConnectionPoolSettings_TCPSettings{MaxConnections: 10},
			Http: &networking.ConnectionPoolSettings_HTTPSettings{Http1MaxPendingRequests: 5, MaxRequestsPerConnection: 2}}
		if g.ch(1, 3) {
			tp.ConnectionPool.Http.H2UpgradePolicy = networking.ConnectionPoolSettings_HTTPSettings_UPGRADE
		}
	}
	if g.ch(1, 4) {
		tp.OutlierDetection = &networking.OutlierDetection{Consecutive_5XxErrors: wrapperspb.UInt32(3), Interval: durationpb.New(1e9), BaseEjectionTime: durationpb.New(3e9)}
	}
	if g.ch(1, 5) {
		// locality load balancing by label priorities (needs outlier detection to take effect); ServiceEntry-backed hosts with
		// inline endpoints in several localities are the neighbourhood of 9da935c
		if tp.LoadBalancer == nil {
			tp.LoadBalancer = &networking.LoadBalancerSettings{LbPolicy: &networking.LoadBalancerSettings_Simple{Simple: networking.LoadBalancerSettings_ROUND_ROBIN}}
		}
		tp.LoadBalancer.LocalityLbSetting = &networking.LocalityLoadBalancerSetting{FailoverPriority: [][]string{{"version"}, {"app", "version"},
			{"topology.istio.io/network", "version"}, {"version=v2"}}[g.r.Intn(4)]}
		if g.ch(3, 4) {
			tp.OutlierDetection = &networking.OutlierDetection{Consecutive_5XxErrors: wrapperspb.UInt32(3), Interval: durationpb.New(1e9), BaseEjectionTime: durationpb.New(3e9)}
		}
	}
	switch g.r.Intn(8) {
	case 0:
		tp.Tls = &networking.ClientTLSSettings{Mode: networking.ClientTLSSettings_ISTIO_MUTUAL}
	case 1:
		tp.Tls = &networking.ClientTLSSettings{Mode: networking.ClientTLSSettings_SIMPLE}
		if g.ch(1, 2) {
			tp.Tls.Sni = "sni.example.org"
		}
	case 2:
		tp.Tls = &networking.ClientTLSSettings{Mode: networking.ClientTLSSettings_MUTUAL, ClientCertificate: "/etc/c.pem", PrivateKey: "/etc/k.pem", CaCertificates: "/etc/ca.pem"}
	case 3:
		tp.Tls = &networking.ClientTLSSettings{Mode: networking.ClientTLSSettings_SIMPLE, CredentialName: g.pick(credNames)}
	case 4:
		tp.Tls = &networking.ClientTLSSettings{Mode: networking.ClientTLSSettings_DISABLE}
	}
	if depth == 0 && g.ch(1, 4) {
		p := &networking.TrafficPolicy_PortTrafficPolicy{Port: &networking.PortSelector{Number: uint32(portPool[g.r.Intn(12)].Port)}}
		inner := g.trafficPolicy(1)
		p.LoadBalancer, p.ConnectionPool, p.OutlierDetection, p.Tls = inner.LoadBalancer, inner.ConnectionPool, inner.OutlierDetection, inner.Tls
		tp.PortLevelSettings = []*networking.TrafficPolicy_PortTrafficPolicy{p}
	}
	return tp
}

func (g *gen) destinationRule() {
	h := g.someHost()
	if g.ch(1, 8) {
		h = g.pick(svcNames)
	}
	dr := &networking.DestinationRule{Host: h}
	if g.ch(2, 3) {
		dr.TrafficPolicy = g.trafficPolicy(0)
	}
	ns := g.r.Intn(4)
	used := map[string]bool{}
	for i := 0; i < ns; i++ {
		n := g.pick([]string{"v1", "v2", "v3", "canary"})
		if used[n] {
			continue
		}
		used[n] = true
		s := &networking.Subset{Name: n, Labels: map[string]string{"version": n}}
		if g.ch(1, 4) {
			s.Labels = map[string]string{"version": "nonexistent"} // a subset without endpoints
		}
		if g.ch(1, 4) {
			s.TrafficPolicy = g.trafficPolicy(1)
		}
		dr.Subsets = append(dr.Subsets, s)
		g.subsets[h] = append(g.subsets[h], n)
	}
	dr.ExportTo = g.exportTo()
	drNs, drName := g.ns(), g.name("dr")
	g.drByHost[h] = [2]string{drName, drNs}
	if g.ch(1, 8) {
		dr.WorkloadSelector = &typev1beta1.WorkloadSelector{MatchLabels: map[string]string{"app": g.pick([]string{"a", "b"})}}
	}
	g.add("DestinationRule", drNs, drName, dr, nil)
}

// ---------------------------------------------------------------- Gateway

func (g *gen) gateway() {
	gw := &networking.Gateway{Selector: map[string]string{"istio": "ingressgateway"}}
	if g.ch(1, 6) {
		gw.Selector = map[string]string{"app": "gw2"}
	}
	ns := g.pick([]string{"istio-system", "istio-system", "default", "ns1"})
	name := g.name("gw")
	key := ns + "/" + name
	nsrv := 1 + g.r.Intn(3)
	for i := 0; i < nsrv; i++ {
		s := &networking.Server{}
		switch g.r.Intn(8) {
		case 0, 1, 2:
			s.Port = &networking.Port{Number: 80, Name: "http", Protocol: "HTTP"}
			if g.ch(1, 3) {
				s.Port.Number = 8080 // the target port of Service port 80 (or an unrelated port)
			}
			if g.ch(1, 5) {
				s.Tls = &networking.ServerTLSSettings{HttpsRedirect: true}
			}
		case 3, 4:
			s.Port = &networking.Port{Number: 443, Name: "https", Protocol: "HTTPS"}
			if g.ch(1, 3) {
				s.Port.Number = 8443 // the target port of Service port 443 named directly
			}
			s.Tls = &networking.ServerTLSSettings{Mode: networking.ServerTLSSettings_SIMPLE, CredentialName: g.pick(credNames)}
			switch g.r.Intn(5) {
			case 0:
				s.Tls = &networking.ServerTLSSettings{Mode: networking.ServerTLSSettings_SIMPLE, ServerCertificate: "/etc/c.pem", PrivateKey: "/etc/k.pem"}
			case 1:
				s.Tls = &networking.ServerTLSSettings{Mode: networking.ServerTLSSettings_MUTUAL, CredentialName: g.pick(credNames)}
			case 2:
				s.Tls = &networking.ServerTLSSettings{Mode: networking.ServerTLSSettings_ISTIO_MUTUAL}
			}
		case 5:
			s.Port = &networking.Port{Number: 443, Name: "tls", Protocol: "TLS"}
			if g.ch(1, 4) {
				s.Port.Number = 8443
			}
			s.Tls = &networking.ServerTLSSettings{Mode: networking.ServerTLSSettings_PASSTHROUGH}
			if g.ch(1, 3) {
				s.Port.Number = 15443
				s.Tls.Mode = networking.ServerTLSSettings_AUTO_PASSTHROUGH
			}
			if g.ch(1, 4) {
				s.Tls = &networking.ServerTLSSettings{Mode: networking.ServerTLSSettings_SIMPLE, CredentialName: g.pick(credNames)}
			}
		case 6:
			s.Port = &networking.Port{Number: 9000, Name: "tcp", Protocol: "TCP"}
			if g.ch(1, 3) {
				s.Port.Number = 443
			}
		case 7:
			s.Port = &networking.Port{Number: 7070, Name: "grpc", Protocol: g.pick([]string{"GRPC", "HTTP2", "MONGO"})}
		}
		s.Port.Name = s.Port.Name + "-" + strconv.Itoa(i)
		nh := 1 + g.r.Intn(2)
		seen := map[string]bool{}
		for j := 0; j < nh; j++ {
			h := g.pick([]string{"*", "foo.com", "bar.foo.com", "*.foo.com", "api.example.org", "*.example.org", "a.default.svc.cluster.local", "Foo.com", "API.example.org"})
			switch g.r.Intn(5) {
			case 0:
				h = "default/" + h
			case 1:
				h = "./" + h
			case 2:
				h = "*/" + h
			}
			if !seen[h] {
				seen[h] = true
				s.Hosts = append(s.Hosts, h)
			}
		}
		if g.ch(1, 8) {
			s.Bind = g.pick([]string{"127.0.0.1", "10.2.0.1"})
		}
		if g.ch(1, 6) {
			s.Name = "srv-" + strconv.Itoa(i)
		}
		// duplicate servers: a TLS server often repeats the hosts (and bind) of an earlier TLS server of this or another
		// Gateway - on the same port number, or on the other name of the same port (Service port vs. its target port)
		if s.Tls != nil && s.Tls.Mode != networking.ServerTLSSettings_AUTO_PASSTHROUGH && s.Port.Number != 80 && s.Port.Number != 8080 {
			if len(g.tlsServers) > 0 && g.ch(1, 3) {
				prev := g.tlsServers[g.r.Intn(len(g.tlsServers))]
				s.Hosts = append([]string{}, prev.hosts...)
				s.Bind = prev.bind
				if g.ch(1, 2) {
					s.Port.Number = map[uint32]uint32{443: 8443, 8443: 443}[prev.port]
					if s.Port.Number == 0 {
						s.Port.Number = prev.port
					}
				} else {
					s.Port.Number = prev.port
				}
			}
			g.tlsServers = append(g.tlsServers, tlsServerRef{append([]string{}, s.Hosts...), s.Bind, s.Port.Number})
		}
		// crowded port: in some meshes (g.crowdPort != 0) most servers of all Gateways sit on ONE port number with mixed
		// protocols, TLS modes and a few binds, in any order - the neighbourhood of the server-merge rules (plaintext vs
		// TLS on one port, HTTP servers merged per port and bind, SNI duplicates, AUTO_PASSTHROUGH overlaps)
		if g.crowdPort != 0 && g.ch(3, 4) {
			pn := s.Port.Name
			switch []int{0, 0, 0, 1, 2, 3, 3, 4, 7, 4, 5, 6}[g.r.Intn(12)] {
			case 0:
				s.Port = &networking.Port{Protocol: "HTTPS"}
				s.Tls = &networking.ServerTLSSettings{Mode: networking.ServerTLSSettings_SIMPLE, CredentialName: g.pick(credNames)}
			case 1:
				s.Port = &networking.Port{Protocol: "TLS"}
				s.Tls = &networking.ServerTLSSettings{Mode: networking.ServerTLSSettings_PASSTHROUGH}
			case 2:
				s.Port = &networking.Port{Protocol: "TLS"}
				s.Tls = &networking.ServerTLSSettings{Mode: networking.ServerTLSSettings_AUTO_PASSTHROUGH}
			case 3:
				s.Port = &networking.Port{Protocol: "TCP"}
				s.Tls = nil
			case 4:
				s.Port = &networking.Port{Protocol: g.pick([]string{"HTTP", "HTTP2", "GRPC"})}
				s.Tls = nil
			case 5:
				s.Port = &networking.Port{Protocol: g.pick([]string{"MONGO", "TCP"})}
				s.Tls = nil
			case 6:
				s.Port = &networking.Port{Protocol: "TLS"}
				s.Tls = &networking.ServerTLSSettings{Mode: networking.ServerTLSSettings_SIMPLE, CredentialName: g.pick(credNames)}
			case 7:
				s.Port = &networking.Port{Protocol: "HTTP"}
				s.Tls = nil
			}
			s.Port.Name = pn
			s.Port.Number = g.crowdPort
			if g.crowdPort == 443 && g.ch(1, 4) {
				s.Port.Number = 8443
			}
			s.Bind = g.pick([]string{"", "", "", "10.2.0.1", "127.0.0.1"})
			s.Hosts = nil
			for j, k := 0, 1+g.r.Intn(2); j < k; j++ {
				h := g.pick([]string{"*", "*", "*", "foo.com", "*.example.org", "api.example.org", "Foo.com"})
				h = g.pick([]string{"", "", "./", "default/", "*/"}) + h
				if len(s.Hosts) == 0 || s.Hosts[0] != h {
					s.Hosts = append(s.Hosts, h)
				}
			}
		}
		gw.Servers = append(gw.Servers, s)
		g.gwHosts[key] = append(g.gwHosts[key], s.Hosts...)
	}
	// rule 3 of the server merge ("a plaintext and a TLS server never share a port and bind"): a pair of one plaintext and one
	// TLS server, both for every host, on the crowded port and one bind - in either order
	if g.crowdPort != 0 && g.ch(1, 2) {
		bind := g.pick([]string{"", "", "10.2.0.1"})
		plain := &networking.Server{
			Port:  &networking.Port{Number: g.crowdPort, Name: "pair-plain", Protocol: g.pick([]string{"TCP", "TCP", "MONGO", "HTTP"})},
			Hosts: []string{"*"}, Bind: bind,
		}
		tls := &networking.Server{
			Port:  &networking.Port{Number: g.crowdPort, Name: "pair-tls", Protocol: "HTTPS"},
			Hosts: []string{g.pick([]string{"*", "*", "foo.com"})}, Bind: bind,
			Tls: &networking.ServerTLSSettings{Mode: networking.ServerTLSSettings_SIMPLE, CredentialName: g.pick(credNames)},
		}
		switch g.r.Intn(4) {
		case 0:
			tls.Port.Protocol = "TLS"
		case 1:
			tls.Port.Protocol = "TLS"
			tls.Tls = &networking.ServerTLSSettings{Mode: networking.ServerTLSSettings_PASSTHROUGH}
		}
		pair := []*networking.Server{plain, tls}
		if g.ch(1, 2) {
			pair = []*networking.Server{tls, plain}
		}
		if g.ch(1, 2) {
			gw.Servers = append(pair, gw.Servers...)
		} else {
			gw.Servers = append(gw.Servers, pair...)
		}
		g.gwHosts[key] = append(g.gwHosts[key], "*")
	}
	g.add("Gateway", ns, name, gw, nil)
	g.gateways = append(g.gateways, key)
}

// ---------------------------------------------------------------- Sidecar

func (g *gen) sidecar() {
	sc := &networking.Sidecar{}
	if g.ch(1, 2) {
		sc.WorkloadSelector = &networking.WorkloadSelector{Labels: map[string]string{"app": g.pick([]string{"a", "b"})}}
	}
	ne := 1 + g.r.Intn(3)
	usedPorts := map[uint32]bool{}
	for i := 0; i < ne; i++ {
		e := &networking.IstioEgressListener{}
		nh := 1 + g.r.Intn(2)
		for j := 0; j < nh; j++ {
			hs := g.pick([]string{"*/*", "./*", "default/*", "ns1/*", "*/foo.com", "*/*.foo.com", "istio-system/*", "~/*"})
			if g.ch(1, 3) && len(g.allHosts) > 0 {
				h := g.pick(g.allHosts)
				hs = g.pick([]string{"*", ".", "default"}) + "/" + h
			}
			e.Hosts = append(e.Hosts, hs)
		}
		if i < ne-1 || g.ch(1, 3) {
			p := portPool[g.r.Intn(14)]
			if usedPorts[uint32(p.Port)] {
				continue
			}
			usedPorts[uint32(p.Port)] = true
			proto := p.Proto
			if proto == "" {
				proto = "TCP"
			}
			e.Port = &networking.SidecarPort{Number: uint32(p.Port), Name: p.Name, Protocol: proto}
			if g.ch(1, 8) {
				e.Port.Protocol = "HTTP_PROXY"
			}
			if g.ch(1, 4) {
				e.Bind = g.pick([]string{"127.0.0.1", "0.0.0.0", "10.0.0.1", "unix:///var/run/x.sock"})
				if strings.HasPrefix(e.Bind, "unix") {
					e.Port = nil
				}
			}
			if g.ch(1, 6) {
				e.CaptureMode = networking.CaptureMode_NONE
			}
		}
		sc.Egress = append(sc.Egress, e)
	}
	if sc.WorkloadSelector != nil && g.ch(1, 3) {
		sc.Ingress = []*networking.IstioIngressListener{{Port: &networking.SidecarPort{Number: 9080, Name: "http", Protocol: "HTTP"}, DefaultEndpoint: "127.0.0.1:8080"}}
		if g.ch(1, 3) {
			sc.Ingress = append(sc.Ingress, &networking.IstioIngressListener{Port: &networking.SidecarPort{Number: 9081, Name: "tcp", Protocol: "TCP"}, DefaultEndpoint: "unix:///var/run/app.sock"})
		}
	}
	if g.ch(1, 4) {
		sc.OutboundTrafficPolicy = &networking.OutboundTrafficPolicy{Mode: networking.OutboundTrafficPolicy_REGISTRY_ONLY}
		if g.ch(1, 2) {
			sc.OutboundTrafficPolicy.Mode = networking.OutboundTrafficPolicy_ALLOW_ANY
		}
	}
	g.add("Sidecar", g.ns(), g.name("sc"), sc, nil)
}

// ---------------------------------------------------------------- EnvoyFilter, PeerAuthentication

func mustStruct(m map[string]any) *structpb.Struct {
	s, err := structpb.NewStruct(m)
	if err != nil {
		panic(err)
	}
	return s
}

func (g *gen) envoyFilter() {
	ef := &networking.EnvoyFilter{}
	if g.ch(1, 3) {
		ef.WorkloadSelector = &networking.WorkloadSelector{Labels: map[string]string{"app": g.pick([]string{"a", "b"})}}
	}
	ctx := networking.EnvoyFilter_PatchContext(g.r.Intn(4)) // ANY, SIDECAR_INBOUND, SIDECAR_OUTBOUND, GATEWAY
	np := 1 + g.r.Intn(2)
	for i := 0; i < np; i++ {
		p := &networking.EnvoyFilter_EnvoyConfigObjectPatch{Match: &networking.EnvoyFilter_EnvoyConfigObjectMatch{Context: ctx}, Patch: &networking.EnvoyFilter_Patch{}}
		g.efSeq++
		n := strconv.Itoa(g.efSeq)
		switch []int{0, 1, 2, 3, 4, 5, 6, 7, 8, 9, 10, 9, 10}[g.r.Intn(13)] {
		case 0: // add a cluster (two filters may add the same one)
			p.ApplyTo = networking.EnvoyFilter_CLUSTER
			p.Patch.Operation = networking.EnvoyFilter_Patch_ADD
			p.Patch.Value = mustStruct(map[string]any{"name": "ef-cluster-" + n, "type": "STATIC", "connect_timeout": "1s",
				"load_assignment": map[string]any{"cluster_name": "ef-cluster-" + n}})
		case 1: // merge into clusters
			p.ApplyTo = networking.EnvoyFilter_CLUSTER
			p.Patch.Operation = networking.EnvoyFilter_Patch_MERGE
			p.Patch.Value = mustStruct(map[string]any{"connect_timeout": "7s"})
			if g.ch(1, 2) {
				p.Match.ObjectTypes = &networking.EnvoyFilter_EnvoyConfigObjectMatch_Cluster{Cluster: &networking.EnvoyFilter_ClusterMatch{PortNumber: 80}}
			}
		case 2: // add a listener
			p.ApplyTo = networking.EnvoyFilter_LISTENER
			p.Patch.Operation = networking.EnvoyFilter_Patch_ADD
			p.Patch.Value = mustStruct(map[string]any{"name": "ef-listener-" + n,
				"address": map[string]any{"socket_address": map[string]any{"address": "127.0.0.1", "port_value": float64(12000 + g.efSeq)}},
				"filter_chains": []any{map[string]any{"filters": []any{map[string]any{"name": "envoy.filters.network.tcp_proxy",
					"typed_config": map[string]any{"@type": "type.googleapis.com/envoy.extensions.filters.network.tcp_proxy.v3.TcpProxy", "stat_prefix": "ef", "cluster": "BlackHoleCluster"}}}}}})
		case 3: // insert an HTTP filter
			p.ApplyTo = networking.EnvoyFilter_HTTP_FILTER
			p.Patch.Operation = networking.EnvoyFilter_Patch_INSERT_BEFORE
			p.Match.ObjectTypes = &networking.EnvoyFilter_EnvoyConfigObjectMatch_Listener{Listener: &networking.EnvoyFilter_ListenerMatch{
				FilterChain: &networking.EnvoyFilter_ListenerMatch_FilterChainMatch{Filter: &networking.EnvoyFilter_ListenerMatch_FilterMatch{
					Name: "envoy.filters.network.http_connection_manager", SubFilter: &networking.EnvoyFilter_ListenerMatch_SubFilterMatch{Name: "envoy.filters.http.router"}}}}}
			p.Patch.Value = mustStruct(map[string]any{"name": "envoy.filters.http.lua-" + n,
				"typed_config": map[string]any{"@type": "type.googleapis.com/envoy.extensions.filters.http.lua.v3.Lua", "inline_code": "function envoy_on_request(h) end"}})
		case 4: // add a virtual host with fresh domains
			p.ApplyTo = networking.EnvoyFilter_VIRTUAL_HOST
			p.Patch.Operation = networking.EnvoyFilter_Patch_ADD
			p.Patch.Value = mustStruct(map[string]any{"name": "ef-vhost-" + n, "domains": []any{"ef-" + n + ".internal"},
				"routes": []any{map[string]any{"match": map[string]any{"prefix": "/"}, "direct_response": map[string]any{"status": float64(200)}}}})
		case 5: // merge into route configurations
			p.ApplyTo = networking.EnvoyFilter_ROUTE_CONFIGURATION
			p.Patch.Operation = networking.EnvoyFilter_Patch_MERGE
			p.Patch.Value = mustStruct(map[string]any{"request_headers_to_add": []any{map[string]any{"header": map[string]any{"key": "x-ef", "value": "1"}}}})
		case 6: // merge into HTTP routes
			p.ApplyTo = networking.EnvoyFilter_HTTP_ROUTE
			p.Patch.Operation = networking.EnvoyFilter_Patch_MERGE
			p.Patch.Value = mustStruct(map[string]any{"request_headers_to_remove": []any{"x-ef-" + n}})
		case 7: // add / remove filter chains
			p.ApplyTo = networking.EnvoyFilter_FILTER_CHAIN
			if g.ch(1, 2) {
				p.Patch.Operation = networking.EnvoyFilter_Patch_REMOVE
				p.Match.ObjectTypes = &networking.EnvoyFilter_EnvoyConfigObjectMatch_Listener{Listener: &networking.EnvoyFilter_ListenerMatch{
					PortNumber: 80, FilterChain: &networking.EnvoyFilter_ListenerMatch_FilterChainMatch{TransportProtocol: "tls"}}}
			} else {
				p.Patch.Operation = networking.EnvoyFilter_Patch_MERGE
				p.Patch.Value = mustStruct(map[string]any{"name": "ef-chain"})
			}
		case 9, 10: // route-level patch that selects ONE virtual host (virtual hosts of one VirtualService share their route list)
			ref := vsRouteRef{host: g.someHost(), port: 80}
			if len(g.vsRoutes) > 0 {
				ref = g.vsRoutes[g.r.Intn(len(g.vsRoutes))]
				for try := 0; try < 8 && !ref.multi && g.ch(3, 4); try++ { // prefer virtual hosts that share their route list
					ref = g.vsRoutes[g.r.Intn(len(g.vsRoutes))]
				}
			}
			vh := &networking.EnvoyFilter_RouteConfigurationMatch_VirtualHostMatch{Name: ref.host + ":" + strconv.Itoa(ref.port)}
			p.Match.Context = networking.EnvoyFilter_SIDECAR_OUTBOUND
			if g.ch(1, 4) {
				p.Match.Context = networking.EnvoyFilter_ANY
			}
			p.Match.ObjectTypes = &networking.EnvoyFilter_EnvoyConfigObjectMatch_RouteConfiguration{
				RouteConfiguration: &networking.EnvoyFilter_RouteConfigurationMatch{Vhost: vh}}
			switch g.r.Intn(5) {
			case 0, 1:
				p.ApplyTo = networking.EnvoyFilter_HTTP_ROUTE
				p.Patch.Operation = networking.EnvoyFilter_Patch_REMOVE
				if ref.route != "" && g.ch(2, 3) {
					vh.Route = &networking.EnvoyFilter_RouteConfigurationMatch_RouteMatch{Name: ref.route}
				}
			case 2:
				p.ApplyTo = networking.EnvoyFilter_HTTP_ROUTE
				p.Patch.Operation = networking.EnvoyFilter_Patch_MERGE
				p.Patch.Value = mustStruct(map[string]any{"request_headers_to_remove": []any{"x-ef-one-" + n}})
				if ref.route != "" && g.ch(1, 2) {
					vh.Route = &networking.EnvoyFilter_RouteConfigurationMatch_RouteMatch{Name: ref.route}
				}
			case 3:
				p.ApplyTo = networking.EnvoyFilter_VIRTUAL_HOST
				p.Patch.Operation = networking.EnvoyFilter_Patch_REMOVE
			case 4:
				p.ApplyTo = networking.EnvoyFilter_VIRTUAL_HOST
				p.Patch.Operation = networking.EnvoyFilter_Patch_MERGE
				p.Patch.Value = mustStruct(map[string]any{"request_headers_to_remove": []any{"x-ef-vh-" + n}})
			}
		case 8: // network filter
			p.ApplyTo = networking.EnvoyFilter_NETWORK_FILTER
			p.Patch.Operation = networking.EnvoyFilter_Patch_MERGE
			p.Match.ObjectTypes = &networking.EnvoyFilter_EnvoyConfigObjectMatch_Listener{Listener: &networking.EnvoyFilter_ListenerMatch{
				FilterChain: &networking.EnvoyFilter_ListenerMatch_FilterChainMatch{Filter: &networking.EnvoyFilter_ListenerMatch_FilterMatch{Name: "envoy.filters.network.http_connection_manager"}}}}
			p.Patch.Value = mustStruct(map[string]any{"typed_config": map[string]any{
				"@type": "type.googleapis.com/envoy.extensions.filters.network.http_connection_manager.v3.HttpConnectionManager", "xff_num_trusted_hops": float64(2)}})
		}
		ef.ConfigPatches = append(ef.ConfigPatches, p)
	}
	ns := g.pick([]string{"istio-system", "default", "default", "ns1"})
	g.add("EnvoyFilter", ns, g.name("ef"), ef, nil)
}

func (g *gen) peerAuthentication() {
	pa := &security.PeerAuthentication{Mtls: &security.PeerAuthentication_MutualTLS{Mode: security.PeerAuthentication_MutualTLS_Mode(g.r.Intn(4))}}
	if g.ch(1, 2) {
		pa.Selector = &typev1beta1.WorkloadSelector{MatchLabels: map[string]string{"app": g.pick([]string{"a", "b"})}}
		if g.ch(1, 2) {
			pa.PortLevelMtls = map[uint32]*security.PeerAuthentication_MutualTLS{uint32(portPool[g.r.Intn(12)].Port): {Mode: security.PeerAuthentication_MutualTLS_Mode(1 + g.r.Intn(3))}}
		}
	}
	g.add("PeerAuthentication", g.pick([]string{"istio-system", "default", "ns1"}), g.name("pa"), pa, nil)
}

// ---------------------------------------------------------------- proxies

func (g *gen) proxies() {
	n := 2 + g.r.Intn(2)
	for i := 0; i < n; i++ {
		p := pushDesc{Type: "sidecar", Ns: g.pick([]string{"default", "default", "ns1"}), Labels: labelSets[g.r.Intn(6)]}
		if len(g.epIPs) > 0 && g.ch(3, 4) {
			p.IPs = []string{g.pick(g.epIPs)}
		} else {
			p.IPs = []string{"10.5.0." + strconv.Itoa(i+1)}
		}
		if g.ch(1, 8) {
			p.IPs = append(p.IPs, "2001:db8::5")
		}
		switch g.r.Intn(8) {
		case 0:
			p.Meta = append(p.Meta, "mode=NONE")
		case 1:
			p.Meta = append(p.Meta, "mode=TPROXY")
		}
		if g.ch(1, 5) {
			p.Meta = append(p.Meta, "dns=1")
		}
		if g.ch(1, 8) {
			p.Meta = append(p.Meta, "http10=1")
		}
		if g.ch(1, 6) {
			p.Meta = append(p.Meta, "hbone=1")
		}
		if g.ch(2, 3) { // what the injected sidecar reports: its bootstrap listens on these ports
			p.Meta = append(p.Meta, "status=15021", "prom=15090")
		}
		if g.ch(1, 6) {
			p.Meta = append(p.Meta, "proxycfg="+g.pick([]string{"stats", "headers", "concurrency"}))
		}
		g.pushes = append(g.pushes, p)
	}
	nr := 1 + g.r.Intn(2)
	for i := 0; i < nr; i++ {
		p := pushDesc{Type: "router", Ns: "istio-system", Labels: map[string]string{"istio": "ingressgateway"}, IPs: []string{"10.2.0.1"}}
		if i == 1 {
			switch g.r.Intn(3) {
			case 0:
				p.Labels = map[string]string{"app": "gw2"}
				p.IPs = []string{"10.2.0.2"}
			case 1:
				p.Ns = "default"
			case 2:
				p.Meta = append(p.Meta, "unpriv=true")
			}
		}
		g.pushes = append(g.pushes, p)
	}
	if g.ambient {
		g.pushes = append(g.pushes, pushDesc{Type: "waypoint", Ns: "default", IPs: []string{"3.0.0.1"},
			Labels: map[string]string{"gateway.networking.k8s.io/gateway-name": "waypoint", "gateway.istio.io/managed": "istio.io-mesh-controller"}})
	} else if g.ch(1, 6) {
		// a waypoint nobody configured: its listeners and clusters are still generated
		g.pushes = append(g.pushes, pushDesc{Type: "waypoint", Ns: "default", Labels: map[string]string{"gateway.networking.k8s.io/gateway-name": "waypoint"}, IPs: []string{"10.6.0.1"}})
	}
}

// incremental appends, for about a third of the proxies, an incremental push (`dpush`) for one config key on top of the
// full one: a service (kind ServiceEntry: delta CDS + partial EDS), a DestinationRule or a VirtualService.
func (g *gen) incremental() {
	var keys [][3]string
	for h := range g.hostPorts {
		_ = h
	}
	for _, h := range g.allHosts {
		keys = append(keys, [3]string{"ServiceEntry", h, g.pick(namespaces)})
	}
	for _, s := range g.svcs {
		keys = append(keys, [3]string{"ServiceEntry", s.Host, s.Ns})
	}
	for _, c := range g.cfgs {
		switch c.Kind {
		case "DestinationRule", "VirtualService", "PeerAuthentication", "Sidecar", "EnvoyFilter", "Gateway":
			keys = append(keys, [3]string{c.Kind, c.Name, c.Ns})
		}
	}
	if len(keys) == 0 {
		return
	}
	for _, p := range g.pushes {
		if g.ch(1, 3) {
			k := keys[g.r.Intn(len(keys))]
			d := dpushDesc{p: p, keys: [][3]string{k}}
			// often a second key in the same push: the DestinationRule of that service, or anything else
			if dr, ok := g.drByHost[k[1]]; ok && k[0] == "ServiceEntry" && g.ch(2, 3) {
				d.keys = append(d.keys, [3]string{"DestinationRule", dr[0], dr[1]})
			} else if g.ch(1, 4) {
				d.keys = append(d.keys, keys[g.r.Intn(len(keys))])
			}
			g.dpushes = append(g.dpushes, d)
		}
	}
}

type dpushDesc struct {
	p    pushDesc
	keys [][3]string
}

// ---------------------------------------------------------------- security / telemetry / extension objects

func (g *gen) selector() *typev1beta1.WorkloadSelector {
	if g.ch(1, 3) {
		return nil
	}
	return &typev1beta1.WorkloadSelector{MatchLabels: map[string]string{"app": g.pick([]string{"a", "b", "c"})}}
}

func (g *gen) policyNs() string { return g.pick([]string{"istio-system", "default", "default", "ns1"}) }

func (g *gen) authorizationPolicy() {
	ap := &security.AuthorizationPolicy{Selector: g.selector(), Action: security.AuthorizationPolicy_Action(g.r.Intn(3))}
	if ap.Action == security.AuthorizationPolicy_AUDIT {
		ap.Action = security.AuthorizationPolicy_DENY
	}
	for i, k := 0, g.r.Intn(3); i < k; i++ {
		r := &security.Rule{}
		if g.ch(2, 3) {
			src := &security.Source{}
			switch g.r.Intn(4) {
			case 0:
				src.Principals = []string{"cluster.local/ns/default/sa/a", "*/sa/b"}
			case 1:
				src.Namespaces = []string{g.pick(namespaces)}
			case 2:
				src.IpBlocks = []string{"10.1.0.0/16", "10.5.0.1"}
			case 3:
				src.RequestPrincipals = []string{"issuer-a/*"}
				src.NotNamespaces = []string{"ns1"}
			}
			r.From = []*security.Rule_From{{Source: src}}
		}
		if g.ch(2, 3) {
			op := &security.Operation{}
			switch g.r.Intn(4) {
			case 0:
				op.Ports = []string{strconv.Itoa(portPool[g.r.Intn(12)].Port)}
			case 1:
				op.Paths = []string{"/api/*", "/x"}
				op.Methods = []string{"GET"}
			case 2:
				op.Hosts = []string{"*.foo.com", "a.default.svc.cluster.local"}
			case 3:
				op.NotPorts = []string{"9000"}
				op.NotPaths = []string{"/admin*"}
			}
			r.To = []*security.Rule_To{{Operation: op}}
		}
		if g.ch(1, 4) {
			r.When = []*security.Condition{{Key: g.pick([]string{"request.headers[x-user]", "source.ip", "destination.port"}), Values: []string{g.pick([]string{"1", "10.0.0.0/8", "80"})}}}
			if r.When[0].Key == "source.ip" {
				r.When[0].Values = []string{"10.0.0.0/8"}
			} else if r.When[0].Key == "destination.port" {
				r.When[0].Values = []string{"80"}
			}
		}
		ap.Rules = append(ap.Rules, r)
	}
	g.add("AuthorizationPolicy", g.policyNs(), g.name("ap"), ap, nil)
}

func (g *gen) requestAuthentication() {
	ra := &security.RequestAuthentication{Selector: g.selector()}
	for i, k := 0, 1+g.r.Intn(2); i < k; i++ {
		j := &security.JWTRule{Issuer: "issuer-" + strconv.Itoa(i), Jwks: jwksInline}
		if g.ch(1, 3) {
			j.Audiences = []string{"aud1"}
		}
		if g.ch(1, 3) {
			j.FromHeaders = []*security.JWTHeader{{Name: "x-jwt", Prefix: "Bearer "}}
		}
		if g.ch(1, 4) {
			j.ForwardOriginalToken = true
		}
		if g.ch(1, 4) {
			j.OutputClaimToHeaders = []*security.ClaimToHeader{{Header: "x-claim", Claim: "sub"}}
		}
		ra.JwtRules = append(ra.JwtRules, j)
	}
	g.add("RequestAuthentication", g.policyNs(), g.name("ra"), ra, nil)
}

func (g *gen) telemetry() {
	t := &telemetry.Telemetry{Selector: g.selector()}
	if g.ch(2, 3) {
		t.AccessLogging = []*telemetry.AccessLogging{{Providers: []*telemetry.ProviderRef{{Name: "envoy"}}}}
		if g.ch(1, 3) {
			t.AccessLogging[0].Filter = &telemetry.AccessLogging_Filter{Expression: "response.code >= 400"}
		}
	}
	if g.ch(1, 2) {
		t.Metrics = []*telemetry.Metrics{{Providers: []*telemetry.ProviderRef{{Name: "prometheus"}},
			Overrides: []*telemetry.MetricsOverrides{{Match: &telemetry.MetricSelector{MetricMatch: &telemetry.MetricSelector_Metric{Metric: telemetry.MetricSelector_REQUEST_COUNT}},
				TagOverrides: map[string]*telemetry.MetricsOverrides_TagOverride{"x": {Value: "request.host"}}}}}}
	}
	if g.ch(1, 3) {
		t.Tracing = []*telemetry.Tracing{{RandomSamplingPercentage: wrapperspb.Double(50)}}
	}
	g.add("Telemetry", g.policyNs(), g.name("tm"), t, nil)
}

func (g *gen) wasmPlugin() {
	w := &extensions.WasmPlugin{Selector: g.selector(), Url: "https://example.org/filter-" + strconv.Itoa(g.r.Intn(2)) + ".wasm",
		Phase: extensions.PluginPhase(g.r.Intn(4)), Sha256: "a94a8fe5ccb19ba61c4c0873d391e987982fbbd3a94a8fe5ccb19ba61c4c0873"}
	if g.ch(1, 3) {
		w.Priority = wrapperspb.Int32(int32(g.r.Intn(3)))
	}
	if g.ch(1, 3) {
		w.Type = extensions.PluginType_NETWORK
	}
	if g.ch(1, 3) {
		w.Match = []*extensions.WasmPlugin_TrafficSelector{{Mode: typev1beta1.WorkloadMode(1 + g.r.Intn(2)), Ports: []*typev1beta1.PortSelector{{Number: 80}}}}
	}
	g.add("WasmPlugin", g.policyNs(), g.name("wp"), w, nil)
}

func (g *gen) proxyConfigObject() {
	pc := &networkingv1beta1.ProxyConfig{Concurrency: wrapperspb.Int32(2), EnvironmentVariables: map[string]string{"X": "1"}}
	if g.ch(1, 2) {
		pc.Selector = g.selector()
	}
	g.add("ProxyConfig", g.policyNs(), g.name("pc"), pc, nil)
}

// a JWKS with one RSA key (the values need not be a real key: generation only embeds the text)
const jwksInline = `{"keys":[{"kid":"k1","alg":"RS256","kty":"RSA","n":"u1SU1LfVLPHCozMxH2Mo4lgOEePzNm0tRgeLezV6ffAt0gunVTLw7onLRnrq0_IzW7yWR7QkrmBL7jTKEn5u-qKhbwKfBstIs-bMY2Zkp18gnTxKLxoS2tFczGkPLPgizskuemMghRniWaoLcyehkd3qqGElvW_VDL5AaWTg0nLVkjRo9z-40RQzuVaE8AkAFmxZzow3x-VJYKdjykkJ0iT9wCS0DRTXu269V264Vf_3jvredZiKRkgwlL9xNAwxXFg0x_XFw005UWVRIkdgcKWTjpBP2dPwVZ4WWC-9aGVd-Gyn1o0CLelf4rEjGoXbAAEgAqeGUxrcIlbjXfbcmw","e":"AQAB"}]}`

// ---------------------------------------------------------------- one case

func (g *gen) build() {
	if g.ch(1, 4) {
		g.opts["outbound"] = "REGISTRY_ONLY"
	}
	if g.ch(1, 8) {
		g.opts["h2upgrade"] = "1"
	}
	if g.ch(1, 8) {
		g.opts["statname"] = "1"
	}
	if g.ch(1, 8) {
		g.opts["quic"] = "1"
	}
	if g.ch(1, 4) {
		g.ambient = true
		g.opts["ambient"] = "1"
		g.kube = append(g.kube, waypointGateway, waypointService)
		// the waypoint's own workload: an instance of the waypoint Service (mirrored to the Kubernetes side)
		g.add("WorkloadEntry", "default", "waypoint-a", &networking.WorkloadEntry{Address: "3.0.0.1",
			Labels: map[string]string{"gateway.networking.k8s.io/gateway-name": "waypoint"}}, nil)
	}
	g.gatewayService()
	n := 2 + g.r.Intn(5)
	for i := 0; i < n; i++ {
		g.registryService()
	}
	for i, k := 0, g.r.Intn(4); i < k; i++ {
		g.serviceEntry()
	}
	if g.ch(1, 3) {
		g.workloadEntry()
	}
	ngw := g.r.Intn(3)
	if g.ch(1, 4) {
		g.crowdPort = []uint32{443, 443, 7070, 9000}[g.r.Intn(4)]
		ngw = 1 + g.r.Intn(3)
	}
	for i := 0; i < ngw; i++ {
		g.gateway()
	}
	for i, k := 0, g.r.Intn(3); i < k; i++ {
		g.destinationRule()
	}
	nvs := g.r.Intn(5)
	if g.crowdPort != 0 && nvs < 2 {
		nvs = 2
	}
	for i := 0; i < nvs; i++ {
		g.virtualService()
	}
	if g.ch(1, 2) {
		g.serviceEntry() // after the VirtualServices: newer than them
	}
	for i, k := 0, g.r.Intn(3); i < k; i++ {
		if g.ch(1, 2) {
			g.sidecar()
		}
	}
	for i, k := 0, g.r.Intn(4); i < k; i++ {
		if g.ch(1, 2) {
			g.envoyFilter()
		}
	}
	if g.ch(1, 3) {
		g.peerAuthentication()
	}
	if g.ch(1, 4) {
		g.authorizationPolicy()
	}
	if g.ch(1, 6) {
		g.requestAuthentication()
	}
	if g.ch(1, 6) {
		g.telemetry()
	}
	if g.ch(1, 8) {
		g.wasmPlugin()
	}
	if g.ch(1, 10) {
		g.proxyConfigObject()
	}
	g.proxies()
	g.incremental()
	if !g.malformed && !g.ambient && g.ch(1, 4) {
		g.sequence()
	}
}

// sequence: one proxy's delta-xDS client is followed through 3-6 changes of the config store (delete an object, update it
// with the spec of another object of its kind, create a fresh one or one deleted before); after every change the server's
// incremental push is merged into the client's state and that state is judged.
func (g *gen) sequence() {
	var cands []pushDesc
	for _, p := range g.pushes {
		if p.Type != "waypoint" {
			cands = append(cands, p)
		}
	}
	if len(cands) == 0 {
		return
	}
	valid := func(c cfgDesc) bool {
		cc, err := c.toConfig()
		return err == nil && validateCfg(cc) == ""
	}
	var live, dead []cfgDesc
	for _, c := range g.cfgs {
		if valid(c) {
			live = append(live, c)
		}
	}
	p := cands[g.r.Intn(len(cands))]
	g.seqPush = &p
	n := 3 + g.r.Intn(4)
	for try := 0; len(g.steps) < n && try < 30; try++ {
		switch g.r.Intn(3) {
		case 0: // delete
			if len(live) == 0 {
				continue
			}
			i := g.r.Intn(len(live))
			g.steps = append(g.steps, stepDesc{"delete", live[i]})
			dead = append(dead, live[i])
			live = append(live[:i:i], live[i+1:]...)
		case 1: // update: the spec of another object of the same kind
			if len(live) < 2 {
				continue
			}
			i := g.r.Intn(len(live))
			for k, off := 0, g.r.Intn(len(live)); k < len(live); k++ {
				j := (off + k) % len(live)
				// (not EnvoyFilters: two filters ADDing one listener / cluster name are duplicates the user asked for)
				if j != i && live[j].Kind == live[i].Kind && live[i].Kind != "EnvoyFilter" && live[j].JSON != live[i].JSON {
					c := live[i]
					c.JSON = live[j].JSON
					c.Ts += 100
					if valid(c) {
						live[i] = c
						g.steps = append(g.steps, stepDesc{"update", c})
					}
					break
				}
			}
		case 2: // create
			if len(dead) > 0 && g.ch(1, 2) {
				i := g.r.Intn(len(dead))
				g.steps = append(g.steps, stepDesc{"create", dead[i]})
				live = append(live, dead[i])
				dead = append(dead[:i:i], dead[i+1:]...)
				continue
			}
			before := len(g.cfgs)
			switch g.r.Intn(6) {
			case 0:
				g.virtualService()
			case 1:
				g.destinationRule()
			case 2:
				g.serviceEntry()
			case 3:
				g.gateway()
			case 4:
				g.sidecar()
			case 5:
				g.envoyFilter()
			}
			fresh := append([]cfgDesc{}, g.cfgs[before:]...)
			g.cfgs = g.cfgs[:before]
			for _, c := range fresh {
				if valid(c) {
					g.steps = append(g.steps, stepDesc{"create", c})
					live = append(live, c)
				}
			}
		}
	}
}

type stepDesc struct {
	verb string
	c    cfgDesc
}

// emit writes the case. In the valid stream every object must pass admission validation.
func (g *gen) emit(o *wire.Out, n int) {
	kind := "valid"
	if g.malformed {
		kind = "malformed"
	}
	o.Line("case", strconv.Itoa(n), "snapshot", kind)
	if len(g.opts) > 0 {
		o.Line("opt", encMap(g.opts))
	}
	for _, k := range g.kube {
		o.Line("kube", wire.Enc(k))
	}
	for _, s := range g.svcs {
		o.Line(s.line()...)
	}
	for _, e := range g.eps {
		o.Line(e.line()...)
	}
	for _, c := range g.cfgs {
		if len(c.Muts) == 0 {
			// not deliberately damaged: must pass admission validation, in both kinds of cases
			cc, err := c.toConfig()
			if err != nil || validateCfg(cc) != "" {
				g.dropped++
				continue
			}
		}
		o.Line(c.line()...)
	}
	for _, p := range g.pushes {
		o.Line(p.line()...)
	}
	for _, d := range g.dpushes {
		l := d.p.line()
		l[0] = "dpush"
		for _, k := range d.keys {
			l = append(l, k[0], wire.Enc(k[1]), wire.Enc(k[2]))
		}
		o.Line(l...)
	}
	if g.seqPush != nil && len(g.steps) > 0 {
		l := g.seqPush.line()
		l[0] = "dseq"
		o.Line(l...)
		for _, st := range g.steps {
			o.Line(append([]string{"step", st.verb}, st.c.line()[1:]...)...)
		}
	}
}

func genSnapshot(seed uint64, n int, path string) {
	r := wire.NewRng(seed*7919 + 14)
	o := wire.Create(path)
	defer o.Close()
	for i := 1; i <= n; i++ {
		cr := r.Fork()
		g := newGen(cr, i%2 == 0)
		g.build()
		if g.malformed {
			// the k-th malformed case is forced to the k-th mutation of the catalogue (offset by the seed); every fourth
			// malformed case instead takes the next entry of the short list of mutations that sit on a numeric bound of
			// validation (priorityMutations), so that each of those is tried several times per run
			k := i/2 - 1
			if k%4 == 3 {
				g.mutate(priorityMutations[(k/4)%len(priorityMutations)] + (k/4/len(priorityMutations)%2)*len(mutationCatalogue))
			} else {
				g.mutate(k - k/4 + int(seed%1000)*7)
			}
		}
		g.emit(o, i)
	}
}

// the waypoint of namespace default, as the ambient tests of /repo set one up (pilot/pkg/xds/waypoint_test.go)
const (
	waypointGateway = `{"apiVersion":"gateway.networking.k8s.io/v1","kind":"Gateway","metadata":{"name":"waypoint","namespace":"default"},` +
		`"spec":{"gatewayClassName":"waypoint","listeners":[{"name":"mesh","port":15008,"protocol":"HBONE"}]},` +
		`"status":{"addresses":[{"type":"Hostname","value":"waypoint.default.svc.cluster.local"}]}}`
	waypointService = `{"apiVersion":"v1","kind":"Service","metadata":{"name":"waypoint","namespace":"default","labels":{"gateway.istio.io/managed":"istio.io-mesh-controller",` +
		`"gateway.networking.k8s.io/gateway-name":"waypoint","istio.io/gateway-name":"waypoint"}},` +
		`"spec":{"clusterIP":"3.0.0.0","ports":[{"appProtocol":"hbone","name":"mesh","port":15008}],"selector":{"gateway.networking.k8s.io/gateway-name":"waypoint"}}}`
)
