package main

// Kernel streams (T-diff against the exact Lean models of lean/IstioModel/C14/Kernels.lean):
//
//	domains   the REAL dedupeDomains (core.VerifC12DedupeDomains) with one shared vhdomains set per case, on the
//	          domain lists the REAL generateVirtualHostDomains produces for random services (mixed case, FQDN /
//	          short-name collisions, aliases) and on adversarial lists
//	              known <fqdns>              -> ok
//	              dd <domains> <expanded>    -> <kept> | <sorted shared set>
//	clusters  the REAL ClusterBuilder.normalizeClusters / normalizeClusterResources (zz_verif_c14.go)
//	              nc <names> / nr <names>    -> <name#index of the kept ones>
//	answer    the REAL EdsGenerator.Generate / RdsGenerator.Generate of a discovery server holding a fixed small
//	          mesh, asked for defined and undefined names
//	              eds <requested> <undefined> -> names=<sorted answered> empty=<sorted answered with no endpoint among the undefined>
//	              rds <sidecar|router> <requested> -> names=<sorted answered>
//
// `oracle` evaluates the kernels' clauses on the real outputs, independent of the model.

import (
	"fmt"
	"os"
	"sort"
	"strconv"
	"strings"

	endpoint "github.com/envoyproxy/go-control-plane/envoy/config/endpoint/v3"

	"istio.io/istio/pilot/pkg/model"
	"istio.io/istio/pilot/pkg/networking/core"
	v3 "istio.io/istio/pilot/pkg/xds/v3"
	"istio.io/istio/pkg/config/host"
	"istio.io/istio/pkg/config/protocol"
	"istio.io/istio/pkg/util/sets"
	"verifharness/internal/wire"
)

// ---------------------------------------------------------------- gen

var (
	kHosts = []string{
		"a.default.svc.cluster.local", "A.default.svc.cluster.local", "a.Default.svc.cluster.local", "b.default.svc.cluster.local",
		"a.ns1.svc.cluster.local", "a.default", "a.default.svc", "a", "A", "foo.com", "FOO.com", "Foo.Com", "bar.foo.com", "*.foo.com",
		"foo.com.default.svc.cluster.local", "default.svc.cluster.local", "svc.cluster.local", "*.default.svc.cluster.local", "10.0.0.1", "2001:db8::1",
		"a.default.svc.cluster.local.", "x.local",
	}
	kProxyDomains = []string{"default.svc.cluster.local", "ns1.svc.cluster.local", "local", "foo.com", ""}
	kClusterNames = []string{
		"outbound|80||a.default.svc.cluster.local", "outbound|80||b.default.svc.cluster.local", "outbound|80|v1|a.default.svc.cluster.local",
		"outbound|80||A.default.svc.cluster.local", "BlackHoleCluster", "PassthroughCluster", "inbound|80||", "ef-cluster", "", "outbound|80||",
	}
)

func genKernel(stream string, seed uint64, n int, path string) {
	r := wire.NewRng(seed*104729 + uint64(len(stream))*31 + 14)
	o := wire.Create(path)
	defer o.Close()
	for i := 1; i <= n; i++ {
		o.Line("case", strconv.Itoa(i), stream)
		switch stream {
		case "domains":
			genDomainsCase(r.Fork(), o)
		case "clusters":
			k := 1 + r.Intn(4)
			for j := 0; j < k; j++ {
				m := r.Intn(9)
				var names []string
				for x := 0; x < m; x++ {
					names = append(names, wire.Pick(r, kClusterNames))
				}
				if r.Chance(1, 2) {
					o.Line("nc", wire.EncList(names))
				} else {
					o.Line("nr", wire.EncList(names))
				}
			}
		case "answer":
			k := 1 + r.Intn(3)
			for j := 0; j < k; j++ {
				if r.Chance(1, 2) {
					var req, unk []string
					for x, m := 0, r.Intn(7); x < m; x++ {
						if r.Chance(1, 2) {
							req = append(req, wire.Pick(r, answerDefinedEds))
						} else {
							u := wire.Pick(r, answerUnknownEds)
							req = append(req, u)
							unk = append(unk, u)
						}
					}
					o.Line("eds", wire.EncList(req), wire.EncSet(unk))
				} else {
					var req []string
					for x, m := 0, r.Intn(7); x < m; x++ {
						req = append(req, wire.Pick(r, answerRds))
					}
					o.Line("rds", wire.Pick(r, []string{"sidecar", "router"}), wire.EncList(req))
				}
			}
		case "gwdup":
			k := 2 + r.Intn(6)
			for j := 0; j < k; j++ {
				var hs []string
				seen := map[string]bool{}
				for x, m := 0, 1+r.Intn(3); x < m; x++ {
					h := wire.Pick(r, []string{"foo.com", "bar.com", "*.foo.com", "*", "a.example.org", "FOO.com"})
					if !seen[h] {
						seen[h] = true
						hs = append(hs, h)
					}
				}
				o.Line("cd", wire.EncList(hs), wire.Enc(wire.Pick(r, []string{"", "", "10.0.0.1", "10.0.0.2", "unix:///x/y"})))
			}
		case "lconflict":
			// the whole finite domain, one case per incoming protocol (the seed only shuffles the order)
			if i > len(lcProtos) {
				return
			}
			in := lcProtos[(i-1+int(seed))%len(lcProtos)]
			for _, wild := range []string{"0", "1"} {
				o.Line("lc", in, wild, "-")
				for _, cur := range lcProtos {
					for _, locked := range []string{"0", "1"} {
						o.Line("lc", in, wild, cur+":"+locked)
					}
				}
			}
		default:
			fmt.Fprintln(os.Stderr, "unknown stream", stream)
			os.Exit(2)
		}
	}
}

var lcProtos = []string{"GRPC", "GRPC-Web", "HTTP", "HTTP_PROXY", "HTTP2", "HTTPS", "TCP", "TLS", "UDP", "Mongo", "Redis", "MySQL", "HBONE", "DoubleHBONE", "UnsupportedProtocol"}

type lcWorld struct {
	fl   *failer
	cg   *core.ConfigGenTest
	node *model.Proxy
	svc  *model.Service
}

func newLcWorld() *lcWorld {
	fl := &failer{}
	svc := &model.Service{Hostname: "lc.default.svc.cluster.local", DefaultAddress: "10.0.0.9",
		Attributes: model.ServiceAttributes{Name: "lc", Namespace: "default"}, Ports: model.PortList{{Name: "p", Port: 7777, Protocol: "TCP"}}}
	cg := core.NewConfigGenTest(fl, core.TestOptions{Services: []*model.Service{svc}})
	node := cg.SetupProxy(&model.Proxy{ConfigNamespace: "default"})
	return &lcWorld{fl: fl, cg: cg, node: node, svc: svc}
}

// lcStep runs the REAL buildSidecarOutboundListener for one row of the conflict table.
func (w *lcWorld) lcStep(in, wild, cur string) string {
	bind := "10.9.9.9"
	if wild == "1" {
		bind = "0.0.0.0"
	}
	var current *core.VerifC14Entry
	if cur != "-" {
		p, l, _ := strings.Cut(cur, ":")
		current = &core.VerifC14Entry{Protocol: protocol.Instance(p), Locked: l == "1"}
	}
	port := &model.Port{Name: "p", Port: 7777, Protocol: protocol.Instance(in)}
	after, replaced, keys := core.VerifC14OutboundConflict(w.node, w.cg.PushContext(), w.svc, port, bind, current)
	k := " keys=" + strconv.Itoa(keys)
	switch {
	case after == nil:
		return "skip" + k
	case current == nil || replaced:
		return "new " + string(after.Protocol) + k
	case after.Chains > 1 || after.Protocol != current.Protocol:
		return "merge " + string(after.Protocol) + k
	default:
		return "skip" + k
	}
}

func genDomainsCase(r *wire.Rng, o *wire.Out) {
	pd := wire.Pick(r, kProxyDomains)
	node := &model.Proxy{DNSDomain: pd, Metadata: &model.NodeMetadata{}}
	n := 1 + r.Intn(5)
	type call struct{ dom, alt []string }
	var calls []call
	var known []string
	lp := wire.Pick(r, []int{0, 80, 8080})
	for i := 0; i < n; i++ {
		if r.Chance(1, 5) { // adversarial raw lists
			var d, a []string
			for x, m := 0, 1+r.Intn(5); x < m; x++ {
				h := wire.Pick(r, kHosts)
				d = append(d, h)
				if r.Chance(1, 3) {
					a = append(a, h)
				}
			}
			calls = append(calls, call{d, a})
			continue
		}
		h := wire.Pick(r, kHosts)
		port := wire.Pick(r, []int{80, 8080})
		svc := &model.Service{Hostname: host.Name(h), DefaultAddress: wire.Pick(r, []string{"", "10.0.0.1", "0.0.0.0", "10.0.0.2"})}
		if r.Chance(1, 5) {
			svc.Attributes.Aliases = []model.NamespacedHostname{{Hostname: host.Name(wire.Pick(r, kHosts)), Namespace: "default"}}
		}
		d, a := core.VerifC12GenerateVirtualHostDomains(svc, lp, port, node)
		calls = append(calls, call{d, a})
		known = append(known, h, h+":"+strconv.Itoa(port))
	}
	if r.Chance(1, 5) {
		known = append(known, wire.Pick(r, kHosts))
	}
	o.Line("known", wire.EncSet(known))
	for _, c := range calls {
		o.Line("dd", wire.EncList(c.dom), wire.EncList(c.alt))
	}
}

// ---------------------------------------------------------------- the fixed mesh of the `answer` stream

var (
	// defined names (the last one names a subset no DestinationRule defines: it is answered with the service's
	// endpoints - what those are is C13's subject, here only that it is answered)
	answerDefinedEds = []string{"outbound|80||a.default.svc.cluster.local", "outbound|80||b.default.svc.cluster.local", "outbound|9000||b.default.svc.cluster.local",
		"outbound|80|v1|a.default.svc.cluster.local", "outbound|80|nosuchsubset|a.default.svc.cluster.local"}
	// names of a port / service / shape nothing defines: answered with an EMPTY load assignment
	answerUnknownEds = []string{"outbound|9999||a.default.svc.cluster.local", "outbound|80||nosuch.default.svc.cluster.local", "bogus",
		"inbound|80||", "outbound|80||", "outbound|80|v1|nosuch.default.svc.cluster.local", "|||", "outbound|notaport||a.default.svc.cluster.local"}
	answerRds = []string{"80", "9000", "9999", "bogus-route", "http.80", "http.9999", "https.443.https.gw.istio-system", "https.443.bogus.gw.istio-system",
		"a.default.svc.cluster.local:80", "bogus.default.svc.cluster.local:80", "", "unix://x", "http_proxy"}
)

type answerWorld struct {
	w       *world
	sidecar *model.Proxy
	router  *model.Proxy
}

func newAnswerWorld() *answerWorld {
	m := &meshCase{opts: map[string]string{}}
	m.svcs = []svcDesc{
		{Host: "a.default.svc.cluster.local", Ns: "default", Vip: "10.0.0.1", Ports: []portDesc{{"http", 80, "HTTP"}}, Res: "vip"},
		{Host: "b.default.svc.cluster.local", Ns: "default", Vip: "10.0.0.2", Ports: []portDesc{{"http", 80, "HTTP"}, {"tcp", 9000, "TCP"}}, Res: "vip"},
		{Host: "istio-ingressgateway.istio-system.svc.cluster.local", Ns: "istio-system", Vip: "10.0.0.3", Ports: []portDesc{{"http2", 80, "HTTP2"}, {"https", 443, "HTTPS"}}, Res: "vip"},
	}
	m.eps = []epDesc{
		{Host: "a.default.svc.cluster.local", PortName: "http", IP: "10.1.0.1", Labels: map[string]string{"version": "v1"}},
		{Host: "a.default.svc.cluster.local", PortName: "http", IP: "10.1.0.2", Labels: map[string]string{"version": "v2"}},
		{Host: "b.default.svc.cluster.local", PortName: "http", IP: "10.1.0.3"},
		{Host: "b.default.svc.cluster.local", PortName: "tcp", IP: "10.1.0.3"},
		{Host: "istio-ingressgateway.istio-system.svc.cluster.local", PortName: "http2", IP: "10.2.0.1", Labels: map[string]string{"istio": "ingressgateway"}},
		{Host: "istio-ingressgateway.istio-system.svc.cluster.local", PortName: "https", IP: "10.2.0.1", Labels: map[string]string{"istio": "ingressgateway"}},
	}
	m.cfgs = []cfgDesc{
		{Kind: "DestinationRule", Ns: "default", Name: "dr", Ts: 1001, JSON: `{"host":"a.default.svc.cluster.local","subsets":[{"name":"v1","labels":{"version":"v1"}}]}`},
		{Kind: "Gateway", Ns: "istio-system", Name: "gw", Ts: 1002, JSON: `{"selector":{"istio":"ingressgateway"},"servers":[{"port":{"number":80,"name":"http","protocol":"HTTP"},"hosts":["*"]},` +
			`{"port":{"number":443,"name":"https","protocol":"HTTPS"},"hosts":["foo.com"],"tls":{"mode":"SIMPLE","credentialName":"c"}}]}`},
	}
	w, fail := buildWorld(m)
	if fail != "" {
		fmt.Fprintln(os.Stderr, "answer world:", fail)
		os.Exit(2)
	}
	return &answerWorld{
		w:       w,
		sidecar: w.proxy(pushDesc{Type: "sidecar", Ns: "default", Labels: map[string]string{"app": "x"}, IPs: []string{"10.5.0.1"}}),
		router:  w.proxy(pushDesc{Type: "router", Ns: "istio-system", Labels: map[string]string{"istio": "ingressgateway"}, IPs: []string{"10.2.0.1"}}),
	}
}

func (a *answerWorld) gen(px *model.Proxy, typ string, names []string) (res model.Resources, fail string) {
	fail = guarded("answer", 20e9, func() {
		req := &model.PushRequest{Push: a.w.s.PushContext(), Forced: true, Reason: model.NewReasonStats(model.ConfigUpdate)}
		wr := &model.WatchedResource{TypeUrl: typ, ResourceNames: sets.New(names...)}
		r, _, err := a.w.s.Discovery.Generators[typ].Generate(px, wr, req)
		if err != nil {
			panic(err)
		}
		res = r
	})
	return res, fail
}

// ---------------------------------------------------------------- exec / oracle

type kernelRun struct {
	gwTable    map[string]string
	gwAccepted map[string]bool
	lc         *lcWorld
	vh         sets.String
	known      sets.String
	answer     *answerWorld
	// oracle bookkeeping
	keptLower map[string]bool
	fail      string
}

func (k *kernelRun) setFail(f string) {
	if k.fail == "" {
		k.fail = f
	}
}

func (k *kernelRun) step(f []string) (out string) {
	defer func() {
		if r := recover(); r != nil {
			out = "crash"
			k.setFail("crash " + f[0])
		}
	}()
	switch f[0] {
	case "case":
		k.vh, k.known, k.keptLower, k.fail = sets.String{}, sets.String{}, map[string]bool{}, ""
		k.gwTable, k.gwAccepted = nil, nil
		return "ok"
	case "known":
		k.known = sets.New(wire.DecList(f[1])...)
		return "ok"
	case "dd":
		doms, exp := wire.DecList(f[1]), wire.DecList(f[2])
		in := append([]string{}, doms...)
		kept := core.VerifC12DedupeDomains(in, k.vh, exp, k.known)
		// the kernel's clauses, on the real output
		for _, d := range kept {
			l := asciiLower(d)
			if k.keptLower[l] {
				k.setFail("dup-domain " + wire.Enc(d))
			}
			k.keptLower[l] = true
			if contains(exp, d) && k.known.Contains(d) {
				k.setFail("expanded-known " + wire.Enc(d))
			}
		}
		if !isSubsequence(kept, doms) {
			k.setFail("not-a-sublist")
		}
		return wire.EncList(kept) + " | " + wire.EncSet(k.vh.UnsortedList())
	case "nc", "nr":
		names := wire.DecList(f[1])
		var kept []string
		if f[0] == "nc" {
			kept = core.VerifC14NormalizeClusters(names)
		} else {
			kept = core.VerifC14NormalizeClusterResources(names)
		}
		seen := map[string]bool{}
		for _, kn := range kept {
			i := strings.LastIndex(kn, "#")
			n, idx := kn[:i], kn[i+1:]
			if seen[n] {
				k.setFail("cds-unique " + wire.Enc(n))
			}
			seen[n] = true
			first := -1
			for j, x := range names {
				if x == n {
					first = j
					break
				}
			}
			if strconv.Itoa(first) != idx {
				k.setFail("first-wins " + wire.Enc(n))
			}
		}
		for _, n := range names {
			if !seen[n] {
				k.setFail("name-lost " + wire.Enc(n))
			}
		}
		return wire.EncList(kept)
	case "cd":
		hosts, bind := wire.DecList(f[1]), wire.Dec(f[2])
		if k.gwTable == nil {
			k.gwTable = map[string]string{}
			k.gwAccepted = map[string]bool{}
		}
		dups := model.CheckDuplicates(hosts, bind, k.gwTable)
		if len(dups) == 0 {
			for _, h := range hosts {
				if k.gwAccepted[bind+"\x00"+h] {
					k.setFail("host-accepted-twice " + wire.Enc(bind) + " " + wire.Enc(h))
				}
				k.gwAccepted[bind+"\x00"+h] = true
			}
		}
		// the (bind, host) pairs the table remembers: a plain key is host -> first bind, a composite key
		// "\x00bind\x00host" a further bind of that host
		var keys []string
		for key, b := range k.gwTable {
			if strings.HasPrefix(key, "\x00") {
				p := strings.SplitN(key[1:], "\x00", 2)
				if len(p) == 2 {
					keys = append(keys, p[0]+"/"+p[1])
					continue
				}
			}
			keys = append(keys, b+"/"+key)
		}
		return "dups=" + wire.EncList(dups) + " table=" + wire.EncSet(keys)
	case "lc":
		if k.lc == nil {
			k.lc = newLcWorld()
		}
		out := k.lc.lcStep(f[1], f[2], f[3])
		// the kernel's clause on the real output: never a second entry for the key, a locked entry is never touched
		if !strings.HasSuffix(out, "keys=1") && !(f[3] == "-" && strings.HasSuffix(out, "keys=0")) {
			k.setFail("two-entries-for-one-key " + f[1] + " " + f[3])
		}
		if strings.HasSuffix(f[3], ":1") && !strings.HasPrefix(out, "skip") {
			k.setFail("locked-entry-changed " + f[1] + " " + f[3])
		}
		return out
	case "eds":
		if k.answer == nil {
			k.answer = newAnswerWorld()
		}
		req, unk := wire.DecList(f[1]), wire.DecList(f[2])
		res, fail := k.answer.gen(k.answer.sidecar, v3.EndpointType, req)
		if fail != "" {
			k.setFail(fail)
			return "crash"
		}
		var names, empty []string
		got := map[string]bool{}
		for _, r := range res {
			cla := &endpoint.ClusterLoadAssignment{}
			if err := r.Resource.UnmarshalTo(cla); err != nil {
				continue
			}
			names = append(names, cla.ClusterName)
			got[cla.ClusterName] = true
			n := 0
			for _, l := range cla.Endpoints {
				n += len(l.LbEndpoints)
			}
			if n == 0 && contains(unk, cla.ClusterName) {
				empty = append(empty, cla.ClusterName)
			}
		}
		for _, n := range req {
			if !got[n] {
				k.setFail("unanswered-eds " + wire.Enc(n))
			}
		}
		if d, dup := firstDup(names); dup {
			k.setFail("eds-unique " + wire.Enc(d))
		}
		return "names=" + wire.EncSet(names) + " empty=" + wire.EncSet(empty)
	case "rds":
		if k.answer == nil {
			k.answer = newAnswerWorld()
		}
		px := k.answer.sidecar
		if f[1] == "router" {
			px = k.answer.router
		}
		req := wire.DecList(f[2])
		res, fail := k.answer.gen(px, v3.RouteType, req)
		if fail != "" {
			k.setFail(fail)
			return "crash"
		}
		var names []string
		got := map[string]bool{}
		for _, r := range res {
			names = append(names, r.Name)
			got[r.Name] = true
		}
		for _, n := range req {
			if !got[n] {
				k.setFail("unanswered-rds " + wire.Enc(n))
			}
		}
		if d, dup := firstDup(names); dup {
			k.setFail("rds-unique " + wire.Enc(d))
		}
		return "names=" + wire.EncSet(names)
	}
	return "bad-op"
}

func contains(l []string, x string) bool {
	for _, y := range l {
		if x == y {
			return true
		}
	}
	return false
}

func isSubsequence(sub, l []string) bool {
	i := 0
	for _, x := range l {
		if i < len(sub) && sub[i] == x {
			i++
		}
	}
	return i == len(sub)
}

func execKernel(stream, ops, outPath string) {
	o := wire.Create(outPath)
	defer o.Close()
	k := &kernelRun{}
	for _, f := range wire.ReadLines(ops) {
		o.Line(k.step(f))
		o.Flush()
	}
}

func oracleKernel(stream, ops, outPath string) {
	o := wire.Create(outPath)
	defer o.Close()
	k := &kernelRun{}
	in := false
	flush := func() {
		if in {
			if k.fail == "" {
				o.Line("OK")
			} else {
				o.Line("FAIL " + k.fail)
			}
		}
	}
	for _, f := range wire.ReadLines(ops) {
		if f[0] == "case" {
			flush()
			in = true
		}
		k.step(f)
	}
	flush()
}

var _ = sort.Strings
