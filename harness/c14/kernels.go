package main

import "os"

func genKernel(stream string, seed uint64, n int, path string) { os.Exit(2) }
func execKernel(stream, ops, out string)                      { os.Exit(2) }
func oracleKernel(stream, ops, out string)                    { os.Exit(2) }
