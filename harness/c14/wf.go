package main

// The property statement of C14 re-stated directly over the Envoy protos of a real snapshot, in plain
// Go and independently of the abstract reduction the Lean monitor reads: equality of filter chain
// matches and addresses is proto equality here (canonical keys there), domains are compared after
// ASCII lower-casing.  Verdict format = the Lean driver's (`ok` / `bad <clause> <detail...>`), so
// the two can be compared textually; the first violated clause in the monitor's order is reported.

import (
	"strings"

	cluster "github.com/envoyproxy/go-control-plane/envoy/config/cluster/v3"
	core "github.com/envoyproxy/go-control-plane/envoy/config/core/v3"
	listener "github.com/envoyproxy/go-control-plane/envoy/config/listener/v3"
	route "github.com/envoyproxy/go-control-plane/envoy/config/route/v3"
	"google.golang.org/protobuf/proto"
)

func asciiLower(s string) string {
	b := []byte(s)
	for i, c := range b {
		if c >= 'A' && c <= 'Z' {
			b[i] = c + 32
		}
	}
	return string(b)
}

func bad(clause string, detail ...string) string {
	out := []string{"bad", clause}
	for _, d := range detail {
		out = append(out, encDetail(d))
	}
	return strings.Join(out, " ")
}

// encDetail mirrors the Lean driver, which prints `Wire.enc` of the decoded atom.
func encDetail(s string) string {
	if s == "-" {
		return "-"
	}
	return encAtom(s)
}

// firstDup returns the first string (in list order) that occurs again later.
func firstDup(l []string) (string, bool) {
	for i := range l {
		for j := i + 1; j < len(l); j++ {
			if l[i] == l[j] {
				return l[i], true
			}
		}
	}
	return "", false
}

func matchOrEmpty(fc *listener.FilterChain) *listener.FilterChainMatch {
	if m := fc.GetFilterChainMatch(); m != nil {
		return m
	}
	return &listener.FilterChainMatch{}
}

const weightMax = int64(4294967295)

func weightsOK(ws []int64) bool {
	sum := int64(0)
	for _, w := range ws {
		if w < 0 || w > weightMax {
			return false
		}
		sum += w
	}
	return sum > 0 && sum <= weightMax
}

// wellFormed is the first violated clause (the monitor's `firstViolation`), or "ok".
func (sn *snapshot) wellFormed(invalid []string) string {
	all := sn.wellFormedAll(invalid)
	if len(all) == 0 {
		return "ok"
	}
	return all[0]
}

// wellFormedAll lists EVERY violated clause, in the monitor's clause order, each with the offending item of the
// clause (the monitor's `allViolations`); empty = well-formed.
func (sn *snapshot) wellFormedAll(invalid []string) []string {
	listeners := sn.allListeners()
	routeNames := map[string]bool{}
	for _, r := range sn.routes {
		routeNames[r.Name] = true
	}
	claNames := map[string]bool{}
	for _, e := range sn.endpoints {
		claNames[e.ClusterName] = true
	}
	// route configurations: RDS resources, then the inline ones of the listeners
	allRoutes := append([]*route.RouteConfiguration{}, sn.routes...)
	allRoutes = append(allRoutes, inlineRoutes(sn.listeners)...)
	clauses := []func() string{
		func() string { // names unique within a type
			var names []string
			for _, l := range listeners {
				names = append(names, l.Name)
			}
			if d, ok := firstDup(names); ok {
				return bad("lds-unique", d)
			}
			return ""
		},
		func() string {
			var names []string
			for _, r := range sn.routes {
				names = append(names, r.Name)
			}
			if d, ok := firstDup(names); ok {
				return bad("rds-unique", d)
			}
			return ""
		},
		func() string {
			var names []string
			for _, c := range sn.clusters {
				names = append(names, c.Name)
			}
			if d, ok := firstDup(names); ok {
				return bad("cds-unique", d)
			}
			return ""
		},
		func() string {
			var names []string
			for _, e := range sn.endpoints {
				names = append(names, e.ClusterName)
			}
			if d, ok := firstDup(names); ok {
				return bad("eds-unique", d)
			}
			return ""
		},
		func() string { // socket addresses
			type la struct {
				a   *core.Address
				key string
			}
			var addrs []la
			for _, l := range listeners {
				if l.GetAddress() != nil {
					addrs = append(addrs, la{l.GetAddress(), addrKey(l.GetAddress())})
				} else if l.GetInternalListener() != nil {
					addrs = append(addrs, la{nil, "internal-listener:" + l.Name})
				}
				for _, a := range l.GetAdditionalAddresses() {
					addrs = append(addrs, la{a.GetAddress(), addrKey(a.GetAddress())})
				}
			}
			for i := range addrs {
				for j := i + 1; j < len(addrs); j++ {
					same := false
					if addrs[i].a == nil || addrs[j].a == nil {
						same = addrs[i].a == nil && addrs[j].a == nil && addrs[i].key == addrs[j].key
					} else {
						same = proto.Equal(addrs[i].a, addrs[j].a)
					}
					if same {
						return bad("addr-unique", addrs[i].key)
					}
				}
			}
			return ""
		},
		func() string { // closure
			reqRds := map[string]bool{}
			for _, r := range sn.reqRds {
				reqRds[r] = true
			}
			for _, l := range listeners {
				for _, r := range listenerRdsNames(l) {
					if reqRds[r] && !routeNames[r] {
						return bad("rds-closed", r)
					}
				}
			}
			return ""
		},
		func() string {
			reqEds := map[string]bool{}
			for _, r := range sn.reqEds {
				reqEds[r] = true
			}
			for _, c := range sn.clusters {
				if c.GetType() != cluster.Cluster_EDS {
					continue
				}
				n := c.GetEdsClusterConfig().GetServiceName()
				if n == "" {
					n = c.Name
				}
				if reqEds[n] && !claNames[n] {
					return bad("eds-closed", c.Name)
				}
			}
			return ""
		},
		func() string {
			for _, rc := range allRoutes {
				var vn []string
				for _, vh := range rc.GetVirtualHosts() {
					vn = append(vn, vh.Name)
				}
				if d, ok := firstDup(vn); ok {
					return bad("vhost-name", rc.Name, d)
				}
			}
			return ""
		},
		func() string {
			for _, rc := range allRoutes {
				var ds []string
				for _, vh := range rc.GetVirtualHosts() {
					for _, d := range vh.GetDomains() {
						ds = append(ds, asciiLower(d))
					}
				}
				if d, ok := firstDup(ds); ok {
					return bad("dup-domain", rc.Name, d)
				}
			}
			return ""
		},
		func() string { // filter chain matches
			for _, l := range listeners {
				fcs := l.GetFilterChains()
				for i := range fcs {
					for j := i + 1; j < len(fcs); j++ {
						if l.GetFilterChainMatcher() != nil {
							// Matcher API: chains are selected by name, names must be unique
							if fcs[i].GetName() == fcs[j].GetName() {
								return bad("dup-fcm", l.Name, chainKey(l, fcs[i]))
							}
							continue
						}
						if proto.Equal(matchOrEmpty(fcs[i]), matchOrEmpty(fcs[j])) {
							return bad("dup-fcm", l.Name, fcmKey(fcs[i].GetFilterChainMatch()))
						}
					}
				}
			}
			return ""
		},
		func() string {
			for _, rc := range allRoutes {
				for _, vh := range rc.GetVirtualHosts() {
					for _, ws := range weightLists(vh) {
						if !weightsOK(ws) {
							return bad("weights", rc.Name, vh.Name)
						}
					}
				}
			}
			return ""
		},
		func() string {
			if len(invalid) > 0 {
				return bad("api-valid", invalid[0])
			}
			return ""
		},
	}
	var out []string
	for _, c := range clauses {
		if v := c(); v != "" {
			out = append(out, v)
		}
	}
	return out
}
