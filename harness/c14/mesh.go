package main

// Mesh description: the op lines of the `snapshot` stream.  A case is a list of objects the control
// plane is handed (services + endpoints of a service registry, Istio config objects as JSON, raw
// Kubernetes objects for the ambient/waypoint cases) followed by `push` lines, one per proxy.
//
//	case <n> snapshot <valid|malformed>
//	opt <key=value,...>                                   mesh-config knobs
//	svc <host> <ns> <vip> <name/port/proto,...> <vip|headless|dns> <exportTo> <flags>
//	ep <host> <portname> <ip> <k=v,...> <locality> <weight>
//	cfg <Kind> <ns> <name> <creation-ts> <k=v,... labels> <spec JSON> <post-decode mutations>
//	kube <object JSON>                                    Kubernetes object (Service, Gateway, Pod, ...)
//	push <sidecar|router|waypoint> <ns> <k=v,... labels> <ip,ip> <meta flags>
//
// Everything is a single token (wire.Enc), so a case can be shrunk line by line and replayed.

import (
	"bytes"
	"encoding/json"
	"fmt"
	"reflect"
	"sort"
	"strconv"
	"strings"
	"time"

	"google.golang.org/protobuf/encoding/protojson"
	"google.golang.org/protobuf/proto"

	"istio.io/istio/pkg/config"
	"istio.io/istio/pkg/config/schema/collections"
	"istio.io/istio/pkg/config/schema/resource"
	"verifharness/internal/wire"
)

type portDesc struct {
	Name  string
	Port  int
	Proto string
}

type svcDesc struct {
	Host, Ns, Vip string
	Ports         []portDesc
	Res           string // vip | headless | dns
	ExportTo      []string
	Flags         []string // ext (mesh external), extreg (registry External instead of Kubernetes)
}

type epDesc struct {
	Host, PortName, IP string
	Labels             map[string]string
	Locality           string
	Weight             int
	TargetPort         int // 0 = the service port
}

type cfgDesc struct {
	Kind, Ns, Name string
	Ts             int64
	Labels         map[string]string
	JSON           string
	Muts           []string
}

type pushDesc struct {
	Type   string
	Ns     string
	Labels map[string]string
	IPs    []string
	Meta   []string
}

func encMap(m map[string]string) string {
	if len(m) == 0 {
		return "-"
	}
	ks := make([]string, 0, len(m))
	for k := range m {
		ks = append(ks, k)
	}
	sort.Strings(ks)
	out := make([]string, 0, len(ks))
	for _, k := range ks {
		out = append(out, wire.Enc(k+"="+m[k]))
	}
	return strings.Join(out, ",")
}

func decMap(t string) map[string]string {
	if t == "-" {
		return nil
	}
	m := map[string]string{}
	for _, kv := range wire.DecList(t) {
		k, v, _ := strings.Cut(kv, "=")
		m[k] = v
	}
	return m
}

func (s svcDesc) line() []string {
	var ps []string
	for _, p := range s.Ports {
		ps = append(ps, fmt.Sprintf("%s/%d/%s", p.Name, p.Port, p.Proto))
	}
	return []string{"svc", wire.Enc(s.Host), wire.Enc(s.Ns), wire.Enc(s.Vip), wire.EncList(ps), s.Res, wire.EncList(s.ExportTo), wire.EncList(s.Flags)}
}

func parseSvc(f []string) svcDesc {
	s := svcDesc{Host: wire.Dec(f[1]), Ns: wire.Dec(f[2]), Vip: wire.Dec(f[3]), Res: f[5], ExportTo: wire.DecList(f[6]), Flags: wire.DecList(f[7])}
	for _, p := range wire.DecList(f[4]) {
		q := strings.Split(p, "/")
		if len(q) != 3 {
			continue
		}
		n, _ := strconv.Atoi(q[1])
		s.Ports = append(s.Ports, portDesc{q[0], n, q[2]})
	}
	return s
}

func (e epDesc) line() []string {
	out := []string{"ep", wire.Enc(e.Host), wire.Enc(e.PortName), wire.Enc(e.IP), encMap(e.Labels), wire.Enc(e.Locality), strconv.Itoa(e.Weight)}
	if e.TargetPort != 0 {
		out = append(out, strconv.Itoa(e.TargetPort))
	}
	return out
}

func parseEp(f []string) epDesc {
	w, _ := strconv.Atoi(f[6])
	tp := 0
	if len(f) > 7 {
		tp, _ = strconv.Atoi(f[7])
	}
	return epDesc{Host: wire.Dec(f[1]), PortName: wire.Dec(f[2]), IP: wire.Dec(f[3]), Labels: decMap(f[4]), Locality: wire.Dec(f[5]), Weight: w, TargetPort: tp}
}

func (c cfgDesc) line() []string {
	return []string{"cfg", c.Kind, wire.Enc(c.Ns), wire.Enc(c.Name), strconv.FormatInt(c.Ts, 10), encMap(c.Labels), wire.Enc(c.JSON), wire.EncList(c.Muts)}
}

func parseCfg(f []string) cfgDesc {
	ts, _ := strconv.ParseInt(f[4], 10, 64)
	return cfgDesc{Kind: f[1], Ns: wire.Dec(f[2]), Name: wire.Dec(f[3]), Ts: ts, Labels: decMap(f[5]), JSON: wire.Dec(f[6]), Muts: wire.DecList(f[7])}
}

func (p pushDesc) line() []string {
	return []string{"push", p.Type, wire.Enc(p.Ns), encMap(p.Labels), wire.EncList(p.IPs), wire.EncList(p.Meta)}
}

func parsePush(f []string) pushDesc {
	return pushDesc{Type: f[1], Ns: wire.Dec(f[2]), Labels: decMap(f[3]), IPs: wire.DecList(f[4]), Meta: wire.DecList(f[5])}
}

// ---------------------------------------------------------------- config objects <-> JSON

func schemaFor(kind string) (resource.Schema, bool) {
	for _, s := range collections.PilotGatewayAPI().All() {
		if s.Kind() == kind && (strings.HasSuffix(s.Group(), "istio.io")) {
			return s, true
		}
	}
	return nil, false
}

// specJSON renders a spec canonically (protojson output is deliberately unstable in whitespace).
func specJSON(m proto.Message) string {
	b, err := protojson.MarshalOptions{}.Marshal(m)
	if err != nil {
		panic(err)
	}
	var buf bytes.Buffer
	if err := json.Compact(&buf, b); err != nil {
		panic(err)
	}
	return buf.String()
}

// toConfig decodes a cfg line into a config.Config (no validation here).
func (c cfgDesc) toConfig() (config.Config, error) {
	sch, ok := schemaFor(c.Kind)
	if !ok {
		return config.Config{}, fmt.Errorf("unknown kind %s", c.Kind)
	}
	spec, err := sch.NewInstance()
	if err != nil {
		return config.Config{}, err
	}
	pm, ok := spec.(proto.Message)
	if !ok {
		return config.Config{}, fmt.Errorf("kind %s is not a proto", c.Kind)
	}
	if err := (protojson.UnmarshalOptions{DiscardUnknown: true}).Unmarshal([]byte(c.JSON), pm); err != nil {
		return config.Config{}, err
	}
	for _, m := range c.Muts {
		applyMut(pm, m)
	}
	return config.Config{
		Meta: config.Meta{
			GroupVersionKind:  sch.GroupVersionKind(),
			Name:              c.Name,
			Namespace:         c.Ns,
			Labels:            c.Labels,
			CreationTimestamp: time.Unix(c.Ts, 0),
			Domain:            "cluster.local",
		},
		Spec: spec,
	}, nil
}

// applyMut applies a post-decode mutation that JSON cannot express: `nil:<GoField>.<idx>...` sets an
// element of a repeated message field to a nil pointer.
func applyMut(m proto.Message, mut string) {
	defer func() { _ = recover() }()
	kind, path, _ := strings.Cut(mut, ":")
	if kind != "nil" {
		return
	}
	v := reflect.ValueOf(m)
	parts := strings.Split(path, ".")
	for i, p := range parts {
		for v.Kind() == reflect.Ptr || v.Kind() == reflect.Interface {
			v = v.Elem()
		}
		if idx, err := strconv.Atoi(p); err == nil {
			if idx >= v.Len() {
				return
			}
			v = v.Index(idx)
		} else {
			v = v.FieldByName(p)
		}
		if !v.IsValid() {
			return
		}
		if i == len(parts)-1 && v.CanSet() {
			v.Set(reflect.Zero(v.Type()))
		}
	}
}

// validateCfg runs the admission validation of the schema; "" = admitted.
func validateCfg(c config.Config) (res string) {
	defer func() {
		if r := recover(); r != nil {
			res = "validation-panic"
		}
	}()
	sch, ok := collections.PilotGatewayAPI().FindByGroupVersionKind(c.GroupVersionKind)
	if !ok {
		return "no-schema"
	}
	if _, err := sch.ValidateConfig(c); err != nil {
		return "invalid"
	}
	return ""
}

// kubeDoc renders a config object as the Kubernetes object it would be (ambient cases only; the kinds the
// ambient index watches).
func (c cfgDesc) kubeDoc() string {
	switch c.Kind {
	case "ServiceEntry", "WorkloadEntry", "PeerAuthentication", "AuthorizationPolicy":
	default:
		return ""
	}
	sch, ok := schemaFor(c.Kind)
	if !ok {
		return ""
	}
	meta := map[string]any{"name": c.Name, "namespace": c.Ns}
	if len(c.Labels) > 0 {
		meta["labels"] = c.Labels
	}
	var spec any
	if err := json.Unmarshal([]byte(c.JSON), &spec); err != nil {
		return ""
	}
	doc := map[string]any{"apiVersion": sch.Group() + "/" + sch.Version(), "kind": c.Kind, "metadata": meta, "spec": spec}
	b, err := json.Marshal(doc)
	if err != nil {
		return ""
	}
	return string(b)
}
