package main

import (
	"go/ast"
	"go/parser"
	"go/token"
	"os"
	"path/filepath"
	"sort"
	"strings"
)

// Source-level facts about the lock discipline of the endpoint index, regenerated from the checked
// tree on every run (T-gen, go/ast; no type information, see the rules below).  The concurrent model
// (Conc.lean) has lock REGIONS; that the code takes the locks the regions stand for is not something
// a gate-scripted schedule can see (one goroutine runs at a time).  So it is read off the source:
//
//	every access to  EndpointIndex.shardsBySvc                        (two-level map svc -> ns -> *EndpointShards)
//	and to           EndpointShards.Shards / ServiceAccounts / unlinked
//
// in pilot/pkg/model/endpointshards.go, pilot/pkg/model/push_context.go and
// pilot/pkg/xds/endpoints/endpoint_builder.go (the only non-test files that touch them) is listed with
//
//	kind    write (assignment target, delete(...)) or read (anything else),
//	idx     how the index lock `<x>.mu` is held at that point:  W (Lock), R (RLock), - (not held),
//	own     how the lock of the *EndpointShards the field belongs to is held:  W, R, -, or
//	        fresh (the object was built in this function by a composite literal).
//
// Rules of the extractor:
//   - locks are tracked per expression path (`e.mu`, `ep`, `shards`): `P.Lock()` / `P.RLock()` take, `P.Unlock()` /
//     `P.RUnlock()` release, a deferred release holds to the end; branches are merged (a lock counts as held
//     after an `if` only if every branch that goes on holds it, with the weaker mode);
//   - a variable bound to `<x>.shardsBySvc[k]` or ranging over `<x>.shardsBySvc` is the inner map: reading or
//     writing through it is reading or writing shardsBySvc;
//   - a variable is an *EndpointShards if it is a receiver / parameter of that type, is bound to
//     `<x>.shardsBySvc[k][n]`, to an element of the inner map, to a composite literal, or to the first result of a
//     function of the analysed files that returns *EndpointShards (ShardsForService, GetOrCreateEndpointShard, findShards);
//   - a function that is called, in these files, only with a lock held starts with that lock (the weakest mode over
//     its call sites; "must be called with lock" helpers: deleteServiceInner, updateShardServiceAccount, Keys).
//
// LockTie.lean proves from the generated table, by `decide`, that writers hold the write lock and readers at
// least the read lock, and that the sites it expects exist.
//
//	c13 table lockfacts <out.lean>

type lockFact struct{ file, fn, kind, target, base, idx, own string }

type callSite struct {
	callee string
	idx    byte            // index lock at the call
	recv   byte            // lock of the receiver path (methods)
	args   map[int]byte    // lock of the i-th argument when it is a tracked *EndpointShards variable
	hasArg map[int]bool
	// the receiver expression is a tracked *EndpointShards variable
	recvTracked bool
}

type inherit struct {
	idx    byte
	recv   byte
	params map[int]byte
	seen   bool
}

const (
	lkNone byte = 0
	lkR    byte = 1
	lkW    byte = 2
)

func lkName(b byte, fresh bool) string {
	if fresh {
		return "fresh"
	}
	switch b {
	case lkW:
		return "W"
	case lkR:
		return "R"
	}
	return "-"
}

func minLk(a, b byte) byte {
	if a < b {
		return a
	}
	return b
}

type lstate struct {
	held map[string]byte
}

func (s lstate) clone() lstate {
	m := make(map[string]byte, len(s.held))
	for k, v := range s.held {
		m[k] = v
	}
	return lstate{m}
}

func mergeStates(a, b lstate) lstate {
	m := map[string]byte{}
	for k, v := range a.held {
		if w, ok := b.held[k]; ok {
			m[k] = minLk(v, w)
		}
	}
	return lstate{m}
}

func (s lstate) idx() byte {
	var m byte
	for k, v := range s.held {
		if strings.HasSuffix(k, ".mu") && v > m {
			m = v
		}
	}
	return m
}

type factWalker struct {
	file, fn string
	facts    map[lockFact]bool
	calls    *[]callSite
	inner    map[string]bool // variables that are an inner map of shardsBySvc
	shards   map[string]bool // variables that are an *EndpointShards
	fresh    map[string]bool
	retShard map[string]bool // functions whose first result is *EndpointShards
}

func isShardsType(e ast.Expr) bool {
	if s, ok := e.(*ast.StarExpr); ok {
		e = s.X
	}
	switch x := e.(type) {
	case *ast.Ident:
		return x.Name == "EndpointShards"
	case *ast.SelectorExpr:
		return x.Sel.Name == "EndpointShards"
	}
	return false
}

func pathOf(e ast.Expr) string {
	switch x := e.(type) {
	case *ast.Ident:
		return x.Name
	case *ast.SelectorExpr:
		p := pathOf(x.X)
		if p == "" {
			return ""
		}
		return p + "." + x.Sel.Name
	case *ast.ParenExpr:
		return pathOf(x.X)
	}
	return ""
}

var guardedFields = map[string]bool{"Shards": true, "ServiceAccounts": true, "unlinked": true}

func (w *factWalker) note(kind, target, base string, st lstate) {
	own := lkName(st.held[base], w.fresh[base])
	if target == "shardsBySvc" {
		own = "-"
	}
	w.facts[lockFact{w.file, w.fn, kind, target, base, lkName(st.idx(), false), own}] = true
}

// stripIndex removes index expressions: e[a][b] -> e, with their number.
func stripIndex(e ast.Expr) (ast.Expr, int) {
	n := 0
	for {
		switch x := e.(type) {
		case *ast.IndexExpr:
			e = x.X
			n++
			continue
		case *ast.ParenExpr:
			e = x.X
			continue
		}
		return e, n
	}
}

// access notes the access that expression e (a path, possibly indexed) is; reports whether it was one.
func (w *factWalker) access(e ast.Expr, write bool, st lstate) bool {
	core, nidx := stripIndex(e)
	kind := "read"
	if write {
		kind = "write"
	}
	switch x := core.(type) {
	case *ast.SelectorExpr:
		if x.Sel.Name == "shardsBySvc" {
			w.note(kind, "shardsBySvc", pathOf(x.X), st)
			return true
		}
		if guardedFields[x.Sel.Name] {
			if base := pathOf(x.X); w.shards[base] {
				w.note(kind, x.Sel.Name, base, st)
				return true
			}
		}
	case *ast.Ident:
		if w.inner[x.Name] && (nidx > 0 || !write) {
			w.note(kind, "shardsBySvc", x.Name+"(inner map)", st)
			return true
		}
	}
	return false
}

// classify what a right-hand side makes of the variable it is bound to.
func (w *factWalker) bind(lhs ast.Expr, rhs ast.Expr) {
	id, ok := lhs.(*ast.Ident)
	if !ok || id.Name == "_" {
		return
	}
	wasInner := w.inner[id.Name]
	delete(w.inner, id.Name)
	delete(w.fresh, id.Name)
	r := rhs
	if p, ok := r.(*ast.ParenExpr); ok {
		r = p.X
	}
	core, nidx := stripIndex(r)
	switch x := core.(type) {
	case *ast.SelectorExpr:
		if x.Sel.Name == "shardsBySvc" {
			switch nidx {
			case 1:
				w.inner[id.Name] = true
			case 2:
				w.shards[id.Name] = true
			}
			return
		}
	case *ast.Ident:
		if w.inner[x.Name] && nidx == 1 {
			w.shards[id.Name] = true
			return
		}
	}
	if u, ok := r.(*ast.UnaryExpr); ok && u.Op == token.AND {
		r = u.X
	}
	if cl, ok := r.(*ast.CompositeLit); ok && cl.Type != nil {
		if isShardsType(cl.Type) {
			w.shards[id.Name], w.fresh[id.Name] = true, true
		} else if mt, ok := cl.Type.(*ast.MapType); ok && isShardsType(mt.Value) && wasInner {
			w.inner[id.Name] = true // a new inner map, about to be linked
		}
		return
	}
	if c, ok := r.(*ast.CallExpr); ok {
		name := ""
		switch f := c.Fun.(type) {
		case *ast.Ident:
			name = f.Name
		case *ast.SelectorExpr:
			name = f.Sel.Name
		}
		if w.retShard[name] {
			w.shards[id.Name] = true
		}
	}
}

func (w *factWalker) scan(n ast.Node, st lstate) {
	if n == nil {
		return
	}
	ast.Inspect(n, func(x ast.Node) bool {
		switch c := x.(type) {
		case *ast.FuncLit:
			// (run in place: sort.Slice, FilterInPlace and the like call it before they return)
			w.block(c.Body.List, st.clone())
			return false
		case *ast.CallExpr:
			if id, ok := c.Fun.(*ast.Ident); ok && id.Name == "delete" && len(c.Args) == 2 {
				if !w.access(c.Args[0], true, st) {
					w.scan(c.Args[0], st)
				}
				w.scan(c.Args[1], st)
				return false
			}
			w.noteCall(c, st)
		case *ast.IndexExpr, *ast.SelectorExpr:
			if w.access(c.(ast.Expr), false, st) {
				// the index expressions inside are reads of their own
				e := c.(ast.Expr)
				for {
					if ix, ok := e.(*ast.IndexExpr); ok {
						w.scan(ix.Index, st)
						e = ix.X
						continue
					}
					break
				}
				return false
			}
		case *ast.Ident:
			if w.inner[c.Name] {
				w.access(c, false, st)
			}
		}
		return true
	})
}

func (w *factWalker) noteCall(c *ast.CallExpr, st lstate) {
	cs := callSite{idx: st.idx(), args: map[int]byte{}, hasArg: map[int]bool{}}
	switch f := c.Fun.(type) {
	case *ast.Ident:
		cs.callee = f.Name
	case *ast.SelectorExpr:
		cs.callee = f.Sel.Name
		cs.recv = st.held[pathOf(f.X)]
		cs.recvTracked = w.shards[pathOf(f.X)]
		if w.fresh[pathOf(f.X)] {
			cs.recv = lkW
		}
	default:
		return
	}
	for i, a := range c.Args {
		if p := pathOf(a); p != "" && w.shards[p] {
			cs.args[i], cs.hasArg[i] = st.held[p], true
			if w.fresh[p] {
				cs.args[i] = lkW
			}
		}
	}
	*w.calls = append(*w.calls, cs)
}

func lockCall(e ast.Expr) (path, op string, ok bool) {
	c, isCall := e.(*ast.CallExpr)
	if !isCall || len(c.Args) != 0 {
		return "", "", false
	}
	s, isSel := c.Fun.(*ast.SelectorExpr)
	if !isSel {
		return "", "", false
	}
	switch s.Sel.Name {
	case "Lock", "RLock", "Unlock", "RUnlock":
		if p := pathOf(s.X); p != "" {
			return p, s.Sel.Name, true
		}
	}
	return "", "", false
}

func endsInReturn(l []ast.Stmt) bool {
	if len(l) == 0 {
		return false
	}
	switch s := l[len(l)-1].(type) {
	case *ast.ReturnStmt:
		return true
	case *ast.BranchStmt:
		return s.Tok == token.CONTINUE || s.Tok == token.BREAK
	}
	return false
}

func (w *factWalker) block(l []ast.Stmt, st lstate) lstate {
	for _, s := range l {
		switch x := s.(type) {
		case *ast.ExprStmt:
			if p, op, ok := lockCall(x.X); ok {
				switch op {
				case "Lock":
					st.held[p] = lkW
				case "RLock":
					st.held[p] = lkR
				default:
					delete(st.held, p)
				}
				continue
			}
			w.scan(x, st)
		case *ast.DeferStmt:
			if _, _, ok := lockCall(x.Call); ok {
				continue // released when the function returns
			}
			w.scan(x.Call, st)
		case *ast.GoStmt:
			w.scan(x.Call, lstate{map[string]byte{}})
		case *ast.AssignStmt:
			for _, r := range x.Rhs {
				w.scan(r, st)
			}
			for _, l := range x.Lhs {
				if !w.access(l, true, st) {
					// (index expressions on the left are reads)
					if _, n := stripIndex(l); n > 0 {
						w.scan(l, st)
					}
				} else {
					e := l
					for {
						if ix, ok := e.(*ast.IndexExpr); ok {
							w.scan(ix.Index, st)
							e = ix.X
							continue
						}
						break
					}
				}
			}
			if len(x.Rhs) == 1 && len(x.Lhs) >= 1 {
				w.bind(x.Lhs[0], x.Rhs[0])
			} else if len(x.Rhs) == len(x.Lhs) {
				for i := range x.Lhs {
					w.bind(x.Lhs[i], x.Rhs[i])
				}
			}
		case *ast.IfStmt:
			if x.Init != nil {
				st = w.block([]ast.Stmt{x.Init}, st)
			}
			w.scan(x.Cond, st)
			after := w.block(x.Body.List, st.clone())
			var outs []lstate
			if !endsInReturn(x.Body.List) {
				outs = append(outs, after)
			}
			if x.Else != nil {
				var ea lstate
				var ret bool
				switch e := x.Else.(type) {
				case *ast.BlockStmt:
					ea = w.block(e.List, st.clone())
					ret = endsInReturn(e.List)
				default:
					ea = w.block([]ast.Stmt{e}, st.clone())
				}
				if !ret {
					outs = append(outs, ea)
				}
			} else {
				outs = append(outs, st)
			}
			if len(outs) > 0 {
				m := outs[0]
				for _, o := range outs[1:] {
					m = mergeStates(m, o)
				}
				st = m
			}
		case *ast.ForStmt:
			if x.Init != nil {
				st = w.block([]ast.Stmt{x.Init}, st)
			}
			w.scan(x.Cond, st)
			after := w.block(x.Body.List, st.clone())
			w.scan(x.Post, after)
			st = mergeStates(st, after)
		case *ast.RangeStmt:
			w.scan(x.X, st)
			if core, n := stripIndex(x.X); n == 0 {
				if se, ok := core.(*ast.SelectorExpr); ok && se.Sel.Name == "shardsBySvc" {
					if id, ok := x.Value.(*ast.Ident); ok {
						w.inner[id.Name] = true
					}
				} else if id, ok := core.(*ast.Ident); ok && w.inner[id.Name] {
					if v, ok := x.Value.(*ast.Ident); ok {
						delete(w.inner, v.Name)
						w.shards[v.Name] = true
					}
				}
			}
			after := w.block(x.Body.List, st.clone())
			st = mergeStates(st, after)
		case *ast.BlockStmt:
			st = w.block(x.List, st)
		case *ast.SwitchStmt:
			if x.Init != nil {
				st = w.block([]ast.Stmt{x.Init}, st)
			}
			w.scan(x.Tag, st)
			m := st
			for _, c := range x.Body.List {
				cc := c.(*ast.CaseClause)
				for _, e := range cc.List {
					w.scan(e, st)
				}
				after := w.block(cc.Body, st.clone())
				if !endsInReturn(cc.Body) {
					m = mergeStates(m, after)
				}
			}
			st = m
		case *ast.TypeSwitchStmt:
			m := st
			for _, c := range x.Body.List {
				after := w.block(c.(*ast.CaseClause).Body, st.clone())
				m = mergeStates(m, after)
			}
			st = m
		case *ast.SelectStmt:
			m := st
			for _, c := range x.Body.List {
				after := w.block(c.(*ast.CommClause).Body, st.clone())
				m = mergeStates(m, after)
			}
			st = m
		case *ast.LabeledStmt:
			st = w.block([]ast.Stmt{x.Stmt}, st)
		default:
			w.scan(s, st)
		}
	}
	return st
}

var lockFactFiles = []string{
	"pilot/pkg/model/endpointshards.go",
	"pilot/pkg/model/push_context.go",
	"pilot/pkg/xds/endpoints/endpoint_builder.go",
}

func fnName(fd *ast.FuncDecl) string {
	if fd.Recv == nil || len(fd.Recv.List) == 0 {
		return fd.Name.Name
	}
	t := fd.Recv.List[0].Type
	if s, ok := t.(*ast.StarExpr); ok {
		t = s.X
	}
	if id, ok := t.(*ast.Ident); ok {
		return id.Name + "." + fd.Name.Name
	}
	return fd.Name.Name
}

func lockFacts(repo string) []lockFact {
	type parsed struct {
		file string
		decl *ast.FuncDecl
	}
	var fns []parsed
	retShard := map[string]bool{}
	var out []lockFact
	for _, f := range lockFactFiles {
		fset := token.NewFileSet()
		file, err := parser.ParseFile(fset, filepath.Join(repo, f), nil, 0)
		if err != nil {
			out = append(out, lockFact{filepath.Base(f), "parse-error", "-", "-", "-", "-", "-"})
			continue
		}
		for _, d := range file.Decls {
			fd, ok := d.(*ast.FuncDecl)
			if !ok || fd.Body == nil {
				continue
			}
			fns = append(fns, parsed{filepath.Base(f), fd})
			if fd.Type.Results != nil && len(fd.Type.Results.List) > 0 && isShardsType(fd.Type.Results.List[0].Type) {
				retShard[fd.Name.Name] = true
			}
		}
	}
	inh := map[string]*inherit{} // by bare function name
	var facts map[lockFact]bool
	for round := 0; round < 4; round++ {
		facts = map[lockFact]bool{}
		var calls []callSite
		for _, p := range fns {
			fd := p.decl
			w := &factWalker{file: p.file, fn: fnName(fd), facts: facts, calls: &calls,
				inner: map[string]bool{}, shards: map[string]bool{}, fresh: map[string]bool{}, retShard: retShard}
			st := lstate{map[string]byte{}}
			h := inh[fd.Name.Name]
			if p.file != "endpointshards.go" {
				h = nil // only the helpers of the index itself inherit from their call sites
			}
			recvName := ""
			if fd.Recv != nil && len(fd.Recv.List) > 0 && len(fd.Recv.List[0].Names) > 0 {
				recvName = fd.Recv.List[0].Names[0].Name
				if isShardsType(fd.Recv.List[0].Type) {
					w.shards[recvName] = true
					if h != nil && h.seen && h.recv != lkNone {
						st.held[recvName] = h.recv
					}
				} else if h != nil && h.seen && h.idx != lkNone {
					st.held[recvName+".mu"] = h.idx
				}
			}
			i := 0
			for _, fld := range fd.Type.Params.List {
				for _, nm := range fld.Names {
					if isShardsType(fld.Type) {
						w.shards[nm.Name] = true
						if h != nil && h.seen && h.params[i] != lkNone {
							st.held[nm.Name] = h.params[i]
						}
					}
					i++
				}
			}
			// a receiver-less helper keeps the index lock of its callers under a name of its own
			if recvName == "" && h != nil && h.seen && h.idx != lkNone {
				st.held["(caller).mu"] = h.idx
			}
			w.block(fd.Body.List, st)
		}
		// what every function may assume from its call sites (weakest over all of them)
		next := map[string]*inherit{}
		shardsMethod := map[string]bool{}
		for _, p := range fns {
			if p.file == "endpointshards.go" && p.decl.Recv != nil && len(p.decl.Recv.List) > 0 && isShardsType(p.decl.Recv.List[0].Type) {
				shardsMethod[p.decl.Name.Name] = true
			}
		}
		for _, c := range calls {
			if shardsMethod[c.callee] && !c.recvTracked {
				continue // some other type's method of the same name
			}
			h := next[c.callee]
			if h == nil {
				h = &inherit{idx: c.idx, recv: c.recv, params: map[int]byte{}, seen: true}
				for i, v := range c.args {
					h.params[i] = v
				}
				next[c.callee] = h
				continue
			}
			h.idx, h.recv = minLk(h.idx, c.idx), minLk(h.recv, c.recv)
			for i := range h.params {
				if !c.hasArg[i] {
					h.params[i] = lkNone
				} else {
					h.params[i] = minLk(h.params[i], c.args[i])
				}
			}
		}
		// only functions of the analysed files
		defined := map[string]bool{}
		for _, p := range fns {
			if p.file == "endpointshards.go" {
				defined[p.decl.Name.Name] = true
			}
		}
		for k := range next {
			if !defined[k] {
				delete(next, k)
			}
		}
		inh = next
	}
	for f := range facts {
		out = append(out, f)
	}
	sort.Slice(out, func(a, b int) bool {
		x, y := out[a], out[b]
		return x.file+"|"+x.fn+"|"+x.target+"|"+x.kind+"|"+x.base+"|"+x.idx+"|"+x.own < y.file+"|"+y.fn+"|"+y.target+"|"+y.kind+"|"+y.base+"|"+y.idx+"|"+y.own
	})
	return out
}

func leanStr(s string) string {
	return "\"" + strings.ReplaceAll(strings.ReplaceAll(s, "\\", "\\\\"), "\"", "\\\"") + "\""
}

func writeLockFacts(out string) {
	repo := os.Getenv("VERIF_REPO")
	if repo == "" {
		repo = "/repo"
	}
	facts := lockFacts(repo)
	var b strings.Builder
	b.WriteString("/- generated by `c13 table lockfacts` from the checked tree (pilot/pkg/model/endpointshards.go, push_context.go,\n   pilot/pkg/xds/endpoints/endpoint_builder.go); do not edit -/\n")
	b.WriteString("namespace IstioModel.Generated.C13\n\n")
	b.WriteString("/-- (file, function, kind, field, base expression, index lock, own lock) -/\n")
	b.WriteString("def lockFacts : List (String × String × String × String × String × String × String) := [\n")
	for i, f := range facts {
		sep := ","
		if i == len(facts)-1 {
			sep = ""
		}
		b.WriteString("  (" + strings.Join([]string{leanStr(f.file), leanStr(f.fn), leanStr(f.kind), leanStr(f.target), leanStr(f.base),
			leanStr(f.idx), leanStr(f.own)}, ", ") + ")" + sep + "\n")
	}
	b.WriteString("]\n\nend IstioModel.Generated.C13\n")
	if err := os.WriteFile(out, []byte(b.String()), 0o644); err != nil {
		os.Exit(1)
	}
}
