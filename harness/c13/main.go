// Harness for C13: drives the real model.EndpointIndex (stream index), real goroutines released at
// the verif gate points of UpdateServiceEndpoints / deleteServiceInner (stream sched) and the real
// endpoint builder (stream cla), one operation per line.
//
//	c13 gen    <stream> <seed> <ncases> <ops-out>
//	c13 exec   <stream> <ops-in> <impl-out>
//	c13 oracle <stream> <ops-in> <verdict-out>
//	c13 table  lockfacts <out.lean>           (facts.go: lock discipline read off the sources)
//	c13 stress <seconds> <seed> <out>         (stress.go: ungated, for the -race build)
//
// The Lean driver (lean/IstioModel/C13/Driver.lean) consumes the same ops file; outputs are
// compared line by line.
package main

import (
	"fmt"
	"os"
	"sort"
	"strconv"
	"strings"

	_ "verifharness/internal/quiet"
)

// stats: coverage counters of an oracle run, written next to the verdicts (<verdict-out>.stats, "key value"
// per line); the check puts them into the evidence so that a decaying generator shows.
var stats = map[string]int{}

func writeStats(outp string) {
	keys := make([]string, 0, len(stats))
	for k := range stats {
		keys = append(keys, k)
	}
	sort.Strings(keys)
	var b strings.Builder
	for _, k := range keys {
		fmt.Fprintf(&b, "%s %d\n", k, stats[k])
	}
	_ = os.WriteFile(outp+".stats", []byte(b.String()), 0o644)
}

func main() {
	if len(os.Args) == 4 && os.Args[1] == "table" && os.Args[2] == "lockfacts" {
		writeLockFacts(os.Args[3])
		return
	}
	if len(os.Args) < 5 {
		fmt.Fprintln(os.Stderr, "usage: c13 gen|exec|oracle ...")
		os.Exit(2)
	}
	if os.Args[1] == "stress" {
		secs, _ := strconv.Atoi(os.Args[2])
		seed, _ := strconv.ParseUint(os.Args[3], 10, 64)
		runStress(secs, seed, os.Args[4])
		return
	}
	stream := os.Args[2]
	switch os.Args[1] {
	case "gen":
		seed, _ := strconv.ParseUint(os.Args[3], 10, 64)
		n, _ := strconv.Atoi(os.Args[4])
		switch stream {
		case "index":
			genIndex(seed, n, os.Args[5])
		case "sched":
			header := ""
			if len(os.Args) > 6 {
				header = os.Args[6]
			}
			genSched(seed, n, os.Args[5], header)
		case "cla":
			genCla(seed, n, os.Args[5])
		default:
			os.Exit(2)
		}
	case "exec":
		switch stream {
		case "index":
			execIndex(os.Args[3], os.Args[4])
		case "sched":
			execSched(os.Args[3], os.Args[4])
		case "cla":
			execCla(os.Args[3], os.Args[4])
		default:
			os.Exit(2)
		}
	case "oracle":
		switch stream {
		case "index":
			oracleIndex(os.Args[3], os.Args[4])
		case "sched":
			oracleSched(os.Args[3], os.Args[4])
		case "cla":
			oracleCla(os.Args[3], os.Args[4])
		default:
			os.Exit(2)
		}
		writeStats(os.Args[4])
	default:
		os.Exit(2)
	}
}
