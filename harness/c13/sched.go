package main

// Stream `sched`: scripted interleavings on the REAL model.EndpointIndex. Real goroutines run
// UpdateServiceEndpoints and are parked at the verif gate "update:after-lookup" (between the
// shard-set lookup and ep.Lock()); the scheduling goroutine executes the other operations and
// releases the parked ones in the scripted order. Exactly one goroutine runs at any time, so the
// schedule is deterministic.
//
//	begin T <sk> <k> <eps>   start goroutine T (UpdateServiceEndpoints), run it to its first gate
//	                         ("lookup:after-miss" or "update:after-lookup")
//	step T                   release T: it runs to its next gate or to completion
//	upd|delsvc|delshard|prune ...   executed start to end by the scheduling goroutine
//	end                      finish every goroutine, print linearizability verdict and final index

import (
	"fmt"
	"strconv"
	"strings"
	"time"

	"istio.io/istio/pilot/pkg/model"
	"verifharness/internal/wire"
)

type thr struct {
	name     string
	o        op
	release  chan struct{}
	parked   chan struct{}
	done     chan string
	ptr      *model.EndpointShards // what the goroutine looked up (read at the gate)
	finished bool
	orphan   bool // its write landed on a shard set that was no longer linked
	hid      int  // index of its operation in hist
	at       string // the gate it is parked at
	// the entry this goroutine created itself (nil if it found one)
	createdPtr *model.EndpointShards
}

type histOp struct {
	id         int
	o          op
	start, fin int
	open       bool // goroutine not finished yet
}

type schedSUT struct {
	*sut
	threads map[string]*thr
	order   []*thr
	current *thr
	unlinks int
	hist    []histOp
	line    int
	lost    int
	crashed bool
	// updates that created the service entry but did not return FullPush (oracle clause new-service-full)
	newSvcNotFull []string
}

const gateTimeout = 10 * time.Second

func newSchedSUT() *schedSUT {
	s := &schedSUT{sut: newSUT(), threads: map[string]*thr{}}
	model.VerifC13SetGate(func(point string) {
		switch point {
		case "delete:before-unlink":
			s.unlinks++
		case "update:after-lookup", "lookup:after-miss":
			t := s.current
			if t == nil {
				return // the scheduling goroutine itself: run through
			}
			t.at = point
			if point == "update:after-lookup" {
				t.ptr, _ = s.idx.ShardsForService(t.o.k.a, t.o.k.b)
			}
			t.parked <- struct{}{}
			<-t.release
		}
	})
	return s
}

// wait lets goroutine t run until it parks or finishes.
func (s *schedSUT) wait(t *thr) string {
	defer func() { s.current = nil }()
	select {
	case <-t.parked:
		if t.at == "lookup:after-miss" {
			return "parked miss"
		}
		return "parked"
	case p := <-t.done:
		t.finished = true
		cur, ok := s.idx.ShardsForService(t.o.k.a, t.o.k.b)
		t.orphan = len(t.o.eps) > 0 && (!ok || cur != t.ptr)
		s.hist[t.hid].fin, s.hist[t.hid].open = s.line, false
		if p == "crash" {
			s.crashed = true
			return "done crash"
		}
		if t.orphan {
			s.lost++
			return "done orphan"
		}
		return "done " + p
	case <-time.After(gateTimeout):
		return "timeout"
	}
}

func (s *schedSUT) out(head string) string {
	u := s.unlinks
	s.unlinks = 0
	return head + " u=" + strconv.Itoa(u) + " | " + showIndex(s.idx)
}

func (s *schedSUT) stepThread(t *thr) string {
	if t.finished {
		return "idle"
	}
	_, present := s.idx.ShardsForService(t.o.k.a, t.o.k.b)
	wasLooked := t.at == "update:after-lookup"
	s.current = t
	select {
	case t.release <- struct{}{}:
	case <-time.After(gateTimeout):
		s.current = nil
		return "timeout"
	}
	r := s.wait(t)
	s.noteCreation(t, present, r)
	if wasLooked && strings.HasPrefix(r, "parked") {
		return "parked retry" + strings.TrimPrefix(r, "parked")
	}
	return r
}

// noteCreation (for the oracle): the service had no entry when the goroutine was released, so the
// entry it now holds was created by it; when its write lands in that entry this is a new service
// and the push must be full.
func (s *schedSUT) noteCreation(t *thr, presentBefore bool, r string) {
	if !presentBefore && r == "parked" {
		t.createdPtr = t.ptr
	}
	if strings.HasPrefix(r, "done ") && r != "done orphan" && r != "done crash" && r != "done Full" && len(t.o.eps) > 0 {
		cur, ok := s.idx.ShardsForService(t.o.k.a, t.o.k.b)
		if !presentBefore || (ok && t.createdPtr != nil && cur == t.createdPtr) {
			s.newSvcNotFull = append(s.newSvcNotFull, t.name+":"+r)
		}
	}
}

func (s *schedSUT) finishAll() {
	for _, t := range s.order {
		for i := 0; i < 12 && !t.finished; i++ {
			if s.stepThread(t) == "timeout" {
				break
			}
		}
	}
}

func (s *schedSUT) apply(f []string) (out string) {
	defer func() {
		if r := recover(); r != nil {
			s.crashed = true
			out = "crash"
		}
	}()
	s.line++
	switch {
	case f[0] == "begin" && len(f) == 5:
		o, ok := parseOp([]string{"upd", f[2], f[3], f[4]})
		if !ok || s.threads[f[1]] != nil {
			return "bad-op"
		}
		t := &thr{name: f[1], o: o, release: make(chan struct{}), parked: make(chan struct{}), done: make(chan string, 1)}
		s.threads[f[1]] = t
		s.order = append(s.order, t)
		t.hid = len(s.hist)
		s.hist = append(s.hist, histOp{id: t.hid, o: o, start: s.line, open: true})
		_, presentBefore := s.idx.ShardsForService(o.k.a, o.k.b)
		s.current = t
		go func() {
			defer func() {
				if r := recover(); r != nil {
					t.done <- "crash"
				}
			}()
			t.done <- pushTok(s.idx.UpdateServiceEndpoints(shardKey(o.sk), o.k.a, o.k.b, o.eps, true))
		}()
		r := s.wait(t)
		if r == "done orphan" { // an empty report has no lookup: never an orphan write
			r = "done Incremental"
		}
		s.noteCreation(t, presentBefore, r)
		return s.out(r)
	case f[0] == "step" && len(f) == 2:
		t := s.threads[f[1]]
		if t == nil {
			return s.out("idle")
		}
		return s.out(s.stepThread(t))
	case f[0] == "end" && len(f) == 1:
		s.finishAll()
		final := showIndex(s.idx)
		u := s.unlinks
		lin := s.linearizable(final, nil) // (the fresh indexes of the search pass the gate too)
		s.unlinks = 0
		return fmt.Sprintf("lin=%s lost=%d u=%d | %s", wire.B(lin), s.lost, u, final)
	}
	o, ok := parseOp(f)
	if !ok {
		return "bad-op"
	}
	s.current = nil
	p := s.run(o)
	s.hist = append(s.hist, histOp{id: len(s.hist), o: o, start: s.line, fin: s.line})
	return s.out(p)
}

// linearizable: is `final` the result of executing the operations one at a time on a fresh real
// index in some order that respects the intervals (an operation that ended before another began
// comes first)? Operations whose id is in `skip` are left out.
func (s *schedSUT) linearizable(final string, skip map[int]bool) bool {
	var rem []histOp
	for _, h := range s.hist {
		if !skip[h.id] {
			rem = append(rem, h)
		}
	}
	var rec func(rem []histOp, prefix []op) bool
	rec = func(rem []histOp, prefix []op) bool {
		if len(rem) == 0 {
			fresh := newSUT()
			for _, o := range prefix {
				fresh.run(o)
			}
			return showIndex(fresh.idx) == final
		}
		for i, r := range rem {
			minimal := true
			for _, r2 := range rem {
				if r2.id != r.id && r2.fin < r.start {
					minimal = false
				}
			}
			if !minimal {
				continue
			}
			rest := append(append([]histOp{}, rem[:i]...), rem[i+1:]...)
			if rec(rest, append(append([]op{}, prefix...), r.o)) {
				return true
			}
		}
		return false
	}
	return rec(rem, nil)
}

func (s *schedSUT) close() {
	s.finishAll()
	model.VerifC13SetGate(nil)
}

func execSched(in, outp string) {
	out := wire.Create(outp)
	defer out.Close()
	var s *schedSUT
	for _, f := range wire.ReadLines(in) {
		if f[0] == "case" {
			if s != nil {
				s.close()
			}
			s = newSchedSUT()
			out.Line("ok")
			out.Flush()
			continue
		}
		if s == nil {
			s = newSchedSUT()
		}
		out.Line(s.apply(f))
		out.Flush()
	}
	if s != nil {
		s.close()
	}
}

// ---------------------------------------------------------------- generator

func genSched(seed uint64, n int, outp string, header string) {
	out := wire.Create(outp)
	defer out.Close()
	root := wire.NewRng(seed ^ 0x5C13)
	for c := 0; c < n; c++ {
		r := root.Fork()
		if header != "" {
			out.Line("case", strconv.Itoa(c), "sched", header)
		} else {
			out.Line("case", strconv.Itoa(c), "sched")
		}
		g := newGenState(r)
		if r.Chance(2, 3) {
			g.svcs = g.svcs[:1] // one service: collisions on the shard set are the point
		}
		if len(g.shards) > 2 && r.Chance(1, 2) {
			g.shards = g.shards[:2]
		}
		atomic := func() {
			sk := wire.Pick(r, g.shards)
			k := wire.Pick(r, g.svcs)
			switch x := r.Intn(10); {
			case x < 5:
				out.Line(opLine(op{kind: "delsvc", sk: sk, k: k, preserve: r.Chance(1, 5)})...)
			case x < 6:
				out.Line(opLine(op{kind: "delshard", sk: sk})...)
			case x < 7:
				out.Line(opLine(op{kind: "prune", sk: sk, keep: wire.Subset(r, svcUniverse, 1, 3)})...)
			default:
				o := g.genOp()
				for o.kind != "upd" {
					o = g.genOp()
				}
				out.Line(opLine(o)...)
			}
		}
		for i, k := 0, r.Intn(3); i < k; i++ { // sequential prefix
			o := g.genOp()
			if o.kind == "upd" && len(o.eps) > 2 {
				o.eps = o.eps[:2]
			}
			out.Line(opLine(o)...)
		}
		nthreads := 1 + r.Intn(3)
		var active []string
		begun := 0
		steps := 3 + r.Intn(8)
		for i := 0; i < steps; i++ {
			switch x := r.Intn(10); {
			case x < 4 && begun < nthreads:
				name := "T" + strconv.Itoa(begun)
				begun++
				o := g.genOp()
				for o.kind != "upd" {
					o = g.genOp()
				}
				if len(o.eps) > 2 {
					o.eps = o.eps[:2]
				}
				out.Line("begin", name, o.sk.enc(), o.k.enc(), encEps(o.eps))
				active = append(active, name)
			case x < 7 && len(active) > 0:
				j := r.Intn(len(active))
				out.Line("step", active[j])
				if r.Chance(1, 4) {
					active = append(active[:j], active[j+1:]...)
				}
			default:
				atomic()
			}
		}
		for len(active) > 0 {
			j := r.Intn(len(active))
			out.Line("step", active[j])
			if r.Chance(1, 3) {
				active = append(active[:j], active[j+1:]...)
			}
			if r.Chance(1, 4) {
				atomic()
			}
		}
		out.Line("end")
	}
}

// ---------------------------------------------------------------- property oracle (sched)
//
// Runs the scripted schedule on the real index and states the concurrent clause of the property
// directly, with no reference to the Lean model:
//   never-crashes        no goroutine panics or hangs;
//   new-service-full     an update that (re-)creates the service's entry returns FullPush;
//   report-lost          a registry's only report for a (service, registry) cell that no other
//                        operation of the case touches is in the final index;
//   non-linearizable     the final index equals the result of executing the operations one at a
//                        time, on a fresh real index, in some order compatible with their intervals.
// A failure is classified `lost-update:unlink-inside-update-window` exactly when some update's write
// landed on a shard set that a concurrent delete had unlinked between that update's lookup and its
// ep.Lock(), and the final index is linearizable once those updates are left out (they are lost in
// full and nothing else is wrong).

func touches(o op, k, sk pair) bool {
	switch o.kind {
	case "upd", "delsvc":
		return o.k == k && o.sk == sk
	case "delshard":
		return o.sk == sk
	case "prune":
		if o.sk != sk {
			return false
		}
		for _, p := range o.keep {
			if p == k {
				return false
			}
		}
		return true
	}
	return true
}

func oracleSched(in, outp string) {
	out := wire.Create(outp)
	defer out.Close()
	var s *schedSUT
	verdict := ""
	finish := func() {
		if s == nil {
			return
		}
		s.finishAll()
		final := showIndex(s.idx)
		got, _ := snapshotIndex(s.idx)
		v := "OK"
		lostOrphans := map[int]bool{}
		for _, t := range s.order {
			if t.orphan {
				lostOrphans[t.hid] = true
			}
			if !t.finished {
				v = "FAIL never-crashes goroutine-" + t.name + "-did-not-finish"
			}
		}
		if s.crashed {
			v = "FAIL never-crashes"
		}
		if v == "OK" && len(s.newSvcNotFull) > 0 {
			v = "FAIL new-service-full " + wire.Enc(strings.Join(s.newSvcNotFull, ","))
		}
		if verdict != "" {
			v = verdict
		}
		if v == "OK" {
			// cell-level clause
			for _, h := range s.hist {
				if h.o.kind != "upd" || len(h.o.eps) == 0 {
					continue
				}
				alone := true
				for _, h2 := range s.hist {
					if h2.id != h.id && touches(h2.o, h.o.k, h.o.sk) {
						alone = false
					}
				}
				if !alone {
					continue
				}
				var want []string
				for _, e := range h.o.eps {
					want = append(want, encEp(e))
				}
				if strings.Join(got[h.o.k][h.o.sk], ";") != strings.Join(want, ";") {
					if s.lost > 0 && s.linearizable(final, lostOrphans) {
						v = "FAIL lost-update:unlink-inside-update-window " + wire.Enc(h.o.k.enc()+" "+h.o.sk.enc())
					} else {
						v = "FAIL report-lost " + wire.Enc(h.o.k.enc()+" "+h.o.sk.enc())
					}
					break
				}
			}
		}
		if v == "OK" && !s.linearizable(final, nil) {
			if s.lost > 0 && s.linearizable(final, lostOrphans) {
				v = "FAIL lost-update:unlink-inside-update-window"
			} else {
				v = "FAIL non-linearizable " + wire.Enc(final)
			}
		}
		out.Line(v)
		s.close()
	}
	for _, f := range wire.ReadLines(in) {
		if f[0] == "case" {
			finish()
			s = newSchedSUT()
			verdict = ""
			continue
		}
		if s == nil {
			s = newSchedSUT()
		}
		if f[0] == "end" {
			continue // finish() does it
		}
		r := s.apply(f)
		if verdict == "" && (strings.HasPrefix(r, "crash") || strings.HasPrefix(r, "timeout") || strings.HasPrefix(r, "done crash")) {
			verdict = "FAIL never-crashes line=" + strconv.Itoa(s.line)
		}
	}
	finish()
}
