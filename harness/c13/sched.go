package main

// Stream `sched`: scripted interleavings on the REAL model.EndpointIndex. Real goroutines run
// UpdateServiceEndpoints and are parked at the verif gate "update:after-lookup" (between the
// shard-set lookup and ep.Lock()); the scheduling goroutine executes the other operations and
// releases the parked ones in the scripted order. Exactly one goroutine runs at any time, so the
// schedule is deterministic.
//
//	begin T <sk> <k> <eps>   start goroutine T (UpdateServiceEndpoints), run it to its first gate
//	                         ("lookup:after-miss" or "update:after-lookup")
//	step T                   release T: it runs to its next gate or to completion
//	upd|delsvc|delshard|prune ...   executed start to end by the scheduling goroutine
//	dbegin D delshard <sk> | dbegin D prune <sk> <keep>
//	                         run DeleteShard / PruneShard in goroutine D up to its first unlink
//	                         ("delete:before-unlink", holding the index lock); while it is parked there
//	                         only `begin` (which must block on the index lock) and `step D` are allowed;
//	                         the last `step D` finishes the delete and lets the blocked goroutines run to
//	                         their first gate
//	end                      finish every goroutine, print linearizability verdict and final index

import (
	"bytes"
	"fmt"
	"runtime"
	"strconv"
	"strings"
	"sync"
	"sync/atomic"
	"time"

	"istio.io/istio/pilot/pkg/model"
	"verifharness/internal/wire"
)

type thr struct {
	name     string
	o        op
	release  chan struct{}
	parked   chan struct{}
	done     chan string
	ptr      *model.EndpointShards // what the goroutine looked up (read at the gate)
	finished bool
	orphan   bool // its write landed on a shard set that was no longer linked
	// what happened to the entry the goroutine looked up while it was parked between lookup and lock: it left
	// the index (entryGone) during a delete (goneByDelete: F4's window) or during something that is not a delete
	// (the entry was replaced: a different defect)
	entryGone      bool
	goneByDelete   bool
	orphanNoUnlink bool
	hid      int  // index of its operation in hist
	at       string // the gate it is parked at
	goid     atomic.Uint64
	isDelete bool   // runs DeleteShard / PruneShard
	blocked  bool   // started while a delete held the index lock; has not reached a gate yet
	// the entry this goroutine created itself (nil if it found one)
	createdPtr *model.EndpointShards
}

type histOp struct {
	id         int
	o          op
	start, fin int
	open       bool // goroutine not finished yet
}

type schedSUT struct {
	*sut
	threads map[string]*thr
	order   []*thr
	unlinks int
	totalUnlinks atomic.Int64
	hist    []histOp
	line    int
	lost    int
	crashed bool
	// updates that created the service entry but did not return FullPush (oracle clause new-service-full)
	newSvcNotFull []string
	goids    sync.Map // goroutine id -> *thr
	inflight *thr     // the delete goroutine parked inside DeleteShard / PruneShard
	waiting  []*thr   // goroutines begun while it was parked, in order
	dUnlinks int
	dead     bool // a wait timed out in this case
	// lookups that got through while a DeleteShard / PruneShard was in progress (oracle clause delete-atomic)
	notAtomic []string
}

// lockWait reports whether goroutine `id` is waiting for a mutex (its state in the runtime's goroutine
// dump: "sync.RWMutex.RLock", "sync.RWMutex.Lock", "sync.Mutex.Lock" or, on older runtimes, "semacquire").
// A positive observation instead of "nothing happened for a few milliseconds": independent of machine load.
func lockWait(id uint64) bool {
	buf := make([]byte, 1<<16)
	buf = buf[:runtime.Stack(buf, true)]
	head := []byte("goroutine " + strconv.FormatUint(id, 10) + " [")
	i := bytes.Index(buf, head)
	if i < 0 {
		return false
	}
	rest := buf[i+len(head):]
	if j := bytes.IndexByte(rest, ']'); j > 0 {
		st := string(rest[:j])
		return strings.Contains(st, "Mutex") || strings.Contains(st, "semacquire")
	}
	return false
}

// settle waits until goroutine t has either reached a gate / finished (returns "parked" / "done", with the
// value for "done" in *p) or is observed waiting for a lock ("blocked").
func (s *schedSUT) settle(t *thr, p *string) string {
	deadline := time.Now().Add(gateTimeout)
	for {
		select {
		case <-t.parked:
			return "parked"
		case v := <-t.done:
			*p = v
			return "done"
		default:
		}
		if id := t.goid.Load(); id != 0 && lockWait(id) {
			return "blocked"
		}
		if time.Now().After(deadline) {
			return "timeout"
		}
		time.Sleep(100 * time.Microsecond)
	}
}

// goid returns the id of the calling goroutine (from its stack header "goroutine N [").
func goid() uint64 {
	var buf [64]byte
	b := buf[:runtime.Stack(buf[:], false)]
	b = bytes.TrimPrefix(b, []byte("goroutine "))
	if i := bytes.IndexByte(b, ' '); i > 0 {
		n, _ := strconv.ParseUint(string(b[:i]), 10, 64)
		return n
	}
	return 0
}

func (s *schedSUT) self() *thr {
	if v, ok := s.goids.Load(goid()); ok {
		return v.(*thr)
	}
	return nil
}

func (s *schedSUT) spawn(t *thr, f func() string) {
	go func() {
		t.goid.Store(goid())
		s.goids.Store(goid(), t)
		defer func() {
			if r := recover(); r != nil {
				t.done <- "crash"
			}
		}()
		t.done <- f()
	}()
}

const gateTimeout = 2 * time.Second

func newSchedSUT() *schedSUT {
	s := &schedSUT{sut: newSUT(), threads: map[string]*thr{}}
	model.VerifC13SetGate(func(point string) {
		t := s.self() // nil: the scheduling goroutine itself runs through
		switch point {
		case "delete:before-unlink":
			s.unlinks++
			s.totalUnlinks.Add(1)
			if t != nil && t.isDelete {
				t.at = point
				t.parked <- struct{}{}
				<-t.release
			}
		case "update:after-lookup", "lookup:after-miss":
			if t == nil || t.isDelete {
				return
			}
			t.at = point
			if point == "update:after-lookup" {
				t.ptr, _ = s.idx.ShardsForService(t.o.k.a, t.o.k.b)
				t.entryGone, t.goneByDelete = false, false
			}
			t.parked <- struct{}{}
			<-t.release
		}
	})
	return s
}

// wait lets goroutine t run until it parks or finishes.
func (s *schedSUT) wait(t *thr) string {
	select {
	case <-t.parked:
		if t.at == "lookup:after-miss" {
			return "parked miss"
		}
		return "parked"
	case p := <-t.done:
		t.finished = true
		cur, ok := s.idx.ShardsForService(t.o.k.a, t.o.k.b)
		t.orphan = len(t.o.eps) > 0 && (!ok || cur != t.ptr)
		s.hist[t.hid].fin, s.hist[t.hid].open = s.line, false
		if p == "crash" {
			s.crashed = true
			return "done crash"
		}
		if t.orphan {
			s.lost++
			t.orphanNoUnlink = !(t.entryGone && t.goneByDelete)
			return "done orphan"
		}
		return "done " + p
	case <-time.After(gateTimeout):
		return "timeout"
	}
}

func (s *schedSUT) out(head string) string {
	u := s.unlinks
	s.unlinks = 0
	return head + " u=" + strconv.Itoa(u) + " | " + showIndex(s.idx)
}

func (s *schedSUT) stepThread(t *thr) string {
	if t.finished {
		return "idle"
	}
	_, present := s.idx.ShardsForService(t.o.k.a, t.o.k.b)
	wasLooked := t.at == "update:after-lookup"
	select {
	case t.release <- struct{}{}:
	case <-time.After(gateTimeout):
		return "timeout"
	}
	r := s.wait(t)
	s.noteCreation(t, present, r)
	if wasLooked && strings.HasPrefix(r, "parked") {
		return "parked retry" + strings.TrimPrefix(r, "parked")
	}
	return r
}

// noteCreation (for the oracle): the service had no entry when the goroutine was released, so the
// entry it now holds was created by it; when its write lands in that entry this is a new service
// and the push must be full.
func (s *schedSUT) noteCreation(t *thr, presentBefore bool, r string) {
	if !presentBefore && r == "parked" {
		t.createdPtr = t.ptr
	}
	if strings.HasPrefix(r, "done ") && r != "done orphan" && r != "done crash" && r != "done Full" && len(t.o.eps) > 0 {
		cur, ok := s.idx.ShardsForService(t.o.k.a, t.o.k.b)
		if !presentBefore || (ok && t.createdPtr != nil && cur == t.createdPtr) {
			s.newSvcNotFull = append(s.newSvcNotFull, t.name+":"+r)
		}
	}
}

func (s *schedSUT) finishAll() {
	for _, t := range s.order {
		for i := 0; i < 12 && !t.finished && !s.dead; i++ {
			if s.stepThread(t) == "timeout" {
				s.dead = true
			}
			s.noteEntryChanges(false)
		}
	}
}

// noteEntryChanges looks, after a scheduling step, at every goroutine parked between its lookup and its lock:
// is the entry it holds still the one in the index?  byDelete: the step was a delete (DeleteServiceShard without
// preserved keys, DeleteShard, PruneShard - by the scheduler or a delete goroutine).
func (s *schedSUT) noteEntryChanges(byDelete bool) {
	if s.inflight != nil || s.dead {
		return // a delete holds the index lock; it is looked at when it has finished
	}
	for _, t := range s.order {
		if t.finished || t.isDelete || t.ptr == nil || t.at != "update:after-lookup" || t.entryGone {
			continue
		}
		if cur, ok := s.idx.ShardsForService(t.o.k.a, t.o.k.b); !ok || cur != t.ptr {
			t.entryGone, t.goneByDelete = true, byDelete
		}
	}
}

func (s *schedSUT) lineIsDelete(f []string) bool {
	switch f[0] {
	case "delshard", "prune", "dbegin":
		return true
	case "delsvc":
		return len(f) == 4 && !(f[3] == "1" || f[3] == "true")
	case "step":
		if len(f) < 2 {
			return false
		}
		t := s.threads[f[1]]
		return t != nil && t.isDelete
	}
	return false
}

// afterDelete waits for the delete goroutine to park at its next unlink or to finish.
func (s *schedSUT) afterDelete(t *thr) string {
	select {
	case <-t.parked:
		s.inflight = t
		// nothing that was begun meanwhile may have got past the index lock
		var early []string
		for _, w := range s.waiting {
			if !w.blocked {
				continue
			}
			var p string
			switch s.settle(w, &p) {
			case "parked":
				w.blocked = false
				early = append(early, w.name)
			case "done":
				w.blocked, w.finished = false, true
				early = append(early, w.name)
			}
		}
		if len(early) > 0 {
			s.notAtomic = append(s.notAtomic, early...)
			return "dparked early=" + strings.Join(early, ",")
		}
		return "dparked"
	case p := <-t.done:
		t.finished = true
		s.inflight = nil
		s.hist[t.hid].fin, s.hist[t.hid].open = s.line, false
		if p == "crash" {
			s.crashed = true
		}
		// the goroutines that were waiting for the index lock now run to their first gate
		var toks []string
		for _, w := range s.waiting {
			if !w.blocked {
				continue
			}
			w.blocked = false
			r := s.wait(w)
			if r == "done orphan" {
				r = "done Incremental"
			}
			toks = append(toks, w.name+":"+strings.ReplaceAll(r, " ", "-"))
		}
		s.waiting = nil
		head := "done " + p
		if len(toks) > 0 {
			head += " " + strings.Join(toks, ",")
		}
		return s.out(head)
	case <-time.After(gateTimeout):
		return "timeout"
	}
}

func (s *schedSUT) finishDelete() {
	for i := 0; i < 64 && s.inflight != nil; i++ {
		t := s.inflight
		select {
		case t.release <- struct{}{}:
		case <-time.After(gateTimeout):
			s.dead = true
			return
		}
		if s.afterDelete(t) == "timeout" {
			s.dead = true
			return
		}
	}
}

func (s *schedSUT) apply(f []string) (out string) {
	defer func() {
		if r := recover(); r != nil {
			s.crashed = true
			out = "crash"
		}
		if strings.HasPrefix(out, "timeout") {
			s.dead = true // some goroutine hangs: the rest of the case is not worth waiting for
		}
		if f[0] != "end" {
			s.noteEntryChanges(s.lineIsDelete(f))
		}
	}()
	if s.dead {
		return "timeout"
	}
	s.line++
	switch {
	case f[0] == "begin" && len(f) == 5:
		o, ok := parseOp([]string{"upd", f[2], f[3], f[4]})
		if !ok || s.threads[f[1]] != nil {
			return "bad-op"
		}
		t := &thr{name: f[1], o: o, release: make(chan struct{}), parked: make(chan struct{}), done: make(chan string, 1)}
		s.threads[f[1]] = t
		s.order = append(s.order, t)
		t.hid = len(s.hist)
		s.hist = append(s.hist, histOp{id: t.hid, o: o, start: s.line, open: true})
		run := func() string {
			return pushTok(s.idx.UpdateServiceEndpoints(shardKey(o.sk), o.k.a, o.k.b, o.eps, true))
		}
		if s.inflight != nil {
			// a DeleteShard / PruneShard holds the index lock: the lookup of this update must wait for it
			t.blocked = true
			s.spawn(t, run)
			var p string
			switch s.settle(t, &p) {
			case "parked":
				t.blocked = false
				s.notAtomic = append(s.notAtomic, t.name)
				return "not-blocked parked"
			case "done":
				t.blocked, t.finished = false, true
				s.hist[t.hid].fin, s.hist[t.hid].open = s.line, false
				if len(o.eps) > 0 {
					s.notAtomic = append(s.notAtomic, t.name)
				}
				return "not-blocked done " + p
			case "timeout":
				return "timeout"
			}
			s.waiting = append(s.waiting, t)
			return "blocked"
		}
		_, presentBefore := s.idx.ShardsForService(o.k.a, o.k.b)
		s.spawn(t, run)
		r := s.wait(t)
		if r == "done orphan" { // an empty report has no lookup: never an orphan write
			r = "done Incremental"
		}
		s.noteCreation(t, presentBefore, r)
		return s.out(r)
	case f[0] == "dbegin" && (len(f) == 4 && f[2] == "delshard" || len(f) == 5 && f[2] == "prune" || len(f) == 6 && f[2] == "delsvc"):
		o, ok := parseOp(f[2:])
		if !ok || s.threads[f[1]] != nil || s.inflight != nil {
			return "bad-op"
		}
		t := &thr{name: f[1], o: o, isDelete: true, release: make(chan struct{}), parked: make(chan struct{}), done: make(chan string, 1)}
		s.threads[f[1]] = t
		t.hid = len(s.hist)
		s.hist = append(s.hist, histOp{id: t.hid, o: o, start: s.line, open: true})
		s.unlinks = 0
		s.spawn(t, func() string { return s.run(o) })
		return s.afterDelete(t)
	case f[0] == "step" && len(f) == 2 && s.inflight != nil:
		if t := s.threads[f[1]]; t != nil && t != s.inflight && !t.isDelete && !t.finished && !t.blocked && t.at == "lookup:after-miss" {
			// an update parked in GetOrCreateEndpointShard's slow path, just before e.mu.Lock(): released while the
			// delete holds the index lock it must wait for it
			select {
			case t.release <- struct{}{}:
			case <-time.After(gateTimeout):
				return "timeout"
			}
			t.blocked = true
			var p string
			switch s.settle(t, &p) {
			case "parked":
				t.blocked = false
				s.notAtomic = append(s.notAtomic, t.name)
				return "not-blocked parked"
			case "done":
				t.blocked, t.finished = false, true
				s.hist[t.hid].fin, s.hist[t.hid].open = s.line, false
				s.notAtomic = append(s.notAtomic, t.name)
				return "not-blocked done " + p
			case "timeout":
				return "timeout"
			}
			s.waiting = append(s.waiting, t)
			return "blocked"
		}
		if s.threads[f[1]] != s.inflight {
			return "bad-op"
		}
		t := s.inflight
		select {
		case t.release <- struct{}{}:
		case <-time.After(gateTimeout):
			return "timeout"
		}
		return s.afterDelete(t)
	case s.inflight != nil && f[0] != "end":
		return "bad-op" // the scheduling goroutine must not touch the index while a delete holds its lock
	case f[0] == "step" && len(f) == 2:
		t := s.threads[f[1]]
		if t == nil || t.isDelete {
			return s.out("idle")
		}
		return s.out(s.stepThread(t))
	case f[0] == "end" && len(f) == 1:
		// (counted on the never-reset counter: a delete goroutine still in flight finishes here, and its
		// report line resets s.unlinks)
		before := s.totalUnlinks.Load() - int64(s.unlinks)
		s.finishDelete()
		s.noteEntryChanges(true)
		s.finishAll()
		final := showIndex(s.idx)
		u := int(s.totalUnlinks.Load() - before)
		lin := s.linearizable(final, nil) // (the fresh indexes of the search pass the gate too)
		s.unlinks = 0
		return fmt.Sprintf("lin=%s lost=%d u=%d | %s", wire.B(lin), s.lost, u, final)
	}
	o, ok := parseOp(f)
	if !ok {
		return "bad-op"
	}
	p := s.run(o)
	s.hist = append(s.hist, histOp{id: len(s.hist), o: o, start: s.line, fin: s.line})
	return s.out(p)
}

// linearizable: is `final` the result of executing the operations one at a time on a fresh real
// index in some order that respects the intervals (an operation that ended before another began
// comes first)? Operations whose id is in `skip` are left out.
func (s *schedSUT) linearizable(final string, skip map[int]bool) bool {
	var rem []histOp
	for _, h := range s.hist {
		if !skip[h.id] {
			rem = append(rem, h)
		}
	}
	// depth-first over the orders; a (remaining set, state reached) pair that failed once is not tried again
	failed := map[string]bool{}
	var rec func(rem []histOp, prefix []op) bool
	rec = func(rem []histOp, prefix []op) bool {
		fresh := newSUT()
		for _, o := range prefix {
			fresh.run(o)
		}
		state := showIndex(fresh.idx)
		if len(rem) == 0 {
			return state == final
		}
		ids := make([]string, len(rem))
		for i, r := range rem {
			ids[i] = strconv.Itoa(r.id)
		}
		key := strings.Join(ids, ",") + "|" + state
		if failed[key] {
			return false
		}
		for i, r := range rem {
			minimal := true
			for _, r2 := range rem {
				if r2.id != r.id && r2.fin < r.start {
					minimal = false
				}
			}
			if !minimal {
				continue
			}
			rest := append(append([]histOp{}, rem[:i]...), rem[i+1:]...)
			if rec(rest, append(append([]op{}, prefix...), r.o)) {
				return true
			}
		}
		failed[key] = true
		return false
	}
	return rec(rem, nil)
}

func (s *schedSUT) close() {
	if !s.dead {
		s.finishDelete()
		s.noteEntryChanges(true)
		s.finishAll()
	}
	model.VerifC13SetGate(nil)
}

func execSched(in, outp string) {
	out := wire.Create(outp)
	defer out.Close()
	var s *schedSUT
	for _, f := range wire.ReadLines(in) {
		if f[0] == "case" {
			if s != nil {
				s.close()
			}
			s = newSchedSUT()
			out.Line("ok")
			out.Flush()
			continue
		}
		if s == nil {
			s = newSchedSUT()
		}
		out.Line(s.apply(f))
		out.Flush()
	}
	if s != nil {
		s.close()
	}
}

// ---------------------------------------------------------------- generator

func genSched(seed uint64, n int, outp string, header string) {
	out := wire.Create(outp)
	defer out.Close()
	root := wire.NewRng(seed ^ 0x5C13)
	for c := 0; c < n; c++ {
		r := root.Fork()
		if header != "" {
			out.Line("case", strconv.Itoa(c), "sched", header)
		} else {
			out.Line("case", strconv.Itoa(c), "sched")
		}
		g := newGenState(r)
		if r.Chance(2, 3) {
			g.svcs = g.svcs[:1] // one service: collisions on the shard set are the point
		}
		if len(g.shards) > 2 && r.Chance(1, 2) {
			g.shards = g.shards[:2]
		}
		atomic := func() {
			sk := wire.Pick(r, g.shards)
			k := wire.Pick(r, g.svcs)
			switch x := r.Intn(10); {
			case x < 5:
				out.Line(opLine(op{kind: "delsvc", sk: sk, k: k, preserve: r.Chance(1, 5)})...)
			case x < 6:
				out.Line(opLine(op{kind: "delshard", sk: sk})...)
			case x < 7:
				out.Line(opLine(op{kind: "prune", sk: sk, keep: wire.Subset(r, svcUniverse, 1, 3)})...)
			default:
				o := g.genOp()
				for o.kind != "upd" {
					o = g.genOp()
				}
				out.Line(opLine(o)...)
			}
		}
		for i, k := 0, r.Intn(3); i < k; i++ { // sequential prefix
			o := g.genOp()
			if o.kind == "upd" && len(o.eps) > 2 {
				o.eps = o.eps[:2]
			}
			out.Line(opLine(o)...)
		}
		nthreads := 1 + r.Intn(3)
		var active []string
		begun := 0
		steps := 3 + r.Intn(8)
		deletes := 0
		for i := 0; i < steps; i++ {
			if r.Chance(1, 6) && deletes < 2 {
				// a DeleteShard / PruneShard in its own goroutine, parked at each unlink; updates begun meanwhile
				// must wait for the index lock
				name := "D" + strconv.Itoa(deletes)
				deletes++
				sk := wire.Pick(r, g.shards)
				// sometimes an update is first parked in the slow path of its lookup (a service nobody has seen: the
				// read-locked lookup misses, the goroutine stops before e.mu.Lock()); stepped while the delete is in
				// flight it must wait for the index lock
				var slow []string
				if r.Chance(1, 3) && begun < nthreads+1 {
					tn := "T" + strconv.Itoa(begun)
					begun++
					out.Line("begin", tn, wire.Pick(r, g.shards).enc(), pair{"n" + strconv.Itoa(c%7) + ".com", "ns8"}.enc(), encEps([]*model.IstioEndpoint{genEp(r)}))
					active = append(active, tn)
					slow = append(slow, tn)
				}
				if r.Chance(1, 4) {
					// DeleteServiceShard (not preserving keys) in a goroutine of its own: it parks where it unlinks the
					// service's entry, holding the index lock
					sk = pair{"Mock", "c9"}
					k := pair{"d0.com", "ns9"}
					out.Line(opLine(op{kind: "upd", sk: sk, k: k, eps: []*model.IstioEndpoint{genEp(r)}})...)
					out.Line("dbegin", name, "delsvc", sk.enc(), k.enc(), "0")
				} else if r.Chance(1, 2) {
					// several services that only this registry knows: the delete unlinks (and parks at) each of them
					sk = pair{"Mock", "c9"}
					for j, m := 0, 2+r.Intn(2); j < m; j++ {
						out.Line(opLine(op{kind: "upd", sk: sk, k: pair{"d" + strconv.Itoa(j) + ".com", "ns9"}, eps: []*model.IstioEndpoint{genEp(r)}})...)
					}
					out.Line("dbegin", name, "delshard", sk.enc())
				} else if r.Chance(3, 4) {
					out.Line("dbegin", name, "delshard", sk.enc())
				} else {
					out.Line("dbegin", name, "prune", sk.enc(), encPairs(wire.Subset(r, svcUniverse, 1, 3)))
				}
				for j, m := 0, r.Intn(3); j < m && begun < nthreads+1; j++ {
					tn := "T" + strconv.Itoa(begun)
					begun++
					o := g.genOp()
					for o.kind != "upd" || len(o.eps) == 0 {
						o = g.genOp()
					}
					if len(o.eps) > 2 {
						o.eps = o.eps[:2]
					}
					out.Line("begin", tn, o.sk.enc(), o.k.enc(), encEps(o.eps))
					active = append(active, tn)
				}
				for _, tn := range slow {
					out.Line("step", tn) // blocked (if the delete is still in flight)
				}
				if len(active) > 0 && r.Chance(1, 4) {
					out.Line("step", wire.Pick(r, active)) // blocked if it is parked in the slow path, else refused
				}
				for j, m := 0, 1+r.Intn(3); j < m; j++ {
					out.Line("step", name)
				}
				if r.Chance(1, 6) {
					atomic() // usually refused (bad-op) while the delete is still parked
				}
				for j := 0; j < 4; j++ {
					out.Line("step", name)
				}
				continue
			}
			switch x := r.Intn(10); {
			case x < 4 && begun < nthreads:
				name := "T" + strconv.Itoa(begun)
				begun++
				o := g.genOp()
				for o.kind != "upd" {
					o = g.genOp()
				}
				if len(o.eps) > 2 {
					o.eps = o.eps[:2]
				}
				out.Line("begin", name, o.sk.enc(), o.k.enc(), encEps(o.eps))
				active = append(active, name)
			case x < 7 && len(active) > 0:
				j := r.Intn(len(active))
				out.Line("step", active[j])
				if r.Chance(1, 4) {
					active = append(active[:j], active[j+1:]...)
				}
			default:
				atomic()
			}
		}
		for len(active) > 0 {
			j := r.Intn(len(active))
			out.Line("step", active[j])
			if r.Chance(1, 3) {
				active = append(active[:j], active[j+1:]...)
			}
			if r.Chance(1, 4) {
				atomic()
			}
		}
		out.Line("end")
	}
}

// ---------------------------------------------------------------- property oracle (sched)
//
// Runs the scripted schedule on the real index and states the concurrent clause of the property
// directly, with no reference to the Lean model:
//   never-crashes        no goroutine panics or hangs;
//   delete-atomic        (assumption of the model, not a clause of the property) DeleteShard / PruneShard hold the
//                        index lock from start to end: no update begun meanwhile gets past its lookup;
//   new-service-full     an update that (re-)creates the service's entry returns FullPush;
//   report-lost          a registry's only report for a (service, registry) cell that no other
//                        operation of the case touches is in the final index;
//   non-linearizable     the final index equals the result of executing the operations one at a
//                        time, on a fresh real index, in some order compatible with their intervals.
// A failure is classified `lost-update:unlink-inside-update-window` exactly when some update's write
// landed on a shard set that a concurrent delete had unlinked between that update's lookup and its
// ep.Lock(), and the final index is linearizable once those updates are left out (they are lost in
// full and nothing else is wrong).

func touches(o op, k, sk pair) bool {
	switch o.kind {
	case "upd", "delsvc":
		return o.k == k && o.sk == sk
	case "delshard":
		return o.sk == sk
	case "prune":
		if o.sk != sk {
			return false
		}
		for _, p := range o.keep {
			if p == k {
				return false
			}
		}
		return true
	}
	return true
}

func oracleSched(in, outp string) {
	out := wire.Create(outp)
	defer out.Close()
	var s *schedSUT
	verdict := ""
	finish := func() {
		if s == nil {
			return
		}
		if s.dead {
			// a goroutine hangs (possibly holding the index lock): nothing more can be read
			if verdict == "" {
				verdict = "FAIL never-crashes goroutine-hangs"
			}
			if len(s.notAtomic) > 0 {
				verdict = "FAIL delete-atomic " + wire.Enc(strings.Join(s.notAtomic, ","))
			}
			out.Line(verdict)
			model.VerifC13SetGate(nil)
			return
		}
		s.finishDelete()
		s.noteEntryChanges(true)
		s.finishAll()
		final := showIndex(s.idx)
		got, _ := snapshotIndex(s.idx)
		v := "OK"
		lostOrphans := map[int]bool{}
		// the class of a lost update: F4 = an unlink ran inside the update's lookup->lock window; an orphan write
		// without any unlink in its window is a different defect (the entry was replaced by a non-delete)
		lostClause := "lost-update:unlink-inside-update-window"
		for _, t := range s.order {
			if t.orphan {
				lostOrphans[t.hid] = true
				stats["orphan-writes"]++
				if t.orphanNoUnlink {
					lostClause = "lost-update:entry-replaced-without-unlink"
				}
			}
			if !t.finished {
				v = "FAIL never-crashes goroutine-" + t.name + "-did-not-finish"
			}
		}
		if s.crashed {
			v = "FAIL never-crashes"
		}
		if v == "OK" && len(s.notAtomic) > 0 {
			v = "FAIL delete-atomic " + wire.Enc(strings.Join(s.notAtomic, ","))
		}
		if v == "OK" && len(s.newSvcNotFull) > 0 {
			v = "FAIL new-service-full " + wire.Enc(strings.Join(s.newSvcNotFull, ","))
		}
		if verdict != "" {
			v = verdict
		}
		if v == "OK" {
			// cell-level clause
			for _, h := range s.hist {
				if h.o.kind != "upd" || len(h.o.eps) == 0 {
					continue
				}
				alone := true
				for _, h2 := range s.hist {
					if h2.id != h.id && touches(h2.o, h.o.k, h.o.sk) {
						alone = false
					}
				}
				if !alone {
					continue
				}
				var want []string
				for _, e := range h.o.eps {
					want = append(want, encEp(e))
				}
				if strings.Join(got[h.o.k][h.o.sk], ";") != strings.Join(want, ";") {
					if s.lost > 0 && s.linearizable(final, lostOrphans) {
						v = "FAIL " + lostClause + " " + wire.Enc(h.o.k.enc()+" "+h.o.sk.enc())
					} else {
						v = "FAIL report-lost " + wire.Enc(h.o.k.enc()+" "+h.o.sk.enc())
					}
					break
				}
			}
		}
		if v == "OK" && !s.linearizable(final, nil) {
			if s.lost > 0 && s.linearizable(final, lostOrphans) {
				v = "FAIL " + lostClause
			} else {
				v = "FAIL non-linearizable " + wire.Enc(final)
			}
		}
		out.Line(v)
		s.close()
	}
	for _, f := range wire.ReadLines(in) {
		if f[0] == "case" {
			finish()
			s = newSchedSUT()
			verdict = ""
			continue
		}
		if s == nil {
			s = newSchedSUT()
		}
		if f[0] == "end" {
			continue // finish() does it
		}
		r := s.apply(f)
		switch {
		case strings.HasPrefix(r, "parked retry"):
			stats["update-retries-after-unlink"]++
		case strings.HasPrefix(r, "parked miss"):
			stats["parks-after-lookup-miss"]++
		case strings.HasPrefix(r, "parked"):
			stats["parks-after-lookup"]++
		case strings.HasPrefix(r, "blocked"):
			stats["updates-blocked-behind-delete"]++
		case strings.HasPrefix(r, "dparked"):
			stats["delete-parks-at-unlink"]++
		}
		if verdict == "" && (strings.HasPrefix(r, "crash") || strings.HasPrefix(r, "timeout") || strings.HasPrefix(r, "done crash")) {
			verdict = "FAIL never-crashes line=" + strconv.Itoa(s.line)
		}
	}
	finish()
}
