package main

// Stream `cla`: index operations plus membership queries. The queries go through the REAL
// xds.EdsGenerator.Generate of a pilot/test/xds FakeDiscoveryServer (real PushContext, SidecarScope,
// DestinationRules, mesh config, real XdsCache in front of endpoints.NewCDSEndpointBuilder(...).
// BuildClusterLoadAssignment(index)), on the server's own EndpointIndex, which the `upd`/`delsvc`/...
// lines fill through the real index API (and which invalidates that cache).
//
//	cla <svc> <ns> <port> <subset> <proxy> <unh>  <portName> <subsetLabels> <view> <proxyCluster>
//	    <clusterLocal> <nodeLocal> <proxyNode> <unhealthyOk> <persistent>
//
// The first six tokens name real objects; the remaining ones are what those objects amount to for
// the Lean model (written by the generator from its description of the world below).

import (
	"fmt"
	"math"
	"os"
	"sort"
	"strconv"
	"strings"
	"time"

	endpoint "github.com/envoyproxy/go-control-plane/envoy/config/endpoint/v3"

	meshconfig "istio.io/api/mesh/v1alpha1"
	networking "istio.io/api/networking/v1alpha3"
	"istio.io/istio/pilot/pkg/features"
	"istio.io/istio/pilot/pkg/model"
	"istio.io/istio/pilot/pkg/networking/util"
	pxds "istio.io/istio/pilot/pkg/xds"
	"istio.io/istio/pilot/pkg/xds/endpoints"
	v3 "istio.io/istio/pilot/pkg/xds/v3"
	txds "istio.io/istio/pilot/test/xds"
	"istio.io/istio/pkg/cluster"
	"istio.io/istio/pkg/config"
	"istio.io/istio/pkg/config/host"
	"istio.io/istio/pkg/config/mesh"
	"istio.io/istio/pkg/config/protocol"
	"istio.io/istio/pkg/config/schema/gvk"
	"istio.io/istio/pkg/network"
	"istio.io/istio/pkg/util/sets"
	"verifharness/internal/quiet"
	"verifharness/internal/wire"
)

type failer struct{ cleanups []func() }

func (f *failer) Fail()                          { panic("harness: Fail") }
func (f *failer) FailNow()                       { panic("harness: FailNow") }
func (f *failer) Fatal(args ...any)              { panic(fmt.Sprint(args...)) }
func (f *failer) Fatalf(format string, a ...any) { panic(fmt.Sprintf(format, a...)) }
func (f *failer) Log(args ...any)                {}
func (f *failer) Logf(format string, a ...any)   {}
func (f *failer) TempDir() string                { d, _ := os.MkdirTemp("", "c13"); return d }
func (f *failer) Helper()                        {}
func (f *failer) Cleanup(fn func())              { f.cleanups = append(f.cleanups, fn) }
func (f *failer) Skip(args ...any)               {}
func (f *failer) done() {
	for i := len(f.cleanups) - 1; i >= 0; i-- {
		f.cleanups[i]()
	}
	f.cleanups = nil
}

// ---------------------------------------------------------------- the world

const claNs = "ns1"

type svcDesc struct {
	name         string
	clusterLocal bool
	nodeLocal    bool
	persistent   bool
}

var claSvcs = []svcDesc{
	{name: "a"},
	{name: "p", persistent: true},
	{name: "l", clusterLocal: true},
	{name: "n", nodeLocal: true},
}

func svcHost(name string) string { return name + ".ns1.svc.cluster.local" }

type proxyDesc struct {
	name    string
	cluster string
	network string
	node    string
	view    []string
}

var claProxies = []proxyDesc{
	{name: "p1", cluster: "c1", network: "", node: "node1"},
	{name: "p2", cluster: "c2", network: "n1", node: "node2", view: []string{"n1"}},
	{name: "p3", cluster: "", network: "n2", node: "", view: []string{"n2"}},
}

var claSubsets = map[string]map[string]string{
	"v1":  {"version": "v1"},
	"v2":  {"version": "v2"},
	"app": {"app": "a"},
	"all": {},
}

var claPorts = map[int]string{80: "http", 81: "grpc"}

type claWorld struct {
	f       *failer
	s       *txds.FakeDiscoveryServer
	proxies map[string]*model.Proxy
	lastUnh bool
}

func newClaWorld() *claWorld {
	f := &failer{}
	m := mesh.DefaultMeshConfig()
	m.ServiceSettings = []*meshconfig.MeshConfig_ServiceSettings{{
		Settings: &meshconfig.MeshConfig_ServiceSettings_Settings{ClusterLocal: true},
		Hosts:    []string{svcHost("l")},
	}}
	var svcs []*model.Service
	var cfgs []config.Config
	for i, d := range claSvcs {
		labels := map[string]string{}
		if d.persistent {
			labels[features.PersistentSessionLabel] = "cookie"
		}
		svcs = append(svcs, &model.Service{
			Hostname:       host.Name(svcHost(d.name)),
			DefaultAddress: "10.1.0." + strconv.Itoa(i+1),
			Ports: model.PortList{
				{Name: "http", Port: 80, Protocol: protocol.HTTP},
				{Name: "grpc", Port: 81, Protocol: protocol.GRPC},
			},
			Resolution: model.ClientSideLB,
			Attributes: model.ServiceAttributes{Name: d.name, Namespace: claNs, Labels: labels, K8sAttributes: model.K8sAttributes{NodeLocal: d.nodeLocal}},
		})
		var subsets []*networking.Subset
		for _, n := range []string{"v1", "v2", "app", "all"} {
			subsets = append(subsets, &networking.Subset{Name: n, Labels: claSubsets[n]})
		}
		cfgs = append(cfgs, config.Config{
			Meta: config.Meta{GroupVersionKind: gvk.DestinationRule, Name: "dr-" + d.name, Namespace: claNs},
			Spec: &networking.DestinationRule{Host: svcHost(d.name), Subsets: subsets},
		})
	}
	s := txds.NewFakeDiscoveryServer(f, txds.FakeOptions{Services: svcs, Configs: cfgs, MeshConfig: m})
	quiet.Silence()
	w := &claWorld{f: f, s: s, proxies: map[string]*model.Proxy{}}
	for i, d := range claProxies {
		w.proxies[d.name] = s.SetupProxy(&model.Proxy{
			Type:            model.SidecarProxy,
			ID:              d.name + "." + claNs,
			ConfigNamespace: claNs,
			IPAddresses:     []string{"10.9.9." + strconv.Itoa(i+1)},
			Metadata: &model.NodeMetadata{
				Namespace: claNs, ClusterID: cluster.ID(d.cluster), Network: network.ID(d.network),
				NodeName: d.node, RequestedNetworkView: d.view,
			},
		})
	}
	return w
}

func (w *claWorld) index() *model.EndpointIndex { return w.s.Discovery.Env.EndpointIndex }

// reset empties the server's index for the services of this world.
func (w *claWorld) reset() {
	idx := w.index()
	for svc, byNs := range idx.Shardz() {
		for ns, es := range byNs {
			for sk := range es.Shards {
				idx.DeleteServiceShard(sk, svc, ns, false)
			}
			idx.DeleteServiceShard(model.ShardKey{}, svc, ns, false)
		}
	}
}

func showCLA(cla *endpoint.ClusterLoadAssignment) string {
	if len(cla.GetEndpoints()) == 0 {
		return "cla -"
	}
	var groups []string
	for _, g := range cla.Endpoints {
		var eps []string
		for _, le := range g.LbEndpoints {
			a := le.GetEndpoint().GetAddress()
			addr := ""
			if sa := a.GetSocketAddress(); sa != nil {
				addr = wire.Enc(sa.GetAddress()) + ":" + strconv.Itoa(int(sa.GetPortValue()))
			} else if p := a.GetPipe(); p != nil {
				addr = "pipe:" + wire.Enc(p.GetPath())
			} else {
				addr = "other:" + wire.Enc(a.String())
			}
			eps = append(eps, fmt.Sprintf("%s/h%d/w%d", addr, int(le.HealthStatus), le.GetLoadBalancingWeight().GetValue()))
		}
		groups = append(groups, fmt.Sprintf("%s{w=%d;p=%d;%s}", wire.Enc(util.LocalityToString(g.Locality)),
			g.GetLoadBalancingWeight().GetValue(), g.Priority, strings.Join(eps, ",")))
	}
	return "cla " + strings.Join(groups, " ")
}

type claQuery struct {
	svc, ns string
	port    int
	subset  string
	proxy   string
	unh     bool
}

func parseQuery(f []string) (claQuery, bool) {
	if len(f) != 16 {
		return claQuery{}, false
	}
	return claQuery{svc: wire.Dec(f[1]), ns: wire.Dec(f[2]), port: atoi(f[3]), subset: wire.Dec(f[4]), proxy: f[5], unh: f[6] == "1"}, true
}

// query returns what the proxy is SERVED: the resource produced by the real EdsGenerator (with the
// server's real XdsCache in front of the builder). `direct`, if not nil, receives the assignment
// built directly from the current index (no cache) for the oracle's served-is-current clause.
func (w *claWorld) query(q claQuery, direct **endpoint.ClusterLoadAssignment) *endpoint.ClusterLoadAssignment {
	p := w.proxies[q.proxy]
	if p == nil {
		return nil
	}
	if q.unh != w.lastUnh {
		// the flag is a process-wide environment setting that the cache key does not (need to) contain:
		// changing it stands for a restart of istiod
		w.s.Discovery.Env.Cache.ClearAll()
		w.lastUnh = q.unh
	}
	// whether unhealthy endpoints are served is a process-wide default (PILOT_AUTO_SEND_UNHEALTHY_ENDPOINTS,
	// on by default) unless a DestinationRule sets outlierDetection.minHealthPercent; the query picks it
	prev := features.DefaultSendUnhealthyEndpoints.Load()
	features.DefaultSendUnhealthyEndpoints.Store(q.unh)
	defer features.DefaultSendUnhealthyEndpoints.Store(prev)
	name := model.BuildSubsetKey(model.TrafficDirectionOutbound, q.subset, host.Name(q.svc), q.port)
	if direct != nil {
		b := endpoints.NewEndpointBuilder(name, p, w.s.PushContext())
		*direct = b.BuildClusterLoadAssignment(w.index())
	}
	// wired as in pilot/pkg/bootstrap (InitGenerators): generator cache == the cache the index invalidates.
	// (The fake server itself pairs its generator with the cache of a different Environment.)
	env := w.s.Discovery.Env
	gen := &pxds.EdsGenerator{Cache: env.Cache, EndpointIndex: env.EndpointIndex}
	res, _, err := gen.Generate(p, &model.WatchedResource{TypeUrl: v3.EndpointType, ResourceNames: sets.New(name)},
		&model.PushRequest{Forced: true, Push: w.s.PushContext(), Start: time.Now()})
	if err != nil || len(res) != 1 {
		return nil
	}
	cla := &endpoint.ClusterLoadAssignment{}
	if err := res[0].GetResource().UnmarshalTo(cla); err != nil {
		return nil
	}
	return cla
}

type claSUT struct {
	w *claWorld
	s *sut // index ops run on the world's index, with a throw-away recorder for the cache column
}

func (c *claSUT) apply(f []string) (out string) {
	defer func() {
		if r := recover(); r != nil {
			out = "crash"
		}
	}()
	if f[0] == "case" {
		c.w.reset()
		return "ok"
	}
	if f[0] == "cla" {
		q, ok := parseQuery(f)
		if !ok {
			return "bad-op"
		}
		cla := c.w.query(q, nil)
		if cla == nil {
			return "bad-op"
		}
		return showCLA(cla)
	}
	o, ok := parseOp(f)
	if !ok {
		return "bad-op"
	}
	idx := c.w.index()
	var p string
	switch o.kind {
	case "upd":
		p = pushTok(idx.UpdateServiceEndpoints(shardKey(o.sk), o.k.a, o.k.b, o.eps, true))
	case "delsvc":
		idx.DeleteServiceShard(shardKey(o.sk), o.k.a, o.k.b, o.preserve)
		p = "-"
	case "delshard":
		idx.DeleteShard(shardKey(o.sk))
		p = "-"
	case "prune":
		idx.PruneShard(shardKey(o.sk), keepMap(o.keep))
		p = "-"
	}
	return p + " | " + showIndex(idx)
}

func execCla(in, outp string) {
	out := wire.Create(outp)
	defer out.Close()
	c := &claSUT{w: newClaWorld()}
	defer c.w.f.done()
	for _, f := range wire.ReadLines(in) {
		out.Line(c.apply(f))
		out.Flush()
	}
}

// ---------------------------------------------------------------- generator

func genClaEp(r *wire.Rng) *model.IstioEndpoint {
	e := genEp(r)
	e.Namespace = claNs
	e.ServicePortName = wire.Pick(r, []string{"http", "http", "http", "http", "http", "grpc"})
	e.EndpointPort = uint32(wire.Pick(r, []int{8080, 8080, 8080, 9090}))
	e.LegacyClusterPortKey = 0
	e.HealthStatus = model.HealthStatus(wire.Pick(r, []int{1, 1, 1, 1, 1, 1, 1, 1, 2, 2, 3, 4, 0}))
	e.Locality.ClusterID = cluster.ID(wire.Pick(r, []string{"c1", "c1", "c1", "c2", ""}))
	e.Network = network.ID(wire.Pick(r, []string{"", "", "", "n1", "n2"}))
	e.NodeName = wire.Pick(r, []string{"node1", "node1", "node2", ""})
	if len(e.Addresses) == 0 && !r.Chance(1, 4) {
		e.Addresses = []string{wire.Pick(r, addrUniverse)}
	}
	switch r.Intn(40) {
	case 0:
		e.Addresses = []string{"backend.example.com"} // not an IP: dropped
	case 1:
		e.Addresses = []string{""} // to be replaced by a gateway address in multi-network meshes
	case 2:
		e.Addresses, e.EndpointPort = []string{"/var/run/app.sock"}, 0 // unix domain socket
	}
	if r.Chance(1, 25) {
		e.LbWeight = math.MaxUint32 - uint32(r.Intn(2))
	}
	if r.Chance(1, 15) {
		if e.Labels == nil {
			e.Labels = map[string]string{}
		}
		e.Labels[features.DrainingLabel] = wire.Pick(r, []string{"true", "true", ""})
	}
	return e
}

func genCla(seed uint64, n int, outp string) {
	out := wire.Create(outp)
	defer out.Close()
	root := wire.NewRng(seed ^ 0xC1A13)
	shards := []pair{{"Kubernetes", "c1"}, {"Kubernetes", "c2"}, {"External", "c1"}, {"External", ""}}
	for c := 0; c < n; c++ {
		r := root.Fork()
		out.Line("case", strconv.Itoa(c), "cla")
		d := wire.Pick(r, append([]svcDesc{claSvcs[0], claSvcs[0], claSvcs[1]}, claSvcs...))
		k := pair{svcHost(d.name), claNs}
		last := map[pair][]*model.IstioEndpoint{}
		nops := 1 + r.Intn(5)
		for i := 0; i < nops; i++ {
			sk := wire.Pick(r, shards)
			switch x := r.Intn(12); {
			case x < 9:
				var eps []*model.IstioEndpoint
				if len(last[sk]) > 0 && r.Chance(1, 2) {
					eps = mutate(r, last[sk])
					for _, e := range eps {
						e.Namespace = claNs
					}
				} else {
					for j, m := 0, 2+r.Intn(5); j < m; j++ {
						eps = append(eps, genClaEp(r))
					}
				}
				if r.Chance(1, 12) {
					eps = nil
				}
				last[sk] = eps
				out.Line(opLine(op{kind: "upd", sk: sk, k: k, eps: eps})...)
			case x < 10:
				out.Line(opLine(op{kind: "delsvc", sk: sk, k: k, preserve: r.Chance(1, 2)})...)
				last[sk] = nil
			case x < 11:
				out.Line(opLine(op{kind: "delshard", sk: sk})...)
				last[sk] = nil
			default:
				out.Line(opLine(op{kind: "prune", sk: sk, keep: nil})...)
				last[sk] = nil
			}
			if r.Chance(1, 3) || i == nops-1 {
				for j, m := 0, 1+r.Intn(3); j < m; j++ {
					out.Line(genQuery(r, d)...)
				}
			}
		}
	}
}

func genQuery(r *wire.Rng, d svcDesc) []string {
	port := wire.Pick(r, []int{80, 80, 80, 80, 80, 80, 81, 99})
	subset := wire.Pick(r, []string{"", "", "", "v1", "v2", "app", "all", "zz"})
	p := wire.Pick(r, append([]proxyDesc{claProxies[0], claProxies[0]}, claProxies...))
	unh := r.Chance(1, 3)
	portName := "!"
	if n, ok := claPorts[port]; ok {
		portName = wire.Enc(n)
	}
	return []string{
		"cla", wire.Enc(svcHost(d.name)), claNs, strconv.Itoa(port), wire.Enc(subset), p.name, wire.B(unh),
		portName, encLabels(claSubsets[subset]), wire.EncList(p.view), wire.Enc(p.cluster),
		wire.B(d.clusterLocal), wire.B(d.nodeLocal), wire.Enc(p.node), wire.B(unh), wire.B(d.persistent),
	}
}

// ---------------------------------------------------------------- property oracle (cla)
//
// States the membership clause of the property directly on the real ClusterLoadAssignment, with an
// independent filter written from the property statement (not from the builder's code, and with no
// reference to the Lean model): the CLA contains, each exactly once, the endpoints last reported by
// every registry for the service that are on the cluster's port, carry the subset's labels, are
// healthy (or allowed unhealthy), not terminating, draining only for persistent-session services,
// discoverable from and visible to the proxy, inside the proxy's cluster / node for cluster-local /
// node-local services, and have a usable address; grouped by locality, group weight = saturating
// sum of endpoint weights (each >= 1).

type wantEp struct {
	loc string
	tok string
}

func sameOrEmpty(a, b string) bool { return a == "" || b == "" || a == b }

func oracleMember(q claQuery, d svcDesc, p proxyDesc, sk pair, e *model.IstioEndpoint) bool {
	if e.ServicePortName != claPorts[q.port] {
		return false
	}
	for k, v := range claSubsets[q.subset] {
		if got, ok := e.Labels[k]; !ok || got != v {
			return false
		}
	}
	drainingLabel := e.Labels[features.DrainingLabel] != ""
	switch {
	case e.HealthStatus == model.UnHealthy && !q.unh:
		return false
	case e.HealthStatus == model.Terminating:
		return false
	case (e.HealthStatus == model.Draining || drainingLabel) && !d.persistent:
		return false
	}
	if e.DiscoverabilityPolicy == model.DiscoverableFromSameCluster && !sameOrEmpty(string(e.Locality.ClusterID), p.cluster) {
		return false
	}
	if len(p.view) > 0 && e.Network != "" {
		seen := false
		for _, n := range p.view {
			if n == string(e.Network) {
				seen = true
			}
		}
		if !seen {
			return false
		}
	}
	if d.clusterLocal && (string(e.Locality.ClusterID) != p.cluster || sk.b != p.cluster) {
		return false
	}
	if d.nodeLocal && (e.NodeName != p.node || sk.b != p.cluster) {
		return false
	}
	a := e.Addresses[0]
	if a != "" && e.EndpointPort != 0 && strings.ContainsAny(a, "ghijklmnopqrstuvwxyz") {
		return false // a host name, not an address
	}
	return true
}

func oracleCla(in, outp string) {
	out := wire.Create(outp)
	defer out.Close()
	c := &claSUT{w: newClaWorld()}
	defer c.w.f.done()
	verdict, open, idx := "", false, 0
	want := map[pair]map[pair][]*model.IstioEndpoint{}
	flush := func() {
		if open {
			if verdict == "" {
				verdict = "OK"
			}
			out.Line(verdict)
		}
	}
	fail := func(clause, detail string) {
		if verdict == "" {
			verdict = fmt.Sprintf("FAIL %s op=%d %s", clause, idx, wire.Enc(detail))
		}
	}
	for _, f := range wire.ReadLines(in) {
		if f[0] == "case" {
			flush()
			c.apply(f)
			want = map[pair]map[pair][]*model.IstioEndpoint{}
			verdict, open, idx = "", true, 0
			continue
		}
		idx++
		if f[0] != "cla" {
			o, ok := parseOp(f)
			if !ok {
				continue
			}
			if c.apply(f) == "crash" {
				fail("never-crashes", strings.Join(f, " "))
			}
			switch o.kind {
			case "upd":
				if want[o.k] == nil {
					want[o.k] = map[pair][]*model.IstioEndpoint{}
				}
				if len(o.eps) == 0 {
					delete(want[o.k], o.sk)
				} else {
					want[o.k][o.sk] = o.eps
				}
			case "delsvc":
				delete(want[o.k], o.sk)
			case "delshard":
				for k := range want {
					delete(want[k], o.sk)
				}
			case "prune":
				kept := map[pair]bool{}
				for _, p := range o.keep {
					kept[p] = true
				}
				for k := range want {
					if !kept[k] {
						delete(want[k], o.sk)
					}
				}
			}
			continue
		}
		q, ok := parseQuery(f)
		if !ok {
			continue
		}
		var d svcDesc
		for _, x := range claSvcs {
			if svcHost(x.name) == q.svc {
				d = x
			}
		}
		var p proxyDesc
		for _, x := range claProxies {
			if x.name == q.proxy {
				p = x
			}
		}
		noAddr := false
		for _, eps := range want[pair{q.svc, q.ns}] {
			for _, e := range eps {
				if len(e.Addresses) == 0 && e.ServicePortName == claPorts[q.port] {
					noAddr = true // an endpoint without any address is outside the builder's contract
				}
			}
		}
		if noAddr {
			continue
		}
		var cla, direct *endpoint.ClusterLoadAssignment
		func() {
			defer func() {
				if r := recover(); r != nil {
					fail("never-crashes", strings.Join(f[:7], " "))
				}
			}()
			cla = c.w.query(q, &direct)
		}()
		if cla == nil {
			continue
		}
		if direct != nil && showCLA(direct) != showCLA(cla) {
			fail("served-is-current", fmt.Sprintf("%s: generator serves %s, index has %s", strings.Join(f[1:7], " "), showCLA(cla), showCLA(direct)))
		}
		// expected members, by locality
		exp := map[string][]string{}
		expW := map[string]uint64{}
		if _, ok := claPorts[q.port]; ok {
			for sk, eps := range want[pair{q.svc, q.ns}] {
				for _, e := range eps {
					if !oracleMember(q, d, p, sk, e) {
						continue
					}
					w := uint64(e.LbWeight)
					if w == 0 {
						w = 1
					}
					h := int(e.HealthStatus)
					if e.Labels[features.DrainingLabel] != "" {
						h = int(model.Draining)
					}
					addr := wire.Enc(e.Addresses[0]) + ":" + strconv.Itoa(int(e.EndpointPort))
					if e.EndpointPort == 0 {
						addr = "pipe:" + wire.Enc(e.Addresses[0])
					}
					exp[e.Locality.Label] = append(exp[e.Locality.Label], fmt.Sprintf("%s/h%d/w%d", addr, h, w))
					expW[e.Locality.Label] += w
				}
			}
		}
		got := map[string][]string{}
		seenLoc := map[string]bool{}
		for _, g := range cla.GetEndpoints() {
			loc := util.LocalityToString(g.Locality)
			if seenLoc[loc] {
				fail("grouped-by-locality", "locality "+loc+" appears twice")
			}
			seenLoc[loc] = true
			var sum uint64
			for _, le := range g.LbEndpoints {
				a := le.GetEndpoint().GetAddress()
				addr := "pipe:" + wire.Enc(a.GetPipe().GetPath())
				if sa := a.GetSocketAddress(); sa != nil {
					addr = wire.Enc(sa.GetAddress()) + ":" + strconv.Itoa(int(sa.GetPortValue()))
				}
				w := le.GetLoadBalancingWeight().GetValue()
				if w == 0 {
					fail("weights-consistent", "endpoint weight 0")
				}
				sum += uint64(w)
				got[loc] = append(got[loc], fmt.Sprintf("%s/h%d/w%d", addr, int(le.HealthStatus), w))
			}
			if sum > math.MaxUint32 {
				sum = math.MaxUint32
			}
			if uint64(g.GetLoadBalancingWeight().GetValue()) != sum {
				fail("weights-consistent", fmt.Sprintf("locality %s weight %d, endpoints sum to %d", loc, g.GetLoadBalancingWeight().GetValue(), sum))
			}
			if len(g.LbEndpoints) == 0 {
				fail("grouped-by-locality", "empty locality group "+loc)
			}
		}
		locs := map[string]bool{}
		for l := range exp {
			locs[l] = true
		}
		for l := range got {
			locs[l] = true
		}
		for l := range locs {
			a, b := append([]string{}, exp[l]...), append([]string{}, got[l]...)
			sort.Strings(a)
			sort.Strings(b)
			if strings.Join(a, ",") != strings.Join(b, ",") {
				fail("membership-exact", fmt.Sprintf("%s locality %q: want %v got %v", strings.Join(f[1:7], " "), l, a, b))
			}
		}
	}
	flush()
}
