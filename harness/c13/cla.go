package main

// Stream `cla`: what a proxy is SERVED.  Index operations go through the REAL entry points of the
// DiscoveryServer of a pilot/test/xds FakeDiscoveryServer (`EDSUpdate`, `SvcUpdate`, `RemoveShard`,
// `PruneShard`); the PushRequest that `EDSUpdate` hands to `ConfigUpdate` is taken from the server's push
// channel and merged per proxy (`PushRequest.CopyMerge`).  A `push` line runs
// the REAL xds.EdsGenerator (`Generate` or `GenerateDeltas`) for one proxy with exactly that merged,
// NON-forced request over all the clusters the proxy watches - so the push-type -> ConfigsUpdated
// mapping, the partial-push selection (edsUpdatedServices / affectedService), the XdsCache and
// `BuildClusterLoadAssignment` (incl. `EndpointsByNetworkFilter` in the multi-network world) decide
// what the proxy holds afterwards.  The line prints the proxy's assignment for every watched cluster.
//
//	case <n> cla <world> <unh>
//	upd|delsvc|delshard|prune ...
//	push <proxy> <mode> <view> <proxyCluster> <proxyNode> <proxyNetwork> <gateways> <query>...
//	     query = svc|ns|port|subset|portName|subsetLabels|clusterLocal|nodeLocal|unhealthyOk|persistent
//
// In a push line the tokens after <mode> are what the named real objects amount to for the Lean
// model (written by the generator from its description of the worlds below).

import (
	"context"
	"errors"
	"fmt"
	"math"
	"net/netip"
	"os"
	"reflect"
	"sort"
	"strconv"
	"strings"
	"time"
	"unsafe"

	endpoint "github.com/envoyproxy/go-control-plane/envoy/config/endpoint/v3"
	discovery "github.com/envoyproxy/go-control-plane/envoy/service/discovery/v3"
	"google.golang.org/grpc/metadata"
	"google.golang.org/protobuf/types/known/wrapperspb"

	meshconfig "istio.io/api/mesh/v1alpha1"
	networking "istio.io/api/networking/v1alpha3"
	securityapi "istio.io/api/security/v1beta1"
	"istio.io/istio/pilot/pkg/features"
	"istio.io/istio/pilot/pkg/model"
	"istio.io/istio/pilot/pkg/networking/util"
	pxds "istio.io/istio/pilot/pkg/xds"
	"istio.io/istio/pilot/pkg/xds/endpoints"
	v3 "istio.io/istio/pilot/pkg/xds/v3"
	txds "istio.io/istio/pilot/test/xds"
	"istio.io/istio/pkg/cluster"
	"istio.io/istio/pkg/config"
	"istio.io/istio/pkg/config/host"
	"istio.io/istio/pkg/config/mesh"
	"istio.io/istio/pkg/config/protocol"
	"istio.io/istio/pkg/config/schema/gvk"
	"istio.io/istio/pkg/config/schema/kind"
	"istio.io/istio/pkg/kube/krt"
	"istio.io/istio/pkg/network"
	"istio.io/istio/pkg/util/sets"
	"verifharness/internal/quiet"
	"verifharness/internal/wire"
)

type failer struct{ cleanups []func() }

func (f *failer) Fail()                          { panic("harness: Fail") }
func (f *failer) FailNow()                       { panic("harness: FailNow") }
func (f *failer) Fatal(args ...any)              { panic(fmt.Sprint(args...)) }
func (f *failer) Fatalf(format string, a ...any) { panic(fmt.Sprintf(format, a...)) }
func (f *failer) Log(args ...any)                {}
func (f *failer) Logf(format string, a ...any)   {}
func (f *failer) TempDir() string                { d, _ := os.MkdirTemp("", "c13"); return d }
func (f *failer) Helper()                        {}
func (f *failer) Cleanup(fn func())              { f.cleanups = append(f.cleanups, fn) }
func (f *failer) Skip(args ...any)               {}
func (f *failer) done() {
	for i := len(f.cleanups) - 1; i >= 0; i-- {
		f.cleanups[i]()
	}
	f.cleanups = nil
}

// ---------------------------------------------------------------- the worlds

const claNs = "ns1"

type svcDesc struct {
	name         string
	clusterLocal bool
	nodeLocal    bool
	persistent   bool
	minHealth    bool // DestinationRule outlierDetection.minHealthPercent > 0: unhealthy endpoints never served
	distribute   bool // DestinationRule localityLbSetting.distribute (distRules)
	dns          bool // resolution DNS: never an EDS cluster, whatever the index holds (findShards IsDNSCluster)
	missing      bool // no such service in the registry (svc == nil paths)
}

var claSvcs = []svcDesc{
	{name: "a"},
	{name: "p", persistent: true},
	{name: "l", clusterLocal: true},
	{name: "n", nodeLocal: true},
	{name: "m", minHealth: true},
	{name: "w", distribute: true},
	{name: "d", dns: true},
	{name: "x", missing: true},
}

// The locality-weight rules of service w's DestinationRule (localityLbSetting.distribute).  The `to` patterns
// of one rule do not overlap: Go iterates that map in random order, with disjoint patterns the order is
// irrelevant.  Variant 1 (after `drset w 1`) changes sources, targets and weights.
type distTo struct {
	pat string
	w   uint32
}

type distRule struct {
	from string
	to   []distTo
}

func distRules(variant int) []distRule {
	switch variant {
	case 0:
		return []distRule{
			{"r1/z1/*", []distTo{{"r1/z1/*", 70}, {"r1/z2/*", 30}}},
			{"r2/*", []distTo{{"r2/z1/s1", 100}}},
		}
	case 1:
		// (the second rule names every locality, also none at all: only the FIRST matching rule is applied)
		return []distRule{
			{"r1/*", []distTo{{"r1/z1/s1", 50}, {"r1/z1/s2", 10}, {"r2/*", 40}}},
			{"*", []distTo{{"r3/*", 100}}},
		}
	}
	return nil
}

// A traffic policy as far as the endpoint builder reads it (getSubsetTrafficPolicy -> outlier detection and
// load-balancer settings).  Every policy with outlier detection also switches locality load balancing off, so
// that failover priorities stay out of the picture.
type polDesc struct {
	set       bool  // the policy exists
	outlier   bool  // outlierDetection present ...
	minHealth int32 // ... with this minHealthPercent (> 0: unhealthy endpoints are never served by default)
	lb        int   // 0: no loadBalancer field; 1: localityLbSetting.enabled = false; 2: localityLbSetting.distribute = dist
	dist      []distRule
}

// A DestinationRule's policies: rule level, the rule level's portLevelSettings, subset level.
type drDesc struct {
	top     polDesc
	topPort map[int]polDesc
	subsets map[string]polDesc
}

// the distribute rules of subset v2 of service w (they replace the rule-level ones for that subset)
var distRulesV2 = []distRule{
	{"r1/*", []distTo{{"r1/z2/*", 100}}},
	{"r2/*", []distTo{{"r1/*", 60}, {"r2/*", 40}}},
}

// drOf: the world's DestinationRules.  a: nothing at rule level, port 81 and subset v2 demand a minimum health
// percentage; m: rule level demands one, port 81 (port-level settings do not inherit) and subset v1 (overrides it
// with 0) do not; w: distribute at rule level, none on port 81, other rules for subset v2.
func drOf(d svcDesc, variant int) drDesc {
	switch {
	case d.name == "a":
		return drDesc{
			top:     polDesc{set: true},
			topPort: map[int]polDesc{81: {set: true, outlier: true, minHealth: 20, lb: 1}},
			subsets: map[string]polDesc{"v2": {set: true, outlier: true, minHealth: 30, lb: 1}},
		}
	case d.minHealth:
		return drDesc{
			top:     polDesc{set: true, outlier: true, minHealth: 50, lb: 1},
			topPort: map[int]polDesc{81: {set: true}},
			subsets: map[string]polDesc{"v1": {set: true, outlier: true, minHealth: 0, lb: 1}},
		}
	case d.distribute:
		return drDesc{
			top:     polDesc{set: true, lb: 2, dist: distRules(variant)},
			topPort: map[int]polDesc{81: {set: true}},
			subsets: map[string]polDesc{"v2": {set: true, lb: 2, dist: distRulesV2}},
		}
	}
	return drDesc{}
}

// effPolicy: the policy in force for a subset and port, written from the DestinationRule API documentation:
// port-level settings replace the destination-level ones for their port (nothing is inherited); a subset-level
// policy overrides, field by field, what it sets.  variant -1: the rule does not exist.
func effPolicy(d svcDesc, variant int, subset string, port int) polDesc {
	if variant == -1 {
		return polDesc{}
	}
	dr := drOf(d, variant)
	base := dr.top
	if pp, ok := dr.topPort[port]; ok && dr.top.set {
		base = pp
	}
	sub, ok := dr.subsets[subset]
	if !ok || !sub.set {
		return base
	}
	if !base.set {
		return sub
	}
	m := base
	if sub.outlier {
		m.outlier, m.minHealth = true, sub.minHealth
	}
	if sub.lb != 0 {
		m.lb, m.dist = sub.lb, sub.dist
	}
	return m
}

func encDist(rules []distRule) string {
	if len(rules) == 0 {
		return "-"
	}
	var rs []string
	for _, r := range rules {
		var ts []string
		for _, t := range r.to {
			ts = append(ts, wire.Enc(t.pat)+"^"+strconv.Itoa(int(t.w)))
		}
		rs = append(rs, wire.Enc(r.from)+">"+strings.Join(ts, "&"))
	}
	return strings.Join(rs, ";")
}

func svcByHost(h string) svcDesc {
	for _, d := range claSvcs {
		if svcHost(d.name) == h {
			return d
		}
	}
	return svcDesc{}
}

func svcHost(name string) string { return name + ".ns1.svc.cluster.local" }

type proxyDesc struct {
	name    string
	cluster string
	network string
	node    string
	view    []string
	ips     []string // default: one IPv4 address
	// locality of the proxy (region/zone/subzone), "" = none
	locality string
	router   bool // a gateway (model.Router) instead of a sidecar; single-network world only
}

// p5..p11 and p13 differ from p1 in exactly one component of what the builder (and therefore the XdsCache key
// of an assignment) depends on: cluster, node, network view, IP family (v6 only), IP family (dual stack),
// locality (two of them), node type.
var claProxies = []proxyDesc{
	{name: "p1", cluster: "c1", network: "", node: "node1"},
	{name: "p2", cluster: "c2", network: "n1", node: "node2", view: []string{"n1"}},
	{name: "p3", cluster: "", network: "n2", node: "", view: []string{"n2"}},
	{name: "p4", cluster: "c1", network: "n1", node: "node1"},
	{name: "p5", cluster: "c2", network: "", node: "node1"},
	{name: "p6", cluster: "c1", network: "", node: "node2"},
	{name: "p7", cluster: "c1", network: "", node: "node1", view: []string{"n1"}},
	{name: "p8", cluster: "c1", network: "", node: "node1", ips: []string{"fd00:9::8"}},
	{name: "p9", cluster: "c1", network: "", node: "node1", ips: []string{"10.9.9.9", "fd00:9::9"}},
	{name: "p10", cluster: "c1", network: "", node: "node1", locality: "r1/z1/s1"},
	{name: "p11", cluster: "c1", network: "", node: "node1", locality: "r2/z1/s1"},
	{name: "p12", cluster: "c2", network: "n1", node: "node2", locality: "r1/z2/s1"},
	{name: "p13", cluster: "c1", network: "", node: "node1", router: true},
}

func (p proxyDesc) ipmode() string {
	v4, v6 := len(p.ips) == 0, false
	for _, a := range p.ips {
		if strings.Contains(a, ":") {
			v6 = true
		} else {
			v4 = true
		}
	}
	m := ""
	if v4 {
		m += "4"
	}
	if v6 {
		m += "6"
	}
	return m
}

func proxyByName(n string) proxyDesc {
	for _, p := range claProxies {
		if p.name == n {
			return p
		}
	}
	return proxyDesc{}
}

var claSubsets = map[string]map[string]string{
	"v1":  {"version": "v1"},
	"v2":  {"version": "v2"},
	"app": {"app": "a"},
	"all": {},
}

// the subset labels after a `drset <svc> 1` (a DestinationRule update that re-labels the subsets)
var claSubsetsAlt = map[string]map[string]string{
	"v1":  {"version": "v2"},
	"v2":  {"version": "v1"},
	"app": {"app": "a", "version": "v1"},
	"all": {},
}

// variant 0: the original rule; 1: subsets re-labelled; -1: the service has no DestinationRule (deleted)
func subsetLabels(variant int, name string) map[string]string {
	if variant == -1 {
		return nil
	}
	if variant == 1 {
		return claSubsetsAlt[name]
	}
	return claSubsets[name]
}

var claPorts = map[int]string{80: "http", 81: "grpc"}

// gateways of world 1 (multi-network). n1: c1 has one mTLS gateway plus an ambient-only one (no mTLS
// port), c2 has its own (so the network+cluster preference of selectNetworkGateways differs from the
// per-network list); n2/c2: two gateways (weights are split); n3/c3: one IPv6 gateway and one
// IPv4-mapped IPv6 address (reachable for IPv4 proxies after Unmap).
var claGateways = []model.NetworkGateway{
	{Network: "n1", Cluster: "c1", Addr: "1.1.1.1", Port: 15443},
	{Network: "n1", Cluster: "c1", Addr: "1.1.1.9", Port: 0, HBONEPort: 15008},
	{Network: "n1", Cluster: "c2", Addr: "1.1.2.1", Port: 15443},
	{Network: "n2", Cluster: "c2", Addr: "2.2.2.2", Port: 15443},
	{Network: "n2", Cluster: "c2", Addr: "2.2.2.3", Port: 15443},
	{Network: "n3", Cluster: "c3", Addr: "fd00::33", Port: 15443},
	{Network: "n3", Cluster: "c3", Addr: "::ffff:3.3.3.3", Port: 15443},
}

func gatewaysOf(world int) []model.NetworkGateway {
	if world == 1 {
		return claGateways
	}
	return nil
}

func encGateways(gws []model.NetworkGateway) string {
	if len(gws) == 0 {
		return "-"
	}
	parts := make([]string, len(gws))
	for i, g := range gws {
		parts[i] = strings.Join([]string{wire.Enc(string(g.Network)), wire.Enc(string(g.Cluster)), wire.Enc(g.Addr), strconv.Itoa(int(g.Port))}, "|")
	}
	return strings.Join(parts, ";")
}

type conn struct {
	watched  []claQuery
	served   map[string]*endpoint.ClusterLoadAssignment
	pending  *model.PushRequest
	inited   bool
	sotw     *sotwRec
	delta    *deltaRec
	sotwCon  *pxds.Connection
	deltaCon *pxds.Connection
}

// recording gRPC streams: what the server sends on a connection
type recBase struct{}

func (recBase) SetHeader(metadata.MD) error  { return nil }
func (recBase) SendHeader(metadata.MD) error { return nil }
func (recBase) SetTrailer(metadata.MD)       {}
func (recBase) Context() context.Context     { return context.Background() }
func (recBase) SendMsg(any) error            { return nil }
func (recBase) RecvMsg(any) error            { return nil }

type sotwRec struct {
	recBase
	sent []*discovery.DiscoveryResponse
}

func (s *sotwRec) Send(r *discovery.DiscoveryResponse) error { s.sent = append(s.sent, r); return nil }
func (s *sotwRec) Recv() (*discovery.DiscoveryRequest, error) {
	return nil, errors.New("eof")
}

type deltaRec struct {
	recBase
	sent []*discovery.DeltaDiscoveryResponse
}

func (s *deltaRec) Send(r *discovery.DeltaDiscoveryResponse) error { s.sent = append(s.sent, r); return nil }
func (s *deltaRec) Recv() (*discovery.DeltaDiscoveryRequest, error) {
	return nil, errors.New("eof")
}

type claWorld struct {
	id      int
	f       *failer
	s       *txds.FakeDiscoveryServer
	proxies map[string]*model.Proxy
	conns   map[string]*conn
	ds      *pxds.DiscoveryServer // not started: see record
	pushCh  reflect.Value
	drVar   map[string]int // service name -> DestinationRule variant
	paMode  int            // 0: no PeerAuthentication; 1: namespace-wide DISABLE; 2: mesh-wide (root namespace) DISABLE
}

func newClaWorld(id int) *claWorld {
	f := &failer{}
	m := mesh.DefaultMeshConfig()
	m.ServiceSettings = []*meshconfig.MeshConfig_ServiceSettings{{
		Settings: &meshconfig.MeshConfig_ServiceSettings_Settings{ClusterLocal: true},
		Hosts:    []string{svcHost("l")},
	}}
	var svcs []*model.Service
	var cfgs []config.Config
	for i, d := range claSvcs {
		labels := map[string]string{}
		if d.persistent {
			labels[features.PersistentSessionLabel] = "cookie"
		}
		cfgs = append(cfgs, makeDR(d, 0))
		if d.missing {
			continue
		}
		resolution := model.ClientSideLB
		if d.dns {
			resolution = model.DNSLB
		}
		svcs = append(svcs, &model.Service{
			Hostname:       host.Name(svcHost(d.name)),
			DefaultAddress: "10.1.0." + strconv.Itoa(i+1),
			Ports: model.PortList{
				{Name: "http", Port: 80, Protocol: protocol.HTTP},
				{Name: "grpc", Port: 81, Protocol: protocol.GRPC},
			},
			Resolution: resolution,
			Attributes: model.ServiceAttributes{Name: d.name, Namespace: claNs, Labels: labels, K8sAttributes: model.K8sAttributes{NodeLocal: d.nodeLocal}},
		})
	}
	s := txds.NewFakeDiscoveryServer(f, txds.FakeOptions{Services: svcs, Configs: cfgs, MeshConfig: m, Gateways: gatewaysOf(id)})
	quiet.Silence()
	w := &claWorld{id: id, f: f, s: s, proxies: map[string]*model.Proxy{}, conns: map[string]*conn{}, drVar: map[string]int{}}
	w.ds = pxds.NewDiscoveryServer(s.Discovery.Env, map[string]string{}, krt.GlobalDebugHandler)
	w.ds.Generators[v3.EndpointType] = w.generator()
	fld := reflect.ValueOf(w.ds).Elem().FieldByName("pushChannel")
	w.pushCh = reflect.NewAt(fld.Type(), unsafe.Pointer(fld.UnsafeAddr())).Elem()
	for i, d := range claProxies {
		if d.router && id != 0 {
			continue
		}
		px := &model.Proxy{
			Type:            model.SidecarProxy,
			ID:              d.name + "." + claNs,
			ConfigNamespace: claNs,
			IPAddresses:     proxyIPs(d, i),
			Metadata: &model.NodeMetadata{
				Namespace: claNs, ClusterID: cluster.ID(d.cluster), Network: network.ID(d.network),
				NodeName: d.node, RequestedNetworkView: d.view,
			},
		}
		if d.router {
			px.Type = model.Router
		}
		if d.locality != "" {
			// what setTopologyLabels derives from the registry's topology labels when the proxy connects
			px.Locality = util.ConvertLocality(d.locality)
		}
		w.proxies[d.name] = s.SetupProxy(px)
	}
	return w
}

func makeDR(d svcDesc, variant int) config.Config {
	var subsets []*networking.Subset
	for _, n := range []string{"v1", "v2", "app", "all"} {
		subsets = append(subsets, &networking.Subset{Name: n, Labels: subsetLabels(variant, n)})
	}
	dr := &networking.DestinationRule{Host: svcHost(d.name), Subsets: subsets}
	desc := drOf(d, variant)
	parts := func(p polDesc) (*networking.OutlierDetection, *networking.LoadBalancerSettings) {
		var od *networking.OutlierDetection
		var lb *networking.LoadBalancerSettings
		if p.outlier {
			od = &networking.OutlierDetection{MinHealthPercent: p.minHealth}
		}
		switch p.lb {
		case 1:
			lb = &networking.LoadBalancerSettings{LocalityLbSetting: &networking.LocalityLoadBalancerSetting{Enabled: wrapperspb.Bool(false)}}
		case 2:
			var dist []*networking.LocalityLoadBalancerSetting_Distribute
			for _, r := range p.dist {
				to := map[string]uint32{}
				for _, t := range r.to {
					to[t.pat] = t.w
				}
				dist = append(dist, &networking.LocalityLoadBalancerSetting_Distribute{From: r.from, To: to})
			}
			lb = &networking.LoadBalancerSettings{LocalityLbSetting: &networking.LocalityLoadBalancerSetting{Distribute: dist}}
		}
		return od, lb
	}
	if desc.top.set {
		od, lb := parts(desc.top)
		dr.TrafficPolicy = &networking.TrafficPolicy{OutlierDetection: od, LoadBalancer: lb}
		ports := make([]int, 0, len(desc.topPort))
		for port := range desc.topPort {
			ports = append(ports, port)
		}
		sort.Ints(ports)
		for _, port := range ports {
			pod, plb := parts(desc.topPort[port])
			dr.TrafficPolicy.PortLevelSettings = append(dr.TrafficPolicy.PortLevelSettings, &networking.TrafficPolicy_PortTrafficPolicy{
				Port: &networking.PortSelector{Number: uint32(port)}, OutlierDetection: pod, LoadBalancer: plb,
			})
		}
	}
	for _, ss := range subsets {
		if p, ok := desc.subsets[ss.Name]; ok && p.set {
			od, lb := parts(p)
			ss.TrafficPolicy = &networking.TrafficPolicy{OutlierDetection: od, LoadBalancer: lb}
		}
	}
	return config.Config{
		Meta: config.Meta{GroupVersionKind: gvk.DestinationRule, Name: "dr-" + d.name, Namespace: claNs},
		Spec: dr,
	}
}

func proxyIPs(d proxyDesc, i int) []string {
	if len(d.ips) > 0 {
		return d.ips
	}
	return []string{"10.9.9." + strconv.Itoa(i+1)}
}

func (w *claWorld) env() *model.Environment   { return w.s.Discovery.Env }
func (w *claWorld) index() *model.EndpointIndex { return w.s.Discovery.Env.EndpointIndex }

// reset: a case starts from an empty index, an empty cache and proxies that have not connected.
func (w *claWorld) reset(unh int) {
	idx := w.index()
	for svc, byNs := range idx.Shardz() {
		for ns, es := range byNs {
			for sk := range es.Shards {
				idx.DeleteServiceShard(sk, svc, ns, false)
			}
			idx.DeleteServiceShard(model.ShardKey{}, svc, ns, false)
		}
	}
	// whether unhealthy endpoints are served is a process-wide default (PILOT_AUTO_SEND_UNHEALTHY_ENDPOINTS)
	// (1), or forced for every service, whatever its DestinationRule says (PILOT_SEND_UNHEALTHY_ENDPOINTS, 2)
	features.DefaultSendUnhealthyEndpoints.Store(unh == 1)
	features.GlobalSendUnhealthyEndpoints.Store(unh == 2)
	for name, v := range w.drVar {
		if v != 0 {
			w.setDR(name, 0)
		}
	}
	if w.paMode != 0 {
		w.setPA(0)
	}
	w.ds.Push(&model.PushRequest{Forced: true, Reason: model.NewReasonStats(model.GlobalUpdate)})
	w.env().Cache.ClearAll()
	w.conns = map[string]*conn{}
	w.record(func() {})
}

// waitConfigEvent lets the fake server (whose handlers the config store also notifies, asynchronously)
// finish its own push for the change, so that it cannot interleave with what follows.
func (w *claWorld) waitConfigEvent(before int64) {
	d := w.s.Discovery
	for i := 0; i < 400 && d.InboundUpdates.Load() == before; i++ {
		time.Sleep(500 * time.Microsecond)
	}
	for i := 0; i < 4000 && d.CommittedUpdates.Load() < d.InboundUpdates.Load(); i++ {
		time.Sleep(500 * time.Microsecond)
	}
}

// publish is what the debouncer does with a request: DiscoveryServer.Push (drops the cache entries of
// the updated configs, initialises and publishes the new PushContext); then every connection gets it.
func (w *claWorld) publish(req *model.PushRequest) {
	if req == nil {
		return
	}
	r := &model.PushRequest{ConfigsUpdated: req.ConfigsUpdated.Copy(), Forced: req.Forced, Reason: model.ReasonStats{}}
	for k, v := range req.Reason {
		r.Reason[k] = v
	}
	w.ds.Push(r)
	w.enqueue(req)
}

// setDR replaces the service's DestinationRule in the config store (variant 1 re-labels the subsets).
func (w *claWorld) setDR(name string, variant int) {
	cfg := makeDR(svcByHost(svcHost(name)), variant)
	store := w.s.Store()
	before := w.s.Discovery.InboundUpdates.Load()
	cur := store.Get(gvk.DestinationRule, cfg.Name, cfg.Namespace)
	switch {
	case variant == -1 && cur != nil:
		if err := store.Delete(gvk.DestinationRule, cfg.Name, cfg.Namespace, nil); err != nil {
			panic(err)
		}
	case variant == -1:
	case cur != nil:
		cfg.ResourceVersion = cur.ResourceVersion
		if _, err := store.Update(cfg); err != nil {
			panic(err)
		}
	default:
		// a rule the proxy's previous SidecarScope does not know: only the current rule says the cluster is affected
		if _, err := store.Create(cfg); err != nil {
			panic(err)
		}
	}
	w.waitConfigEvent(before)
	w.drVar[name] = variant
	w.publish(&model.PushRequest{
		ConfigsUpdated: sets.New(model.ConfigKey{Kind: kind.DestinationRule, Name: cfg.Name, Namespace: cfg.Namespace}),
		Reason:         model.NewReasonStats(model.ConfigUpdate),
	})
}

// setPA creates / deletes a PeerAuthentication with mTLS mode DISABLE: namespace-wide (mode 1) or mesh-wide,
// in the root namespace (mode 2: canSendPartialFullPushes must then regenerate every cluster).
func (w *claWorld) setPA(mode int) {
	store := w.s.Store()
	nsOf := func(m int) string {
		if m == 2 {
			return w.env().Mesh().RootNamespace
		}
		return claNs
	}
	for _, step := range []int{0, mode} {
		if step == w.paMode {
			continue
		}
		before := w.s.Discovery.InboundUpdates.Load()
		ns := nsOf(step)
		if step != 0 {
			_, err := store.Create(config.Config{
				Meta: config.Meta{GroupVersionKind: gvk.PeerAuthentication, Name: "default", Namespace: ns},
				Spec: &securityapi.PeerAuthentication{Mtls: &securityapi.PeerAuthentication_MutualTLS{Mode: securityapi.PeerAuthentication_MutualTLS_DISABLE}},
			})
			if err != nil {
				panic(err)
			}
		} else {
			ns = nsOf(w.paMode)
			if err := store.Delete(gvk.PeerAuthentication, "default", ns, nil); err != nil {
				panic(err)
			}
		}
		w.waitConfigEvent(before)
		w.paMode = step
		w.publish(&model.PushRequest{
			ConfigsUpdated: sets.New(model.ConfigKey{Kind: kind.PeerAuthentication, Name: "default", Namespace: ns}),
			Reason:         model.NewReasonStats(model.ConfigUpdate),
		})
	}
}

// record runs f and returns the (merged) PushRequests that ConfigUpdate queued meanwhile.  `ds` is a
// second, never started DiscoveryServer on the fake server's Environment: nothing consumes its push
// channel, so what EDSUpdate hands to ConfigUpdate stays there until it is taken out here.  The
// channel is an unexported field; it is read through reflect/unsafe so that the harness needs no
// hook in pilot/pkg/xds (and therefore also builds against older trees).
func (w *claWorld) record(f func()) *model.PushRequest {
	f()
	var out *model.PushRequest
	for {
		v, ok := w.pushCh.TryRecv()
		if !ok {
			return out
		}
		req := v.Interface().(*model.PushRequest)
		if out == nil {
			out = req
		} else {
			out = out.CopyMerge(req)
		}
	}
}

func (w *claWorld) enqueue(req *model.PushRequest) {
	if req == nil {
		return
	}
	for _, c := range w.conns {
		if c.inited {
			if c.pending == nil {
				c.pending = req
			} else {
				c.pending = c.pending.CopyMerge(req)
			}
		}
	}
}

// applyOp runs one index operation through the DiscoveryServer and returns the push token.
func (w *claWorld) applyOp(o op) string {
	ds := w.ds
	switch o.kind {
	case "upd":
		if o.via != "" {
			// the kube registry's entry point on service events: the index is updated without a push request
			// (EDSCacheUpdate); the caller then pushes itself.  "c": Controller.updateServiceNodePortAddresses style
			// (ConfigsUpdated {Endpoints host/ns}, controller.go:506-518); "s": addOrUpdateService (SvcUpdate with a
			// non-delete event, then the service handler's {ServiceEntry host/ns} push).  The pushes are fabricated in
			// that shape; an empty list reaches EDSCacheUpdate from endpointSliceController.updateEDS (push = false).
			if req := w.record(func() { ds.EDSCacheUpdate(shardKey(o.sk), o.k.a, o.k.b, o.eps) }); req != nil {
				return "Push!" // EDSCacheUpdate must not request a push
			}
			cfgKind := kind.Endpoints
			if o.via == "s" {
				ds.SvcUpdate(shardKey(o.sk), o.k.a, o.k.b, model.EventUpdate)
				cfgKind = kind.ServiceEntry
			}
			w.publish(&model.PushRequest{
				ConfigsUpdated: sets.New(model.ConfigKey{Kind: cfgKind, Name: o.k.a, Namespace: o.k.b}),
				Reason:         model.NewReasonStats(model.EndpointUpdate),
			})
			return "Cache"
		}
		req := w.record(func() { ds.EDSUpdate(shardKey(o.sk), o.k.a, o.k.b, o.eps) })
		w.publish(req)
		switch {
		case req == nil:
			return "NoPush"
		case model.HasConfigsOfKind(req.ConfigsUpdated, kind.ServiceEntry):
			return "Full"
		case model.HasConfigsOfKind(req.ConfigsUpdated, kind.Endpoints):
			return "Incremental"
		}
		return "Push?"
	case "delsvc":
		if o.preserve {
			w.index().DeleteServiceShard(shardKey(o.sk), o.k.a, o.k.b, true)
		} else {
			ds.SvcUpdate(shardKey(o.sk), o.k.a, o.k.b, model.EventDelete)
		}
		// the registry's service handler follows the delete with a service push (pilot/pkg/bootstrap/server.go
		// serviceHandler: ConfigsUpdated = {ServiceEntry host/ns}, Reason ServiceUpdate). Fabricated here: the
		// stream drives the DiscoveryServer entry points, not a real registry
		w.publish(&model.PushRequest{
			ConfigsUpdated: sets.New(model.ConfigKey{Kind: kind.ServiceEntry, Name: o.k.a, Namespace: o.k.b}),
			Reason:         model.NewReasonStats(model.ServiceUpdate),
		})
	case "delshard":
		ds.RemoveShard(shardKey(o.sk))
		// (fabricated as well: the multicluster controller follows a cluster removal with a forced full push)
		w.publish(&model.PushRequest{Forced: true, Reason: model.NewReasonStats(model.ClusterUpdate)})
	case "prune":
		ds.PruneShard(shardKey(o.sk), keepMap(o.keep))
		w.publish(&model.PushRequest{Forced: true, Reason: model.NewReasonStats(model.ClusterUpdate)})
	}
	return "-"
}

type claQuery struct {
	svc, ns string
	port    int
	subset  string
}

func (q claQuery) cluster() string {
	return model.BuildSubsetKey(model.TrafficDirectionOutbound, q.subset, host.Name(q.svc), q.port)
}

func parseQuery(t string) (claQuery, bool) {
	f := strings.Split(t, "|")
	if len(f) != 10 && len(f) != 12 {
		return claQuery{}, false
	}
	return claQuery{svc: wire.Dec(f[0]), ns: wire.Dec(f[1]), port: atoi(f[2]), subset: wire.Dec(f[3])}, true
}

func (w *claWorld) generator() *pxds.EdsGenerator {
	// wired as in pilot/pkg/bootstrap (InitGenerators): generator cache == the cache the index invalidates.
	// (The fake server itself pairs its generator with the cache of a different Environment.)
	return &pxds.EdsGenerator{Cache: &countingCache{XdsCache: w.env().Cache}, EndpointIndex: w.env().EndpointIndex}
}

// countingCache: the real cache, with the generator's hits and misses counted (coverage counters of the oracle run).
type countingCache struct{ model.XdsCache }

func (c *countingCache) Get(e model.XdsCacheEntry) *discovery.Resource {
	r := c.XdsCache.Get(e)
	if r != nil {
		stats["eds-cache-hit"]++
	} else {
		stats["eds-cache-miss"]++
	}
	return r
}

// push runs one EDS push for the proxy and returns the assignments it holds afterwards.
func (w *claWorld) push(name, mode string, qs []claQuery) []*endpoint.ClusterLoadAssignment {
	p := w.proxies[name]
	c := w.conns[name]
	if c == nil {
		c = &conn{served: map[string]*endpoint.ClusterLoadAssignment{}}
		w.conns[name] = c
	}
	c.watched = qs
	names := sets.New[string]()
	for _, q := range qs {
		names.Insert(q.cluster())
	}
	var req *model.PushRequest
	if !c.inited {
		// a new connection: the first EDS request is answered in full
		req = &model.PushRequest{Forced: true, Reason: model.NewReasonStats(model.ProxyRequest)}
		c.inited = true
		p.WatchedResources = map[string]*model.WatchedResource{}
		p.NewWatchedResource(v3.EndpointType, sets.SortedList(names))
		c.sotw, c.delta = &sotwRec{}, &deltaRec{}
		c.sotwCon = pxds.VerifNewConnection(p, c.sotw)
		c.deltaCon = pxds.VerifNewDeltaConnection(p, c.delta)
	} else {
		req = c.pending
	}
	c.pending = nil
	switch {
	case req == nil:
		stats["push-nothing-pending"]++
	case req.Forced:
		stats["push-forced"]++
	default:
		stats["push-partial"]++
	}
	if req != nil {
		r := *req
		r.Push = w.env().PushContext()
		r.Start = time.Now()
		// the REAL per-connection push: pushConnection / pushConnectionDelta (computeProxyState, ProxyNeedsPush,
		// pushXds / pushDeltaXds with the delta removal rule, Send); the responses arrive on the recording
		// stream and are applied the way an xDS client does
		if mode == "delta" {
			c.delta.sent = nil
			if err := pxds.VerifC03PushConnectionDelta(w.ds, c.deltaCon, &r); err != nil {
				panic(err)
			}
			for _, resp := range c.delta.sent {
				for _, n := range resp.RemovedResources {
					delete(c.served, n)
				}
				for _, x := range resp.Resources {
					cla := &endpoint.ClusterLoadAssignment{}
					if err := x.GetResource().UnmarshalTo(cla); err == nil {
						c.served[cla.ClusterName] = cla
					}
				}
			}
		} else {
			c.sotw.sent = nil
			if err := pxds.VerifC03PushConnection(w.ds, c.sotwCon, &r); err != nil {
				panic(err)
			}
			for _, resp := range c.sotw.sent {
				// EDS over SotW: every assignment in the response replaces the one held; the others stay
				for _, x := range resp.Resources {
					cla := &endpoint.ClusterLoadAssignment{}
					if err := x.UnmarshalTo(cla); err == nil {
						c.served[cla.ClusterName] = cla
					}
				}
			}
		}
	}
	out := make([]*endpoint.ClusterLoadAssignment, len(qs))
	for i, q := range qs {
		out[i] = c.served[q.cluster()]
	}
	return out
}

// serviceEndpoints: the CDS-time view of a service's endpoints - a fresh PushContext (initServiceRegistry:
// EndpointShards.CopyEndpoints into ServiceIndex.instancesByPort) and PushContext.ServiceEndpointsByPort.
func (w *claWorld) serviceEndpoints(hostname string, port int, labels map[string]string) []string {
	w.ds.Push(&model.PushRequest{Forced: true, Reason: model.NewReasonStats(model.GlobalUpdate)})
	push := w.env().PushContext()
	svc := push.ServiceForHostname(w.proxies["p1"], host.Name(hostname))
	if svc == nil {
		return []string{"no-service"}
	}
	var toks []string
	for _, e := range push.ServiceEndpointsByPort(svc, port, labels) {
		toks = append(toks, encEp(e))
	}
	sort.Strings(toks)
	if len(toks) == 0 {
		return []string{"-"}
	}
	return toks
}

func (w *claWorld) direct(name string, q claQuery) *endpoint.ClusterLoadAssignment {
	b := endpoints.NewEndpointBuilder(q.cluster(), w.proxies[name], w.env().PushContext())
	return b.BuildClusterLoadAssignment(w.index())
}

func showCLA(cla *endpoint.ClusterLoadAssignment) string {
	if cla == nil {
		return "removed" // the proxy holds nothing for the cluster (never sent, or removed by a delta response)
	}
	if len(cla.GetEndpoints()) == 0 {
		return "cla -"
	}
	var groups []string
	for _, g := range cla.Endpoints {
		var eps []string
		for _, le := range g.LbEndpoints {
			eps = append(eps, showLbEp(le))
		}
		// the order inside a locality carries no meaning (a report that only reorders endpoints is NoPush)
		sort.Strings(eps)
		groups = append(groups, fmt.Sprintf("%s{w=%d;p=%d;%s}", wire.Enc(util.LocalityToString(g.Locality)),
			g.GetLoadBalancingWeight().GetValue(), g.Priority, strings.Join(eps, ",")))
	}
	return "cla " + strings.Join(groups, " ")
}

func showLbEp(le *endpoint.LbEndpoint) string {
	a := le.GetEndpoint().GetAddress()
	addr := ""
	if sa := a.GetSocketAddress(); sa != nil {
		addr = wire.Enc(sa.GetAddress()) + ":" + strconv.Itoa(int(sa.GetPortValue()))
	} else if p := a.GetPipe(); p != nil {
		addr = "pipe:" + wire.Enc(p.GetPath())
	} else {
		addr = "other:" + wire.Enc(a.String())
	}
	// mTLS as the builder decided it (mtlsChecker): transport-socket metadata tlsMode=istio
	tls := le.GetMetadata().GetFilterMetadata()[util.EnvoyTransportSocketMetadataKey].GetFields()[model.TLSModeLabelShortname].GetStringValue()
	return fmt.Sprintf("%s/h%d/w%d/t%s", addr, int(le.HealthStatus), le.GetLoadBalancingWeight().GetValue(), wire.B(tls == model.IstioMutualTLSModeLabel))
}

// ---------------------------------------------------------------- exec

type claSUT struct {
	worlds map[int]*claWorld
	w      *claWorld
}

func (c *claSUT) world(id int) *claWorld {
	if c.worlds == nil {
		c.worlds = map[int]*claWorld{}
	}
	if c.worlds[id] == nil {
		c.worlds[id] = newClaWorld(id)
	}
	return c.worlds[id]
}

func (c *claSUT) done() {
	for _, w := range c.worlds {
		w.f.done()
	}
	features.DefaultSendUnhealthyEndpoints.Store(true)
	features.GlobalSendUnhealthyEndpoints.Store(false)
}

func (c *claSUT) apply(f []string) (out string) {
	defer func() {
		if r := recover(); r != nil {
			out = "crash"
		}
	}()
	if f[0] == "case" {
		id, unh := 0, 0
		if len(f) >= 5 {
			id, unh = atoi(f[3]), atoi(f[4])
		}
		c.w = c.world(id)
		c.w.reset(unh)
		return "ok"
	}
	if c.w == nil {
		c.w = c.world(0)
		c.w.reset(0)
	}
	switch {
	case f[0] == "push":
		if len(f) < 11 || c.w.proxies[f[1]] == nil {
			return "bad-op"
		}
		var qs []claQuery
		for _, t := range f[10:] {
			q, ok := parseQuery(t)
			if !ok {
				return "bad-op"
			}
			qs = append(qs, q)
		}
		clas := c.w.push(f[1], f[2], qs)
		parts := make([]string, len(clas))
		for i, cla := range clas {
			parts[i] = showCLA(cla)
		}
		return "served " + strings.Join(parts, " || ")
	case f[0] == "drset" && len(f) == 3:
		if svcByHost(svcHost(f[1])).name == "" {
			return "bad-op"
		}
		c.w.setDR(f[1], atoi(f[2]))
		return "ok"
	case f[0] == "paset" && len(f) == 2:
		if m := atoi(f[1]); m >= 0 && m <= 2 && m != c.w.paMode {
			c.w.setPA(m)
		}
		return "ok"
	case f[0] == "noise" && len(f) == 1:
		// a configuration change of a kind that cannot change any assignment (edsNeedsPush / skippedEdsConfigs);
		// it is merged with whatever else is pending for the connections
		c.w.publish(&model.PushRequest{
			ConfigsUpdated: sets.New(model.ConfigKey{Kind: kind.VirtualService, Name: "vs", Namespace: claNs}),
			Reason:         model.NewReasonStats(model.ConfigUpdate),
		})
		return "ok"
	case f[0] == "svcidx" && len(f) == 6:
		return "eps " + strings.Join(c.w.serviceEndpoints(wire.Dec(f[1]), atoi(f[3]), decLabels(f[4])), ";")
	}
	o, ok := parseOp(f)
	if !ok {
		return "bad-op"
	}
	p := c.w.applyOp(o)
	return p + " | " + showIndex(c.w.index())
}

func execCla(in, outp string) {
	out := wire.Create(outp)
	defer out.Close()
	c := &claSUT{}
	defer c.done()
	for _, f := range wire.ReadLines(in) {
		out.Line(c.apply(f))
		out.Flush()
	}
}

// ---------------------------------------------------------------- generator

func genClaEp(r *wire.Rng, world int) *model.IstioEndpoint {
	e := genEp(r)
	e.Namespace = claNs
	e.ServicePortName = wire.Pick(r, []string{"http", "http", "http", "http", "http", "grpc"})
	e.EndpointPort = uint32(wire.Pick(r, []int{8080, 8080, 8080, 9090}))
	e.LegacyClusterPortKey = wire.Pick(r, []int{0, 0, 0, 0, 0, 0, 80, 81, 99})
	e.HealthStatus = model.HealthStatus(wire.Pick(r, []int{1, 1, 1, 1, 1, 1, 1, 1, 2, 2, 3, 4, 0}))
	e.Locality.ClusterID = cluster.ID(wire.Pick(r, []string{"c1", "c1", "c1", "c2", ""}))
	e.Network = network.ID(wire.Pick(r, []string{"", "", "", "n1", "n2"}))
	e.NodeName = wire.Pick(r, []string{"node1", "node1", "node2", ""})
	if world == 1 {
		e.Locality.ClusterID = cluster.ID(wire.Pick(r, []string{"c1", "c1", "c2", "c2", "c3", ""}))
		e.Network = network.ID(wire.Pick(r, []string{"", "n1", "n1", "n2", "n2", "n3", "n4"}))
		e.TLSMode = wire.Pick(r, []string{"istio", "istio", "istio", "disabled", ""})
		e.Locality.Label = wire.Pick(r, []string{"r1/z1/s1", "r1/z1/s1", "r1/z2/s1", "r2/z1/s1"})
	}
	if len(e.Addresses) == 0 {
		// no registry produces an endpoint without any address (the builder panics on it: corpus case cla.nil-address)
		e.Addresses = []string{wire.Pick(r, addrUniverse)}
	}
	switch r.Intn(40) {
	case 0:
		e.Addresses = []string{"backend.example.com"} // not an IP: dropped
	case 1:
		e.Addresses = []string{""} // to be replaced by a gateway address in multi-network meshes
	case 2:
		e.Addresses, e.EndpointPort = []string{"/var/run/app.sock"}, 0 // unix domain socket
	}
	if r.Chance(1, 25) {
		e.LbWeight = math.MaxUint32 - uint32(r.Intn(2))
	}
	if r.Chance(1, 15) {
		if e.Labels == nil {
			e.Labels = map[string]string{}
		}
		e.Labels[features.DrainingLabel] = wire.Pick(r, []string{"true", "true", ""})
	}
	return e
}

// unhealthyOK: are unhealthy endpoints served for the service?  unh 0: no; 1: by default, unless its
// DestinationRule demands a minimum health percentage; 2: always (forced process-wide).
func unhealthyOK(unh int, pol polDesc) bool {
	return unh == 2 || unh == 1 && !(pol.outlier && pol.minHealth > 0)
}

func queryTok(d svcDesc, port int, subset string, unh int, variant int, p proxyDesc) string {
	portName := "!"
	if n, ok := claPorts[port]; ok && !d.dns && !d.missing {
		portName = wire.Enc(n)
	}
	pol := effPolicy(d, variant, subset, port)
	dist := "-"
	if pol.lb == 2 {
		dist = encDist(pol.dist)
	}
	return strings.Join([]string{
		wire.Enc(svcHost(d.name)), claNs, strconv.Itoa(port), wire.Enc(subset),
		portName, encLabels(subsetLabels(variant, subset)), wire.B(d.clusterLocal), wire.B(d.nodeLocal),
		wire.B(unhealthyOK(unh, pol)), wire.B(d.persistent),
		wire.Enc(p.locality), dist,
	}, "|")
}

type watchedCluster struct {
	d      svcDesc
	port   int
	subset string
}

func genCla(seed uint64, n int, outp string) {
	out := wire.Create(outp)
	defer out.Close()
	root := wire.NewRng(seed ^ 0xC1A13)
	shards := []pair{{"Kubernetes", "c1"}, {"Kubernetes", "c2"}, {"External", "c1"}, {"External", ""}}
	for c := 0; c < n; c++ {
		r := root.Fork()
		world := 0
		if r.Chance(1, 3) {
			world = 1
		}
		// unhealthy endpoints: not served / served by default / forced for every service
		unh := wire.Pick(r, []int{0, 0, 0, 1, 1, 1, 2})
		out.Line("case", strconv.Itoa(c), "cla", strconv.Itoa(world), strconv.Itoa(unh))
		// two or three services per case, so that a partial push has clusters it must skip
		var svcs []svcDesc
		for nsv := 2 + r.Intn(2); len(svcs) < nsv; {
			// (the DNS-resolution service and the one that does not exist are rarer)
			d := claSvcs[wire.Pick(r, []int{0, 0, 1, 1, 2, 2, 3, 3, 4, 4, 5, 5, 6, 7})]
			dup := false
			for _, have := range svcs {
				dup = dup || have.name == d.name
			}
			if !dup {
				svcs = append(svcs, d)
			}
		}
		if world == 1 {
			svcs = []svcDesc{claSvcs[0], wire.Pick(r, claSvcs)}
		}
		if r.Chance(1, 4) {
			svcs[0] = claSvcs[5] // locality-weighted distribution, with proxies that have a locality
		}
		// the clusters every proxy of the case watches
		var watched []watchedCluster
		for _, d := range svcs {
			watched = append(watched, watchedCluster{d, 80, ""})
			watched = append(watched, watchedCluster{d, wire.Pick(r, []int{80, 80, 81, 99}), wire.Pick(r, []string{"v1", "v2", "app", "all", "zz"})})
		}
		// the proxies of the case: either p1 with one proxy that differs from it in a single component of the
		// assignment's cache key (always pushed back to back, nothing in between), or any one or two
		var proxies []proxyDesc
		paired := r.Chance(1, 2)
		pool := claProxies[:12]
		if world == 0 {
			pool = claProxies // the router exists in the single-network world only
		}
		if paired {
			others := append([]proxyDesc{}, pool[4:11]...)
			if world == 0 {
				others = append(others, claProxies[12])
			}
			if svcs[0].distribute && r.Chance(1, 2) {
				others = claProxies[9:11] // the two that differ from p1 in their locality
			}
			proxies = []proxyDesc{claProxies[0], wire.Pick(r, others)}
			if r.Chance(1, 2) {
				proxies[0], proxies[1] = proxies[1], proxies[0]
			}
		} else {
			proxies = append([]proxyDesc{}, wire.Subset(r, pool, 1, 4)...) // (a copy: it is modified below)
			if len(proxies) == 0 {
				proxies = []proxyDesc{claProxies[0]}
			}
			if len(proxies) > 2 {
				proxies = proxies[:2]
			}
			if svcs[0].distribute && r.Chance(2, 3) {
				proxies[0] = claProxies[9+r.Intn(3)]
			}
		}
		drVar := map[string]int{}
		paMode := 0
		pushLine := func(p proxyDesc, mode string) {
			if mode == "" {
				mode = "sotw"
				if r.Chance(1, 3) {
					mode = "delta"
				}
			}
			toks := []string{"push", p.name, mode, wire.EncList(p.view), wire.Enc(p.cluster), wire.Enc(p.node), wire.Enc(p.network),
				p.ipmode(), wire.B(paMode != 0), encGateways(gatewaysOf(world))}
			for _, wc := range watched {
				toks = append(toks, queryTok(wc.d, wc.port, wc.subset, unh, drVar[wc.d.name], p))
			}
			out.Line(toks...)
		}
		pushRound := func(all bool, mode string) {
			for _, p := range proxies {
				if all || paired || r.Chance(3, 4) {
					pushLine(p, mode)
				}
			}
		}
		last := map[[2]pair][]*model.IstioEndpoint{}
		nops := 2 + r.Intn(6)
		for i := 0; i < nops; i++ {
			d := wire.Pick(r, svcs)
			// (half of the time a persistent-session service if the case has one: it serves draining endpoints, so an
			// added draining endpoint is visible in what is served)
			for _, pd := range svcs {
				if pd.persistent && r.Chance(1, 2) {
					d = pd
				}
			}
			k := pair{svcHost(d.name), claNs}
			sk := wire.Pick(r, shards)
			key := [2]pair{k, sk}
			switch x := r.Intn(19); {
			case x == 18:
				out.Line("noise")
			case x < 11:
				var eps []*model.IstioEndpoint
				if len(last[key]) > 0 && (r.Chance(1, 8) || d.persistent && r.Chance(1, 3)) {
					// the previous report plus one new endpoint that is neither healthy nor unhealthy (draining /
					// terminating): a push is due - persistent-session services serve draining endpoints
					for _, e := range last[key] {
						eps = append(eps, e.DeepCopy())
					}
					ne := genClaEp(r, world)
					ne.ServicePortName = "http"
					ne.HealthStatus = wire.Pick(r, []model.HealthStatus{model.Draining, model.Draining, model.Terminating})
					eps = append(eps, ne)
				} else if len(last[key]) > 0 && r.Chance(2, 3) {
					eps = mutate(r, last[key])
					for _, e := range eps {
						e.Namespace = claNs
						if len(e.Addresses) == 0 {
							e.Addresses = []string{wire.Pick(r, addrUniverse)}
						}
					}
				} else {
					for j, m := 0, 2+r.Intn(5); j < m; j++ {
						eps = append(eps, genClaEp(r, world))
					}
				}
				if d.distribute {
					// localities that the distribute rules tell apart (two sub-zones of one zone, a region no rule names),
					// weights large enough for the uint32 product weight * percentage to matter
					for _, e := range eps {
						if r.Chance(2, 3) {
							e.Locality.Label = wire.Pick(r, []string{"r1/z1/s1", "r1/z1/s2", "r1/z2/s1", "r2/z1/s1", "r2/z2/s1", "r3/z1/s1", "r1/z1"})
						}
						if r.Chance(1, 12) {
							e.LbWeight = wire.Pick(r, []uint32{90_000_000, 200_000_000, 4_000_000_000})
						}
					}
				}
				if r.Chance(1, 12) {
					eps = nil
				}
				// endpoint keys (namespace/workload/first address/port name) are distinct inside one registry's report:
				// the hypothesis of pushType_sound's last clause (with duplicates, dropping one of two same-key
				// endpoints is NoPush: noPush_dupkey_witness; the index stream does exercise that corner)
				seenKeys := map[string]bool{}
				uniq := eps[:0:0]
				for _, e := range eps {
					if !seenKeys[e.Key()] {
						seenKeys[e.Key()] = true
						uniq = append(uniq, e)
					}
				}
				eps = uniq
				for _, e := range eps {
					// the registries derive the flag from the service (Service.SupportsUnhealthyEndpoints), i.e. from
					// the same process-wide default the builder reads: an endpoint whose flag disagrees with it does
					// not occur (assumption `hc` of member_pushable)
					e.SendUnhealthyEndpoints = unh != 0
				}
				last[key] = eps
				// one update in four arrives through the cache-only entry point, followed by its caller's push
				via := ""
				if r.Chance(1, 4) {
					via = wire.Pick(r, []string{"c", "c", "s"})
				}
				out.Line(opLine(op{kind: "upd", sk: sk, k: k, eps: eps, via: via})...)
			case x < 12:
				out.Line(opLine(op{kind: "delsvc", sk: sk, k: k, preserve: false})...)
				last[key] = nil
			case x < 13:
				out.Line(opLine(op{kind: "delshard", sk: sk})...)
				for kk := range last {
					if kk[1] == sk {
						last[kk] = nil
					}
				}
			case x < 14:
				// the services the registry still has (nil: none)
				var keep []pair
				for _, kd := range svcs {
					if r.Chance(1, 3) {
						keep = append(keep, pair{svcHost(kd.name), claNs})
					}
				}
				out.Line(opLine(op{kind: "prune", sk: sk, keep: keep})...)
				for kk := range last {
					kept := false
					for _, kp := range keep {
						if kp == kk[0] {
							kept = true
						}
					}
					if kk[1] == sk && !kept {
						last[kk] = nil
					}
				}
			case x < 16:
				// a DestinationRule update that re-labels the subsets; nothing else changes, so the next push is a
				// DestinationRule-only partial push (in delta mode: not incremental, "state of the world" rule)
				if i == 0 {
					pushRound(true, "")
				}
				// re-label the subsets, delete the rule, or create it again
				drVar[d.name] = wire.Pick(r, map[int][]int{0: {1, 1, -1}, 1: {0, 0, -1}, -1: {0, 1}}[drVar[d.name]])
				out.Line("drset", d.name, strconv.Itoa(drVar[d.name]))
				pushRound(true, wire.Pick(r, []string{"delta", "delta", "sotw"}))
				continue
			case x < 17:
				if i == 0 {
					pushRound(true, "")
				}
				// none -> namespace-wide or mesh-wide (root namespace) DISABLE -> another one or none
				paMode = wire.Pick(r, map[int][]int{0: {1, 1, 2}, 1: {0, 0, 2}, 2: {0, 1}}[paMode])
				out.Line("paset", strconv.Itoa(paMode))
				pushRound(true, "")
				continue
			default:
				wc := wire.Pick(r, watched)
				if wc.d.dns || wc.d.missing {
					continue
				}
				out.Line("svcidx", wire.Enc(svcHost(wc.d.name)), claNs, strconv.Itoa(wire.Pick(r, []int{80, 80, 81, 99})),
					encLabels(subsetLabels(drVar[wc.d.name], wire.Pick(r, []string{"", "", "v1", "app"}))), "http^80&grpc^81")
				continue
			}
			if r.Chance(1, 2) || i == nops-1 {
				pushRound(i == nops-1, "")
			}
		}
	}
}

// ---------------------------------------------------------------- property oracle (cla)
//
// States the served clause of the property directly on the real code, with no reference to the
// Lean model.  After every push, for every cluster the proxy watches:
//   served-is-current   the assignment the proxy holds (merged from the partial pushes the real generator
//                       produced from the recorded, non-forced requests) equals a fresh
//                       BuildClusterLoadAssignment from the current index: every cluster whose membership
//                       changed was regenerated, a NoPush update changed no assignment;
//   membership-exact    (single-network world) it contains, each exactly once, the endpoints last reported by
//                       every registry that an independent filter written from the property statement accepts;
//   grouped-by-locality, weights-consistent;
//   gateway-weights     (multi-network world) in every locality the directly reachable members are there with
//                       their scaled weight, every gateway endpoint's weight is the sum of the shares of the
//                       remote members of THAT locality routed through it, and a locality without such
//                       members has no gateway endpoint;
//   service-endpoints   the CDS-time snapshot (PushContext.ServiceEndpointsByPort over EndpointShards.CopyEndpoints) of a
//                       service port = the latest reports' endpoints of that port (legacy port key first) with the labels;
//   never-crashes.
// Configuration changes (drset: the DestinationRule re-labels its subsets; paset: a PeerAuthentication disables mTLS)
// reach the proxies as DestinationRule- / PeerAuthentication-only partial pushes; served-is-current and
// membership-exact then demand that every affected assignment was regenerated.

func sameOrEmpty(a, b string) bool { return a == "" || b == "" || a == b }

// localityMatches: does the locality (region/zone/subzone, missing parts empty) fall under the pattern?  Region:
// equal or "*"; zone and sub-zone: equal, "*", or not given in the pattern.  (Written from the API documentation
// of LocalityLoadBalancerSetting, not from util.LocalityMatch.)
func localityMatches(loc, pat string) bool {
	l, p := append(strings.Split(loc, "/"), "", "", ""), append(strings.Split(pat, "/"), "", "", "")
	if p[0] != "*" && p[0] != l[0] {
		return false
	}
	for i := 1; i < 3; i++ {
		if p[i] != "*" && p[i] != "" && p[i] != l[i] {
			return false
		}
	}
	return true
}

func oracleMember(q claQuery, unh int, d svcDesc, variant int, p proxyDesc, sk pair, e *model.IstioEndpoint) bool {
	if e.ServicePortName != claPorts[q.port] {
		return false
	}
	for k, v := range subsetLabels(variant, q.subset) {
		if got, ok := e.Labels[k]; !ok || got != v {
			return false
		}
	}
	drainingLabel := e.Labels[features.DrainingLabel] != ""
	switch {
	case e.HealthStatus == model.UnHealthy && !unhealthyOK(unh, effPolicy(d, variant, q.subset, q.port)):
		return false
	case e.HealthStatus == model.Terminating:
		return false
	case (e.HealthStatus == model.Draining || drainingLabel) && !d.persistent:
		return false
	}
	if e.DiscoverabilityPolicy == model.DiscoverableFromSameCluster && !sameOrEmpty(string(e.Locality.ClusterID), p.cluster) {
		return false
	}
	if len(p.view) > 0 && e.Network != "" {
		seen := false
		for _, n := range p.view {
			if n == string(e.Network) {
				seen = true
			}
		}
		if !seen {
			return false
		}
	}
	if d.clusterLocal && (string(e.Locality.ClusterID) != p.cluster || sk.b != p.cluster) {
		return false
	}
	if d.nodeLocal && (e.NodeName != p.node || sk.b != p.cluster) {
		return false
	}
	a := e.Addresses[0]
	if a != "" && e.EndpointPort != 0 && strings.ContainsAny(a, "ghijklmnopqrstuvwxyz") {
		return false // a host name, not an address
	}
	return true
}

func epTok(addr string, port int, h int, w uint64, mtls bool) string {
	a := wire.Enc(addr) + ":" + strconv.Itoa(port)
	if port == 0 {
		a = "pipe:" + wire.Enc(addr)
	}
	return fmt.Sprintf("%s/h%d/w%d/t%s", a, h, w, wire.B(mtls))
}

func gcd(a, b uint64) uint64 {
	for b != 0 {
		a, b = b, a%b
	}
	return a
}

// gatewayScale: every weight is multiplied by the least common multiple of the sizes of the gateway groups
// (per network, per network and cluster), so that it can be split evenly.
func gatewayScale(gws []model.NetworkGateway) uint64 {
	byN, byNC := map[string]uint64{}, map[[2]string]uint64{}
	for _, g := range gws {
		byN[string(g.Network)]++
		byNC[[2]string{string(g.Network), string(g.Cluster)}]++
	}
	l := uint64(1)
	for _, n := range byN {
		l = l / gcd(l, n) * n
	}
	for _, n := range byNC {
		l = l / gcd(l, n) * n
	}
	return l
}

func satAdd(a, b uint64) uint64 {
	if a+b > math.MaxUint32 {
		return math.MaxUint32
	}
	return a + b
}

// gatewayIsV6: the family of a gateway address; an IPv4-mapped IPv6 address is an IPv4 address.
func gatewayIsV6(addr string) bool {
	ip, err := netip.ParseAddr(addr)
	return err == nil && ip.Unmap().Is6()
}

// expected computes, per locality, the multiset of endpoint tokens the property demands.
func expected(world int, q claQuery, unh int, d svcDesc, variant int, paOff bool, p proxyDesc, want map[pair][]*model.IstioEndpoint) map[string][]string {
	exp := map[string][]string{}
	if _, ok := claPorts[q.port]; !ok || d.dns || d.missing || d.name == "" {
		// no such port, not an EDS cluster (DNS resolution), no such service: nothing is served
		return exp
	}
	gws := gatewaysOf(world)
	// gateways a sidecar may use for an endpoint: those of the endpoint's network in the endpoint's cluster if
	// there are any, else all of the network; only gateways with an mTLS port
	usable := func(nw, cl string) []model.NetworkGateway {
		var nc, n []model.NetworkGateway
		for _, g := range gws {
			if string(g.Network) == nw {
				n = append(n, g)
				if string(g.Cluster) == cl {
					nc = append(nc, g)
				}
			}
		}
		if len(nc) == 0 {
			nc = n
		}
		var out []model.NetworkGateway
		for _, g := range nc {
			if g.Port != 0 {
				out = append(out, g)
			}
		}
		return out
	}
	scale := gatewayScale(gws)
	v4, v6 := strings.Contains(p.ipmode(), "4"), strings.Contains(p.ipmode(), "6")
	type gwKey struct {
		addr string
		port uint32
	}
	gwW := map[string]map[gwKey]uint64{}
	for sk, eps := range want {
		for _, e := range eps {
			if !oracleMember(q, unh, d, variant, p, sk, e) {
				continue
			}
			w := uint64(e.LbWeight)
			if w == 0 {
				w = 1
			}
			h := int(e.HealthStatus)
			if e.Labels[features.DrainingLabel] != "" {
				h = int(model.Draining)
			}
			mtls := e.TLSMode == model.IstioMutualTLSModeLabel && !paOff
			loc := e.Locality.Label
			if world == 0 {
				exp[loc] = append(exp[loc], epTok(e.Addresses[0], int(e.EndpointPort), h, w, mtls))
				continue
			}
			// multi-network
			if _, ok := exp[loc]; !ok {
				exp[loc] = nil
			}
			w *= scale
			if w > math.MaxUint32 {
				w = math.MaxUint32
			}
			ug := usable(string(e.Network), string(e.Locality.ClusterID))
			remote := len(ug) > 0 && (p.network == "" && e.Network != "" || !sameOrEmpty(string(e.Network), p.network))
			if !remote {
				// an endpoint the proxy reaches directly is served as reported: a unix domain socket like any
				// other; only one reported without any address at all has nothing to be served as
				if e.EndpointPort == 0 || e.Addresses[0] != "" {
					exp[loc] = append(exp[loc], epTok(e.Addresses[0], int(e.EndpointPort), h, w, mtls))
				}
				continue
			}
			var reach []model.NetworkGateway
			for _, g := range ug {
				is6 := gatewayIsV6(g.Addr)
				if v4 == v6 || (is6 && v6) || (!is6 && v4) {
					reach = append(reach, g)
				}
			}
			if len(reach) == 0 || !mtls {
				continue
			}
			if gwW[loc] == nil {
				gwW[loc] = map[gwKey]uint64{}
			}
			for _, g := range reach {
				gwW[loc][gwKey{g.Addr, g.Port}] = satAdd(gwW[loc][gwKey{g.Addr, g.Port}], w/uint64(len(reach)))
			}
		}
	}
	for loc, m := range gwW {
		for g, w := range m {
			if w == 0 {
				w = 1
			}
			exp[loc] = append(exp[loc], epTok(g.addr, int(g.port), 0, w, true))
		}
	}
	return exp
}

func oracleCla(in, outp string) {
	out := wire.Create(outp)
	defer out.Close()
	c := &claSUT{}
	defer c.done()
	verdict, open, idx := "", false, 0
	world, unh := 0, 0
	prevPush := ""
	want := map[pair]map[pair][]*model.IstioEndpoint{}
	drVar, paOff := map[string]int{}, false
	flush := func() {
		if open {
			if verdict == "" {
				verdict = "OK"
			}
			out.Line(verdict)
		}
	}
	fail := func(clause, detail string) {
		if verdict == "" {
			verdict = fmt.Sprintf("FAIL %s op=%d %s", clause, idx, wire.Enc(detail))
		}
	}
	for _, f := range wire.ReadLines(in) {
		if f[0] == "case" {
			flush()
			c.apply(f)
			world, unh = c.w.id, 0
			if len(f) >= 5 {
				unh = atoi(f[4])
			}
			stats["cases-world-"+strconv.Itoa(world)]++
			want = map[pair]map[pair][]*model.IstioEndpoint{}
			drVar, paOff = map[string]int{}, false
			verdict, open, idx = "", true, 0
			continue
		}
		idx++
		if f[0] != "push" {
			prevPush = ""
		}
		switch f[0] {
		case "drset":
			if len(f) == 3 {
				c.apply(f)
				drVar[f[1]] = atoi(f[2])
			}
			continue
		case "paset":
			if len(f) == 2 {
				c.apply(f)
				paOff = f[1] != "0"
				stats["paset-mode-"+f[1]]++
			}
			continue
		case "noise":
			c.apply(f)
			continue
		case "svcidx":
			if len(f) != 6 {
				continue
			}
			// service-endpoints: the PushContext's snapshot of the service's endpoints for a port = the latest
			// reports' endpoints that belong to that service port (legacy port key first, else port name)
			// and carry the labels
			got := strings.TrimPrefix(c.apply(f), "eps ")
			stats["judged-service-endpoints"]++
			var exp []string
			port := atoi(f[3])
			for _, eps := range want[pair{wire.Dec(f[1]), f[2]}] {
				for _, e := range eps {
					pn := 0
					if e.LegacyClusterPortKey != 0 {
						if _, ok := claPorts[e.LegacyClusterPortKey]; ok {
							pn = e.LegacyClusterPortKey
						}
					} else {
						for n, name := range claPorts {
							if name == e.ServicePortName {
								pn = n
							}
						}
					}
					okLabels := true
					for k, v := range decLabels(f[4]) {
						if e.Labels[k] != v {
							okLabels = false
						}
					}
					if pn == port && pn != 0 && okLabels {
						exp = append(exp, encEp(e))
					}
				}
			}
			sort.Strings(exp)
			e := strings.Join(exp, ";")
			if e == "" {
				e = "-"
			}
			if got != e {
				fail("service-endpoints", fmt.Sprintf("%s port %d: want %s got %s", f[1], port, e, got))
			}
			continue
		}
		if f[0] != "push" {
			o, ok := parseOp(f)
			if !ok {
				continue
			}
			r := c.apply(f)
			if r == "crash" {
				fail("never-crashes", strings.Join(f, " "))
			} else if strings.HasPrefix(r, "Push!") {
				fail("cache-update-no-push", strings.Join(f[:3], " "))
			}
			if o.kind == "upd" {
				stats["push-type-"+strings.SplitN(r, " ", 2)[0]]++
			}
			stats["op-"+f[0]]++
			if o.kind == "prune" && len(o.keep) > 0 {
				stats["prune-with-keep"]++
			}
			switch o.kind {
			case "upd":
				if want[o.k] == nil {
					want[o.k] = map[pair][]*model.IstioEndpoint{}
				}
				if len(o.eps) == 0 {
					delete(want[o.k], o.sk)
				} else {
					want[o.k][o.sk] = o.eps
				}
			case "delsvc":
				delete(want[o.k], o.sk)
			case "delshard":
				for k := range want {
					delete(want[k], o.sk)
				}
			case "prune":
				kept := map[pair]bool{}
				for _, p := range o.keep {
					kept[p] = true
				}
				for k := range want {
					if !kept[k] {
						delete(want[k], o.sk)
					}
				}
			}
			continue
		}
		if len(f) < 11 || c.w == nil || c.w.proxies[f[1]] == nil {
			continue
		}
		var qs []claQuery
		for _, t := range f[10:] {
			if q, ok := parseQuery(t); ok {
				qs = append(qs, q)
			}
		}
		p := proxyByName(f[1])
		stats["pushes"]++
		stats["pushes-proxy-"+f[1]]++
		stats["pushes-"+f[2]]++
		stats["pushes-world-"+strconv.Itoa(world)]++
		if prevPush != "" && prevPush != f[1] && (prevPush == "p1" || f[1] == "p1") {
			stats["pushes-back-to-back-with-p1"]++
		}
		if p.locality != "" {
			stats["pushes-proxy-with-locality"]++
		}
		if p.router {
			stats["pushes-router"]++
		}
		prevPush = f[1]
		// an endpoint without any address on a watched port is outside the builder's contract
		noAddr := false
		for _, q := range qs {
			for _, eps := range want[pair{q.svc, q.ns}] {
				for _, e := range eps {
					if len(e.Addresses) == 0 && e.ServicePortName == claPorts[q.port] {
						noAddr = true
					}
				}
			}
		}
		if noAddr {
			stats["pushes-not-judged-endpoint-without-address"]++
			// still push (the connection state must follow), but do not judge
			func() {
				defer func() { _ = recover() }()
				c.w.push(f[1], f[2], qs)
			}()
			if cn := c.w.conns[f[1]]; cn != nil {
				cn.inited = false // it will reconnect
				cn.served = map[string]*endpoint.ClusterLoadAssignment{}
			}
			continue
		}
		var served []*endpoint.ClusterLoadAssignment
		func() {
			defer func() {
				if r := recover(); r != nil {
					fail("never-crashes", strings.Join(f[:3], " "))
				}
			}()
			served = c.w.push(f[1], f[2], qs)
		}()
		if served == nil {
			continue
		}
		for i, q := range qs {
			cla := served[i]
			stats["queries-svc-"+svcByHost(q.svc).name]++
			stats["judged-served-is-current"]++
			fresh := c.w.direct(f[1], q)
			if showCLA(cla) != showCLA(fresh) {
				fail("served-is-current", fmt.Sprintf("%s %s: proxy holds %s, the index gives %s", f[1], q.cluster(), showCLA(cla), showCLA(fresh)))
				continue
			}
			d := svcByHost(q.svc)
			exp := expected(world, q, unh, d, drVar[d.name], paOff, p, want[pair{q.svc, q.ns}])
			// locality-weighted distribution: the first rule whose source matches the proxy's locality
			var rule *distRule
			if pol := effPolicy(d, drVar[d.name], q.subset, q.port); pol.lb == 2 {
				for _, r := range pol.dist {
					if localityMatches(p.locality, r.from) {
						rule = &r
						break
					}
				}
			}
			claim := func(loc string) *distTo {
				if rule == nil {
					return nil
				}
				for i := range rule.to {
					if localityMatches(loc, rule.to[i].pat) {
						return &rule.to[i]
					}
				}
				return nil
			}
			if rule != nil {
				stats["queries-under-distribute"]++
				// distribute-membership: under the rule the localities none of its targets names get no traffic, i.e.
				// their groups carry no endpoints; every other locality keeps exactly its members
				for loc := range exp {
					if claim(loc) == nil {
						exp[loc] = nil
					}
				}
			}
			got := map[string][]string{}
			seenLoc := map[string]bool{}
			sums := map[string]uint64{}
			anyEmpty := false
			for _, g := range cla.GetEndpoints() {
				loc := util.LocalityToString(g.Locality)
				if seenLoc[loc] {
					fail("grouped-by-locality", "locality "+loc+" appears twice")
				}
				seenLoc[loc] = true
				var sum uint64
				got[loc] = nil
				for _, le := range g.LbEndpoints {
					w := le.GetLoadBalancingWeight().GetValue()
					if w == 0 {
						fail("weights-consistent", "endpoint weight 0")
					}
					sum += uint64(w)
					got[loc] = append(got[loc], showLbEp(le))
				}
				if sum > math.MaxUint32 {
					sum = math.MaxUint32 // consistent weights: a locality's weight never wraps around
				}
				sums[loc] = sum
				if len(g.LbEndpoints) == 0 {
					anyEmpty = true
					if world == 0 && (rule == nil || claim(loc) != nil) {
						fail("grouped-by-locality", "empty locality group "+loc)
					}
				}
				if rule == nil && uint64(g.GetLoadBalancingWeight().GetValue()) != sum {
					fail("weights-consistent", fmt.Sprintf("locality %s weight %d, endpoints sum to %d", loc, g.GetLoadBalancingWeight().GetValue(), sum))
				}
			}
			if rule != nil && world == 1 && anyEmpty {
				stats["skipped-distribute-weights-emptied-locality"]++
			}
			if rule != nil && !(world == 1 && anyEmpty) {
				stats["judged-distribute-weights"]++
				// distribute-weights: a target's percentage is split among the localities it names in proportion to
				// their own weights (rounded up), computed without any overflow.  (Multi-network with a locality whose
				// members were all left out: not judged, see notes - the emptied group counts with weight 1.)
				totals := map[string]uint64{}
				for loc, sum := range sums {
					if t := claim(loc); t != nil {
						totals[t.pat] += sum
					}
				}
				for _, g := range cla.GetEndpoints() {
					loc := util.LocalityToString(g.Locality)
					t := claim(loc)
					if t == nil || totals[t.pat] == 0 {
						continue
					}
					wantW := (sums[loc]*uint64(t.w) + totals[t.pat] - 1) / totals[t.pat]
					if uint64(g.GetLoadBalancingWeight().GetValue()) != wantW {
						fail("distribute-weights", fmt.Sprintf("%s %s locality %s: weight %d, want ceil(%d*%d/%d) = %d", f[1], q.cluster(), loc,
							g.GetLoadBalancingWeight().GetValue(), sums[loc], t.w, totals[t.pat], wantW))
					}
				}
			}
			locs := map[string]bool{}
			for l := range exp {
				locs[l] = true
			}
			for l := range got {
				locs[l] = true
			}
			for _, toks := range got {
				for _, t := range toks {
					if strings.HasPrefix(t, "pipe:") {
						stats["unix-socket-endpoints-served-world-"+strconv.Itoa(world)]++
					}
				}
			}
			if world == 0 {
				stats["judged-membership-exact"]++
			} else {
				stats["judged-gateway-weights"]++
			}
			if rule == nil {
				stats["judged-weights-consistent"]++
			}
			for l := range locs {
				a, b := append([]string{}, exp[l]...), append([]string{}, got[l]...)
				sort.Strings(a)
				sort.Strings(b)
				if strings.Join(a, ",") != strings.Join(b, ",") {
					clause := "membership-exact"
					if world == 1 {
						clause = "gateway-weights"
					}
					if rule != nil && claim(l) == nil {
						clause = "distribute-membership"
					}
					// a unix-domain-socket endpoint missing or wrongly there: its own class
					inA, inB := map[string]int{}, map[string]int{}
					for _, t := range a {
						inA[t]++
					}
					for _, t := range b {
						inB[t]++
					}
					for _, t := range append(append([]string{}, a...), b...) {
						if strings.HasPrefix(t, "pipe:") && inA[t] != inB[t] {
							clause = "socket-endpoint-served"
						}
					}
					fail(clause, fmt.Sprintf("%s %s locality %q: want %v got %v", f[1], q.cluster(), l, a, b))
				}
			}
		}
	}
	flush()
}
