package main

import (
	"bufio"
	"fmt"
	"os"
	"runtime/debug"
	"sort"
	"strconv"
	"strings"
	"sync"
	"sync/atomic"
	"time"

	"istio.io/istio/pilot/pkg/model"
	"istio.io/istio/pilot/pkg/xds/endpoints"
	"istio.io/istio/pkg/util/sets"
	"verifharness/internal/wire"
)

// Ungated stress of the real endpoint index, meant for the race-detector build of this binary
// (go build -race -tags verif): updaters (one registry each), deleters (DeleteServiceShard without
// preserved keys, DeleteShard, PruneShard) and readers (the real BuildClusterLoadAssignment of a
// FakeDiscoveryServer world, CopyEndpoints, Shardz) run freely for a fixed time.  What counts is
//
//   - a report of the race detector (the process stops at the first one: GORACE=halt_on_error=1) or a fatal
//     error of the runtime ("concurrent map writes"): the code does not take the locks the model's regions
//     stand for.  The output (both goroutine stacks) and the tail of every goroutine's op script are the input;
//   - a panic in any goroutine;
//   - after everything has stopped: one last report per (registry, service), sequentially - the index must hold
//     exactly those (clause final-reports-kept).
//
// Nothing depends on timing: a slow machine only runs fewer operations.
//
//	c13 stress <seconds> <seed> <out>     (<out>: verdict line; <out>.<goroutine>.ops: the op scripts)

type stressLog struct {
	f *os.File
	w *bufio.Writer
	n int
}

func newStressLog(path string) *stressLog {
	f, err := os.Create(path)
	if err != nil {
		panic(err)
	}
	return &stressLog{f: f, w: bufio.NewWriter(f)}
}

func (l *stressLog) line(toks ...string) {
	l.w.WriteString(strings.Join(toks, " "))
	l.w.WriteByte('\n')
	l.n++
	if l.n%32 == 0 {
		l.w.Flush()
	}
}

func (l *stressLog) close() { l.w.Flush(); l.f.Close() }

func runStress(seconds int, seed uint64, outp string) {
	model.VerifC13SetGate(nil)
	w := newClaWorld(0)
	defer w.f.done()
	w.reset(1)
	idx := w.index()
	push := w.env().PushContext()
	proxy := w.proxies["p1"]
	svcs := []svcDesc{claSvcs[0], claSvcs[1], claSvcs[2]}
	const nUpd, nDel, nRead = 4, 2, 3
	shardOf := func(i int) pair { return pair{"Kubernetes", "s" + strconv.Itoa(i)} }
	var stop atomic.Bool
	var ops atomic.Int64
	var wg sync.WaitGroup
	var mu sync.Mutex
	var crashes []string
	run := func(name string, body func(r *wire.Rng, l *stressLog)) {
		wg.Add(1)
		go func() {
			defer wg.Done()
			l := newStressLog(outp + "." + name + ".ops")
			defer l.close()
			defer func() {
				if r := recover(); r != nil {
					mu.Lock()
					crashes = append(crashes, fmt.Sprintf("%s: %v\n%s", name, r, debug.Stack()))
					mu.Unlock()
					stop.Store(true)
				}
			}()
			h := uint64(0)
			for _, c := range name {
				h = h*131 + uint64(c)
			}
			r := wire.NewRng(seed ^ (h * 0x9E3779B97F4A7C15))
			for !stop.Load() {
				body(r, l)
				ops.Add(1)
			}
		}()
	}
	genEps := func(r *wire.Rng) []*model.IstioEndpoint {
		if r.Chance(1, 8) {
			return nil
		}
		var eps []*model.IstioEndpoint
		seen := map[string]bool{}
		for j, m := 0, 1+r.Intn(3); j < m; j++ {
			e := genClaEp(r, 0)
			if len(e.Addresses) == 0 || seen[e.Key()] {
				continue
			}
			seen[e.Key()] = true
			e.SendUnhealthyEndpoints = true
			eps = append(eps, e)
		}
		return eps
	}
	for i := 0; i < nUpd; i++ {
		sk := shardOf(i)
		run("U"+strconv.Itoa(i), func(r *wire.Rng, l *stressLog) {
			d := wire.Pick(r, svcs)
			eps := genEps(r)
			l.line(opLine(op{kind: "upd", sk: sk, k: pair{svcHost(d.name), claNs}, eps: eps})...)
			idx.UpdateServiceEndpoints(shardKey(sk), svcHost(d.name), claNs, eps, true)
		})
	}
	for i := 0; i < nDel; i++ {
		run("D"+strconv.Itoa(i), func(r *wire.Rng, l *stressLog) {
			sk := shardOf(r.Intn(nUpd))
			d := wire.Pick(r, svcs)
			switch r.Intn(6) {
			case 0:
				l.line(opLine(op{kind: "delshard", sk: sk})...)
				idx.DeleteShard(shardKey(sk))
			case 1:
				keep := []pair{{svcHost(wire.Pick(r, svcs).name), claNs}}
				l.line(opLine(op{kind: "prune", sk: sk, keep: keep})...)
				idx.PruneShard(shardKey(sk), keepMap(keep))
			default:
				l.line(opLine(op{kind: "delsvc", sk: sk, k: pair{svcHost(d.name), claNs}})...)
				idx.DeleteServiceShard(shardKey(sk), svcHost(d.name), claNs, false)
			}
		})
	}
	for i := 0; i < nRead; i++ {
		i := i
		run("R"+strconv.Itoa(i), func(r *wire.Rng, l *stressLog) {
			d := wire.Pick(r, svcs)
			q := claQuery{svc: svcHost(d.name), ns: claNs, port: wire.Pick(r, []int{80, 80, 81}), subset: wire.Pick(r, []string{"", "", "v1", "v2"})}
			switch {
			case i == 2 && r.Chance(1, 4):
				l.line("shardz")
				_ = idx.Shardz()
			case i == 2 && r.Chance(1, 3):
				l.line("copy", wire.Enc(q.svc))
				if es, ok := idx.ShardsForService(q.svc, claNs); ok {
					_ = es.CopyEndpoints(map[string]int{"http": 80, "grpc": 81}, sets.New(80, 81))
				}
			default:
				l.line("cla", wire.Enc(q.cluster()))
				b := endpoints.NewEndpointBuilder(q.cluster(), proxy, push)
				_ = b.BuildClusterLoadAssignment(idx)
			}
		})
	}
	time.Sleep(time.Duration(seconds) * time.Second)
	stop.Store(true)
	wg.Wait()
	verdict := "OK"
	if len(crashes) > 0 {
		verdict = "FAIL never-crashes " + wire.Enc(strings.Join(crashes, "\n---\n"))
	} else {
		// one last report per registry and service, one after the other: exactly those are in the index afterwards
		r := wire.NewRng(seed ^ 0xF1A1)
		want := map[pair]map[pair][]string{}
		for i := 0; i < nUpd; i++ {
			for _, d := range svcs {
				var eps []*model.IstioEndpoint
				for len(eps) == 0 {
					eps = genEps(r)
				}
				k := pair{svcHost(d.name), claNs}
				idx.UpdateServiceEndpoints(shardKey(shardOf(i)), k.a, k.b, eps, true)
				if want[k] == nil {
					want[k] = map[pair][]string{}
				}
				for _, e := range eps {
					want[k][shardOf(i)] = append(want[k][shardOf(i)], encEp(e))
				}
			}
		}
		got, _ := snapshotIndex(idx)
		var bad []string
		for k, m := range want {
			for sk, toks := range m {
				if strings.Join(got[k][sk], ";") != strings.Join(toks, ";") {
					bad = append(bad, k.enc()+" "+sk.enc())
				}
			}
			if len(got[k]) != len(m) {
				bad = append(bad, k.enc()+" has other registries")
			}
		}
		sort.Strings(bad)
		if len(bad) > 0 {
			verdict = "FAIL final-reports-kept " + wire.Enc(strings.Join(bad, ","))
		}
	}
	out := wire.Create(outp)
	out.Line(verdict)
	out.Line("ops", strconv.FormatInt(ops.Load(), 10))
	out.Close()
}
