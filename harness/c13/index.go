package main

// Stream `index`: random sequential operation sequences on the REAL model.EndpointIndex
// (UpdateServiceEndpoints / DeleteServiceShard / DeleteShard / PruneShard), one op per line; the
// output line carries the returned PushType, the calls made on the XdsCache and the canonicalised
// Shardz().

import (
	"fmt"
	"sort"
	"strconv"
	"strings"
	"sync"

	"istio.io/istio/pilot/pkg/model"
	"istio.io/istio/pkg/cluster"
	"istio.io/istio/pkg/config/schema/kind"
	"istio.io/istio/pkg/network"
	"istio.io/istio/pkg/util/sets"
	"verifharness/internal/wire"
)

// recCache records the invalidations the index performs (everything else is the disabled cache).
type recCache struct {
	model.DisabledCache
	mu     sync.Mutex
	clears map[pair]int
	other  int // Clear calls that are not exactly {ServiceEntry svc/ns}
	all    int
}

func (c *recCache) Clear(s sets.Set[model.ConfigKey]) {
	c.mu.Lock()
	defer c.mu.Unlock()
	if len(s) != 1 {
		c.other++
		return
	}
	for k := range s {
		if k.Kind != kind.ServiceEntry {
			c.other++
			continue
		}
		c.clears[pair{k.Name, k.Namespace}]++
	}
}

func (c *recCache) ClearAll() {
	c.mu.Lock()
	defer c.mu.Unlock()
	c.all++
}

func (c *recCache) take() string {
	c.mu.Lock()
	defer c.mu.Unlock()
	keys := make([]pair, 0, len(c.clears))
	for k := range c.clears {
		keys = append(keys, k)
	}
	sortPairs(keys)
	parts := make([]string, 0, len(keys))
	for _, k := range keys {
		parts = append(parts, k.enc()+"*"+strconv.Itoa(c.clears[k]))
	}
	cl := "-"
	if len(parts) > 0 {
		cl = strings.Join(parts, ",")
	}
	if c.other > 0 {
		cl += "+other" + strconv.Itoa(c.other)
	}
	all := "0"
	if c.all == 1 {
		all = "1"
	} else if c.all > 1 {
		all = strconv.Itoa(c.all)
	}
	c.clears, c.other, c.all = map[pair]int{}, 0, 0
	return "clears=" + cl + " all=" + all
}

type sut struct {
	cache *recCache
	idx   *model.EndpointIndex
}

func newSUT() *sut {
	c := &recCache{clears: map[pair]int{}}
	return &sut{cache: c, idx: model.NewEndpointIndex(c)}
}

func pushTok(p model.PushType) string {
	switch p {
	case model.NoPush:
		return "NoPush"
	case model.IncrementalPush:
		return "Incremental"
	case model.FullPush:
		return "Full"
	}
	return "Push" + strconv.Itoa(int(p))
}

func showShards(k pair, es *model.EndpointShards) string {
	keys := es.Keys()
	parts := make([]string, 0, len(keys))
	for _, sk := range keys {
		parts = append(parts, pair{string(sk.Provider), string(sk.Cluster)}.enc()+"=["+encEps(es.Shards[sk])+"]")
	}
	sh := "-"
	if len(parts) > 0 {
		sh = strings.Join(parts, ",")
	}
	return k.enc() + "{sas=" + wire.EncSet(es.ServiceAccounts.UnsortedList()) + " " + sh + "}"
}

// showIndex canonicalises Shardz(): services and namespaces sorted; an empty inner map (which the
// code never leaves behind) would be printed as svc|{} and differ from the model.
func showIndex(idx *model.EndpointIndex) string {
	z := idx.Shardz()
	svcs := make([]string, 0, len(z))
	for s := range z {
		svcs = append(svcs, s)
	}
	sort.Strings(svcs)
	var parts []string
	for _, s := range svcs {
		nss := make([]string, 0, len(z[s]))
		for n := range z[s] {
			nss = append(nss, n)
		}
		sort.Strings(nss)
		if len(nss) == 0 {
			parts = append(parts, wire.Enc(s)+"|{}")
		}
		for _, n := range nss {
			parts = append(parts, showShards(pair{s, n}, z[s][n]))
		}
	}
	if len(parts) == 0 {
		return "empty"
	}
	return strings.Join(parts, " ")
}

type op struct {
	kind     string // upd delsvc delshard prune
	sk       pair
	k        pair
	eps      []*model.IstioEndpoint
	preserve bool
	keep     []pair
	// via: how an update reaches the index. "": DiscoveryServer.EDSUpdate; "c": EDSCacheUpdate followed by the
	// endpoint push of the kube controller's service-event path; "s": EDSCacheUpdate + SvcUpdate(update event)
	// followed by the service push of the registry's service handler.  For the index itself all three are
	// UpdateServiceEndpoints (the cache variants with logPushType = false).
	via string
}

func parseOp(f []string) (op, bool) {
	var o op
	var ok bool
	switch {
	case (f[0] == "upd" || f[0] == "updc" || f[0] == "upds") && len(f) == 4:
		o.kind = "upd"
		o.via = f[0][3:]
		if o.sk, ok = decPair(f[1]); !ok {
			return o, false
		}
		if o.k, ok = decPair(f[2]); !ok {
			return o, false
		}
		if o.eps, ok = decEps(f[3]); !ok {
			return o, false
		}
		return o, true
	case f[0] == "delsvc" && len(f) == 4:
		o.kind = "delsvc"
		if o.sk, ok = decPair(f[1]); !ok {
			return o, false
		}
		if o.k, ok = decPair(f[2]); !ok {
			return o, false
		}
		o.preserve = f[3] == "1" || f[3] == "true"
		return o, true
	case f[0] == "delshard" && len(f) == 2:
		o.kind = "delshard"
		if o.sk, ok = decPair(f[1]); !ok {
			return o, false
		}
		return o, true
	case f[0] == "prune" && len(f) == 3:
		o.kind = "prune"
		if o.sk, ok = decPair(f[1]); !ok {
			return o, false
		}
		if o.keep, ok = decPairs(f[2]); !ok {
			return o, false
		}
		return o, true
	}
	return o, false
}

func keepMap(keep []pair) map[string]sets.String {
	m := map[string]sets.String{}
	for _, p := range keep {
		if m[p.a] == nil {
			m[p.a] = sets.New[string]()
		}
		m[p.a].Insert(p.b)
	}
	return m
}

// run executes one operation on the real index; the result is the PushType token ("-" if none).
func (s *sut) run(o op) string {
	switch o.kind {
	case "upd":
		return pushTok(s.idx.UpdateServiceEndpoints(shardKey(o.sk), o.k.a, o.k.b, o.eps, o.via == ""))
	case "delsvc":
		s.idx.DeleteServiceShard(shardKey(o.sk), o.k.a, o.k.b, o.preserve)
	case "delshard":
		s.idx.DeleteShard(shardKey(o.sk))
	case "prune":
		s.idx.PruneShard(shardKey(o.sk), keepMap(o.keep))
	}
	return "-"
}

func (s *sut) apply(f []string) (out string) {
	defer func() {
		if r := recover(); r != nil {
			out = "crash"
		}
	}()
	if f[0] == "case" {
		*s = *newSUT()
		return "ok"
	}
	o, ok := parseOp(f)
	if !ok {
		return "bad-op"
	}
	p := s.run(o)
	return p + " " + s.cache.take() + " | " + showIndex(s.idx)
}

func execIndex(in, outp string) {
	out := wire.Create(outp)
	defer out.Close()
	s := newSUT()
	for _, f := range wire.ReadLines(in) {
		out.Line(s.apply(f))
		out.Flush()
	}
}

// ---------------------------------------------------------------- generator

var (
	svcUniverse   = []pair{{"a.com", "ns1"}, {"a.com", "ns2"}, {"b.com", "ns1"}, {"c.com", "ns3"}}
	shardUniverse = []pair{{"Kubernetes", "c1"}, {"Kubernetes", "c2"}, {"External", "c1"}, {"Kubernetes", ""}}
	addrUniverse  = []string{"10.0.0.1", "10.0.0.2", "10.0.0.3", "10.0.1.1", "fd00::1"}
	locUniverse   = []string{"r1/z1/s1", "r1/z2/s1", "r2/z1/s1", "r1/z1", ""}
)

func genEp(r *wire.Rng) *model.IstioEndpoint {
	e := &model.IstioEndpoint{
		Namespace:       wire.Pick(r, []string{"ns1", "ns1", "ns2"}),
		WorkloadName:    wire.Pick(r, []string{"w1", "w1", "w2", ""}),
		Addresses:       []string{wire.Pick(r, addrUniverse)},
		ServicePortName: wire.Pick(r, []string{"http", "http", "grpc"}),
		EndpointPort:    uint32(wire.Pick(r, []int{8080, 8080, 9090, 0})),
		ServiceAccount:  wire.Pick(r, []string{"sa1", "sa1", "sa1", "sa1", "sa1", "sa1", "", "sa2", "spiffe://td/ns/ns1/sa/x y"}),
		Network:         "",
		Locality:        model.Locality{Label: wire.Pick(r, locUniverse), ClusterID: "c1"},
		TLSMode:         wire.Pick(r, []string{"istio", "istio", "disabled", ""}),
		HealthStatus:    model.HealthStatus(wire.Pick(r, []int{1, 1, 1, 1, 2, 2, 3, 4, 0})),
	}
	if r.Chance(1, 6) {
		e.Addresses = append(e.Addresses, wire.Pick(r, addrUniverse))
	}
	if r.Chance(1, 20) {
		e.Addresses = nil
	}
	if r.Chance(1, 3) {
		e.Network = network.ID("n" + strconv.Itoa(1+r.Intn(2)))
	}
	if r.Chance(1, 3) {
		e.Locality.ClusterID = "c2"
	}
	if r.Chance(1, 3) {
		e.LbWeight = uint32(1 + r.Intn(3))
	}
	if r.Chance(1, 3) {
		e.SendUnhealthyEndpoints = true
	}
	if r.Chance(1, 8) {
		e.LegacyClusterPortKey = 80
	}
	if r.Chance(1, 8) {
		e.HostName, e.SubDomain = "h1", "sub"
	}
	if r.Chance(1, 6) {
		e.NodeName = "node" + strconv.Itoa(1+r.Intn(2))
	}
	if r.Chance(2, 3) {
		e.Labels = map[string]string{"app": "a"}
		if r.Chance(2, 3) {
			e.Labels["version"] = wire.Pick(r, []string{"v1", "v2"})
		}
	}
	switch r.Intn(6) {
	case 0:
		e.DiscoverabilityPolicy = model.AlwaysDiscoverable
	case 1:
		e.DiscoverabilityPolicy = model.DiscoverableFromSameCluster
	}
	return e
}

// mutate derives the next report of a registry from its previous one: the small steps that
// exercise endpointUpdateRequiresPush (same list, health flip, new unhealthy endpoint, removal,
// service-account change, reorder, duplicate key).
func mutate(r *wire.Rng, prev []*model.IstioEndpoint) []*model.IstioEndpoint {
	out := make([]*model.IstioEndpoint, 0, len(prev)+1)
	for _, e := range prev {
		out = append(out, e.DeepCopy())
	}
	n := 1
	if r.Chance(1, 4) {
		n = 2
	}
	for i := 0; i < n; i++ {
		c := r.Intn(19)
		if c >= 14 {
			c = 9 // single-attribute changes are the most frequent step
		}
		switch c {
		case 0, 1, 12, 13: // identical report
		case 2: // health flip
			if len(out) > 0 {
				e := out[r.Intn(len(out))]
				if e.HealthStatus == model.Healthy {
					e.HealthStatus = model.UnHealthy
				} else {
					e.HealthStatus = model.Healthy
				}
			}
		case 3: // new endpoint, unhealthy
			e := genEp(r)
			e.HealthStatus = model.UnHealthy
			e.SendUnhealthyEndpoints = r.Chance(1, 4)
			out = append(out, e)
		case 4: // new endpoint
			out = append(out, genEp(r))
		case 5: // removal
			if len(out) > 0 {
				j := r.Intn(len(out))
				out = append(out[:j], out[j+1:]...)
			}
		case 6: // service account change
			if len(out) > 0 {
				out[r.Intn(len(out))].ServiceAccount = wire.Pick(r, []string{"", "sa1", "sa2", "sa3"})
			}
		case 7: // reorder
			if len(out) > 1 {
				out[0], out[len(out)-1] = out[len(out)-1], out[0]
			}
		case 8: // duplicate key (same namespace/workload/address/port, other attributes differ)
			if len(out) > 0 {
				d := out[r.Intn(len(out))].DeepCopy()
				if r.Chance(1, 2) {
					d.LbWeight += 1 // else: an exact duplicate
				}
				if r.Chance(1, 2) {
					out = append(out, d)
				} else {
					out = append([]*model.IstioEndpoint{d}, out...)
				}
			}
		case 9: // one non-key attribute changes: every field IstioEndpoint.Equals compares has its turn
			if len(out) > 0 {
				e := out[r.Intn(len(out))]
				switch r.Intn(13) {
				case 0:
					e.LbWeight++
				case 1:
					e.Labels = map[string]string{"app": "a", "version": wire.Pick(r, []string{"v1", "v2", "v3"})}
				case 2:
					e.Locality.Label = wire.Pick(r, locUniverse)
				case 3:
					if len(e.Addresses) == 2 {
						e.Addresses[0], e.Addresses[1] = e.Addresses[1], e.Addresses[0]
					} else {
						e.Addresses = append(e.Addresses, wire.Pick(r, addrUniverse))
					}
				case 4:
					e.Network = network.ID(wire.Pick(r, []string{"", "n1", "n2"}))
				case 5:
					e.EndpointPort = uint32(wire.Pick(r, []int{8080, 9090, 7070}))
				case 6:
					e.TLSMode = wire.Pick(r, []string{"istio", "disabled", ""})
				case 7:
					e.NodeName = wire.Pick(r, []string{"", "node1", "node2", "node3"})
				case 8:
					e.HostName = wire.Pick(r, []string{"", "h1", "h2"})
				case 9:
					e.SubDomain = wire.Pick(r, []string{"", "sub", "sub2"})
				case 10:
					e.Locality.ClusterID = cluster.ID(wire.Pick(r, []string{"c1", "c2", ""}))
				case 11:
					e.LegacyClusterPortKey = wire.Pick(r, []int{0, 80, 81})
				case 12:
					e.DiscoverabilityPolicy = wire.Pick(r, []model.EndpointDiscoverabilityPolicy{nil, model.AlwaysDiscoverable, model.DiscoverableFromSameCluster})
				}
			}
		case 10: // second address changes only (key stays)
			if len(out) > 0 {
				e := out[r.Intn(len(out))]
				if len(e.Addresses) >= 1 {
					e.Addresses = []string{e.Addresses[0], wire.Pick(r, addrUniverse)}
				}
			}
		case 11:
			if len(out) > 0 {
				e := out[r.Intn(len(out))]
				e.SendUnhealthyEndpoints = !e.SendUnhealthyEndpoints
			}
		}
	}
	return out
}

func opLine(o op) []string {
	switch o.kind {
	case "upd":
		return []string{"upd" + o.via, o.sk.enc(), o.k.enc(), encEps(o.eps)}
	case "delsvc":
		return []string{"delsvc", o.sk.enc(), o.k.enc(), wire.B(o.preserve)}
	case "delshard":
		return []string{"delshard", o.sk.enc()}
	}
	return []string{"prune", o.sk.enc(), encPairs(o.keep)}
}

type genState struct {
	r      *wire.Rng
	svcs   []pair
	shards []pair
	last   map[[2]pair][]*model.IstioEndpoint
}

func newGenState(r *wire.Rng) *genState {
	g := &genState{r: r, last: map[[2]pair][]*model.IstioEndpoint{}}
	for len(g.svcs) < 2 {
		g.svcs = wire.Subset(r, svcUniverse, 2, 3)
	}
	for len(g.shards) < 2 {
		g.shards = wire.Subset(r, shardUniverse, 2, 3)
	}
	return g
}

func (g *genState) genOp() op {
	r := g.r
	sk := wire.Pick(r, g.shards)
	k := wire.Pick(r, g.svcs)
	switch x := r.Intn(20); {
	case x < 12:
		key := [2]pair{k, sk}
		var eps []*model.IstioEndpoint
		switch {
		case r.Chance(1, 9):
			eps = nil
		case len(g.last[key]) > 0 && r.Chance(3, 4):
			eps = mutate(r, g.last[key])
		default:
			n := 1 + r.Intn(3)
			for i := 0; i < n; i++ {
				eps = append(eps, genEp(r))
			}
		}
		g.last[key] = eps
		via := ""
		if r.Chance(1, 5) {
			via = "c" // the cache-only entry point (EDSCacheUpdate): same index semantics demanded
		}
		return op{kind: "upd", sk: sk, k: k, eps: eps, via: via}
	case x < 16:
		return op{kind: "delsvc", sk: sk, k: k, preserve: r.Chance(1, 3)}
	case x < 18:
		return op{kind: "delshard", sk: sk}
	default:
		return op{kind: "prune", sk: sk, keep: wire.Subset(r, svcUniverse, 1, 2)}
	}
}

func genIndex(seed uint64, n int, outp string) {
	out := wire.Create(outp)
	defer out.Close()
	root := wire.NewRng(seed ^ 0xC13)
	for c := 0; c < n; c++ {
		r := root.Fork()
		out.Line("case", strconv.Itoa(c), "index")
		g := newGenState(r)
		length := 1 + r.Intn(30)
		for i := 0; i < length; i++ {
			if r.Chance(1, 200) {
				out.Line("upd", "malformed", "x", "-") // malformed line: both sides answer bad-op
				continue
			}
			out.Line(opLine(g.genOp())...)
		}
	}
}

// ---------------------------------------------------------------- property oracle (index)
//
// States the property directly on the real index, with no reference to the Lean model:
//   latest-report : after every op, for every (service, namespace, registry) the index holds exactly
//                   the registry's last non-empty report that was not removed since;
//   no-residue    : nothing else is in the index (deleted service shard / removed registry / pruned);
//   no-empty-svc  : a service entry without shards exists only after an empty report (key preserved);
//   nopush-sound  : NoPush only if every previously stored endpoint is still reported unchanged (Equals) and
//                   every added endpoint is unhealthy without SendUnhealthyEndpoints;
//   sa-exact      : after a non-empty report the exposed ServiceAccounts are exactly those of the service's endpoints;
//   sa-full       : a change of the exposed set of service accounts, or a new service, returns FullPush;
//   removal-push  : a report that drops a stored endpoint key is not NoPush.

type oracleState struct {
	want      map[pair]map[pair][]string // (svc,ns) -> shard -> endpoint tokens, non-empty lists only
	preserved map[pair]bool              // keys that may exist with zero shards
}

func (w *oracleState) drop(k, sk pair, preserve bool) {
	if m, ok := w.want[k]; ok {
		delete(m, sk)
		if len(m) == 0 {
			delete(w.want, k)
			if preserve {
				w.preserved[k] = true
			}
		}
	}
	if !preserve {
		if _, ok := w.want[k]; !ok {
			delete(w.preserved, k)
		}
	}
}

func snapshotIndex(idx *model.EndpointIndex) (map[pair]map[pair][]string, map[pair][]string) {
	got := map[pair]map[pair][]string{}
	sas := map[pair][]string{}
	for svc, byNs := range idx.Shardz() {
		for ns, es := range byNs {
			k := pair{svc, ns}
			got[k] = map[pair][]string{}
			for sk, eps := range es.Shards {
				var toks []string
				for _, e := range eps {
					toks = append(toks, encEp(e))
				}
				got[k][pair{string(sk.Provider), string(sk.Cluster)}] = toks
			}
			sas[k] = sets.SortedList(es.ServiceAccounts)
		}
	}
	return got, sas
}

// sameAttributes: every attribute of the two endpoints is the same (further addresses in any order).
// Written against the data, not against IstioEndpoint.Equals.
func sameAttributes(a, b *model.IstioEndpoint) bool {
	canon := func(e *model.IstioEndpoint) string {
		c := e.DeepCopy()
		if len(c.Addresses) > 1 {
			sort.Strings(c.Addresses[1:])
		}
		return encEp(c)
	}
	return canon(a) == canon(b)
}

// changedAttribute names the first attribute in which two endpoints with the same key differ.
func changedAttribute(a, b *model.IstioEndpoint) string {
	names := []string{"namespace", "workload", "addresses", "port-name", "endpoint-port", "legacy-port", "service-account", "network",
		"locality", "cluster", "weight", "tls-mode", "hostname", "subdomain", "health", "send-unhealthy", "node", "labels", "discoverability"}
	ca, cb := a.DeepCopy(), b.DeepCopy()
	if len(ca.Addresses) > 1 {
		sort.Strings(ca.Addresses[1:])
	}
	if len(cb.Addresses) > 1 {
		sort.Strings(cb.Addresses[1:])
	}
	fa, fb := strings.Split(encEp(ca), "|"), strings.Split(encEp(cb), "|")
	for i := range fa {
		if i < len(fb) && i < len(names) && fa[i] != fb[i] {
			return names[i]
		}
	}
	return "other"
}

func oracleIndex(in, outp string) {
	out := wire.Create(outp)
	defer out.Close()
	s := newSUT()
	w := &oracleState{}
	verdict, open, idx := "", false, 0
	flush := func() {
		if open {
			if verdict == "" {
				verdict = "OK"
			}
			out.Line(verdict)
		}
	}
	fail := func(clause, detail string) {
		if verdict == "" {
			verdict = fmt.Sprintf("FAIL %s op=%d %s", clause, idx, wire.Enc(detail))
		}
	}
	for _, f := range wire.ReadLines(in) {
		if f[0] == "case" {
			flush()
			s = newSUT()
			w = &oracleState{want: map[pair]map[pair][]string{}, preserved: map[pair]bool{}}
			verdict, open, idx = "", true, 0
			continue
		}
		idx++
		o, ok := parseOp(f)
		if !ok {
			continue
		}
		// previous content of the touched shard, as real endpoints
		var prev []*model.IstioEndpoint
		prevSAs := sets.New[string]()
		existed := false
		if o.kind == "upd" {
			if es, f := s.idx.ShardsForService(o.k.a, o.k.b); f {
				existed = true
				es.RLock()
				for _, e := range es.Shards[shardKey(o.sk)] {
					prev = append(prev, e.DeepCopy())
				}
				prevSAs = es.ServiceAccounts.Copy() // the set exposed to secure naming so far
				es.RUnlock()
			}
		}
		var push string
		func() {
			defer func() {
				if r := recover(); r != nil {
					fail("never-crashes", strings.Join(f, " "))
				}
			}()
			push = s.run(o)
		}()
		if o.kind == "upd" {
			stats["push-type-"+push]++
		}
		// the oracle's own record of what the registries said
		switch o.kind {
		case "upd":
			if len(o.eps) == 0 {
				w.drop(o.k, o.sk, true)
			} else {
				if w.want[o.k] == nil {
					w.want[o.k] = map[pair][]string{}
				}
				var toks []string
				for _, e := range o.eps {
					toks = append(toks, encEp(e))
				}
				w.want[o.k][o.sk] = toks
				delete(w.preserved, o.k)
			}
		case "delsvc":
			w.drop(o.k, o.sk, o.preserve)
		case "delshard":
			for k := range w.want {
				w.drop(k, o.sk, false)
			}
			w.preserved = map[pair]bool{}
		case "prune":
			kept := map[pair]bool{}
			for _, p := range o.keep {
				kept[p] = true
			}
			for k := range w.want {
				if !kept[k] {
					w.drop(k, o.sk, false)
				}
			}
			for k := range w.preserved {
				if !kept[k] {
					delete(w.preserved, k)
				}
			}
		}
		got, gotSAs := snapshotIndex(s.idx)
		for k, m := range w.want {
			for sk, toks := range m {
				if strings.Join(got[k][sk], ";") != strings.Join(toks, ";") {
					fail("latest-report", fmt.Sprintf("%s %s want %v got %v", k.enc(), sk.enc(), toks, got[k][sk]))
				}
			}
		}
		for k, m := range got {
			for sk := range m {
				if _, ok := w.want[k][sk]; !ok {
					fail("no-residue", fmt.Sprintf("%s %s still has %v", k.enc(), sk.enc(), m[sk]))
				}
			}
			if len(m) == 0 && !w.preserved[k] {
				fail("no-empty-svc", k.enc())
			}
		}
		if o.kind == "upd" && len(o.eps) > 0 {
			newSAs := sets.New[string]()
			for _, toks := range w.want[o.k] {
				for _, t := range toks {
					if sa := decEp(t).ServiceAccount; sa != "" {
						newSAs.Insert(sa)
					}
				}
			}
			if !existed && push != "Full" {
				fail("new-service-full", push)
			}
			if strings.Join(gotSAs[o.k], ",") != strings.Join(sets.SortedList(newSAs), ",") {
				fail("sa-exact", fmt.Sprintf("exposed %v, endpoints have %v", gotSAs[o.k], sets.SortedList(newSAs)))
			}
			if !newSAs.Equals(prevSAs) && push != "Full" {
				fail("sa-full", fmt.Sprintf("%v -> %v returned %s", sets.SortedList(prevSAs), sets.SortedList(newSAs), push))
			}
			keys := map[string]int{}
			for _, e := range prev {
				keys[e.Key()]++
			}
			// assumption distinct-keys-per-report: a registry does not report two endpoints with one key (the kube
			// registry drops them, ServiceEntry workloads are named by their index).  With duplicates on either side
			// NoPush says nothing about multiplicities (noPush_dup_report_witness): the clause is not judged, the
			// skipped decisions are counted
			dup := false
			for _, n := range keys {
				if n > 1 {
					dup = true
				}
			}
			newKeys := map[string]int{}
			for _, e := range o.eps {
				newKeys[e.Key()]++
				if newKeys[e.Key()] > 1 {
					dup = true
				}
			}
			if push == "NoPush" && dup {
				stats["nopush-with-duplicate-keys"]++
			}
			if push == "NoPush" && !dup {
				stats["nopush-judged"]++
				// multiplicities: with distinct keys on both sides, the endpoints a proxy may be served (healthy, or
				// unhealthy and sent) are the same multiset before and after
				pushable := func(eps []*model.IstioEndpoint) string {
					var toks []string
					for _, e := range eps {
						if e.HealthStatus != model.UnHealthy || e.SendUnhealthyEndpoints {
							c := e.DeepCopy()
							if len(c.Addresses) > 1 {
								sort.Strings(c.Addresses[1:])
							}
							toks = append(toks, encEp(c))
						}
					}
					sort.Strings(toks)
					return strings.Join(toks, ";")
				}
				multisetChanged := pushable(prev) != pushable(o.eps)
				// every stored endpoint still reported unchanged
				for _, oe := range prev {
					found := false
					for _, ne := range o.eps {
						if ne.Key() == oe.Key() && sameAttributes(oe, ne) {
							found = true
						}
					}
					if !found {
						// the clause names what changed, so that the fingerprint is the class of the missed change
						what := "removed"
						for _, ne := range o.eps {
							if ne.Key() == oe.Key() {
								what = changedAttribute(oe, ne)
							}
						}
						fail("nopush-sound:"+what, "stored endpoint changed or removed: "+encEp(oe))
					}
				}
				for _, ne := range o.eps {
					if _, f := keys[ne.Key()]; !f && (ne.HealthStatus != model.UnHealthy || ne.SendUnhealthyEndpoints) {
						fail("nopush-sound:added", "added endpoint: "+encEp(ne))
					}
				}
				if multisetChanged {
					fail("nopush-sound:multiplicity", "the endpoints that may be served changed: "+pushable(prev)+" -> "+pushable(o.eps))
				}
			}
			if existed && prev != nil {
				nk := map[string]bool{}
				for _, ne := range o.eps {
					nk[ne.Key()] = true
				}
				for _, oe := range prev {
					if !nk[oe.Key()] && push == "NoPush" {
						fail("removal-push", encEp(oe))
					}
				}
			}
		}
	}
	flush()
}
