package main

// Token syntax shared with lean/IstioModel/C13/Driver.lean:
//
//	endpoint  = 19 fields joined by '|' (each wire.Enc-escaped; lists inside a field use ',' and '&'/'^')
//	endpoints = endpoints joined by ';', "-" for none
//	shard key = provider '|' cluster ; key = svc '|' ns ; key list joined by ';'

import (
	"sort"
	"strconv"
	"strings"

	"istio.io/istio/pilot/pkg/model"
	"istio.io/istio/pilot/pkg/serviceregistry/provider"
	"istio.io/istio/pkg/cluster"
	"istio.io/istio/pkg/network"
	"verifharness/internal/wire"
)

func discTok(p model.EndpointDiscoverabilityPolicy) string {
	switch p {
	case nil:
		return "0"
	case model.AlwaysDiscoverable:
		return "1"
	case model.DiscoverableFromSameCluster:
		return "2"
	}
	return "9"
}

func discOf(t string) model.EndpointDiscoverabilityPolicy {
	switch t {
	case "1":
		return model.AlwaysDiscoverable
	case "2":
		return model.DiscoverableFromSameCluster
	}
	return nil
}

func encLabels(m map[string]string) string {
	if len(m) == 0 {
		return "-"
	}
	keys := make([]string, 0, len(m))
	for k := range m {
		keys = append(keys, k)
	}
	sort.Strings(keys)
	parts := make([]string, 0, len(keys))
	for _, k := range keys {
		parts = append(parts, wire.Enc(k)+"^"+wire.Enc(m[k]))
	}
	return strings.Join(parts, "&")
}

func decLabels(t string) map[string]string {
	if t == "-" {
		return nil
	}
	m := map[string]string{}
	for _, kv := range strings.Split(t, "&") {
		p := strings.SplitN(kv, "^", 2)
		if len(p) == 2 {
			m[wire.Dec(p[0])] = wire.Dec(p[1])
		} else {
			m[wire.Dec(kv)] = ""
		}
	}
	return m
}

func encEp(e *model.IstioEndpoint) string {
	return strings.Join([]string{
		wire.Enc(e.Namespace), wire.Enc(e.WorkloadName), wire.EncList(e.Addresses), wire.Enc(e.ServicePortName),
		strconv.FormatUint(uint64(e.EndpointPort), 10), strconv.Itoa(e.LegacyClusterPortKey),
		wire.Enc(e.ServiceAccount), wire.Enc(string(e.Network)), wire.Enc(e.Locality.Label),
		wire.Enc(string(e.Locality.ClusterID)), strconv.FormatUint(uint64(e.LbWeight), 10), wire.Enc(e.TLSMode),
		wire.Enc(e.HostName), wire.Enc(e.SubDomain), strconv.Itoa(int(e.HealthStatus)),
		wire.B(e.SendUnhealthyEndpoints), wire.Enc(e.NodeName), encLabels(e.Labels), discTok(e.DiscoverabilityPolicy),
	}, "|")
}

func atoi(s string) int { n, _ := strconv.Atoi(s); return n }

func decEp(t string) *model.IstioEndpoint {
	f := strings.Split(t, "|")
	if len(f) != 19 {
		return nil
	}
	return &model.IstioEndpoint{
		Namespace: wire.Dec(f[0]), WorkloadName: wire.Dec(f[1]), Addresses: wire.DecList(f[2]),
		ServicePortName: wire.Dec(f[3]), EndpointPort: uint32(atoi(f[4])), LegacyClusterPortKey: atoi(f[5]),
		ServiceAccount: wire.Dec(f[6]), Network: network.ID(wire.Dec(f[7])),
		Locality: model.Locality{Label: wire.Dec(f[8]), ClusterID: cluster.ID(wire.Dec(f[9]))},
		LbWeight: uint32(atoi(f[10])), TLSMode: wire.Dec(f[11]), HostName: wire.Dec(f[12]), SubDomain: wire.Dec(f[13]),
		HealthStatus: model.HealthStatus(atoi(f[14])), SendUnhealthyEndpoints: f[15] == "1", NodeName: wire.Dec(f[16]),
		Labels: decLabels(f[17]), DiscoverabilityPolicy: discOf(f[18]),
	}
}

func encEps(l []*model.IstioEndpoint) string {
	if len(l) == 0 {
		return "-"
	}
	parts := make([]string, len(l))
	for i, e := range l {
		parts[i] = encEp(e)
	}
	return strings.Join(parts, ";")
}

// decEps returns (endpoints, ok).
func decEps(t string) ([]*model.IstioEndpoint, bool) {
	if t == "-" {
		return nil, true
	}
	var out []*model.IstioEndpoint
	for _, p := range strings.Split(t, ";") {
		e := decEp(p)
		if e == nil {
			return nil, false
		}
		out = append(out, e)
	}
	return out, true
}

type pair struct{ a, b string }

func (p pair) enc() string { return wire.Enc(p.a) + "|" + wire.Enc(p.b) }

func decPair(t string) (pair, bool) {
	f := strings.Split(t, "|")
	if len(f) != 2 {
		return pair{}, false
	}
	return pair{wire.Dec(f[0]), wire.Dec(f[1])}, true
}

func decPairs(t string) ([]pair, bool) {
	if t == "-" {
		return nil, true
	}
	var out []pair
	for _, p := range strings.Split(t, ";") {
		x, ok := decPair(p)
		if !ok {
			return nil, false
		}
		out = append(out, x)
	}
	return out, true
}

func encPairs(l []pair) string {
	if len(l) == 0 {
		return "-"
	}
	parts := make([]string, len(l))
	for i, p := range l {
		parts[i] = p.enc()
	}
	return strings.Join(parts, ";")
}

func sortPairs(l []pair) {
	sort.Slice(l, func(i, j int) bool {
		if l[i].a != l[j].a {
			return l[i].a < l[j].a
		}
		return l[i].b < l[j].b
	})
}

// shard key pair = (provider, cluster)
func shardKey(p pair) model.ShardKey {
	return model.ShardKey{Provider: provider.ID(p.a), Cluster: cluster.ID(p.b)}
}
