package main

import (
	"strconv"
	"strings"

	corev1 "k8s.io/api/core/v1"
	metav1 "k8s.io/apimachinery/pkg/apis/meta/v1"
	gatewayv1 "sigs.k8s.io/gateway-api/apis/v1"
	gatewayv1beta1 "sigs.k8s.io/gateway-api/apis/v1beta1"

	networking "istio.io/api/networking/v1alpha3"
	"istio.io/istio/pilot/pkg/config/kube/gatewaycommon"
	"istio.io/istio/pilot/pkg/model"
	"istio.io/istio/pkg/config"
	"istio.io/istio/pkg/config/constants"
	"istio.io/istio/pkg/config/schema/gvk"
	"istio.io/istio/pkg/kube/krt"
	"istio.io/istio/pkg/spiffe"
	"verifharness/internal/wire"
)

// Stream `refs`: the REAL mergeGateways (pilot/pkg/model/gateway.go, through the verif hook
// model.VerifC11MergeGateways) computing MergedGateway.VerifiedCertificateReferences from Gateway configs
// (namespace, internal annotations service-account-name / parent-namespace / parents, servers with
// credentialName(s), TLS mode, caCertCredentialName), a proxy with or without VerifiedIdentity and a fake
// PushContext.SecretAllowed (the ReferenceGrant outcome as a set of (kind, resourceName, namespace)).

// grantCtl is the GatewayController behind PushContext.SecretAllowed: it delegates to the REAL ReferenceGrant
// evaluation (gatewaycommon.ReferenceGrants.SecretAllowed over the real ReferenceGrantsCollection built from
// gateway-api ReferenceGrant objects), exactly as the gateway controller does.
type grantCtl struct {
	model.FakeController
	rg gatewaycommon.ReferenceGrants
}

func (g *grantCtl) SecretAllowed(ourKind config.GroupVersionKind, resourceName string, namespace string) bool {
	return g.rg.SecretAllowed(nil, ourKind, resourceName, namespace)
}

func (g *grantCtl) Reconcile(*model.PushContext) {}

// rgSpec is one `rgrant` op: a ReferenceGrant object in namespace srcNs with one From and one To entry.
type rgSpec struct{ srcNs, from, fromNs, to, name string }

func (g rgSpec) object(i int) *gatewayv1beta1.ReferenceGrant {
	from := gatewayv1beta1.ReferenceGrantFrom{Namespace: gatewayv1.Namespace(g.fromNs)}
	switch g.from {
	case "G":
		from.Group, from.Kind = "gateway.networking.k8s.io", "Gateway"
	case "L":
		from.Group, from.Kind = "gateway.networking.k8s.io", "ListenerSet"
	case "H":
		from.Group, from.Kind = "gateway.networking.k8s.io", "HTTPRoute"
	default:
		from.Group, from.Kind = "example.com", "Gateway"
	}
	to := gatewayv1beta1.ReferenceGrantTo{}
	switch g.to {
	case "S":
		to.Group, to.Kind = "", "Secret"
	case "M":
		to.Group, to.Kind = "", "ConfigMap"
	case "V":
		to.Group, to.Kind = "", "Service"
	default:
		to.Group, to.Kind = "example.com", "Secret"
	}
	if g.name != "*" {
		n := gatewayv1.ObjectName(g.name)
		to.Name = &n
	}
	return &gatewayv1beta1.ReferenceGrant{
		ObjectMeta: metav1.ObjectMeta{Name: "rg" + strconv.Itoa(i), Namespace: g.srcNs},
		Spec:       gatewayv1beta1.ReferenceGrantSpec{From: []gatewayv1beta1.ReferenceGrantFrom{from}, To: []gatewayv1beta1.ReferenceGrantTo{to}},
	}
}

// buildGrants builds the real krt ReferenceGrants (collection + index) from the specs.
func buildGrants(specs []rgSpec, stop chan struct{}) gatewaycommon.ReferenceGrants {
	var objs []*gatewayv1beta1.ReferenceGrant
	for i, g := range specs {
		objs = append(objs, g.object(i))
	}
	static := krt.NewStaticCollection[*gatewayv1beta1.ReferenceGrant](nil, objs, krt.WithStop(stop))
	coll := gatewaycommon.ReferenceGrantsCollection(static, krt.NewOptionsBuilder(stop, "verif-c11", nil))
	coll.WaitUntilSynced(stop)
	return gatewaycommon.BuildReferenceGrants(coll)
}

// has evaluates a spec list the way the oracle reads it (property level, not the krt machinery): is there a
// ReferenceGrant object in the secret's namespace that names the requesting kind and namespace and the secret?
func grantedBy(specs []rgSpec, listenerSet bool, toKind, secretNs, secretName, fromNs string) bool {
	want := "G"
	if listenerSet {
		want = "L"
	}
	for _, g := range specs {
		if g.from == want && g.to == toKind && g.srcNs == secretNs && g.fromNs == fromNs && (g.name == "*" || g.name == secretName) {
			return true
		}
	}
	return false
}

type refsSUT struct {
	specs []rgSpec
	gws   []config.Config
	stop  chan struct{}
	ctl   *grantCtl
}

func (s *refsSUT) close() { s.reset() }
func (s *refsSUT) reset() {
	if s.stop != nil {
		close(s.stop)
	}
	*s = refsSUT{}
}

func (s *refsSUT) controller() *grantCtl {
	if s.ctl == nil {
		s.stop = make(chan struct{})
		s.ctl = &grantCtl{rg: buildGrants(s.specs, s.stop)}
	}
	return s.ctl
}

func tlsMode(tok string) networking.ServerTLSSettings_TLSmode {
	switch tok {
	case "MUTUAL":
		return networking.ServerTLSSettings_MUTUAL
	case "OPTIONAL_MUTUAL":
		return networking.ServerTLSSettings_OPTIONAL_MUTUAL
	case "PASSTHROUGH":
		return networking.ServerTLSSettings_PASSTHROUGH
	case "ISTIO_MUTUAL":
		return networking.ServerTLSSettings_ISTIO_MUTUAL
	}
	return networking.ServerTLSSettings_SIMPLE
}

func (s *refsSUT) merge(f []string) *model.MergedGateway {
	proxy := &model.Proxy{ID: "verif-gw", Type: model.Router, Metadata: &model.NodeMetadata{}, ConfigNamespace: wire.Dec(f[3])}
	if f[1] == "1" {
		proxy.VerifiedIdentity = &spiffe.Identity{TrustDomain: wire.Dec(f[2]), Namespace: wire.Dec(f[3]), ServiceAccount: wire.Dec(f[4])}
	}
	ps := model.NewPushContext()
	ps.GatewayAPIController = s.controller()
	return model.VerifC11MergeGateways(s.gws, proxy, ps)
}

func (s *refsSUT) apply(f []string) string {
	switch f[0] {
	case "case":
		s.reset()
		return "ok"
	case "rgrant":
		s.specs = append(s.specs, rgSpec{srcNs: wire.Dec(f[1]), from: f[2], fromNs: wire.Dec(f[3]), to: f[4], name: wire.Dec(f[5])})
		if s.ctl != nil { // grants changed after a merge: rebuild lazily
			close(s.stop)
			s.stop, s.ctl = nil, nil
		}
		return "ok"
	case "gw":
		ann := map[string]string{}
		if v := wire.Dec(f[2]); v != "" {
			ann[constants.InternalServiceAccount] = v
		}
		if v := wire.Dec(f[3]); v != "" {
			ann[constants.InternalParentNamespace] = v
		}
		if v := wire.Dec(f[4]); v != "" {
			ann[constants.InternalParentNames] = v
		}
		s.gws = append(s.gws, config.Config{
			Meta: config.Meta{GroupVersionKind: gvk.Gateway, Name: "gw" + strconv.Itoa(len(s.gws)), Namespace: wire.Dec(f[1]), Annotations: ann},
			Spec: &networking.Gateway{},
		})
		return "ok"
	case "srv":
		if len(s.gws) == 0 {
			return "ok"
		}
		gw := s.gws[len(s.gws)-1].Spec.(*networking.Gateway)
		n := 0
		for _, g := range s.gws {
			n += len(g.Spec.(*networking.Gateway).Servers)
		}
		srv := &networking.Server{Hosts: []string{"h" + strconv.Itoa(n) + ".example.com"}}
		if f[1] == "1" {
			srv.Port = &networking.Port{Number: uint32(8000 + n), Protocol: "HTTPS", Name: "p" + strconv.Itoa(n)}
		}
		if f[4] != "NOTLS" {
			srv.Tls = &networking.ServerTLSSettings{Mode: tlsMode(f[4]), CredentialNames: wire.DecList(f[2]), CredentialName: wire.Dec(f[3]),
				CaCertCredentialName: wire.Dec(f[5])}
		} else if srv.Port != nil {
			srv.Port.Protocol = "HTTP"
		}
		gw.Servers = append(gw.Servers, srv)
		return "ok"
	case "lsacc":
		return "acc=" + wire.B(lsAccepted(f))
	case "merge":
		mg := s.merge(f)
		if mg == nil {
			return "nil"
		}
		return "refs=" + wire.EncSet(mg.VerifiedCertificateReferences.UnsortedList())
	}
	return "bad-op"
}

// lsAccepted runs the REAL ListenerSet attachment predicate gatewaycommon.NamespaceAcceptedByAllowListeners - the
// handshake behind every `ListenerSet/` child config (gateway_collection.go emits a child only when it holds):
// lsacc <listenerSetNamespace> <parentGatewayNamespace> <mode> <selector|nil> <namespaceLabels|nil>
func lsAccepted(f []string) bool {
	local, parentNs := wire.Dec(f[1]), wire.Dec(f[2])
	parent := &gatewayv1.Gateway{ObjectMeta: metav1.ObjectMeta{Name: "parent", Namespace: parentNs}}
	if f[3] != "nil" {
		parent.Spec.AllowedListeners = &gatewayv1.AllowedListeners{}
		if f[3] != "nons" {
			ln := &gatewayv1.ListenerNamespaces{}
			switch f[3] {
			case "All", "Same", "None", "Selector":
				from := gatewayv1.FromNamespaces(f[3])
				ln.From = &from
			case "Bogus":
				from := gatewayv1.FromNamespaces("Bogus")
				ln.From = &from
			}
			if f[4] != "nil" {
				// entries k=v are matchLabels; entries k:Op:v1|v2 are matchExpressions
				ln.Selector = &metav1.LabelSelector{MatchLabels: map[string]string{}}
				for _, kv := range wire.DecList(f[4]) {
					if p := strings.SplitN(kv, ":", 3); len(p) == 3 {
						var vals []string
						if p[2] != "" {
							vals = strings.Split(p[2], "|")
						}
						ln.Selector.MatchExpressions = append(ln.Selector.MatchExpressions,
							metav1.LabelSelectorRequirement{Key: p[0], Operator: metav1.LabelSelectorOperator(p[1]), Values: vals})
						continue
					}
					k, v, _ := strings.Cut(kv, "=")
					ln.Selector.MatchLabels[k] = v
				}
			}
			parent.Spec.AllowedListeners.Namespaces = ln
		}
	}
	return gatewaycommon.NamespaceAcceptedByAllowListeners(local, parent, func(name string) *corev1.Namespace {
		if f[5] == "nil" || name != local {
			return nil
		}
		ns := &corev1.Namespace{ObjectMeta: metav1.ObjectMeta{Name: name, Labels: map[string]string{}}}
		for _, kv := range wire.DecList(f[5]) {
			k, v, _ := strings.Cut(kv, "=")
			ns.Labels[k] = v
		}
		return ns
	})
}

// ---------------------------------------------------------------- generator

func genRefs(seed uint64, n int, outp string) {
	out := wire.Create(outp)
	defer out.Close()
	root := wire.NewRng(seed ^ 0xC11F)
	nss := []string{"ns1", "ns2", "istio-system"}
	sas := []string{"sa1", "sa2"}
	creds := func(r *wire.Rng, own string) string {
		name := wire.Pick(r, []string{"a", "b", "gw", "a-cacert", "a-cacert-v2", "-cacert-x", "x-cacert-cacert"})
		switch r.Intn(14) {
		case 0, 1, 2:
			return "kubernetes-gateway://" + own + "/" + name
		case 3, 4, 5:
			return "kubernetes-gateway://" + wire.Pick(r, nss) + "/" + name
		case 6:
			return name // plain credentialName -> kubernetes://name (implicit namespace)
		case 7:
			return "kubernetes://" + wire.Pick(r, nss) + "/" + name
		case 8:
			return wire.Pick(r, []string{"builtin://", "builtin://x", "invalid://x", "configmap://" + own + "/cm", "configmap://ns2/cm"})
		case 9:
			return wire.Pick(r, []string{"kubernetes-gateway://" + own, "kubernetes-gateway:///" + name, "kubernetes-gateway://" + own + "/", "kubernetes-gateway://ns2/../" + own + "/" + name,
				"kubernetes-gateway://" + own + "/" + name + "/extra", "kubernetes://"})
		case 10:
			return ""
		}
		return "kubernetes-gateway://" + own + "/" + name
	}
	for c := 0; c < n; c++ {
		r := root.Fork()
		out.Line("case", strconv.Itoa(c), "refs")
		pns, psa := wire.Pick(r, nss), wire.Pick(r, sas)
		var used []string
		for i, k := 0, 1+r.Intn(3); i < k; i++ {
			gns := pns
			if r.Chance(1, 3) {
				gns = wire.Pick(r, nss)
			}
			saAnn, parentNs, parents := "", "", ""
			switch r.Intn(6) {
			case 0, 1:
				saAnn = psa
			case 2:
				saAnn = wire.Pick(r, sas)
			case 3:
				saAnn = wire.Pick(r, []string{psa + "x", "x" + psa, "sa", "SA1", psa + "," + "sa2"})
			}
			if r.Chance(1, 5) {
				parentNs = wire.Pick(r, nss)
			}
			switch r.Intn(14) {
			case 0, 1, 2:
				parents = "ListenerSet/ls.gw" + strconv.Itoa(i)
			case 3:
				parents = "Gateway/gw" + strconv.Itoa(i) + ".default"
			case 4:
				parents = "listenerset/x"
			case 5:
				parents = "Gateway/gw.default,ListenerSet/ls." + gns // comma-joined list: only the first entry decides
			case 6:
				parents = "ListenerSet/ls." + gns + ",Gateway/gw.default"
			case 7:
				parents = "Gateway/ListenerSet-x." + gns // a Gateway whose name mentions ListenerSet
			case 8:
				parents = "XListenerSet/y"
			case 9:
				parents = "ListenerSet" // no slash
			case 10:
				parents = wire.Pick(r, []string{"HTTPRoute/r.ns1,ListenerSet/x", " ListenerSet/x", "ListenerSet//", "ListenerSets/x"})
			}
			out.Line("gw", wire.Enc(gns), wire.Enc(saAnn), wire.Enc(parentNs), wire.Enc(parents))
			for j, m := 0, 1+r.Intn(3); j < m; j++ {
				mode := wire.Pick(r, []string{"SIMPLE", "SIMPLE", "MUTUAL", "OPTIONAL_MUTUAL", "PASSTHROUGH", "ISTIO_MUTUAL", "NOTLS"})
				var cns []string
				cn := ""
				if r.Chance(1, 4) {
					for x, y := 0, 1+r.Intn(2); x < y; x++ {
						cns = append(cns, creds(r, pns))
					}
				} else {
					cn = creds(r, pns)
				}
				ca := ""
				if r.Chance(1, 4) {
					ca = creds(r, pns)
				}
				if mode == "NOTLS" {
					cns, cn, ca = nil, "", ""
				}
				used = append(used, cns...)
				used = append(used, cn, ca)
				out.Line("srv", wire.B(r.Chance(14, 15)), wire.EncList(cns), wire.Enc(cn), mode, wire.Enc(ca))
			}
		}
		// ReferenceGrant objects: mostly for secrets actually referenced (in the secret's namespace, from the proxy's
		// namespace and kind), sometimes from the wrong kind / namespace, to the wrong kind, or name-restricted
		for _, u := range used {
			if u == "" || !strings.Contains(u, "://") || !r.Chance(1, 3) {
				continue
			}
			_, rest, _ := strings.Cut(u, "://")
			p := strings.Split(rest, "/")
			if len(p) < 2 {
				continue
			}
			name := "*"
			if r.Chance(1, 3) {
				name = p[1]
				if r.Chance(1, 4) {
					name = wire.Pick(r, []string{"a", "b", "gw"})
				}
			}
			from := wire.Pick(r, []string{"G", "G", "G", "G", "L", "L", "H", "X"})
			fromNs := wire.Pick(r, []string{pns, pns, pns, wire.Pick(r, nss)})
			to := wire.Pick(r, []string{"S", "S", "S", "S", "S", "M", "V", "O"})
			srcNs := p[0]
			if r.Chance(1, 8) {
				srcNs = wire.Pick(r, nss)
			}
			if srcNs == "" {
				continue
			}
			out.Line("rgrant", wire.Enc(srcNs), from, wire.Enc(fromNs), to, wire.Enc(name))
		}
		// the ListenerSet attachment handshake (AllowedListeners) on its own
		for i, k := 0, r.Intn(3); i < k; i++ {
			local, parent := wire.Pick(r, nss), wire.Pick(r, nss)
			mode := wire.Pick(r, []string{"nil", "nons", "All", "Same", "Same", "None", "Selector", "Selector", "Selector", "Unset", "Bogus"})
			sel := wire.Pick(r, []string{"nil", "-", "team=a", "team=a", "team=a,env=prod", "kubernetes.io/metadata.name=" + local, "kubernetes.io/metadata.name=ns1",
				"team:In:a|b", "team:In:b", "team:NotIn:a", "team:NotIn:b|c", "team:Exists:", "team:DoesNotExist:", "env:Exists:,team=a", "team:In:",
				"team:Exists:a", "kubernetes.io/metadata.name:In:ns1|ns2", "team=a,env:NotIn:prod", "team:Bogus:a"})
			nsl := wire.Pick(r, []string{"nil", "-", "team=a", "team=a,env=prod", "team=b", "kubernetes.io/metadata.name=ns1", "team=a,kubernetes.io/metadata.name=" + local})
			out.Line("lsacc", local, parent, mode, sel, nsl)
		}
		// the same gateways seen by differently verified proxies
		out.Line("merge", "1", "cluster.local", wire.Enc(pns), wire.Enc(psa))
		for i, k := 0, 1+r.Intn(3); i < k; i++ {
			if r.Chance(1, 5) {
				out.Line("merge", "0", "~", wire.Enc(pns), "~")
			} else {
				mns, msa := pns, psa
				if r.Chance(1, 2) {
					mns = wire.Pick(r, nss)
				}
				if r.Chance(1, 2) {
					msa = wire.Pick(r, sas)
				}
				// near-miss identities: empty, prefix, extension and case variants of the expected account / namespace
				switch r.Intn(8) {
				case 0:
					msa = wire.Pick(r, []string{"", "sa", "sa1x", "SA1", "a1", "sa1 ", "1", "s"})
				case 1:
					mns = wire.Pick(r, []string{"", "ns", "ns1x", "NS1", "s1", "istio", "ns1 "})
				}
				out.Line("merge", "1", "cluster.local", wire.Enc(mns), wire.Enc(msa))
			}
		}
	}
}

// ---------------------------------------------------------------- property oracle
//
// On the real MergedGateway: every verified reference exists only for a proxy with a VerifiedIdentity that
// some attached Gateway config expects (namespace = parent-namespace annotation or the config's namespace;
// service account = annotation when present), and either names a secret in the verified identity's own
// namespace through a config living in that namespace (ListenerSet: the config's namespace), or is covered
// by an explicit grant for exactly that name and namespace.

func (s *refsSUT) oracleOp(f []string) string {
	if f[0] == "lsacc" {
		// a ListenerSet namespace is accepted only if the parent Gateway says so: All, Same (and it is the same
		// namespace), or a selector that the namespace's labels (incl. the implicit name label) satisfy
		if !lsAccepted(f) {
			oracleStats["lsacc.refused."+f[3]]++
			return ""
		}
		oracleStats["lsacc.accepted."+f[3]]++
		switch f[3] {
		case "All":
			return ""
		case "Same":
			if f[1] == f[2] {
				return ""
			}
		case "Selector", "Unset":
			if f[4] != "nil" && f[5] != "nil" {
				labels := map[string]string{}
				for _, kv := range wire.DecList(f[5]) {
					k, v, _ := strings.Cut(kv, "=")
					labels[k] = v
				}
				labels["kubernetes.io/metadata.name"] = wire.Dec(f[1])
				ok := true
				for _, kv := range wire.DecList(f[4]) {
					if p := strings.SplitN(kv, ":", 3); len(p) == 3 {
						val, has := labels[p[0]]
						in := false
						for _, x := range strings.Split(p[2], "|") {
							in = in || (p[2] != "" && x == val)
						}
						switch p[1] {
						case "In":
							ok = ok && has && in
						case "NotIn":
							ok = ok && p[2] != "" && !(has && in)
						case "Exists":
							ok = ok && has && p[2] == ""
						case "DoesNotExist":
							ok = ok && !has && p[2] == ""
						default:
							ok = false
						}
						continue
					}
					k, v, _ := strings.Cut(kv, "=")
					got, has := labels[k]
					ok = ok && has && got == v
				}
				if ok {
					return ""
				}
			}
		}
		return "listenerset-namespace-accepted-without-allowedlisteners"
	}
	if f[0] != "merge" {
		if s.apply(f) == "bad-op" {
			return "bad-op"
		}
		return ""
	}
	mg := s.merge(f)
	if mg == nil {
		return ""
	}
	refs := mg.VerifiedCertificateReferences.UnsortedList()
	if f[1] != "1" {
		if len(refs) > 0 {
			return "reference-verified-for-unverified-proxy"
		}
		return ""
	}
	vns, vsa := wire.Dec(f[3]), wire.Dec(f[4])
	for _, ref := range refs {
		ok := false
		for _, base := range []string{ref, strings.TrimSuffix(ref, "-cacert")} {
			for _, g := range s.gws {
				expNs := g.Namespace
				if v := g.Annotations[constants.InternalParentNamespace]; v != "" {
					expNs = v
				}
				expSA := g.Annotations[constants.InternalServiceAccount]
				if vns != expNs || (expSA != "" && vsa != expSA) {
					continue
				}
				ls := strings.HasPrefix(g.Annotations[constants.InternalParentNames], "ListenerSet/")
				lookup := vns
				if ls {
					lookup = g.Namespace
				}
				// namespace / name the reference names: first two segments after the scheme; the verified namespace
				// when there is a single segment (never for a grant: grants need an explicit namespace)
				_, rest, found := strings.Cut(base, "://")
				if !found {
					continue
				}
				refNs, refName, explicit := vns, rest, false
				if i := strings.Index(rest, "/"); i >= 0 {
					refNs, refName, explicit = rest[:i], rest[i+1:], true
					if j := strings.Index(refName, "/"); j >= 0 {
						refName = refName[:j]
					}
				}
				toKind := "S"
				if strings.HasPrefix(base, "configmap://") {
					toKind = "M"
				}
				if explicit && grantedBy(s.specs, ls, toKind, refNs, refName, lookup) {
					ok = true
					oracleStats["refs.by-grant"]++
				}
				if refNs == lookup && (g.Namespace == vns || ls) {
					ok = true
					if ls {
						oracleStats["refs.listenerset-own-namespace"]++
					} else {
						oracleStats["refs.same-namespace"]++
					}
				}
			}
		}
		if !ok {
			return "reference-neither-same-namespace-nor-granted " + wire.Enc(ref)
		}
	}
	return ""
}
