package main

import (
	"strconv"
	"strings"

	networking "istio.io/api/networking/v1alpha3"
	"istio.io/istio/pilot/pkg/model"
	"istio.io/istio/pkg/config"
	"istio.io/istio/pkg/config/constants"
	"istio.io/istio/pkg/config/schema/gvk"
	"istio.io/istio/pkg/spiffe"
	"verifharness/internal/wire"
)

// Stream `refs`: the REAL mergeGateways (pilot/pkg/model/gateway.go, through the verif hook
// model.VerifC11MergeGateways) computing MergedGateway.VerifiedCertificateReferences from Gateway configs
// (namespace, internal annotations service-account-name / parent-namespace / parents, servers with
// credentialName(s), TLS mode, caCertCredentialName), a proxy with or without VerifiedIdentity and a fake
// PushContext.SecretAllowed (the ReferenceGrant outcome as a set of (kind, resourceName, namespace)).

type grantCtl struct {
	model.FakeController
	grants map[string]bool
}

func grantKey(listenerSet bool, rn, ns string) string {
	k := "K"
	if listenerSet {
		k = "L"
	}
	return k + "\x00" + rn + "\x00" + ns
}

func (g *grantCtl) SecretAllowed(ourKind config.GroupVersionKind, resourceName string, namespace string) bool {
	return g.grants[grantKey(ourKind == gvk.ListenerSet, resourceName, namespace)]
}

func (g *grantCtl) Reconcile(*model.PushContext) {}

type refsSUT struct {
	grants map[string]bool
	gws    []config.Config
}

func (s *refsSUT) close() {}
func (s *refsSUT) reset() { s.grants, s.gws = map[string]bool{}, nil }

func tlsMode(tok string) networking.ServerTLSSettings_TLSmode {
	switch tok {
	case "MUTUAL":
		return networking.ServerTLSSettings_MUTUAL
	case "OPTIONAL_MUTUAL":
		return networking.ServerTLSSettings_OPTIONAL_MUTUAL
	case "PASSTHROUGH":
		return networking.ServerTLSSettings_PASSTHROUGH
	case "ISTIO_MUTUAL":
		return networking.ServerTLSSettings_ISTIO_MUTUAL
	}
	return networking.ServerTLSSettings_SIMPLE
}

func (s *refsSUT) merge(f []string) *model.MergedGateway {
	proxy := &model.Proxy{ID: "verif-gw", Type: model.Router, Metadata: &model.NodeMetadata{}, ConfigNamespace: wire.Dec(f[3])}
	if f[1] == "1" {
		proxy.VerifiedIdentity = &spiffe.Identity{TrustDomain: wire.Dec(f[2]), Namespace: wire.Dec(f[3]), ServiceAccount: wire.Dec(f[4])}
	}
	ps := model.NewPushContext()
	ps.GatewayAPIController = &grantCtl{grants: s.grants}
	return model.VerifC11MergeGateways(s.gws, proxy, ps)
}

func (s *refsSUT) apply(f []string) string {
	if s.grants == nil {
		s.reset()
	}
	switch f[0] {
	case "case":
		s.reset()
		return "ok"
	case "grant":
		s.grants[grantKey(f[1] == "L", wire.Dec(f[2]), wire.Dec(f[3]))] = true
		return "ok"
	case "gw":
		ann := map[string]string{}
		if v := wire.Dec(f[2]); v != "" {
			ann[constants.InternalServiceAccount] = v
		}
		if v := wire.Dec(f[3]); v != "" {
			ann[constants.InternalParentNamespace] = v
		}
		if v := wire.Dec(f[4]); v != "" {
			ann[constants.InternalParentNames] = v
		}
		s.gws = append(s.gws, config.Config{
			Meta: config.Meta{GroupVersionKind: gvk.Gateway, Name: "gw" + strconv.Itoa(len(s.gws)), Namespace: wire.Dec(f[1]), Annotations: ann},
			Spec: &networking.Gateway{},
		})
		return "ok"
	case "srv":
		if len(s.gws) == 0 {
			return "ok"
		}
		gw := s.gws[len(s.gws)-1].Spec.(*networking.Gateway)
		n := 0
		for _, g := range s.gws {
			n += len(g.Spec.(*networking.Gateway).Servers)
		}
		srv := &networking.Server{Hosts: []string{"h" + strconv.Itoa(n) + ".example.com"}}
		if f[1] == "1" {
			srv.Port = &networking.Port{Number: uint32(8000 + n), Protocol: "HTTPS", Name: "p" + strconv.Itoa(n)}
		}
		if f[4] != "NOTLS" {
			srv.Tls = &networking.ServerTLSSettings{Mode: tlsMode(f[4]), CredentialNames: wire.DecList(f[2]), CredentialName: wire.Dec(f[3]),
				CaCertCredentialName: wire.Dec(f[5])}
		} else if srv.Port != nil {
			srv.Port.Protocol = "HTTP"
		}
		gw.Servers = append(gw.Servers, srv)
		return "ok"
	case "merge":
		mg := s.merge(f)
		if mg == nil {
			return "nil"
		}
		return "refs=" + wire.EncSet(mg.VerifiedCertificateReferences.UnsortedList())
	}
	return "bad-op"
}

// ---------------------------------------------------------------- generator

func genRefs(seed uint64, n int, outp string) {
	out := wire.Create(outp)
	defer out.Close()
	root := wire.NewRng(seed ^ 0xC11F)
	nss := []string{"ns1", "ns2", "istio-system"}
	sas := []string{"sa1", "sa2"}
	creds := func(r *wire.Rng, own string) string {
		name := wire.Pick(r, []string{"a", "b", "gw", "a-cacert"})
		switch r.Intn(14) {
		case 0, 1, 2:
			return "kubernetes-gateway://" + own + "/" + name
		case 3, 4, 5:
			return "kubernetes-gateway://" + wire.Pick(r, nss) + "/" + name
		case 6:
			return name // plain credentialName -> kubernetes://name (implicit namespace)
		case 7:
			return "kubernetes://" + wire.Pick(r, nss) + "/" + name
		case 8:
			return wire.Pick(r, []string{"builtin://", "builtin://x", "invalid://x", "configmap://" + own + "/cm", "configmap://ns2/cm"})
		case 9:
			return wire.Pick(r, []string{"kubernetes-gateway://" + own, "kubernetes-gateway:///" + name, "kubernetes-gateway://" + own + "/", "kubernetes-gateway://ns2/../" + own + "/" + name,
				"kubernetes-gateway://" + own + "/" + name + "/extra", "kubernetes://"})
		case 10:
			return ""
		}
		return "kubernetes-gateway://" + own + "/" + name
	}
	for c := 0; c < n; c++ {
		r := root.Fork()
		out.Line("case", strconv.Itoa(c), "refs")
		pns, psa := wire.Pick(r, nss), wire.Pick(r, sas)
		var used []string
		for i, k := 0, 1+r.Intn(3); i < k; i++ {
			gns := pns
			if r.Chance(1, 3) {
				gns = wire.Pick(r, nss)
			}
			saAnn, parentNs, parents := "", "", ""
			switch r.Intn(6) {
			case 0, 1:
				saAnn = psa
			case 2:
				saAnn = wire.Pick(r, sas)
			}
			if r.Chance(1, 5) {
				parentNs = wire.Pick(r, nss)
			}
			switch r.Intn(8) {
			case 0, 1:
				parents = "ListenerSet/ls.gw" + strconv.Itoa(i)
			case 2:
				parents = "Gateway/gw" + strconv.Itoa(i) + ".default"
			case 3:
				parents = "listenerset/x"
			}
			out.Line("gw", wire.Enc(gns), wire.Enc(saAnn), wire.Enc(parentNs), wire.Enc(parents))
			for j, m := 0, 1+r.Intn(3); j < m; j++ {
				mode := wire.Pick(r, []string{"SIMPLE", "SIMPLE", "MUTUAL", "OPTIONAL_MUTUAL", "PASSTHROUGH", "ISTIO_MUTUAL", "NOTLS"})
				var cns []string
				cn := ""
				if r.Chance(1, 4) {
					for x, y := 0, 1+r.Intn(2); x < y; x++ {
						cns = append(cns, creds(r, pns))
					}
				} else {
					cn = creds(r, pns)
				}
				ca := ""
				if r.Chance(1, 4) {
					ca = creds(r, pns)
				}
				if mode == "NOTLS" {
					cns, cn, ca = nil, "", ""
				}
				used = append(used, cns...)
				used = append(used, cn, ca)
				out.Line("srv", wire.B(r.Chance(14, 15)), wire.EncList(cns), wire.Enc(cn), mode, wire.Enc(ca))
			}
		}
		// grants: some of the names actually used (resource-name form), for the proxy's or another namespace
		for _, u := range used {
			if u == "" || !r.Chance(1, 4) {
				continue
			}
			rn := u
			if !strings.Contains(u, "://") {
				rn = "kubernetes://" + u
			}
			out.Line("grant", wire.Pick(r, []string{"K", "K", "K", "L"}), wire.Enc(rn), wire.Enc(wire.Pick(r, []string{pns, pns, pns, wire.Pick(r, nss)})))
		}
		// the same gateways seen by differently verified proxies
		out.Line("merge", "1", "cluster.local", wire.Enc(pns), wire.Enc(psa))
		for i, k := 0, 1+r.Intn(3); i < k; i++ {
			if r.Chance(1, 5) {
				out.Line("merge", "0", "~", wire.Enc(pns), "~")
			} else {
				mns, msa := pns, psa
				if r.Chance(1, 2) {
					mns = wire.Pick(r, nss)
				}
				if r.Chance(1, 2) {
					msa = wire.Pick(r, sas)
				}
				out.Line("merge", "1", "cluster.local", wire.Enc(mns), wire.Enc(msa))
			}
		}
	}
}

// ---------------------------------------------------------------- property oracle
//
// On the real MergedGateway: every verified reference exists only for a proxy with a VerifiedIdentity that
// some attached Gateway config expects (namespace = parent-namespace annotation or the config's namespace;
// service account = annotation when present), and either names a secret in the verified identity's own
// namespace through a config living in that namespace (ListenerSet: the config's namespace), or is covered
// by an explicit grant for exactly that name and namespace.

func (s *refsSUT) oracleOp(f []string) string {
	if f[0] != "merge" {
		if s.apply(f) == "bad-op" {
			return "bad-op"
		}
		return ""
	}
	mg := s.merge(f)
	if mg == nil {
		return ""
	}
	refs := mg.VerifiedCertificateReferences.UnsortedList()
	if f[1] != "1" {
		if len(refs) > 0 {
			return "reference-verified-for-unverified-proxy"
		}
		return ""
	}
	vns, vsa := wire.Dec(f[3]), wire.Dec(f[4])
	for _, ref := range refs {
		ok := false
		for _, base := range []string{ref, strings.TrimSuffix(ref, "-cacert")} {
			for _, g := range s.gws {
				expNs := g.Namespace
				if v := g.Annotations[constants.InternalParentNamespace]; v != "" {
					expNs = v
				}
				expSA := g.Annotations[constants.InternalServiceAccount]
				if vns != expNs || (expSA != "" && vsa != expSA) {
					continue
				}
				ls := strings.HasPrefix(g.Annotations[constants.InternalParentNames], "ListenerSet/")
				lookup := vns
				if ls {
					lookup = g.Namespace
				}
				if s.grants[grantKey(ls, base, lookup)] {
					ok = true
				}
				// namespace the reference names: first segment after the scheme, the verified namespace if there is none
				_, rest, found := strings.Cut(base, "://")
				if !found {
					continue
				}
				refNs := vns
				if i := strings.Index(rest, "/"); i >= 0 {
					refNs = rest[:i]
				}
				if refNs == lookup && (g.Namespace == vns || ls) {
					ok = true
				}
			}
		}
		if !ok {
			return "reference-neither-same-namespace-nor-granted " + wire.Enc(ref)
		}
	}
	return ""
}
