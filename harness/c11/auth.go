package main

import (
	"context"
	"errors"
	"fmt"
	"net"
	"strconv"
	"strings"

	core "github.com/envoyproxy/go-control-plane/envoy/config/core/v3"
	"google.golang.org/grpc/credentials"
	"google.golang.org/grpc/peer"
	"google.golang.org/protobuf/types/known/structpb"

	"istio.io/istio/pilot/pkg/features"
	"istio.io/istio/pilot/pkg/model"
	pxds "istio.io/istio/pilot/pkg/xds"
	"istio.io/istio/pkg/security"
	"istio.io/istio/pkg/spiffe"
	"verifharness/internal/wire"
)

// ---------------------------------------------------------------- stream auth: real code

type authSUT struct{}

func (a *authSUT) close() {}

func showID(id *spiffe.Identity) string {
	if id == nil {
		return "none"
	}
	return fmt.Sprintf("%s %s %s", wire.Enc(id.TrustDomain), wire.Enc(id.Namespace), wire.Enc(id.ServiceAccount))
}

func decIDs(tok string) []string {
	if tok == "nil" {
		return nil
	}
	l := wire.DecList(tok)
	if l == nil {
		l = []string{}
	}
	return l
}

// fakeAuthn is a configured security.Authenticator with a scripted answer: a caller with identities,
// an error, (nil, nil), or a caller together with an error (which must not count as success).
type fakeAuthn struct {
	ids       []string
	err       error
	nilCaller bool
}

func (f fakeAuthn) Authenticate(security.AuthContext) (*security.Caller, error) {
	if f.nilCaller {
		return nil, f.err
	}
	return &security.Caller{Identities: f.ids}, f.err
}
func (f fakeAuthn) AuthenticatorType() string { return "verif" }

// decAuthn decodes one authenticator answer token: `err` = (nil, error), `nil` = (nil, nil),
// `both:<ids>` = (caller, error), otherwise `<ids>` = (caller, nil).
func decAuthn(tok string) fakeAuthn {
	switch {
	case tok == "err":
		return fakeAuthn{nilCaller: true, err: errors.New("rejected")}
	case tok == "nil":
		return fakeAuthn{nilCaller: true}
	case strings.HasPrefix(tok, "both:"):
		return fakeAuthn{ids: wire.DecList(tok[5:]), err: errors.New("rejected")}
	}
	return fakeAuthn{ids: wire.DecList(tok)}
}

// genAuthnResult scripts one authenticator for a client claiming (ns, sa).
func genAuthnResult(r *wire.Rng, ns, sa string) string {
	switch r.Intn(12) {
	case 0, 1:
		return "err"
	case 2:
		return "nil"
	case 3:
		return "both:" + genIDListFor(r, ns, sa, false)
	}
	return genIDListFor(r, ns, sa, false)
}

func peerCtx(kind string) context.Context {
	ctx := context.Background()
	addr := &net.TCPAddr{IP: net.IPv4(127, 0, 0, 1), Port: 15012}
	switch kind {
	case "plain":
		return peer.NewContext(ctx, &peer.Peer{Addr: addr})
	case "tls":
		return peer.NewContext(ctx, &peer.Peer{Addr: addr, AuthInfo: credentials.TLSInfo{}})
	}
	return ctx
}

// connect runs initProxyMetadata + authorize exactly as initConnection orders them.
func connect(flag bool, nodeID, metaNs, metaSA string, ids []string) (proxy *model.Proxy, badNode bool, err error) {
	old := features.EnableXDSIdentityCheck
	features.EnableXDSIdentityCheck = flag
	defer func() { features.EnableXDSIdentityCheck = old }()
	s := &pxds.DiscoveryServer{}
	fields := map[string]any{}
	if metaNs != "" {
		fields["NAMESPACE"] = metaNs
	}
	if metaSA != "" {
		fields["SERVICE_ACCOUNT"] = metaSA
	}
	md, merr := structpb.NewStruct(fields)
	if merr != nil {
		return nil, true, nil
	}
	proxy, perr := pxds.VerifC11InitProxyMetadata(s, &core.Node{Id: nodeID, Metadata: md})
	if perr != nil {
		return nil, true, nil
	}
	return proxy, false, pxds.VerifC11Authorize(s, proxy, ids)
}

func (a *authSUT) apply(f []string) string {
	switch f[0] {
	case "case":
		return "ok"
	case "pid":
		id, err := spiffe.ParseIdentity(wire.Dec(f[1]))
		if err != nil {
			return "err"
		}
		return "ok " + showID(&id)
	case "check":
		p := &model.Proxy{ConfigNamespace: wire.Dec(f[1]), Metadata: &model.NodeMetadata{ServiceAccount: wire.Dec(f[2])}}
		id, err := pxds.VerifC11CheckConnectionIdentity(p, decIDs(f[3]))
		if err != nil {
			return "err"
		}
		return "ok " + showID(id)
	case "conn":
		proxy, bad, err := connect(f[1] == "1", wire.Dec(f[2]), wire.Dec(f[4]), wire.Dec(f[5]), decIDs(f[6]))
		if bad {
			return "badnode"
		}
		if err != nil {
			return "cfg=" + wire.Enc(proxy.ConfigNamespace) + " denied"
		}
		return "cfg=" + wire.Enc(proxy.ConfigNamespace) + " ok " + showID(proxy.VerifiedIdentity)
	case "authn":
		oldA, oldP := features.XDSAuth, security.AuthPlaintext
		features.XDSAuth, security.AuthPlaintext = f[1] == "1", f[3] == "1"
		defer func() { features.XDSAuth, security.AuthPlaintext = oldA, oldP }()
		s := &pxds.DiscoveryServer{}
		for _, r := range f[4:] {
			s.Authenticators = append(s.Authenticators, decAuthn(r))
		}
		ids, err := pxds.VerifC11Authenticate(s, peerCtx(f[2]))
		if err != nil {
			return "err"
		}
		if ids == nil {
			return "nil"
		}
		return "ids " + wire.EncList(ids)
	}
	return "bad-op"
}

// ---------------------------------------------------------------- stream auth: generator

var (
	nsUniverse = []string{"ns1", "ns2", "istio-system", "ns1", "ns2", "", "n.s", "ns1 ", "NS1", "ns", "sa"}
	saUniverse = []string{"sa1", "sa2", "default", "sa1", "", "s a", "sa"}
	tdUniverse = []string{"cluster.local", "td2", "", "cluster.local"}
)

// mutateIdentity renders (td, ns, sa) as a credential string: mostly well-formed, sometimes one of the
// malformed variants that must not parse.
func mutateIdentity(r *wire.Rng, td, ns, sa string, malformed int) string {
	good := "spiffe://" + td + "/ns/" + ns + "/sa/" + sa
	if r.Intn(100) >= malformed {
		return good
	}
	switch r.Intn(10) {
	case 0:
		return td + "/ns/" + ns + "/sa/" + sa // no scheme
	case 1:
		return "spiffe://" + td + "/ns/" + ns // too short
	case 2:
		return good + "/extra"
	case 3:
		return "spiffe://" + td + "/sa/" + sa + "/ns/" + ns // swapped segments
	case 4:
		return "SPIFFE://" + td + "/ns/" + ns + "/sa/" + sa
	case 5:
		return "spiffe://" + td + "/ns/" + ns + "/sa/" // empty service account (parses)
	case 6:
		return "spiffe://" + td + "/x/ns/" + ns + "/sa/" + sa
	case 7:
		return "spiffe:/" + td + "/ns/" + ns + "/sa/" + sa
	case 8:
		return wire.Pick(r, []string{"", "spiffe://", "spiffe:////", "dns.name.example", "spiffe://a/ns/b/sa", "spiffe://ns/ns/ns/sa/sa",
			"spiffe://td/ns/ns1/sa/sa1?x=1", "spiffe://td/ns/ns1,spiffe://td/ns/ns2/sa/sa1", "spiffe://td/ns/é/sa/世"})
	}
	return "spiffe://" + td + "/NS/" + ns + "/sa/" + sa
}

func genIdentity(r *wire.Rng) string {
	return mutateIdentity(r, wire.Pick(r, tdUniverse), wire.Pick(r, nsUniverse), wire.Pick(r, saUniverse), 45)
}

// genIDListFor builds a credential list for a client claiming (ns, sa): some entries prove the claim,
// some are well-formed for other namespaces/accounts, some are malformed.
func genIDListFor(r *wire.Rng, ns, sa string, allowNil bool) string {
	if allowNil && r.Chance(1, 8) {
		return "nil"
	}
	n := 1 + r.Intn(4)
	if r.Chance(1, 2) {
		n = 1
	}
	if r.Chance(1, 15) {
		n = 0
	}
	var l []string
	for i := 0; i < n; i++ {
		td := wire.Pick(r, tdUniverse)
		switch r.Intn(6) {
		case 0, 1, 2:
			s := sa
			if s == "" || r.Chance(1, 5) {
				s = wire.Pick(r, saUniverse)
			}
			l = append(l, mutateIdentity(r, td, ns, s, 15))
		case 3:
			l = append(l, mutateIdentity(r, td, wire.Pick(r, nsUniverse), sa, 10))
		default:
			l = append(l, genIdentity(r))
		}
	}
	return wire.EncList(l)
}

func genIDList(r *wire.Rng, allowNil bool) string {
	if allowNil && r.Chance(1, 7) {
		return "nil"
	}
	n := r.Intn(5)
	if r.Chance(1, 2) {
		n = 1
	}
	var l []string
	for i := 0; i < n; i++ {
		l = append(l, genIdentity(r))
	}
	return wire.EncList(l)
}

var (
	nodeTypes = []string{"sidecar", "router", "waypoint", "ztunnel", "agentgateway", "sidecar", "router", "sidecar", "router", "sidecar", "router",
		"ingress", "", "Sidecar"}
	ipPicks = []struct {
		ip string
		ok bool
	}{{"1.2.3.4", true}, {"10.0.0.1", true}, {"fe80::1", true}, {"1.2.3.4", true}, {"10.1.1.1", true}, {"::1", true}, {"", false}, {"notanip", false},
		{"1.2.3", false}}
)

// genNode renders a node id whose DNS domain is `dom`; mostly well-formed.
func genNode(r *wire.Rng, dom string) (string, bool) {
	ty, ip := wire.Pick(r, nodeTypes[:11]), wire.Pick(r, ipPicks[:6])
	if r.Chance(1, 10) {
		ty = wire.Pick(r, nodeTypes)
	}
	if r.Chance(1, 8) {
		ip = wire.Pick(r, ipPicks)
	}
	id := "pod-" + strconv.Itoa(r.Intn(3)) + "." + wire.Pick(r, nsUniverse)
	parts := []string{ty, ip.ip, id, dom}
	switch r.Intn(30) {
	case 0:
		parts = parts[:3]
	case 1:
		parts = append(parts, "extra")
	case 2:
		return "", ip.ok
	}
	return strings.Join(parts, "~"), ip.ok
}

func genAuth(seed uint64, n int, outp string) {
	out := wire.Create(outp)
	defer out.Close()
	root := wire.NewRng(seed ^ 0xC11A)
	for c := 0; c < n; c++ {
		r := root.Fork()
		out.Line("case", strconv.Itoa(c), "auth")
		for i, k := 0, 1+r.Intn(6); i < k; i++ {
			switch r.Intn(10) {
			case 0:
				out.Line("pid", wire.Enc(genIdentity(r)))
			case 1, 2:
				cns, csa := wire.Pick(r, nsUniverse), wire.Pick(r, saUniverse)
				out.Line("check", wire.Enc(cns), wire.Enc(csa), genIDListFor(r, cns, csa, false))
			case 3:
				peerKind := wire.Pick(r, []string{"none", "plain", "tls", "tls", "tls"})
				toks := []string{"authn", wire.B(r.Chance(5, 6)), peerKind, wire.B(r.Chance(1, 5))}
				for j, m := 0, r.Intn(4); j < m; j++ {
					toks = append(toks, genAuthnResult(r, wire.Pick(r, nsUniverse), wire.Pick(r, saUniverse)))
				}
				out.Line(toks...)
			default:
				// the namespace the client wants to act as, expressed through metadata, the DNS domain, or both
				cns := wire.Pick(r, []string{"ns1", "ns2", "istio-system", "ns1", "ns2", "n.s", "NS1"})
				metaNs, dom := cns, cns+".svc.cluster.local"
				switch r.Intn(12) {
				case 0, 1, 2:
					metaNs = "" // namespace only through the DNS domain (first label; "n.s" yields "n")
				case 3:
					dom = wire.Pick(r, []string{"ns1", "ns2", "istio-system"}) + ".svc.cluster.local" // conflicting domain: metadata wins
				case 4:
					metaNs, dom = "", wire.Pick(r, []string{"nodots", "", ".lead"}) // no namespace claimed at all
				case 5:
					dom = wire.Pick(r, []string{"nodots", "", "ns1.", "x.y"})
				}
				eff := metaNs
				if eff == "" {
					eff = strings.Split(dom, ".")[0]
				}
				metaSA := ""
				if r.Chance(1, 2) {
					metaSA = wire.Pick(r, saUniverse)
				}
				node, ipok := genNode(r, dom)
				out.Line("conn", wire.B(r.Chance(9, 10)), wire.Enc(node), wire.B(ipok), wire.Enc(metaNs), wire.Enc(metaSA), genIDListFor(r, eff, metaSA, true))
			}
		}
	}
}

// ---------------------------------------------------------------- stream auth: property oracle
//
// Clause evaluated on the real functions, without the Lean model: an accepted connection with identity
// checking on and a non-nil identity list carries a VerifiedIdentity that (1) is literally one of the
// presented credentials, (2) has the namespace the proxy will be treated as (proxy.ConfigNamespace, when
// non-empty) and (3) the claimed service account (when claimed).  Unauthenticated (nil identities)
// connections never obtain a VerifiedIdentity.

func oracleAuthOp(f []string) string {
	switch f[0] {
	case "conn":
		flag := f[1] == "1"
		ids := decIDs(f[6])
		proxy, bad, err := connect(flag, wire.Dec(f[2]), wire.Dec(f[4]), wire.Dec(f[5]), ids)
		if bad || err != nil {
			return ""
		}
		v := proxy.VerifiedIdentity
		if ids == nil || !flag {
			if v != nil {
				return "verified-identity-without-check"
			}
			return ""
		}
		if v == nil {
			return "accepted-without-verified-identity"
		}
		literal := false
		for _, raw := range ids {
			if raw == "spiffe://"+v.TrustDomain+"/ns/"+v.Namespace+"/sa/"+v.ServiceAccount {
				literal = true
			}
		}
		if !literal {
			return "verified-identity-not-a-presented-credential"
		}
		if proxy.ConfigNamespace != "" && v.Namespace != proxy.ConfigNamespace {
			return "namespace-not-proven-by-credential"
		}
		if proxy.Metadata.ServiceAccount != "" && v.ServiceAccount != proxy.Metadata.ServiceAccount {
			return "service-account-not-proven-by-credential"
		}
		if strings.Contains(v.Namespace, "/") || strings.Contains(v.ServiceAccount, "/") {
			return "verified-identity-contains-slash"
		}
	case "check":
		p := &model.Proxy{ConfigNamespace: wire.Dec(f[1]), Metadata: &model.NodeMetadata{ServiceAccount: wire.Dec(f[2])}}
		v, err := pxds.VerifC11CheckConnectionIdentity(p, decIDs(f[3]))
		if err != nil {
			return ""
		}
		if v == nil {
			return "accepted-without-verified-identity"
		}
		if p.ConfigNamespace != "" && v.Namespace != p.ConfigNamespace {
			return "namespace-not-proven-by-credential"
		}
		if p.Metadata.ServiceAccount != "" && v.ServiceAccount != p.Metadata.ServiceAccount {
			return "service-account-not-proven-by-credential"
		}
	case "authn":
		a := &authSUT{}
		res := a.apply(f)
		if strings.HasPrefix(res, "ids") && f[2] != "tls" && f[3] != "1" {
			return "identities-on-plaintext-stream"
		}
		if res == "ids -" {
			return "authenticated-with-empty-identities"
		}
		// authentication on, a TLS peer (or opted-in plaintext), and no authenticator succeeds: the stream must be
		// rejected, never downgraded to "unauthenticated but accepted"
		if f[1] == "1" && (f[2] == "tls" || (f[2] == "plain" && f[3] == "1")) {
			success := false
			for _, r := range f[4:] {
				if x := decAuthn(r); x.err == nil && !x.nilCaller && len(x.ids) > 0 {
					success = true
				}
			}
			if !success && res != "err" {
				return "failed-authentication-not-rejected"
			}
			if success && !strings.HasPrefix(res, "ids") {
				return "successful-authentication-lost"
			}
		}
	}
	return ""
}
