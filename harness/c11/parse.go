package main

import (
	"strconv"
	"strings"

	"istio.io/istio/pilot/pkg/model/credentials"
	"istio.io/istio/pkg/cluster"
	"verifharness/internal/wire"
)

// ---------------------------------------------------------------- stream parse: real code

type parseSUT struct{}

func (p *parseSUT) close() {}

func (p *parseSUT) apply(f []string) string {
	switch f[0] {
	case "case":
		return "ok"
	case "prn":
		sr, err := credentials.ParseResourceName(wire.Dec(f[1]), wire.Dec(f[2]), cluster.ID(wire.Dec(f[3])), cluster.ID(wire.Dec(f[4])))
		if err != nil {
			return "err"
		}
		return strings.Join([]string{"ok", wire.Enc(sr.ResourceType), wire.Enc(sr.ResourceKind.String()), wire.Enc(sr.Name), wire.Enc(sr.Namespace),
			wire.Enc(sr.ResourceName), wire.Enc(string(sr.Cluster)), "key=" + wire.Enc(sr.Key())}, " ")
	case "tkgr":
		// credentials.ToKubernetesGatewayResource(namespace, name)
		return "ok " + wire.Enc(credentials.ToKubernetesGatewayResource(wire.Dec(f[1]), wire.Dec(f[2])))
	case "krn":
		// SecretResource.KubernetesResourceName() of the parsed name
		sr, err := credentials.ParseResourceName(wire.Dec(f[1]), wire.Dec(f[2]), "", "")
		if err != nil {
			return "err"
		}
		return "ok " + wire.Enc(sr.KubernetesResourceName())
	case "trn":
		return "ok " + wire.Enc(credentials.ToResourceName(wire.Dec(f[1])))
	}
	return "bad-op"
}

// ---------------------------------------------------------------- resource-name grammar (shared with sds)

var (
	prefixes = []string{"kubernetes://", "kubernetes://", "kubernetes://", "kubernetes-gateway://", "kubernetes-gateway://", "configmap://", "configmap://",
		"invalid://", "builtin://", "", "kubernetes:/", "Kubernetes://", "kubernetes-gateway:/", "file://", "kubernetes-gateway//", "configmaps://",
		"kubernetes://kubernetes://", "kubernetes://configmap://"}
	segs = []string{"ns1", "ns2", "ns1", "ns2", "istio-system", "a", "b", "a", "gw", "cm", "a-cacert", "b-cacert", "tricky-cacert", "-cacert", "",
		"..", ".", " ", "ns1%2Fa", "a?ns=ns2", "NS1", "ns1-cacert", "é", "a-cacert-v2", "-cacert-x", "x-cacert-cacert", "cacert", "a-cacertx"}
)

func genName(r *wire.Rng) string {
	p := wire.Pick(r, prefixes)
	n := r.Intn(5)
	if r.Chance(2, 3) {
		n = 1 + r.Intn(2)
	}
	var parts []string
	for i := 0; i < n; i++ {
		parts = append(parts, wire.Pick(r, segs))
	}
	return p + strings.Join(parts, "/")
}

func genParse(seed uint64, n int, outp string) {
	out := wire.Create(outp)
	defer out.Close()
	root := wire.NewRng(seed ^ 0xC11B)
	clusters := []string{"c1", "c2", "Kubernetes", ""}
	for c := 0; c < n; c++ {
		r := root.Fork()
		out.Line("case", strconv.Itoa(c), "parse")
		for i, k := 0, 1+r.Intn(5); i < k; i++ {
			switch r.Intn(8) {
			case 0:
				out.Line("tkgr", wire.Enc(wire.Pick(r, nsUniverse)), wire.Enc(wire.Pick(r, append(append([]string{}, segs...), "builtin://", "builtin://x", "a/b", genName(r)))))
			case 1:
				out.Line("krn", wire.Enc(genName(r)), wire.Enc(wire.Pick(r, nsUniverse)))
			case 2:
				out.Line("trn", wire.Enc(wire.Pick(r, append(append([]string{}, segs...), "builtin://", "builtin://x", "invalid://y", genName(r), genName(r)))))
			default:
				out.Line("prn", wire.Enc(genName(r)), wire.Enc(wire.Pick(r, nsUniverse)), wire.Enc(wire.Pick(r, clusters)), wire.Enc(wire.Pick(r, clusters)))
			}
		}
	}
}

// ---------------------------------------------------------------- stream parse: property oracle
//
// A name that syntactically names a namespace (scheme://<ns>/<name>...) never resolves to another one;
// only the implicit form kubernetes://<name> resolves to the proxy's namespace; names outside the three
// schemes are errors or the unreadable `invalid` type.

func oracleParseOp(f []string) string {
	if f[0] != "prn" {
		return ""
	}
	rn, pns := wire.Dec(f[1]), wire.Dec(f[2])
	sr, err := credentials.ParseResourceName(rn, pns, cluster.ID(wire.Dec(f[3])), cluster.ID(wire.Dec(f[4])))
	scheme, rest, found := strings.Cut(rn, "://")
	known := found && (scheme == "kubernetes" || scheme == "kubernetes-gateway" || scheme == "configmap")
	if !known {
		if err == nil && sr.ResourceType != credentials.InvalidSecretType {
			return "unknown-scheme-readable"
		}
		return ""
	}
	if err != nil {
		return ""
	}
	if sr.ResourceType != scheme {
		return "type-differs-from-scheme"
	}
	if sr.ResourceName != rn {
		return "resource-name-rewritten"
	}
	if i := strings.Index(rest, "/"); i >= 0 {
		if sr.Namespace != rest[:i] {
			return "explicit-namespace-not-honoured"
		}
		name := rest[i+1:]
		if j := strings.Index(name, "/"); j >= 0 {
			name = name[:j]
		}
		if sr.Name != name {
			return "name-not-second-segment"
		}
	} else {
		if scheme != "kubernetes" {
			return "namespace-required-but-accepted"
		}
		if sr.Namespace != pns || sr.Name != rest {
			return "implicit-namespace-not-proxy-namespace"
		}
	}
	if scheme != "kubernetes" && (sr.Namespace == "" || sr.Name == "") {
		return "empty-namespace-or-name-accepted"
	}
	return ""
}
