package main

import (
	"context"
	"encoding/base64"
	"errors"
	"fmt"
	"io"
	"os"
	"strconv"
	"strings"
	"sync"
	"time"

	cryptomb "github.com/envoyproxy/go-control-plane/contrib/envoy/extensions/private_key_providers/cryptomb/v3alpha"
	qat "github.com/envoyproxy/go-control-plane/contrib/envoy/extensions/private_key_providers/qat/v3alpha"
	core "github.com/envoyproxy/go-control-plane/envoy/config/core/v3"
	envoytls "github.com/envoyproxy/go-control-plane/envoy/extensions/transport_sockets/tls/v3"
	discovery "github.com/envoyproxy/go-control-plane/envoy/service/discovery/v3"
	"google.golang.org/grpc/codes"
	"google.golang.org/grpc/metadata"
	"google.golang.org/grpc/status"
	"google.golang.org/protobuf/types/known/anypb"
	"google.golang.org/protobuf/types/known/structpb"
	corev1 "k8s.io/api/core/v1"
	metav1 "k8s.io/apimachinery/pkg/apis/meta/v1"
	"k8s.io/apimachinery/pkg/runtime"
	sa "k8s.io/apiserver/pkg/authentication/serviceaccount"
	"k8s.io/client-go/kubernetes/fake"

	networking "istio.io/api/networking/v1alpha3"
	"istio.io/istio/pilot/pkg/features"
	"istio.io/istio/pilot/pkg/model"
	pxds "istio.io/istio/pilot/pkg/xds"
	v3 "istio.io/istio/pilot/pkg/xds/v3"
	txds "istio.io/istio/pilot/test/xds"
	"istio.io/istio/pkg/cluster"
	"istio.io/istio/pkg/config"
	"istio.io/istio/pkg/config/constants"
	"istio.io/istio/pkg/config/schema/gvk"
	"istio.io/istio/pkg/config/schema/kind"
	"istio.io/istio/pkg/kube"
	"istio.io/istio/pkg/security"
	"istio.io/istio/pkg/spiffe"
	"istio.io/istio/pkg/util/sets"
	"verifharness/internal/quiet"
	"verifharness/internal/wire"
)

// Stream `stream`: the identity binding on the REAL connection path.  Every op opens one real ADS
// (DiscoveryServer.Stream) or delta (DiscoveryServer.StreamDeltas) stream on a pilot/test/xds
// FakeDiscoveryServer with a real gRPC peer context (plaintext / TLS) and fake security.Authenticators,
// sends one real first request (node id + metadata, type SDS, secret names) and observes: how the
// stream ends (accepted / PermissionDenied / Unauthenticated / InvalidArgument), the VerifiedIdentity and
// ConfigNamespace of the registered connection, and the secrets in the response actually sent.

const streamCluster = "Kubernetes"

// The fixed world of the stream server; the generator writes the same world into every case so that
// the Lean driver knows it.
type worldSecret struct {
	ns, name string
	data     [6]string // cert key cacert tls.crt tls.key ca.crt ("" = absent)
}

var (
	streamSecrets = []worldSecret{
		{"ns1", "a", [6]string{"S:Kubernetes:ns1:a:cert", "S:Kubernetes:ns1:a:key", "", "", "", ""}},
		{"ns2", "a", [6]string{"", "", "", "S:Kubernetes:ns2:a:tls.crt", "S:Kubernetes:ns2:a:tls.key", "S:Kubernetes:ns2:a:ca.crt"}},
		{"ns1", "b", [6]string{"", "", "S:Kubernetes:ns1:b:cacert", "", "", ""}},
		{"istio-system", "a", [6]string{"S:Kubernetes:istio-system:a:cert", "S:Kubernetes:istio-system:a:key", "", "", "", ""}},
		{"ns1", "c", [6]string{"S:Kubernetes:ns1:c:cert", "S:Kubernetes:ns1:c:key", "", "", "", ""}},
		{"ns1", "d", [6]string{"", "", "", "S:Kubernetes:ns1:d:tls.crt", "S:Kubernetes:ns1:d:tls.key", ""}},
		{"ns1", "e", [6]string{"S:Kubernetes:ns1:e:cert", "S:Kubernetes:ns1:e:key", "", "", "", ""}},
	}
	// a Gateway that is created or deleted while streams are alive (scoped push with ConfigsUpdated = {Gateway})
	optionalGateway = worldGateway{"ns1", "", nil, []worldServer{{"kubernetes-gateway://ns1/e", "SIMPLE"}}}
	// ClusterAliases of the discovery server: the client-claimed CLUSTER_ID is rewritten before anything else
	streamAliases = [][2]string{{"alias-k", "Kubernetes"}, {"alias-x", "nowhere"}}
	streamAllow   = [][2]string{{"sa1", "ns1"}, {"sa1", "ns2"}, {"sa2", "ns2"}, {"sa1", "istio-system"}} // (sa, ns)
)

// Gateways and ReferenceGrants of the stream world: mergeGateways -> proxy.MergedGateway -> SDS filter run as one
// piece on the real connection, with the real ReferenceGrant evaluation of the gateway controller.
type worldServer struct{ cred, mode string }
type worldGateway struct {
	ns, saAnn string
	selector  [][2]string // nil: no selector (applies to every gateway proxy)
	servers   []worldServer
}

var (
	streamGateways = []worldGateway{
		{"ns1", "", nil, []worldServer{{"kubernetes-gateway://ns1/a", "SIMPLE"}, {"kubernetes-gateway://ns2/a", "MUTUAL"}, {"kubernetes-gateway://istio-system/a", "SIMPLE"}}},
		{"ns2", "sa1", nil, []worldServer{{"kubernetes-gateway://ns2/a", "SIMPLE"}}},
		{"ns1", "", [][2]string{{"app", "edge"}}, []worldServer{{"kubernetes-gateway://ns1/c", "SIMPLE"}}},
		{"ns1", "", [][2]string{{"app", "edge"}, {"tier", "x"}}, []worldServer{{"kubernetes-gateway://ns1/d", "SIMPLE"}}},
	}
	streamGrants = []rgSpec{{srcNs: "ns2", from: "G", fromNs: "ns1", to: "S", name: "*"}, {srcNs: "istio-system", from: "H", fromNs: "ns1", to: "S", name: "*"}}
)

func streamConfigs() []config.Config {
	var out []config.Config
	port := 8443
	for i, g := range streamGateways {
		gw := &networking.Gateway{}
		for _, sv := range g.servers {
			port++
			gw.Servers = append(gw.Servers, &networking.Server{
				Port:  &networking.Port{Number: uint32(port), Protocol: "HTTPS", Name: "p" + strconv.Itoa(port)},
				Hosts: []string{"h" + strconv.Itoa(port) + ".example.com"},
				Tls:   &networking.ServerTLSSettings{Mode: tlsMode(sv.mode), CredentialName: sv.cred},
			})
		}
		ann := map[string]string{}
		if g.saAnn != "" {
			ann[constants.InternalServiceAccount] = g.saAnn
		}
		if g.selector != nil {
			gw.Selector = map[string]string{}
			for _, kv := range g.selector {
				gw.Selector[kv[0]] = kv[1]
			}
		}
		out = append(out, config.Config{
			Meta: config.Meta{GroupVersionKind: gvk.Gateway, Name: "gw" + strconv.Itoa(i), Namespace: g.ns, Annotations: ann},
			Spec: gw,
		})
	}
	return out
}

func optionalGatewayConfig() config.Config {
	g := optionalGateway
	return config.Config{
		Meta: config.Meta{GroupVersionKind: gvk.Gateway, Name: "gw-optional", Namespace: g.ns},
		Spec: &networking.Gateway{Servers: []*networking.Server{{
			Port:  &networking.Port{Number: 9443, Protocol: "HTTPS", Name: "p9443"},
			Hosts: []string{"optional.example.com"},
			Tls:   &networking.ServerTLSSettings{Mode: tlsMode(g.servers[0].mode), CredentialName: g.servers[0].cred},
		}}},
	}
}

// setOptionalGateway creates or deletes the optional Gateway in the server's config store (which triggers the real
// scoped push: ConfigsUpdated = {Gateway ns1/gw-optional}) and waits until the push context has it.
func (s *streamSUT) setOptionalGateway(present bool) {
	srv := s.server()
	cfg := optionalGatewayConfig()
	if present {
		_, _ = srv.Store().Create(cfg)
	} else {
		_ = srv.Store().Delete(gvk.Gateway, cfg.Name, cfg.Namespace, nil)
	}
	time.Sleep(2 * time.Millisecond)
	c := srv.Discovery.InboundUpdates.Load()
	for i := 0; i < 20000 && srv.Discovery.CommittedUpdates.Load() < c; i++ {
		time.Sleep(time.Millisecond)
	}
}

func writeStreamWorld(out *wire.Out) {
	for _, a := range streamAliases {
		out.Line("alias", a[0], a[1])
	}
	for _, g := range streamGateways {
		if g.selector == nil {
			out.Line("gw", g.ns, wire.Enc(g.saAnn), "~", "~")
		} else {
			var kv []string
			for _, x := range g.selector {
				kv = append(kv, x[0]+"="+x[1])
			}
			out.Line("gw", g.ns, wire.Enc(g.saAnn), "~", "~", wire.EncList(kv))
		}
		for _, sv := range g.servers {
			out.Line("srv", "1", "-", wire.Enc(sv.cred), sv.mode, "~")
		}
	}
	out.Line("gwopt", optionalGateway.ns, wire.Enc(optionalGateway.servers[0].cred))
	for _, g := range streamGrants {
		out.Line("rgrant", g.srcNs, g.from, g.fromNs, g.to, wire.Enc(g.name))
	}
	out.Line("cluster", streamCluster)
	for _, s := range streamSecrets {
		toks := []string{"secret", streamCluster, s.ns, s.name}
		for _, d := range s.data {
			toks = append(toks, wire.Enc(d))
		}
		out.Line(toks...)
	}
	for _, a := range streamAllow {
		out.Line("allow", streamCluster, a[0], a[1])
	}
	out.Line("start", streamCluster)
}

type failer struct{ cleanups []func() }

func (f *failer) Fail()                          { panic("harness: Fail") }
func (f *failer) FailNow()                       { panic("harness: FailNow") }
func (f *failer) Fatal(args ...any)              { panic(fmt.Sprint(args...)) }
func (f *failer) Fatalf(format string, a ...any) { panic(fmt.Sprintf(format, a...)) }
func (f *failer) Log(args ...any)                {}
func (f *failer) Logf(format string, a ...any)   {}
func (f *failer) TempDir() string                { d, _ := os.MkdirTemp("", "c11"); return d }
func (f *failer) Helper()                        {}
func (f *failer) Cleanup(fn func())              { f.cleanups = append(f.cleanups, fn) }
func (f *failer) Skip(args ...any)               {}
func (f *failer) done() {
	for i := len(f.cleanups) - 1; i >= 0; i-- {
		f.cleanups[i]()
	}
	f.cleanups = nil
}

type streamSUT struct {
	f   *failer
	srv *txds.FakeDiscoveryServer
}

func (s *streamSUT) close() {
	if s.f != nil {
		s.f.done()
		s.f = nil
	}
}

func (s *streamSUT) server() *txds.FakeDiscoveryServer {
	if s.srv != nil {
		return s.srv
	}
	s.f = &failer{}
	var objs []runtime.Object
	keys := []string{"cert", "key", "cacert", "tls.crt", "tls.key", "ca.crt"}
	for _, sec := range streamSecrets {
		d := map[string][]byte{}
		for i, k := range keys {
			if sec.data[i] != "" {
				d[k] = []byte(sec.data[i])
			}
		}
		objs = append(objs, &corev1.Secret{ObjectMeta: metav1.ObjectMeta{Name: sec.name, Namespace: sec.ns}, Data: d})
	}
	allowed := sets.New[string]()
	for _, a := range streamAllow {
		allowed.Insert(sa.MakeUsername(a[1], a[0]))
	}
	for i, g := range streamGrants {
		objs = append(objs, g.object(i))
	}
	s.srv = txds.NewFakeDiscoveryServer(s.f, txds.FakeOptions{
		Configs:           streamConfigs(),
		KubernetesObjects: objs,
		KubeClientModifier: func(c kube.Client) {
			installSAR(c.Kube().(*fake.Clientset), &sarPolicy{allow: allowed})
		},
	})
	// the fake server registers the debug generator before its debug mux exists; wire it as bootstrap does
	s.srv.Discovery.Generators[v3.DebugType] = pxds.NewDebugGen(s.srv.Discovery, "istio-system", s.srv.DiscoveryDebug)
	s.srv.Discovery.ClusterAliases = map[cluster.ID]cluster.ID{}
	for _, a := range streamAliases {
		s.srv.Discovery.ClusterAliases[cluster.ID(a[0])] = cluster.ID(a[1])
	}
	quiet.Silence()
	return s.srv
}

// ---------------------------------------------------------------- fake gRPC server streams

type observed struct {
	mu      sync.Mutex
	vid     *spiffe.Identity
	cfgNs   string
	seen    bool
	secrets []secretView   // everything sent on the stream
	segs    [][]secretView // per phase: answer to request 1, to request 2, to the push
	vidLost bool           // VerifiedIdentity changed while the stream was alive
}

type baseStream struct {
	ctx    context.Context
	srv    *pxds.DiscoveryServer
	obs    *observed
	calls  int
	wantID string        // proxy id (3rd part of the node id) of this op; ids are unique per op
	cancel chan struct{} // closed when the client gives up waiting (the stream already ended)
	plan   []string      // what the client does after the first request: "req2", "push"
	step   int
	fake   *txds.FakeDiscoveryServer
	change func() // the world change of the "gwchange" step
	quiet  bool   // the step just done produces no phase of its own
}

// Sentinel requests: cheap registered types that never fail; one distinct type per phase.
var sentinelTypes = []string{v3.ExtensionConfigurationType, v3.NameTableType, v3.ProxyConfigType, v3.WorkloadAuthorizationType, v3.WorkloadType}

func sentinelNames(n int) []string {
	if sentinelTypes[n] == v3.ExtensionConfigurationType {
		return []string{"verif-c11-none"} // not a wildcard type: an empty name list would be an unsubscribe
	}
	return nil
}

func (b *baseStream) proxy() *model.Proxy {
	for _, c := range b.srv.AllClients() {
		if p := c.Proxy(); p != nil && p.ID == b.wantID {
			return p
		}
	}
	return nil
}

// waitProcessed blocks until the server has finished every request sent before the sentinel: requests are
// handled in order on one goroutine, and handling the sentinel records a watch for its (unknown) type.
func (b *baseStream) waitProcessed(n int) {
	for i := 0; i < 20000; i++ {
		if b.cancel != nil {
			select {
			case <-b.cancel:
				return
			default:
			}
		}
		if p := b.proxy(); p == nil || p.GetWatchedResource(sentinelTypes[n]) != nil {
			return
		}
		time.Sleep(time.Millisecond)
	}
}

// closeSegment ends a phase: what was sent since the last call is the answer of that phase.
func (b *baseStream) closeSegment() {
	b.obs.mu.Lock()
	defer b.obs.mu.Unlock()
	n := 0
	for _, sg := range b.obs.segs {
		n += len(sg)
	}
	b.obs.segs = append(b.obs.segs, append([]secretView(nil), b.obs.secrets[n:]...))
	if p := b.proxy(); p != nil {
		same := (p.VerifiedIdentity == nil) == (b.obs.vid == nil)
		if same && p.VerifiedIdentity != nil {
			same = *p.VerifiedIdentity == *b.obs.vid
		}
		if !same {
			b.obs.vidLost = true
		}
	}
}

// triggerPush makes the server run a full push (new PushContext) and waits until this connection started it.
func (b *baseStream) triggerPush() {
	p := b.proxy()
	if p == nil {
		return
	}
	before := p.LastPushContext
	b.srv.ConfigUpdate(&model.PushRequest{Forced: true, Reason: model.NewReasonStats(model.GlobalUpdate)})
	for i := 0; i < 20000; i++ {
		if q := b.proxy(); q == nil || q.LastPushContext != before {
			return
		}
		time.Sleep(time.Millisecond)
	}
}

func (b *baseStream) SetHeader(metadata.MD) error  { return nil }
func (b *baseStream) SendHeader(metadata.MD) error { return nil }
func (b *baseStream) SetTrailer(metadata.MD)       {}
func (b *baseStream) Context() context.Context     { return b.ctx }
func (b *baseStream) SendMsg(any) error            { return nil }
func (b *baseStream) RecvMsg(any) error            { return nil }

// observeConnection runs when the server asks for the second message, i.e. after the first request
// passed initConnection: the connection is registered and its proxy carries the identity decision.
func (b *baseStream) observeConnection() {
	b.obs.mu.Lock()
	defer b.obs.mu.Unlock()
	for _, c := range b.srv.AllClients() {
		if p := c.Proxy(); p != nil && p.ID == b.wantID {
			b.obs.seen = true
			b.obs.cfgNs = p.ConfigNamespace
			if p.VerifiedIdentity != nil {
				v := *p.VerifiedIdentity
				b.obs.vid = &v
			}
		}
	}
}

func (b *baseStream) record(resources []*anypb.Any) {
	b.obs.mu.Lock()
	defer b.obs.mu.Unlock()
	for _, r := range resources {
		sec := &envoytls.Secret{}
		if err := r.UnmarshalTo(sec); err != nil {
			b.obs.secrets = append(b.obs.secrets, secretView{name: "?", kind: "X"})
			continue
		}
		v := secretView{name: sec.Name}
		if tc := sec.GetTlsCertificate(); tc != nil {
			v.kind, v.hasKey = "K", true
			v.cert = string(tc.GetCertificateChain().GetInlineBytes())
			v.key = string(tc.GetPrivateKey().GetInlineBytes())
			if pkp := tc.GetPrivateKeyProvider(); pkp != nil {
				v.kind = "P:" + pkp.GetProviderName()
				cm, qc := &cryptomb.CryptoMbPrivateKeyMethodConfig{}, &qat.QatPrivateKeyMethodConfig{}
				if pkp.GetTypedConfig().UnmarshalTo(cm) == nil {
					v.key = string(cm.GetPrivateKey().GetInlineBytes())
				} else if pkp.GetTypedConfig().UnmarshalTo(qc) == nil {
					v.key = string(qc.GetPrivateKey().GetInlineBytes())
				}
			}
		} else {
			v.kind = "C"
			v.cert = string(sec.GetValidationContext().GetTrustedCa().GetInlineBytes())
		}
		b.obs.secrets = append(b.obs.secrets, v)
	}
}

// The client script, identical for SotW and delta: request 1; [sentinel, wait] -> phase 1 closed; then for each
// planned step: req2 -> second SDS request (then sentinel, wait) / push -> full push (then sentinel, wait); EOF.
// next returns what Recv must do: "first", "sentinel:<n>", "req2", or "eof".
func (b *baseStream) next() string {
	b.calls++
	if b.calls == 1 {
		return "first"
	}
	if b.calls == 2 {
		b.observeConnection()
		return "sentinel:0"
	}
	// calls >= 3: the previous thing sent was a sentinel (even calls send sentinels) or a planned action
	if b.calls%2 == 1 {
		b.waitProcessed((b.calls - 3) / 2)
		if !b.quiet {
			b.closeSegment()
		}
		b.quiet = false
		if b.step >= len(b.plan) {
			return "eof"
		}
		act := b.plan[b.step]
		b.step++
		if act == "push" {
			b.triggerPush()
			b.calls++ // the push needs no message of its own: go straight to its sentinel
			return "sentinel:" + strconv.Itoa((b.calls-2)/2)
		}
		if act == "secpush" {
			// a scoped, non-forced push for one Secret: SDS is pushed incrementally from the proxy state the previous
			// (Gateway) push left behind - no request of the proxy in between recomputes it
			p := b.proxy()
			var before time.Time
			if p != nil {
				before = p.LastPushTime
			}
			b.srv.ConfigUpdate(&model.PushRequest{
				ConfigsUpdated: sets.New(model.ConfigKey{Kind: kind.Secret, Name: "e", Namespace: "ns1"}),
				Reason:         model.NewReasonStats(model.SecretTrigger),
			})
			for i := 0; i < 20000; i++ {
				if q := b.proxy(); q == nil || !q.LastPushTime.Equal(before) {
					break
				}
				time.Sleep(time.Millisecond)
			}
			b.calls++
			return "sentinel:" + strconv.Itoa((b.calls-2)/2)
		}
		if act == "gwchange" {
			// a Gateway is created / deleted: the server pushes on its own (scoped, not forced); SDS is not part of
			// that push, so the change shows in the next phase
			p := b.proxy()
			var before *model.PushContext
			if p != nil {
				before = p.LastPushContext
			}
			b.change()
			for i := 0; i < 20000; i++ {
				if q := b.proxy(); q == nil || q.LastPushContext != before {
					break
				}
				time.Sleep(time.Millisecond)
			}
			// no request of the proxy may come between the Gateway push and the Secret push: any request would make
			// the server recompute the whole proxy state (the default sidecar scope still carries the old push version)
			// and hide a stale MergedGateway. So the scoped Secret push follows at once.
			p = b.proxy()
			var beforeT time.Time
			if p != nil {
				beforeT = p.LastPushTime
			}
			b.srv.ConfigUpdate(&model.PushRequest{
				ConfigsUpdated: sets.New(model.ConfigKey{Kind: kind.Secret, Name: "e", Namespace: "ns1"}),
				Reason:         model.NewReasonStats(model.SecretTrigger),
			})
			for i := 0; i < 20000; i++ {
				if q := b.proxy(); q == nil || !q.LastPushTime.Equal(beforeT) {
					break
				}
				time.Sleep(time.Millisecond)
			}
			b.calls++
			return "sentinel:" + strconv.Itoa((b.calls-2)/2)
		}
		return act
	}
	return "sentinel:" + strconv.Itoa((b.calls-2)/2)
}

type sotwConn struct {
	baseStream
	first, second *discovery.DiscoveryRequest
}

func (s *sotwConn) Recv() (*discovery.DiscoveryRequest, error) {
	switch act := s.next(); {
	case act == "first":
		return s.first, nil
	case act == "req2":
		return s.second, nil
	case strings.HasPrefix(act, "sentinel:"):
		n, _ := strconv.Atoi(act[9:])
		return &discovery.DiscoveryRequest{TypeUrl: sentinelTypes[n], ResourceNames: sentinelNames(n)}, nil
	}
	return nil, io.EOF
}

func (s *sotwConn) Send(r *discovery.DiscoveryResponse) error {
	if r.TypeUrl == v3.SecretType {
		s.record(r.Resources)
	}
	return nil
}

type deltaConn struct {
	baseStream
	first, second *discovery.DeltaDiscoveryRequest
}

func (s *deltaConn) Recv() (*discovery.DeltaDiscoveryRequest, error) {
	switch act := s.next(); {
	case act == "first":
		return s.first, nil
	case act == "req2":
		return s.second, nil
	case strings.HasPrefix(act, "sentinel:"):
		n, _ := strconv.Atoi(act[9:])
		return &discovery.DeltaDiscoveryRequest{TypeUrl: sentinelTypes[n], ResourceNamesSubscribe: sentinelNames(n)}, nil
	}
	return nil, io.EOF
}

func (s *deltaConn) Send(r *discovery.DeltaDiscoveryResponse) error {
	if r.TypeUrl != v3.SecretType {
		return nil
	}
	var l []*anypb.Any
	for _, x := range r.Resources {
		l = append(l, x.Resource)
	}
	s.record(l)
	return nil
}

// streamOp is one decoded `stream` op.
type streamOp struct {
	delta            bool
	xdsAuth          bool
	peer             string
	plaintextOK      bool
	flag             bool
	nodeID           string
	metaNs, metaSA   string
	names            []string
	clusterID        string   // CLUSTER_ID node metadata (client-claimed; may be an alias)
	labels           []string // LABELS node metadata, k=v
	hasNames2        bool
	names2           []string // second SDS request on the same stream
	push             bool     // a full push while the stream is alive
	gwop             string   // none | add | del: the optional Gateway is created / deleted after phase 1
	authn            []security.Authenticator
	presentedIDs     []string // identities of every authenticator that answers without error
	anyAuthenticates bool
}

func decStream(f []string) streamOp {
	o := streamOp{delta: f[1] == "delta", xdsAuth: f[2] == "1", peer: f[3], plaintextOK: f[4] == "1", flag: f[5] == "1",
		nodeID: wire.Dec(f[6]), metaNs: wire.Dec(f[8]), metaSA: wire.Dec(f[9]), names: wire.DecList(f[10]),
		clusterID: wire.Dec(f[11]), labels: wire.DecList(f[12]), push: f[14] == "1", gwop: f[15]}
	if f[13] != "none" {
		o.hasNames2, o.names2 = true, wire.DecList(f[13])
	}
	for _, r := range f[16:] {
		a := decAuthn(r)
		o.authn = append(o.authn, a)
		if a.err == nil && !a.nilCaller && len(a.ids) > 0 {
			o.anyAuthenticates = true
			o.presentedIDs = append(o.presentedIDs, a.ids...)
		}
	}
	return o
}

type streamResult struct {
	outcome string // accepted | denied | unauthenticated | badnode | error:<code> | timeout
	obs     *observed
}

func (s *streamSUT) run(o streamOp) streamResult {
	srv := s.server()
	oldA, oldP, oldF := features.XDSAuth, security.AuthPlaintext, features.EnableXDSIdentityCheck
	features.XDSAuth, security.AuthPlaintext, features.EnableXDSIdentityCheck = o.xdsAuth, o.plaintextOK, o.flag
	oldAuthn := srv.Discovery.Authenticators
	srv.Discovery.Authenticators = o.authn
	defer func() {
		features.XDSAuth, security.AuthPlaintext, features.EnableXDSIdentityCheck = oldA, oldP, oldF
		srv.Discovery.Authenticators = oldAuthn
	}()
	fields := map[string]any{}
	if o.clusterID != "" {
		fields["CLUSTER_ID"] = o.clusterID
	}
	if len(o.labels) > 0 {
		lm := map[string]any{}
		for _, kv := range o.labels {
			k, v, _ := strings.Cut(kv, "=")
			lm[k] = v
		}
		fields["LABELS"] = lm
	}
	if o.metaNs != "" {
		fields["NAMESPACE"] = o.metaNs
	}
	if o.metaSA != "" {
		fields["SERVICE_ACCOUNT"] = o.metaSA
	}
	md, err := structpb.NewStruct(fields)
	if err != nil {
		return streamResult{outcome: "badnode", obs: &observed{}}
	}
	node := &core.Node{Id: o.nodeID, Metadata: md}
	obs := &observed{}
	base := baseStream{ctx: peerCtx(o.peer), srv: srv.Discovery, obs: obs}
	if parts := strings.Split(o.nodeID, "~"); len(parts) >= 3 {
		base.wantID = parts[2]
	}
	if o.gwop == "add" || o.gwop == "del" {
		if o.gwop == "del" {
			s.setOptionalGateway(true) // it exists when the proxy connects
		}
		base.plan = append(base.plan, "gwchange")
		base.change = func() { s.setOptionalGateway(o.gwop == "add") }
		defer s.setOptionalGateway(false)
	}
	if o.hasNames2 {
		base.plan = append(base.plan, "req2")
	}
	if o.push {
		base.plan = append(base.plan, "push")
	}
	done := make(chan error, 1)
	go func() {
		defer func() {
			if r := recover(); r != nil {
				done <- errors.New("panic")
			}
		}()
		if o.delta {
			done <- srv.Discovery.StreamDeltas(&deltaConn{baseStream: base,
				first:  &discovery.DeltaDiscoveryRequest{Node: node, TypeUrl: v3.SecretType, ResourceNamesSubscribe: o.names},
				second: &discovery.DeltaDiscoveryRequest{TypeUrl: v3.SecretType, ResourceNamesSubscribe: o.names2},
			})
		} else {
			done <- srv.Discovery.Stream(&sotwConn{baseStream: base,
				first: &discovery.DiscoveryRequest{Node: node, TypeUrl: v3.SecretType, ResourceNames: o.names},
				// an empty nonce makes the server treat it as a fresh subscription of exactly these names
				second: &discovery.DiscoveryRequest{TypeUrl: v3.SecretType, ResourceNames: o.names2},
			})
		}
	}()
	var serr error
	select {
	case serr = <-done:
	case <-time.After(20 * time.Second):
		return streamResult{outcome: "timeout", obs: obs}
	}
	// the connection is removed asynchronously by the receive goroutine; wait so that the next op sees none
	for i := 0; i < 20000 && len(srv.Discovery.AllClients()) > 0; i++ {
		time.Sleep(time.Millisecond)
	}
	res := streamResult{obs: obs}
	switch {
	case serr == nil:
		res.outcome = "accepted"
	case serr.Error() == "panic":
		res.outcome = "crash"
	default:
		switch status.Code(serr) {
		case codes.PermissionDenied:
			res.outcome = "denied"
		case codes.Unauthenticated:
			res.outcome = "unauthenticated"
		case codes.InvalidArgument:
			res.outcome = "badnode"
		default:
			res.outcome = "error:" + status.Code(serr).String()
		}
	}
	return res
}

func (s *streamSUT) apply(f []string) string {
	switch f[0] {
	case "case", "cluster", "secret", "allow", "start", "gw", "srv", "rgrant", "alias", "gwopt":
		return "ok"
	case "debug":
		return s.applyDebug(f)
	case "stream":
		r := s.run(decStream(f))
		if r.outcome != "accepted" {
			return r.outcome
		}
		r.obs.mu.Lock()
		defer r.obs.mu.Unlock()
		if !r.obs.seen {
			return "accepted-unobserved"
		}
		out := "accepted " + showID(r.obs.vid) + " cfg=" + wire.Enc(r.obs.cfgNs)
		for _, sg := range r.obs.segs {
			out += " " + showViews(sg)
		}
		if r.obs.vidLost {
			out += " identity-changed"
		}
		return out
	}
	return "bad-op"
}

// ---------------------------------------------------------------- generator

func genStream(seed uint64, n int, outp string) {
	out := wire.Create(outp)
	defer out.Close()
	root := wire.NewRng(seed ^ 0xC1157)
	nameU := []string{"kubernetes://a", "kubernetes://ns1/a", "kubernetes://ns2/a", "kubernetes://istio-system/a", "kubernetes://b-cacert",
		"kubernetes://a-cacert", "kubernetes://ns1/b-cacert", "kubernetes-gateway://ns1/a", "invalid://x", "bogus", "kubernetes://ns2/a-cacert",
		"kubernetes-gateway://ns1/a", "kubernetes-gateway://ns2/a", "kubernetes-gateway://ns2/a-cacert", "kubernetes-gateway://istio-system/a",
		"kubernetes-gateway://ns2/a", "kubernetes-gateway://ns1/a/x", "kubernetes-gateway://ns1/c", "kubernetes-gateway://ns1/c", "kubernetes-gateway://ns1/d", "kubernetes-gateway://ns1/d", "kubernetes-gateway://ns1/b", "kubernetes-gateway://ns1/e", "kubernetes-gateway://ns1/e",
		"kubernetes-gateway://ns1/e",
		"kubernetes://c"}
	for c := 0; c < n; c++ {
		r := root.Fork()
		out.Line("case", strconv.Itoa(c), "stream")
		writeStreamWorld(out)
		for i, k := 0, 1+r.Intn(4); i < k; i++ {
			cns := wire.Pick(r, []string{"ns1", "ns2", "istio-system", "ns1", "ns2"})
			metaNs, dom := cns, cns+".svc.cluster.local"
			switch r.Intn(10) {
			case 0, 1:
				metaNs = ""
			case 2:
				metaNs, dom = "", "nodots"
			case 3:
				dom = wire.Pick(r, []string{"ns1", "ns2"}) + ".svc.cluster.local"
			}
			eff := metaNs
			if eff == "" {
				eff = strings.Split(dom, ".")[0]
			}
			metaSA := ""
			if r.Chance(1, 2) {
				metaSA = wire.Pick(r, []string{"sa1", "sa2"})
			}
			ty := wire.Pick(r, []string{"router", "sidecar", "router", "sidecar", "router", "sidecar", "router", "ingress"})
			ip := wire.Pick(r, ipPicks[:6])
			if r.Chance(1, 12) {
				ip = wire.Pick(r, ipPicks)
			}
			parts := []string{ty, ip.ip, "pod-" + strconv.Itoa(c) + "-" + strconv.Itoa(i) + "." + cns, dom}
			if r.Chance(1, 25) {
				parts = parts[:3]
			}
			names1 := dedup(append(wire.Subset(r, nameU, 1, 3), "kubernetes://a"))
			names2 := "none"
			if r.Chance(1, 2) {
				// a second request on the live stream; it always asks for at least one name not asked before, so that both
				// protocols must answer it
				n2 := append(wire.Subset(r, nameU, 1, 3), "kubernetes://fresh-"+strconv.Itoa(c)+"-"+strconv.Itoa(i))
				if r.Chance(1, 2) {
					n2 = append(n2, "kubernetes-gateway://ns1/e")
				}
				names2 = wire.EncList(dedup(n2))
			}
			cid := wire.Pick(r, []string{streamCluster, streamCluster, streamCluster, streamCluster, "alias-k", "alias-k", "alias-x", "other", ""})
			labels := wire.Pick(r, []string{"-", "-", "app=edge", "app=edge", "app=edge,tier=x", "app=other", "tier=x", "app=edge,tier=y"})
			toks := []string{"stream", wire.Pick(r, []string{"sotw", "delta"}), wire.B(r.Chance(11, 12)),
				wire.Pick(r, []string{"tls", "tls", "tls", "tls", "tls", "tls", "tls", "plain", "plain", "none"}), wire.B(r.Chance(1, 8)), wire.B(r.Chance(11, 12)),
				wire.Enc(strings.Join(parts, "~")), wire.B(ip.ok), wire.Enc(metaNs), wire.Enc(metaSA),
				wire.EncList(names1), wire.Enc(cid), labels, names2, wire.B(r.Chance(1, 2)), wire.Pick(r, []string{"none", "none", "add", "del"})}
			for j, m := 0, 1+r.Intn(3); j < m; j++ {
				toks = append(toks, genAuthnResult(r, eff, metaSA))
			}
			if r.Chance(1, 15) {
				toks = toks[:16] // no authenticator configured
			}
			out.Line(toks...)
		}
		// the other release surfaces: a victim gateway proxy (often with a private key provider) and an asker
		for i, k := 0, 1+r.Intn(3); i < k; i++ {
			vns := wire.Pick(r, []string{"ns1", "ns1", "ns2"})
			// askers: the victim's namespace, the others, the system namespace, and near misses of the victim's namespace:
			// empty, prefix, suffix, extension, case variant
			ans := wire.Pick(r, []string{vns, vns, "ns1", "ns2", "istio-system", "", "ns", vns[1:], vns + "x", strings.ToUpper(vns), vns[:1], "istio-system-x"})
			aclaim := wire.Pick(r, []string{"same", "same", "same", "none", "none", "other"})
			out.Line("debug", wire.Pick(r, []string{"sotw", "delta"}), vns, wire.Pick(r, []string{"sa1", "sa1", "sa2"}),
				wire.Pick(r, []string{"~", "cryptomb", "qat", "cryptomb"}), wire.Pick(r, []string{"-", "app=edge", "app=edge,tier=x"}),
				wire.EncList(dedup(append(wire.Subset(r, nameU, 1, 3), "kubernetes://a"))),
				wire.Enc(ans), wire.Pick(r, []string{"sa1", "sa2", "sa2"}), wire.B(r.Chance(7, 8)),
				wire.Pick(r, []string{"sds", "sds", "sds", "full", "sgdump", "sgdump", "syncz", "sgsyncz", "api", "self", "sdscds", "cds", "ndsz", "edsz"}),
				wire.B(r.Chance(9, 10)), aclaim)
		}
	}
}

func dedup(l []string) []string {
	seen := map[string]bool{}
	var out []string
	for _, x := range l {
		if !seen[x] {
			seen[x] = true
			out = append(out, x)
		}
	}
	return out
}

// ---------------------------------------------------------------- property oracle
//
// On the real connection path: (1) a stream that is authenticated (TLS or opted-in plaintext, an
// authenticator presenting identities) with identity checking on is accepted only with a VerifiedIdentity
// that is one of the presented identities and proves the namespace the proxy is treated as and the claimed
// service account; (2) a stream without VerifiedIdentity receives no secret; (3) private keys only from
// the verified namespace (this world has no verified references).

func (s *streamSUT) oracleStream(f []string) string {
	o := decStream(f)
	r := s.run(o)
	if r.outcome == "crash" || r.outcome == "timeout" {
		return r.outcome
	}
	mustAuthenticate := o.xdsAuth && (o.peer == "tls" || (o.peer == "plain" && o.plaintextOK))
	if mustAuthenticate && !o.anyAuthenticates && r.outcome != "unauthenticated" {
		// XDS_AUTH on, TLS peer (or opted-in plaintext) and no authenticator succeeds: the stream must end Unauthenticated
		return "failed-authentication-not-rejected outcome=" + wire.Enc(r.outcome)
	}
	if r.outcome != "accepted" {
		return ""
	}
	r.obs.mu.Lock()
	defer r.obs.mu.Unlock()
	if !r.obs.seen {
		return "connection-not-observed"
	}
	authenticated := mustAuthenticate && o.anyAuthenticates
	v := r.obs.vid
	if authenticated && o.flag {
		if v == nil {
			return "authenticated-stream-accepted-without-identity-check"
		}
		literal := false
		for _, raw := range o.presentedIDs {
			if raw == "spiffe://"+v.TrustDomain+"/ns/"+v.Namespace+"/sa/"+v.ServiceAccount {
				literal = true
			}
		}
		if !literal {
			return "verified-identity-not-a-presented-credential"
		}
		if r.obs.cfgNs != "" && v.Namespace != r.obs.cfgNs {
			return "namespace-not-proven-by-credential"
		}
		if o.metaSA != "" && v.ServiceAccount != o.metaSA {
			return "service-account-not-proven-by-credential"
		}
	}
	if !authenticated && v != nil {
		return "verified-identity-on-unauthenticated-stream"
	}
	if r.obs.vidLost {
		return "verified-identity-changed-on-live-stream"
	}
	// the cluster whose RBAC and secrets apply is the claimed CLUSTER_ID after alias resolution; only "Kubernetes" exists
	effCluster := o.clusterID
	for _, a := range streamAliases {
		if a[0] == o.clusterID {
			effCluster = a[1]
		}
	}
	if effCluster != streamCluster && len(r.obs.secrets) > 0 {
		return "secret-released-for-unknown-cluster " + wire.Enc(o.clusterID)
	}
	// which phase each sent secret belongs to: the optional Gateway exists in phase 0 iff it is deleted later, and in the
	// later phases iff it was created
	type phased struct {
		sv    secretView
		phase int
	}
	var all []phased
	for i, sg := range r.obs.segs {
		for _, sv := range sg {
			all = append(all, phased{sv, i})
		}
	}
	for _, ps := range all {
		sv := ps.sv
		gateways := streamGateways
		if (ps.phase == 0 && o.gwop == "del") || (ps.phase > 0 && o.gwop == "add") {
			gateways = append(append([]worldGateway{}, streamGateways...), optionalGateway)
		}
		if v == nil {
			return "secret-sent-to-unverified-stream " + wire.Enc(sv.name)
		}
		org, ok := parseOrigin(sv.cert)
		if !ok {
			return "payload-without-origin"
		}
		if org.kind == "S" && org.ns != v.Namespace {
			// across namespaces only through a kubernetes-gateway:// name that a ReferenceGrant in the secret's namespace
			// opens to Gateways of the verified namespace, requested by a gateway (router) proxy
			base := strings.TrimSuffix(sv.name, "-cacert")
			granted := strings.HasPrefix(o.nodeID, "router~") &&
				(base == "kubernetes-gateway://"+org.ns+"/"+org.name || sv.name == "kubernetes-gateway://"+org.ns+"/"+org.name) &&
				grantedBy(streamGrants, false, "S", org.ns, org.name, v.Namespace)
			if !granted {
				return "secret-across-namespaces " + wire.Enc(sv.name) + " origin=" + wire.Enc(sv.cert)
			}
			continue
		}
		if strings.HasPrefix(sv.name, "kubernetes-gateway://") {
			// released through a verified reference: a Gateway of the verified namespace that expects this identity must
			// reference exactly this name, and the secret is in the verified namespace or opened by a ReferenceGrant
			ok := false
			for _, g := range gateways {
				if g.ns != v.Namespace || (g.saAnn != "" && g.saAnn != v.ServiceAccount) || !strings.HasPrefix(o.nodeID, "router~") {
					continue
				}
				// the Gateway must be attached to this proxy: every selector label is one of the proxy's labels
				attached := true
				for _, kv := range g.selector {
					found := false
					for _, l := range o.labels {
						if l == kv[0]+"="+kv[1] {
							found = true
						}
					}
					attached = attached && found
				}
				if !attached {
					continue
				}
				for _, ws := range g.servers {
					if ws.cred == sv.name || (ws.mode == "MUTUAL" && ws.cred+"-cacert" == sv.name) {
						if org.ns == v.Namespace || grantedBy(streamGrants, false, "S", org.ns, org.name, v.Namespace) {
							ok = true
						}
					}
				}
			}
			if !ok {
				return "gateway-secret-without-verified-reference " + wire.Enc(sv.name)
			}
			continue
		}
		if sv.hasKey {
			allowed := false
			for _, a := range streamAllow {
				if a[0] == v.ServiceAccount && a[1] == v.Namespace {
					allowed = true
				}
			}
			if !allowed {
				return "private-key-to-unauthorised-account " + wire.Enc(sv.name)
			}
		}
	}
	return ""
}

// ---------------------------------------------------------------- op `debug`: the other release surfaces
//
// debug <mode> <vns> <vsa> <vpkp> <vlabels> <vnames> <ans> <asa> <atls> <query>
//
// A victim gateway proxy (router, identity vns/vsa, optional private-key-provider ProxyConfig, labels) keeps a real
// stream alive with an SDS subscription; an attacker proxy (sidecar, identity ans/asa, TLS or plaintext) opens a second
// real stream and asks one of the VerifiedIdentity-gated generators about it:
//   sds / full   debug generator (istio.io/debug): config_dump?proxyID=<victim>[&types=sds]
//   sgdump       status generator (istio.io/debug/config_dump) with the victim's proxy id
//   syncz        debug generator: syncz (system namespace only)
//   sgsyncz      status generator: istio.io/debug/syncz
//   api          API generator: networking.istio.io/v1/Gateway (control-plane identities only)
//   self         debug generator: config_dump of the attacker's own connection
// Observed: how the attacker's stream ends and which of the world's secret payloads (certificates, CA, KEYS) occur
// anywhere in what it was sent, in any encoding used by the responses.

type debugOp struct {
	delta           bool
	vns, vsa, vpkp  string
	vlabels, vnames []string
	ans, asa        string
	atls            bool
	query           string
	vtls            bool   // the victim is on a TLS stream (else plaintext: no VerifiedIdentity)
	aclaim          string // same | none | other: what namespace the asker claims relative to its credential
}

func decDebug(f []string) debugOp {
	return debugOp{delta: f[1] == "delta", vns: wire.Dec(f[2]), vsa: wire.Dec(f[3]), vpkp: wire.Dec(f[4]), vlabels: wire.DecList(f[5]),
		vnames: wire.DecList(f[6]), ans: wire.Dec(f[7]), asa: wire.Dec(f[8]), atls: f[9] == "1", query: f[10],
		vtls: len(f) < 12 || f[11] == "1", aclaim: func() string {
			if len(f) > 12 {
				return f[12]
			}
			return "same"
		}()}
}

var debugCounter int

type rawSink struct {
	mu   sync.Mutex
	body []byte
}

func (r *rawSink) add(b []byte) {
	r.mu.Lock()
	r.body = append(r.body, b...)
	r.body = append(r.body, '\n')
	r.mu.Unlock()
}

// holdConn is a SotW client that sends one request, waits until it is processed, signals, and keeps the stream open
// until released.
type holdConn struct {
	baseStream
	first   *discovery.DiscoveryRequest
	ready   chan struct{}
	release chan struct{}
	sink    *rawSink
}

func (h *holdConn) Recv() (*discovery.DiscoveryRequest, error) {
	h.calls++
	switch h.calls {
	case 1:
		return h.first, nil
	case 2:
		h.observeConnection()
		return &discovery.DiscoveryRequest{TypeUrl: sentinelTypes[0], ResourceNames: sentinelNames(0)}, nil
	}
	h.waitProcessed(0)
	close(h.ready)
	<-h.release
	return nil, io.EOF
}

func (h *holdConn) Send(r *discovery.DiscoveryResponse) error {
	if r.TypeUrl == v3.SecretType {
		h.record(r.Resources)
	}
	if h.sink != nil {
		for _, x := range r.Resources {
			h.sink.add(x.Value)
		}
	}
	return nil
}

type holdDeltaConn struct {
	baseStream
	first   *discovery.DeltaDiscoveryRequest
	ready   chan struct{}
	release chan struct{}
	sink    *rawSink
}

func (h *holdDeltaConn) Recv() (*discovery.DeltaDiscoveryRequest, error) {
	h.calls++
	switch h.calls {
	case 1:
		return h.first, nil
	case 2:
		h.observeConnection()
		return &discovery.DeltaDiscoveryRequest{TypeUrl: sentinelTypes[0], ResourceNamesSubscribe: sentinelNames(0)}, nil
	}
	h.waitProcessed(0)
	close(h.ready)
	<-h.release
	return nil, io.EOF
}

func (h *holdDeltaConn) Send(r *discovery.DeltaDiscoveryResponse) error {
	if h.sink != nil {
		for _, x := range r.Resources {
			h.sink.add(x.Resource.GetValue())
		}
	}
	return nil
}

func nodeMeta(ns, sacc string, labels []string, pkp string) *structpb.Struct {
	fields := map[string]any{"CLUSTER_ID": streamCluster}
	if ns != "" {
		fields["NAMESPACE"] = ns
	}
	if sacc != "" {
		fields["SERVICE_ACCOUNT"] = sacc
	}
	if len(labels) > 0 {
		lm := map[string]any{}
		for _, kv := range labels {
			k, v, _ := strings.Cut(kv, "=")
			lm[k] = v
		}
		fields["LABELS"] = lm
	}
	switch pkp {
	case "cryptomb":
		fields["PROXY_CONFIG"] = map[string]any{"privateKeyProvider": map[string]any{"cryptomb": map[string]any{"pollDelay": "0.010s"}}}
	case "qat":
		fields["PROXY_CONFIG"] = map[string]any{"privateKeyProvider": map[string]any{"qat": map[string]any{"pollDelay": "0.010s"}}}
	}
	md, _ := structpb.NewStruct(fields)
	return md
}

func streamOutcome(serr error) string {
	switch {
	case serr == nil:
		return "accepted"
	case serr.Error() == "panic":
		return "crash"
	}
	switch status.Code(serr) {
	case codes.PermissionDenied:
		return "denied"
	case codes.Unauthenticated:
		return "unauthenticated"
	case codes.InvalidArgument:
		return "badnode"
	}
	return "error:" + status.Code(serr).String()
}

type debugResult struct {
	outcome     string
	certs, keys []string // payload tags of the world's secrets that occur in what the attacker received
	victim      []secretView
}

func (s *streamSUT) runDebug(o debugOp) debugResult {
	srv := s.server()
	oldA, oldP, oldF := features.XDSAuth, security.AuthPlaintext, features.EnableXDSIdentityCheck
	features.XDSAuth, security.AuthPlaintext, features.EnableXDSIdentityCheck = true, false, true
	oldAuthn := srv.Discovery.Authenticators
	defer func() {
		features.XDSAuth, security.AuthPlaintext, features.EnableXDSIdentityCheck = oldA, oldP, oldF
		srv.Discovery.Authenticators = oldAuthn
	}()
	debugCounter++
	vid := "victim-" + strconv.Itoa(debugCounter) + "." + o.vns
	aid := "attacker-" + strconv.Itoa(debugCounter) + "." + o.ans
	// ---- the victim connects and subscribes
	srv.Discovery.Authenticators = []security.Authenticator{fakeAuthn{ids: []string{"spiffe://cluster.local/ns/" + o.vns + "/sa/" + o.vsa}}}
	vobs := &observed{}
	vpeer := "tls"
	if !o.vtls {
		vpeer = "plain"
	}
	vbase := baseStream{ctx: peerCtx(vpeer), srv: srv.Discovery, obs: vobs, wantID: vid}
	vnode := &core.Node{Id: "router~1.2.3.4~" + vid + "~" + o.vns + ".svc.cluster.local", Metadata: nodeMeta(o.vns, o.vsa, o.vlabels, o.vpkp)}
	ready, release := make(chan struct{}), make(chan struct{})
	vdone := make(chan error, 1)
	go func() {
		defer func() {
			if r := recover(); r != nil {
				vdone <- errors.New("panic")
			}
		}()
		vdone <- srv.Discovery.Stream(&holdConn{baseStream: vbase, ready: ready, release: release,
			first: &discovery.DiscoveryRequest{Node: vnode, TypeUrl: v3.SecretType, ResourceNames: o.vnames}})
	}()
	select {
	case <-ready:
	case e := <-vdone:
		return debugResult{outcome: "victim-" + streamOutcome(e)}
	case <-time.After(30 * time.Second):
		return debugResult{outcome: "victim-timeout"}
	}
	// ---- the attacker connects and asks
	srv.Discovery.Authenticators = []security.Authenticator{fakeAuthn{ids: []string{"spiffe://cluster.local/ns/" + o.ans + "/sa/" + o.asa}}}
	typeURL, names := v3.DebugType, []string{"config_dump?proxyID=" + vid + "&types=sds"}
	switch o.query {
	case "full":
		names = []string{"config_dump?proxyID=" + vid}
	case "self":
		names = []string{"config_dump?proxyID=" + aid + "&types=sds"}
	case "syncz":
		names = []string{"syncz"}
	case "sdscds":
		names = []string{"config_dump?proxyID=" + vid + "&types=sds,cds"}
	case "cds":
		names = []string{"config_dump?proxyID=" + vid + "&types=cds"}
	case "ndsz":
		names = []string{"ndsz?proxyID=" + vid}
	case "edsz":
		names = []string{"edsz?proxyID=" + vid}
	case "sgdump":
		typeURL, names = pxds.TypeDebugConfigDump, []string{vid}
	case "sgsyncz":
		typeURL, names = pxds.TypeDebugSyncronization, nil
	case "api":
		typeURL, names = "networking.istio.io/v1/Gateway", nil
	}
	peerKind := "tls"
	if !o.atls {
		peerKind = "plain"
	}
	sink := &rawSink{}
	aready, arelease := make(chan struct{}), make(chan struct{})
	abase := baseStream{ctx: peerCtx(peerKind), srv: srv.Discovery, obs: &observed{}, wantID: aid, cancel: arelease}
	// what the asker claims: its credential's namespace, none at all (then any credential binds), or another namespace
	claimNs, claimDom := o.ans, o.ans+".svc.cluster.local"
	switch o.aclaim {
	case "none":
		claimNs, claimDom = "", "nodots"
	case "other":
		claimNs, claimDom = o.ans+"-other", o.ans+"-other.svc.cluster.local"
	}
	if o.ans == "" && o.aclaim == "same" {
		claimDom = "nodots" // an empty namespace cannot be claimed through the DNS domain either
	}
	anode := &core.Node{Id: "sidecar~1.2.3.5~" + aid + "~" + claimDom, Metadata: nodeMeta(claimNs, o.asa, nil, "")}
	adone := make(chan error, 1)
	go func() {
		defer func() {
			if r := recover(); r != nil {
				adone <- errors.New("panic")
			}
		}()
		if o.delta {
			adone <- srv.Discovery.StreamDeltas(&holdDeltaConn{baseStream: abase, ready: aready, release: arelease, sink: sink,
				first: &discovery.DeltaDiscoveryRequest{Node: anode, TypeUrl: typeURL, ResourceNamesSubscribe: names}})
		} else {
			adone <- srv.Discovery.Stream(&holdConn{baseStream: abase, ready: aready, release: arelease, sink: sink,
				first: &discovery.DiscoveryRequest{Node: anode, TypeUrl: typeURL, ResourceNames: names}})
		}
	}()
	var aerr error
	timedOut := false
	select {
	case <-aready:
		close(arelease)
		aerr = <-adone
	case aerr = <-adone:
		// the stream ended on an error while its receive goroutine may still sit in Recv: let it finish, otherwise
		// the connection is never unregistered
		close(arelease)
	case <-time.After(30 * time.Second):
		close(arelease)
		timedOut = true
	}
	close(release)
	if timedOut {
		return debugResult{outcome: "attacker-timeout"}
	}
	<-vdone
	for i := 0; i < 20000 && len(srv.Discovery.AllClients()) > 0; i++ {
		time.Sleep(time.Millisecond)
	}
	res := debugResult{outcome: streamOutcome(aerr)}
	vobs.mu.Lock()
	res.victim = append(res.victim, vobs.secrets...)
	vobs.mu.Unlock()
	sink.mu.Lock()
	body := string(sink.body)
	sink.mu.Unlock()
	for _, sec := range streamSecrets {
		for _, payload := range sec.data {
			if payload == "" {
				continue
			}
			// inline bytes travel raw inside protobuf messages and base64-encoded inside JSON dumps; a base64 string
			// nested in another base64 layer is covered by the three alignments of its encoding
			if containsEncoded(body, payload) {
				if strings.HasSuffix(payload, "key") {
					res.keys = append(res.keys, payload)
				} else {
					res.certs = append(res.certs, payload)
				}
			}
		}
	}
	return res
}

func containsEncoded(body, payload string) bool {
	if strings.Contains(body, payload) {
		return true
	}
	b64 := base64.StdEncoding.EncodeToString([]byte(payload))
	if strings.Contains(body, b64) || strings.Contains(body, strings.TrimRight(b64, "=")) {
		return true
	}
	// the payload somewhere inside a longer base64-encoded message: try the three byte alignments, dropping the
	// characters that depend on neighbouring bytes
	for pad := 0; pad < 3; pad++ {
		e := base64.StdEncoding.EncodeToString(append(make([]byte, pad), payload...))
		e = strings.TrimRight(e, "=")
		lo := 0
		if pad > 0 {
			lo = 4
		}
		hi := len(e) - 2
		if hi > lo+8 && strings.Contains(body, e[lo:hi]) {
			return true
		}
	}
	return false
}

func (s *streamSUT) applyDebug(f []string) string {
	r := s.runDebug(decDebug(f))
	return "debug " + r.outcome + " certs=" + wire.EncSet(r.certs) + " keys=" + wire.EncSet(r.keys)
}

// oracleDebug: whatever a proxy asks the debug / status / API generators, no private key of the world may occur in
// what it is sent - these surfaces are gated by VerifiedIdentity and a namespace comparison only, never by RBAC - and
// an unauthenticated stream gets nothing from them at all.
func (s *streamSUT) oracleDebug(f []string) string {
	o := decDebug(f)
	r := s.runDebug(o)
	if strings.HasPrefix(r.outcome, "victim-") || r.outcome == "crash" || r.outcome == "attacker-timeout" {
		return "debug-harness-" + r.outcome
	}
	if len(r.keys) > 0 {
		return "private-key-in-debug-response query=" + o.query + " " + wire.Enc(strings.Join(r.keys, ","))
	}
	if !o.atls && len(r.certs) > 0 {
		return "debug-data-to-unauthenticated-stream query=" + o.query
	}
	rel := "other-namespace"
	switch {
	case !o.atls:
		rel = "unauthenticated"
	case o.ans == "":
		rel = "empty-namespace"
	case o.ans == "istio-system":
		rel = "system-namespace"
	case o.ans == o.vns:
		rel = "same-namespace"
	case strings.HasPrefix(o.vns, o.ans) || strings.HasSuffix(o.vns, o.ans) || strings.HasPrefix(o.ans, o.vns) || strings.EqualFold(o.ans, o.vns):
		rel = "near-miss-namespace"
	}
	got := "nothing"
	if len(r.certs) > 0 {
		got = "certs"
	}
	oracleStats["debug."+o.query+"."+rel+"."+r.outcome+"."+got]++
	if o.atls && o.ans != "istio-system" && o.ans != o.vns && len(r.certs) > 0 {
		return "debug-data-across-namespaces query=" + o.query + " branch=" + rel
	}
	return ""
}
