package main

import (
	"fmt"

	"verifharness/internal/wire"
)

// oracle writes one verdict line per case: "OK" or "FAIL <clause> op=<i> <detail>".  The clauses are
// the property statement evaluated on the real code (see oracleAuthOp, oracleParseOp, sdsSUT.oracleGen).
func oracle(stream, in, outp string) {
	out := wire.Create(outp)
	defer out.Close()
	defer writeStats(outp + ".stats")
	s := &sdsSUT{}
	defer s.close()
	st := &streamSUT{}
	defer st.close()
	rf := &refsSUT{}
	verdict, open, idx := "", false, 0
	flush := func() {
		if open {
			if verdict == "" {
				verdict = "OK"
			}
			out.Line(verdict)
			out.Flush()
		}
	}
	check := func(f []string) (res string) {
		defer func() {
			if r := recover(); r != nil {
				res = "crash"
			}
		}()
		switch stream {
		case "auth":
			return oracleAuthOp(f)
		case "parse":
			return oracleParseOp(f)
		case "stream":
			if f[0] == "stream" {
				return st.oracleStream(f)
			}
			if f[0] == "debug" {
				return st.oracleDebug(f)
			}
		case "refs":
			return rf.oracleOp(f)
		case "sds":
			if f[0] == "gen" {
				return s.oracleGen(f)
			}
			if s.apply(f) == "bad-op" {
				return "bad-op"
			}
		}
		return ""
	}
	for _, f := range wire.ReadLines(in) {
		if f[0] == "case" {
			flush()
			s.reset()
			rf.reset()
			verdict, open, idx = "", true, 0
			continue
		}
		idx++
		if r := check(f); r != "" && verdict == "" {
			verdict = fmt.Sprintf("FAIL %s", insertOp(r, idx))
		}
	}
	flush()
}

// insertOp puts op=<i> after the clause name.
func insertOp(r string, idx int) string {
	for i := 0; i < len(r); i++ {
		if r[i] == ' ' {
			return fmt.Sprintf("%s op=%d%s", r[:i], idx, r[i:])
		}
	}
	return fmt.Sprintf("%s op=%d", r, idx)
}

// writeStats stores the oracle's outcome counters as "key count" lines next to the verdict file.
func writeStats(path string) {
	if len(oracleStats) == 0 {
		return
	}
	o := wire.Create(path)
	defer o.Close()
	for k, v := range oracleStats {
		o.Line(k, fmt.Sprint(v))
	}
}
