// Harness for C11: identity binding and SDS secret release.
//
//	c11 gen    <stream> <seed> <ncases> <ops-out>
//	c11 exec   <stream> <ops-in> <impl-out>
//	c11 oracle <stream> <ops-in> <verdict-out>
//
// Streams:
//
//	auth   spiffe.ParseIdentity, checkConnectionIdentity, authenticate, initProxyMetadata+authorize (real, via
//	       pilot/pkg/xds/zz_verif_c11.go)
//	parse  credentials.ParseResourceName + SecretResource.Key on adversarial names
//	sds    the real SecretGen.Generate over kube.NewFakeClient credential controllers (one or two clusters),
//	       fake SubjectAccessReview outcomes, differently privileged proxies on ONE shared XdsCache
//
// The Lean driver (lean/IstioModel/C11/Driver.lean) consumes the same ops file; outputs are compared
// line by line.
package main

import (
	"fmt"
	"os"
	"os/exec"
	"runtime"
	"strconv"
	"strings"
	"sync"

	"istio.io/istio/pilot/pkg/features"
	"istio.io/istio/pkg/security"
	"istio.io/istio/pkg/util/sets"
	_ "verifharness/internal/quiet"
	"verifharness/internal/wire"
)

func main() {
	if len(os.Args) < 2 {
		fmt.Fprintln(os.Stderr, "usage: c11 gen|exec|oracle ...")
		os.Exit(2)
	}
	pinFeatures()
	switch os.Args[1] {
	case "gen":
		seed, _ := strconv.ParseUint(os.Args[3], 10, 64)
		n, _ := strconv.Atoi(os.Args[4])
		switch os.Args[2] {
		case "auth":
			genAuth(seed, n, os.Args[5])
		case "parse":
			genParse(seed, n, os.Args[5])
		case "sds":
			genSDS(seed, n, os.Args[5])
		case "stream":
			genStream(seed, n, os.Args[5])
		case "refs":
			genRefs(seed, n, os.Args[5])
		default:
			os.Exit(2)
		}
	case "exec":
		if !fanOut("exec", os.Args[2], os.Args[3], os.Args[4]) {
			execOps(os.Args[2], os.Args[3], os.Args[4])
		}
	case "oracle":
		if !fanOut("oracle", os.Args[2], os.Args[3], os.Args[4]) {
			oracle(os.Args[2], os.Args[3], os.Args[4])
		}
	default:
		os.Exit(2)
	}
}

type applier interface {
	apply(f []string) string
	close()
}

func newApplier(stream string) applier {
	switch stream {
	case "auth":
		return &authSUT{}
	case "parse":
		return &parseSUT{}
	case "sds":
		return &sdsSUT{}
	case "stream":
		return &streamSUT{}
	case "refs":
		return &refsSUT{}
	}
	fmt.Fprintln(os.Stderr, "unknown stream", stream)
	os.Exit(2)
	return nil
}

func safeApply(a applier, f []string) (out string) {
	defer func() {
		if r := recover(); r != nil {
			out = "crash"
		}
	}()
	return a.apply(f)
}

func execOps(stream, in, outp string) {
	out := wire.Create(outp)
	defer out.Close()
	a := newApplier(stream)
	defer a.close()
	for _, f := range wire.ReadLines(in) {
		out.Line(safeApply(a, f))
		out.Flush()
	}
}

// pinFeatures fixes every environment-derived istio feature flag that changes what the streams print, so
// that the caller's environment (UNSAFE_PILOT_ENABLE_RUNTIME_ASSERTIONS, PILOT_ENABLE_REMOTE_CREDENTIALS_CONTROLLER,
// XDS_AUTH, XDS_AUTH_PLAINTEXT, PILOT_ENABLE_XDS_IDENTITY_CHECK, PILOT_SCOPE_GATEWAY_TO_NAMESPACE, ENABLE_DEBUG_ENDPOINT_AUTH,
// ENABLE_XDS_API_GENERATOR_AUTH, DEBUG_ENDPOINT_AUTH_ALLOWED_NAMESPACES) cannot
// influence a run; ops that exercise a flag set it explicitly.
func pinFeatures() {
	features.EnableUnsafeAssertions = false
	features.EnableRemoteCredentialsController = true
	features.XDSAuth = true
	features.EnableXDSIdentityCheck = true
	features.ScopeGatewayToNamespace = false
	security.AuthPlaintext = false
	features.EnableDebugEndpointAuth = true
	features.EnableXDSAPIGeneratorAuth = true
	// DEBUG_ENDPOINT_AUTH_ALLOWED_NAMESPACES: the default (unset) yields the set {""}
	features.DebugEndpointAuthAllowedNamespaces = sets.New("")
}

// fanOut runs the slow streams (sds, stream: one fake Kubernetes world / one real xDS stream per case or op) as
// parallel child processes over contiguous chunks of cases and concatenates their outputs in order.  Cases are
// independent (every `case` line resets both sides), so the result is byte-identical to a sequential run; feature
// flags are process-global, which is why processes and not goroutines are used.  Returns false when the work
// should be done in-process (small input, a child, or VERIF_C11_PAR=1).
func fanOut(sub, stream, in, outp string) bool {
	if (stream != "sds" && stream != "stream") || os.Getenv("VERIF_C11_CHILD") != "" {
		return false
	}
	par := runtime.NumCPU()
	if v, err := strconv.Atoi(os.Getenv("VERIF_C11_PAR")); err == nil && v > 0 {
		par = v
	}
	if par > 8 {
		par = 8
	}
	data, err := os.ReadFile(in)
	if err != nil {
		return false
	}
	lines := strings.SplitAfter(string(data), "\n")
	var starts []int
	for i, l := range lines {
		if strings.HasPrefix(l, "case") {
			starts = append(starts, i)
		}
	}
	if par < 2 || len(starts) < 4*par || starts[0] != 0 {
		return false
	}
	per := (len(starts) + par - 1) / par
	type chunk struct{ in, out string }
	var chunks []chunk
	for k := 0; k*per < len(starts); k++ {
		lo := starts[k*per]
		hi := len(lines)
		if (k+1)*per < len(starts) {
			hi = starts[(k+1)*per]
		}
		c := chunk{in: fmt.Sprintf("%s.part%d", in, k), out: fmt.Sprintf("%s.part%d", outp, k)}
		if os.WriteFile(c.in, []byte(strings.Join(lines[lo:hi], "")), 0o644) != nil {
			return false
		}
		chunks = append(chunks, c)
	}
	errs := make([]error, len(chunks))
	var wg sync.WaitGroup
	for i, c := range chunks {
		wg.Add(1)
		go func(i int, c chunk) {
			defer wg.Done()
			cmd := exec.Command(os.Args[0], sub, stream, c.in, c.out)
			cmd.Env = append(os.Environ(), "VERIF_C11_CHILD=1")
			cmd.Stderr = os.Stderr
			errs[i] = cmd.Run()
		}(i, c)
	}
	wg.Wait()
	out, err := os.Create(outp)
	if err != nil {
		return false
	}
	defer out.Close()
	stats := map[string]int{}
	for i, c := range chunks {
		if sb, e := os.ReadFile(c.out + ".stats"); e == nil {
			for _, l := range strings.Split(string(sb), "\n") {
				if k, v, ok := strings.Cut(l, " "); ok {
					n, _ := strconv.Atoi(v)
					stats[k] += n
				}
			}
			os.Remove(c.out + ".stats")
		}
		b, rerr := os.ReadFile(c.out)
		if errs[i] != nil || rerr != nil {
			fmt.Fprintln(os.Stderr, "c11: child", i, "failed:", errs[i], rerr)
			os.Exit(1)
		}
		out.Write(b)
		os.Remove(c.in)
		os.Remove(c.out)
	}
	if len(stats) > 0 {
		var sb strings.Builder
		for k, v := range stats {
			fmt.Fprintf(&sb, "%s %d\n", k, v)
		}
		os.WriteFile(outp+".stats", []byte(sb.String()), 0o644)
	}
	return true
}
