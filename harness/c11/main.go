// Harness for C11: identity binding and SDS secret release.
//
//	c11 gen    <stream> <seed> <ncases> <ops-out>
//	c11 exec   <stream> <ops-in> <impl-out>
//	c11 oracle <stream> <ops-in> <verdict-out>
//
// Streams:
//
//	auth   spiffe.ParseIdentity, checkConnectionIdentity, authenticate, initProxyMetadata+authorize (real, via
//	       pilot/pkg/xds/zz_verif_c11.go)
//	parse  credentials.ParseResourceName + SecretResource.Key on adversarial names
//	sds    the real SecretGen.Generate over kube.NewFakeClient credential controllers (one or two clusters),
//	       fake SubjectAccessReview outcomes, differently privileged proxies on ONE shared XdsCache
//
// The Lean driver (lean/IstioModel/C11/Driver.lean) consumes the same ops file; outputs are compared
// line by line.
package main

import (
	"fmt"
	"os"
	"strconv"

	"istio.io/istio/pilot/pkg/features"
	"istio.io/istio/pkg/security"
	_ "verifharness/internal/quiet"
	"verifharness/internal/wire"
)

func main() {
	if len(os.Args) < 2 {
		fmt.Fprintln(os.Stderr, "usage: c11 gen|exec|oracle ...")
		os.Exit(2)
	}
	pinFeatures()
	switch os.Args[1] {
	case "gen":
		seed, _ := strconv.ParseUint(os.Args[3], 10, 64)
		n, _ := strconv.Atoi(os.Args[4])
		switch os.Args[2] {
		case "auth":
			genAuth(seed, n, os.Args[5])
		case "parse":
			genParse(seed, n, os.Args[5])
		case "sds":
			genSDS(seed, n, os.Args[5])
		case "stream":
			genStream(seed, n, os.Args[5])
		case "refs":
			genRefs(seed, n, os.Args[5])
		default:
			os.Exit(2)
		}
	case "exec":
		execOps(os.Args[2], os.Args[3], os.Args[4])
	case "oracle":
		oracle(os.Args[2], os.Args[3], os.Args[4])
	default:
		os.Exit(2)
	}
}

type applier interface {
	apply(f []string) string
	close()
}

func newApplier(stream string) applier {
	switch stream {
	case "auth":
		return &authSUT{}
	case "parse":
		return &parseSUT{}
	case "sds":
		return &sdsSUT{}
	case "stream":
		return &streamSUT{}
	case "refs":
		return &refsSUT{}
	}
	fmt.Fprintln(os.Stderr, "unknown stream", stream)
	os.Exit(2)
	return nil
}

func safeApply(a applier, f []string) (out string) {
	defer func() {
		if r := recover(); r != nil {
			out = "crash"
		}
	}()
	return a.apply(f)
}

func execOps(stream, in, outp string) {
	out := wire.Create(outp)
	defer out.Close()
	a := newApplier(stream)
	defer a.close()
	for _, f := range wire.ReadLines(in) {
		out.Line(safeApply(a, f))
		out.Flush()
	}
}

// pinFeatures fixes every environment-derived istio feature flag that changes what the streams print, so
// that the caller's environment (UNSAFE_PILOT_ENABLE_RUNTIME_ASSERTIONS, PILOT_ENABLE_REMOTE_CREDENTIALS_CONTROLLER,
// XDS_AUTH, XDS_AUTH_PLAINTEXT, PILOT_ENABLE_XDS_IDENTITY_CHECK, PILOT_SCOPE_GATEWAY_TO_NAMESPACE) cannot
// influence a run; ops that exercise a flag set it explicitly.
func pinFeatures() {
	features.EnableUnsafeAssertions = false
	features.EnableRemoteCredentialsController = true
	features.XDSAuth = true
	features.EnableXDSIdentityCheck = true
	features.ScopeGatewayToNamespace = false
	security.AuthPlaintext = false
}
