package main

import (
	"errors"
	"fmt"
	"sort"
	"strconv"
	"strings"
	"time"

	xxhashv2 "github.com/cespare/xxhash/v2"
	cryptomb "github.com/envoyproxy/go-control-plane/contrib/envoy/extensions/private_key_providers/cryptomb/v3alpha"
	qat "github.com/envoyproxy/go-control-plane/contrib/envoy/extensions/private_key_providers/qat/v3alpha"
	envoytls "github.com/envoyproxy/go-control-plane/envoy/extensions/transport_sockets/tls/v3"
	"google.golang.org/protobuf/types/known/durationpb"
	meshconfig "istio.io/api/mesh/v1alpha1"
	authorizationv1 "k8s.io/api/authorization/v1"
	corev1 "k8s.io/api/core/v1"
	metav1 "k8s.io/apimachinery/pkg/apis/meta/v1"
	"k8s.io/apimachinery/pkg/runtime"
	sa "k8s.io/apiserver/pkg/authentication/serviceaccount"
	"k8s.io/client-go/kubernetes/fake"
	k8stesting "k8s.io/client-go/testing"

	kubesecrets "istio.io/istio/pilot/pkg/credentials/kube"
	"istio.io/istio/pilot/pkg/features"
	"istio.io/istio/pilot/pkg/model"
	pxds "istio.io/istio/pilot/pkg/xds"
	v3 "istio.io/istio/pilot/pkg/xds/v3"
	"istio.io/istio/pkg/cluster"
	"istio.io/istio/pkg/config/schema/kind"
	"istio.io/istio/pkg/kube"
	"istio.io/istio/pkg/kube/multicluster"
	"istio.io/istio/pkg/spiffe"
	"istio.io/istio/pkg/util/sets"
	"verifharness/internal/wire"
)

// ---------------------------------------------------------------- stream sds: real code

type clusterSpec struct {
	id     string
	objs   []runtime.Object
	allow  sets.String // user names the fake SubjectAccessReview answers "allowed" for
	sarErr bool        // the SubjectAccessReview API call itself fails (must be treated as "not authorised")
	mode   string      // sarPolicy.mode
	policy *sarPolicy
}

// sarPolicy is the fake Kubernetes authoriser behind SubjectAccessReview: a review is allowed only if it
// asks exactly "may <user> list secrets in <the user's own namespace>" (core group, no name/subresource)
// and the user is in the allowed set; with apiError the API call fails.
type sarPolicy struct {
	allow    sets.String
	apiError bool
	wrong    string // first review that did not ask "list secrets in the user's namespace" (for the oracle)
	mode     string // how answers are dressed: "" plain; "denied": refusals carry Denied=true; "evalerr": every answer
	// carries an EvaluationError (which is informational: only Allowed decides)
}

func installSAR(cs *fake.Clientset, p *sarPolicy) {
	cs.Fake.PrependReactor("create", "subjectaccessreviews", func(action k8stesting.Action) (bool, runtime.Object, error) {
		if p.apiError {
			return true, nil, errors.New("subjectaccessreviews: the server is currently unable to handle the request")
		}
		a := action.(k8stesting.CreateAction).GetObject().(*authorizationv1.SubjectAccessReview)
		ra := a.Spec.ResourceAttributes
		userNs := ""
		if rest, ok := strings.CutPrefix(a.Spec.User, "system:serviceaccount:"); ok {
			userNs, _, _ = strings.Cut(rest, ":")
		}
		ok := ra != nil && a.Spec.NonResourceAttributes == nil && ra.Namespace == userNs && ra.Verb == "list" && ra.Resource == "secrets" &&
			ra.Group == "" && ra.Name == "" && ra.Subresource == "" && p.allow.Contains(a.Spec.User)
		exact := ra != nil && a.Spec.NonResourceAttributes == nil && ra.Namespace == userNs && ra.Verb == "list" && ra.Resource == "secrets" &&
			ra.Group == "" && ra.Name == "" && ra.Subresource == ""
		if !exact && p.wrong == "" {
			p.wrong = fmt.Sprintf("user=%s attrs=%v", a.Spec.User, ra)
		}
		st := authorizationv1.SubjectAccessReviewStatus{Allowed: ok, Reason: "verif"}
		switch p.mode {
		case "denied":
			st.Denied = !ok
		case "evalerr":
			st.EvaluationError = "authorizer webhook timed out"
		}
		return true, &authorizationv1.SubjectAccessReview{Status: st}, nil
	})
}

type sdsSUT struct {
	specs  map[string]*clusterSpec
	order  []string
	stop   chan struct{}
	creds  *kubesecrets.Multicluster
	cfg    string
	cache  model.XdsCache
	gen    *pxds.SecretGen
	remote bool
	mesh   *meshconfig.MeshConfig  // mesh config of the generator (default ProxyConfig with a private key provider, or nil)
	now    int                     // clock seconds since `start` (advanced by `tick` and by policy changes)
	hist   map[string][]policySnap // per cluster: what the authoriser answered from which second on
}

// policySnap is the authoriser's policy from second t on (for the oracle's bounded-staleness clause).
type policySnap struct {
	t     int
	allow sets.String
	err   bool
}

func (s *sdsSUT) close() {
	if s.stop != nil {
		close(s.stop)
		s.stop = nil
	}
}

func (s *sdsSUT) reset() {
	s.close()
	*s = sdsSUT{specs: map[string]*clusterSpec{}}
}

func dataTok(m map[string][]byte, key, tok string) {
	if tok == "~" {
		return
	}
	if tok == "EMPTY" {
		m[key] = []byte{}
		return
	}
	m[key] = []byte(wire.Dec(tok))
}

func (s *sdsSUT) spec(id string) *clusterSpec {
	c := s.specs[id]
	if c == nil {
		c = &clusterSpec{id: id, allow: sets.New[string]()}
		s.specs[id] = c
		s.order = append(s.order, id)
	}
	return c
}

func (s *sdsSUT) start(cfg string, remoteCreds bool) {
	s.cfg = cfg
	s.remote = remoteCreds
	// read by kube.NewMulticluster's cluster-added callback, i.e. while the clusters are added below
	features.EnableRemoteCredentialsController = remoteCreds
	defer func() { features.EnableRemoteCredentialsController = true }()
	s.stop = make(chan struct{})
	mc := multicluster.NewFakeController()
	s.creds = kubesecrets.NewMulticluster(cluster.ID(cfg), mc)
	for _, id := range s.order {
		sp := s.specs[id]
		client := kube.NewFakeClient(sp.objs...)
		sp.policy = &sarPolicy{allow: sp.allow, apiError: sp.sarErr, mode: sp.mode}
		installSAR(client.Kube().(*fake.Clientset), sp.policy)
		mc.Add(cluster.ID(id), client, s.stop)
		client.RunAndWait(s.stop)
	}
	s.cache = model.NewXdsCache()
	s.gen = pxds.NewSecretGen(s.creds, s.cache, cluster.ID(cfg), s.mesh)
	s.now, s.hist = 0, map[string][]policySnap{}
	for _, id := range s.order {
		s.snapshot(id)
	}
}

func (s *sdsSUT) snapshot(id string) {
	sp := s.specs[id]
	s.hist[id] = append(s.hist[id], policySnap{t: s.now, allow: sp.allow.Copy(), err: sp.sarErr})
}

// advance moves the clock of every authorization cache (verif hook: cached verdicts become d seconds older). All
// advances are multiples of 60 s, so a cached verdict's nominal age is always 60 s or more away from the side of a TTL
// boundary (60 s / 300 s) on which real elapsed time could flip the comparison: a case may take up to a minute of
// wall clock without the real cache and the model disagreeing.
func (s *sdsSUT) advance(sec int) {
	s.now += sec
	for _, id := range s.order {
		kubesecrets.VerifC11AgeAuthorizationCache(s.creds, cluster.ID(id), time.Duration(sec)*time.Second)
	}
}

// policyChange applies a change of the fake authoriser. Before `start` it only configures; afterwards 60 clock
// seconds pass first, then the API server answers according to the new policy.
func (s *sdsSUT) policyChange(id string, f func(sp *clusterSpec)) {
	if s.gen != nil && s.specs[id] == nil {
		return // after `start`: not a configured cluster, nothing happens
	}
	sp := s.spec(id)
	if s.gen == nil {
		f(sp)
		return
	}
	s.advance(60)
	f(sp)
	if sp.policy != nil {
		sp.policy.apiError = sp.sarErr
	}
	if _, known := s.hist[id]; known {
		s.snapshot(id)
	}
}

// allowedWithin: did the authoriser of the cluster truly allow the user at some second in (now-window, now]?
func (s *sdsSUT) everAllowed(id, user string) bool {
	for _, sn := range s.hist[id] {
		if !sn.err && sn.allow.Contains(user) {
			return true
		}
	}
	return false
}

func (s *sdsSUT) allowedWithin(id, user string, window int) bool {
	h := s.hist[id]
	for i, sn := range h {
		last := s.now // last second at which this snapshot was in force
		if i+1 < len(h) {
			last = h[i+1].t - 1
		}
		if last < sn.t || last <= s.now-window {
			continue
		}
		if !sn.err && sn.allow.Contains(user) {
			return true
		}
	}
	return false
}

var (
	startBase    = time.Date(2200, 1, 1, 0, 0, 0, 0, time.UTC)
	startCounter int64
)

// genReq is one decoded `gen` op.
type genReq struct {
	vid       *spiffe.Identity
	cluster   string
	refs      []string
	hasRefs   bool
	ptype     string
	pkp       string // "", "cryptomb" or "qat": private key provider in the proxy's ProxyConfig metadata
	claimedNs string
	names     []string
	req       *model.PushRequest
}

func decGen(f []string) genReq {
	g := genReq{cluster: wire.Dec(f[5]), ptype: wire.Dec(f[7]), claimedNs: wire.Dec(f[8]), names: wire.DecList(f[9])}
	g.ptype, g.pkp, _ = strings.Cut(g.ptype, "+")
	if f[1] == "1" {
		g.vid = &spiffe.Identity{TrustDomain: wire.Dec(f[2]), Namespace: wire.Dec(f[3]), ServiceAccount: wire.Dec(f[4])}
	}
	if f[6] != "nil" {
		g.hasRefs = true
		g.refs = wire.DecList(f[6])
	}
	if f[10] != "nil" {
		g.req = &model.PushRequest{Forced: f[10] == "1"}
		kinds, names, nss := wire.DecList(f[11]), wire.DecList(f[12]), wire.DecList(f[13])
		if len(kinds) > 0 {
			g.req.ConfigsUpdated = sets.New[model.ConfigKey]()
		}
		for i := range kinds {
			k := kind.VirtualService
			switch kinds[i] {
			case "S":
				k = kind.Secret
			case "M":
				k = kind.ConfigMap
			}
			g.req.ConfigsUpdated.Insert(model.ConfigKey{Kind: k, Name: names[i], Namespace: nss[i]})
		}
	}
	return g
}

func (g genReq) proxy() *model.Proxy {
	p := &model.Proxy{
		ID: "verif-proxy", Type: model.NodeType(g.ptype), ConfigNamespace: g.claimedNs,
		Metadata:         &model.NodeMetadata{ClusterID: cluster.ID(g.cluster), Namespace: g.claimedNs, ServiceAccount: "claimed-" + g.claimedNs},
		VerifiedIdentity: g.vid,
	}
	if g.hasRefs {
		p.MergedGateway = &model.MergedGateway{VerifiedCertificateReferences: sets.New(g.refs...)}
	}
	if pc := pkpConfig(g.pkp); pc != nil {
		p.Metadata.ProxyConfig = &model.NodeMetaProxyConfig{PrivateKeyProvider: pc}
	} else if g.pkp == "none" {
		p.Metadata.ProxyConfig = &model.NodeMetaProxyConfig{} // a ProxyConfig of its own, without a provider
	}
	return p
}

// pkpConfig is the private-key-provider configuration of a proxy variant.
func pkpConfig(kind string) *meshconfig.PrivateKeyProvider {
	switch kind {
	case "cryptomb":
		return &meshconfig.PrivateKeyProvider{Provider: &meshconfig.PrivateKeyProvider_Cryptomb{
			Cryptomb: &meshconfig.PrivateKeyProvider_CryptoMb{PollDelay: durationpb.New(10 * time.Microsecond)},
		}}
	case "qat":
		return &meshconfig.PrivateKeyProvider{Provider: &meshconfig.PrivateKeyProvider_Qat{
			Qat: &meshconfig.PrivateKeyProvider_QAT{PollDelay: durationpb.New(20 * time.Microsecond)},
		}}
	}
	return nil
}

// pkpLabels maps the cache-key hash of each provider configuration (computed as sds.go does: xxhash of the config's
// String()) to a stable label, so that cache keys are comparable with the model.
func pkpLabels() map[string]string {
	m := map[string]string{}
	for _, k := range []string{"cryptomb", "qat"} {
		m[strconv.FormatUint(xxhashv2.Sum64String(pkpConfig(k).String()), 10)] = "H-" + k
	}
	return m
}

// secretView is the canonical view of one returned Envoy secret.
type secretView struct {
	name   string
	kind   string // K = tls certificate with inline private key, P = private key provider, C = validation context
	cert   string
	key    string
	hasKey bool
}

func (v secretView) String() string {
	if v.kind == "C" {
		return v.name + " C " + v.cert
	}
	return v.name + " " + v.kind + " " + v.cert + " " + v.key
}

func views(res model.Resources) []secretView {
	var out []secretView
	for _, r := range res {
		sec := &envoytls.Secret{}
		if err := r.Resource.UnmarshalTo(sec); err != nil {
			out = append(out, secretView{name: r.Name, kind: "X"})
			continue
		}
		v := secretView{name: sec.Name}
		if r.Name != sec.Name {
			v.name = r.Name + "!=" + sec.Name
		}
		if tc := sec.GetTlsCertificate(); tc != nil {
			v.kind = "K"
			v.cert = string(tc.GetCertificateChain().GetInlineBytes())
			v.key = string(tc.GetPrivateKey().GetInlineBytes())
			if pkp := tc.GetPrivateKeyProvider(); pkp != nil {
				// the key travels inside the provider's typed config
				v.kind = "P:" + pkp.GetProviderName()
				cm, qc := &cryptomb.CryptoMbPrivateKeyMethodConfig{}, &qat.QatPrivateKeyMethodConfig{}
				if pkp.GetTypedConfig().UnmarshalTo(cm) == nil {
					v.key = string(cm.GetPrivateKey().GetInlineBytes())
				} else if pkp.GetTypedConfig().UnmarshalTo(qc) == nil {
					v.key = string(qc.GetPrivateKey().GetInlineBytes())
				}
			}
			v.hasKey = true
		} else {
			v.kind = "C"
			v.cert = string(sec.GetValidationContext().GetTrustedCa().GetInlineBytes())
		}
		out = append(out, v)
	}
	return out
}

func showViews(vs []secretView) string {
	var l []string
	for _, v := range vs {
		l = append(l, v.String())
	}
	sort.Strings(l)
	return wire.EncList(l)
}

func (s *sdsSUT) generate(gen *pxds.SecretGen, g genReq) (model.Resources, string) {
	if g.req != nil {
		// no wall clock: strictly increasing push start times far in the future, so that the token rule of
		// lruCache.Add (entry dropped when older than the last Clear, which is stamped with time.Now()) never fires
		startCounter++
		g.req.Start = startBase.Add(time.Duration(startCounter) * time.Millisecond)
	}
	w := &model.WatchedResource{TypeUrl: v3.SecretType, ResourceNames: sets.New(g.names...)}
	res, details, _ := gen.Generate(g.proxy(), w, g.req)
	return res, details.AdditionalInfo
}

func (s *sdsSUT) cacheKeys() string {
	var keys []string
	labels := pkpLabels()
	for _, k := range s.cache.Keys(model.SDSType) {
		key := k.(string)
		if i := strings.LastIndex(key, "/"); i >= 0 {
			if l, ok := labels[key[i+1:]]; ok {
				key = key[:i+1] + l
			}
		}
		keys = append(keys, key)
	}
	return wire.EncSet(keys)
}

func (s *sdsSUT) apply(f []string) string {
	switch f[0] {
	case "case":
		s.reset()
		return "ok"
	case "cluster":
		s.spec(wire.Dec(f[1]))
		return "ok"
	case "secret":
		d := map[string][]byte{}
		dataTok(d, kubesecrets.GenericScrtCert, f[4])
		dataTok(d, kubesecrets.GenericScrtKey, f[5])
		dataTok(d, kubesecrets.GenericScrtCaCert, f[6])
		dataTok(d, kubesecrets.TLSSecretCert, f[7])
		dataTok(d, kubesecrets.TLSSecretKey, f[8])
		dataTok(d, kubesecrets.TLSSecretCaCert, f[9])
		sp := s.spec(wire.Dec(f[1]))
		sp.objs = append(sp.objs, &corev1.Secret{ObjectMeta: metav1.ObjectMeta{Name: wire.Dec(f[3]), Namespace: wire.Dec(f[2])}, Data: d})
		return "ok"
	case "cm":
		d := map[string]string{}
		for i, k := range []string{kubesecrets.GenericScrtCaCert, kubesecrets.TLSSecretCaCert} {
			switch f[4+i] {
			case "~":
			case "EMPTY":
				d[k] = ""
			default:
				d[k] = wire.Dec(f[4+i])
			}
		}
		sp := s.spec(wire.Dec(f[1]))
		sp.objs = append(sp.objs, &corev1.ConfigMap{ObjectMeta: metav1.ObjectMeta{Name: wire.Dec(f[3]), Namespace: wire.Dec(f[2])}, Data: d})
		return "ok"
	case "allow":
		s.policyChange(wire.Dec(f[1]), func(sp *clusterSpec) { sp.allow.Insert(sa.MakeUsername(wire.Dec(f[3]), wire.Dec(f[2]))) })
		return "ok"
	case "deny":
		s.policyChange(wire.Dec(f[1]), func(sp *clusterSpec) { sp.allow.Delete(sa.MakeUsername(wire.Dec(f[3]), wire.Dec(f[2]))) })
		return "ok"
	case "sarerr":
		s.policyChange(wire.Dec(f[1]), func(sp *clusterSpec) { sp.sarErr = true })
		return "ok"
	case "sarok":
		s.policyChange(wire.Dec(f[1]), func(sp *clusterSpec) { sp.sarErr = false })
		return "ok"
	case "sarmode":
		s.spec(wire.Dec(f[1])).mode = f[2]
		return "ok"
	case "meshpkp":
		// the mesh-wide default ProxyConfig selects a private key provider (used by proxies that send no ProxyConfig)
		s.mesh = nil
		if pc := pkpConfig(f[1]); pc != nil {
			s.mesh = &meshconfig.MeshConfig{DefaultConfig: &meshconfig.ProxyConfig{PrivateKeyProvider: pc}}
		}
		return "ok"
	case "tick":
		n, _ := strconv.Atoi(f[1])
		if s.gen != nil {
			s.advance(n)
		}
		return "ok"
	case "start":
		s.start(wire.Dec(f[1]), len(f) < 3 || f[2] == "1")
		return "ok"
	case "clear":
		if s.gen != nil {
			s.cache.ClearAll()
		}
		return "ok"
	case "gen":
		if s.gen == nil {
			// no `start` yet (only in shrunk cases): no controllers, nothing can be released
			return "none keys=-"
		}
		res, info := s.generate(s.gen, decGen(f))
		if res == nil && info == "" {
			return "none keys=" + s.cacheKeys()
		}
		return wire.Enc(info) + " " + showViews(views(res)) + " keys=" + s.cacheKeys()
	}
	return "bad-op"
}

// ---------------------------------------------------------------- stream sds: generator

var (
	storeNs = []string{"ns1", "ns2", "istio-system"}
	// names with the CA suffix at the end, in the middle, at the start and doubled: the filter's and the
	// generator's notion of "CA-only" must agree on every one of them
	storeNames = []string{"a", "b", "a-cacert", "tricky-cacert", "gw", "a-cacert-v2", "-cacert-x", "x-cacert-cacert"}
	cmNames    = []string{"cm", "cm2-cacert"}
	sdsSAs     = []string{"sa1", "sa2"}
)

func tag(kindTag, cl, ns, name, field string) string {
	return kindTag + ":" + cl + ":" + ns + ":" + name + ":" + field
}

func genWorld(r *wire.Rng, out *wire.Out) (clusters []string, cfg string) {
	cfg = "c1"
	switch r.Intn(10) {
	case 0, 1, 2, 3:
		clusters = []string{"c1"}
	case 4, 5, 6, 7:
		clusters = []string{"c1", "c2"}
	case 8:
		clusters = []string{"c2", "c1"}
	default:
		clusters = []string{"c2"} // config cluster not configured
	}
	for _, cl := range clusters {
		out.Line("cluster", cl)
		for _, ns := range storeNs {
			for _, name := range storeNames {
				if !r.Chance(4, 5) {
					continue
				}
				t := func(field string) string { return wire.Enc(tag("S", cl, ns, name, field)) }
				d := []string{"~", "~", "~", "~", "~", "~"}
				switch r.Intn(12) {
				case 0, 1, 2:
					d[0], d[1] = t("cert"), t("key")
				case 3, 4:
					d[0], d[1], d[2] = t("cert"), t("key"), t("cacert")
				case 5, 6:
					d[3], d[4] = t("tls.crt"), t("tls.key")
				case 7:
					d[3], d[4], d[5] = t("tls.crt"), t("tls.key"), t("ca.crt")
				case 8:
					d[2] = t("cacert")
				case 9:
					d[0], d[1], d[3], d[4] = t("cert"), "EMPTY", t("tls.crt"), t("tls.key")
				case 10:
					d[0], d[2], d[5] = t("cert"), "EMPTY", t("ca.crt")
				default:
					// a secret without any usable field
				}
				out.Line("secret", cl, ns, name, d[0], d[1], d[2], d[3], d[4], d[5])
			}
			for _, name := range cmNames {
				// config maps are stored under the name without the -cacert suffix
				stored := strings.TrimSuffix(name, "-cacert")
				if !r.Chance(1, 2) {
					continue
				}
				switch r.Intn(4) {
				case 0:
					out.Line("cm", cl, ns, stored, wire.Enc(tag("M", cl, ns, stored, "cacert")), "~")
				case 1:
					out.Line("cm", cl, ns, stored, "~", wire.Enc(tag("M", cl, ns, stored, "ca.crt")))
				case 2:
					out.Line("cm", cl, ns, stored, "EMPTY", wire.Enc(tag("M", cl, ns, stored, "ca.crt")))
				default:
					out.Line("cm", cl, ns, stored, "~", "~")
				}
			}
			for _, s := range sdsSAs {
				if r.Chance(2, 3) {
					out.Line("allow", cl, s, ns)
				}
			}
		}
	}
	if r.Chance(1, 10) {
		out.Line("sarerr", wire.Pick(r, clusters))
	}
	if r.Chance(1, 5) {
		out.Line("meshpkp", wire.Pick(r, []string{"cryptomb", "qat"}))
	}
	if r.Chance(1, 4) {
		out.Line("sarmode", wire.Pick(r, clusters), wire.Pick(r, []string{"denied", "evalerr"}))
	}
	if r.Chance(1, 10) {
		out.Line("start", cfg, "0") // PILOT_ENABLE_REMOTE_CREDENTIALS_CONTROLLER=false
	} else {
		out.Line("start", cfg)
	}
	return clusters, cfg
}

// sdsNames is the universe of requested names: all URI forms over the store plus hostile variants.
func sdsNameUniverse() []string {
	u := []string{"invalid://x", "invalid://", "builtin://", "default", "ROOTCA", "", "kubernetes://", "kubernetes:///a", "kubernetes://ns1/",
		"kubernetes-gateway://ns1", "kubernetes-gateway:///a", "kubernetes-gateway://ns1/", "configmap://cm", "configmap://ns1/", "configmap:///cm",
		"kubernetes://ns2/../ns1/a", "kubernetes://ns1/a/extra", "kubernetes://ns2/a/ns1", "kubernetes-gateway://ns2/gw/extra",
		"kubernetes://kubernetes-gateway://ns2/gw", "Kubernetes://a", "kubernetes:/a", "file://a"}
	for _, n := range storeNames {
		u = append(u, "kubernetes://"+n, "kubernetes://"+n+"-cacert")
		for _, ns := range storeNs {
			u = append(u, "kubernetes://"+ns+"/"+n, "kubernetes-gateway://"+ns+"/"+n)
		}
		u = append(u, "kubernetes://ns1/"+n+"-cacert", "kubernetes://ns2/"+n+"-cacert", "kubernetes-gateway://ns2/"+n+"-cacert")
	}
	for _, n := range []string{"cm", "cm-cacert", "cm2", "cm2-cacert", "a"} {
		for _, ns := range storeNs {
			u = append(u, "configmap://"+ns+"/"+n)
		}
	}
	return u
}

type genProxy struct {
	hasVid     bool
	td, ns, sa string
	cluster    string
	refs       string
	ptype      string
	claimedNs  string
}

// drawName picks a requested name relative to a proxy: mostly names the proxy is plausibly entitled to
// (implicit / own-namespace kubernetes://, its verified references, config maps), sometimes other
// namespaces' names and hostile strings.
// hostileName draws from the adversarial grammar of the parse stream, anchored at the proxy: a scheme, the
// proxy's own (or another) namespace, a stored secret name, then extra path segments - with the `-cacert`
// suffix in every position (namespace, name, extra/last segment) and empty / dotted segments.  These are the
// names on which ResourceName, Name and Namespace of the parsed resource differ most.
func hostileName(r *wire.Rng, p genProxy) string {
	scheme := wire.Pick(r, []string{"kubernetes://", "kubernetes://", "kubernetes://", "kubernetes://", "kubernetes-gateway://", "configmap://"})
	ns := p.ns
	if r.Chance(1, 4) {
		ns = wire.Pick(r, storeNs)
	}
	n := wire.Pick(r, storeNames)
	suf := func(x string) string {
		switch r.Intn(12) {
		case 0, 1, 2:
			return x + "-cacert"
		case 3:
			return x + "-cacert-v2" // suffix in the middle
		case 4:
			return "-cacert-" + x // suffix at the start
		case 5:
			return x + "-cacert-cacert"
		}
		return x
	}
	extras := []string{"x-cacert", "-cacert", n + "-cacert", "x", "", "..", p.ns, "a", "x-cacert/y", "y/x-cacert", "tricky-cacert"}
	var parts []string
	switch r.Intn(8) {
	case 0:
		parts = []string{suf(n), wire.Pick(r, extras)} // implicit-looking name followed by a segment: first segment becomes the namespace
	case 1:
		parts = []string{suf(ns), n, wire.Pick(r, extras)}
	default:
		parts = []string{ns, suf(n)}
		for i, k := 0, 1+r.Intn(2); i < k; i++ {
			parts = append(parts, wire.Pick(r, extras))
		}
	}
	return scheme + strings.Join(parts, "/")
}

func drawName(r *wire.Rng, p genProxy, universe, gwNames []string) string {
	n := wire.Pick(r, storeNames)
	if r.Chance(1, 6) {
		return hostileName(r, p)
	}
	switch r.Intn(20) {
	case 0, 1, 2, 3:
		return "kubernetes://" + n
	case 4, 5, 6:
		return "kubernetes://" + p.ns + "/" + n
	case 7:
		return "kubernetes://" + n + "-cacert"
	case 8:
		return "kubernetes://" + p.ns + "/" + n + "-cacert"
	case 9, 10, 11:
		if refs := wire.DecList(p.refs); p.refs != "nil" && len(refs) > 0 {
			return wire.Pick(r, refs)
		}
		return wire.Pick(r, gwNames)
	case 12:
		return "kubernetes-gateway://" + wire.Pick(r, storeNs) + "/" + n
	case 13, 14:
		return "configmap://" + wire.Pick(r, storeNs) + "/" + wire.Pick(r, []string{"cm", "cm-cacert", "cm2", "cm2-cacert"})
	case 15, 16, 17:
		return "kubernetes://" + wire.Pick(r, storeNs) + "/" + n
	case 18:
		return genName(r)
	}
	return wire.Pick(r, universe)
}

func genSDS(seed uint64, n int, outp string) {
	out := wire.Create(outp)
	defer out.Close()
	root := wire.NewRng(seed ^ 0xC115)
	universe := sdsNameUniverse()
	var gwNames []string
	for _, u := range universe {
		if strings.HasPrefix(u, "kubernetes-gateway://") || u == "kubernetes://ns2/a" || u == "kubernetes://a" {
			gwNames = append(gwNames, u)
		}
	}
	for c := 0; c < n; c++ {
		r := root.Fork()
		out.Line("case", strconv.Itoa(c), "sds")
		clusters, _ := genWorld(r, out)
		// a small population of differently privileged proxies
		var proxies []genProxy
		for i, k := 0, 2+r.Intn(3); i < k; i++ {
			p := genProxy{hasVid: r.Chance(9, 10), td: "cluster.local", ns: wire.Pick(r, storeNs), sa: wire.Pick(r, sdsSAs),
				cluster: wire.Pick(r, clusters), ptype: wire.Pick(r, []string{"router", "sidecar", "router", "router", "router+cryptomb", "router+qat", "router+none"})}
			if r.Chance(1, 10) {
				p.cluster = wire.Pick(r, []string{"c1", "c2", "cX"})
			}
			if r.Chance(1, 15) {
				p.ns = wire.Pick(r, []string{"", "ns3", "NS1"})
			}
			p.claimedNs = p.ns
			if r.Chance(1, 3) {
				p.claimedNs = wire.Pick(r, storeNs) // claimed namespace differs from the verified one
			}
			switch r.Intn(5) {
			case 0:
				p.refs = "nil"
			case 1:
				p.refs = "-"
			default:
				refs := wire.Subset(r, gwNames, 1, 8)
				for j, m := 0, r.Intn(3); j < m; j++ {
					refs = append(refs, hostileName(r, p))
				}
				p.refs = wire.EncList(dedup(refs))
			}
			proxies = append(proxies, p)
		}
		// a working set of names that several proxies ask for, so that cache entries are shared
		working := make([]string, 0, 10)
		for i := 0; i < 10; i++ {
			working = append(working, drawName(r, wire.Pick(r, proxies), universe, gwNames))
		}
		for i, k := 0, 4+r.Intn(10); i < k; i++ {
			if r.Chance(1, 20) {
				out.Line("clear")
				continue
			}
			switch r.Intn(16) {
			case 0:
				// RBAC changes in the middle of the history: mostly for an identity that is in use
				q := wire.Pick(r, proxies)
				cl := q.cluster
				if r.Chance(1, 6) {
					cl = wire.Pick(r, []string{"c1", "c2", "cX"})
				}
				switch r.Intn(6) {
				case 0, 1, 2:
					out.Line("deny", cl, q.sa, wire.Enc(q.ns))
				case 3, 4:
					out.Line("allow", cl, q.sa, wire.Enc(q.ns))
				default:
					out.Line(wire.Pick(r, []string{"sarerr", "sarok"}), cl)
				}
				continue
			case 1:
				out.Line("tick", strconv.Itoa(wire.Pick(r, []int{60, 60, 120, 180, 240, 300, 360})))
				continue
			}
			p := wire.Pick(r, proxies)
			names := wire.Subset(r, working, 1, 3)
			for j, m := 0, r.Intn(3); j < m; j++ {
				names = append(names, drawName(r, p, universe, gwNames))
			}
			seen := map[string]bool{}
			var uniq []string
			for _, nm := range names {
				if !seen[nm] {
					seen[nm] = true
					uniq = append(uniq, nm)
				}
			}
			req, uk, un, uns := "1", "-", "-", "-"
			switch r.Intn(12) {
			case 0:
				req = "nil"
			case 1, 2:
				req = "0"
				var ks, ns2, nss []string
				for j, m := 0, 1+r.Intn(4); j < m; j++ {
					k := wire.Pick(r, []string{"S", "S", "S", "M", "O"})
					nm := wire.Pick(r, append(append([]string{}, storeNames...), "cm", "cm-cacert", "cm2", "b-cacert", "gw-cacert"))
					un := wire.Pick(r, storeNs)
					if r.Chance(3, 4) && len(uniq) > 0 {
						// an update that concerns one of the requested names: the secret / config map it denotes (for this
						// proxy), sometimes its -cacert sibling
						_, rest, _ := strings.Cut(wire.Pick(r, uniq), "://")
						parts := strings.Split(rest, "/")
						if len(parts) > 1 {
							un, nm = parts[0], parts[1]
						} else {
							un, nm = p.ns, parts[0]
						}
						switch r.Intn(6) {
						case 0:
							nm += "-cacert"
						case 1:
							nm = strings.TrimSuffix(nm, "-cacert")
						}
						if strings.HasPrefix(wire.Pick(r, uniq), "configmap://") && r.Chance(1, 2) {
							k = "M"
						}
					}
					ks = append(ks, k)
					ns2 = append(ns2, nm)
					nss = append(nss, un)
				}
				uk, un, uns = wire.EncList(ks), wire.EncList(ns2), wire.EncList(nss)
			}
			out.Line("gen", wire.B(p.hasVid), wire.Enc(p.td), wire.Enc(p.ns), wire.Enc(p.sa), wire.Enc(p.cluster), p.refs, p.ptype,
				wire.Enc(p.claimedNs), wire.EncList(uniq), req, uk, un, uns)
		}
		// a revocation / grant scenario on the clock: allowed and served, revoked (a cached success may still be served),
		// five minutes later it must be refused; granted again, and at the latest a minute later served again
		if r.Chance(1, 4) {
			q := wire.Pick(r, proxies)
			if q.hasVid && (q.cluster == "c1" || q.cluster == "c2") {
				ask := func() {
					names := []string{"kubernetes://" + wire.Pick(r, storeNames), "kubernetes://" + q.ns + "/" + wire.Pick(r, storeNames), "kubernetes://a", "kubernetes://b"}
					out.Line("gen", "1", wire.Enc(q.td), wire.Enc(q.ns), wire.Enc(q.sa), wire.Enc(q.cluster), q.refs, q.ptype,
						wire.Enc(q.claimedNs), wire.EncList(dedup(names)), "1", "-", "-", "-")
				}
				out.Line("allow", q.cluster, q.sa, wire.Enc(q.ns))
				out.Line("tick", "60")
				ask()
				out.Line("deny", q.cluster, q.sa, wire.Enc(q.ns))
				ask()
				out.Line("tick", strconv.Itoa(wire.Pick(r, []int{120, 180, 240, 300, 360})))
				ask()
				out.Line("tick", "60")
				ask()
				out.Line("allow", q.cluster, q.sa, wire.Enc(q.ns))
				ask()
				out.Line("tick", strconv.Itoa(wire.Pick(r, []int{60, 120})))
				ask()
			}
		}
	}
}

// ---------------------------------------------------------------- stream sds: property oracle
//
// Evaluated on the real responses only (no Lean model): every returned secret that carries a private key
// must (1) go to a proxy with a VerifiedIdentity, and (2) be a secret of the proxy's own verified namespace
// which the proxy's cluster authorises its service account to read, or be named by an explicitly verified
// reference that denotes exactly that secret.  CA material of a Secret obeys the same namespace rule.
// (3) The answer equals the answer of a fresh generator with an empty cache: independent of history.
// The payloads written by the generator carry their origin (kind:cluster:ns:name:field).

type origin struct{ kind, cluster, ns, name, field string }

func parseOrigin(payload string) (origin, bool) {
	p := strings.Split(payload, ":")
	if len(p) != 5 {
		return origin{}, false
	}
	return origin{p[0], p[1], p[2], p[3], p[4]}, true
}

func refDenotes(ref string, o origin, caOK bool) bool {
	rest, ok := strings.CutPrefix(ref, "kubernetes-gateway://")
	if !ok {
		return false
	}
	p := strings.Split(rest, "/")
	if len(p) < 2 || p[0] != o.ns {
		return false
	}
	return p[1] == o.name || (caOK && p[1] == o.name+"-cacert")
}

// oracleStats counts what the explored requests actually exercised (evidence counters; generator regressions show here).
var oracleStats = map[string]int{}

func (s *sdsSUT) oracleGen(f []string) string {
	if s.gen == nil {
		return ""
	}
	g := decGen(f)
	res, info := s.generate(s.gen, g)
	vs := views(res)
	oracleStats["gen.requests"]++
	if g.req != nil && !g.req.Forced && len(vs) > 0 {
		oracleStats["gen.incremental-nonempty"]++
	}
	if strings.HasPrefix(info, "cached:") && !strings.HasPrefix(info, "cached:0/") {
		oracleStats["gen.with-cache-hit"]++
	}
	if g.vid != nil {
		user := sa.MakeUsername(g.vid.Namespace, g.vid.ServiceAccount)
		if sp := s.specs[g.cluster]; sp != nil {
			nowOK := !sp.sarErr && sp.allow.Contains(user) && (s.remote || g.cluster == s.cfg)
			returned := map[string]bool{}
			for _, v := range vs {
				returned[v.name] = true
				switch {
				case v.hasKey && strings.HasPrefix(v.name, "kubernetes://"):
					oracleStats["released.key.own-namespace"]++
					if !nowOK {
						oracleStats["released.key.on-cached-verdict-after-revocation"]++
					}
				case v.hasKey:
					oracleStats["released.key.verified-reference"]++
				case strings.HasPrefix(v.name, "configmap://"):
					oracleStats["released.ca.configmap"]++
				default:
					oracleStats["released.ca.secret"]++
				}
				if strings.HasPrefix(v.kind, "P:") {
					oracleStats["released.key.private-key-provider"]++
				}
			}
			if !nowOK && !s.allowedWithin(g.cluster, user, 300) {
				for _, n := range g.names {
					if rest, ok := strings.CutPrefix(n, "kubernetes://"); ok && !returned[n] && !strings.HasSuffix(rest, "-cacert") &&
						(!strings.Contains(rest, "/") || strings.HasPrefix(rest, g.vid.Namespace+"/")) {
						oracleStats["denied.own-namespace-name-without-rbac"]++
					}
				}
			}
		}
	} else {
		oracleStats["gen.unverified-proxy"]++
	}
	for _, id := range s.order {
		if pol := s.specs[id].policy; pol != nil && pol.wrong != "" {
			return "authorisation-not-decided-by-list-secrets-in-own-namespace " + wire.Enc(pol.wrong)
		}
	}
	if g.vid == nil && len(vs) > 0 {
		return "released-to-unverified-proxy"
	}
	requested := sets.New(g.names...)
	refs := sets.New(g.refs...)
	for _, v := range vs {
		if !requested.Contains(v.name) {
			return "unrequested-resource-returned " + wire.Enc(v.name)
		}
		o, ok := parseOrigin(v.cert)
		if !ok {
			return "payload-without-origin " + wire.Enc(v.name)
		}
		sp := s.specs[g.cluster]
		// authorised now, or at some second within the last five minutes (a cached success may be served that long)
		authorised := sp != nil && (s.remote || g.cluster == s.cfg) &&
			s.allowedWithin(g.cluster, sa.MakeUsername(g.vid.Namespace, g.vid.ServiceAccount), 300)
		switch {
		case v.hasKey:
			ko, ok2 := parseOrigin(v.key)
			if !ok2 || ko.kind != "S" || ko.cluster != o.cluster || ko.ns != o.ns || ko.name != o.name || !strings.HasSuffix(ko.field, "key") {
				return "key-and-certificate-of-different-secrets " + wire.Enc(v.name)
			}
			// the secret a kubernetes:// name denotes: second path segment, or the only one
			denoted := ""
			if rest, ok := strings.CutPrefix(v.name, "kubernetes://"); ok {
				if p := strings.Split(rest, "/"); len(p) > 1 {
					denoted = p[1]
				} else {
					denoted = p[0]
				}
			}
			own := strings.HasPrefix(v.name, "kubernetes://") && o.name == denoted && o.ns == g.vid.Namespace && authorised &&
				((o.cluster == g.cluster && s.remote) || o.cluster == s.cfg)
			granted := refs.Contains(v.name) && refDenotes(v.name, o, false) && o.cluster == s.cfg
			if !own && !granted {
				// which way the key went wrong (part of the fingerprint: unrelated defects get different fingerprints)
				branch := "other"
				user := sa.MakeUsername(g.vid.Namespace, g.vid.ServiceAccount)
				switch {
				case strings.HasPrefix(v.name, "kubernetes-gateway://") && !refs.Contains(v.name):
					branch = "gateway-name-not-verified"
				case strings.HasPrefix(v.name, "kubernetes-gateway://") && o.cluster != s.cfg:
					branch = "gateway-secret-not-from-config-cluster"
				case strings.HasPrefix(v.name, "kubernetes-gateway://"):
					branch = "gateway-reference-denotes-other-secret"
				case o.ns != g.vid.Namespace:
					branch = "other-namespace"
				case o.name != denoted:
					branch = "other-secret-than-named"
				case !authorised && sp != nil && s.everAllowed(g.cluster, user):
					branch = "rbac-revoked-longer-than-ttl"
				case !authorised:
					branch = "no-rbac"
				default:
					branch = "wrong-cluster"
				}
				return "private-key-to-unentitled-proxy " + wire.Enc(v.name) + " origin=" + wire.Enc(v.key) + " branch=" + branch
			}
		case o.kind == "S":
			// CA material of a Secret: the secret the name denotes, or that name without the -cacert suffix
			caDenoted := ""
			if rest, ok := strings.CutPrefix(v.name, "kubernetes://"); ok {
				if p := strings.Split(rest, "/"); len(p) > 1 {
					caDenoted = p[1]
				} else {
					caDenoted = p[0]
				}
			}
			own := strings.HasPrefix(v.name, "kubernetes://") && o.ns == g.vid.Namespace &&
				(o.name == caDenoted || o.name == strings.TrimSuffix(caDenoted, "-cacert"))
			granted := refs.Contains(v.name) && refDenotes(v.name, o, true)
			if !own && !granted {
				return "secret-ca-across-namespaces " + wire.Enc(v.name) + " origin=" + wire.Enc(v.cert)
			}
		case o.kind == "M":
			if !strings.HasPrefix(v.name, "configmap://") {
				return "configmap-under-secret-name " + wire.Enc(v.name)
			}
		}
	}
	// history / cache independence: a generator with an empty cache over the same controllers
	fresh := pxds.NewSecretGen(s.creds, model.NewXdsCache(), cluster.ID(s.cfg), s.mesh)
	res2, _ := s.generate(fresh, g)
	if a, b := showViews(vs), showViews(views(res2)); a != b {
		return fmt.Sprintf("answer-depends-on-history shared=%s fresh=%s", a, b)
	}
	return ""
}
