// Harness for C12: drives the real route.BuildHTTPRoutesForVirtualService (and, through the verif
// hook, the virtual-host domain functions of pilot/pkg/networking/core) on VirtualServices given as
// op lines, and evaluates the generated Envoy routes with a reference route interpreter.
//
//	c12 gen      <stream> <seed> <ncases> <ops-out>
//	c12 exec     <stream> <ops-in> <impl-out>
//	c12 oracle   <stream> <ops-in> <verdict-out>
//	c12 validate <ops-in>                       (real validator on every VirtualService of an ops file)
//
// Streams:
//
//	routes    structural: S-expression of the real routes vs the Lean compiler (`build` lines)
//	requests  semantic: reference interpreter on the real routes vs the Lean vsSpec (`req` lines)
//	vhosts    domains / virtual-host selection / SortVHostRoutes (see vhosts.go)
//
// The Lean driver (lean/IstioModel/C12/Driver.lean) consumes the same ops file; outputs are compared
// line by line.
package main

import (
	"fmt"
	"os"
	"strconv"
	"strings"

	route "github.com/envoyproxy/go-control-plane/envoy/config/route/v3"
	"google.golang.org/protobuf/types/known/wrapperspb"

	networking "istio.io/api/networking/v1alpha3"
	"istio.io/istio/pilot/pkg/model"
	istioroute "istio.io/istio/pilot/pkg/networking/core/route"
	"istio.io/istio/pkg/config"
	"istio.io/istio/pkg/config/constants"
	"istio.io/istio/pkg/config/host"
	"istio.io/istio/pkg/config/mesh"
	"istio.io/istio/pkg/config/protocol"
	"istio.io/istio/pkg/config/schema/gvk"
	"istio.io/istio/pkg/config/validation"
	"istio.io/istio/pkg/util/sets"
	_ "verifharness/internal/quiet"
	"verifharness/internal/wire"
)

func main() {
	if len(os.Args) < 2 {
		fmt.Fprintln(os.Stderr, "usage: c12 gen|exec|oracle|validate ...")
		os.Exit(2)
	}
	// streams `known-<s>` hold the witnesses of known findings; they behave like stream <s>
	if len(os.Args) > 2 {
		os.Args[2] = strings.TrimPrefix(os.Args[2], "known-")
	}
	switch os.Args[1] {
	case "gen":
		seed, _ := strconv.ParseUint(os.Args[3], 10, 64)
		n, _ := strconv.Atoi(os.Args[4])
		gen(os.Args[2], seed, n, os.Args[5])
	case "exec":
		execOps(os.Args[2], os.Args[3], os.Args[4])
	case "oracle":
		oracle(os.Args[2], os.Args[3], os.Args[4])
	case "validate":
		validateOps(os.Args[2])
	case "retab": // retab <ops-in> <ops-out>: (re)compute the regex-table token of every req line (corpus authoring aid)
		retab(os.Args[2], os.Args[3])
	default:
		os.Exit(2)
	}
}

// ---------------------------------------------------------------- op-line encoding
//
// StringMatch token:  -            nil pointer
//                     u!~          MatchType unset ({})
//                     e!<enc> p!<enc> r!<enc>   exact / prefix / regex
// Map token: comma separated  <enc name>!<kind>!<enc value>  ("-" = empty map)
// Pairs:     comma separated  <enc k>!<enc v>
// '!' and ',' are always escaped by wire.Enc, so they are safe separators.

func encSM(sm *networking.StringMatch) string {
	if sm == nil {
		return "-"
	}
	switch m := sm.MatchType.(type) {
	case *networking.StringMatch_Exact:
		return "e!" + wire.Enc(m.Exact)
	case *networking.StringMatch_Prefix:
		return "p!" + wire.Enc(m.Prefix)
	case *networking.StringMatch_Regex:
		return "r!" + wire.Enc(m.Regex)
	}
	return "u!~"
}

func decSM(t string) *networking.StringMatch {
	if t == "-" {
		return nil
	}
	p := strings.SplitN(t, "!", 2)
	if len(p) != 2 {
		return nil
	}
	v := wire.Dec(p[1])
	switch p[0] {
	case "e":
		return &networking.StringMatch{MatchType: &networking.StringMatch_Exact{Exact: v}}
	case "p":
		return &networking.StringMatch{MatchType: &networking.StringMatch_Prefix{Prefix: v}}
	case "r":
		return &networking.StringMatch{MatchType: &networking.StringMatch_Regex{Regex: v}}
	}
	return &networking.StringMatch{}
}

// smEntry keeps generator order (the Go map has none; the model must not depend on it).
type smEntry struct {
	name string
	sm   *networking.StringMatch
}

func encSMMap(es []smEntry) string {
	if len(es) == 0 {
		return "-"
	}
	out := make([]string, len(es))
	for i, e := range es {
		out[i] = wire.Enc(e.name) + "!" + encSM(e.sm)
		if e.sm == nil {
			out[i] = wire.Enc(e.name) + "!n!~"
		}
	}
	return strings.Join(out, ",")
}

func decSMMap(t string) map[string]*networking.StringMatch {
	if t == "-" {
		return nil
	}
	out := map[string]*networking.StringMatch{}
	for _, e := range strings.Split(t, ",") {
		p := strings.SplitN(e, "!", 2)
		if len(p) != 2 {
			continue
		}
		if p[1] == "n!~" {
			out[wire.Dec(p[0])] = nil
		} else {
			out[wire.Dec(p[0])] = decSM(p[1])
		}
	}
	return out
}

type kv struct{ k, v string }

func encPairs(ps []kv) string {
	if len(ps) == 0 {
		return "-"
	}
	out := make([]string, len(ps))
	for i, p := range ps {
		out[i] = wire.Enc(p.k) + "!" + wire.Enc(p.v)
	}
	return strings.Join(out, ",")
}

func decPairs(t string) []kv {
	if t == "-" {
		return nil
	}
	var out []kv
	for _, e := range strings.Split(t, ",") {
		p := strings.SplitN(e, "!", 2)
		if len(p) == 2 {
			out = append(out, kv{wire.Dec(p[0]), wire.Dec(p[1])})
		}
	}
	return out
}

func pairsMap(ps []kv) map[string]string {
	if len(ps) == 0 {
		return nil
	}
	m := map[string]string{}
	for _, p := range ps {
		m[p.k] = p.v
	}
	return m
}

// ---------------------------------------------------------------- case state (real objects)

type request struct {
	claims    []kv // verified JWT claims: (path joined by ".", value); a repeated path is a list claim
	path      string
	query     []kv
	method    string
	authority string
	scheme    string
	headers   []kv
}

type state struct {
	node       *model.Proxy
	gwNames    sets.String
	services   map[host.Name]*model.Service
	servicesNs map[string]map[string]*model.Service // gateway stream: hostname -> namespace -> service
	cfg        config.Config
	vs         *networking.VirtualService
	cur        *networking.HTTPRoute
	port       int
	routes     []*route.Route
	built      bool
	vh         vhState
	mesh       meshState
	gw         gwState
	isTLS      bool // opts.IsTLS of the route translation (gateway server with a TLS block)
	// oracle-only switch: evaluate the spec with the deviation of finding F-C12-1 (classification)
	f1Variant bool
	// oracle-only switch: F-C12-6 deviation (classification)
	indexVariant bool
	aliasVariant bool // classification only (F-C12-9)
}

func newState() *state {
	s := &state{}
	s.reset()
	return s
}

func (s *state) reset() {
	s.node = &model.Proxy{Type: model.SidecarProxy, Metadata: &model.NodeMetadata{}, Labels: nil}
	s.gwNames = sets.New(constants.IstioMeshGateway)
	s.services = map[host.Name]*model.Service{}
	s.servicesNs = map[string]map[string]*model.Service{}
	s.vs = &networking.VirtualService{}
	s.cfg = config.Config{Meta: config.Meta{GroupVersionKind: gvk.VirtualService, Name: "vs", Namespace: "default"}, Spec: s.vs}
	s.cur = nil
	s.port = 80
	s.routes = nil
	s.built = false
	s.vh = vhState{}
	s.mesh.drop()
	s.mesh = meshState{}
	s.gw.drop()
	s.gw = gwState{}
	s.isTLS = false
}

func atoi(t string) int {
	n, _ := strconv.Atoi(t)
	return n
}

// apply consumes one configuration op; returns false when the op is not a configuration op.
func (s *state) apply(f []string) bool {
	switch f[0] {
	case "proxy": // proxy <ns> <labels> <gatewayNames>
		s.node = &model.Proxy{
			Type:     model.SidecarProxy,
			Metadata: &model.NodeMetadata{Namespace: wire.Dec(f[1])},
			Labels:   pairsMap(decPairs(f[2])),
		}
		s.node.ConfigNamespace = wire.Dec(f[1])
		names := wire.DecList(f[3])
		s.gwNames = sets.New(names...)
		if !(len(names) == 1 && names[0] == constants.IstioMeshGateway) {
			s.node.Type = model.Router
		}
		s.built = false
	case "tls": // tls <0/1>: the listener terminates TLS (RouteOptions.IsTLS)
		s.isTLS = f[1] == "1"
		s.built = false
	case "svc": // svc <host> <ports> <externalName>
		svc := &model.Service{Hostname: host.Name(wire.Dec(f[1]))}
		for _, p := range wire.DecList(f[2]) {
			svc.Ports = append(svc.Ports, &model.Port{Name: "http-" + p, Port: atoi(p), Protocol: protocol.HTTP})
		}
		svc.Attributes.K8sAttributes.ExternalName = wire.Dec(f[3])
		s.services[svc.Hostname] = svc
		s.built = false
	case "vs": // vs <name> <ns> <sem> <hosts>
		s.vs = &networking.VirtualService{Hosts: wire.DecList(f[4])}
		s.cfg = config.Config{Meta: config.Meta{GroupVersionKind: gvk.VirtualService, Name: wire.Dec(f[1]), Namespace: wire.Dec(f[2])}, Spec: s.vs}
		switch f[3] {
		case "gateway":
			s.cfg.Annotations = map[string]string{constants.InternalRouteSemantics: constants.RouteSemanticsGateway}
		case "ingress":
			s.cfg.Annotations = map[string]string{constants.InternalRouteSemantics: constants.RouteSemanticsIngress}
		}
		s.cur = nil
		s.built = false
	case "rule": // rule <name> route <dests> | redirect <uri> <authority> <prefixRewrite> <scheme> <port> <code> | direct <status> <body>
		r := &networking.HTTPRoute{Name: wire.Dec(f[1])}
		switch f[2] {
		case "route":
			if f[3] != "-" {
				for _, d := range strings.Split(f[3], ",") {
					p := strings.Split(d, "!")
					if len(p) != 4 {
						continue
					}
					dst := &networking.Destination{Host: wire.Dec(p[0]), Subset: wire.Dec(p[1])}
					if p[2] != "-" {
						dst.Port = &networking.PortSelector{Number: uint32(atoi(p[2]))}
					}
					r.Route = append(r.Route, &networking.HTTPRouteDestination{Destination: dst, Weight: int32(atoi(p[3]))})
				}
			}
		case "redirect":
			rd := &networking.HTTPRedirect{Uri: wire.Dec(f[3]), Authority: wire.Dec(f[4]), Scheme: wire.Dec(f[6]), RedirectCode: uint32(atoi(f[8]))}
			if pr := wire.Dec(f[5]); pr != "" {
				rd.Uri = ""
				rd.PrefixRewrite = pr
			}
			switch {
			case strings.HasPrefix(f[7], "p:"):
				rd.RedirectPort = &networking.HTTPRedirect_Port{Port: uint32(atoi(f[7][2:]))}
			case f[7] == "d:default":
				rd.RedirectPort = &networking.HTTPRedirect_DerivePort{DerivePort: networking.HTTPRedirect_FROM_PROTOCOL_DEFAULT}
			case f[7] == "d:request":
				rd.RedirectPort = &networking.HTTPRedirect_DerivePort{DerivePort: networking.HTTPRedirect_FROM_REQUEST_PORT}
			}
			r.Redirect = rd
		case "direct":
			dr := &networking.HTTPDirectResponse{Status: uint32(atoi(f[3]))}
			if f[4] != "-" {
				dr.Body = &networking.HTTPBody{Specifier: &networking.HTTPBody_String_{String_: wire.Dec(f[4])}}
				if len(f) > 5 && f[5] == "bytes" {
					dr.Body = &networking.HTTPBody{Specifier: &networking.HTTPBody_Bytes{Bytes: []byte(wire.Dec(f[4]))}}
				}
			}
			r.DirectResponse = dr
		}
		s.vs.Http = append(s.vs.Http, r)
		s.cur = r
		s.built = false
	case "match": // match <name> <uri> <scheme> <method> <authority> <headers> <without> <query> <icase> <port> <srclabels> <srcns> <gateways>
		if s.cur == nil {
			return true
		}
		m := &networking.HTTPMatchRequest{
			Name: wire.Dec(f[1]), Uri: decSM(f[2]), Scheme: decSM(f[3]), Method: decSM(f[4]), Authority: decSM(f[5]),
			Headers: decSMMap(f[6]), WithoutHeaders: decSMMap(f[7]), QueryParams: decSMMap(f[8]),
			IgnoreUriCase: f[9] == "1", Port: uint32(atoi(f[10])), SourceLabels: pairsMap(decPairs(f[11])),
			SourceNamespace: wire.Dec(f[12]), Gateways: wire.DecList(f[13]),
		}
		s.cur.Match = append(s.cur.Match, m)
		s.built = false
	default:
		return false
	}
	return true
}

func (s *state) opts() istioroute.RouteOptions {
	return istioroute.RouteOptions{
		IsTLS:                     s.isTLS,
		IsHTTP3AltSvcHeaderNeeded: false,
		Mesh:                      mesh.DefaultMeshConfig(),
		LookupService:             func(name host.Name) *model.Service { return s.services[name] },
		LookupDestinationCluster:  istioroute.GetDestinationCluster,
		LookupHash: func(*networking.HTTPRouteDestination) *networking.LoadBalancerSettings_ConsistentHashLB {
			return nil
		},
	}
}

// build calls the REAL compiler.
func (s *state) build(port int) {
	s.port = port
	routes, err := istioroute.BuildHTTPRoutesForVirtualService(s.node, s.cfg, port, s.gwNames, s.opts())
	if err != nil {
		routes = nil
	}
	s.routes = routes
	s.built = true
}

func parseReq(f []string) request {
	// req <path> <query> <method> <authority> <scheme> <headers> [<regex table: for the model side only>]
	r := request{path: wire.Dec(f[1]), query: decPairs(f[2]), method: wire.Dec(f[3]), authority: wire.Dec(f[4]),
		scheme: wire.Dec(f[5]), headers: decPairs(f[6])}
	if len(f) > 8 {
		r.claims = decPairs(f[8])
	}
	return r
}

// ---------------------------------------------------------------- exec

func execOps(stream, in, out string) {
	lines := wire.ReadLines(in)
	o := wire.Create(out)
	defer o.Close()
	s := newState()
	for _, f := range lines {
		o.Line(safeStep(s, stream, f))
		o.Flush()
	}
}

func safeStep(s *state, stream string, f []string) (res string) {
	defer func() {
		if r := recover(); r != nil {
			res = "crash"
		}
	}()
	return step(s, stream, f)
}

func step(s *state, stream string, f []string) string {
	if f[0] == "case" {
		s.reset()
		return "ok"
	}
	if s.apply(f) {
		return "ok"
	}
	switch f[0] {
	case "validate": // the REAL validator (used by corpus regressions; the model knows one clause: redirect codes)
		if _, err := validation.ValidateVirtualService(s.cfg); err != nil {
			return "invalid"
		}
		return "valid"
	case "build": // build <listenPort>
		s.build(atoi(f[1]))
		if stream == "requests" {
			return "ok"
		}
		return showRoutes(s.routes)
	case "req":
		if !s.built {
			s.build(s.port)
		}
		return showDecision(evalRoutes(s.routes, parseReq(f)))
	}
	if r, ok := s.vhStep(stream, f); ok {
		return r
	}
	if r, ok := s.rdsStep(f); ok {
		return r
	}
	if r, ok := s.gwStep(f); ok {
		return r
	}
	return "bad-op"
}

// ---------------------------------------------------------------- validate

func validateOps(in string) {
	lines := wire.ReadLines(in)
	s := newState()
	n, bad := 0, 0
	check := func() {
		if len(s.vs.Http) == 0 {
			return
		}
		n++
		if _, err := validation.ValidateVirtualService(s.cfg); err != nil {
			bad++
			fmt.Printf("INVALID %s: %v\n", s.cfg.Name, strings.ReplaceAll(err.Error(), "\n", " "))
		}
	}
	for _, f := range lines {
		if f[0] == "case" || f[0] == "vs" {
			check()
		}
		if f[0] == "case" {
			s.reset()
			continue
		}
		s.apply(f)
	}
	check()
	fmt.Printf("validated %d invalid %d\n", n, bad)
}

func retab(in, out string) {
	lines := wire.ReadLines(in)
	o := wire.Create(out)
	defer o.Close()
	s := newState()
	for _, f := range lines {
		if f[0] == "case" {
			s.reset()
		}
		if f[0] == "req" && len(f) >= 7 {
			f = append(f[:7:7], encPairs(regexTable(s.vs, parseReq(f))))
		} else {
			s.apply(f)
		}
		o.Line(f...)
	}
}

var _ = wrapperspb.Bool
