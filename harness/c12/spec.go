package main

// The property statement on the Go side (used only by `oracle`): what the VirtualService says should
// happen to a request, evaluated directly on the networking.VirtualService, independently of the
// Lean model and of the route compiler; compared with the reference interpreter's verdict on the
// REAL generated routes.

import (
	"strconv"
	"strings"

	route "github.com/envoyproxy/go-control-plane/envoy/config/route/v3"

	networking "istio.io/api/networking/v1alpha3"
	"istio.io/istio/pkg/config/constants"
	"istio.io/istio/pkg/config/host"
	"verifharness/internal/wire"
)

func presenceOnly(sm *networking.StringMatch) bool {
	if sm == nil || sm.MatchType == nil {
		return true
	}
	return sm.GetRegex() == "*" && isRegex(sm)
}

func isRegex(sm *networking.StringMatch) bool {
	_, ok := sm.GetMatchType().(*networking.StringMatch_Regex)
	return ok
}

func smHolds(sm *networking.StringMatch, v string) bool {
	if presenceOnly(sm) {
		return true
	}
	switch m := sm.MatchType.(type) {
	case *networking.StringMatch_Exact:
		return v == m.Exact
	case *networking.StringMatch_Prefix:
		return strings.HasPrefix(v, m.Prefix)
	case *networking.StringMatch_Regex:
		return fullMatch(m.Regex, v)
	}
	return true
}

// claimKey: `@request.auth.claims.a.b` / `@request.auth.claims[a][b]` -> "a.b".
func claimKey(name string) (string, bool) {
	const pre = "@request.auth.claims"
	if !strings.HasPrefix(strings.ToLower(name), pre) {
		return "", false
	}
	rest := name[len(pre):]
	switch {
	case strings.HasPrefix(rest, ".") && len(rest) > 1:
		return rest[1:], true
	case strings.HasPrefix(rest, "[") && strings.HasSuffix(rest, "]") && len(rest) > 2:
		return strings.Join(strings.Split(rest[1:len(rest)-1], "]["), "."), true
	}
	return "", false
}

// entryHolds: a `headers` entry - a verified JWT claim (present, one of its values matches) or an ordinary header.
func (s *state) entryHolds(n string, sm *networking.StringMatch, r request, without bool) bool {
	if k, ok := claimKey(n); ok {
		vals, _ := r.claim(k)
		for _, v := range vals {
			if smValue(sm, v) {
				return true
			}
		}
		return false
	}
	v, ok := r.header(n)
	if !ok && without && s.f1Variant && !presenceOnly(sm) {
		v, ok = "", true // classification only: what the generated matcher does (F-C12-1)
	}
	return ok && smHolds(sm, v)
}

// smValue: plain value test (no presence conversion: claim matchers are built by ConvertToEnvoyMatch only).
func smValue(sm *networking.StringMatch, v string) bool {
	switch m := sm.GetMatchType().(type) {
	case *networking.StringMatch_Exact:
		return v == m.Exact
	case *networking.StringMatch_Prefix:
		return strings.HasPrefix(v, m.Prefix)
	case *networking.StringMatch_Regex:
		return fullMatch(m.Regex, v)
	}
	return true
}

func (s *state) sem() string {
	return s.cfg.Annotations[constants.InternalRouteSemantics]
}

func (s *state) uriHolds(m *networking.HTTPMatchRequest, path string) bool {
	if m.Uri == nil || m.Uri.MatchType == nil {
		return true
	}
	fold := func(x string) string {
		if m.IgnoreUriCase {
			return asciiLower(x)
		}
		return x
	}
	switch u := m.Uri.MatchType.(type) {
	case *networking.StringMatch_Exact:
		return fold(path) == fold(u.Exact)
	case *networking.StringMatch_Regex:
		return fullMatch(u.Regex, path)
	case *networking.StringMatch_Prefix:
		sem := s.sem()
		if (sem == constants.RouteSemanticsGateway || sem == constants.RouteSemanticsIngress) && u.Prefix != "/" {
			q := strings.TrimSuffix(u.Prefix, "/")
			return fold(path) == fold(q) || strings.HasPrefix(fold(path), fold(q)+"/")
		}
		return strings.HasPrefix(fold(path), fold(u.Prefix))
	}
	return true
}

func (s *state) matchHolds(m *networking.HTTPMatchRequest, r request) bool {
	if !s.uriHolds(m, r.path) {
		return false
	}
	for n, sm := range m.Headers {
		if !s.entryHolds(n, sm, r, false) {
			return false
		}
	}
	for n, sm := range m.WithoutHeaders {
		if s.entryHolds(n, sm, r, true) {
			return false
		}
	}
	if m.Method != nil && !smHolds(m.Method, r.method) {
		return false
	}
	if m.Authority != nil && !smHolds(m.Authority, r.authority) {
		return false
	}
	if m.Scheme != nil && !smHolds(m.Scheme, r.scheme) {
		return false
	}
	for n, sm := range m.QueryParams {
		v, ok := r.queryParam(n)
		if !ok || !smHolds(sm, v) {
			return false
		}
	}
	return true
}

// applicable: the selector part of a match block (port, gateways / sourceLabels + sourceNamespace).
func (s *state) applicable(m *networking.HTTPMatchRequest) bool {
	if m.Port != 0 && int(m.Port) != s.port {
		return false
	}
	if len(m.Gateways) > 0 {
		for _, g := range m.Gateways {
			if s.gwNames.Contains(g) {
				return true
			}
		}
		return false
	}
	for k, v := range m.SourceLabels {
		if pv, ok := s.node.Labels[k]; !ok || pv != v {
			return false
		}
	}
	return m.SourceNamespace == "" || m.SourceNamespace == s.node.Metadata.Namespace
}

func (s *state) specCluster(d *networking.Destination) string {
	if d.GetHost() == "" {
		return "UnknownService"
	}
	h := d.Host
	svc := s.services[host.Name(d.Host)]
	if byNs := s.servicesNs[d.Host]; byNs != nil {
		if own := byNs[s.cfg.Namespace]; own != nil {
			svc = own // the service of the VirtualService's own namespace
		}
	}
	if svc != nil && svc.Attributes.K8sAttributes.ExternalName != "" {
		h = svc.Attributes.K8sAttributes.ExternalName
	}
	port := s.port
	if d.Port != nil {
		port = int(d.Port.Number)
	} else if svc != nil && len(svc.Ports) == 1 {
		port = svc.Ports[0].Port
	}
	return "outbound|" + strconv.Itoa(port) + "|" + d.Subset + "|" + h
}

// specAction prints the rule's action in the same syntax as showDecision.
func (s *state) specAction(r *networking.HTTPRoute) string {
	switch {
	case r.Redirect != nil:
		rd := r.Redirect
		path := "pa:" + wire.Enc(rd.Uri)
		if rd.PrefixRewrite != "" {
			path = "pr:" + wire.Enc(rd.PrefixRewrite)
		}
		port := 0
		if rd.RedirectPort != nil {
			switch rp := rd.RedirectPort.(type) {
			case *networking.HTTPRedirect_Port:
				port = int(rp.Port)
			case *networking.HTTPRedirect_DerivePort:
				if rp.DerivePort == networking.HTTPRedirect_FROM_REQUEST_PORT {
					port = s.port
				}
			}
			scheme := rd.Scheme
			if scheme == "" {
				scheme = "http"
				if s.isTLS {
					scheme = "https"
				}
			}
			if (port == 80 && scheme == "http") || (port == 443 && scheme == "https") {
				port = 0
			}
		}
		code := int(rd.RedirectCode)
		if code == 0 {
			code = 301
		}
		return "rd:" + wire.Enc(rd.Authority) + "!" + path + "!" + wire.Enc(rd.Scheme) + "!" + strconv.Itoa(port) + "!" + strconv.Itoa(code)
	case r.DirectResponse != nil:
		b := "-"
		if r.DirectResponse.Body != nil {
			b = wire.Enc(bodyText(r.DirectResponse.Body))
		}
		return "dr:" + strconv.Itoa(int(r.DirectResponse.Status)) + "!" + b
	}
	if len(r.Route) == 1 {
		return showDist([]kvw{{s.specCluster(r.Route[0].Destination), 1}})
	}
	var d []kvw
	for _, w := range r.Route {
		if w.Weight != 0 {
			d = append(d, kvw{s.specCluster(w.Destination), uint32(w.Weight)})
		}
	}
	return showDist(d)
}

// vsSpec: action of the first rule that fires for this proxy / port, 404 otherwise.  Also returns the
// rule, for the classification of a disagreement.
func (s *state) vsSpec(r request) (string, *networking.HTTPRoute) {
	for _, h := range s.vs.Http {
		if len(h.Match) == 0 {
			return s.specAction(h), h
		}
		for _, m := range h.Match {
			if s.applicable(m) && s.matchHolds(m, r) {
				return s.specAction(h), h
			}
		}
	}
	return "404", nil
}

// classify names the input class of a disagreement (stable fingerprint component).  A known-finding
// class is returned only when it EXPLAINS the disagreement: the spec is recomputed with exactly the
// deviation of that finding and must then equal what the real routes did.  Everything else is `decision`.
func (s *state) classify(r request, got decision, rule *networking.HTTPRoute) string {
	if got.kind == "invalid" && rule != nil && rule.Redirect != nil {
		switch rule.Redirect.RedirectCode {
		case 0, 301, 302, 303, 307, 308:
		default:
			return "redirect-code-unsupported"
		}
	}
	// F-C12-1: withoutHeaders entries treat an absent header as the empty string
	s.f1Variant = true
	alt, _ := s.vsSpec(r)
	s.f1Variant = false
	if alt == showDecision(got) {
		return "withoutHeaders-pattern-accepts-empty-and-header-absent"
	}
	return "decision"
}

// verdicts collects, per case, the first failure of every distinct clause (so that a known finding
// cannot hide a different violation in the same case).
type verdicts struct {
	order []string
	msg   map[string]string
}

func (v *verdicts) fail(clause, detail string) {
	if v.msg == nil {
		v.msg = map[string]string{}
	}
	if _, ok := v.msg[clause]; !ok {
		v.order = append(v.order, clause)
		v.msg[clause] = detail
	}
}

func (v *verdicts) line() string {
	if len(v.order) == 0 {
		return "OK"
	}
	out := make([]string, len(v.order))
	for i, c := range v.order {
		out[i] = "FAIL " + c + " " + v.msg[c]
	}
	return strings.Join(out, " ;; ")
}

// sortSafe: the side condition of sortVHost_sound for one request - no non-catch-all route placed
// after the first catch-all route matches the request.
func sortSafe(routes []*route.Route, isCatchAll func(*route.Route) bool, r request) bool {
	seen := false
	for _, rt := range routes {
		if isCatchAll(rt) {
			seen = true
			continue
		}
		if seen && routeMatches(rt.Match, r) {
			return false
		}
	}
	return true
}
