package main

// Seeded generators (only wire.Rng) for the streams `routes` and `requests`, the request
// synthesiser (requests built from the literals of the rules and their near misses), and the oracle.

import (
	"fmt"
	"os"
	"sort"
	"strconv"
	"strings"

	networking "istio.io/api/networking/v1alpha3"
	"istio.io/istio/pkg/config/validation"
	"verifharness/internal/wire"
)

var (
	pathLits    = []string{"/", "/foo", "/foo/", "/foo/bar", "/Foo", "/api", "/api/v1", "/api/v1/items", "/health", "/a", ""}
	pathRegexes = []string{".*", "/foo/.*", "/[a-z]+", "/api/v[0-9]+(/.*)?", "/foo|/bar", "/.+", "/FOO.*"}
	pathPool    = []string{"/", "/foo", "/foo/", "/foobar", "/foo/bar", "/FOO", "/Foo", "/fo", "/api", "/api/v1", "/api/v1/items", "/api/v2/", "/api/vx", "/health", "/a", "/bar", "/x/y"}
	hdrNames    = []string{"x-user", "end-user", "x-debug", "x-a", "cookie", "x-b"}
	hdrVals     = []string{"jason", "Jason", "abc", "abcd", "a", "1", "true", "x y"}
	valRegexes  = []string{"ja.*", "[a-z]+", ".+", "a.*d", "(abc|1)", ".*", "a*", "[0-9]*"}
	qNames      = []string{"v", "key", "debug"}
	methods     = []string{"GET", "POST", "PUT", "get"}
	authorities = []string{"reviews", "reviews.default.svc.cluster.local", "example.com", "example.com:8080", "Example.com", "ratings.default.svc.cluster.local"}
	schemes     = []string{"http", "https"}
	ports       = []int{80, 8080, 9080}
	labelPool   = []kv{{"app", "web"}, {"version", "v1"}, {"app", "db"}, {"tier", "fe"}}
	nsPool      = []string{"default", "other"}
	gwPool      = []string{"mesh", "istio-system/gw", "default/gw2"}
	svcHosts    = []string{"reviews.default.svc.cluster.local", "ratings.default.svc.cluster.local", "ext.default.svc.cluster.local", "api.example.com"}
	subsets     = []string{"", "v1", "v2"}
)

type genStats struct{ generated, rejected, malformed int }

func mkSM(kind int, v string) *networking.StringMatch {
	switch kind {
	case 0:
		return &networking.StringMatch{MatchType: &networking.StringMatch_Exact{Exact: v}}
	case 1:
		return &networking.StringMatch{MatchType: &networking.StringMatch_Prefix{Prefix: v}}
	case 2:
		return &networking.StringMatch{MatchType: &networking.StringMatch_Regex{Regex: v}}
	}
	return &networking.StringMatch{}
}

// genValueSM: a StringMatch for a header / query / pseudo-header value.
// allowEmptyAccepting=false keeps patterns that accept "" out (withoutHeaders in stream `requests`,
// finding F-C12-1 has its own corpus file).
func genValueSM(r *wire.Rng, allowStar, allowEmptyAccepting, malformed bool) *networking.StringMatch {
	for {
		var sm *networking.StringMatch
		switch x := r.Intn(20); {
		case x < 8:
			sm = mkSM(0, wire.Pick(r, hdrVals))
		case x < 9:
			sm = mkSM(0, "")
		case x < 13:
			v := wire.Pick(r, hdrVals)
			sm = mkSM(1, v[:1+r.Intn(len(v))])
		case x < 17:
			sm = mkSM(2, wire.Pick(r, valRegexes))
		case x < 19:
			sm = mkSM(3, "")
		default:
			if allowStar {
				sm = mkSM(2, "*")
			} else if malformed {
				sm = mkSM(1, "") // rejected by the validator
			} else {
				sm = mkSM(3, "")
			}
		}
		if allowEmptyAccepting || presenceOnly(sm) || !smHolds(sm, "") {
			return sm
		}
	}
}

func genUriSM(r *wire.Rng, gw bool) *networking.StringMatch {
	switch x := r.Intn(20); {
	case x < 6:
		return mkSM(0, wire.Pick(r, pathLits))
	case x < 14:
		p := wire.Pick(r, pathLits)
		if gw && !strings.HasPrefix(p, "/") {
			p = "/"
		}
		return mkSM(1, p)
	case x < 19:
		return mkSM(2, wire.Pick(r, pathRegexes))
	}
	return mkSM(3, "")
}

func genMatch(r *wire.Rng, stream string, gw, malformed bool) *networking.HTTPMatchRequest {
	m := &networking.HTTPMatchRequest{}
	if r.Chance(1, 5) {
		m.Name = wire.Pick(r, []string{"m1", "m2"})
	}
	if r.Chance(7, 10) {
		m.Uri = genUriSM(r, gw)
	}
	m.IgnoreUriCase = r.Chance(1, 4)
	nh := []int{0, 0, 1, 1, 2, 3}[r.Intn(6)]
	for i := 0; i < nh; i++ {
		if m.Headers == nil {
			m.Headers = map[string]*networking.StringMatch{}
		}
		name := wire.Pick(r, hdrNames)
		if r.Chance(1, 20) {
			name = wire.Pick(r, []string{":method", ":authority", ":scheme"}) // pseudo-headers are valid keys
		}
		m.Headers[name] = genValueSM(r, false, true, malformed)
	}
	nw := []int{0, 0, 0, 1, 1, 2}[r.Intn(6)]
	for i := 0; i < nw; i++ {
		if m.WithoutHeaders == nil {
			m.WithoutHeaders = map[string]*networking.StringMatch{}
		}
		if r.Chance(1, 12) {
			m.WithoutHeaders[wire.Pick(r, hdrNames)] = nil
		} else {
			m.WithoutHeaders[wire.Pick(r, hdrNames)] = genValueSM(r, true, stream != "requests", false)
		}
	}
	nq := []int{0, 0, 0, 1, 1, 2}[r.Intn(6)]
	for i := 0; i < nq; i++ {
		if m.QueryParams == nil {
			m.QueryParams = map[string]*networking.StringMatch{}
		}
		m.QueryParams[wire.Pick(r, qNames)] = genValueSM(r, false, true, malformed)
	}
	if r.Chance(1, 5) {
		m.Method = mkSM(r.Intn(3)%2*2, wire.Pick(r, []string{"GET", "POST", "G.*", "GET|PUT"}))
		if isRegex(m.Method) == false {
			m.Method = mkSM(0, wire.Pick(r, methods))
			if r.Chance(1, 4) {
				m.Method = mkSM(1, wire.Pick(r, []string{"P", "GE", "PO"}))
			}
		}
	}
	if r.Chance(1, 6) {
		switch r.Intn(3) {
		case 0:
			m.Authority = mkSM(0, wire.Pick(r, authorities))
		case 1:
			m.Authority = mkSM(1, "example")
		default:
			m.Authority = mkSM(2, ".*\\.com(:[0-9]+)?")
		}
	}
	if r.Chance(1, 8) {
		m.Scheme = mkSM(0, wire.Pick(r, schemes))
		switch r.Intn(4) {
		case 0:
			m.Scheme = mkSM(1, "http")
		case 1:
			m.Scheme = mkSM(2, wire.Pick(r, []string{"https?", "h.*s"}))
		}
	}
	if r.Chance(1, 5) {
		m.Port = uint32(wire.Pick(r, ports))
	}
	if r.Chance(1, 4) {
		m.SourceLabels = pairsMap(wire.Subset(r, labelPool, 1, 3))
	}
	if r.Chance(1, 6) {
		m.SourceNamespace = wire.Pick(r, nsPool)
	}
	if r.Chance(1, 5) {
		m.Gateways = wire.Subset(r, gwPool, 1, 2)
	}
	return m
}

func genDest(r *wire.Rng) *networking.Destination {
	d := &networking.Destination{Host: wire.Pick(r, append(svcHosts, "unknown.example.org")), Subset: wire.Pick(r, subsets)}
	if r.Chance(1, 3) {
		d.Port = &networking.PortSelector{Number: uint32(wire.Pick(r, ports))}
	}
	return d
}

func genRule(r *wire.Rng, stream string, idx int, gw, malformed bool) *networking.HTTPRoute {
	h := &networking.HTTPRoute{Name: "r" + strconv.Itoa(idx)}
	nm := []int{0, 1, 1, 1, 2, 2, 3}[r.Intn(7)]
	for i := 0; i < nm; i++ {
		h.Match = append(h.Match, genMatch(r, stream, gw, malformed))
	}
	switch x := r.Intn(16); {
	case x < 12:
		nd := []int{1, 1, 1, 2, 2, 3}[r.Intn(6)]
		for i := 0; i < nd; i++ {
			w := int32([]int{0, 0, 1, 10, 20, 50, 80, 100}[r.Intn(8)])
			h.Route = append(h.Route, &networking.HTTPRouteDestination{Destination: genDest(r), Weight: w})
		}
	case x < 14:
		rd := &networking.HTTPRedirect{Authority: wire.Pick(r, []string{"", "new.example.com"}), Scheme: wire.Pick(r, []string{"", "https", "http"})}
		if r.Chance(1, 3) {
			rd.PrefixRewrite = "/new"
			for _, m := range h.Match { // validator: prefix_rewrite needs prefix matches
				if m.Uri != nil {
					m.Uri = mkSM(1, wire.Pick(r, pathLits[:9]))
				}
			}
		} else {
			rd.Uri = wire.Pick(r, []string{"/new", "/", ""}) // "": the redirect keeps the request path
		}
		switch r.Intn(6) {
		case 0:
			rd.RedirectPort = &networking.HTTPRedirect_Port{Port: uint32(wire.Pick(r, []int{80, 443, 8443}))}
		case 1:
			rd.RedirectPort = &networking.HTTPRedirect_DerivePort{DerivePort: networking.HTTPRedirect_FROM_REQUEST_PORT}
		case 2:
			rd.RedirectPort = &networking.HTTPRedirect_DerivePort{DerivePort: networking.HTTPRedirect_FROM_PROTOCOL_DEFAULT}
		}
		codes := []uint32{0, 301, 302, 303, 307, 308}
		if stream == "routes" {
			codes = append(codes, 304, 300)
		}
		rd.RedirectCode = wire.Pick(r, codes)
		h.Redirect = rd
	default:
		dr := &networking.HTTPDirectResponse{Status: uint32(wire.Pick(r, []int{200, 404, 503}))}
		if r.Chance(1, 2) {
			dr.Body = &networking.HTTPBody{Specifier: &networking.HTTPBody_String_{String_: wire.Pick(r, []string{"hello", "", "not found"})}}
			if r.Chance(1, 3) { // the body as bytes: the same response
				dr.Body = &networking.HTTPBody{Specifier: &networking.HTTPBody_Bytes{Bytes: []byte(wire.Pick(r, []string{"hello", "", "{\"a\":1}"}))}}
			}
		}
		h.DirectResponse = dr
	}
	return h
}

// ---------------------------------------------------------------- op-line emission

func sortedSM(m map[string]*networking.StringMatch) []smEntry {
	var out []smEntry
	for k, v := range m {
		out = append(out, smEntry{k, v})
	}
	sort.Slice(out, func(i, j int) bool { return out[i].name < out[j].name })
	return out
}

func reversedSM(m map[string]*networking.StringMatch) []smEntry {
	out := sortedSM(m)
	for i, j := 0, len(out)-1; i < j; i, j = i+1, j-1 {
		out[i], out[j] = out[j], out[i]
	}
	return out
}

func sortedKV(m map[string]string) []kv {
	var out []kv
	for k, v := range m {
		out = append(out, kv{k, v})
	}
	sort.Slice(out, func(i, j int) bool { return out[i].k < out[j].k })
	return out
}

// bodyText: the response body a directResponse asks for, whichever way it is written (string or bytes)
func bodyText(b *networking.HTTPBody) string {
	if x, ok := b.GetSpecifier().(*networking.HTTPBody_Bytes); ok {
		return string(x.Bytes)
	}
	return b.GetString_()
}

func emitRule(o *wire.Out, h *networking.HTTPRoute) {
	switch {
	case h.Redirect != nil:
		rd := h.Redirect
		port := "-"
		switch rp := rd.RedirectPort.(type) {
		case *networking.HTTPRedirect_Port:
			port = "p:" + strconv.Itoa(int(rp.Port))
		case *networking.HTTPRedirect_DerivePort:
			if rp.DerivePort == networking.HTTPRedirect_FROM_REQUEST_PORT {
				port = "d:request"
			} else {
				port = "d:default"
			}
		}
		o.Line("rule", wire.Enc(h.Name), "redirect", wire.Enc(rd.Uri), wire.Enc(rd.Authority), wire.Enc(rd.PrefixRewrite),
			wire.Enc(rd.Scheme), port, strconv.Itoa(int(rd.RedirectCode)))
	case h.DirectResponse != nil:
		b := "-"
		if h.DirectResponse.Body != nil {
			b = wire.Enc(bodyText(h.DirectResponse.Body))
		}
		if _, ok := h.DirectResponse.GetBody().GetSpecifier().(*networking.HTTPBody_Bytes); ok {
			o.Line("rule", wire.Enc(h.Name), "direct", strconv.Itoa(int(h.DirectResponse.Status)), b, "bytes")
		} else {
			o.Line("rule", wire.Enc(h.Name), "direct", strconv.Itoa(int(h.DirectResponse.Status)), b)
		}
	default:
		var ds []string
		for _, d := range h.Route {
			p := "-"
			if d.Destination.Port != nil {
				p = strconv.Itoa(int(d.Destination.Port.Number))
			}
			ds = append(ds, wire.Enc(d.Destination.Host)+"!"+wire.Enc(d.Destination.Subset)+"!"+p+"!"+strconv.Itoa(int(d.Weight)))
		}
		o.Line("rule", wire.Enc(h.Name), "route", joinOrDash(ds))
	}
	for _, m := range h.Match {
		o.Line("match", wire.Enc(m.Name), encSM(m.Uri), encSM(m.Scheme), encSM(m.Method), encSM(m.Authority),
			// map entries are written in REVERSE key order: the implementation side rebuilds Go maps (no order),
			// the model side must reproduce the emitted (sorted) order by its own sorts
			encSMMap(reversedSM(m.Headers)), encSMMap(reversedSM(m.WithoutHeaders)), encSMMap(reversedSM(m.QueryParams)),
			wire.B(m.IgnoreUriCase), strconv.Itoa(int(m.Port)), encPairs(sortedKV(m.SourceLabels)),
			wire.Enc(m.SourceNamespace), wire.EncList(m.Gateways))
	}
}

// emitReq writes a request together with its slice of the regex table: the (regex, subject) pairs,
// over the regexes of the VirtualService and the strings of this request (and ""), that Go's RE2
// engine accepts as a full match.  This is the "regex text -> predicate" mapping the Lean side treats
// as opaque; carrying it on the request line keeps every line self-contained under shrinking.
func emitReq(o *wire.Out, r request, vs *networking.VirtualService) {
	o.Line("req", wire.Enc(r.path), encPairs(r.query), wire.Enc(r.method), wire.Enc(r.authority), wire.Enc(r.scheme), encPairs(r.headers),
		encPairs(regexTable(vs, r)))
}

func regexTable(vs *networking.VirtualService, r request) []kv {
	subjects := reqStrings([]request{r})
	var out []kv
	for _, re := range vsRegexes(vs) {
		if re == "*" {
			continue
		}
		for _, s := range subjects {
			if fullMatch(re, s) {
				out = append(out, kv{re, s})
			}
		}
	}
	return out
}

// ---------------------------------------------------------------- request synthesis

func satisfyingValue(r *wire.Rng, sm *networking.StringMatch, pool []string) string {
	if presenceOnly(sm) {
		return wire.Pick(r, pool)
	}
	switch m := sm.MatchType.(type) {
	case *networking.StringMatch_Exact:
		return m.Exact
	case *networking.StringMatch_Prefix:
		return m.Prefix + wire.Pick(r, []string{"", "x", "/", "/x", "bar", "son"})
	case *networking.StringMatch_Regex:
		var c []string
		for _, p := range pool {
			if fullMatch(m.Regex, p) {
				c = append(c, p)
			}
		}
		if len(c) > 0 {
			return wire.Pick(r, c)
		}
	}
	return wire.Pick(r, pool)
}

func flipCase(r *wire.Rng, s string) string {
	b := []byte(s)
	var idx []int
	for i, c := range b {
		if (c >= 'a' && c <= 'z') || (c >= 'A' && c <= 'Z') {
			idx = append(idx, i)
		}
	}
	if len(idx) == 0 {
		return s
	}
	i := wire.Pick(r, idx)
	b[i] ^= 0x20
	return string(b)
}

func oneOff(r *wire.Rng, s string) string {
	switch r.Intn(4) {
	case 0:
		return s + wire.Pick(r, []string{"x", "/", "bar", "1"})
	case 1:
		if len(s) > 1 {
			return s[:len(s)-1]
		}
	case 2:
		if len(s) > 1 {
			i := 1 + r.Intn(len(s)-1)
			return s[:i] + "z" + s[i+1:]
		}
	}
	return flipCase(r, s)
}

func setKV(l []kv, k, v string) []kv {
	for i := range l {
		if l[i].k == k {
			l[i].v = v
			return l
		}
	}
	return append(l, kv{k, v})
}

func dropKV(l []kv, k string) []kv {
	var out []kv
	for _, e := range l {
		if e.k != k {
			out = append(out, e)
		}
	}
	return out
}

// synthRequest builds one request aimed at match block m (nil = untargeted) and applies near misses.
func synthRequest(r *wire.Rng, m *networking.HTTPMatchRequest) request {
	q := request{path: wire.Pick(r, pathPool), method: "GET", authority: wire.Pick(r, authorities), scheme: "http"}
	if r.Chance(1, 6) {
		q.method = wire.Pick(r, methods)
	}
	if r.Chance(1, 8) {
		q.scheme = "https"
	}
	if r.Chance(1, 4) {
		q.headers = setKV(q.headers, wire.Pick(r, hdrNames), wire.Pick(r, append(hdrVals, "")))
	}
	if r.Chance(1, 5) {
		q.query = setKV(q.query, wire.Pick(r, qNames), wire.Pick(r, append(hdrVals, "")))
	}
	if m == nil {
		return q
	}
	if m.Uri != nil && m.Uri.MatchType != nil {
		q.path = satisfyingValue(r, m.Uri, pathPool)
		if m.IgnoreUriCase && r.Chance(1, 2) {
			q.path = flipCase(r, q.path)
		}
	}
	for _, e := range sortedSM(m.Headers) {
		q.headers = setKV(q.headers, e.name, satisfyingValue(r, e.sm, hdrVals))
	}
	for _, e := range sortedSM(m.WithoutHeaders) {
		q.headers = dropKV(q.headers, e.name)
	}
	for _, e := range sortedSM(m.QueryParams) {
		q.query = setKV(q.query, e.name, satisfyingValue(r, e.sm, hdrVals))
	}
	if m.Method != nil {
		q.method = satisfyingValue(r, m.Method, methods)
	}
	if m.Authority != nil {
		q.authority = satisfyingValue(r, m.Authority, authorities)
	}
	if m.Scheme != nil {
		q.scheme = satisfyingValue(r, m.Scheme, schemes)
	}
	// near misses
	nmut := []int{0, 0, 1, 1, 1, 2}[r.Intn(6)]
	for i := 0; i < nmut; i++ {
		switch r.Intn(12) {
		case 0, 1:
			q.path = oneOff(r, q.path)
		case 2:
			q.path = flipCase(r, q.path)
		case 3: // prefix boundary
			if p := m.GetUri().GetPrefix(); p != "" {
				q.path = wire.Pick(r, []string{p + "bar", p + "/", strings.TrimSuffix(p, "/"), p + "/x", p})
			}
		case 4: // missing header
			if hs := sortedSM(m.Headers); len(hs) > 0 {
				q.headers = dropKV(q.headers, wire.Pick(r, hs).name)
			}
		case 5: // empty header
			if hs := sortedSM(m.Headers); len(hs) > 0 {
				q.headers = setKV(q.headers, wire.Pick(r, hs).name, "")
			}
		case 6: // header value one off
			if len(q.headers) > 0 {
				i := r.Intn(len(q.headers))
				q.headers[i].v = oneOff(r, q.headers[i].v)
			}
		case 7: // forbidden header present (matching, non matching or empty value)
			if ws := sortedSM(m.WithoutHeaders); len(ws) > 0 {
				e := wire.Pick(r, ws)
				q.headers = setKV(q.headers, e.name, wire.Pick(r, []string{satisfyingValue(r, e.sm, hdrVals), "", "zzz"}))
			}
		case 8: // missing / extra / changed query parameter
			if qs := sortedSM(m.QueryParams); len(qs) > 0 && r.Chance(1, 2) {
				q.query = dropKV(q.query, wire.Pick(r, qs).name)
			} else {
				q.query = append(q.query, kv{wire.Pick(r, append(qNames, "extra")), wire.Pick(r, append(hdrVals, ""))})
			}
		case 9:
			if len(q.query) > 0 {
				i := r.Intn(len(q.query))
				q.query[i].v = oneOff(r, q.query[i].v)
			}
		case 10:
			q.method = wire.Pick(r, methods)
		case 11:
			if r.Chance(1, 2) {
				q.authority = oneOff(r, q.authority)
			} else {
				q.scheme = wire.Pick(r, schemes)
			}
		}
	}
	if !strings.HasPrefix(q.path, "/") {
		q.path = "/" + q.path
	}
	return q
}

// synthRequests: requests aimed at every match block of the VirtualService in turn, plus untargeted ones.
func synthRequests(r *wire.Rng, vs *networking.VirtualService, n int) []request {
	var blocks []*networking.HTTPMatchRequest
	for _, h := range vs.Http {
		blocks = append(blocks, h.Match...)
	}
	var out []request
	for i := 0; i < n; i++ {
		var m *networking.HTTPMatchRequest
		if len(blocks) > 0 && !r.Chance(1, 6) {
			m = blocks[i%len(blocks)]
			if r.Chance(1, 4) {
				m = wire.Pick(r, blocks)
			}
		}
		out = append(out, synthRequest(r, m))
	}
	return out
}

func vsRegexes(vs *networking.VirtualService) []string {
	seen := map[string]bool{}
	add := func(sm *networking.StringMatch) {
		if sm != nil && isRegex(sm) {
			seen[sm.GetRegex()] = true
		}
	}
	for _, h := range vs.Http {
		for _, m := range h.Match {
			add(m.Uri)
			add(m.Method)
			add(m.Authority)
			add(m.Scheme)
			for _, s := range m.Headers {
				add(s)
			}
			for _, s := range m.WithoutHeaders {
				add(s)
			}
			for _, s := range m.QueryParams {
				add(s)
			}
		}
	}
	var out []string
	for k := range seen {
		out = append(out, k)
	}
	sort.Strings(out)
	return out
}

func reqStrings(reqs []request) []string {
	seen := map[string]bool{"": true}
	for _, q := range reqs {
		seen[q.path], seen[q.method], seen[q.authority], seen[q.scheme] = true, true, true, true
		for _, h := range q.headers {
			seen[h.v] = true
		}
		for _, h := range q.query {
			seen[h.v] = true
		}
		for _, h := range q.claims {
			seen[h.v] = true
		}
	}
	var out []string
	for k := range seen {
		out = append(out, k)
	}
	sort.Strings(out)
	return out
}

// ---------------------------------------------------------------- gen

type proxyCfg struct {
	ns     string
	labels []kv
	gws    []string
}

func genProxy(r *wire.Rng) proxyCfg {
	p := proxyCfg{ns: wire.Pick(r, nsPool), gws: []string{"mesh"}}
	m := pairsMap(wire.Subset(r, labelPool, 1, 2))
	p.labels = sortedKV(m)
	if r.Chance(1, 4) {
		p.gws = wire.Subset(r, gwPool[1:], 2, 3)
		if len(p.gws) == 0 {
			p.gws = []string{"istio-system/gw"}
		}
	}
	return p
}

func gen(stream string, seed uint64, n int, out string) {
	if stream == "vhosts" {
		genVhosts(seed, n, out)
		return
	}
	if stream == "rds" {
		genRds(seed, n, out)
		return
	}
	if stream == "gw" {
		genGw(seed, n, out)
		return
	}
	root := wire.NewRng(seed*1000003 + uint64(len(stream)))
	o := wire.Create(out)
	defer o.Close()
	st := genStats{}
	for i := 0; i < n; i++ {
		r := root.Fork()
		s := newState()
		o.Line("case", strconv.Itoa(i), stream)
		// services
		for _, h := range wire.Subset(r, svcHosts, 2, 3) {
			var ps []string
			if r.Chance(1, 3) {
				ps = []string{"80", "8080"}
			} else {
				ps = []string{strconv.Itoa(wire.Pick(r, ports))}
			}
			ext := ""
			if strings.HasPrefix(h, "ext.") && r.Chance(1, 2) {
				ext = "real.example.com"
			}
			f := []string{"svc", wire.Enc(h), wire.EncList(ps), wire.Enc(ext)}
			s.apply(f)
			o.Line(f...)
		}
		// a VirtualService the REAL validator accepts
		sem := "plain"
		switch x := r.Intn(20); {
		case x == 0:
			sem = "ingress"
		case x < 3:
			sem = "gateway"
		}
		for {
			malformed := r.Chance(1, 15)
			vsf := []string{"vs", "vs" + strconv.Itoa(i), wire.Pick(r, nsPool), sem, wire.EncList([]string{wire.Pick(r, svcHosts)})}
			s.apply(vsf)
			nr := []int{1, 2, 2, 3, 3, 4}[r.Intn(6)]
			for k := 0; k < nr; k++ {
				s.vs.Http = append(s.vs.Http, genRule(r, stream, k, sem != "plain", malformed))
			}
			st.generated++
			if malformed {
				st.malformed++
			}
			if _, err := validation.ValidateVirtualService(s.cfg); err != nil {
				st.rejected++
				continue
			}
			o.Line(vsf...)
			for _, h := range s.vs.Http {
				emitRule(o, h)
			}
			break
		}
		// proxies / listener ports
		type run struct {
			p    proxyCfg
			port int
			reqs []request
			tls  bool
		}
		var runs []run
		np := 1 + r.Intn(2)
		for k := 0; k < np; k++ {
			ru := run{p: genProxy(r), port: wire.Pick(r, append(ports, 443))}
			ru.tls = len(ru.p.gws) > 0 && ru.p.gws[0] != "mesh" && r.Chance(1, 2) // a gateway server terminating TLS
			if stream == "requests" {
				ru.reqs = synthRequests(r, s.vs, 6+r.Intn(6))
			} else if r.Chance(1, 2) {
				// also in the structural stream: the Lean Envoy semantics on the model's routes vs the Go
				// reference interpreter on the real routes
				ru.reqs = synthRequests(r, s.vs, 2+r.Intn(4))
			}
			runs = append(runs, ru)
		}
		for _, ru := range runs {
			o.Line("proxy", wire.Enc(ru.p.ns), encPairs(ru.p.labels), wire.EncList(ru.p.gws))
			o.Line("tls", wire.B(ru.tls))
			o.Line("build", strconv.Itoa(ru.port))
			for _, q := range ru.reqs {
				emitReq(o, q, s.vs)
			}
		}
	}
	fmt.Fprintf(os.Stderr, "gen %s: vs generated %d validator-rejected %d (deliberately malformed %d)\n", stream, st.generated, st.rejected, st.malformed)
	if f, err := os.Create(out + ".stats"); err == nil {
		fmt.Fprintf(f, "generated %d\nrejected %d\nmalformed %d\n", st.generated, st.rejected, st.malformed)
		f.Close()
	}
}

// ---------------------------------------------------------------- oracle

// oracle: one verdict per case.  At every `build` of the case the property statement is evaluated on
// the real code: for the explicit `req` lines that follow and for freshly synthesised requests (rule
// literals and near misses), the reference interpreter's verdict on the REAL routes must equal the
// VirtualService's verdict (Go spec).  Independent of the Lean model.
func oracle(stream, in, out string) {
	if stream == "vhosts" {
		oracleVhosts(in, out)
		return
	}
	if stream == "rds" {
		oracleRds(in, out)
		return
	}
	if stream == "gw" {
		oracleGw(in, out)
		return
	}
	lines := wire.ReadLines(in)
	o := wire.Create(out)
	defer o.Close()
	s := newState()
	var v verdicts
	started := false
	caseNo := 0
	flush := func() {
		if started {
			o.Line(v.line())
		}
		v = verdicts{}
	}
	check := func(q request) {
		defer func() {
			if r := recover(); r != nil {
				v.fail("crash", "req")
			}
		}()
		got := evalRoutes(s.routes, q)
		want, rule := s.vsSpec(q)
		if showDecision(got) != want {
			v.fail(s.classify(q, got, rule), fmt.Sprintf("want=%s got=%s req=%s|%s|%s|%s|%s|%s", want, showDecision(got),
				wire.Enc(q.path), encPairs(q.query), wire.Enc(q.method), wire.Enc(q.authority), wire.Enc(q.scheme), encPairs(q.headers)))
		}
	}
	for _, f := range lines {
		switch {
		case f[0] == "case":
			flush()
			started = true
			s.reset()
			caseNo++
		case s.apply(f):
		case f[0] == "build":
			func() {
				defer func() {
					if r := recover(); r != nil {
						v.fail("crash", "build")
					}
				}()
				s.build(atoi(f[1]))
			}()
			r := wire.NewRng(uint64(caseNo)*7919 + uint64(s.port))
			for _, q := range synthRequests(r, s.vs, 24) {
				check(q)
			}
		case f[0] == "req":
			if !s.built {
				s.build(s.port)
			}
			check(parseReq(f))
		}
	}
	flush()
}
