package main

// Stream `vhosts` (virtual hosts, domains, SortVHostRoutes) - filled in below.

type vhState struct{}

func (s *state) vhStep(stream string, f []string) (string, bool) { return "", false }

func genVhosts(seed uint64, n int, out string) {}

func oracleVhosts(in, out string) {}
