package main

// Stream `vhosts`: virtual-host domains (generateVirtualHostDomains, dedupeDomains through the verif
// hook), virtual-host selection by authority (reference interpreter), SortVHostRoutes,
// model.MostSpecificHostMatch and selectVirtualServices.

import (
	"fmt"
	"net"
	"os"
	"sort"
	"strconv"
	"strings"

	route "github.com/envoyproxy/go-control-plane/envoy/config/route/v3"

	networking "istio.io/api/networking/v1alpha3"
	"istio.io/istio/pilot/pkg/model"
	"istio.io/istio/pilot/pkg/networking/core"
	istioroute "istio.io/istio/pilot/pkg/networking/core/route"
	"istio.io/istio/pilot/pkg/serviceregistry/provider"
	"istio.io/istio/pkg/config"
	"istio.io/istio/pkg/config/host"
	"istio.io/istio/pkg/config/schema/gvk"
	"istio.io/istio/pkg/util/sets"
	"verifharness/internal/wire"
)

type vhState struct {
	known  sets.String
	names  sets.String
	vhd    sets.String
	vhosts []*route.VirtualHost
	acc    []*route.Route
}

func (v *vhState) init() {
	if v.known == nil {
		v.known, v.names, v.vhd = sets.New[string](), sets.New[string](), sets.New[string]()
	}
}

// realDomains calls the REAL generateVirtualHostDomains.
func realDomains(hostname string, aliases []string, pt bool, addr string, listenerPort, port int, proxyDomain string, proxyless bool) ([]string, []string) {
	svc := &model.Service{Hostname: host.Name(hostname), DefaultAddress: addr}
	for _, a := range aliases {
		svc.Attributes.Aliases = append(svc.Attributes.Aliases, model.NamespacedHostname{Hostname: host.Name(a), Namespace: "default"})
	}
	if pt {
		svc.Resolution = model.Passthrough
		svc.Attributes.ServiceRegistry = provider.Kubernetes
	}
	node := &model.Proxy{Type: model.SidecarProxy, DNSDomain: proxyDomain, Metadata: &model.NodeMetadata{}}
	if proxyless {
		node.Metadata.Generator = "grpc"
	}
	return core.VerifC12GenerateVirtualHostDomains(svc, listenerPort, port, node)
}

// selectVHostRef: Envoy's documented domain search order - exact, longest suffix wildcard `*x`,
// longest prefix wildcard `x*`, `*`; host comparison is case-insensitive; a wildcard does not match
// the empty string.
// stripPort: ignore_port_in_host_matching - "host:port" / "[v6]:port" without the port.
func stripPort(a string) string {
	i := strings.LastIndex(a, ":")
	if i < 0 || i == len(a)-1 {
		return a
	}
	for _, c := range a[i+1:] {
		if c < '0' || c > '9' {
			return a
		}
	}
	if strings.Contains(a[:i], ":") && !strings.HasSuffix(a[:i], "]") {
		return a // a bare IPv6 literal
	}
	return a[:i]
}

// showVHostTable: `ip=<IgnorePortInHostMatching>` and, sorted, name[domains]<requireTls>#<routes> per virtual host.
func showVHostTable(rc *route.RouteConfiguration) string {
	if rc == nil {
		return "no-route-configuration"
	}
	es := make([]string, len(rc.VirtualHosts))
	for i, v := range rc.VirtualHosts {
		es[i] = wire.Enc(v.Name) + "[" + wire.EncList(v.Domains) + "]" + wire.B(v.RequireTls == route.VirtualHost_ALL) + "#" + strconv.Itoa(len(v.Routes))
	}
	sort.Strings(es)
	return "ip=" + wire.B(rc.IgnorePortInHostMatching) + " " + strings.Join(es, " ")
}

// selectVHostConf: virtual-host selection of a whole route configuration (port stripped when it says so).
func selectVHostConf(rc *route.RouteConfiguration, authority string) *route.VirtualHost {
	if rc == nil {
		return nil
	}
	if rc.IgnorePortInHostMatching {
		authority = stripPort(authority)
	}
	return selectVHostRef(rc.VirtualHosts, authority)
}

func selectVHostRef(vhs []*route.VirtualHost, authority string) *route.VirtualHost {
	h := asciiLower(authority)
	for _, v := range vhs {
		for _, d := range v.Domains {
			if asciiLower(d) == h {
				return v
			}
		}
	}
	var best *route.VirtualHost
	bl := 0
	for _, v := range vhs {
		for _, d := range v.Domains {
			if len(d) > 1 && d[0] == '*' {
				suf := asciiLower(d[1:])
				if len(h) > len(suf) && strings.HasSuffix(h, suf) && len(d) > bl {
					best, bl = v, len(d)
				}
			}
		}
	}
	if best != nil {
		return best
	}
	for _, v := range vhs {
		for _, d := range v.Domains {
			if len(d) > 1 && d[0] != '*' && d[len(d)-1] == '*' {
				pre := asciiLower(d[:len(d)-1])
				if len(h) > len(pre) && strings.HasPrefix(h, pre) && len(d) > bl {
					best, bl = v, len(d)
				}
			}
		}
	}
	if best != nil {
		return best
	}
	for _, v := range vhs {
		for _, d := range v.Domains {
			if d == "*" {
				return v
			}
		}
	}
	return nil
}

func mkVSConfigs(spec string) []*config.Config {
	var out []*config.Config
	if spec == "-" {
		return out
	}
	for i, hs := range strings.Split(spec, ";") {
		out = append(out, &config.Config{
			Meta: config.Meta{GroupVersionKind: gvk.VirtualService, Name: "vs" + strconv.Itoa(i), Namespace: "default"},
			Spec: &networking.VirtualService{Hosts: wire.DecList(hs)},
		})
	}
	return out
}

func (s *state) vhStep(stream string, f []string) (string, bool) {
	v := &s.vh
	v.init()
	switch f[0] {
	case "dom": // dom <host> <aliases> <isIPs> <pt> <addr> <listenerPort> <port> <proxyDomain> <proxyless>
		d, a := realDomains(wire.Dec(f[1]), wire.DecList(f[2]), f[4] == "1", wire.Dec(f[5]), atoi(f[6]), atoi(f[7]), wire.Dec(f[8]), f[9] == "1")
		return "D:" + wire.EncList(d) + " A:" + wire.EncList(a), true
	case "known": // starts a new sequence of buildVirtualHost calls
		v.known = sets.New(wire.DecList(f[1])...)
		v.names, v.vhd, v.vhosts = sets.New[string](), sets.New[string](), nil
		return "ok", true
	case "vh": // vh <name> <domains> <altHosts>: one call of the buildVirtualHost closure (glue) around the REAL dedupeDomains
		name := wire.Dec(f[1])
		if v.names.InsertContains(name) {
			return "dup-name", true
		}
		domains := append([]string(nil), wire.DecList(f[2])...)
		domains = core.VerifC12DedupeDomains(domains, v.vhd, wire.DecList(f[3]), v.known)
		if len(domains) == 0 {
			return "empty", true
		}
		v.vhosts = append(v.vhosts, &route.VirtualHost{Name: name, Domains: domains})
		return "kept:" + wire.EncList(domains), true
	case "sel": // sel <authority>
		if vh := selectVHostRef(v.vhosts, wire.Dec(f[1])); vh != nil {
			return wire.Enc(vh.Name), true
		}
		return "none", true
	case "msh": // msh <needle> <specific> <wildcard>
		sp, wc := map[host.Name]int{}, map[host.Name]int{}
		for i, h := range wire.DecList(f[2]) {
			sp[host.Name(h)] = i
		}
		for i, h := range wire.DecList(f[3]) {
			wc[host.Name(h)] = i
		}
		if h, _, ok := model.MostSpecificHostMatch(host.Name(wire.Dec(f[1])), sp, wc); ok {
			return wire.Enc(string(h)), true
		}
		return "none", true
	case "selvs": // selvs <service hosts> <vs1 hosts;vs2 hosts;...>
		svcs := map[host.Name]*model.Service{}
		for _, h := range wire.DecList(f[1]) {
			svcs[host.Name(h)] = &model.Service{Hostname: host.Name(h)}
		}
		var names []string
		for _, c := range core.VerifC12SelectVirtualServices(mkVSConfigs(f[2]), svcs) {
			names = append(names, c.Name)
		}
		return wire.EncList(names), true
	case "acc": // append the routes of the last build (routes of one more VirtualService on the same host)
		v.acc = append(v.acc, s.routes...)
		return "ok", true
	case "sortv":
		return showRoutes(istioroute.SortVHostRoutes(v.acc)), true
	case "sreq":
		q := parseReq(f)
		sorted := istioroute.SortVHostRoutes(v.acc)
		return showDecision(evalRoutes(sorted, q)) + " " + showDecision(evalRoutes(v.acc, q)) + " safe=" +
			wire.B(sortSafe(v.acc, istioroute.IsCatchAllRoute, q)), true
	}
	return "", false
}

// ---------------------------------------------------------------- generator

var (
	domHosts = []string{
		"reviews.default.svc.cluster.local", "ratings.default.svc.cluster.local", "reviews.other.svc.cluster.local",
		"a.b.default.svc.cluster.local", "default.svc.cluster.local", "foo.svc.cluster.local", "reviews.default", "reviews",
		"api.example.com", "example.com", "foo.local.campus.net", "foo.bar.campus.net", "campus.net", "x.svc.", "svc.svc.svc.cluster.local",
		"10.1.2.3", "2001:db8::1", "Reviews.Default.svc.cluster.local", "foo.com.default.svc.cluster.local", "foo.com",
		// namespaces that are string prefixes of other namespaces
		"reviews.shop.svc.cluster.local", "reviews.shop-canary.svc.cluster.local", "db.ns1.svc.cluster.local", "db.ns10.svc.cluster.local",
		// wildcard service names (ServiceEntry hosts): must never be abbreviated to the bare "*"
		"*.default.svc.cluster.local", "*.other.svc.cluster.local", "*.local.campus.net", "*.campus.net", "*.example.com", "*.x.default.svc.cluster.local",
	}
	proxyDomains = []string{
		"default.svc.cluster.local", "other.svc.cluster.local", "shop.svc.cluster.local", "shop-canary.svc.cluster.local", "ns1.svc.cluster.local",
		"local.campus.net", "remote.campus.net", "", "example.com",
		"svc.cluster.local", ".svc.cluster.local", "cluster.local", "default.svc.", "com",
	}
)

func isIPTok(hs []string) string {
	out := make([]string, len(hs))
	for i, h := range hs {
		out[i] = wire.B(net.ParseIP(h) != nil)
	}
	return wire.EncList(out)
}

func genVhosts(seed uint64, n int, out string) {
	root := wire.NewRng(seed*1000003 + 77)
	o := wire.Create(out)
	defer o.Close()
	for i := 0; i < n; i++ {
		r := root.Fork()
		o.Line("case", strconv.Itoa(i), "vhosts")
		switch k := r.Intn(10); {
		case k < 5: // domains, dedupe, selection
			pd := wire.Pick(r, proxyDomains)
			lp := wire.Pick(r, []int{0, 80, 8080})
			proxyless := r.Chance(1, 8)
			hosts := wire.Subset(r, domHosts, 1, 4)
			if len(hosts) == 0 {
				hosts = []string{wire.Pick(r, domHosts)}
			}
			type gen struct {
				name     string
				dom, alt []string
			}
			var gens []gen
			var known []string
			for _, h := range hosts {
				port := wire.Pick(r, []int{80, 8080, 9080})
				var aliases []string
				if r.Chance(1, 6) {
					aliases = []string{wire.Pick(r, domHosts)}
				}
				addr := wire.Pick(r, []string{"", "10.0.0.1", "0.0.0.0", "10.0.0.2", "fd00::1"})
				pt := r.Chance(1, 8)
				o.Line("dom", wire.Enc(h), wire.EncList(aliases), isIPTok(append([]string{h}, aliases...)), wire.B(pt), wire.Enc(addr),
					strconv.Itoa(lp), strconv.Itoa(port), wire.Enc(pd), wire.B(proxyless))
				d, a := realDomains(h, aliases, pt, addr, lp, port, pd, proxyless)
				gens = append(gens, gen{net.JoinHostPort(h, strconv.Itoa(port)), d, a})
				known = append(known, net.JoinHostPort(h, strconv.Itoa(port)), h)
			}
			// VirtualService hosts that are not services, catch-all, duplicates
			if r.Chance(1, 2) {
				h := wire.Pick(r, []string{"*.example.com", "*.com", "ext.example.org", "*", "reviews", "Reviews.default", "api.*"})
				g := gen{name: net.JoinHostPort(h, "80"), dom: []string{h, net.JoinHostPort(h, "80")}}
				if r.Chance(1, 2) {
					gens = append([]gen{g}, gens...)
				} else {
					gens = append(gens, g)
				}
			}
			if r.Chance(1, 4) && len(gens) > 0 {
				gens = append(gens, gens[r.Intn(len(gens))])
			}
			if r.Chance(3, 4) {
				o.Line("known", wire.EncList(known))
			}
			var allDomains []string
			for _, g := range gens {
				o.Line("vh", wire.Enc(g.name), wire.EncList(g.dom), wire.EncList(g.alt))
				allDomains = append(allDomains, g.dom...)
			}
			for k := 0; k < 6 && len(allDomains) > 0; k++ {
				a := wire.Pick(r, allDomains)
				switch r.Intn(6) {
				case 0:
					a = flipCase(r, a)
				case 1:
					a = oneOff(r, a)
				case 2:
					a = "x." + strings.TrimPrefix(a, "*.")
				case 3:
					a = wire.Pick(r, []string{"www.example.com", "a.b.com", "example.com", ".example.com", "api.v1", "api.", "zzz", ""})
				}
				o.Line("sel", wire.Enc(a))
			}
		case k < 8: // SortVHostRoutes over the routes of several VirtualServices bound to one host
			s := newState()
			nvs := 2 + r.Intn(2)
			p := genProxy(r)
			o.Line("proxy", wire.Enc(p.ns), encPairs(p.labels), wire.EncList(p.gws))
			port := wire.Pick(r, ports)
			var vss []*networking.VirtualService
			for k := 0; k < nvs; k++ {
				vsf := []string{"vs", "vs" + strconv.Itoa(k), "default", "plain", wire.EncList([]string{"api.example.com"})}
				s.apply(vsf)
				o.Line(vsf...)
				nr := 1 + r.Intn(3)
				for j := 0; j < nr; j++ {
					h := genRule(r, "requests", j, false, false)
					h.Redirect = nil
					if h.DirectResponse == nil && len(h.Route) == 0 {
						h.Route = []*networking.HTTPRouteDestination{{Destination: genDest(r), Weight: 1}}
					}
					s.vs.Http = append(s.vs.Http, h)
					emitRule(o, h)
				}
				vss = append(vss, s.vs)
				o.Line("build", strconv.Itoa(port))
				o.Line("acc")
			}
			o.Line("sortv")
			all := &networking.VirtualService{}
			for _, v := range vss {
				all.Http = append(all.Http, v.Http...)
			}
			for _, q := range synthRequests(r, all, 6+r.Intn(5)) {
				f := []string{"sreq", wire.Enc(q.path), encPairs(q.query), wire.Enc(q.method), wire.Enc(q.authority), wire.Enc(q.scheme), encPairs(q.headers),
					encPairs(regexTable(all, q))}
				o.Line(f...)
			}
		case k < 9: // most specific host
			wc := wire.Subset(r, []string{"*", "*.com", "*.example.com", "*.api.example.com", "*.org", "*.cluster.local", "*.default.svc.cluster.local", "*e.com"}, 1, 2)
			sp := wire.Subset(r, []string{"api.example.com", "example.com", "reviews.default.svc.cluster.local", "a.api.example.com"}, 1, 2)
			for k := 0; k < 4; k++ {
				needle := wire.Pick(r, []string{"api.example.com", "a.api.example.com", "example.com", "x.org", "reviews.default.svc.cluster.local",
					"*.example.com", "*.api.example.com", "*.x.example.com", "com", "*", "service.com"})
				o.Line("msh", wire.Enc(needle), wire.EncList(sp), wire.EncList(wc))
			}
		default: // selectVirtualServices
			svcs := wire.Subset(r, []string{"api.example.com", "*.example.com", "reviews.default.svc.cluster.local", "*.cluster.local", "foo.com", "*.org"}, 1, 2)
			var vss []string
			nv := 1 + r.Intn(4)
			for k := 0; k < nv; k++ {
				hs := wire.Subset(r, []string{"api.example.com", "API.example.com", "*.example.com", "*.com", "reviews.default.svc.cluster.local", "x.org", "*.x.org",
					"*.local", "other.net", "*"}, 1, 3)
				if len(hs) == 0 {
					hs = []string{"none.example.net"}
				}
				vss = append(vss, wire.EncList(hs))
			}
			o.Line("selvs", wire.EncList(svcs), strings.Join(vss, ";"))
		}
	}
}

// ---------------------------------------------------------------- oracle

// altHostSound: an expanded (alt) host is a legitimate abbreviation of the service hostname from the
// proxy's DNS domain: the hostname itself (absolute form), or a name that, completed with a label
// suffix of the proxy's domain, is the hostname.
func altHostSound(alt, hostname, proxyDomain string) bool {
	a := alt
	if i := strings.LastIndex(a, ":"); i >= 0 && !strings.HasSuffix(a, "]") && !strings.Contains(hostname, ":") {
		a = a[:i]
	}
	if strings.HasPrefix(a, "[") {
		return true // IPv6 literal forms are not DNS abbreviations
	}
	if a == hostname+"." || a == hostname {
		return true
	}
	labels := strings.Split(proxyDomain, ".")
	for i := range labels {
		suf := strings.Join(labels[i:], ".")
		if suf != "" && a+"."+suf == hostname {
			return true
		}
	}
	return false
}

func oracleVhosts(in, out string) {
	lines := wire.ReadLines(in)
	o := wire.Create(out)
	defer o.Close()
	s := newState()
	var v verdicts
	started := false
	flush := func() {
		if started {
			// domains_unique on the REAL dedupeDomains output
			seen := map[string]string{}
			for _, vh := range s.vh.vhosts {
				for _, d := range vh.Domains {
					k := strings.ToLower(d)
					if prev, ok := seen[k]; ok {
						v.fail("domains-unique", fmt.Sprintf("domain=%s in %s and %s", wire.Enc(d), wire.Enc(prev), wire.Enc(vh.Name)))
					}
					seen[k] = vh.Name
				}
			}
			o.Line(v.line())
		}
		v = verdicts{}
	}
	fail := func(format string, a ...any) {
		msg := fmt.Sprintf(format, a...)
		clause, detail, _ := strings.Cut(msg, " ")
		v.fail(clause, detail)
	}
	for _, f := range lines {
		func() {
			defer func() {
				if r := recover(); r != nil {
					fail("crash op=%s", f[0])
				}
			}()
			switch {
			case f[0] == "case":
				flush()
				started = true
				s.reset()
			case s.apply(f):
			case f[0] == "build":
				s.build(atoi(f[1]))
			case f[0] == "dom":
				hostname, pd := wire.Dec(f[1]), wire.Dec(f[8])
				if len(wire.DecList(f[2])) > 0 || strings.HasSuffix(hostname, ".") || strings.HasPrefix(hostname, ".") {
					return // aliases have their own names; malformed hostnames are outside the clause
				}
				_, alts := realDomains(hostname, nil, f[4] == "1", wire.Dec(f[5]), atoi(f[6]), atoi(f[7]), pd, f[9] == "1")
				for _, a := range alts {
					if a == "*" || strings.HasPrefix(a, "*:") {
						fail("alt-host-sound alt=%s host=%s proxyDomain=%s (bare wildcard collides with the catch-all virtual host)", wire.Enc(a), wire.Enc(hostname), wire.Enc(pd))
					}
					if !altHostSound(a, hostname, pd) {
						fail("alt-host-sound alt=%s host=%s proxyDomain=%s", wire.Enc(a), wire.Enc(hostname), wire.Enc(pd))
					}
				}
			case f[0] == "msh":
				// most specific wins: exact key, else the LONGEST wildcard key whose suffix matches
				needle := wire.Dec(f[1])
				got, _ := s.vhStep("vhosts", f)
				want := "none"
				sp, wc := wire.DecList(f[2]), wire.DecList(f[3])
				n := needle
				exact := sp
				if strings.HasPrefix(needle, "*") {
					exact = wc
					n = needle[1:]
				}
				for _, h := range exact {
					if h == needle {
						want = wire.Enc(h)
					}
				}
				if want == "none" {
					best := ""
					for _, h := range wc {
						if strings.HasSuffix(n, h[1:]) && len(h) > len(best) {
							best = h
						}
					}
					if best != "" {
						want = wire.Enc(best)
					}
				}
				if got != want {
					fail("most-specific-host needle=%s want=%s got=%s", f[1], want, got)
				}
			case f[0] == "sel":
				s.vhStep("vhosts", f)
				a := asciiLower(wire.Dec(f[1]))
				got := selectVHostRef(s.vh.vhosts, wire.Dec(f[1]))
				for _, v := range s.vh.vhosts {
					for _, d := range v.Domains {
						if asciiLower(d) == a && got != v {
							fail("select-exact authority=%s owner=%s", f[1], wire.Enc(v.Name))
						}
					}
				}
			case f[0] == "sreq":
				q := parseReq(f)
				acc := s.vh.acc
				sorted := istioroute.SortVHostRoutes(acc)
				if sortSafe(acc, istioroute.IsCatchAllRoute, q) && showDecision(evalRoutes(sorted, q)) != showDecision(evalRoutes(acc, q)) {
					fail("sortvhost-sound sorted=%s unsorted=%s", showDecision(evalRoutes(sorted, q)), showDecision(evalRoutes(acc, q)))
				}
				// catch-all routes must match every request (catchall_sound on the real routes)
				for _, rt := range acc {
					if istioroute.IsCatchAllRoute(rt) && !routeMatches(rt.Match, q) {
						fail("catchall-sound route=%s", wire.Enc(rt.Name))
					}
				}
				// the sort is a permutation keeping the relative order of the non-catch-all routes
				var a, b []string
				for _, rt := range acc {
					if !istioroute.IsCatchAllRoute(rt) {
						a = append(a, showRoute(rt))
					}
				}
				for _, rt := range sorted {
					if !istioroute.IsCatchAllRoute(rt) {
						b = append(b, showRoute(rt))
					}
				}
				if strings.Join(a, " ") != strings.Join(b, " ") || len(sorted) != len(acc) {
					fail("sortvhost-order")
				}
			default:
				s.vhStep("vhosts", f)
			}
		}()
	}
	flush()
	_ = sort.Strings
	_ = os.Stderr
}
